(* ChrNamer (name_chromosomes) on MULTI-haplotype maps: "the first haplotype
   decides and homologues grouped with it share the number" (property C10).

   Vocabulary.  The rank-1 scaffolds reach ChrNamer as a list of
   (haplotype, index into [fused]).  We cut that list into
     sub    = (Pretext scaffold name o, indices)   one main scaffold and its unlocs
     run    = (haplotype h, list of subs)          consecutive Pretext scaffolds of h
     chrom  = list of runs, pairwise different haplotypes
   A [chrom] has the very type of the model's [chr_group]; the group that the
   model builds for it is the chromosome itself re-ordered into the order of
   [haps] and padded with empty haplotypes: [group_of haps c].

   1. build_groups_multi     the grouping loop on any list of chromosomes that
                             are separated ([sep]) yields exactly one group per
                             chromosome, [group_of haps c]; nothing is assumed
                             about the order of the haplotypes inside a
                             chromosome or about every haplotype being present
      groups_bad_iff         check_groups passes iff every chromosome has
                             exactly one Pretext scaffold in the FIRST haplotype
      two_hap_groups, k_hap_groups      the well-interleaved shapes
      two_hap_singleton_groups          + chromosomes seen in h1 only ("Singleton")
      two_hap_split_groups              + several h2 Pretext scaffolds (part 3)
   2. name_chromosomes_multi_eq / _multi / _multi_bad
                             numbers by rank of the FIRST haplotype's length
                             ([ranked], [ranked_spec]), same number for every
                             haplotype of the group, letters A, B, ... when a
                             haplotype has several Pretext scaffolds in the
                             group; ChrNamerError otherwise
      two_hap_names, k_hap_names
      first_haplotype_decides, resize_other_haplotype
   3. two_hap_split_names    <n>A, <n>B
   4. examples A, B through [name_chromosomes] by vm_compute and through the
      theorems; examples C: chromosomes not seen in every haplotype (all six
      agree with the Python ChrNamer run on the same inputs). *)
From Tola Require Import Py.Base Py.Dec Py.Sort Model.Fragment Model.Scaffold Model.Namer Model.Remap.
From Tola Require Import Proofs.BaseLemmas Proofs.Dec Proofs.NaturalKey Proofs.Naming Proofs.UniqueNames.
From Coq Require Import Lia ZifyBool Permutation Sorted.

(* ============================================================ 0. helpers *)
Lemma foldM_app_mh {A S} (f : S -> A -> res S) : forall a b st,
  foldM f (a ++ b) st = bind (foldM f a st) (foldM f b).
Proof.
  induction a as [|x a IH]; intros b st; cbn [app foldM bind]; [reflexivity|].
  destruct (f st x) as [st1|e]; cbn [bind]; [apply IH | reflexivity].
Qed.

Lemma aget_notin {V} (d : list (str * V)) k : ~ In k (map fst d) -> aget str_eqb d k = None.
Proof.
  induction d as [|[k0 v0] d IH]; cbn [aget map fst In]; [reflexivity|]. intro H.
  destruct (str_eqb k k0) eqn:E; [apply str_eqb_eq in E; subst; tauto | apply IH; tauto].
Qed.

Lemma aget_snoc {V} (d : list (str * V)) k v : ~ In k (map fst d) -> aget str_eqb (d ++ [(k, v)]) k = Some v.
Proof. intro H. rewrite aget_app_r by (apply aget_notin; exact H). cbn [aget]. rewrite str_eqb_refl. reflexivity. Qed.

Lemma aset_new {V} (d : list (str * V)) k v : ~ In k (map fst d) -> aset str_eqb d k v = d ++ [(k, v)].
Proof.
  induction d as [|[k0 v0] d IH]; cbn [aset map fst In app]; [reflexivity|]. intro H.
  destruct (str_eqb k k0) eqn:E; [apply str_eqb_eq in E; subst; tauto|]. rewrite IH by tauto. reflexivity.
Qed.

Lemma aset_snoc {V} (d : list (str * V)) k v v' : ~ In k (map fst d) ->
  aset str_eqb (d ++ [(k, v)]) k v' = d ++ [(k, v')].
Proof.
  induction d as [|[k0 v0] d IH]; cbn [aset map fst In app]; intro H.
  - rewrite str_eqb_refl. reflexivity.
  - destruct (str_eqb k k0) eqn:E; [apply str_eqb_eq in E; subst; tauto|]. rewrite IH by tauto. reflexivity.
Qed.

Lemma group_hap_in (c : chr_group) h d : NoDup (map fst c) -> In (h, d) c -> group_hap c h = d.
Proof. intros N I. unfold group_hap. rewrite (in_nodup_aget _ str_eqb_eq c h d N I). reflexivity. Qed.

Lemma group_hap_notin (c : chr_group) h : ~ In h (map fst c) -> group_hap c h = [].
Proof. intro H. unfold group_hap. rewrite aget_notin by exact H. reflexivity. Qed.

Lemma group_hap_snoc_same (c1 : chr_group) h d : ~ In h (map fst c1) -> group_hap (c1 ++ [(h, d)]) h = d.
Proof. intro H. unfold group_hap. rewrite aget_snoc by exact H. reflexivity. Qed.

Lemma group_hap_snoc_other (c1 : chr_group) h d x : x <> h -> group_hap (c1 ++ [(h, d)]) x = group_hap c1 x.
Proof.
  intro H. unfold group_hap. destruct (aget str_eqb c1 x) as [v|] eqn:E.
  - rewrite (aget_app_l _ _ _ _ _ E). reflexivity.
  - rewrite aget_app_r by exact E. cbn [aget].
    destruct (str_eqb x h) eqn:F; [apply str_eqb_eq in F; contradiction | reflexivity].
Qed.

Lemma nth_error_combine_in {A B} : forall (a : list A) (b : list B) q x y,
  nth_error a q = Some x -> nth_error b q = Some y -> In (x, y) (combine a b).
Proof.
  induction a as [|x0 a IH]; intros [|y0 b] [|q] x y Ha Hb; cbn [nth_error combine In] in *; try discriminate.
  - injection Ha as <-. injection Hb as <-. left. reflexivity.
  - right. eapply IH; eassumption.
Qed.

Lemma NoDup_app_l {A} (a b : list A) : NoDup (a ++ b) -> NoDup a.
Proof.
  induction b as [|x b IH]; [rewrite app_nil_r; tauto|].
  intro H. apply NoDup_remove_1 in H. exact (IH H).
Qed.

Lemma last_cons_dflt {A} : forall (cs : list A) x c, last (x :: cs) c = last cs x.
Proof.
  induction cs as [|y cs IH]; intros x c; [reflexivity|].
  change (last (x :: y :: cs) c) with (last (y :: cs) c). rewrite !IH. reflexivity.
Qed.

Lemma removelast_snoc_cons {A} (d : list A) x l : removelast (d ++ x :: l) = d ++ removelast (x :: l).
Proof. apply removelast_app. discriminate. Qed.

(* ============================================================ 1. grouping *)
Notation sub := (str * list nat)%type (only parsing).
Notation chrom := (list (str * list (str * list nat))) (only parsing).

Definition sub_items (h : str) (sb : sub) : list (str * nat) := map (fun i => (h, i)) (snd sb).
Definition run_items (r : str * list sub) : list (str * nat) := flat_map (sub_items (fst r)) (snd r).
Definition chrom_items (c : chrom) : list (str * nat) := flat_map run_items c.
Definition items_of (chrs : list chrom) : list (str * nat) := flat_map chrom_items chrs.

(* the scaffold fused[i] carries the tag "Singleton" (as the model looks it up) *)
Definition singleton_at (fused : list scaffold) (i : nat) : bool :=
  match nth_error fused i with
  | Some sj => mem_str (s "Singleton") (sc_orig_tags sj)
  | None => false
  end.

Definition first_idx (sb : sub) : nat := hd 0%nat (snd sb).
Definition dflt_sub : sub := ([], []).
Definition dflt_run : str * list sub := ([], []).
(* haplotype and Pretext scaffold name of the last member of a chromosome *)
Definition end_hap (c : chrom) : str := fst (last c dflt_run).
Definition end_sub (c : chrom) : sub := last (snd (last c dflt_run)) dflt_sub.
Definition end_orig (c : chrom) : str := fst (end_sub c).

(* the group of a chromosome *)
Definition grp (haps : list str) (f : str -> list sub) : chr_group := map (fun h => (h, f h)) haps.
Definition group_of (haps : list str) (c : chrom) : chr_group := grp haps (group_hap c).

(* the model's decision to open a new group, multi-haplotype branch *)
Definition need_new (fused : list scaffold) (cur : chr_group) (lh lo : option str) (h o : str) : bool :=
  match group_hap cur h with
  | [] => false
  | _ =>
      if negb (opt_eqb str_eqb (Some h) lh) then true
      else negb (opt_eqb str_eqb (Some o) lo)
           && (match lo with
               | Some l =>
                   match aget str_eqb (group_hap cur h) l with
                   | Some (j :: _) => singleton_at fused j
                   | _ => false
                   end
               | None => false
               end)
  end.

Section Grouping.
  Variable fused : list scaffold.
  Variable haps : list str.
  Hypothesis Hnd : NoDup haps.

  Definition orig_at (o : str) (i : nat) : Prop :=
    exists sc, nth_error fused i = Some sc /\ sc_orig sc = Some o.
  Definition sub_ok (sb : sub) : Prop :=
    fst sb <> [] /\ snd sb <> [] /\ Forall (orig_at (fst sb)) (snd sb).
  Definition not_singleton (sb : sub) : Prop := singleton_at fused (first_idx sb) = false.
  Definition run_ok (r : str * list sub) : Prop :=
    In (fst r) haps /\ snd r <> [] /\ Forall sub_ok (snd r) /\ NoDup (map fst (snd r))
    /\ Forall not_singleton (removelast (snd r)).
  Definition chrom_ok (c : chrom) : Prop := c <> [] /\ Forall run_ok c /\ NoDup (map fst c).

  (* [c'] comes right after [c] in the map and is NOT merged into its group *)
  Definition sep (c c' : chrom) : Prop :=
    match c' with
    | (h', sb' :: _) :: _ =>
        In h' (map fst c)
        /\ (h' <> end_hap c
            \/ (fst sb' <> end_orig c /\ singleton_at fused (first_idx (end_sub c)) = true))
    | _ => False
    end.
  Fixpoint seps (l : list chrom) : Prop :=
    match l with
    | a :: (b :: _) as t => sep a b /\ seps t
    | _ => True
    end.

  Local Notation step := (build_groups_step fused haps true).

  (* --------------------------------------------------- groups as functions *)
  Lemma aget_map_key (f : str -> list sub) : forall hs h, In h hs ->
    aget str_eqb (map (fun h => (h, f h)) hs) h = Some (f h).
  Proof.
    induction hs as [|a hs IH]; intros h I; [destruct I|]. cbn [map aget].
    destruct (str_eqb h a) eqn:E; [apply str_eqb_eq in E; subst; reflexivity|].
    destruct I as [->|I]; [rewrite str_eqb_refl in E; discriminate | apply IH, I].
  Qed.

  Lemma aset_map_key (f f' : str -> list sub) h : (forall x, x <> h -> f' x = f x) ->
    forall hs, NoDup hs -> In h hs ->
    aset str_eqb (map (fun h => (h, f h)) hs) h (f' h) = map (fun h => (h, f' h)) hs.
  Proof.
    intros Hf. induction hs as [|a hs IH]; intros N I; [destruct I|].
    inversion N as [|? ? N1 N2]; subst. cbn [map aset].
    destruct (str_eqb h a) eqn:E.
    - apply str_eqb_eq in E. subst a. f_equal. apply map_ext_in. intros x Hx.
      rewrite Hf; [reflexivity|]. intros ->. contradiction.
    - destruct I as [->|I]; [rewrite str_eqb_refl in E; discriminate|].
      rewrite (Hf a) by (intros ->; rewrite str_eqb_refl in E; discriminate).
      f_equal. apply IH; assumption.
  Qed.

  Lemma group_hap_grp f h : In h haps -> group_hap (grp haps f) h = f h.
  Proof. intro I. unfold group_hap, grp. rewrite aget_map_key by exact I. reflexivity. Qed.

  Lemma group_hap_group_of c h : In h haps -> group_hap (group_of haps c) h = group_hap c h.
  Proof. apply group_hap_grp. Qed.

  Lemma group_add_grp f f' h o i : In h haps ->
    f' h = aset str_eqb (f h) o ((match aget str_eqb (f h) o with Some l => l | None => [] end) ++ [i]) ->
    (forall x, x <> h -> f' x = f x) ->
    group_add (grp haps f) h o i = grp haps f'.
  Proof.
    intros I E Hf. unfold group_add. rewrite group_hap_grp by exact I. rewrite <- E.
    apply aset_map_key; assumption.
  Qed.

  Lemma new_group_group_of : new_group haps = group_of haps [].
  Proof. reflexivity. Qed.

  (* adding a member to the run that is being filled *)
  Lemma group_add_part c1 h d o i : In h haps -> ~ In h (map fst c1) ->
    group_add (group_of haps (c1 ++ [(h, d)])) h o i
    = group_of haps (c1 ++ [(h, aset str_eqb d o ((match aget str_eqb d o with Some l => l | None => [] end) ++ [i]))]).
  Proof.
    intros I N. unfold group_of. apply group_add_grp; [exact I | |].
    - rewrite !group_hap_snoc_same by exact N. reflexivity.
    - intros x Hx. rewrite !group_hap_snoc_other by exact Hx. reflexivity.
  Qed.

  Lemma group_of_pad c h : ~ In h (map fst c) -> group_of haps c = group_of haps (c ++ [(h, [])]).
  Proof.
    intro N. unfold group_of, grp. apply map_ext. intro x. f_equal.
    destruct (str_eqb x h) eqn:E.
    - apply str_eqb_eq in E. subst x. rewrite group_hap_snoc_same, group_hap_notin by exact N. reflexivity.
    - rewrite group_hap_snoc_other; [reflexivity|]. intros ->. rewrite str_eqb_refl in E. discriminate.
  Qed.

  Lemma group_add_new_run c h o i : In h haps -> ~ In h (map fst c) ->
    group_add (group_of haps c) h o i = group_of haps (c ++ [(h, [(o, [i])])]).
  Proof. intros I N. rewrite (group_of_pad c h N), group_add_part by assumption. reflexivity. Qed.

  (* ------------------------------------------------------ one step, opened *)
  Lemma step_eq gs cur lh lo (h : str) i sc (o : str) :
    nth_error fused i = Some sc -> sc_orig sc = Some o -> o <> [] ->
    step (mkCg (gs ++ [cur]) lh lo) (h, i)
    = Ok (if need_new fused cur lh lo h o
          then mkCg ((gs ++ [cur]) ++ [group_add (new_group haps) h o i]) (Some h) (Some o)
          else mkCg (gs ++ [group_add cur h o i]) (Some h) (Some o)).
  Proof.
    intros Hn Ho Hne. unfold build_groups_step. rewrite Hn, Ho.
    destruct o as [|a o']; [congruence|]. cbv beta iota. remember (a :: o') as orig eqn:Eo.
    cbn [cg_groups cg_last_hap cg_last_orig]. rewrite last_opt_snoc. cbv zeta.
    unfold need_new, singleton_at.
    match goal with |- context [if ?b then (gs ++ [cur]) ++ [new_group haps] else _] => destruct b end.
    - rewrite last_opt_snoc, set_last_group_snoc. reflexivity.
    - rewrite last_opt_snoc, set_last_group_snoc. reflexivity.
  Qed.

  Lemma step_stay gs c lh lo (h : str) i (o : str) : orig_at o i -> o <> [] -> In h haps ->
    need_new fused (group_of haps c) lh lo h o = false ->
    step (mkCg (gs ++ [group_of haps c]) lh lo) (h, i)
    = Ok (mkCg (gs ++ [group_add (group_of haps c) h o i]) (Some h) (Some o)).
  Proof. intros (sc & Hn & Ho) Hne I E. rewrite (step_eq _ _ _ _ _ _ sc o Hn Ho Hne), E. reflexivity. Qed.

  (* another member of the Pretext scaffold that was added last (an unloc) *)
  Lemma step_same_sub gs c1 (h : str) d1 (o : str) l i :
    In h haps -> ~ In h (map fst c1) -> ~ In o (map fst d1) -> o <> [] -> orig_at o i ->
    step (mkCg (gs ++ [group_of haps (c1 ++ [(h, d1 ++ [(o, l)])])]) (Some h) (Some o)) (h, i)
    = Ok (mkCg (gs ++ [group_of haps (c1 ++ [(h, d1 ++ [(o, l ++ [i])])])]) (Some h) (Some o)).
  Proof.
    intros I Nh No Hne Hi. rewrite (step_stay _ _ _ _ _ _ o Hi Hne I).
    - rewrite group_add_part by assumption. rewrite aget_snoc, aset_snoc by exact No. reflexivity.
    - unfold need_new. rewrite group_hap_group_of, group_hap_snoc_same by assumption.
      destruct (d1 ++ [(o, l)]) eqn:E; [destruct d1; discriminate|].
      cbn [opt_eqb]. rewrite !str_eqb_refl. reflexivity.
  Qed.

  Lemma fold_same_sub : forall idxs gs c1 (h : str) d1 (o : str) l,
    In h haps -> ~ In h (map fst c1) -> ~ In o (map fst d1) -> o <> [] -> Forall (orig_at o) idxs ->
    foldM step (map (fun i => (h, i)) idxs)
          (mkCg (gs ++ [group_of haps (c1 ++ [(h, d1 ++ [(o, l)])])]) (Some h) (Some o))
    = Ok (mkCg (gs ++ [group_of haps (c1 ++ [(h, d1 ++ [(o, l ++ idxs)])])]) (Some h) (Some o)).
  Proof.
    induction idxs as [|i idxs IH]; intros gs c1 h d1 o l I Nh No Hne F; cbn [map foldM].
    - rewrite app_nil_r. reflexivity.
    - inversion F as [|? ? F1 F2]; subst.
      rewrite step_same_sub by assumption. cbn [bind]. rewrite IH by assumption.
      rewrite <- app_assoc. reflexivity.
  Qed.

  (* a further Pretext scaffold of the same haplotype, previous one not a Singleton *)
  Lemma step_new_sub gs c1 (h : str) d (o : str) l (o' : str) i :
    In h haps -> ~ In h (map fst c1) -> aget str_eqb d o = Some l -> ~ In o' (map fst d) ->
    singleton_at fused (hd 0%nat l) = false -> o' <> [] -> orig_at o' i ->
    step (mkCg (gs ++ [group_of haps (c1 ++ [(h, d)])]) (Some h) (Some o)) (h, i)
    = Ok (mkCg (gs ++ [group_of haps (c1 ++ [(h, d ++ [(o', [i])])])]) (Some h) (Some o')).
  Proof.
    intros I Nh Ho No' Hs Hne Hi. rewrite (step_stay _ _ _ _ _ _ o' Hi Hne I).
    - rewrite group_add_part by assumption. rewrite aget_notin, aset_new by exact No'. reflexivity.
    - unfold need_new. rewrite group_hap_group_of, group_hap_snoc_same by assumption.
      destruct d as [|x d']; [reflexivity|]. cbn [opt_eqb]. rewrite str_eqb_refl. cbn [negb].
      rewrite Ho. destruct l as [|j l']; [apply andb_false_r|]. cbn [hd] in Hs. rewrite Hs. apply andb_false_r.
  Qed.

  (* the first member of a haplotype that the current group does not have yet *)
  Lemma step_new_run gs c lh lo (h : str) (o : str) i :
    In h haps -> ~ In h (map fst c) -> o <> [] -> orig_at o i ->
    step (mkCg (gs ++ [group_of haps c]) lh lo) (h, i)
    = Ok (mkCg (gs ++ [group_of haps (c ++ [(h, [(o, [i])])])]) (Some h) (Some o)).
  Proof.
    intros I Nh Hne Hi. rewrite (step_stay _ _ _ _ _ _ o Hi Hne I).
    - rewrite group_add_new_run by assumption. reflexivity.
    - unfold need_new. rewrite group_hap_group_of, group_hap_notin by assumption. reflexivity.
  Qed.

  (* the first member of a new chromosome *)
  Lemma step_new_chrom gs c lh lo (h : str) (o : str) i :
    In h haps -> o <> [] -> orig_at o i -> need_new fused (group_of haps c) lh lo h o = true ->
    step (mkCg (gs ++ [group_of haps c]) lh lo) (h, i)
    = Ok (mkCg ((gs ++ [group_of haps c]) ++ [group_of haps ([] ++ [(h, [(o, [i])])])]) (Some h) (Some o)).
  Proof.
    intros I Hne (sc & Hn & Ho) E. rewrite (step_eq _ _ _ _ _ _ sc o Hn Ho Hne), E.
    rewrite new_group_group_of, group_add_new_run; [reflexivity | exact I | intros []].
  Qed.

  (* ------------------------------------- the rest of a run, after its head *)
  Lemma last_snoc_fst (d : list sub) sb : fst (last (d ++ [sb]) dflt_sub) = fst sb.
  Proof. rewrite last_last. reflexivity. Qed.

  Lemma fold_rest_subs : forall ss gs c1 (h : str) d1,
    In h haps -> ~ In h (map fst c1) -> d1 <> [] ->
    Forall sub_ok (d1 ++ ss) -> NoDup (map fst (d1 ++ ss)) ->
    Forall not_singleton (removelast (d1 ++ ss)) ->
    foldM step (flat_map (sub_items h) ss)
          (mkCg (gs ++ [group_of haps (c1 ++ [(h, d1)])]) (Some h) (Some (fst (last d1 dflt_sub))))
    = Ok (mkCg (gs ++ [group_of haps (c1 ++ [(h, d1 ++ ss)])]) (Some h)
               (Some (fst (last (d1 ++ ss) dflt_sub)))).
  Proof.
    induction ss as [|[o' idxs'] ss IH]; intros gs c1 h d1 I Nh Hd1 Fok Nd Fns.
    - cbn [flat_map foldM]. rewrite app_nil_r. reflexivity.
    - destruct (exists_last Hd1) as (d0 & [o l] & ->).
      assert (Hsb : sub_ok (o', idxs')).
      { rewrite Forall_forall in Fok. apply Fok. apply in_or_app. right. left. reflexivity. }
      destruct Hsb as (Ho' & Hi' & Fo'). cbn [fst snd] in Ho', Hi', Fo'.
      destruct idxs' as [|i0 rest]; [congruence|]. inversion Fo' as [|? ? Fo1 Fo2]; subst.
      assert (Nd0 : NoDup (map fst (d0 ++ [(o, l)])) /\ ~ In o' (map fst (d0 ++ [(o, l)]))
                    /\ NoDup (map fst ((d0 ++ [(o, l)]) ++ [(o', i0 :: rest)]))).
      { rewrite map_app in Nd. cbn [map fst] in Nd. split; [eapply NoDup_app_l; exact Nd|]. split.
        - apply NoDup_remove_2 in Nd. intro X. apply Nd. apply in_or_app. left. exact X.
        - rewrite map_app. cbn [map fst]. apply NoDup_snoc'.
          + eapply NoDup_app_l; exact Nd.
          + apply NoDup_remove_2 in Nd. intro X. apply Nd. apply in_or_app. left. exact X. }
      destruct Nd0 as (Nd1 & No' & Nd2).
      assert (No : ~ In o (map fst d0)).
      { rewrite map_app in Nd1. cbn [map fst] in Nd1. apply NoDup_remove_2 in Nd1.
        rewrite app_nil_r in Nd1. exact Nd1. }
      assert (Hns : not_singleton (o, l)).
      { rewrite removelast_snoc_cons in Fns. rewrite Forall_forall in Fns. apply Fns.
        apply in_or_app. left. apply in_or_app. right. left. reflexivity. }
      cbn [flat_map]. unfold sub_items at 1. cbn [snd map app].
      rewrite last_snoc_fst. cbn [fst]. cbn [foldM].
      rewrite (step_new_sub gs c1 h (d0 ++ [(o, l)]) o l o' i0); try assumption;
        [| apply aget_snoc; exact No].
      cbn [bind]. rewrite foldM_app_mh.
      rewrite (fold_same_sub rest gs c1 h (d0 ++ [(o, l)]) o' [i0]) by assumption.
      cbn [bind app].
      assert (X := IH gs c1 h ((d0 ++ [(o, l)]) ++ [(o', i0 :: rest)]) I Nh).
      rewrite (last_snoc_fst (d0 ++ [(o, l)]) (o', i0 :: rest)) in X. cbn [fst] in X.
      rewrite <- !app_assoc in X. cbn [app] in X. rewrite <- !app_assoc. cbn [app]. apply X.
      + intro Y. apply app_eq_nil in Y as [_ Y]. discriminate.
      + rewrite <- !app_assoc in Fok. exact Fok.
      + rewrite <- !app_assoc in Nd. exact Nd.
      + rewrite <- !app_assoc in Fns. exact Fns.
  Qed.

  (* a whole run whose first member has just been added *)
  Lemma fold_run_tail gs c1 (h : str) (o : str) i0 rest ss :
    run_ok (h, (o, i0 :: rest) :: ss) -> ~ In h (map fst c1) ->
    foldM step (map (fun i => (h, i)) rest ++ flat_map (sub_items h) ss)
          (mkCg (gs ++ [group_of haps (c1 ++ [(h, [(o, [i0])])])]) (Some h) (Some o))
    = Ok (mkCg (gs ++ [group_of haps (c1 ++ [(h, (o, i0 :: rest) :: ss)])]) (Some h)
               (Some (fst (last ((o, i0 :: rest) :: ss) dflt_sub)))).
  Proof.
    intros (I & _ & Fok & Nd & Fns) Nh. cbn [fst snd] in *.
    inversion Fok as [|? ? (Ho & _ & Fo) _]; subst. cbn [fst snd] in Ho, Fo.
    inversion Fo as [|? ? _ Fo2]; subst.
    rewrite foldM_app_mh.
    assert (X := fold_same_sub rest gs c1 h [] o [i0] I Nh (fun x => x) Ho Fo2).
    cbn [app] in X. rewrite X. cbn [bind].
    apply (fold_rest_subs ss gs c1 h [(o, i0 :: rest)]); try assumption. discriminate.
  Qed.

  (* ------------------------------------ the rest of a chromosome's runs *)
  Lemma end_hap_snoc c r : end_hap (c ++ [r]) = fst r.
  Proof. unfold end_hap. rewrite last_last. reflexivity. Qed.
  Lemma end_orig_snoc c r : end_orig (c ++ [r]) = fst (last (snd r) dflt_sub).
  Proof. unfold end_orig, end_sub. rewrite last_last. reflexivity. Qed.

  Lemma fold_rest_runs : forall rs gs c1, c1 <> [] ->
    Forall run_ok (c1 ++ rs) -> NoDup (map fst (c1 ++ rs)) ->
    foldM step (flat_map run_items rs)
          (mkCg (gs ++ [group_of haps c1]) (Some (end_hap c1)) (Some (end_orig c1)))
    = Ok (mkCg (gs ++ [group_of haps (c1 ++ rs)]) (Some (end_hap (c1 ++ rs))) (Some (end_orig (c1 ++ rs)))).
  Proof.
    induction rs as [|[h subs] rs IH]; intros gs c1 Hc1 Fok Nd.
    - cbn [flat_map foldM]. rewrite app_nil_r. reflexivity.
    - assert (Hr : run_ok (h, subs)).
      { rewrite Forall_forall in Fok. apply Fok. apply in_or_app. right. left. reflexivity. }
      assert (Nh : ~ In h (map fst c1)).
      { rewrite map_app in Nd. cbn [map fst] in Nd. apply NoDup_remove_2 in Nd.
        intro X. apply Nd. apply in_or_app. left. exact X. }
      pose proof Hr as (I & Hs & Fs & _). cbn [fst snd] in I, Hs, Fs.
      destruct subs as [|[o idxs] ss]; [congruence|].
      inversion Fs as [|? ? (Ho & Hi & Fo) _]; subst. cbn [fst snd] in Ho, Hi, Fo.
      destruct idxs as [|i0 rest]; [congruence|]. inversion Fo as [|? ? Fo1 _]; subst.
      cbn [flat_map]. rewrite foldM_app_mh. unfold run_items at 1. cbn [fst snd flat_map].
      unfold sub_items at 1. cbn [snd map app foldM].
      rewrite (step_new_run gs c1 _ _ h o i0) by assumption. cbn [bind].
      rewrite (fold_run_tail gs c1 h o i0 rest ss Hr Nh). cbn [bind].
      replace (Some h) with (Some (end_hap (c1 ++ [(h, (o, i0 :: rest) :: ss)])))
        by (rewrite end_hap_snoc; reflexivity).
      replace (Some (fst (last ((o, i0 :: rest) :: ss) dflt_sub)))
        with (Some (end_orig (c1 ++ [(h, (o, i0 :: rest) :: ss)])))
        by (rewrite end_orig_snoc; reflexivity).
      rewrite IH.
      + rewrite <- !app_assoc. reflexivity.
      + intro X. apply app_eq_nil in X as [_ X]. discriminate.
      + rewrite <- app_assoc. exact Fok.
      + rewrite <- app_assoc. exact Nd.
  Qed.

  (* a whole chromosome whose first member has just been added *)
  Lemma fold_chrom_tail gs (h : str) (o : str) i0 rest ss rs :
    chrom_ok ((h, (o, i0 :: rest) :: ss) :: rs) ->
    foldM step ((map (fun i => (h, i)) rest ++ flat_map (sub_items h) ss) ++ flat_map run_items rs)
          (mkCg (gs ++ [group_of haps ([] ++ [(h, [(o, [i0])])])]) (Some h) (Some o))
    = Ok (mkCg (gs ++ [group_of haps ((h, (o, i0 :: rest) :: ss) :: rs)])
               (Some (end_hap ((h, (o, i0 :: rest) :: ss) :: rs)))
               (Some (end_orig ((h, (o, i0 :: rest) :: ss) :: rs)))).
  Proof.
    intros (_ & Fok & Nd). inversion Fok as [|? ? Hr _]; subst.
    rewrite foldM_app_mh. rewrite (fold_run_tail gs [] h o i0 rest ss Hr); [|intros []].
    cbn [bind app].
    apply (fold_rest_runs rs gs [(h, (o, i0 :: rest) :: ss)]); [discriminate | exact Fok | exact Nd].
  Qed.

  Lemma chrom_items_head (h : str) (o : str) i0 rest ss rs :
    chrom_items ((h, (o, i0 :: rest) :: ss) :: rs)
    = (h, i0) :: (map (fun i => (h, i)) rest ++ flat_map (sub_items h) ss) ++ flat_map run_items rs.
  Proof. reflexivity. Qed.

  Lemma chrom_ok_head c : chrom_ok c ->
    exists h o i0 rest ss rs, c = (h, (o, i0 :: rest) :: ss) :: rs /\ In h haps /\ o <> [] /\ orig_at o i0.
  Proof.
    intros (Hc & Fok & _). destruct c as [|[h subs] rs]; [congruence|].
    inversion Fok as [|? ? (I & Hs & Fs & _) _]; subst. cbn [fst snd] in I, Hs, Fs.
    destruct subs as [|[o idxs] ss]; [congruence|].
    inversion Fs as [|? ? (Ho & Hi & Fo) _]; subst. cbn [fst snd] in Ho, Hi, Fo.
    destruct idxs as [|i0 rest]; [congruence|]. inversion Fo; subst.
    exists h, o, i0, rest, ss, rs. auto.
  Qed.

  (* [sep] is exactly what makes the model open a new group *)
  Lemma sep_need_new c (h : str) sb ss rs : chrom_ok c -> sep c ((h, sb :: ss) :: rs) -> In h haps ->
    need_new fused (group_of haps c) (Some (end_hap c)) (Some (end_orig c)) h (fst sb) = true.
  Proof.
    intros (Hc & Fok & Nd) (Ih & S) I. unfold need_new. rewrite group_hap_group_of by exact I.
    apply in_map_iff in Ih as ([h' subs] & E & Ic). cbn [fst] in E. subst h'.
    rewrite (group_hap_in c h subs Nd Ic).
    assert (Hr : run_ok (h, subs)) by (rewrite Forall_forall in Fok; exact (Fok _ Ic)).
    destruct Hr as (_ & Hs & Fs & Ns & _). cbn [fst snd] in Hs, Fs, Ns.
    destruct subs as [|x subs']; [congruence|]. set (subs := x :: subs') in *.
    cbn [opt_eqb]. destruct (str_eqb h (end_hap c)) eqn:E; [|reflexivity]. cbn [negb].
    apply str_eqb_eq in E. destruct S as [S|[S1 S2]]; [contradiction|].
    destruct (str_eqb (fst sb) (end_orig c)) eqn:F; [apply str_eqb_eq in F; contradiction|]. cbn [negb andb].
    (* the run of h is the last run of c *)
    destruct (exists_last Hc) as (c0 & [hl subsl] & Ec).
    assert (hl = h) by (rewrite E, Ec, end_hap_snoc; reflexivity). subst hl.
    assert (subsl = subs).
    { assert (X : In (h, subsl) c) by (rewrite Ec; apply in_or_app; right; left; reflexivity).
      rewrite <- (group_hap_in c h subsl Nd X). apply group_hap_in; assumption. }
    subst subsl.
    assert (Hs' : subs <> []) by discriminate.
    destruct (exists_last Hs') as (d0 & [ol l] & Es).
    assert (Eo : end_orig c = ol) by (rewrite Ec, end_orig_snoc; cbn [snd]; rewrite Es, last_last; reflexivity).
    assert (Eb : end_sub c = (ol, l)).
    { unfold end_sub. rewrite Ec, last_last. cbn [snd]. rewrite Es, last_last. reflexivity. }
    rewrite Eo. rewrite Es. rewrite aget_snoc.
    - rewrite Eb in S2. unfold first_idx in S2. cbn [snd] in S2.
      assert (Hl : sub_ok (ol, l)).
      { rewrite Forall_forall in Fs. apply Fs. rewrite Es. apply in_or_app. right. left. reflexivity. }
      destruct Hl as (_ & Hl & _). cbn [snd] in Hl. destruct l as [|j l']; [congruence|]. exact S2.
    - rewrite Es, map_app in Ns. cbn [map fst] in Ns. apply NoDup_remove_2 in Ns.
      rewrite app_nil_r in Ns. exact Ns.
  Qed.

  Lemma fold_rest_chroms : forall cs gs c, chrom_ok c -> Forall chrom_ok cs -> seps (c :: cs) ->
    foldM step (items_of cs) (mkCg (gs ++ [group_of haps c]) (Some (end_hap c)) (Some (end_orig c)))
    = Ok (mkCg (gs ++ [group_of haps c] ++ map (group_of haps) cs)
               (Some (end_hap (last cs c))) (Some (end_orig (last cs c)))).
  Proof.
    induction cs as [|c' cs IH]; intros gs c Hc Fok S.
    - cbn [items_of flat_map foldM map last]. reflexivity.
    - inversion Fok as [|? ? Hc' Fok']; subst. destruct S as [S1 S2].
      destruct (chrom_ok_head c' Hc') as (h & o & i0 & rest & ss & rs & -> & I & Ho & Hi).
      unfold items_of. cbn [flat_map]. fold (items_of cs). rewrite foldM_app_mh, chrom_items_head. cbn [foldM].
      rewrite (step_new_chrom gs c _ _ h o i0 I Ho Hi (sep_need_new c h (o, i0 :: rest) ss rs Hc S1 I)).
      cbn [bind]. rewrite (fold_chrom_tail (gs ++ [group_of haps c]) h o i0 rest ss rs Hc'). cbn [bind].
      rewrite (IH (gs ++ [group_of haps c]) _ Hc' Fok' S2).
      cbn [map]. rewrite <- !app_assoc. cbn [app].
      rewrite last_cons_dflt. reflexivity.
  Qed.

  (* ----------------------------------------------------- the main theorem *)
  Theorem build_groups_multi : forall c0 chrs,
    Forall chrom_ok (c0 :: chrs) -> seps (c0 :: chrs) ->
    foldM step (items_of (c0 :: chrs)) (mkCg [new_group haps] None None)
    = Ok (mkCg (map (group_of haps) (c0 :: chrs))
               (Some (end_hap (last chrs c0))) (Some (end_orig (last chrs c0)))).
  Proof.
    intros c0 chrs Fok S. inversion Fok as [|? ? Hc0 Fok']; subst.
    destruct (chrom_ok_head c0 Hc0) as (h & o & i0 & rest & ss & rs & -> & I & Ho & Hi).
    unfold items_of. cbn [flat_map]. fold (items_of chrs). rewrite foldM_app_mh, chrom_items_head. cbn [foldM].
    rewrite new_group_group_of.
    change [group_of haps []] with ([] ++ [group_of haps []]).
    rewrite (step_new_run [] [] None None h o i0 I (fun x => x) Ho Hi). cbn [bind].
    rewrite (fold_chrom_tail [] h o i0 rest ss rs Hc0). cbn [bind].
    rewrite (fold_rest_chroms chrs [] _ Hc0 Fok' S). reflexivity.
  Qed.

  (* which chromosomes make check_groups raise ChrNamerError *)
  Definition first_hap_single (c : chrom) : Prop :=
    match haps with
    | [] => True
    | h0 :: _ => exists sb, group_hap c h0 = [sb]
    end.

  Lemma group_bad_group_of c : group_bad haps (group_of haps c) = false <-> first_hap_single c.
  Proof.
    unfold group_bad, first_hap_single. destruct haps as [|h0 hs] eqn:E; [tauto|].
    assert (I : In h0 haps) by (rewrite E; left; reflexivity).
    rewrite <- E, group_hap_group_of by exact I.
    destruct (group_hap c h0) as [|x [|y l]]; split; intro H; try discriminate; try reflexivity.
    - destruct H as (sb & H). discriminate.
    - exists x. reflexivity.
    - destruct H as (sb & H). discriminate.
  Qed.

  Theorem groups_bad_iff chrs :
    existsb (group_bad haps) (map (group_of haps) chrs) = false <-> Forall first_hap_single chrs.
  Proof.
    induction chrs as [|c chrs IH]; cbn [map existsb]; [split; [constructor | reflexivity]|].
    rewrite orb_false_iff, IH, group_bad_group_of. split.
    - intros [A B]. constructor; assumption.
    - intro F. inversion F; subst. split; assumption.
  Qed.

  (* a chromosome that has every haplotype, in the order of [haps], is its own group *)
  Lemma group_of_self c : map fst c = haps -> group_of haps c = c.
  Proof.
    intro E. unfold group_of, grp. rewrite <- E at 1. rewrite map_map.
    rewrite <- (map_id c) at 2. apply map_ext_in. intros [h d] I. cbn [fst].
    rewrite (group_hap_in c h d); [reflexivity | rewrite E; exact Hnd | exact I].
  Qed.
End Grouping.

(* ---------------------------------------------- 1b. well-interleaved shapes *)
Lemma seps_pairwise fused (l : list chrom) :
  (forall a b, In a l -> In b l -> sep fused a b) -> seps fused l.
Proof.
  induction l as [|a [|b l] IH]; intro H; cbn [seps]; try exact Logic.I.
  split; [apply H; [left; reflexivity | right; left; reflexivity]|].
  apply IH. intros x y Hx Hy. apply H; right; assumption.
Qed.

Lemma end_hap_last (c : chrom) : end_hap c = last (map fst c) [].
Proof.
  unfold end_hap. induction c as [|r [|r' c] IH]; [reflexivity | reflexivity|].
  change (fst (last (r' :: c) dflt_run) = last (map fst (r' :: c)) []). exact IH.
Qed.

(* k >= 2 haplotypes, every chromosome has one Pretext scaffold (with its
   unlocs) in every haplotype, the haplotypes always in the same order *)
Definition chromk (haps : list str) (sbs : list sub) : chrom := combine haps (map (fun sb => [sb]) sbs).

Lemma chromk_keys haps sbs : length sbs = length haps -> map fst (chromk haps sbs) = haps.
Proof. intro L. unfold chromk. apply map_fst_combine. rewrite map_length. symmetry. exact L. Qed.

Lemma chromk_ok fused haps sbs : NoDup haps -> haps <> [] -> length sbs = length haps ->
  Forall (sub_ok fused) sbs -> chrom_ok fused haps (chromk haps sbs).
Proof.
  intros N Hne L F. split; [|split].
  - intro E. apply (f_equal (map fst)) in E. rewrite chromk_keys in E by exact L. exact (Hne E).
  - apply Forall_forall. intros [h d] I. unfold chromk in I.
    pose proof (in_combine_l _ _ _ _ I) as I1. pose proof (in_combine_r _ _ _ _ I) as I2.
    apply in_map_iff in I2 as (sb & <- & I2). rewrite Forall_forall in F.
    split; [exact I1|]. cbn [fst snd]. split; [discriminate|]. split; [constructor; [apply F, I2 | constructor]|].
    split; [constructor; [intros [] | constructor] | constructor].
  - rewrite chromk_keys by exact L. exact N.
Qed.

Lemma chromk_sep fused h0 h1 hs a b : NoDup (h0 :: h1 :: hs) ->
  length a = length (h0 :: h1 :: hs) -> length b = length (h0 :: h1 :: hs) ->
  sep fused (chromk (h0 :: h1 :: hs) a) (chromk (h0 :: h1 :: hs) b).
Proof.
  intros N La Lb. destruct b as [|sb b]; [discriminate|]. unfold sep.
  change (chromk (h0 :: h1 :: hs) (sb :: b)) with ((h0, [sb]) :: combine (h1 :: hs) (map (fun sb => [sb]) b)).
  cbv beta iota. rewrite chromk_keys by exact La. split; [left; reflexivity|].
  left. rewrite end_hap_last, chromk_keys by exact La. inversion N as [|? ? N1 _]; subst.
  intro E. apply N1. rewrite E. change (last (h0 :: h1 :: hs) []) with (last (h1 :: hs) (@nil Ascii.ascii)).
  destruct (exists_last (l := h1 :: hs)) as (l' & x & ->); [discriminate|]. rewrite last_last.
  apply in_or_app. right. left. reflexivity.
Qed.

Theorem k_hap_groups : forall fused haps (chrs : list (list sub)),
  NoDup haps -> (2 <= length haps)%nat -> chrs <> [] ->
  Forall (fun sbs => length sbs = length haps /\ Forall (sub_ok fused) sbs) chrs ->
  exists st,
    foldM (build_groups_step fused haps true) (items_of (map (chromk haps) chrs)) (mkCg [new_group haps] None None) = Ok st
    /\ cg_groups st = map (chromk haps) chrs
    /\ existsb (group_bad haps) (cg_groups st) = false.
Proof.
  intros fused haps chrs N L Hne F.
  destruct haps as [|h0 [|h1 hs]]; cbn [length] in L; try lia.
  set (haps := h0 :: h1 :: hs) in *.
  assert (Fok : Forall (chrom_ok fused haps) (map (chromk haps) chrs)).
  { apply Forall_forall. intros c I. apply in_map_iff in I as (sbs & <- & I).
    rewrite Forall_forall in F. destruct (F sbs I) as [L1 L2]. apply chromk_ok; try assumption. discriminate. }
  assert (S : seps fused (map (chromk haps) chrs)).
  { apply seps_pairwise. intros a b Ia Ib.
    apply in_map_iff in Ia as (sa & <- & Ia). apply in_map_iff in Ib as (sb & <- & Ib).
    rewrite Forall_forall in F. apply chromk_sep; [exact N | apply (F sa Ia) | apply (F sb Ib)]. }
  assert (G : map (group_of haps) (map (chromk haps) chrs) = map (chromk haps) chrs).
  { rewrite map_map. apply map_ext_in. intros sbs I. rewrite Forall_forall in F.
    apply group_of_self; [exact N | apply chromk_keys, (F sbs I)]. }
  destruct chrs as [|c0 chrs]; [congruence|]. cbn [map] in Fok, S.
  eexists. split; [apply (build_groups_multi fused haps N _ _ Fok S)|]. cbn [cg_groups].
  split; [exact G|]. change (chromk haps c0 :: map (chromk haps) chrs) with (map (chromk haps) (c0 :: chrs)).
  apply (groups_bad_iff haps N). apply Forall_forall. intros c I.
  apply in_map_iff in I as (sbs & <- & I). rewrite Forall_forall in F. destruct (F sbs I) as [L1 _].
  unfold first_hap_single, haps. destruct sbs as [|sb sbs]; [discriminate|]. exists sb.
  unfold chromk. cbn [combine map]. unfold group_hap. cbn [aget]. rewrite str_eqb_refl. reflexivity.
Qed.

(* two haplotypes: chromosome i = its h1 scaffold (and unlocs), then its h2
   scaffold (and unlocs) *)
Definition chrom2 (h1 h2 : str) (p : sub * sub) : chrom := [(h1, [fst p]); (h2, [snd p])].

Theorem two_hap_groups : forall fused h1 h2 (pairs : list (sub * sub)),
  h1 <> h2 -> pairs <> [] ->
  Forall (fun p => sub_ok fused (fst p) /\ sub_ok fused (snd p)) pairs ->
  exists st,
    foldM (build_groups_step fused [h1; h2] true) (items_of (map (chrom2 h1 h2) pairs))
          (mkCg [new_group [h1; h2]] None None) = Ok st
    /\ cg_groups st = map (chrom2 h1 h2) pairs
    /\ existsb (group_bad [h1; h2]) (cg_groups st) = false.
Proof.
  intros fused h1 h2 pairs Hne Hp F.
  assert (E : map (chrom2 h1 h2) pairs = map (chromk [h1; h2]) (map (fun p => [fst p; snd p]) pairs)).
  { rewrite map_map. reflexivity. }
  rewrite E. apply k_hap_groups.
  - constructor; [intros [X|[]]; congruence|]. constructor; [intros [] | constructor].
  - cbn [length]. lia.
  - destruct pairs; [congruence | discriminate].
  - apply Forall_forall. intros sbs I. apply in_map_iff in I as (p & <- & I).
    rewrite Forall_forall in F. destruct (F p I) as [A B].
    split; [reflexivity|]. constructor; [exact A|]. constructor; [exact B | constructor].
Qed.

(* (a) two haplotypes, some chromosomes seen in the first haplotype only.
   Such a chromosome stays alone exactly when its main scaffold carries the
   tag "Singleton" (and the next h1 scaffold has another Pretext name). *)
Inductive chr2 := Pair (a b : sub) | Single (a : sub).
Definition hap1_sub (x : chr2) : sub := match x with Pair a _ => a | Single a => a end.
Definition chrom_of2 (h1 h2 : str) (x : chr2) : chrom :=
  match x with Pair a b => [(h1, [a]); (h2, [b])] | Single a => [(h1, [a])] end.
Definition group_of2 (h1 h2 : str) (x : chr2) : chr_group :=
  match x with Pair a b => [(h1, [a]); (h2, [b])] | Single a => [(h1, [a]); (h2, [])] end.
Definition chr2_ok (fused : list scaffold) (x : chr2) : Prop :=
  match x with Pair a b => sub_ok fused a /\ sub_ok fused b | Single a => sub_ok fused a end.
Fixpoint singles_tagged (fused : list scaffold) (l : list chr2) : Prop :=
  match l with
  | x :: (y :: _) as t =>
      match x with
      | Single a => singleton_at fused (first_idx a) = true /\ fst (hap1_sub y) <> fst a
      | Pair _ _ => True
      end /\ singles_tagged fused t
  | _ => True
  end.

Lemma group_of_chrom_of2 h1 h2 x : h1 <> h2 -> group_of [h1; h2] (chrom_of2 h1 h2 x) = group_of2 h1 h2 x.
Proof.
  intro Hne. assert (E : str_eqb h2 h1 = false) by (apply str_eqb_neq; congruence).
  destruct x as [a b|a]; unfold group_of, grp, group_hap; cbn [map chrom_of2 group_of2 aget];
    rewrite ?str_eqb_refl, ?E; reflexivity.
Qed.

Theorem two_hap_singleton_groups : forall fused h1 h2 (xs : list chr2),
  h1 <> h2 -> xs <> [] -> Forall (chr2_ok fused) xs -> singles_tagged fused xs ->
  exists st,
    foldM (build_groups_step fused [h1; h2] true) (items_of (map (chrom_of2 h1 h2) xs))
          (mkCg [new_group [h1; h2]] None None) = Ok st
    /\ cg_groups st = map (group_of2 h1 h2) xs
    /\ existsb (group_bad [h1; h2]) (cg_groups st) = false.
Proof.
  intros fused h1 h2 xs Hne Hx F T.
  assert (N : NoDup [h1; h2]).
  { constructor; [intros [X|[]]; congruence|]. constructor; [intros [] | constructor]. }
  assert (Fok : Forall (chrom_ok fused [h1; h2]) (map (chrom_of2 h1 h2) xs)).
  { apply Forall_forall. intros c I. apply in_map_iff in I as (x & <- & I).
    rewrite Forall_forall in F. specialize (F x I).
    assert (R : forall h sb, In h [h1; h2] -> sub_ok fused sb -> run_ok fused [h1; h2] (h, [sb])).
    { intros h sb Ih Hs. split; [exact Ih|]. cbn [fst snd]. split; [discriminate|].
      split; [constructor; [exact Hs | constructor]|].
      split; [constructor; [intros [] | constructor] | constructor]. }
    destruct x as [a b|a]; cbn [chr2_ok chrom_of2] in *.
    - destruct F as [A B]. split; [discriminate|]. split; [|exact N].
      constructor; [apply R; [left; reflexivity | exact A]|].
      constructor; [apply R; [right; left; reflexivity | exact B] | constructor].
    - split; [discriminate|]. split.
      + constructor; [apply R; [left; reflexivity | exact F] | constructor].
      + constructor; [intros [] | constructor]. }
  assert (S : seps fused (map (chrom_of2 h1 h2) xs)).
  { clear Fok F Hx. induction xs as [|x [|y xs] IH]; cbn [map seps]; try exact Logic.I.
    destruct T as [T1 T2]. split; [|apply IH; exact T2].
    assert (Ey : exists sb ss rs, chrom_of2 h1 h2 y = (h1, sb :: ss) :: rs /\ sb = hap1_sub y).
    { destruct y; cbn; eexists; eexists; eexists; split; reflexivity. }
    destruct Ey as (sb & ss & rs & -> & ->). unfold sep.
    destruct x as [a b|a]; cbn [chrom_of2 map fst].
    - split; [left; reflexivity|]. left. exact Hne.
    - split; [left; reflexivity|]. right. destruct T1 as [T1a T1b].
      unfold end_orig, end_sub. cbn [last snd]. split; assumption. }
  assert (G : map (group_of [h1; h2]) (map (chrom_of2 h1 h2) xs) = map (group_of2 h1 h2) xs).
  { rewrite map_map. apply map_ext. intro x. apply group_of_chrom_of2, Hne. }
  destruct xs as [|x0 xs]; [congruence|]. cbn [map] in Fok, S.
  eexists. split; [apply (build_groups_multi fused [h1; h2] N _ _ Fok S)|]. cbn [cg_groups].
  split; [exact G|].
  change (chrom_of2 h1 h2 x0 :: map (chrom_of2 h1 h2) xs) with (map (chrom_of2 h1 h2) (x0 :: xs)).
  apply (groups_bad_iff [h1; h2] N). apply Forall_forall. intros c I.
  apply in_map_iff in I as (x & <- & I). unfold first_hap_single.
  destruct x as [a b|a]; exists a; unfold group_hap; cbn [chrom_of2 aget]; rewrite str_eqb_refl; reflexivity.
Qed.

(* ============================================================ 2. numbering *)
(* ------------------------------------------------------- sorting helpers *)
Section SortHelpers.
  Context {A B : Type}.

  Lemma insert_front_in (le : A -> A -> bool) x y l : In y (insert_front le x l) -> y = x \/ In y l.
  Proof.
    induction l as [|z l IH]; cbn [insert_front In]; [intros [->|[]]; auto|].
    destruct (le x z); cbn [In]; intro H.
    - destruct H as [->|[->|H]]; auto.
    - destruct H as [->|H]; [auto|]. destruct (IH H); auto.
  Qed.

  Lemma stable_sort_in (le : A -> A -> bool) y l : In y (stable_sort le l) -> In y l.
  Proof.
    induction l as [|x l IH]; cbn [stable_sort In]; [tauto|]. intro H.
    apply insert_front_in in H as [->|H]; auto.
  Qed.

  Lemma insert_front_ext_in (le le' : A -> A -> bool) x l :
    (forall y, In y l -> le x y = le' x y) -> insert_front le x l = insert_front le' x l.
  Proof.
    induction l as [|z l IH]; intro H; cbn [insert_front]; [reflexivity|].
    rewrite <- (H z) by (left; reflexivity). destruct (le x z); [reflexivity|].
    f_equal. apply IH. intros y Hy. apply H. right. exact Hy.
  Qed.

  Lemma stable_sort_ext_in (le le' : A -> A -> bool) l :
    (forall x y, In x l -> In y l -> le x y = le' x y) -> stable_sort le l = stable_sort le' l.
  Proof.
    induction l as [|x l IH]; intro H; cbn [stable_sort]; [reflexivity|].
    rewrite <- IH by (intros; apply H; right; assumption).
    apply insert_front_ext_in. intros y Hy. apply H; [left; reflexivity | right].
    eapply stable_sort_in. exact Hy.
  Qed.

  Lemma insert_front_map_comm (g : A -> B) (le : B -> B -> bool) x l :
    insert_front le (g x) (map g l) = map g (insert_front (fun a b => le (g a) (g b)) x l).
  Proof.
    induction l as [|z l IH]; cbn [insert_front map]; [reflexivity|].
    destruct (le (g x) (g z)); cbn [map]; [reflexivity|]. rewrite IH. reflexivity.
  Qed.

  Lemma stable_sort_map_comm (g : A -> B) (le : B -> B -> bool) l :
    stable_sort le (map g l) = map g (stable_sort (fun a b => le (g a) (g b)) l).
  Proof.
    induction l as [|x l IH]; cbn [stable_sort map]; [reflexivity|].
    rewrite IH. apply insert_front_map_comm.
  Qed.
End SortHelpers.

(* ------------------------------------------ first-seen order of haplotypes *)
Lemma existsb_str_notin x l : ~ In x l -> existsb (str_eqb x) l = false.
Proof.
  intro H. destruct (existsb (str_eqb x) l) eqn:E; [|reflexivity].
  apply existsb_exists in E as (y & Hy & E). apply str_eqb_eq in E. subst y. contradiction.
Qed.

Lemma existsb_str_in x l : In x l -> existsb (str_eqb x) l = true.
Proof. intro H. apply existsb_exists. exists x. split; [exact H | apply str_eqb_refl]. Qed.

Lemma dedup_acc_all_in : forall l seen, (forall x, In x l -> In x seen) -> dedup_acc str_eqb seen l = [].
Proof.
  induction l as [|x l IH]; intros seen H; cbn [dedup_acc]; [reflexivity|].
  rewrite existsb_str_in by (apply H; left; reflexivity). apply IH. intros y Hy. apply H. right. exact Hy.
Qed.

Lemma dedup_acc_skip h : forall l seen rest, Forall (eq h) l -> In h seen ->
  dedup_acc str_eqb seen (l ++ rest) = dedup_acc str_eqb seen rest.
Proof.
  induction l as [|x l IH]; intros seen rest F I; cbn [app dedup_acc]; [reflexivity|].
  inversion F as [|? ? E F']. subst x. rewrite existsb_str_in by exact I. apply IH; assumption.
Qed.

Lemma dedup_acc_block h l seen rest : l <> [] -> Forall (eq h) l -> ~ In h seen ->
  dedup_acc str_eqb seen (l ++ rest) = h :: dedup_acc str_eqb (h :: seen) rest.
Proof.
  intros Hl F N. destruct l as [|x l]; [congruence|]. inversion F as [|? ? E F']. subst x.
  cbn [app dedup_acc]. rewrite existsb_str_notin by exact N. f_equal.
  apply (dedup_acc_skip h); [exact F' | left; reflexivity].
Qed.

Lemma run_items_haps (r : str * list sub) : Forall (eq (fst r)) (map fst (run_items r)).
Proof.
  apply Forall_forall. intros x I. apply in_map_iff in I as ([h i] & <- & I).
  unfold run_items in I. apply in_flat_map in I as (sb & _ & I). unfold sub_items in I.
  apply in_map_iff in I as (j & E & _). injection E as <- _. reflexivity.
Qed.

Lemma run_items_nonempty fused haps r : run_ok fused haps r -> map fst (run_items r) <> [].
Proof.
  intros (_ & Hs & Fs & _). destruct r as [h [|[o idxs] ss]]; cbn [snd] in *; [congruence|].
  inversion Fs as [|? ? (_ & Hi & _) _]; subst. cbn [snd] in Hi. destruct idxs; [congruence|]. discriminate.
Qed.

Lemma dedup_acc_runs fused haps : forall (c : chrom) seen rest,
  Forall (run_ok fused haps) c -> NoDup (map fst c) -> (forall x, In x (map fst c) -> ~ In x seen) ->
  (forall x, In x rest -> In x seen \/ In x (map fst c)) ->
  dedup_acc str_eqb seen (map fst (chrom_items c) ++ rest) = map fst c.
Proof.
  induction c as [|r c IH]; intros seen rest F N D R.
  - cbn [chrom_items flat_map map app]. apply dedup_acc_all_in. intros x Hx. destruct (R x Hx) as [H|[]]. exact H.
  - inversion F as [|? ? Fr Fc]; subst. cbn [map fst] in N. inversion N as [|? ? N1 N2]; subst.
    unfold chrom_items. cbn [flat_map]. fold (chrom_items c). rewrite map_app, <- app_assoc.
    rewrite (dedup_acc_block (fst r)).
    + cbn [map]. f_equal. apply IH; [exact Fc | exact N2 | |].
      * intros x Hx [<-|Hs]; [contradiction|]. apply (D x); [right; exact Hx | exact Hs].
      * intros x Hx. destruct (R x Hx) as [H|[H|H]]; [left; right; exact H | left; left; exact H | right; exact H].
    + eapply run_items_nonempty; exact Fr.
    + apply run_items_haps.
    + apply D. left. reflexivity.
Qed.

(* the first chromosome shows every haplotype: that is the order of [haps] *)
Lemma dedup_items_first fused haps c0 chrs : Forall (chrom_ok fused haps) (c0 :: chrs) ->
  map fst c0 = haps -> dedup str_eqb (map fst (items_of (c0 :: chrs))) = haps.
Proof.
  intros F E. inversion F as [|? ? (_ & F0 & N0) Fc]; subst.
  unfold items_of. cbn [flat_map]. fold (items_of chrs). rewrite map_app. unfold dedup.
  apply (dedup_acc_runs fused (map fst c0)); [exact F0 | exact N0 | intros x _ [] |].
  intros x Hx. right. apply in_map_iff in Hx as ([h i] & <- & Hx). cbn [fst].
  unfold items_of in Hx. apply in_flat_map in Hx as (c & Hc & Hx).
  rewrite Forall_forall in Fc. destruct (Fc c Hc) as (_ & Fr & _).
  unfold chrom_items in Hx. apply in_flat_map in Hx as (r & Hr & Hx).
  rewrite Forall_forall in Fr. destruct (Fr r Hr) as (Ih & _).
  pose proof (run_items_haps r) as Q. rewrite Forall_forall in Q.
  rewrite <- (Q h); [exact Ih|]. apply (in_map fst) in Hx. exact Hx.
Qed.

(* ----------------------------------------------------- the naming theorem *)
Definition member_len (fused : list scaffold) (i : nat) : Z :=
  match nth_error fused i with Some sc => frags_length (sc_rows sc) | None => 0 end.

(* total sequence length of the first Pretext scaffold (main + unlocs) that
   the chromosome has in haplotype h0 *)
Definition first_hap_length (fused : list scaffold) (h0 : str) (c : chrom) : Z :=
  match group_hap c h0 with
  | (_, idxs) :: _ => sumZ (map (member_len fused) idxs)
  | [] => 0
  end.

Definition ranked (fused : list scaffold) (h0 : str) (chrs : list chrom) : list chrom :=
  sort_by_Z_desc (first_hap_length fused h0) chrs.

Theorem ranked_spec fused h0 chrs :
  Permutation (ranked fused h0 chrs) chrs
  /\ StronglySorted (fun a b => first_hap_length fused h0 a >= first_hap_length fused h0 b) (ranked fused h0 chrs)
  /\ (forall z, filter (fun c => first_hap_length fused h0 c =? z) (ranked fused h0 chrs)
                = filter (fun c => first_hap_length fused h0 c =? z) chrs).
Proof.
  split; [apply sort_desc_perm|]. split; [apply sort_desc_sorted|]. intro z. apply sort_desc_stable.
Qed.

Lemma multi_chr_list_nth_intro name count q : (q < count)%nat ->
  nth_error (multi_chr_list name count) q = Some (name ++ letter q count).
Proof.
  intro Q. destruct (multi_chr_list_spec name count) as (_ & H1 & H2).
  destruct (Nat.eq_dec count 1) as [->|NE].
  - rewrite (H1 eq_refl). destruct q; [|lia]. cbn [nth_error letter]. rewrite app_nil_r. reflexivity.
  - rewrite (H2 NE q Q). destruct count as [|[|count]]; [lia | congruence | reflexivity].
Qed.

Section Naming.
  Variable fused : list scaffold.
  Variables (h0 : str) (hs : list str).
  Let haps := h0 :: hs.

  Lemma group_length_group_of c : NoDup haps ->
    group_length fused haps (group_of haps c) = first_hap_length fused h0 c.
  Proof.
    intro N. unfold group_length, first_hap_length, haps.
    rewrite (group_hap_group_of (h0 :: hs)) by (left; reflexivity). reflexivity.
  Qed.

  Lemma sorted_groups chrs : NoDup haps ->
    sort_by_Z_desc (group_length fused haps) (map (group_of haps) chrs)
    = map (group_of haps) (ranked fused h0 chrs).
  Proof.
    intro N. unfold ranked, sort_by_Z_desc. rewrite stable_sort_map_comm. f_equal.
    apply stable_sort_ext_in. intros x y _ _. rewrite !group_length_group_of by exact N. reflexivity.
  Qed.

  Variable prefix : str.
  Variables (c0 : chrom) (chrs : list chrom).
  Let all := c0 :: chrs.
  Hypothesis Hmulti : hs <> [].
  Hypothesis Hok : Forall (chrom_ok fused haps) all.
  Hypothesis Hsep : seps fused all.
  Hypothesis Hseen : dedup str_eqb (map fst (items_of all)) = haps.

  Lemma haps_nodup : NoDup haps.
  Proof. rewrite <- Hseen. apply (Junctions.dedup_nodup _ str_eqb_eq). Qed.

  Lemma multi_flag : (1 <? zlen haps) = true.
  Proof. unfold haps, zlen. destruct hs; [congruence|]. cbn [length]. lia. Qed.

  (* check_groups fails as soon as one chromosome has no, or more than one,
     Pretext scaffold in the first haplotype *)
  Theorem name_chromosomes_multi_bad :
    ~ Forall (first_hap_single haps) all ->
    name_chromosomes prefix fused (items_of all) = Err ChrNamerError.
  Proof.
    intro B. unfold name_chromosomes. rewrite Hseen. unfold haps at 1. cbv beta iota zeta.
    fold haps. rewrite multi_flag.
    unfold all. rewrite (build_groups_multi fused haps haps_nodup c0 chrs Hok Hsep). cbn [bind cg_groups].
    destruct (existsb (group_bad haps) (map (group_of haps) (c0 :: chrs))) eqn:E; [reflexivity|].
    exfalso. apply B. apply (groups_bad_iff haps haps_nodup). exact E.
  Qed.

  Hypothesis Hfirst : Forall (first_hap_single haps) all.

  (* the result, as the list of renamings of the groups taken in rank order *)
  Theorem name_chromosomes_multi_eq :
    name_chromosomes prefix fused (items_of all)
    = Ok (fold_left apply_rop (all_ops prefix (map (group_of haps) (ranked fused h0 all))) fused).
  Proof.
    unfold name_chromosomes. rewrite Hseen. unfold haps at 1. cbv beta iota zeta.
    fold haps. rewrite multi_flag.
    unfold all at 1. rewrite (build_groups_multi fused haps haps_nodup c0 chrs Hok Hsep). cbn [bind cg_groups].
    fold all. rewrite (proj2 (groups_bad_iff haps haps_nodup all) Hfirst).
    rewrite name_groups_as_ops, sorted_groups by exact haps_nodup. reflexivity.
  Qed.

  Hypothesis Hidx : NoDup (map snd (items_of all)).

  Lemma ranked_in c : In c (ranked fused h0 all) -> In c all.
  Proof. apply Permutation_in. apply sort_desc_perm. Qed.

  Lemma ops_indices :
    Permutation (map rop_idx (all_ops prefix (map (group_of haps) (ranked fused h0 all))))
                (map snd (items_of all)).
  Proof.
    rewrite all_ops_idx.
    assert (E := build_groups_multi fused haps haps_nodup c0 chrs Hok Hsep). fold all in E.
    assert (NE : cg_groups (mkCg [new_group haps] None None) <> []) by (cbn [cg_groups]; discriminate).
    assert (W : Forall group_wf (cg_groups (mkCg [new_group haps] None None))).
    { cbn [cg_groups]. constructor; [apply new_group_wf, haps_nodup | constructor]. }
    destruct (build_groups_fold_spec fused haps true haps_nodup (items_of all)
                (mkCg [new_group haps] None None) _ NE W E) as (_ & P).
    cbn [cg_groups] in P. unfold slots at 2 in P. cbn [flat_map] in P.
    rewrite new_group_slots in P. cbn [app] in P. rewrite app_nil_r in P.
    eapply perm_trans.
    - apply Permutation_map. unfold slots. apply RemapTail.flat_map_perm.
      apply Permutation_map. apply sort_desc_perm.
    - eapply perm_trans; [apply Permutation_map; exact P|].
      rewrite map_map. cbn [slot_idx snd]. apply Permutation_refl.
  Qed.

  (* effect on every member: position k (from 0) in the rank order gives the
     number k+1, whatever the haplotype; the q-th Pretext scaffold of a
     haplotype that has several in the group gets the q-th capital letter *)
  Theorem name_chromosomes_multi :
    exists fused',
      name_chromosomes prefix fused (items_of all) = Ok fused'
      /\ upd_ok (map snd (items_of all)) fused fused'
      /\ forall k c h subs q o idxs i sc sfx,
           nth_error (ranked fused h0 all) k = Some c ->
           In (h, subs) c -> nth_error subs q = Some (o, idxs) -> In i idxs ->
           nth_error fused i = Some sc -> sc_name sc = o ++ sfx ->
           (forall j, (j < length sfx)%nat -> starts_with o (skipn j sfx) = false) ->
           nth_error fused' i
           = Some (with_name sc (prefix ++ str_of_Z (Z.of_nat k + 1) ++ letter q (length subs) ++ sfx)).
  Proof.
    eexists. split; [apply name_chromosomes_multi_eq|].
    set (sorted := map (group_of haps) (ranked fused h0 all)).
    pose proof ops_indices as P. fold sorted in P.
    assert (N : NoDup (map rop_idx (all_ops prefix sorted))).
    { eapply Permutation_NoDup; [apply Permutation_sym; exact P | exact Hidx]. }
    split.
    - eapply upd_ok_incl; [|apply apply_ops_upd_ok].
      intros i Hi. eapply Permutation_in; [exact P | exact Hi].
    - intros k c h subs q o idxs i sc sfx Hk Hc Hq Hi Hn Hname Hocc.
      assert (Ic : In c all) by (apply ranked_in; eapply nth_error_In; exact Hk).
      pose proof Hok as Hok'. rewrite Forall_forall in Hok'. destruct (Hok' c Ic) as (_ & Fr & Nc).
      rewrite Forall_forall in Fr. destruct (Fr _ Hc) as (Ih & _ & Fs & _). cbn [fst snd] in Ih, Fs.
      assert (Ho : o <> []).
      { rewrite Forall_forall in Fs. apply nth_error_In in Hq. destruct (Fs _ Hq) as (X & _). exact X. }
      set (nm := prefix ++ str_of_Z (Z.of_nat k + 1)).
      assert (Iop : In (i, o, nm ++ letter q (length subs)) (all_ops prefix sorted)).
      { unfold all_ops. apply in_flat_map. exists (k, group_of haps c). split.
        - apply (nth_error_combine_in _ _ k).
          + apply nth_error_seq. apply nth_error_Some. unfold sorted.
            rewrite (map_nth_error _ _ _ Hk). discriminate.
          + unfold sorted. apply map_nth_error. exact Hk.
        - cbn [fst snd]. fold nm. unfold group_ops. apply in_flat_map. exists (h, subs). split.
          + unfold group_of, grp. apply in_map_iff. exists h. split; [|exact Ih].
            rewrite (group_hap_in c h subs Nc Hc). reflexivity.
          + cbn [snd]. unfold hapset_ops. apply in_flat_map. exists ((o, idxs), nm ++ letter q (length subs)). split.
            * apply (nth_error_combine_in _ _ q); [exact Hq|]. apply multi_chr_list_nth_intro.
              apply nth_error_Some. congruence.
            * cbn [fst snd]. apply in_map_iff. exists i. split; [reflexivity | exact Hi]. }
      pose proof (apply_ops_at _ fused _ sc N Iop Hn) as R. cbn [rop_idx fst snd] in R.
      rewrite R. f_equal. f_equal.
      rewrite Hname, (replace_prefix_gen o _ sfx Ho Hocc). unfold nm. rewrite <- !app_assoc. reflexivity.
  Qed.
End Naming.

(* rank order of chromosomes given through a shape [g] *)
Lemma ranked_map {X} fused h0 (g : X -> chrom) (key : X -> Z) xs :
  (forall x, In x xs -> first_hap_length fused h0 (g x) = key x) ->
  ranked fused h0 (map g xs) = map g (sort_by_Z_desc key xs).
Proof.
  intro H. unfold ranked, sort_by_Z_desc. rewrite stable_sort_map_comm. f_equal.
  apply stable_sort_ext_in. intros x y Hx Hy. rewrite (H x Hx), (H y Hy). reflexivity.
Qed.

(* ============== 3. two haplotypes, h2 possibly in several Pretext scaffolds *)
(* chromosome = its h1 scaffold [a] (with unlocs) followed by one or more
   Pretext scaffolds [bs] of h2 (each with unlocs).  With one element in [bs]
   this is the well-interleaved map of part 1; with several, ChrNamer hands
   out <n>A, <n>B, ... in h2.  NB the same input is what a complete
   chromosome followed by chromosomes seen in h2 only looks like. *)
Definition chrom_split (h1 h2 : str) (x : sub * list sub) : chrom := [(h1, [fst x]); (h2, snd x)].
Definition split_ok (fused : list scaffold) (x : sub * list sub) : Prop :=
  sub_ok fused (fst x) /\ snd x <> [] /\ Forall (sub_ok fused) (snd x) /\ NoDup (map fst (snd x))
  /\ Forall (not_singleton fused) (removelast (snd x)).
Definition hap1_len (fused : list scaffold) (x : sub * list sub) : Z :=
  sumZ (map (member_len fused) (snd (fst x))).

Section Split.
  Variable fused : list scaffold.
  Variables h1 h2 : str.
  Hypothesis Hne : h1 <> h2.

  Lemma nodup2 : NoDup [h1; h2].
  Proof. constructor; [intros [X|[]]; congruence|]. constructor; [intros [] | constructor]. Qed.

  Lemma chrom_split_ok x : split_ok fused x -> chrom_ok fused [h1; h2] (chrom_split h1 h2 x).
  Proof.
    intros (A & B1 & B2 & B3 & B4). split; [discriminate|]. split.
    - constructor; [|constructor; [|constructor]].
      + split; [left; reflexivity|]. cbn [fst snd]. split; [discriminate|].
        split; [constructor; [exact A | constructor]|].
        split; [constructor; [intros [] | constructor] | constructor].
      + split; [right; left; reflexivity|]. cbn [fst snd]. auto.
    - exact nodup2.
  Qed.

  Lemma chrom_split_sep x y : sep fused (chrom_split h1 h2 x) (chrom_split h1 h2 y).
  Proof. unfold sep, chrom_split. split; [left; reflexivity|]. left. exact Hne. Qed.

  Lemma chrom_split_first x : first_hap_single [h1; h2] (chrom_split h1 h2 x).
  Proof. exists (fst x). unfold group_hap, chrom_split. cbn [aget]. rewrite str_eqb_refl. reflexivity. Qed.

  Lemma chrom_split_len x : first_hap_length fused h1 (chrom_split h1 h2 x) = hap1_len fused x.
  Proof.
    unfold first_hap_length, group_hap, chrom_split, hap1_len. cbn [aget]. rewrite str_eqb_refl.
    destruct (fst x). reflexivity.
  Qed.

  Variables (x0 : sub * list sub) (xs : list (sub * list sub)).
  Hypothesis Hall : Forall (split_ok fused) (x0 :: xs).

  Lemma split_all_ok : Forall (chrom_ok fused [h1; h2]) (map (chrom_split h1 h2) (x0 :: xs)).
  Proof.
    apply Forall_forall. intros c I. apply in_map_iff in I as (x & <- & I).
    rewrite Forall_forall in Hall. apply chrom_split_ok, Hall, I.
  Qed.

  Lemma split_seps : seps fused (map (chrom_split h1 h2) (x0 :: xs)).
  Proof.
    apply seps_pairwise. intros a b Ia Ib.
    apply in_map_iff in Ia as (xa & <- & _). apply in_map_iff in Ib as (xb & <- & _). apply chrom_split_sep.
  Qed.

  Lemma split_first : Forall (first_hap_single [h1; h2]) (map (chrom_split h1 h2) (x0 :: xs)).
  Proof.
    apply Forall_forall. intros c I. apply in_map_iff in I as (x & <- & _). apply chrom_split_first.
  Qed.

  (* the model really puts the consecutive h2 scaffolds into the group of the
     preceding h1 scaffold *)
  Theorem two_hap_split_groups :
    exists st,
      foldM (build_groups_step fused [h1; h2] true) (items_of (map (chrom_split h1 h2) (x0 :: xs)))
            (mkCg [new_group [h1; h2]] None None) = Ok st
      /\ cg_groups st = map (chrom_split h1 h2) (x0 :: xs)
      /\ existsb (group_bad [h1; h2]) (cg_groups st) = false.
  Proof.
    eexists. split; [apply (build_groups_multi fused [h1; h2] nodup2 _ _ split_all_ok split_seps)|].
    cbn [cg_groups].
    assert (G : map (group_of [h1; h2]) (map (chrom_split h1 h2) (x0 :: xs)) = map (chrom_split h1 h2) (x0 :: xs)).
    { rewrite map_map. apply map_ext. intro x. apply group_of_self; [exact nodup2 | reflexivity]. }
    split; [exact G|]. change (?a :: map ?f ?l) with (map f (x0 :: l)).
    apply (groups_bad_iff [h1; h2] nodup2). exact split_first.
  Qed.

  Variable prefix : str.
  Hypothesis Hidx : NoDup (map snd (items_of (map (chrom_split h1 h2) (x0 :: xs)))).

  (* numbers by rank of the h1 length; h1 and h2 share the number; the q-th of
     several h2 scaffolds gets the q-th letter *)
  Theorem two_hap_split_names :
    exists fused',
      name_chromosomes prefix fused (items_of (map (chrom_split h1 h2) (x0 :: xs))) = Ok fused'
      /\ upd_ok (map snd (items_of (map (chrom_split h1 h2) (x0 :: xs)))) fused fused'
      /\ forall k a bs, nth_error (sort_by_Z_desc (hap1_len fused) (x0 :: xs)) k = Some (a, bs) ->
           let num := prefix ++ str_of_Z (Z.of_nat k + 1) in
           (forall i sc sfx, In i (snd a) -> nth_error fused i = Some sc -> sc_name sc = fst a ++ sfx ->
              (forall j, (j < length sfx)%nat -> starts_with (fst a) (skipn j sfx) = false) ->
              nth_error fused' i = Some (with_name sc (num ++ sfx)))
           /\ (forall q b i sc sfx, nth_error bs q = Some b -> In i (snd b) ->
                 nth_error fused i = Some sc -> sc_name sc = fst b ++ sfx ->
                 (forall j, (j < length sfx)%nat -> starts_with (fst b) (skipn j sfx) = false) ->
                 nth_error fused' i = Some (with_name sc (num ++ letter q (length bs) ++ sfx))).
  Proof.
    assert (Hseen : dedup str_eqb (map fst (items_of (map (chrom_split h1 h2) (x0 :: xs)))) = [h1; h2]).
    { apply (dedup_items_first fused [h1; h2]); [exact split_all_ok | reflexivity]. }
    destruct (name_chromosomes_multi fused h1 [h2] prefix (chrom_split h1 h2 x0) (map (chrom_split h1 h2) xs)
                ltac:(discriminate) split_all_ok split_seps Hseen split_first Hidx) as (fused' & E & U & R).
    exists fused'. split; [exact E|]. split; [exact U|].
    intros k a bs Hk num.
    change (chrom_split h1 h2 x0 :: map (chrom_split h1 h2) xs) with (map (chrom_split h1 h2) (x0 :: xs)) in R.
    rewrite (ranked_map fused h1 (chrom_split h1 h2) (hap1_len fused)) in R by (intros; apply chrom_split_len).
    pose proof (map_nth_error (chrom_split h1 h2) _ _ Hk) as Hk'. split.
    - intros i sc sfx Hi Hn Hname Hocc. destruct a as [o idxs]. cbn [fst snd] in *.
      rewrite (R k _ h1 [(o, idxs)] 0%nat o idxs i sc sfx Hk'); try assumption;
        [unfold num; cbn [length letter app]; rewrite <- app_assoc; reflexivity | left; reflexivity | reflexivity].
    - intros q b i sc sfx Hq Hi Hn Hname Hocc. destruct b as [o idxs]. cbn [fst snd] in *.
      rewrite (R k _ h2 bs q o idxs i sc sfx Hk'); try assumption;
        [unfold num; rewrite <- !app_assoc; reflexivity | right; left; reflexivity].
  Qed.
End Split.

Lemma letters_two : letter 0 2 = s "A" /\ letter 1 2 = s "B" /\ letter 0 1 = [].
Proof. repeat split. Qed.

(* the well-interleaved two-haplotype map: both homologues get <prefix><n> *)
Theorem two_hap_names : forall prefix fused h1 h2 (p0 : sub * sub) (pairs : list (sub * sub)),
  h1 <> h2 ->
  Forall (fun p => sub_ok fused (fst p) /\ sub_ok fused (snd p)) (p0 :: pairs) ->
  NoDup (map snd (items_of (map (chrom2 h1 h2) (p0 :: pairs)))) ->
  exists fused',
    name_chromosomes prefix fused (items_of (map (chrom2 h1 h2) (p0 :: pairs))) = Ok fused'
    /\ upd_ok (map snd (items_of (map (chrom2 h1 h2) (p0 :: pairs)))) fused fused'
    /\ forall k p, nth_error (sort_by_Z_desc (fun p => sumZ (map (member_len fused) (snd (fst p)))) (p0 :: pairs)) k = Some p ->
       forall sb i sc sfx, sb = fst p \/ sb = snd p -> In i (snd sb) ->
         nth_error fused i = Some sc -> sc_name sc = fst sb ++ sfx ->
         (forall j, (j < length sfx)%nat -> starts_with (fst sb) (skipn j sfx) = false) ->
         nth_error fused' i = Some (with_name sc (prefix ++ str_of_Z (Z.of_nat k + 1) ++ sfx)).
Proof.
  intros prefix fused h1 h2 p0 pairs Hne F Hidx.
  set (g := fun p : sub * sub => (fst p, [snd p])).
  assert (E : forall l, map (chrom2 h1 h2) l = map (chrom_split h1 h2) (map g l)).
  { intro l. rewrite map_map. reflexivity. }
  rewrite (E (p0 :: pairs)) in *. cbn [map] in *.
  assert (Hall : Forall (split_ok fused) (g p0 :: map g pairs)).
  { change (g p0 :: map g pairs) with (map g (p0 :: pairs)). apply Forall_forall. intros x I.
    apply in_map_iff in I as (p & <- & I). rewrite Forall_forall in F. destruct (F p I) as [A B].
    unfold split_ok, g. cbn [fst snd]. split; [exact A|]. split; [discriminate|].
    split; [constructor; [exact B | constructor]|].
    split; [constructor; [intros [] | constructor] | constructor]. }
  destruct (two_hap_split_names fused h1 h2 Hne (g p0) (map g pairs) Hall prefix Hidx) as (fused' & E1 & U & R).
  exists fused'. split; [exact E1|]. split; [exact U|].
  intros k p Hk sb i sc sfx Hsb Hi Hn Hname Hocc.
  assert (Hk' : nth_error (sort_by_Z_desc (hap1_len fused) (g p0 :: map g pairs)) k = Some (g p)).
  { change (g p0 :: map g pairs) with (map g (p0 :: pairs)). unfold sort_by_Z_desc.
    rewrite stable_sort_map_comm. apply map_nth_error. exact Hk. }
  destruct (R k (fst p) [snd p] Hk') as [R1 R2]. destruct Hsb as [->| ->].
  - erewrite (R1 i sc sfx Hi Hn Hname Hocc). rewrite <- app_assoc. reflexivity.
  - erewrite (R2 0%nat (snd p) i sc sfx eq_refl Hi Hn Hname Hocc). cbn [length letter app].
    rewrite <- app_assoc. reflexivity.
Qed.

(* ------------------------------------ k haplotypes in a fixed order: names *)
Definition hd_len (fused : list scaffold) (sbs : list sub) : Z :=
  match sbs with sb :: _ => sumZ (map (member_len fused) (snd sb)) | [] => 0 end.

Theorem k_hap_names : forall prefix fused h0 hs (s0 : list sub) (chrs : list (list sub)),
  NoDup (h0 :: hs) -> hs <> [] ->
  Forall (fun sbs => length sbs = length (h0 :: hs) /\ Forall (sub_ok fused) sbs) (s0 :: chrs) ->
  NoDup (map snd (items_of (map (chromk (h0 :: hs)) (s0 :: chrs)))) ->
  exists fused',
    name_chromosomes prefix fused (items_of (map (chromk (h0 :: hs)) (s0 :: chrs))) = Ok fused'
    /\ upd_ok (map snd (items_of (map (chromk (h0 :: hs)) (s0 :: chrs)))) fused fused'
    /\ forall k sbs, nth_error (sort_by_Z_desc (hd_len fused) (s0 :: chrs)) k = Some sbs ->
       forall sb i sc sfx, In sb sbs -> In i (snd sb) ->
         nth_error fused i = Some sc -> sc_name sc = fst sb ++ sfx ->
         (forall j, (j < length sfx)%nat -> starts_with (fst sb) (skipn j sfx) = false) ->
         nth_error fused' i = Some (with_name sc (prefix ++ str_of_Z (Z.of_nat k + 1) ++ sfx)).
Proof.
  intros prefix fused h0 hs s0 chrs N Hm F Hidx.
  destruct hs as [|h1 hs]; [congruence|]. set (haps := h0 :: h1 :: hs) in *.
  assert (Fok : Forall (chrom_ok fused haps) (map (chromk haps) (s0 :: chrs))).
  { apply Forall_forall. intros c I. apply in_map_iff in I as (sbs & <- & I).
    rewrite Forall_forall in F. destruct (F sbs I) as [L1 L2]. apply chromk_ok; try assumption. discriminate. }
  assert (S : seps fused (map (chromk haps) (s0 :: chrs))).
  { apply seps_pairwise. intros a b Ia Ib.
    apply in_map_iff in Ia as (sa & <- & Ia). apply in_map_iff in Ib as (sb & <- & Ib).
    rewrite Forall_forall in F. apply chromk_sep; [exact N | apply (F sa Ia) | apply (F sb Ib)]. }
  assert (L0 : length s0 = length haps) by (inversion F as [|? ? [X _] _]; exact X).
  assert (Hseen : dedup str_eqb (map fst (items_of (map (chromk haps) (s0 :: chrs)))) = haps).
  { apply (dedup_items_first fused haps); [exact Fok | apply chromk_keys, L0]. }
  assert (Hfirst : Forall (first_hap_single haps) (map (chromk haps) (s0 :: chrs))).
  { apply Forall_forall. intros c I. apply in_map_iff in I as (sbs & <- & I).
    rewrite Forall_forall in F. destruct (F sbs I) as [L1 _].
    unfold first_hap_single, haps. destruct sbs as [|sb sbs]; [discriminate|]. exists sb.
    unfold chromk. cbn [combine map]. unfold group_hap. cbn [aget]. rewrite str_eqb_refl. reflexivity. }
  destruct (name_chromosomes_multi fused h0 (h1 :: hs) prefix (chromk haps s0) (map (chromk haps) chrs)
              ltac:(discriminate) Fok S Hseen Hfirst Hidx) as (fused' & E & U & R).
  exists fused'. split; [exact E|]. split; [exact U|].
  intros k sbs Hk sb i sc sfx Hsb Hi Hn Hname Hocc.
  change (chromk haps s0 :: map (chromk haps) chrs) with (map (chromk haps) (s0 :: chrs)) in R.
  rewrite (ranked_map fused h0 (chromk haps) (hd_len fused)) in R.
  - pose proof (map_nth_error (chromk haps) _ _ Hk) as Hk'.
    assert (Is : In sbs (s0 :: chrs)).
    { eapply Permutation_in; [apply sort_desc_perm | eapply nth_error_In; exact Hk]. }
    rewrite Forall_forall in F. destruct (F sbs Is) as [L1 _].
    apply In_nth_error in Hsb as (q & Hq).
    assert (Hh : exists h, nth_error haps q = Some h).
    { destruct (nth_error haps q) eqn:X; [eexists; reflexivity|]. apply nth_error_None in X.
      assert (q < length sbs)%nat by (apply nth_error_Some; congruence). lia. }
    destruct Hh as (h & Hh). destruct sb as [o idxs]. cbn [fst snd] in *.
    rewrite (R k _ h [(o, idxs)] 0%nat o idxs i sc sfx Hk'); try assumption; [reflexivity | | reflexivity].
    unfold chromk. apply (nth_error_combine_in _ _ q); [exact Hh|].
    exact (map_nth_error (fun sb : sub => [sb]) q sbs Hq).
  - intros x Ix. rewrite Forall_forall in F. destruct (F x Ix) as [L1 _].
    destruct x as [|[o idxs] x]; [discriminate|]. unfold first_hap_length, haps, chromk, hd_len.
    cbn [combine map]. unfold group_hap. cbn [aget]. rewrite str_eqb_refl. reflexivity.
Qed.

(* ================================== 2b. "the first haplotype decides" *)
(* what the grouping looks at in a scaffold: Pretext name and tags; what the
   renaming looks at: the name; what the ranking looks at: the lengths of the
   members of the FIRST haplotype *)
Definition same_labels (a b : scaffold) : Prop :=
  sc_name a = sc_name b /\ sc_orig a = sc_orig b /\ sc_orig_tags a = sc_orig_tags b.

Lemma names_transfer : forall fusedA fusedB, Forall2 same_labels fusedA fusedB ->
  map sc_name fusedA = map sc_name fusedB.
Proof.
  induction 1 as [|a b la lb H _ IH]; cbn [map]; [reflexivity|].
  destruct H as (E & _). rewrite E, IH. reflexivity.
Qed.

Section Transfer.
  Variables fusedA fusedB : list scaffold.
  Hypothesis HL : Forall2 same_labels fusedA fusedB.

  Lemma orig_at_transfer o i : orig_at fusedA o i -> orig_at fusedB o i.
  Proof.
    intros (sc & Hn & Ho). destruct (Forall2_nth_error _ _ _ HL i sc Hn) as (sc' & Hn' & _ & Eo & _).
    exists sc'. split; [exact Hn' | congruence].
  Qed.

  Lemma singleton_at_transfer i : singleton_at fusedB i = singleton_at fusedA i.
  Proof.
    unfold singleton_at. destruct (nth_error fusedA i) as [sc|] eqn:Hn.
    - destruct (Forall2_nth_error _ _ _ HL i sc Hn) as (sc' & Hn' & _ & _ & Et). rewrite Hn', Et. reflexivity.
    - apply nth_error_None in Hn. rewrite (Forall2_len _ _ _ HL) in Hn. apply nth_error_None in Hn.
      rewrite Hn. reflexivity.
  Qed.

  Lemma sub_ok_transfer sb : sub_ok fusedA sb -> sub_ok fusedB sb.
  Proof.
    intros (A & B & C). split; [exact A|]. split; [exact B|].
    eapply Forall_impl; [|exact C]. intros i. apply orig_at_transfer.
  Qed.

  Lemma run_ok_transfer haps r : run_ok fusedA haps r -> run_ok fusedB haps r.
  Proof.
    intros (A & B & C & D & E). split; [exact A|]. split; [exact B|]. split; [|split; [exact D|]].
    - eapply Forall_impl; [|exact C]. apply sub_ok_transfer.
    - eapply Forall_impl; [|exact E]. intros sb H. unfold not_singleton in *.
      rewrite singleton_at_transfer. exact H.
  Qed.

  Lemma chrom_ok_transfer haps c : chrom_ok fusedA haps c -> chrom_ok fusedB haps c.
  Proof.
    intros (A & B & C). split; [exact A|]. split; [|exact C].
    eapply Forall_impl; [|exact B]. apply run_ok_transfer.
  Qed.

  Lemma sep_transfer c c' : sep fusedA c c' -> sep fusedB c c'.
  Proof.
    unfold sep. destruct c' as [|[h' [|sb' ss]] rs]; try tauto.
    rewrite singleton_at_transfer. tauto.
  Qed.

  Lemma seps_transfer : forall l, seps fusedA l -> seps fusedB l.
  Proof.
    induction l as [|a [|b l] IH]; cbn [seps]; try tauto.
    intros [S1 S2]. split; [apply sep_transfer, S1 | apply IH, S2].
  Qed.
End Transfer.

Definition rename_names (ns : list str) (p : rop) : list str :=
  match nth_error ns (fst (fst p)) with
  | Some n => set_nth ns (fst (fst p)) (replace (snd (fst p)) (snd p) n None)
  | None => ns
  end.

Lemma map_set_nth {A B} (f : A -> B) : forall l i x, map f (set_nth l i x) = set_nth (map f l) i (f x).
Proof.
  induction l as [|y l IH]; intros [|i] x; cbn [set_nth map]; try reflexivity. rewrite IH. reflexivity.
Qed.

Lemma apply_rop_names fs p : map sc_name (apply_rop fs p) = rename_names (map sc_name fs) p.
Proof.
  unfold apply_rop, rename_names. rewrite nth_error_map.
  destruct (nth_error fs (fst (fst p))); cbn [option_map]; [rewrite map_set_nth; reflexivity | reflexivity].
Qed.

Lemma apply_ops_names : forall ops fs,
  map sc_name (fold_left apply_rop ops fs) = fold_left rename_names ops (map sc_name fs).
Proof.
  induction ops as [|p ops IH]; intro fs; cbn [fold_left]; [reflexivity|].
  rewrite IH, apply_rop_names. reflexivity.
Qed.

Lemma first_hap_members (c : chrom) h0 o idxs d i :
  group_hap c h0 = (o, idxs) :: d -> In i idxs -> In (h0, i) (chrom_items c).
Proof.
  intros E Hi. unfold group_hap in E. destruct (aget str_eqb c h0) as [d'|] eqn:G; [|discriminate].
  subst d'. apply (aget_some_in _ str_eqb_eq) in G. unfold chrom_items. apply in_flat_map.
  exists (h0, (o, idxs) :: d). split; [exact G|]. unfold run_items. cbn [fst snd flat_map].
  apply in_or_app. left. unfold sub_items. cbn [snd]. apply in_map. exact Hi.
Qed.

(* Two runs over scaffold lists that agree on names, Pretext names and tags,
   and on the LENGTHS OF THE MEMBERS OF THE FIRST HAPLOTYPE, give every
   scaffold the same name: however the members of the other haplotypes are
   lengthened or shortened, no number changes. *)
Theorem first_haplotype_decides : forall prefix fusedA fusedB h0 hs c0 chrs,
  hs <> [] ->
  Forall (chrom_ok fusedA (h0 :: hs)) (c0 :: chrs) -> seps fusedA (c0 :: chrs) ->
  dedup str_eqb (map fst (items_of (c0 :: chrs))) = h0 :: hs ->
  Forall (first_hap_single (h0 :: hs)) (c0 :: chrs) ->
  Forall2 same_labels fusedA fusedB ->
  (forall i, In (h0, i) (items_of (c0 :: chrs)) -> member_len fusedB i = member_len fusedA i) ->
  exists fa fb,
    name_chromosomes prefix fusedA (items_of (c0 :: chrs)) = Ok fa
    /\ name_chromosomes prefix fusedB (items_of (c0 :: chrs)) = Ok fb
    /\ map sc_name fa = map sc_name fb.
Proof.
  intros prefix fusedA fusedB h0 hs c0 chrs Hm Hok Hsep Hseen Hfirst HL Hlen.
  assert (HokB : Forall (chrom_ok fusedB (h0 :: hs)) (c0 :: chrs)).
  { eapply Forall_impl; [|exact Hok]. intro c. apply chrom_ok_transfer, HL. }
  assert (HsepB : seps fusedB (c0 :: chrs)) by (apply (seps_transfer fusedA), Hsep; exact HL).
  eexists. eexists.
  split; [apply (name_chromosomes_multi_eq fusedA h0 hs prefix c0 chrs Hm Hok Hsep Hseen Hfirst)|].
  split; [apply (name_chromosomes_multi_eq fusedB h0 hs prefix c0 chrs Hm HokB HsepB Hseen Hfirst)|].
  assert (R : ranked fusedB h0 (c0 :: chrs) = ranked fusedA h0 (c0 :: chrs)).
  { unfold ranked, sort_by_Z_desc. apply stable_sort_ext_in. intros x y Hx Hy.
    assert (K : forall c, In c (c0 :: chrs) -> first_hap_length fusedB h0 c = first_hap_length fusedA h0 c).
    { intros c Hc. unfold first_hap_length. destruct (group_hap c h0) as [|[o idxs] d] eqn:G; [reflexivity|].
      f_equal. apply map_ext_in. intros i Hi. apply Hlen. unfold items_of. apply in_flat_map.
      exists c. split; [exact Hc|]. eapply first_hap_members; eassumption. }
    rewrite (K x Hx), (K y Hy). reflexivity. }
  rewrite R, !apply_ops_names, (names_transfer fusedA fusedB HL). reflexivity.
Qed.

(* the corollary in the words of the property: replace the sequence of ONE
   scaffold that is not a member of the first haplotype by anything, longer or
   shorter; every scaffold is named as before *)
Definition with_rows (sc : scaffold) (rows : list row) : scaffold :=
  mkScaffold (sc_name sc) rows (sc_tag sc) (sc_hap sc) (sc_rank sc) (sc_orig sc) (sc_orig_tags sc).

Lemma nth_error_set_nth_other {A} : forall (l : list A) i j x, i <> j -> nth_error (set_nth l i x) j = nth_error l j.
Proof.
  induction l as [|y l IH]; intros [|i] [|j] x H; cbn [set_nth nth_error]; try reflexivity; try congruence.
  apply IH. congruence.
Qed.

Lemma set_rows_same_labels : forall fused i sc rows, nth_error fused i = Some sc ->
  Forall2 same_labels fused (set_nth fused i (with_rows sc rows)).
Proof.
  assert (Rf : forall l, Forall2 same_labels l l) by (induction l; constructor; [repeat split | assumption]).
  induction fused as [|y l IH]; intros [|i] sc rows H; cbn [nth_error set_nth] in *; try discriminate.
  - injection H as ->. constructor; [repeat split | apply Rf].
  - constructor; [repeat split | apply IH; exact H].
Qed.

Corollary resize_other_haplotype : forall prefix fused h0 hs c0 chrs i sc rows,
  hs <> [] ->
  Forall (chrom_ok fused (h0 :: hs)) (c0 :: chrs) -> seps fused (c0 :: chrs) ->
  dedup str_eqb (map fst (items_of (c0 :: chrs))) = h0 :: hs ->
  Forall (first_hap_single (h0 :: hs)) (c0 :: chrs) ->
  nth_error fused i = Some sc -> ~ In (h0, i) (items_of (c0 :: chrs)) ->
  exists fa fb,
    name_chromosomes prefix fused (items_of (c0 :: chrs)) = Ok fa
    /\ name_chromosomes prefix (set_nth fused i (with_rows sc rows)) (items_of (c0 :: chrs)) = Ok fb
    /\ map sc_name fa = map sc_name fb.
Proof.
  intros prefix fused h0 hs c0 chrs i sc rows Hm Hok Hsep Hseen Hfirst Hn Hi.
  apply (first_haplotype_decides prefix fused _ h0 hs c0 chrs); try assumption.
  - apply set_rows_same_labels. exact Hn.
  - intros j Hj. unfold member_len. rewrite nth_error_set_nth_other; [reflexivity|]. intros ->. contradiction.
Qed.

(* ============================================================ 4. examples *)
Definition exsc (name : str) (hap : str) (len : Z) (orig : str) (tags : list str) : scaffold :=
  mkScaffold name [ex_frag (s "ctg") len] None (Some hap) 1 (Some orig) tags.
Definition H1 : str := s "Hap1".
Definition H2 : str := s "Hap2".
Definition names_or_err (r : res (list scaffold)) : list str + exn :=
  match r with Ok fs => inl (map sc_name fs) | Err e => inr e end.

(* ---- A. three chromosomes, two haplotypes, sizes out of order, one unloc.
   h1 lengths: 100, 500+50, 300  ->  numbers 3, 1, 2.  The h2 lengths
   (90, 9999, 10000) play no role. *)
Definition exA_fused : list scaffold :=
  [ exsc (s "Scaffold_1") H1 100 (s "Scaffold_1") [s "Painted"];
    exsc (s "Scaffold_2") H2 90 (s "Scaffold_2") [s "Painted"];
    exsc (s "Scaffold_3") H1 500 (s "Scaffold_3") [s "Painted"];
    exsc (s "Scaffold_3_unloc_1") H1 50 (s "Scaffold_3") [s "Painted"; s "Unloc"];
    exsc (s "Scaffold_4") H2 9999 (s "Scaffold_4") [s "Painted"];
    exsc (s "Scaffold_5") H1 300 (s "Scaffold_5") [s "Painted"];
    exsc (s "Scaffold_6") H2 10000 (s "Scaffold_6") [s "Painted"] ].
Definition exA_pairs : list (sub * sub) :=
  [ ((s "Scaffold_1", [0%nat]), (s "Scaffold_2", [1%nat]));
    ((s "Scaffold_3", [2%nat; 3%nat]), (s "Scaffold_4", [4%nat]));
    ((s "Scaffold_5", [5%nat]), (s "Scaffold_6", [6%nat])) ].
Definition exA_items : list (str * nat) :=
  [(H1, 0%nat); (H2, 1%nat); (H1, 2%nat); (H1, 3%nat); (H2, 4%nat); (H1, 5%nat); (H2, 6%nat)].

Example exA_items_shape : items_of (map (chrom2 H1 H2) exA_pairs) = exA_items.
Proof. reflexivity. Qed.

Example exA_compute :
  names_or_err (name_chromosomes (s "SUPER_") exA_fused exA_items)
  = inl [s "SUPER_3"; s "SUPER_3"; s "SUPER_1"; s "SUPER_1_unloc_1"; s "SUPER_1"; s "SUPER_2"; s "SUPER_2"].
Proof. vm_compute. reflexivity. Qed.

Example exA_groups_compute :
  match foldM (build_groups_step exA_fused [H1; H2] true) exA_items (mkCg [new_group [H1; H2]] None None) with
  | Ok st => cg_groups st | Err _ => [] end
  = map (chrom2 H1 H2) exA_pairs.
Proof. vm_compute. reflexivity. Qed.

Ltac solve_nodup := repeat constructor; cbn [In]; intuition (try discriminate; try lia).
Ltac solve_forall tac := repeat (first [apply Forall_nil | apply Forall_cons; [tac|]]).
Ltac solve_orig := eexists; split; reflexivity.
Ltac solve_sub_ok :=
  split; [discriminate|]; split; [discriminate|]; cbn [fst snd]; solve_forall solve_orig.
Ltac solve_noocc :=
  let j := fresh "j" in let Hj := fresh "Hj" in
  intros j Hj; do 16 (destruct j as [|j]; [reflexivity|]); cbn in Hj; lia.

Lemma exA_hyps :
  H1 <> H2
  /\ Forall (fun p => sub_ok exA_fused (fst p) /\ sub_ok exA_fused (snd p)) exA_pairs
  /\ NoDup (map snd (items_of (map (chrom2 H1 H2) exA_pairs))).
Proof.
  split; [discriminate|]. split.
  - solve_forall ltac:(idtac; split; solve_sub_ok).
  - vm_compute. solve_nodup.
Qed.

(* the same through the theorems: grouping ... *)
Example exA_groups_by_theorem :
  exists st, foldM (build_groups_step exA_fused [H1; H2] true) exA_items (mkCg [new_group [H1; H2]] None None) = Ok st
             /\ cg_groups st = map (chrom2 H1 H2) exA_pairs
             /\ existsb (group_bad [H1; H2]) (cg_groups st) = false.
Proof.
  destruct exA_hyps as (A & B & _).
  apply (two_hap_groups exA_fused H1 H2 exA_pairs A ltac:(discriminate) B).
Qed.

(* ... and naming: the 9999 bp h2 scaffold gets number 1 because its h1
   homologue (500 + 50 bp) is the longest h1 chromosome; the unloc keeps its
   suffix; the 10000 bp h2 scaffold gets number 2 *)
Example exA_names_by_theorem :
  exists fused', name_chromosomes (s "SUPER_") exA_fused exA_items = Ok fused'
    /\ option_map sc_name (nth_error fused' 2) = Some (s "SUPER_1")
    /\ option_map sc_name (nth_error fused' 3) = Some (s "SUPER_1_unloc_1")
    /\ option_map sc_name (nth_error fused' 4) = Some (s "SUPER_1")
    /\ option_map sc_name (nth_error fused' 6) = Some (s "SUPER_2")
    /\ option_map sc_name (nth_error fused' 0) = Some (s "SUPER_3")
    /\ option_map sc_name (nth_error fused' 1) = Some (s "SUPER_3").
Proof.
  destruct exA_hyps as (A & B & C).
  destruct (two_hap_names (s "SUPER_") exA_fused H1 H2 _ _ A B C) as (fused' & E & _ & R).
  exists fused'. split; [exact E|].
  pose (p1 := ((s "Scaffold_1", [0%nat]), (s "Scaffold_2", [1%nat])) : sub * sub).
  pose (p2 := ((s "Scaffold_3", [2%nat; 3%nat]), (s "Scaffold_4", [4%nat])) : sub * sub).
  pose (p3 := ((s "Scaffold_5", [5%nat]), (s "Scaffold_6", [6%nat])) : sub * sub).
  assert (K0 := R 0%nat p2 eq_refl). assert (K1 := R 1%nat p3 eq_refl). assert (K2 := R 2%nat p1 eq_refl).
  repeat split.
  - erewrite (K0 (fst p2) 2%nat _ [] (or_introl eq_refl)); [reflexivity | left; reflexivity | reflexivity | reflexivity | solve_noocc].
  - erewrite (K0 (fst p2) 3%nat _ (s "_unloc_1") (or_introl eq_refl));
      [reflexivity | right; left; reflexivity | reflexivity | reflexivity | solve_noocc].
  - erewrite (K0 (snd p2) 4%nat _ [] (or_intror eq_refl)); [reflexivity | left; reflexivity | reflexivity | reflexivity | solve_noocc].
  - erewrite (K1 (snd p3) 6%nat _ [] (or_intror eq_refl)); [reflexivity | left; reflexivity | reflexivity | reflexivity | solve_noocc].
  - erewrite (K2 (fst p1) 0%nat _ [] (or_introl eq_refl)); [reflexivity | left; reflexivity | reflexivity | reflexivity | solve_noocc].
  - erewrite (K2 (snd p1) 1%nat _ [] (or_intror eq_refl)); [reflexivity | left; reflexivity | reflexivity | reflexivity | solve_noocc].
Qed.

(* "the first haplotype decides": blow the smallest h2 scaffold (index 1,
   90 bp) up to 10^9 bp -- same names *)
Example exA_resize_compute :
  names_or_err (name_chromosomes (s "SUPER_")
                  (set_nth exA_fused 1 (with_rows (exsc (s "Scaffold_2") H2 90 (s "Scaffold_2") [s "Painted"])
                                                  [ex_frag (s "ctg") 1000000000])) exA_items)
  = names_or_err (name_chromosomes (s "SUPER_") exA_fused exA_items).
Proof. vm_compute. reflexivity. Qed.
(* ... whereas lengthening an h1 scaffold does change the numbers *)
Example exA_resize_h1_compute :
  names_or_err (name_chromosomes (s "SUPER_")
                  (set_nth exA_fused 0 (with_rows (exsc (s "Scaffold_1") H1 100 (s "Scaffold_1") [s "Painted"])
                                                  [ex_frag (s "ctg") 1000000000])) exA_items)
  = inl [s "SUPER_1"; s "SUPER_1"; s "SUPER_2"; s "SUPER_2_unloc_1"; s "SUPER_2"; s "SUPER_3"; s "SUPER_3"].
Proof. vm_compute. reflexivity. Qed.

(* ---- B. A/B: chromosome 1 has two Pretext scaffolds in Hap2 *)
Definition exB_fused : list scaffold :=
  [ exsc (s "Scaffold_1") H1 100 (s "Scaffold_1") [s "Painted"];
    exsc (s "Scaffold_2") H2 60 (s "Scaffold_2") [s "Painted"];
    exsc (s "Scaffold_3") H2 30 (s "Scaffold_3") [s "Painted"];
    exsc (s "Scaffold_3_unloc_1") H2 5 (s "Scaffold_3") [s "Painted"; s "Unloc"];
    exsc (s "Scaffold_4") H1 700 (s "Scaffold_4") [s "Painted"];
    exsc (s "Scaffold_5") H2 650 (s "Scaffold_5") [s "Painted"] ].
Definition exB_x0 : sub * list sub :=
  ((s "Scaffold_1", [0%nat]), [(s "Scaffold_2", [1%nat]); (s "Scaffold_3", [2%nat; 3%nat])]).
Definition exB_x1 : sub * list sub := ((s "Scaffold_4", [4%nat]), [(s "Scaffold_5", [5%nat])]).
Definition exB_items : list (str * nat) :=
  [(H1, 0%nat); (H2, 1%nat); (H2, 2%nat); (H2, 3%nat); (H1, 4%nat); (H2, 5%nat)].

Example exB_items_shape : items_of (map (chrom_split H1 H2) [exB_x0; exB_x1]) = exB_items.
Proof. reflexivity. Qed.

Example exB_compute :
  names_or_err (name_chromosomes (s "SUPER_") exB_fused exB_items)
  = inl [s "SUPER_2"; s "SUPER_2A"; s "SUPER_2B"; s "SUPER_2B_unloc_1"; s "SUPER_1"; s "SUPER_1"].
Proof. vm_compute. reflexivity. Qed.

Example exB_groups_compute :
  match foldM (build_groups_step exB_fused [H1; H2] true) exB_items (mkCg [new_group [H1; H2]] None None) with
  | Ok st => cg_groups st | Err _ => [] end
  = [ [(H1, [(s "Scaffold_1", [0%nat])]); (H2, [(s "Scaffold_2", [1%nat]); (s "Scaffold_3", [2%nat; 3%nat])])];
      [(H1, [(s "Scaffold_4", [4%nat])]); (H2, [(s "Scaffold_5", [5%nat])])] ].
Proof. vm_compute. reflexivity. Qed.

Lemma exB_hyps :
  H1 <> H2 /\ Forall (split_ok exB_fused) [exB_x0; exB_x1]
  /\ NoDup (map snd (items_of (map (chrom_split H1 H2) [exB_x0; exB_x1]))).
Proof.
  split; [discriminate|]. split.
  - constructor; [|constructor; [|constructor]].
    + split; [solve_sub_ok|]. cbn [snd exB_x0]. split; [discriminate|].
      split; [solve_forall solve_sub_ok|]. split; [solve_nodup|].
      cbn [removelast]. repeat constructor.
    + split; [solve_sub_ok|]. cbn [snd exB_x1]. split; [discriminate|].
      split; [solve_forall solve_sub_ok|]. split; [solve_nodup|]. constructor.
  - vm_compute. solve_nodup.
Qed.

Example exB_names_by_theorem :
  exists fused', name_chromosomes (s "SUPER_") exB_fused exB_items = Ok fused'
    /\ option_map sc_name (nth_error fused' 0) = Some (s "SUPER_2")
    /\ option_map sc_name (nth_error fused' 1) = Some (s "SUPER_2A")
    /\ option_map sc_name (nth_error fused' 2) = Some (s "SUPER_2B")
    /\ option_map sc_name (nth_error fused' 3) = Some (s "SUPER_2B_unloc_1").
Proof.
  destruct exB_hyps as (A & B & C).
  destruct (two_hap_split_names exB_fused H1 H2 A _ _ B (s "SUPER_") C) as (fused' & E & _ & R).
  exists fused'. split; [exact E|].
  destruct (R 1%nat (fst exB_x0) (snd exB_x0) eq_refl) as [R1 R2].
  repeat split.
  - erewrite (R1 0%nat _ []); [reflexivity | left; reflexivity | reflexivity | reflexivity | solve_noocc].
  - erewrite (R2 0%nat (s "Scaffold_2", [1%nat]) 1%nat _ []);
      [reflexivity | reflexivity | left; reflexivity | reflexivity | reflexivity | solve_noocc].
  - erewrite (R2 1%nat (s "Scaffold_3", [2%nat; 3%nat]) 2%nat _ []);
      [reflexivity | reflexivity | left; reflexivity | reflexivity | reflexivity | solve_noocc].
  - erewrite (R2 1%nat (s "Scaffold_3", [2%nat; 3%nat]) 3%nat _ (s "_unloc_1"));
      [reflexivity | reflexivity | right; left; reflexivity | reflexivity | reflexivity | solve_noocc].
Qed.

(* ---- C. chromosomes that are not seen in every haplotype *)
Definition exC (tag_b1 tag_bx : list str) : list scaffold :=
  [ exsc (s "a1") H1 100 (s "a1") [];
    exsc (s "b1") H2 90 (s "b1") tag_b1;
    exsc (s "bx") H2 50 (s "bx") tag_bx;          (* seen in Hap2 only *)
    exsc (s "a2") H1 200 (s "a2") [];
    exsc (s "b2") H2 10 (s "b2") [] ].
Definition exC_items : list (str * nat) := [(H1, 0%nat); (H2, 1%nat); (H2, 2%nat); (H1, 3%nat); (H2, 4%nat)].

(* C1. a chromosome seen in Hap2 only is taken for a second Pretext scaffold of
   the previous chromosome: it gets that chromosome's number and the letter B
   (the true homologue becomes A) -- whether or not it is tagged Singleton:
   the tag that is looked at is the one of the PREVIOUS Hap2 scaffold *)
Example exC1_h2_only_becomes_B :
  names_or_err (name_chromosomes (s "S_") (exC [] []) exC_items)
  = inl [s "S_2"; s "S_2A"; s "S_2B"; s "S_1"; s "S_1"]
  /\ names_or_err (name_chromosomes (s "S_") (exC [] [s "Singleton"]) exC_items)
     = inl [s "S_2"; s "S_2A"; s "S_2B"; s "S_1"; s "S_1"].
Proof. split; vm_compute; reflexivity. Qed.

(* C2. tagging the previous Hap2 scaffold does separate it, but the new group
   has no Hap1 member yet, so the NEXT Hap1 scaffold joins it: from here on
   every Hap1 scaffold is grouped with the Hap2 scaffold of the chromosome
   before it, and the last group stays without Hap1 -> ChrNamerError *)
Example exC2_shifted_groups :
  match foldM (build_groups_step (exC [s "Singleton"] []) [H1; H2] true) exC_items (mkCg [new_group [H1; H2]] None None) with
  | Ok st => cg_groups st | Err _ => [] end
  = [ [(H1, [(s "a1", [0%nat])]); (H2, [(s "b1", [1%nat])])];
      [(H1, [(s "a2", [3%nat])]); (H2, [(s "bx", [2%nat])])];
      [(H1, []); (H2, [(s "b2", [4%nat])])] ]
  /\ name_chromosomes (s "S_") (exC [s "Singleton"] []) exC_items = Err ChrNamerError.
Proof. split; vm_compute; reflexivity. Qed.

(* ... unless a later chromosome seen in Hap1 only (tagged Singleton) makes up
   for it: then there is NO error, and a2 shares its number with bx, a3 with b2 *)
Definition exC3_fused : list scaffold :=
  exC [s "Singleton"] [] ++
  [ exsc (s "a3") H1 300 (s "a3") [s "Singleton"];   (* seen in Hap1 only *)
    exsc (s "a4") H1 20 (s "a4") [];
    exsc (s "b4") H2 10 (s "b4") [] ].
Definition exC3_items : list (str * nat) := exC_items ++ [(H1, 5%nat); (H1, 6%nat); (H2, 7%nat)].
Definition exC3_chrs : list chrom :=
  [ [(H1, [(s "a1", [0%nat])]); (H2, [(s "b1", [1%nat])])];
    [(H2, [(s "bx", [2%nat])]); (H1, [(s "a2", [3%nat])])];
    [(H2, [(s "b2", [4%nat])]); (H1, [(s "a3", [5%nat])])];
    [(H1, [(s "a4", [6%nat])]); (H2, [(s "b4", [7%nat])])] ].

Example exC3_silent_mispairing :
  names_or_err (name_chromosomes (s "S_") exC3_fused exC3_items)
  = inl [s "S_3"; s "S_3"; s "S_2"; s "S_2"; s "S_1"; s "S_1"; s "S_4"; s "S_4"].
Proof. vm_compute. reflexivity. Qed.

(* the general grouping theorem covers it: the "chromosomes" of the model are
   (a1 b1) (bx a2) (b2 a3) (a4 b4) *)
Ltac solve_run_ok :=
  split; [cbn; tauto|]; split; [discriminate|]; cbn [fst snd];
  split; [solve_forall solve_sub_ok|]; split; [solve_nodup|]; cbn [removelast]; solve_forall ltac:(reflexivity).
Ltac solve_chrom_ok :=
  split; [discriminate|]; split; [solve_forall solve_run_ok | solve_nodup].

Example exC3_by_theorem :
  exists lh lo,
    foldM (build_groups_step exC3_fused [H1; H2] true) exC3_items (mkCg [new_group [H1; H2]] None None)
    = Ok (mkCg (map (group_of [H1; H2]) exC3_chrs) lh lo)
    /\ map (group_of [H1; H2]) exC3_chrs
       = [ [(H1, [(s "a1", [0%nat])]); (H2, [(s "b1", [1%nat])])];
           [(H1, [(s "a2", [3%nat])]); (H2, [(s "bx", [2%nat])])];
           [(H1, [(s "a3", [5%nat])]); (H2, [(s "b2", [4%nat])])];
           [(H1, [(s "a4", [6%nat])]); (H2, [(s "b4", [7%nat])])] ].
Proof.
  eexists. eexists. split; [|vm_compute; reflexivity].
  change exC3_items with (items_of exC3_chrs).
  apply (build_groups_multi exC3_fused [H1; H2]).
  - solve_nodup.
  - solve_forall solve_chrom_ok.
  - cbn [seps exC3_chrs]. repeat split; cbn [map fst In]; try tauto.
    + (* (a1 b1) | bx : same haplotype as b1, another name, b1 tagged Singleton *)
      right. split; [discriminate | reflexivity].
    + (* (bx a2) | b2 : Hap2 is already in the group and a2 is Hap1 *)
      left. discriminate.
    + (* (b2 a3) | a4 : same haplotype as a3, another name, a3 tagged Singleton *)
      right. split; [discriminate | reflexivity].
Qed.

(* C4. a chromosome seen in Hap1 only, NOT tagged: the next Hap1 scaffold is
   put into the same group -> "<Consecutive Hap1>", ChrNamerError *)
Definition exC4 (tag_ax : list str) : list scaffold :=
  [ exsc (s "a1") H1 100 (s "a1") [];
    exsc (s "b1") H2 90 (s "b1") [];
    exsc (s "ax") H1 50 (s "ax") tag_ax;          (* seen in Hap1 only *)
    exsc (s "a2") H1 200 (s "a2") [];
    exsc (s "b2") H2 10 (s "b2") [] ].
Definition exC4_items : list (str * nat) := [(H1, 0%nat); (H2, 1%nat); (H1, 2%nat); (H1, 3%nat); (H2, 4%nat)].

Example exC4_untagged_compute : name_chromosomes (s "S_") (exC4 []) exC4_items = Err ChrNamerError.
Proof. vm_compute. reflexivity. Qed.

Example exC4_untagged_by_theorem : name_chromosomes (s "S_") (exC4 []) exC4_items = Err ChrNamerError.
Proof.
  pose (c0 := [(H1, [(s "a1", [0%nat])]); (H2, [(s "b1", [1%nat])])] : chrom).
  pose (c1 := [(H1, [(s "ax", [2%nat]); (s "a2", [3%nat])]); (H2, [(s "b2", [4%nat])])] : chrom).
  change exC4_items with (items_of [c0; c1]).
  apply (name_chromosomes_multi_bad (exC4 []) H1 [H2]).
  - discriminate.
  - solve_forall solve_chrom_ok.
  - cbn [seps]. split; [|exact Logic.I]. split; [left; reflexivity|]. left. discriminate.
  - vm_compute. reflexivity.
  - intro F. inversion F as [|? ? _ F']; subst. inversion F' as [|? ? (sb & X) _]; subst.
    vm_compute in X. discriminate.
Qed.

(* C5. tagged Singleton it stays alone and is numbered by its own length *)
Example exC5_singleton_compute :
  names_or_err (name_chromosomes (s "S_") (exC4 [s "Singleton"]) exC4_items)
  = inl [s "S_2"; s "S_2"; s "S_3"; s "S_1"; s "S_1"].
Proof. vm_compute. reflexivity. Qed.

Example exC5_singleton_by_theorem :
  exists st,
    foldM (build_groups_step (exC4 [s "Singleton"]) [H1; H2] true) exC4_items (mkCg [new_group [H1; H2]] None None) = Ok st
    /\ cg_groups st = [ [(H1, [(s "a1", [0%nat])]); (H2, [(s "b1", [1%nat])])];
                        [(H1, [(s "ax", [2%nat])]); (H2, [])];
                        [(H1, [(s "a2", [3%nat])]); (H2, [(s "b2", [4%nat])])] ]
    /\ existsb (group_bad [H1; H2]) (cg_groups st) = false.
Proof.
  apply (two_hap_singleton_groups (exC4 [s "Singleton"]) H1 H2
           [Pair (s "a1", [0%nat]) (s "b1", [1%nat]); Single (s "ax", [2%nat]); Pair (s "a2", [3%nat]) (s "b2", [4%nat])]).
  - discriminate.
  - discriminate.
  - solve_forall ltac:(idtac; cbn [chr2_ok]; first [split; solve_sub_ok | solve_sub_ok]).
  - cbn [singles_tagged]. repeat split. discriminate.
Qed.

(* C6. which haplotype is "the first" is decided by the first painted scaffold
   of the map: if that one is Hap2, Hap2 lengths decide *)
Example exC6_first_seen :
  names_or_err (name_chromosomes (s "S_")
      [ exsc (s "b1") H2 10 (s "b1") []; exsc (s "a1") H1 999 (s "a1") [];
        exsc (s "b2") H2 20 (s "b2") []; exsc (s "a2") H1 1 (s "a2") [] ]
      [(H2, 0%nat); (H1, 1%nat); (H2, 2%nat); (H1, 3%nat)])
  = inl [s "S_2"; s "S_2"; s "S_1"; s "S_1"].
Proof. vm_compute. reflexivity. Qed.

(* =========================================================== assumptions *)
Print Assumptions build_groups_multi.
Print Assumptions groups_bad_iff.
Print Assumptions k_hap_groups.
Print Assumptions two_hap_groups.
Print Assumptions two_hap_singleton_groups.
Print Assumptions two_hap_split_groups.
Print Assumptions ranked_spec.
Print Assumptions name_chromosomes_multi_bad.
Print Assumptions name_chromosomes_multi_eq.
Print Assumptions name_chromosomes_multi.
Print Assumptions two_hap_split_names.
Print Assumptions two_hap_names.
Print Assumptions k_hap_names.
Print Assumptions first_haplotype_decides.
Print Assumptions resize_other_haplotype.
Print Assumptions exA_groups_by_theorem.
Print Assumptions exA_names_by_theorem.
Print Assumptions exB_names_by_theorem.
Print Assumptions exC3_by_theorem.
Print Assumptions exC4_untagged_by_theorem.
Print Assumptions exC5_singleton_by_theorem.
