From Tola Require Import Py.Base Model.Clobber Proofs.BaseLemmas.
From Coq Require Import Lia.

Lemma lookup_write_same fs p c : lookup (write fs p c) p = Some c.
Proof.
  unfold lookup, write. induction fs as [|[k v] fs IH]; cbn [aset aget].
  - rewrite str_eqb_refl. reflexivity.
  - destruct (str_eqb p k) eqn:E; cbn [aget]; rewrite E; [reflexivity | exact IH].
Qed.

Lemma lookup_write_other fs p q c : p <> q -> lookup (write fs p c) q = lookup fs q.
Proof.
  intro N. unfold lookup, write. induction fs as [|[k v] fs IH]; cbn [aset aget].
  - destruct (str_eqb q p) eqn:E; [apply str_eqb_eq in E; congruence | reflexivity].
  - destruct (str_eqb p k) eqn:E; cbn [aget].
    + apply str_eqb_eq in E. subst k.
      destruct (str_eqb q p) eqn:E2; [apply str_eqb_eq in E2; congruence | reflexivity].
    + destruct (str_eqb q k); [reflexivity | exact IH].
Qed.

Definition exists_in (fs : fsys) (p : str) : Prop := lookup fs p <> None.

(* ---- no-clobber *)
Theorem noclobber_spec : forall opens fs fs' st,
  NoDup (map fst opens) ->
  run_opens true fs opens = (fs', st) ->
  (* every pre-existing path keeps its bytes *)
  (forall p c, lookup fs p = Some c -> lookup fs' p = Some c)
  /\ match st with
     | ExitCollision p =>
         (* the named file pre-exists, is an output of the run, and no earlier output pre-exists *)
         exists pre c post, opens = pre ++ (p, c) :: post /\ exists_in fs p
           /\ Forall (fun o => lookup fs (fst o) = None) pre
           (* outputs before it were created with their content, nothing after it was touched *)
           /\ Forall (fun o => lookup fs' (fst o) = Some (snd o)) pre
           /\ Forall (fun o => lookup fs' (fst o) = lookup fs (fst o)) post
     | ExitOk =>
         Forall (fun o => lookup fs (fst o) = None) opens
         /\ Forall (fun o => lookup fs' (fst o) = Some (snd o)) opens
     end
  /\ (forall q, ~ In q (map fst opens) -> lookup fs' q = lookup fs q).
Proof.
  induction opens as [|[p c] t IH]; intros fs fs' st ND H; cbn [run_opens] in H.
  - injection H as <- <-. repeat split; auto.
  - inversion ND as [|? ? Hnot ND']; subst.
    destruct (lookup fs p) as [old|] eqn:L.
    + injection H as <- <-. split; [auto|]. split.
      * exists [], c, t. repeat split; auto.
        -- unfold exists_in. congruence.
        -- apply Forall_forall. auto.
      * auto.
    + specialize (IH (write fs p c) fs' st ND' H) as (Keep & Shape & Other).
      assert (Fresh : forall q, In q (map fst t) -> p <> q).
      { intros q Hq E. subst q. contradiction. }
      split.
      { intros q d Hq. apply Keep. rewrite lookup_write_other; [exact Hq|]. intro E. subst q. congruence. }
      split.
      * destruct st as [|p0].
        -- destruct Shape as (S1 & S2). split.
           ++ constructor; [exact L|]. apply Forall_forall. intros o Ho.
              rewrite Forall_forall in S1. specialize (S1 o Ho).
              rewrite lookup_write_other in S1; [exact S1|]. apply Fresh. apply in_map. exact Ho.
           ++ constructor; [|exact S2]. cbn [fst snd].
              rewrite Other; [apply lookup_write_same | exact Hnot].
        -- destruct Shape as (pre & c0 & post & E & Ex & P1 & P2 & P3).
           exists ((p, c) :: pre), c0, post. subst t.
           assert (Np : p <> p0).
           { apply Fresh. rewrite map_app. apply in_or_app. right. left. reflexivity. }
           repeat split.
           ++ unfold exists_in in *. rewrite lookup_write_other in Ex; auto.
           ++ constructor; [exact L|]. apply Forall_forall. intros o Ho.
              rewrite Forall_forall in P1. specialize (P1 o Ho).
              rewrite lookup_write_other in P1; [exact P1|].
              apply Fresh. rewrite map_app. apply in_or_app. left. apply in_map. exact Ho.
           ++ constructor; [|exact P2]. cbn [fst snd].
              rewrite Other; [apply lookup_write_same | exact Hnot].
           ++ apply Forall_forall. intros o Ho. rewrite Forall_forall in P3. rewrite (P3 o Ho).
              apply lookup_write_other. apply Fresh. rewrite map_app. apply in_or_app. right. right.
              apply in_map. exact Ho.
      * intros q Hq. cbn [map fst] in Hq. rewrite Other.
        -- apply lookup_write_other. intro E. apply Hq. left. exact E.
        -- intro I. apply Hq. right. exact I.
Qed.

(* the run fails iff some output path pre-exists *)
Corollary noclobber_fails_iff : forall opens fs,
  NoDup (map fst opens) ->
  (exists p, snd (run_opens true fs opens) = ExitCollision p)
  <-> Exists (fun o => exists_in fs (fst o)) opens.
Proof.
  intros opens fs ND. destruct (run_opens true fs opens) as [fs' st] eqn:H.
  destruct (noclobber_spec opens fs fs' st ND H) as (_ & Shape & _). cbn [snd]. split.
  - intros [p ->]. destruct Shape as (pre & c & post & -> & Ex & _).
    apply Exists_exists. exists (p, c). split; [apply in_or_app; right; left; reflexivity | exact Ex].
  - intro E. destruct st as [|p]; [|eauto].
    destruct Shape as (S1 & _). apply Exists_exists in E as (o & Ho & Ex).
    rewrite Forall_forall in S1. unfold exists_in in Ex. rewrite (S1 o Ho) in Ex. contradiction.
Qed.

(* ---- clobber: always succeeds, every output holds exactly the run's content,
   other paths untouched *)
Theorem clobber_spec : forall opens fs fs' st,
  NoDup (map fst opens) ->
  run_opens false fs opens = (fs', st) ->
  st = ExitOk
  /\ Forall (fun o => lookup fs' (fst o) = Some (snd o)) opens
  /\ (forall q, ~ In q (map fst opens) -> lookup fs' q = lookup fs q).
Proof.
  induction opens as [|[p c] t IH]; intros fs fs' st ND H; cbn [run_opens] in H.
  - injection H as <- <-. repeat split; auto.
  - inversion ND as [|? ? Hnot ND']; subst.
    assert (H' : run_opens false (write fs p c) t = (fs', st)) by (destruct (lookup fs p); exact H).
    specialize (IH _ _ _ ND' H') as (S & F & O). split; [exact S|]. split.
    + constructor; [|exact F]. cbn [fst snd]. rewrite O; [apply lookup_write_same | exact Hnot].
    + intros q Hq. cbn [map fst] in Hq. rewrite O.
      * apply lookup_write_other. intro E. apply Hq. left. exact E.
      * intro I. apply Hq. right. exact I.
Qed.
