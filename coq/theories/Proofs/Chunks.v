(* Proofs about the chunk iterators of tola.fasta.index (fwd_chunks,
   rev_chunks, get_gap_iter), IUPAC complement / reverse complement and
   Scaffold.reverse.  Only proofs: every definition referred to lives in
   Model/ or Py/. *)
From Tola Require Import Py.Base Model.Fragment Model.Scaffold Model.Fasta Model.FastaSpec
     Proofs.BaseLemmas.
From Coq Require Import Lia ZifyBool.

(* ================================================================== A *)
(* complement / reverse complement *)

Theorem complement_involutive : forall c, complement (complement c) = c.
Proof. intros [[] [] [] [] [] [] [] []]; vm_compute; reflexivity. Qed.

Theorem reverse_complement_app : forall a b,
  reverse_complement (a ++ b) = reverse_complement b ++ reverse_complement a.
Proof.
  intros a b. unfold reverse_complement. rewrite rev_app_distr, map_app. reflexivity.
Qed.

Theorem reverse_complement_involutive : forall x,
  reverse_complement (reverse_complement x) = x.
Proof.
  intros x. unfold reverse_complement.
  rewrite <- map_rev, rev_involutive, map_map.
  transitivity (map (fun c : ascii => c) x); [|apply map_id].
  apply map_ext. intro c. apply complement_involutive.
Qed.

Theorem reverse_complement_length : forall x,
  length (reverse_complement x) = length x.
Proof. intros x. unfold reverse_complement. rewrite map_length, rev_length. reflexivity. Qed.

Lemma reverse_complement_zlen x : zlen (reverse_complement x) = zlen x.
Proof. unfold zlen. rewrite reverse_complement_length. reflexivity. Qed.

Lemma reverse_complement_nil : reverse_complement [] = [].
Proof. reflexivity. Qed.

(* concatenating reverse-complemented pieces in reverse order *)
Lemma concat_rev_map_revcomp (L : list str) :
  concat (rev (map reverse_complement L)) = reverse_complement (concat L).
Proof.
  induction L as [|c L IH]; [reflexivity|].
  cbn [map rev concat]. rewrite concat_app, IH, reverse_complement_app.
  cbn [concat]. rewrite app_nil_r. reflexivity.
Qed.

(* ================================================================== B *)
(* Scaffold.reverse on rows *)

Lemma frag_reverse_involutive f : frag_reverse (frag_reverse f) = f.
Proof. destruct f. unfold frag_reverse. cbn. f_equal. lia. Qed.

Lemma row_reverse_involutive r : row_reverse (row_reverse r) = r.
Proof. destruct r; cbn [row_reverse]; [rewrite frag_reverse_involutive|]; reflexivity. Qed.

Theorem rows_reverse_involutive : forall rows, rows_reverse (rows_reverse rows) = rows.
Proof.
  intros rows. unfold rows_reverse.
  rewrite <- map_rev, rev_involutive, map_map.
  transitivity (map (fun r : row => r) rows); [|apply map_id].
  apply map_ext. apply row_reverse_involutive.
Qed.

Lemma row_len_reverse r : row_len (row_reverse r) = row_len r.
Proof. destruct r; reflexivity. Qed.

Lemma nth_error_rev_some {A} (l : list A) k x :
  nth_error l k = Some x -> nth_error (rev l) (length l - 1 - k)%nat = Some x.
Proof.
  revert k; induction l as [|a l IH]; intros k H.
  - destruct k; discriminate.
  - cbn [rev length]. destruct k as [|k]; cbn [nth_error] in H.
    + injection H as ->.
      rewrite nth_error_app2 by (rewrite rev_length; lia).
      rewrite rev_length.
      replace (S (length l) - 1 - 0 - length l)%nat with 0%nat by lia. reflexivity.
    + assert (k < length l)%nat by (apply nth_error_Some; congruence).
      rewrite nth_error_app1 by (rewrite rev_length; lia).
      replace (S (length l) - 1 - S k)%nat with (length l - 1 - k)%nat by lia.
      apply IH; exact H.
Qed.

Theorem rows_reverse_spec : forall rows,
  length (rows_reverse rows) = length rows
  /\ rows_len (rows_reverse rows) = rows_len rows
  /\ forall k r, nth_error rows k = Some r ->
       nth_error (rows_reverse rows) (length rows - 1 - k)%nat = Some (row_reverse r).
Proof.
  intros rows. unfold rows_reverse. repeat split.
  - rewrite map_length, rev_length. reflexivity.
  - unfold rows_len. rewrite map_map.
    rewrite (map_ext _ row_len) by apply row_len_reverse.
    rewrite map_rev, sumZ_rev. reflexivity.
  - intros k r H. apply map_nth_error. apply nth_error_rev_some. exact H.
Qed.

Theorem row_reverse_spec : forall r,
  match r, row_reverse r with
  | RF f, RF g => f_name g = f_name f /\ f_start g = f_start f /\ f_end g = f_end f
                  /\ f_tags g = f_tags f /\ f_strand g = - f_strand f
  | RG g, RG h => h = g
  | _, _ => False
  end.
Proof. intros [f|g]; cbn; repeat split; reflexivity. Qed.

(* ================================================================== C *)
(* ---- list algebra for slices *)

Lemma skipn_skipn' {A} n m (l : list A) : skipn n (skipn m l) = skipn (m + n) l.
Proof.
  revert l; induction m as [|m IH]; intros l; [reflexivity|].
  destruct l as [|a l]; cbn [skipn Nat.add]; [apply skipn_nil | apply IH].
Qed.

Lemma firstn_add_skipn {A} n k (l : list A) :
  firstn n l ++ firstn k (skipn n l) = firstn (n + k) l.
Proof.
  revert l; induction n as [|n IH]; intros l; [reflexivity|].
  destruct l as [|a l]; cbn [firstn skipn Nat.add app].
  - apply firstn_nil.
  - f_equal. apply IH.
Qed.

Lemma slice1_app (x : str) a m b :
  1 <= a -> a - 1 <= m -> m <= b ->
  slice1 x a m ++ slice1 x (m + 1) b = slice1 x a b.
Proof.
  intros Ha Hm Hb. unfold slice1, py_slice.
  replace (Z.to_nat (m + 1 - 1)) with (Z.to_nat (a - 1) + Z.to_nat (m - (a - 1)))%nat by lia.
  rewrite <- skipn_skipn', firstn_add_skipn. f_equal. lia.
Qed.

Lemma slice1_empty (x : str) a b : b <= a - 1 -> slice1 x a b = [].
Proof.
  intros H. unfold slice1, py_slice.
  replace (Z.to_nat (b - (a - 1))) with 0%nat by lia. reflexivity.
Qed.

Lemma zlen_slice1 (x : str) a b :
  1 <= a -> a - 1 <= b -> b <= zlen x -> zlen (slice1 x a b) = b - a + 1.
Proof.
  unfold slice1, py_slice, zlen. intros Ha Hb Hx.
  rewrite firstn_length, skipn_length. lia.
Qed.

(* ---- the two loops *)
Lemma for_range_ok {A} (f : Z -> res A) (g : Z -> A) n i :
  (forall k, (i <= k < i + n)%nat -> f (Z.of_nat k) = Ok (g (Z.of_nat k))) ->
  for_range f (Z.of_nat i) n = Ok (map g (map Z.of_nat (seq i n))).
Proof.
  revert i; induction n as [|n IH]; intros i H; cbn [for_range seq map]; [reflexivity|].
  rewrite H by lia. cbn [bind].
  replace (Z.of_nat i + 1) with (Z.of_nat (S i)) by lia.
  rewrite IH by (intros k Hk; apply H; lia). reflexivity.
Qed.

Lemma for_range_down_ok {A} (f : Z -> res A) (g : Z -> A) n :
  (forall k, (k < n)%nat -> f (Z.of_nat k) = Ok (g (Z.of_nat k))) ->
  for_range_down f n = Ok (rev (map g (map Z.of_nat (seq 0 n)))).
Proof.
  induction n as [|n IH]; intros H; [reflexivity|].
  cbn [for_range_down]. rewrite H by lia.
  rewrite IH by (intros k Hk; apply H; lia). cbn [bind].
  rewrite seq_S, !map_app, rev_app_distr. reflexivity.
Qed.

(* ---- forward chunks *)
(* chunk k of the forward iterator *)
Definition fchunk (residues : str) (buf s e k : Z) : str :=
  slice1 residues (s + k * buf) (Z.min e (s + k * buf + buf - 1)).

Lemma fchunk_concat residues buf s e :
  1 <= buf -> 1 <= s ->
  forall m j,
    concat (map (fchunk residues buf s e) (map Z.of_nat (seq j m)))
    = slice1 residues (s + Z.of_nat j * buf) (Z.min e (s + Z.of_nat (j + m) * buf - 1)).
Proof.
  intros Hbuf Hs. induction m as [|m IH]; intros j.
  - cbn [seq map concat]. rewrite Nat.add_0_r. symmetry. apply slice1_empty. lia.
  - cbn [seq map concat]. rewrite IH. unfold fchunk.
    assert (E1 : Z.of_nat (S j) * buf = Z.of_nat j * buf + buf) by lia.
    assert (E2 : Z.of_nat (S j + m) * buf = Z.of_nat j * buf + buf + Z.of_nat m * buf) by lia.
    assert (E3 : Z.of_nat (j + S m) * buf = Z.of_nat j * buf + buf + Z.of_nat m * buf) by lia.
    assert (P1 : 0 <= Z.of_nat j * buf) by (apply Z.mul_nonneg_nonneg; lia).
    assert (P2 : 0 <= Z.of_nat m * buf) by (apply Z.mul_nonneg_nonneg; lia).
    rewrite E1, E2, E3.
    set (jb := Z.of_nat j * buf) in *. set (mb := Z.of_nat m * buf) in *.
    destruct (Z_le_gt_dec (s + jb + buf - 1) e) as [Hle|Hgt].
    + rewrite (Z.min_r e (s + jb + buf - 1)) by lia.
      replace (s + (jb + buf)) with (s + jb + buf - 1 + 1) by lia.
      apply slice1_app; lia.
    + rewrite (Z.min_l e (s + jb + buf - 1)) by lia.
      rewrite (Z.min_l e (s + (jb + buf + mb) - 1)) by lia.
      rewrite (slice1_empty residues (s + (jb + buf)) e) by lia.
      apply app_nil_r.
Qed.

(* everything about the list of forward pieces, shared by fwd and rev *)
Lemma fchunk_list_props file buf i residues s e :
  good_access file i residues -> 1 <= buf -> 1 <= s -> s <= e -> e <= zlen residues ->
  let n := Z.to_nat (1 + (e - s) / buf) in
  let L := map (fchunk residues buf s e) (map Z.of_nat (seq 0 n)) in
  (forall k, (k < n)%nat ->
     sequence_bytes file i (s + Z.of_nat k * buf)
                    (Z.min e (s + Z.of_nat k * buf + buf - 1))
     = Ok (fchunk residues buf s e (Z.of_nat k)))
  /\ concat L = slice1 residues s e
  /\ Forall (fun c => 1 <= zlen c <= buf) L
  /\ zlen L = (e - s) / buf + 1.
Proof.
  intros [Hlen Hacc] Hbuf Hs Hse He n L.
  pose proof (Z.mul_div_le (e - s) buf ltac:(lia)) as Q1.
  pose proof (Z.mul_succ_div_gt (e - s) buf ltac:(lia)) as Q2.
  assert (Q0 : 0 <= (e - s) / buf) by (apply Z.div_pos; lia).
  set (q := (e - s) / buf) in *.
  assert (Hn : Z.of_nat n = q + 1) by (unfold n; lia).
  assert (Hk : forall k, (k < n)%nat ->
             0 <= Z.of_nat k * buf /\ s + Z.of_nat k * buf <= e).
  { intros k Hk. assert (Z.of_nat k <= q) by lia.
    assert (Z.of_nat k * buf <= q * buf) by (apply Z.mul_le_mono_nonneg_r; lia).
    split; [apply Z.mul_nonneg_nonneg; lia | lia]. }
  repeat split.
  - intros k Hlt. destruct (Hk k Hlt) as [K1 K2]. unfold fchunk. apply Hacc; lia.
  - unfold L. rewrite fchunk_concat by assumption.
    cbn [Nat.add]. rewrite Hn. change (Z.of_nat 0 * buf) with 0.
    rewrite Z.add_0_r. f_equal. lia.
  - apply Forall_forall. intros c Hin. unfold L in Hin.
    apply in_map_iff in Hin as [kz [<- Hin]].
    apply in_map_iff in Hin as [k [<- Hin]].
    apply in_seq in Hin. destruct (Hk k ltac:(lia)) as [K1 K2].
    unfold fchunk. rewrite zlen_slice1 by lia. lia.
  - unfold L, zlen. rewrite !map_length, seq_length. lia.
Qed.

Theorem fwd_chunks_spec : forall file buf i residues s e,
  good_access file i residues -> 1 <= buf -> 1 <= s -> s <= e -> e <= zlen residues ->
  exists cs, fwd_chunks file buf i s e = Ok cs
    /\ concat cs = slice1 residues s e
    /\ Forall (fun c => 1 <= zlen c <= buf) cs
    /\ zlen cs = (e - s) / buf + 1.
Proof.
  intros file buf i residues s e Hga Hbuf Hs Hse He.
  destruct (fchunk_list_props file buf i residues s e Hga Hbuf Hs Hse He)
    as (Hf & Hc & Hb & Hl).
  eexists. split; [|split; [exact Hc | split; [exact Hb | exact Hl]]].
  unfold fwd_chunks. replace (buf =? 0) with false by lia.
  change 0 with (Z.of_nat 0) at 1.
  apply (for_range_ok _ (fchunk residues buf s e)).
  intros k Hk. apply Hf. lia.
Qed.

Theorem rev_chunks_spec : forall file buf i residues s e,
  good_access file i residues -> 1 <= buf -> 1 <= s -> s <= e -> e <= zlen residues ->
  exists cs, rev_chunks file buf i s e = Ok cs
    /\ concat cs = reverse_complement (slice1 residues s e)
    /\ Forall (fun c => 1 <= zlen c <= buf) cs
    /\ zlen cs = (e - s) / buf + 1.
Proof.
  intros file buf i residues s e Hga Hbuf Hs Hse He.
  destruct (fchunk_list_props file buf i residues s e Hga Hbuf Hs Hse He)
    as (Hf & Hc & Hb & Hl).
  set (n := Z.to_nat (1 + (e - s) / buf)) in *.
  set (L := map (fchunk residues buf s e) (map Z.of_nat (seq 0 n))) in *.
  exists (rev (map reverse_complement L)). repeat split.
  - unfold rev_chunks. replace (buf =? 0) with false by lia.
    replace ((e - s) / buf + 1) with (1 + (e - s) / buf) by lia. fold n.
    unfold L. rewrite map_map.
    apply (for_range_down_ok _ (fun k => reverse_complement (fchunk residues buf s e k))).
    intros k Hk. cbv beta zeta. rewrite Hf by exact Hk. reflexivity.
  - rewrite concat_rev_map_revcomp, Hc. reflexivity.
  - apply Forall_rev. apply Forall_forall. intros c Hin.
    apply in_map_iff in Hin as [c0 [<- Hin]].
    rewrite reverse_complement_zlen.
    rewrite Forall_forall in Hb. apply (Hb c0 Hin).
  - rewrite <- Hl. unfold zlen. rewrite rev_length, map_length. reflexivity.
Qed.

(* ---- gap chunks *)
Definition gchunk (buf : Z) (c : ascii) (len k : Z) : str :=
  repeat c (Z.to_nat (Z.min len (k * buf + buf) - k * buf)).

Lemma gchunk_concat buf c len :
  1 <= buf -> 0 <= len ->
  forall m j,
    concat (map (gchunk buf c len) (map Z.of_nat (seq j m)))
    = repeat c (Z.to_nat (Z.min len (Z.of_nat (j + m) * buf) - Z.min len (Z.of_nat j * buf))).
Proof.
  intros Hbuf Hlen. induction m as [|m IH]; intros j.
  - cbn [seq map concat]. rewrite Nat.add_0_r, Z.sub_diag. reflexivity.
  - cbn [seq map concat]. rewrite IH. unfold gchunk. rewrite <- repeat_app. f_equal.
    assert (E1 : Z.of_nat (S j) * buf = Z.of_nat j * buf + buf) by lia.
    assert (E2 : Z.of_nat (S j + m) * buf = Z.of_nat j * buf + buf + Z.of_nat m * buf) by lia.
    assert (E3 : Z.of_nat (j + S m) * buf = Z.of_nat j * buf + buf + Z.of_nat m * buf) by lia.
    assert (P1 : 0 <= Z.of_nat j * buf) by (apply Z.mul_nonneg_nonneg; lia).
    assert (P2 : 0 <= Z.of_nat m * buf) by (apply Z.mul_nonneg_nonneg; lia).
    rewrite E1, E2, E3.
    set (jb := Z.of_nat j * buf) in *. set (mb := Z.of_nat m * buf) in *.
    lia.
Qed.

Theorem gap_chunks_spec : forall buf c len,
  1 <= buf -> 0 <= len ->
  exists cs, gap_chunks buf c len = Ok cs
    /\ concat cs = repeat c (Z.to_nat len)
    /\ Forall (fun x => zlen x <= buf) cs
    /\ zlen cs = len / buf + 1.
Proof.
  intros buf c len Hbuf Hlen.
  pose proof (Z.mul_succ_div_gt len buf ltac:(lia)) as Q2.
  assert (Q0 : 0 <= len / buf) by (apply Z.div_pos; lia).
  set (n := Z.to_nat (1 + len / buf)).
  assert (Hn : Z.of_nat n = len / buf + 1) by (unfold n; lia).
  exists (map (gchunk buf c len) (map Z.of_nat (seq 0 n))). repeat split.
  - unfold gap_chunks. replace (buf =? 0) with false by lia. fold n.
    change 0 with (Z.of_nat 0) at 1.
    apply (for_range_ok _ (gchunk buf c len)). intros k Hk. reflexivity.
  - rewrite gchunk_concat by assumption. cbn [Nat.add]. rewrite Hn.
    change (Z.of_nat 0 * buf) with 0. f_equal. lia.
  - apply Forall_forall. intros x Hin.
    apply in_map_iff in Hin as [kz [<- Hin]].
    unfold gchunk, zlen. rewrite repeat_length. lia.
  - unfold zlen. rewrite !map_length, seq_length. lia.
Qed.

(* ---- corollaries *)
Corollary fwd_chunks_bounded : forall file buf i residues s e cs,
  good_access file i residues -> 1 <= buf -> 1 <= s -> s <= e -> e <= zlen residues ->
  fwd_chunks file buf i s e = Ok cs -> chunks_bounded buf cs.
Proof.
  intros file buf i residues s e cs Hga Hbuf Hs Hse He H.
  destruct (fwd_chunks_spec file buf i residues s e Hga Hbuf Hs Hse He) as (cs' & E & _ & B & _).
  rewrite E in H. injection H as <-. unfold chunks_bounded.
  eapply Forall_impl; [|exact B]. cbv beta. intros; lia.
Qed.

Corollary rev_chunks_bounded : forall file buf i residues s e cs,
  good_access file i residues -> 1 <= buf -> 1 <= s -> s <= e -> e <= zlen residues ->
  rev_chunks file buf i s e = Ok cs -> chunks_bounded buf cs.
Proof.
  intros file buf i residues s e cs Hga Hbuf Hs Hse He H.
  destruct (rev_chunks_spec file buf i residues s e Hga Hbuf Hs Hse He) as (cs' & E & _ & B & _).
  rewrite E in H. injection H as <-. unfold chunks_bounded.
  eapply Forall_impl; [|exact B]. cbv beta. intros; lia.
Qed.

Corollary gap_chunks_bounded : forall buf c len cs,
  1 <= buf -> 0 <= len -> gap_chunks buf c len = Ok cs -> chunks_bounded buf cs.
Proof.
  intros buf c len cs Hbuf Hlen H.
  destruct (gap_chunks_spec buf c len Hbuf Hlen) as (cs' & E & _ & B & _).
  rewrite E in H. injection H as <-. exact B.
Qed.

Corollary fwd_chunks_buffer_independent : forall file i residues s e b1 b2 c1 c2,
  good_access file i residues -> 1 <= b1 -> 1 <= b2 -> 1 <= s -> s <= e -> e <= zlen residues ->
  fwd_chunks file b1 i s e = Ok c1 -> fwd_chunks file b2 i s e = Ok c2 -> concat c1 = concat c2.
Proof.
  intros file i residues s e b1 b2 c1 c2 Hga H1 H2 Hs Hse He E1 E2.
  destruct (fwd_chunks_spec file b1 i residues s e Hga H1 Hs Hse He) as (x1 & F1 & C1 & _).
  destruct (fwd_chunks_spec file b2 i residues s e Hga H2 Hs Hse He) as (x2 & F2 & C2 & _).
  rewrite F1 in E1. rewrite F2 in E2. injection E1 as <-. injection E2 as <-.
  rewrite C1, C2. reflexivity.
Qed.

Corollary rev_chunks_buffer_independent : forall file i residues s e b1 b2 c1 c2,
  good_access file i residues -> 1 <= b1 -> 1 <= b2 -> 1 <= s -> s <= e -> e <= zlen residues ->
  rev_chunks file b1 i s e = Ok c1 -> rev_chunks file b2 i s e = Ok c2 -> concat c1 = concat c2.
Proof.
  intros file i residues s e b1 b2 c1 c2 Hga H1 H2 Hs Hse He E1 E2.
  destruct (rev_chunks_spec file b1 i residues s e Hga H1 Hs Hse He) as (x1 & F1 & C1 & _).
  destruct (rev_chunks_spec file b2 i residues s e Hga H2 Hs Hse He) as (x2 & F2 & C2 & _).
  rewrite F1 in E1. rewrite F2 in E2. injection E1 as <-. injection E2 as <-.
  rewrite C1, C2. reflexivity.
Qed.

Corollary gap_chunks_buffer_independent : forall c len b1 b2 c1 c2,
  1 <= b1 -> 1 <= b2 -> 0 <= len ->
  gap_chunks b1 c len = Ok c1 -> gap_chunks b2 c len = Ok c2 -> concat c1 = concat c2.
Proof.
  intros c len b1 b2 c1 c2 H1 H2 Hlen E1 E2.
  destruct (gap_chunks_spec b1 c len H1 Hlen) as (x1 & F1 & C1 & _).
  destruct (gap_chunks_spec b2 c len H2 Hlen) as (x2 & F2 & C2 & _).
  rewrite F1 in E1. rewrite F2 in E2. injection E1 as <-. injection E2 as <-.
  rewrite C1, C2. reflexivity.
Qed.

(* the reverse iterator delivers the reverse complement of the forward one *)
Corollary rev_chunks_is_revcomp_of_fwd : forall file buf i residues s e cf cr,
  good_access file i residues -> 1 <= buf -> 1 <= s -> s <= e -> e <= zlen residues ->
  fwd_chunks file buf i s e = Ok cf -> rev_chunks file buf i s e = Ok cr ->
  concat cr = reverse_complement (concat cf).
Proof.
  intros file buf i residues s e cf cr Hga Hbuf Hs Hse He E1 E2.
  destruct (fwd_chunks_spec file buf i residues s e Hga Hbuf Hs Hse He) as (x1 & F1 & C1 & _).
  destruct (rev_chunks_spec file buf i residues s e Hga Hbuf Hs Hse He) as (x2 & F2 & C2 & _).
  rewrite F1 in E1. rewrite F2 in E2. injection E1 as <-. injection E2 as <-.
  rewrite C1, C2. reflexivity.
Qed.

(* explicit form of both results: L is the list of forward pieces *)
Lemma fwd_rev_explicit file buf i residues s e :
  good_access file i residues -> 1 <= buf -> 1 <= s -> s <= e -> e <= zlen residues ->
  let L := map (fchunk residues buf s e)
               (map Z.of_nat (seq 0 (Z.to_nat (1 + (e - s) / buf)))) in
  fwd_chunks file buf i s e = Ok L
  /\ rev_chunks file buf i s e = Ok (rev (map reverse_complement L)).
Proof.
  intros Hga Hbuf Hs Hse He L.
  destruct (fchunk_list_props file buf i residues s e Hga Hbuf Hs Hse He) as (Hf & _).
  set (n := Z.to_nat (1 + (e - s) / buf)) in *. split.
  - unfold fwd_chunks. replace (buf =? 0) with false by lia.
    change 0 with (Z.of_nat 0) at 1.
    apply (for_range_ok _ (fchunk residues buf s e)).
    intros k Hk. apply Hf. lia.
  - unfold rev_chunks. replace (buf =? 0) with false by lia.
    replace ((e - s) / buf + 1) with (1 + (e - s) / buf) by lia. fold n.
    unfold L. rewrite map_map.
    apply (for_range_down_ok _ (fun k => reverse_complement (fchunk residues buf s e k))).
    intros k Hk. cbv beta zeta. rewrite Hf by exact Hk. reflexivity.
Qed.

(* stronger, chunk by chunk: the reverse iterator yields the forward chunks
   in reverse order, each reverse-complemented (same buffer size) *)
Corollary rev_chunks_chunkwise : forall file buf i residues s e cf cr,
  good_access file i residues -> 1 <= buf -> 1 <= s -> s <= e -> e <= zlen residues ->
  fwd_chunks file buf i s e = Ok cf -> rev_chunks file buf i s e = Ok cr ->
  cr = rev (map reverse_complement cf).
Proof.
  intros file buf i residues s e cf cr Hga Hbuf Hs Hse He E1 E2.
  destruct (fwd_rev_explicit file buf i residues s e Hga Hbuf Hs Hse He) as [F R].
  rewrite F in E1. rewrite R in E2.
  injection E1 as E1. injection E2 as E2. rewrite <- E1, <- E2. reflexivity.
Qed.

(* ---- non-vacuity: a concrete file *)
Definition ex_file : str := s ">a
ACGTAC
GT
".
Definition ex_info : finfo := mkInfo 8 3 6 7.
Definition ex_residues : str := s "ACGTACGT".

Example ex_fwd_chunks :
  fwd_chunks ex_file 3 ex_info 1 8 = Ok [s "ACG"; s "TAC"; s "GT"].
Proof. vm_compute. reflexivity. Qed.

Example ex_rev_chunks :
  rev_chunks ex_file 3 ex_info 1 8 = Ok [s "AC"; s "GTA"; s "CGT"].
Proof. vm_compute. reflexivity. Qed.

Example ex_gap_chunks :
  gap_chunks 3 "N"%char 6 = Ok [s "NNN"; s "NNN"; []]
  /\ gap_chunks 3 "N"%char 0 = Ok [[]]
  /\ gap_chunks 3 "N"%char 7 = Ok [s "NNN"; s "NNN"; s "N"].
Proof. vm_compute. repeat split; reflexivity. Qed.

(* the hypothesis of the theorems is satisfiable: random access into the
   concrete file is good for every 1 <= s <= e <= 8 *)
Example ex_good_access : good_access ex_file ex_info ex_residues.
Proof.
  split; [reflexivity|]. intros a b Ha Hab Hb.
  change (zlen ex_residues) with 8 in Hb.
  assert (Ea : a = 1 \/ a = 2 \/ a = 3 \/ a = 4 \/ a = 5 \/ a = 6 \/ a = 7 \/ a = 8) by lia.
  assert (Eb : b = 1 \/ b = 2 \/ b = 3 \/ b = 4 \/ b = 5 \/ b = 6 \/ b = 7 \/ b = 8) by lia.
  repeat (destruct Ea as [Ea|Ea]); repeat (destruct Eb as [Eb|Eb]); subst a b;
    try (exfalso; lia); vm_compute; reflexivity.
Qed.

(* so the general theorems apply to it, for every buffer size *)
Example ex_fwd_any_buf : forall buf, 1 <= buf ->
  exists cs, fwd_chunks ex_file buf ex_info 1 8 = Ok cs /\ concat cs = ex_residues.
Proof.
  intros buf Hbuf.
  destruct (fwd_chunks_spec ex_file buf ex_info ex_residues 1 8 ex_good_access Hbuf)
    as (cs & E & C & _); try (vm_compute; congruence).
  exists cs. split; [exact E|]. rewrite C. reflexivity.
Qed.

Print Assumptions complement_involutive.
Print Assumptions reverse_complement_involutive.
Print Assumptions reverse_complement_app.
Print Assumptions reverse_complement_length.
Print Assumptions rows_reverse_involutive.
Print Assumptions rows_reverse_spec.
Print Assumptions row_reverse_spec.
Print Assumptions fwd_chunks_spec.
Print Assumptions rev_chunks_spec.
Print Assumptions gap_chunks_spec.
Print Assumptions fwd_chunks_bounded.
Print Assumptions rev_chunks_bounded.
Print Assumptions gap_chunks_bounded.
Print Assumptions fwd_chunks_buffer_independent.
Print Assumptions rev_chunks_buffer_independent.
Print Assumptions gap_chunks_buffer_independent.
Print Assumptions rev_chunks_is_revcomp_of_fwd.
Print Assumptions rev_chunks_chunkwise.
Print Assumptions ex_fwd_chunks.
Print Assumptions ex_rev_chunks.
Print Assumptions ex_gap_chunks.
Print Assumptions ex_good_access.
Print Assumptions ex_fwd_any_buf.
