(* C07: join gaps.  In every fused output scaffold two fragments are directly
   adjacent only if they were directly adjacent inside one piece, every fusion
   boundary carries the join gap, and no output scaffold begins or ends with a
   gap.  The pinned-commit behaviour (left-over pieces appended without the
   gap) is refuted. *)
From Tola Require Import Py.Base Model.Fragment Model.Scaffold Model.Lookup
  Model.OverlapResult Model.OvrSpec Model.Namer Model.Remap.
From Tola Require Import Proofs.BaseLemmas.
From Coq Require Import Lia ZifyBool.

(* ============================================================ definitions *)
(* rows that neither begin nor end with a gap (and are non-empty) *)
Definition no_terminal_gap (rows : list row) : Prop :=
  (exists f t, rows = RF f :: t) /\ (exists f t, rows = t ++ [RF f]).

(* pieces joined with the gap g between consecutive ones *)
Fixpoint join_rows (g : gap) (pieces : list (list row)) : list row :=
  match pieces with [] => [] | [p] => p | p :: t => p ++ RG g :: join_rows g t end.

Definition piece_key (c : cfg) (sc : scaffold) : fuse_key :=
  (if fix_tag_key c then sc_tag sc else None, sc_hap sc, sc_name sc).

Definition adjacent_frags (rows : list row) (a b : frag) : Prop :=
  exists pre post, rows = pre ++ RF a :: RF b :: post.

(* ======================================================== generic lemmas *)
Lemma opt_str_eqb_eq a b : opt_eqb str_eqb a b = true <-> a = b.
Proof.
  destruct a as [x|], b as [y|]; cbn [opt_eqb]; split; intro H;
    try reflexivity; try discriminate.
  - apply str_eqb_eq in H. congruence.
  - injection H as ->. apply str_eqb_refl.
Qed.

Lemma fuse_key_eqb_eq a b : fuse_key_eqb a b = true <-> a = b.
Proof.
  destruct a as [[t1 h1] n1], b as [[t2 h2] n2]. unfold fuse_key_eqb. split; intro H.
  - apply andb_prop in H. destruct H as [H H3]. apply andb_prop in H. destruct H as [H1 H2].
    apply opt_str_eqb_eq in H1. apply opt_str_eqb_eq in H2. apply str_eqb_eq in H3. congruence.
  - injection H as -> -> ->.
    assert (E1 : opt_eqb str_eqb t2 t2 = true) by (apply opt_str_eqb_eq; reflexivity).
    assert (E2 : opt_eqb str_eqb h2 h2 = true) by (apply opt_str_eqb_eq; reflexivity).
    rewrite E1, E2, str_eqb_refl. reflexivity.
Qed.

Lemma fuse_key_eqb_refl a : fuse_key_eqb a a = true.
Proof. apply fuse_key_eqb_eq. reflexivity. Qed.

Lemma fuse_key_eqb_sym a b : fuse_key_eqb a b = fuse_key_eqb b a.
Proof.
  destruct (fuse_key_eqb a b) eqn:E1, (fuse_key_eqb b a) eqn:E2; try reflexivity.
  - apply fuse_key_eqb_eq in E1. subst. rewrite fuse_key_eqb_refl in E2. discriminate.
  - apply fuse_key_eqb_eq in E2. subst. rewrite fuse_key_eqb_refl in E1. discriminate.
Qed.

(* lookup after assignment, for a key test that decides equality *)
Lemma aget_aset {K V} (keqb : K -> K -> bool) :
  (forall a b, keqb a b = true <-> a = b) ->
  forall (d : list (K * V)) k v k',
    aget keqb (aset keqb d k v) k' = if keqb k' k then Some v else aget keqb d k'.
Proof.
  intros Heq. induction d as [|[k0 v0] d IH]; intros k v k'; cbn [aget aset].
  - reflexivity.
  - destruct (keqb k k0) eqn:E0; cbn [aget].
    + apply Heq in E0. subst k0. destruct (keqb k' k); reflexivity.
    + rewrite IH. destruct (keqb k' k0) eqn:E1; [|reflexivity].
      apply Heq in E1. subst k0.
      destruct (keqb k' k) eqn:E2; [|reflexivity].
      apply Heq in E2. subst k'.
      assert (E3 : keqb k k = true) by (apply Heq; reflexivity). congruence.
Qed.

(* ========================================================== 1: reversal *)
Theorem rows_reverse_no_terminal_gap : forall rows,
  no_terminal_gap rows -> no_terminal_gap (rows_reverse rows).
Proof.
  intros rows [(f1 & t1 & E1) (f2 & t2 & E2)]. unfold rows_reverse. split.
  - exists (frag_reverse f2), (map row_reverse (rev t2)).
    rewrite E2, rev_app_distr. reflexivity.
  - exists (frag_reverse f1), (map row_reverse (rev t1)).
    rewrite E1. cbn [rev]. rewrite map_app. reflexivity.
Qed.

Lemma rows_reverse_nil_iff rows : rows_reverse rows = [] <-> rows = [].
Proof.
  unfold rows_reverse. split; intro H.
  - apply map_eq_nil in H. destruct rows as [|r t]; [reflexivity|].
    cbn [rev] in H. apply app_eq_nil in H. destruct H; discriminate.
  - subst. reflexivity.
Qed.

(* ============================================================= 2: joins *)
Lemma join_rows_cons2 g p q t :
  join_rows g (p :: q :: t) = p ++ RG g :: join_rows g (q :: t).
Proof. reflexivity. Qed.

Theorem join_rows_no_terminal_gap : forall g pieces,
  pieces <> [] -> Forall no_terminal_gap pieces -> no_terminal_gap (join_rows g pieces).
Proof.
  intros g. induction pieces as [|p t IH]; intros Hne HF; [congruence|].
  inversion HF as [|? ? Hp Ht]; subst.
  destruct t as [|q t]; [exact Hp|].
  rewrite join_rows_cons2.
  destruct IH as [_ (f2 & t2 & E2)]; [discriminate|assumption|].
  destruct Hp as [(f1 & t1 & E1) _]. split.
  - exists f1, (t1 ++ RG g :: join_rows g (q :: t)). rewrite E1. reflexivity.
  - exists f2, (p ++ RG g :: t2). rewrite E2, <- app_assoc. reflexivity.
Qed.

(* ===================================================== 5a: adjacency in a join *)
Lemma adjacent_app_gap a b g : forall pre post p rest,
  pre ++ RF a :: RF b :: post = p ++ RG g :: rest ->
  (exists post', p = pre ++ RF a :: RF b :: post')
  \/ (exists pre', rest = pre' ++ RF a :: RF b :: post).
Proof.
  induction pre as [|c pre IH]; intros post p rest E.
  - destruct p as [|x [|y p]]; cbn [app] in E.
    + discriminate.
    + injection E as _ E. discriminate.
    + injection E as <- <- E. left. exists p. reflexivity.
  - destruct p as [|x p]; cbn [app] in E.
    + injection E as _ E. right. exists pre. symmetry. exact E.
    + injection E as <- E. destruct (IH _ _ _ E) as [(post' & ->)|(pre' & ->)].
      * left. exists post'. reflexivity.
      * right. exists pre'. reflexivity.
Qed.

(* holds of arbitrary pieces *)
Lemma join_rows_adjacent_gen : forall g pieces a b,
  adjacent_frags (join_rows g pieces) a b -> exists p, In p pieces /\ adjacent_frags p a b.
Proof.
  intros g. induction pieces as [|p t IH]; intros a b (pre & post & E).
  - destruct pre; discriminate.
  - destruct t as [|q t].
    + exists p. split; [left; reflexivity|]. exists pre, post. exact E.
    + rewrite join_rows_cons2 in E. symmetry in E.
      destruct (adjacent_app_gap _ _ _ _ _ _ _ E) as [(post' & E1)|(pre' & E1)].
      * exists p. split; [left; reflexivity|]. exists pre, post'. exact E1.
      * destruct (IH a b) as (p' & Hin & Hadj); [exists pre', post; exact E1|].
        exists p'. split; [right; exact Hin|exact Hadj].
Qed.

Theorem join_rows_adjacent : forall g pieces a b, Forall no_terminal_gap pieces ->
  adjacent_frags (join_rows g pieces) a b -> exists p, In p pieces /\ adjacent_frags p a b.
Proof. intros g pieces a b _. apply join_rows_adjacent_gen. Qed.

(* ====================================================== 3: the fusion fold *)
Definition rows_at (acc : list (fuse_key * scaffold)) (k : fuse_key) : list row :=
  match aget fuse_key_eqb acc k with Some b => sc_rows b | None => [] end.

(* the piece is non-empty and carries key k *)
Definition takes (k : fuse_key) (p : scaffold * bool) : bool :=
  match sc_rows (fst p) with
  | [] => false
  | _ => fuse_key_eqb (piece_key repaired (fst p)) k
  end.

Definition acc_ok (acc : list (fuse_key * scaffold)) : Prop :=
  forall k b, aget fuse_key_eqb acc k = Some b -> sc_rows b <> [].

Lemma append_rows_nonempty self othr g : othr <> [] -> append_rows self othr g <> [].
Proof.
  intros H E. unfold append_rows in E.
  destruct g as [g'|], self as [|r self]; cbn [app] in E; try discriminate; congruence.
Qed.

Lemma fuse_step_rows g acc p k :
  rows_at (fuse_step repaired g acc p) k =
  if takes k p then append_rows (rows_at acc k) (sc_rows (fst p)) (Some g) else rows_at acc k.
Proof.
  destruct p as [sc b]. unfold fuse_step, takes. cbn [fst].
  destruct (sc_rows sc) as [|r0 rows0] eqn:R; [reflexivity|].
  change (if fix_tag_key repaired then sc_tag sc else None, sc_hap sc, sc_name sc)
    with (piece_key repaired sc).
  unfold rows_at at 1. rewrite (aget_aset fuse_key_eqb fuse_key_eqb_eq).
  rewrite (fuse_key_eqb_sym (piece_key repaired sc) k).
  destruct (fuse_key_eqb k (piece_key repaired sc)) eqn:E; [|reflexivity].
  apply fuse_key_eqb_eq in E. subst k.
  cbn [sc_rows fix_leftover_gap repaired]. rewrite orb_true_r.
  unfold rows_at. destruct (aget fuse_key_eqb acc (piece_key repaired sc)); reflexivity.
Qed.

Lemma fuse_step_ok c g acc p : acc_ok acc -> acc_ok (fuse_step c g acc p).
Proof.
  intros H k b. destruct p as [sc isr]. unfold fuse_step.
  destruct (sc_rows sc) as [|r0 rows0] eqn:R; [apply H|].
  rewrite (aget_aset fuse_key_eqb fuse_key_eqb_eq).
  destruct (fuse_key_eqb k _); [|apply H].
  intro E. injection E as <-. cbn [sc_rows]. apply append_rows_nonempty. discriminate.
Qed.

Lemma fuse_fold_ok c g : forall pieces acc, acc_ok acc -> acc_ok (fold_left (fuse_step c g) pieces acc).
Proof.
  induction pieces as [|p t IH]; intros acc H; cbn [fold_left]; [exact H|].
  apply IH, fuse_step_ok, H.
Qed.

Lemma acc_ok_nil : acc_ok [].
Proof. intros k b H. discriminate. Qed.

Definition taken_rows (k : fuse_key) (pieces : list (scaffold * bool)) : list (list row) :=
  map (fun p => sc_rows (fst p)) (filter (takes k) pieces).

Lemma taken_rows_nonempty k pieces : Forall (fun r => r <> []) (taken_rows k pieces).
Proof.
  unfold taken_rows. apply Forall_forall. intros r Hin.
  apply in_map_iff in Hin. destruct Hin as (p & <- & Hp).
  apply filter_In in Hp. destruct Hp as [_ Hp]. unfold takes in Hp.
  destruct (sc_rows (fst p)); [discriminate|discriminate].
Qed.

(* generalised over the accumulator: what is already stored under k counts
   as the first piece *)
Lemma fuse_fold_rows_gen g k : forall pieces acc,
  rows_at (fold_left (fuse_step repaired g) pieces acc) k =
  join_rows g ((match rows_at acc k with [] => [] | r0 => [r0] end) ++ taken_rows k pieces).
Proof.
  induction pieces as [|p t IH]; intro acc; cbn [fold_left].
  - unfold taken_rows. cbn [filter map]. rewrite app_nil_r.
    destruct (rows_at acc k); reflexivity.
  - rewrite IH. rewrite fuse_step_rows. unfold taken_rows at 2. cbn [filter].
    destruct (takes k p) eqn:T; [|reflexivity].
    cbn [map]. fold (taken_rows k t).
    assert (Hp : sc_rows (fst p) <> []).
    { unfold takes in T. destruct (sc_rows (fst p)); [discriminate|discriminate]. }
    destruct (rows_at acc k) as [|x0 r0] eqn:RA.
    + unfold append_rows. cbn [app].
      destruct (sc_rows (fst p)) as [|y0 rp]; [congruence|]. reflexivity.
    + unfold append_rows.
      remember (x0 :: r0) as self eqn:Hs.
      assert (E : (self ++ [RG g] ++ sc_rows (fst p)) = (x0 :: r0) ++ RG g :: sc_rows (fst p))
        by (subst; reflexivity).
      rewrite E. clear E. subst self. cbn [app].
      destruct (taken_rows k t) as [|q t']; cbn [join_rows app].
      * destruct (sc_rows (fst p)); reflexivity.
      * destruct (sc_rows (fst p)) as [|y0 rp] eqn:RP; [congruence|].
        cbn [app]. f_equal. rewrite <- app_assoc. reflexivity.
Qed.

Lemma fuse_fold_rows g k pieces :
  rows_at (fold_left (fuse_step repaired g) pieces []) k = join_rows g (taken_rows k pieces).
Proof. rewrite fuse_fold_rows_gen. reflexivity. Qed.

(* for a non-empty accumulator in which each stored scaffold has rows *)
Theorem fuse_fold_is_join_gen : forall g pieces acc k b,
  acc_ok acc ->
  aget fuse_key_eqb (fold_left (fuse_step repaired g) pieces acc) k = Some b ->
  sc_rows b = join_rows g ((match aget fuse_key_eqb acc k with Some b0 => [sc_rows b0] | None => [] end)
                           ++ taken_rows k pieces).
Proof.
  intros g pieces acc k b Hok H.
  pose proof (fuse_fold_rows_gen g k pieces acc) as E.
  unfold rows_at at 1 in E. rewrite H in E. rewrite E. f_equal. f_equal.
  unfold rows_at. destruct (aget fuse_key_eqb acc k) as [b0|] eqn:G; [|reflexivity].
  specialize (Hok k b0 G). destruct (sc_rows b0); [congruence|reflexivity].
Qed.

Theorem fuse_fold_is_join : forall g pieces k b,
  aget fuse_key_eqb (fold_left (fuse_step repaired g) pieces []) k = Some b ->
  sc_rows b = join_rows g (map (fun p => sc_rows (fst p))
                               (filter (fun p => match sc_rows (fst p) with
                                                 | [] => false
                                                 | _ => fuse_key_eqb (piece_key repaired (fst p)) k
                                                 end) pieces)).
Proof.
  intros g pieces k b H.
  pose proof (fuse_fold_rows g k pieces) as E.
  unfold rows_at in E. rewrite H in E. exact E.
Qed.

(* ================================================ 4: no terminal gap *)
Definition piece_ok (p : scaffold * bool) : Prop :=
  sc_rows (fst p) = [] \/ no_terminal_gap (sc_rows (fst p)).

Lemma taken_rows_ntg k pieces :
  Forall piece_ok pieces -> Forall no_terminal_gap (taken_rows k pieces).
Proof.
  intro HF. unfold taken_rows. apply Forall_forall. intros r Hin.
  apply in_map_iff in Hin. destruct Hin as (p & <- & Hp).
  apply filter_In in Hp. destruct Hp as [Hin Hp].
  rewrite Forall_forall in HF. destruct (HF p Hin) as [E|Hn]; [|exact Hn].
  unfold takes in Hp. rewrite E in Hp. discriminate.
Qed.

Theorem fused_no_terminal_gap : forall g pieces k b,
  Forall (fun p => sc_rows (fst p) = [] \/ no_terminal_gap (sc_rows (fst p))) pieces ->
  aget fuse_key_eqb (fold_left (fuse_step repaired g) pieces []) k = Some b ->
  no_terminal_gap (sc_rows b).
Proof.
  intros g pieces k b HF H.
  pose proof (fuse_fold_ok repaired g pieces [] acc_ok_nil k b H) as Hne.
  pose proof (fuse_fold_rows g k pieces) as E. unfold rows_at in E. rewrite H in E.
  rewrite E. apply join_rows_no_terminal_gap.
  - intro N. rewrite N in E. cbn [join_rows] in E. congruence.
  - apply taken_rows_ntg. exact HF.
Qed.

(* ======================================= 5b: adjacency in a fused scaffold *)
Theorem fused_adjacent_only_within_piece : forall g pieces k b x y,
  Forall (fun p => sc_rows (fst p) = [] \/ no_terminal_gap (sc_rows (fst p))) pieces ->
  aget fuse_key_eqb (fold_left (fuse_step repaired g) pieces []) k = Some b ->
  adjacent_frags (sc_rows b) x y ->
  exists p, In p pieces /\ adjacent_frags (sc_rows (fst p)) x y.
Proof.
  intros g pieces k b x y _ H Hadj.
  pose proof (fuse_fold_rows g k pieces) as E. unfold rows_at in E. rewrite H in E.
  rewrite E in Hadj. apply join_rows_adjacent_gen in Hadj.
  destruct Hadj as (r & Hin & Hadj). unfold taken_rows in Hin.
  apply in_map_iff in Hin. destruct Hin as (p & <- & Hp).
  apply filter_In in Hp. destruct Hp as [Hin _].
  exists p. split; assumption.
Qed.

(* every fusion boundary carries the join gap: the rows stored under k after
   one more non-empty piece with key k are the old rows, the gap, the piece *)
Theorem fuse_step_boundary : forall g acc sc isr b,
  sc_rows sc <> [] ->
  aget fuse_key_eqb acc (piece_key repaired sc) = Some b -> sc_rows b <> [] ->
  exists b', aget fuse_key_eqb (fuse_step repaired g acc (sc, isr)) (piece_key repaired sc) = Some b'
             /\ sc_rows b' = sc_rows b ++ RG g :: sc_rows sc.
Proof.
  intros g acc sc isr b Hsc G Hb. unfold fuse_step.
  destruct (sc_rows sc) as [|r0 rows0] eqn:R; [congruence|].
  change (if fix_tag_key repaired then sc_tag sc else None, sc_hap sc, sc_name sc)
    with (piece_key repaired sc).
  rewrite (aget_aset fuse_key_eqb fuse_key_eqb_eq), fuse_key_eqb_refl, G.
  eexists. split; [reflexivity|].
  cbn [sc_rows fix_leftover_gap repaired]. rewrite orb_true_r.
  unfold append_rows. destruct (sc_rows b); [congruence|reflexivity].
Qed.

(* ============================================================ 6: pieces *)
Theorem to_scaffold_rows_ok : forall r,
  consistent r -> o_rows r = [] \/ no_terminal_gap (to_scaffold_rows r).
Proof.
  intros r [E|(_ & H1 & H2 & _)]; [left; exact E|right].
  unfold to_scaffold_rows.
  destruct (f_strand (o_bait r) =? -1).
  - apply rows_reverse_no_terminal_gap. split; assumption.
  - split; assumption.
Qed.

Lemma to_scaffold_rows_nil_iff r : to_scaffold_rows r = [] <-> o_rows r = [].
Proof.
  unfold to_scaffold_rows. destruct (f_strand (o_bait r) =? -1);
    [apply rows_reverse_nil_iff|reflexivity].
Qed.

Corollary piece_of_result_ok r : consistent r -> piece_ok (piece_of_result r).
Proof.
  intro H. unfold piece_ok, piece_of_result. cbn [fst sc_rows].
  destruct (to_scaffold_rows_ok r H) as [E|N]; [left; apply to_scaffold_rows_nil_iff; exact E|right; exact N].
Qed.

Section Missing.
  Variable c : cfg.      (* every statement of this section holds for both values of [fix_gap_run] *)
  Variable found : list (fkey * (frag * list rid)).
  Variable g : gap.

  (* the separator: gap rows only, and not empty when rows were passed over *)
  Lemma missing_sep_gaps between : forallb is_gap_row (missing_sep c g between) = true.
  Proof.
    unfold missing_sep. destruct (fix_gap_run c && forallb is_gap_row between) eqn:E.
    - apply andb_prop in E. apply E.
    - destruct (last between _); reflexivity.
  Qed.

  Lemma missing_sep_not_nil between : between <> [] -> missing_sep c g between <> [].
  Proof.
    intro H. unfold missing_sep. destruct (fix_gap_run c && forallb is_gap_row between); [exact H|].
    destruct (last between _); discriminate.
  Qed.

  Lemma gap_prefix_head sp : forallb is_gap_row sp = true -> sp <> [] ->
    forall f rc b post, sp ++ RF f :: rc <> RF b :: post.
  Proof.
    destruct sp as [|[x|x] sp]; cbn [forallb is_gap_row andb app]; intros H N f rc b post E;
      [congruence|discriminate|discriminate].
  Qed.

  Lemma gap_prefix_split : forall sp, forallb is_gap_row sp = true ->
    forall f rc pre a b post, sp ++ RF f :: rc = pre ++ RF a :: RF b :: post ->
    exists pre0, RF f :: rc = pre0 ++ RF a :: RF b :: post.
  Proof.
    induction sp as [|[x|x] sp IH]; cbn [forallb is_gap_row andb app]; intros H f rc pre a b post E.
    - exists pre. exact E.
    - discriminate.
    - destruct pre as [|y pre]; cbn [app] in E; [discriminate|]. injection E as _ E.
      apply (IH H _ _ _ _ _ _ E).
  Qed.

  Lemma missing_rows_first : forall rows between i,
    missing_rows c found g rows between i None = []
    \/ exists f t, missing_rows c found g rows between i None = RF f :: t.
  Proof.
    induction rows as [|r t IH]; intros between i; cbn [missing_rows]; [left; reflexivity|].
    destruct r as [f|gg]; [|apply IH].
    destruct (aget key_eqb found (key_of f)); [apply IH|].
    right. cbn [app]. eauto.
  Qed.

  Lemma missing_rows_last : forall rows between i la,
    missing_rows c found g rows between i la = []
    \/ exists f t, missing_rows c found g rows between i la = t ++ [RF f].
  Proof.
    induction rows as [|r t IH]; intros between i la; cbn [missing_rows]; [left; reflexivity|].
    destruct r as [f|gg]; [|apply IH].
    destruct (aget key_eqb found (key_of f)); [apply IH|].
    right. match goal with |- context [?sep ++ RF f :: ?rec] => set (sp := sep); set (rc := rec) end.
    destruct (IH [] (i + 1) (Some i)) as [E|(f' & t' & E)]; fold rc in E; rewrite E.
    - exists f, sp. reflexivity.
    - exists f', (sp ++ RF f :: t'). rewrite <- app_assoc. reflexivity.
  Qed.

  Theorem missing_rows_no_terminal_gap_sec : forall rows,
    missing_rows c found g rows [] 0 None = []
    \/ no_terminal_gap (missing_rows c found g rows [] 0 None).
  Proof.
    intro rows.
    destruct (missing_rows_first rows [] 0) as [E|H1]; [left; exact E|].
    destruct (missing_rows_last rows [] 0 None) as [E|H2]; [left; exact E|].
    right. split; assumption.
  Qed.

  (* with [last_added = Some j], j < i, and [between] not empty unless j = i - 1
     (it is rows[j+1 : i]), the output begins with a fragment only if j = i - 1
     (the previous input row was the fragment last emitted) and that fragment
     is the next input row *)
  Lemma missing_rows_head : forall rows between i j b post,
    j < i -> (j = i - 1 \/ between <> []) ->
    missing_rows c found g rows between i (Some j) = RF b :: post ->
    j = i - 1 /\ exists t', rows = RF b :: t'.
  Proof.
    induction rows as [|r t IH]; intros between i j b post Hj Hb E; cbn [missing_rows] in E; [discriminate|].
    assert (Hb' : j = i + 1 - 1 \/ between ++ [r] <> []) by (right; destruct between; discriminate).
    destruct r as [f|gg].
    - destruct (aget key_eqb found (key_of f)).
      + apply IH in E; [|lia|exact Hb']. destruct E as [E _]. lia.
      + destruct (negb (j =? i - 1)) eqn:N.
        * exfalso. destruct Hb as [Hb|Hb]; [lia|].
          exact (gap_prefix_head _ (missing_sep_gaps between) (missing_sep_not_nil between Hb) _ _ _ _ E).
        * cbn [app] in E. injection E as -> _. split; [lia|eauto].
    - apply IH in E; [|lia|exact Hb']. destruct E as [E _]. lia.
  Qed.

  Lemma missing_rows_adjacent_gen : forall rows between i la a b,
    (forall j, la = Some j -> j < i /\ (j = i - 1 \/ between <> [])) ->
    adjacent_frags (missing_rows c found g rows between i la) a b -> adjacent_frags rows a b.
  Proof.
    induction rows as [|r t IH]; intros between i la a b Hla (pre & post & E); cbn [missing_rows] in E.
    - destruct pre; discriminate.
    - assert (Hrec : forall between' la',
                (forall j, la' = Some j -> j < i + 1 /\ (j = i + 1 - 1 \/ between' <> [])) ->
                adjacent_frags (missing_rows c found g t between' (i + 1) la') a b ->
                adjacent_frags (r :: t) a b).
      { intros between' la' Hl Hadj. destruct (IH _ _ _ _ _ Hl Hadj) as (pre' & post' & ->).
        exists (r :: pre'), post'. reflexivity. }
      assert (Hla' : forall j, la = Some j -> j < i + 1 /\ (j = i + 1 - 1 \/ between ++ [r] <> [])).
      { intros j Hj. specialize (Hla j Hj). split; [lia|]. right. destruct between; discriminate. }
      destruct r as [f|gg]; [|apply (Hrec _ la Hla'); exists pre, post; exact E].
      destruct (aget key_eqb found (key_of f)); [apply (Hrec _ la Hla'); exists pre, post; exact E|].
      assert (Hi : forall j, Some i = Some j -> j < i + 1 /\ (j = i + 1 - 1 \/ @nil row <> []))
        by (intros j Hj; injection Hj as <-; lia).
      match type of E with ?sep ++ _ = _ =>
        assert (Hsep : forallb is_gap_row sep = true);
        [ destruct la as [la0|]; [destruct (negb (la0 =? i - 1)); [apply missing_sep_gaps|]|]; reflexivity
        | set (sp := sep) in *; clearbody sp ]
      end.
      assert (Hcons : forall pre0, RF f :: missing_rows c found g t [] (i + 1) (Some i)
                                   = pre0 ++ RF a :: RF b :: post -> adjacent_frags (RF f :: t) a b).
      { intros pre0 E0. destruct pre0 as [|x pre0]; cbn [app] in E0.
        - injection E0 as -> E0. apply missing_rows_head in E0; [|lia|left; lia].
          destruct E0 as [_ (t' & ->)]. exists [], t'. reflexivity.
        - injection E0 as _ E0. apply (Hrec [] (Some i) Hi). exists pre0, post. exact E0. }
      destruct (gap_prefix_split sp Hsep _ _ _ _ _ _ E) as (pre0 & E0).
      apply (Hcons pre0). exact E0.
  Qed.
End Missing.

Theorem missing_rows_no_terminal_gap : forall c found g rows,
  missing_rows c found g rows [] 0 None = []
  \/ no_terminal_gap (missing_rows c found g rows [] 0 None).
Proof. exact missing_rows_no_terminal_gap_sec. Qed.

Theorem missing_rows_adjacent : forall c found g rows a b,
  adjacent_frags (missing_rows c found g rows [] 0 None) a b -> adjacent_frags rows a b.
Proof.
  intros c found g rows a b. apply missing_rows_adjacent_gen. intros j Hj. discriminate.
Qed.

(* ==================================================== 7: the old code *)
Theorem legacy_leftover_refuted : exists g p1 p2 k b x y,
  let c := mkCfg true false true true true in
  aget fuse_key_eqb (fold_left (fuse_step c g) [p1; p2] []) k = Some b
  /\ adjacent_frags (sc_rows b) x y
  /\ ~ adjacent_frags (sc_rows (fst p1)) x y /\ ~ adjacent_frags (sc_rows (fst p2)) x y.
Proof.
  pose (x := mkFrag 0 [] 1 10 1 []).
  pose (y := mkFrag 1 [] 11 20 1 []).
  exists (mkGap 200 []), (plain_scaffold [] [RF x], true), (plain_scaffold [] [RF y], false),
         (None, None, []), (plain_scaffold [] [RF x; RF y]), x, y.
  cbv zeta. split; [vm_compute; reflexivity|]. split; [|split].
  - exists [], []. reflexivity.
  - intros (pre & post & E). cbn in E. destruct pre as [|? [|? ?]]; discriminate.
  - intros (pre & post & E). cbn in E. destruct pre as [|? [|? ?]]; discriminate.
Qed.

(* the same two pieces under the repaired code: the gap is there *)
Example repaired_leftover_gap :
  let x := mkFrag 0 [] 1 10 1 [] in
  let y := mkFrag 1 [] 11 20 1 [] in
  let g := mkGap 200 [] in
  option_map sc_rows
    (aget fuse_key_eqb
       (fold_left (fuse_step repaired g)
          [(plain_scaffold [] [RF x], true); (plain_scaffold [] [RF y], false)] [])
       (None, None, []))
  = Some [RF x; RG g; RF y].
Proof. vm_compute. reflexivity. Qed.

Print Assumptions rows_reverse_no_terminal_gap.
Print Assumptions join_rows_no_terminal_gap.
Print Assumptions join_rows_adjacent.
Print Assumptions fuse_fold_is_join.
Print Assumptions fuse_fold_is_join_gen.
Print Assumptions fused_no_terminal_gap.
Print Assumptions fused_adjacent_only_within_piece.
Print Assumptions fuse_step_boundary.
Print Assumptions to_scaffold_rows_ok.
Print Assumptions missing_rows_no_terminal_gap.
Print Assumptions missing_rows_adjacent.
Print Assumptions legacy_leftover_refuted.
