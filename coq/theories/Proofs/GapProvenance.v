(* C07, provenance of gap rows: every GAP row of every output scaffold of
   [remap] is either the configured join gap (the [default_gap] argument) or a
   gap row -- same length, same type -- of the input assembly.  The program
   never invents, resizes or retypes a gap.  Holds for every input, every
   Pretext map, every texel size and every [cfg] (no flag matters: with
   [fix_leftover_gap = false] a left-over piece is appended with no gap at
   all, with [fix_gap_run = false] one gap of a run is kept instead of all).

   The proof carries one invariant, parametric in a predicate [Q] on gaps:
   "every gap row satisfies Q" ([GR] for a row list, [GS] for the store of
   overlap results), through find_overlaps / trim_large_overhangs / the
   discard loop / the cut phase / renaming (head), the left-over scaffolds,
   fuse_step (which adds only the default gap) and the naming / grouping /
   sorting tail (rows unchanged, Proofs.RemapTail.assemblies_out_perm). *)
From Tola Require Import Py.Base Py.Sort Model.Fragment Model.Scaffold Model.Lookup
  Model.OverlapResult Model.Namer Model.Remap
  Proofs.BaseLemmas Proofs.Lookup Proofs.OverlapResult Proofs.RemapHead.
From Tola Require Proofs.RemapTail.
From Coq Require Import Lia ZifyBool Permutation String.

Section GapInv.
  Variable Q : gap -> Prop.

  (* every gap row of [rows] satisfies Q *)
  Definition GR (rows : list row) : Prop := forall gp, In (RG gp) rows -> Q gp.
  Definition GS (st : list ovr) : Prop := forall r, In r st -> GR (o_rows r).
  Definition GI (inp : list (str * list row)) : Prop := forall isc, In isc inp -> GR (snd isc).
  Definition GL (l : list scaffold) : Prop := forall sc, In sc l -> GR (sc_rows sc).

  Lemma GR_nil : GR [].
  Proof. intros gp []. Qed.

  Lemma GR_incl rows rows' : (forall x, In x rows' -> In x rows) -> GR rows -> GR rows'.
  Proof. intros Hi H gp Hg. apply H. apply Hi. exact Hg. Qed.

  Lemma GR_app a b : GR a -> GR b -> GR (a ++ b).
  Proof. intros Ha Hb gp Hg. apply in_app_or in Hg. destruct Hg; [apply Ha | apply Hb]; assumption. Qed.

  Lemma GR_app_l a b : GR (a ++ b) -> GR a.
  Proof. apply GR_incl. intros x Hx. apply in_or_app. left. exact Hx. Qed.

  Lemma GR_app_r a b : GR (a ++ b) -> GR b.
  Proof. apply GR_incl. intros x Hx. apply in_or_app. right. exact Hx. Qed.

  Lemma GR_RF f rows : GR rows -> GR (RF f :: rows).
  Proof. intros H gp [Hg | Hg]; [discriminate | apply H; exact Hg]. Qed.

  Lemma GR_RG gp rows : Q gp -> GR rows -> GR (RG gp :: rows).
  Proof. intros Hq H gp' [Hg | Hg]; [injection Hg as <-; exact Hq | apply H; exact Hg]. Qed.

  Lemma GR_cons_inv x rows : GR (x :: rows) -> GR rows.
  Proof. apply GR_incl. intros y Hy. right. exact Hy. Qed.

  Lemma GR_single x rows : GR rows -> In x rows -> GR [x].
  Proof. intros H Hx. eapply GR_incl; [|exact H]. intros y [<- | []]. exact Hx. Qed.

  (* reversal keeps gap rows as they are *)
  Lemma In_RG_rows_reverse gp rows : In (RG gp) (rows_reverse rows) <-> In (RG gp) rows.
  Proof.
    unfold rows_reverse. rewrite in_map_iff. split.
    - intros (x & E & Hx). apply in_rev in Hx. destruct x as [f|g0]; cbn [row_reverse] in E; [discriminate|].
      rewrite <- E. exact Hx.
    - intros H. exists (RG gp). split; [reflexivity|]. apply in_rev in H. exact H.
  Qed.

  Lemma GR_rows_reverse rows : GR rows -> GR (rows_reverse rows).
  Proof. intros H gp Hg. apply H. apply In_RG_rows_reverse. exact Hg. Qed.

  Lemma GR_to_scaffold_rows r : GR (o_rows r) -> GR (to_scaffold_rows r).
  Proof.
    unfold to_scaffold_rows. destruct (f_strand (o_bait r) =? -1); [apply GR_rows_reverse | auto].
  Qed.

  Lemma GS_nil : GS [].
  Proof. intros r []. Qed.

  Lemma GS_snoc st r : GS st -> GR (o_rows r) -> GS (st ++ [r]).
  Proof.
    intros Hs Hr x Hx. apply in_app_or in Hx. destruct Hx as [Hx | [<- | []]]; [apply Hs; exact Hx | exact Hr].
  Qed.

  Lemma GS_put st id r : GS st -> GR (o_rows r) -> GS (put_ovr st id r).
  Proof.
    intros Hs Hr x Hx. apply put_ovr_In in Hx. destruct Hx as [-> | Hx]; [exact Hr | apply Hs; exact Hx].
  Qed.

  Lemma GS_get st id r : GS st -> get_ovr st id = Ok r -> GR (o_rows r).
  Proof. intros Hs H. apply Hs. eapply get_ovr_In. exact H. Qed.

  Lemma GS_map st st' : GS st -> map o_rows st' = map o_rows st -> GS st'.
  Proof.
    intros Hs Hm r Hr.
    assert (Hi : In (o_rows r) (map o_rows st)) by (rewrite <- Hm; apply in_map; exact Hr).
    apply in_map_iff in Hi. destruct Hi as (r0 & E & Hr0). rewrite <- E. apply Hs. exact Hr0.
  Qed.

  (* ------------------------------------------------ operations on a result *)
  Lemma discard_start_GR r r' : discard_start r = Ok r' -> GR (o_rows r) -> GR (o_rows r').
  Proof. intros H. apply GR_incl. intros x. eapply discard_start_incl. exact H. Qed.

  Lemma discard_end_GR r r' : discard_end r = Ok r' -> GR (o_rows r) -> GR (o_rows r').
  Proof. intros H. apply GR_incl. intros x. eapply discard_end_incl. exact H. Qed.

  Lemma trim_large_GR r e r' : trim_large_overhangs r e = Ok r' -> GR (o_rows r) -> GR (o_rows r').
  Proof. intros H. apply GR_incl. intros x. eapply trim_large_incl. exact H. Qed.

  (* trim_fragment replaces one FRAGMENT row by a FRAGMENT row *)
  Lemma trim_fragment_GR r f ks ke new r' :
    trim_fragment r f ks ke = Ok (new, r') -> GR (o_rows r) -> GR (o_rows r').
  Proof.
    intros H Hc. unfold trim_fragment in H. bind_inv H r0 Hr0. cbv zeta in H. bind_inv H rl Hrl.
    destruct (negb (row_is r0 f || row_is rl f)); [discriminate|].
    bind_inv H nw Hnw. injection H as _ <-. cbn [set_span_rows o_rows].
    apply py_nth_0_inv in Hr0. destruct Hr0 as (t0 & E0).
    apply py_nth_m1_inv in Hrl. destruct Hrl as (tl & El).
    destruct (row_is rl f).
    - rewrite El, set_last_app. rewrite El in Hc. apply GR_app; [eapply GR_app_l; exact Hc|].
      intros gp [Hg | []]. discriminate.
    - rewrite E0. cbn [set_nth]. rewrite E0 in Hc. apply GR_RF. eapply GR_cons_inv. exact Hc.
  Qed.

  (* ------------------------------------------------------------- the head *)
  Section Head.
    Variable inp : list (str * list row).
    Hypothesis Hinp : GI inp.

    Lemma input_rows_GR name rows : input_rows inp name = Ok rows -> GR rows.
    Proof.
      unfold input_rows. destruct (aget str_eqb inp name) as [rows0|] eqn:E; [|discriminate].
      intros H. injection H as <-. apply (aget_In str_eqb str_eqb_eq) in E. exact (Hinp _ E).
    Qed.

    Lemma one_bait_GS err sc_tags orig b bait b' :
      GS (b_store b) -> one_bait inp err sc_tags orig b bait = Ok b' -> GS (b_store b').
    Proof.
      intros Hs H. unfold one_bait in H.
      bind_inv H rows Hrows. bind_inv H fo Hfo. destruct fo as [fo|]; [|injection H as <-; exact Hs].
      bind_inv H nl Hnl. destruct nl as [nm lab]. bind_inv H r1 Hr1.
      assert (Hr1g : GR (o_rows r1)).
      { eapply trim_large_GR; [exact Hr1|]. cbn [set_labels ovr_of_found o_rows].
        eapply GR_incl; [|eapply input_rows_GR; exact Hrows].
        intros x Hx. eapply find_overlaps_rows; eassumption. }
      assert (Hst : GS (b_store b ++ [r1])) by (apply GS_snoc; assumption).
      destruct (o_rows r1) as [|x0 t0].
      - injection H as <-. exact Hst.
      - injection H as <-. unfold store_fragments_found.
        cbn [b_store b_added b_found b_multi b_namer b_cuts].
        destruct (fold_left _ _ _) as [found' multi']. exact Hst.
    Qed.

    Lemma one_pretext_scaffold_GS err b psc b' :
      GS (b_store b) -> one_pretext_scaffold inp err b psc = Ok b' -> GS (b_store b').
    Proof.
      intros Hs H. unfold one_pretext_scaffold in H. destruct psc as [pname prows].
      bind_inv H nm Hnm. bind_inv H b1 Hb1. bind_inv H st Hst. injection H as <-.
      cbn [with_store b_store]. eapply GS_map; [|eapply rename_results_rows; exact Hst].
      eapply (foldM_inv _ (fun b => GS (b_store b))); [| |exact Hb1]; [|exact Hs].
      intros s0 a s1 Hs0 Hf. eapply one_bait_GS; eassumption.
    Qed.

    Lemma pretext_GS err pretext b0 b1 :
      GS (b_store b0) -> foldM (one_pretext_scaffold inp err) pretext b0 = Ok b1 -> GS (b_store b1).
    Proof.
      intros Hs H. eapply (foldM_inv _ (fun b => GS (b_store b))); [|exact Hs | exact H].
      intros s0 a s1 Hs0 Hf. eapply one_pretext_scaffold_GS; eassumption.
    Qed.
  End Head.

  (* ------------------------------------------------------ the discard loop *)
  Lemma p_apply_GS st p st' : GS st -> p_apply st p = Ok st' -> GS st'.
  Proof.
    intros Hs H. unfold p_apply in H. bind_inv H r Hr. bind_inv H r' Hr'. injection H as <-.
    apply GS_put; [exact Hs|]. pose proof (GS_get _ _ _ Hs Hr) as Hg.
    destruct (pr_kind p); [eapply discard_start_GR | eapply discard_end_GR]; eassumption.
  Qed.

  Lemma fix_one_GS err st pl st' fx : GS st -> fix_one err st pl = Ok (st', fx) -> GS st'.
  Proof.
    intros Hs H. apply fix_one_cases in H. destruct H as [[_ ->] | (p & _ & _ & H)]; [exact Hs|].
    eapply p_apply_GS; eassumption.
  Qed.

  Lemma make_fixes_GS err : forall pls st st' fxs,
    GS st -> make_fixes err st pls = Ok (st', fxs) -> GS st'.
  Proof.
    induction pls as [|pl pls IH]; intros st st' fxs Hs H; cbn [make_fixes] in H.
    - injection H as <- _. exact Hs.
    - bind_inv H r Hr. destruct r as [st1 fx]. bind_inv H r2 Hr2. destruct r2 as [st2 fxs2].
      injection H as <- _. eapply IH; [|exact Hr2]. eapply fix_one_GS; eassumption.
  Qed.

  Lemma discard_loop_GS err : forall fuel b b',
    GS (b_store b) -> discard_loop fuel err b = Ok b' -> GS (b_store b').
  Proof.
    induction fuel as [|fuel IH]; intros b b' Hs H; cbn [discard_loop] in H; [discriminate|].
    destruct (b_multi b) as [|k0 ks] eqn:Em; [injection H as <-; exact Hs|].
    bind_inv H pls Hpls. bind_inv H r Hr. destruct r as [st fixes].
    pose proof (make_fixes_GS _ _ _ _ _ Hs Hr) as Hst.
    destruct fixes as [|fx0 fixes].
    - injection H as <-. exact Hst.
    - bind_inv H fm Hfm. destruct fm as [found multi']. eapply IH; [|exact H]. exact Hst.
  Qed.

  (* ---------------------------------------------------------- the cut phase *)
  Lemma trim_all_GS c f : forall ids st i last st' subs,
    GS st -> trim_all c st f ids i last = Ok (st', subs) -> GS st'.
  Proof.
    induction ids as [|id ids IH]; intros st i last st' subs Hs H; cbn [trim_all] in H.
    - injection H as <- _. exact Hs.
    - cbv zeta in H. bind_inv H r Hr. bind_inv H fr Hfr. destruct fr as [new r'].
      bind_inv H rest Hrest. destruct rest as [st2 subs2]. cbn [fst snd] in H. injection H as <- _.
      eapply IH; [|exact Hrest]. apply GS_put; [exact Hs|].
      eapply trim_fragment_GR; [exact Hfr|]. eapply GS_get; eassumption.
  Qed.

  Lemma cut_fragments_GS c b k b' :
    GS (b_store b) -> cut_fragments c b k = Ok b' -> GS (b_store b').
  Proof.
    intros Hs H. unfold cut_fragments in H.
    destruct (aget key_eqb (b_found b) k) as [[f ids]|]; [|discriminate].
    bind_inv H keyed Hkeyed. bind_inv H r Hr. destruct r as [st subs].
    bind_inv H u Hu. injection H as <-. cbn [b_store]. eapply trim_all_GS; eassumption.
  Qed.

  Lemma cut_remaining_GS c b b' :
    GS (b_store b) -> cut_remaining_overhangs c b = Ok b' -> GS (b_store b').
  Proof.
    intros Hs H. unfold cut_remaining_overhangs in H. bind_inv H b1 Hb1. injection H as <-.
    cbn [b_store]. eapply (foldM_inv _ (fun b => GS (b_store b))); [|exact Hs | exact Hb1].
    intros s0 a s1 Hs0 Hf. eapply cut_fragments_GS; eassumption.
  Qed.

  (* ------------------------------------------------- left-over scaffolds *)
  Section Missing.
    Variable c : cfg.
    Variable g : gap.
    Hypothesis Hg : Q g.

    Lemma missing_sep_GR between : GR between -> GR (missing_sep c g between).
    Proof.
      intros Hb. unfold missing_sep. destruct (fix_gap_run c && forallb is_gap_row between); [exact Hb|].
      destruct (exists_last' between) as [-> | (l' & x & ->)].
      - cbn [last]. apply GR_RG; [exact Hg | apply GR_nil].
      - rewrite last_last. destruct x as [f|gp].
        + apply GR_RG; [exact Hg | apply GR_nil].
        + eapply GR_app_r. exact Hb.
    Qed.

    Lemma missing_rows_GR found : forall rows between i la,
      GR rows -> GR between -> GR (missing_rows c found g rows between i la).
    Proof.
      induction rows as [|r rows IH]; intros between i la Hr Hb; cbn [missing_rows]; [apply GR_nil|].
      assert (Hb' : GR (between ++ [r])).
      { apply GR_app; [exact Hb|]. eapply GR_single; [exact Hr | left; reflexivity]. }
      pose proof (GR_cons_inv _ _ Hr) as Hr'.
      destruct r as [f|gp]; [|apply IH; assumption].
      destruct (aget key_eqb found (key_of f)); [apply IH; assumption|].
      apply GR_app.
      - destruct la as [la|]; [|apply GR_nil].
        destruct (negb (la =? i - 1)); [apply missing_sep_GR; exact Hb | apply GR_nil].
      - apply GR_RF. apply IH; [exact Hr' | apply GR_nil].
    Qed.

    Lemma add_missing_one_GL found acc isc acc' :
      GR (snd isc) -> GL (snd acc) -> add_missing_one c g found acc isc = Ok acc' -> GL (snd acc').
    Proof.
      intros Hi Ha H. unfold add_missing_one in H. destruct acc as [nm leftovers]. destruct isc as [name rows].
      cbn [snd] in *.
      pose proof (missing_rows_GR found rows [] 0 None Hi GR_nil) as Hm.
      destruct (missing_rows c found g rows [] 0 None) as [|r0 new_rows]; [injection H as <-; exact Ha|].
      bind_inv H nm' Hnm'. injection H as <-. cbn [snd].
      intros sc Hsc. apply in_app_or in Hsc. destruct Hsc as [Hsc | [<- | []]]; [apply Ha; exact Hsc|].
      cbn [sc_rows]. exact Hm.
    Qed.

    Lemma add_missing_GL found : forall input acc acc',
      GI input -> GL (snd acc) -> foldM (add_missing_one c g found) input acc = Ok acc' -> GL (snd acc').
    Proof.
      induction input as [|isc input IH]; intros acc acc' Hi Ha H; cbn [foldM] in H.
      - injection H as <-. exact Ha.
      - bind_inv H acc1 Hacc1. eapply IH; [| |exact H].
        + intros x Hx. apply Hi. right. exact Hx.
        + eapply add_missing_one_GL; [| exact Ha | exact Hacc1]. apply Hi. left. reflexivity.
    Qed.

    (* ------------------------------------------------------------- fusing *)
    Definition GA (acc : list (fuse_key * scaffold)) : Prop :=
      forall e, In e acc -> GR (sc_rows (snd e)).

    Lemma append_rows_GR self othr og :
      GR self -> GR othr -> match og with Some g' => Q g' | None => True end ->
      GR (append_rows self othr og).
    Proof.
      intros Hs Ho Hq. unfold append_rows. destruct og as [g'|]; [|apply GR_app; assumption].
      destruct self as [|x self]; [apply GR_app; assumption|].
      apply GR_app; [exact Hs|]. cbn [app]. apply GR_RG; assumption.
    Qed.

    Lemma aget_In_val {K V} (keqb : K -> K -> bool) : forall (d : list (K * V)) k v,
      aget keqb d k = Some v -> exists k', In (k', v) d.
    Proof.
      induction d as [|[k0 v0] d IH]; intros k v H; cbn [aget] in H; [discriminate|].
      destruct (keqb k k0).
      - injection H as ->. exists k0. left. reflexivity.
      - destruct (IH _ _ H) as (k' & Hk). exists k'. right. exact Hk.
    Qed.

    Lemma aset_In_val {K V} (keqb : K -> K -> bool) : forall (d : list (K * V)) k v e,
      In e (aset keqb d k v) -> snd e = v \/ In e d.
    Proof.
      induction d as [|[k0 v0] d IH]; intros k v e H; cbn [aset] in H.
      - destruct H as [<- | []]. left. reflexivity.
      - destruct (keqb k k0).
        + destruct H as [<- | H]; [left; reflexivity | right; right; exact H].
        + destruct H as [<- | H]; [right; left; reflexivity|].
          destruct (IH _ _ _ H) as [E | Hin]; [left; exact E | right; right; exact Hin].
    Qed.

    Lemma fuse_step_GA acc piece :
      GA acc -> GR (sc_rows (fst piece)) -> GA (fuse_step c g acc piece).
    Proof.
      intros Ha Hp. unfold fuse_step. destruct piece as [sc is_result]. cbn [fst] in Hp.
      destruct (sc_rows sc) as [|r0 rows0] eqn:R; [exact Ha|]. rewrite <- R.
      set (k := (if fix_tag_key c then sc_tag sc else None, sc_hap sc, sc_name sc)).
      intros e He. apply aset_In_val in He. destruct He as [-> | He]; [|apply Ha; exact He].
      cbn [sc_rows]. apply append_rows_GR.
      - destruct (aget fuse_key_eqb acc k) as [bsc|] eqn:G.
        + apply aget_In_val in G. destruct G as (k' & Hk). exact (Ha _ Hk).
        + cbn [sc_rows]. apply GR_nil.
      - rewrite R. exact Hp.
      - destruct (is_result || fix_leftover_gap c); [exact Hg | exact I].
    Qed.

    Lemma fuse_fold_GA : forall pieces acc,
      GA acc -> (forall p, In p pieces -> GR (sc_rows (fst p))) ->
      GA (fold_left (fuse_step c g) pieces acc).
    Proof.
      induction pieces as [|p pieces IH]; intros acc Ha Hp; cbn [fold_left]; [exact Ha|].
      apply IH.
      - apply fuse_step_GA; [exact Ha | apply Hp; left; reflexivity].
      - intros q Hq. apply Hp. right. exact Hq.
    Qed.

    Lemma fuse_all_GL rs fused :
      GS (b_store (rs_b rs)) -> GL (rs_left rs) -> fuse_all c g rs = Ok fused -> GL fused.
    Proof.
      intros Hs Hl H. unfold fuse_all in H. bind_inv H results Hres. injection H as <-.
      intros sc Hsc. apply in_map_iff in Hsc. destruct Hsc as (e & <- & He).
      revert e He. apply fuse_fold_GA; [intros e []|].
      intros p Hp. apply in_app_or in Hp. destruct Hp as [Hp | Hp]; apply in_map_iff in Hp.
      - destruct Hp as (r & <- & Hr). cbn [piece_of_result fst sc_rows].
        apply GR_to_scaffold_rows.
        destruct (mapM_ok_In _ _ _ Hres _ Hr) as (id & _ & Hget). eapply GS_get; eassumption.
      - destruct Hp as (sc0 & <- & Hsc0). cbn [fst]. apply Hl. exact Hsc0.
    Qed.
  End Missing.
End GapInv.

(* ------------------------------------------------------------ number_input *)
Lemma number_rows_gaps gp : forall rows n, In (RG gp) (fst (number_rows rows n)) -> In (RG gp) rows.
Proof.
  induction rows as [|r rows IH]; intros n H; cbn [number_rows] in H; [exact H|].
  specialize (IH (n + 1)).
  destruct r as [f|g0]; destruct (number_rows rows (n + 1)) as [t' n']; cbn [fst] in *.
  - destruct H as [H | H]; [discriminate | right; apply IH; exact H].
  - destruct H as [H | H]; [left; exact H | right; apply IH; exact H].
Qed.

Lemma number_input_gaps gp : forall input n isc,
  In isc (number_input input n) -> In (RG gp) (snd isc) ->
  exists isc0, In isc0 input /\ In (RG gp) (snd isc0).
Proof.
  induction input as [|[name rows] input IH]; intros n isc H Hg; cbn [number_input] in H; [destruct H|].
  pose proof (number_rows_gaps gp rows n) as Hr.
  destruct (number_rows rows n) as [rows' n']. cbn [fst] in Hr.
  destruct H as [<- | H].
  - exists (name, rows). split; [left; reflexivity|]. cbn [snd] in *. apply Hr. exact Hg.
  - destruct (IH _ _ H Hg) as (isc0 & Hin & Hgp). exists isc0. split; [right; exact Hin | exact Hgp].
Qed.

(* ================================================================ theorems *)
(* a gap that is the join gap or an input gap *)
Definition gap_from (input : list (str * list row)) (g gp : gap) : Prop :=
  gp = g \/ exists isc, In isc input /\ In (RG gp) (snd isc).

Definition gap_ok (input : list (str * list row)) (g : gap) (r : row) : Prop :=
  match r with RF _ => True | RG gp => gap_from input g gp end.
Definition rows_gap_ok input g (rows : list row) : Prop := Forall (gap_ok input g) rows.

Lemma rows_gap_ok_GR input g rows : rows_gap_ok input g rows <-> GR (gap_from input g) rows.
Proof.
  unfold rows_gap_ok, GR. rewrite Forall_forall. split.
  - intros H gp Hg. exact (H _ Hg).
  - intros H [f|gp] Hx; cbn [gap_ok]; [exact I | apply H; exact Hx].
Qed.

(* the state after remap_to_input: every result in the store and every
   left-over scaffold holds only input gaps or the default gap.  (The results
   in fact hold input gaps only: see [gap_provenance_results].) *)
Theorem gap_provenance_head : forall c g prefix bpt input pretext rs,
  remap_to_input c g prefix bpt input pretext = Ok rs ->
  (forall r, In r (b_store (rs_b rs)) -> rows_gap_ok input g (o_rows r))
  /\ (forall sc, In sc (rs_left rs) -> rows_gap_ok input g (sc_rows sc)).
Proof.
  intros c g prefix bpt input pretext rs H.
  set (Q := gap_from input g).
  assert (Hinp : GI Q (number_input input 0)).
  { intros isc Hisc gp Hg. right. eapply number_input_gaps; eassumption. }
  assert (Hq : Q g) by (left; reflexivity).
  unfold remap_to_input in H. destruct (has_dup_names (map fst input)); [discriminate|].
  cbv zeta in H. bind_inv H b1 Hb1. bind_inv H b2 Hb2. bind_inv H b3 Hb3. bind_inv H st Hst.
  bind_inv H nl Hnl. injection H as <-. cbn [rs_b rs_left with_namer with_store b_store].
  assert (H1 : GS Q (b_store b1)) by (eapply pretext_GS; [exact Hinp | | exact Hb1]; apply GS_nil).
  assert (H2 : GS Q (b_store b2)) by (eapply discard_loop_GS; eassumption).
  assert (H3 : GS Q (b_store b3)) by (eapply cut_remaining_GS; eassumption).
  assert (H4 : GS Q st) by (eapply GS_map; [exact H3 | eapply rename_results_rows; exact Hst]).
  split.
  - intros r Hr. apply rows_gap_ok_GR. apply H4. exact Hr.
  - intros sc Hsc. apply rows_gap_ok_GR.
    eapply (add_missing_GL Q c g Hq _ _ (b_namer (with_store b3 st), []) nl Hinp); [intros ? [] | exact Hnl | exact Hsc].
Qed.

(* the overlap results never contain the default gap as such: all their gap
   rows are input gap rows *)
Theorem gap_provenance_results : forall c g prefix bpt input pretext rs,
  remap_to_input c g prefix bpt input pretext = Ok rs ->
  forall r gp, In r (b_store (rs_b rs)) -> In (RG gp) (o_rows r) ->
    exists isc, In isc input /\ In (RG gp) (snd isc).
Proof.
  intros c g prefix bpt input pretext rs H.
  set (Q := fun gp => exists isc, In isc input /\ In (RG gp) (snd isc)).
  assert (Hinp : GI Q (number_input input 0)).
  { intros isc Hisc gp Hg. eapply number_input_gaps; eassumption. }
  unfold remap_to_input in H. destruct (has_dup_names (map fst input)); [discriminate|].
  cbv zeta in H. bind_inv H b1 Hb1. bind_inv H b2 Hb2. bind_inv H b3 Hb3. bind_inv H st Hst.
  bind_inv H nl Hnl. injection H as <-. cbn [rs_b rs_left with_namer with_store b_store].
  assert (H1 : GS Q (b_store b1)) by (eapply pretext_GS; [exact Hinp | | exact Hb1]; apply GS_nil).
  assert (H2 : GS Q (b_store b2)) by (eapply discard_loop_GS; eassumption).
  assert (H3 : GS Q (b_store b3)) by (eapply cut_remaining_GS; eassumption).
  assert (H4 : GS Q st) by (eapply GS_map; [exact H3 | eapply rename_results_rows; exact Hst]).
  intros r gp Hr Hg. exact (H4 r Hr gp Hg).
Qed.

(* fusing adds only the join gap, for any predicate on gaps that the join gap
   satisfies *)
Theorem gap_provenance_fuse : forall (Q : gap -> Prop) c g rs fused,
  Q g ->
  (forall r gp, In r (b_store (rs_b rs)) -> In (RG gp) (o_rows r) -> Q gp) ->
  (forall sc gp, In sc (rs_left rs) -> In (RG gp) (sc_rows sc) -> Q gp) ->
  fuse_all c g rs = Ok fused ->
  forall sc gp, In sc fused -> In (RG gp) (sc_rows sc) -> Q gp.
Proof.
  intros Q c g rs fused Hg Hs Hl H sc gp Hsc Hgp.
  refine (fuse_all_GL Q c g Hg rs fused _ _ H sc Hsc gp Hgp).
  - intros r Hr gp' Hg'. exact (Hs r gp' Hr Hg').
  - intros sc' Hsc' gp' Hg'. exact (Hl sc' gp' Hsc' Hg').
Qed.

(* naming, grouping and sorting leave rows alone *)
Theorem gap_provenance_tail : forall (Q : gap -> Prop) c g prefix input rs o,
  Q g ->
  (forall r gp, In r (b_store (rs_b rs)) -> In (RG gp) (o_rows r) -> Q gp) ->
  (forall sc gp, In sc (rs_left rs) -> In (RG gp) (sc_rows sc) -> Q gp) ->
  assemblies_with_scaffolds_fused c g prefix input rs = Ok o ->
  forall a sc gp, In a (out_asms o) -> In sc (oa_scaffolds a) -> In (RG gp) (sc_rows sc) -> Q gp.
Proof.
  intros Q c g prefix input rs o Hg Hs Hl H a sc gp Ha Hsc Hgp.
  destruct (RemapTail.assemblies_out_perm _ _ _ _ _ _ H) as (fused0 & fused & F & R & P).
  assert (Hin : In sc fused).
  { eapply Permutation_in; [exact P|]. apply in_flat_map. exists a. split; assumption. }
  assert (Hr : In (sc_rows sc) (map sc_rows fused0)) by (rewrite <- R; apply in_map; exact Hin).
  apply in_map_iff in Hr. destruct Hr as (sc0 & E & Hsc0).
  rewrite <- E in Hgp.
  exact (gap_provenance_fuse Q c g rs fused0 Hg Hs Hl F sc0 gp Hsc0 Hgp).
Qed.

(* C07: every gap row of every output scaffold is the configured join gap or a
   gap row (same length and type) of the input assembly *)
Theorem gap_provenance : forall c g prefix bpt input pretext o,
  remap c g prefix bpt input pretext = Ok o ->
  forall a sc gp, In a (out_asms o) -> In sc (oa_scaffolds a) -> In (RG gp) (sc_rows sc) ->
    gp = g \/ exists isc, In isc input /\ In (RG gp) (snd isc).
Proof.
  intros c g prefix bpt input pretext o H. unfold remap in H. bind_inv H rs Hrs.
  destruct (gap_provenance_head _ _ _ _ _ _ _ Hrs) as (Hs & Hl).
  apply (gap_provenance_tail (gap_from input g) c g prefix input rs o).
  - left. reflexivity.
  - intros r gp Hr Hg. apply (proj1 (rows_gap_ok_GR _ _ _) (Hs r Hr)). exact Hg.
  - intros sc gp Hsc Hg. apply (proj1 (rows_gap_ok_GR _ _ _) (Hl sc Hsc)). exact Hg.
  - exact H.
Qed.

Corollary gap_provenance_rows : forall c g prefix bpt input pretext o,
  remap c g prefix bpt input pretext = Ok o ->
  forall a sc, In a (out_asms o) -> In sc (oa_scaffolds a) -> rows_gap_ok input g (sc_rows sc).
Proof.
  intros c g prefix bpt input pretext o H a sc Ha Hsc. apply rows_gap_ok_GR.
  intros gp Hg. eapply gap_provenance; eassumption.
Qed.

(* ------------------------------------------------------------ non-vacuity *)
(* One input scaffold A -100- B -57- C -8- D (three gaps of different lengths
   and types) and a second one E -33- G.  The map cuts B in two, reverses the
   piece [second half of B, gap 57, C], and reorders: so the 57 bp gap is kept
   (inside a reversed result), the 100 bp and 8 bp gaps are dropped, the 33 bp
   gap of the untouched scaffold is kept, and the join gap (200 bp) is
   inserted three times.  No other gap row exists in the output. *)
Definition ex_F (nm : string) (a b st : Z) (tags : list str) : row :=
  RF (mkFrag (-1) (list_ascii_of_string nm) a b st tags).
Arguments ex_F nm%string_scope a b st tags.
Definition ex_gap : gap := mkGap 200 (s "scaffold").
Definition ex_input : list (str * list row) :=
  [ (s "scaffold_1", [ex_F "ctgA" 1 1000 1 []; RG (mkGap 100 (s "scaffold")); ex_F "ctgB" 1 1000 1 [];
                      RG (mkGap 57 (s "contig")); ex_F "ctgC" 1 1000 1 [];
                      RG (mkGap 8 (s "short_arm")); ex_F "ctgD" 1 1000 1 []]);
    (s "scaffold_2", [ex_F "ctgE" 1 500 1 []; RG (mkGap 33 (s "centromere")); ex_F "ctgG" 1 500 (-1) []]) ].
Definition ex_ptx : list (str * list row) :=
  [ (s "Scaffold_1", [ex_F "scaffold_1" 1601 3157 (-1) []; RG ex_gap; ex_F "scaffold_1" 1 1000 1 []]);
    (s "Scaffold_2", [ex_F "scaffold_1" 1101 1600 1 []; RG ex_gap; ex_F "scaffold_1" 3166 4165 1 []]) ].
Definition ex_erase (r : row) : row :=
  match r with
  | RF f => RF (mkFrag (-1) (f_name f) (f_start f) (f_end f) (f_strand f) (f_tags f))
  | RG gp => RG gp
  end.
Definition gaps_of (rows : list row) : list gap :=
  flat_map (fun r => match r with RG gp => [gp] | RF _ => [] end) rows.

Example gap_provenance_instance :
  exists o, remap repaired ex_gap (s "SUPER_") (10, 1) ex_input ex_ptx = Ok o
    /\ out_cuts o = 1
    /\ map (fun sc => (sc_name sc, map ex_erase (sc_rows sc))) (flat_map oa_scaffolds (out_asms o))
       = [ (s "scaffold_1",
            [ex_F "ctgC" 1 1000 (-1) []; RG (mkGap 57 (s "contig")); ex_F "ctgB" 501 1000 (-1) [s "Cut"];
             RG ex_gap; ex_F "ctgA" 1 1000 1 [];
             RG ex_gap; ex_F "ctgB" 1 500 1 [s "Cut"];
             RG ex_gap; ex_F "ctgD" 1 1000 1 []]);
           (s "scaffold_2",
            [ex_F "ctgE" 1 500 1 []; RG (mkGap 33 (s "centromere")); ex_F "ctgG" 1 500 (-1) []]) ]
    /\ map (fun sc => gaps_of (sc_rows sc)) (flat_map oa_scaffolds (out_asms o))
       = [ [mkGap 57 (s "contig"); ex_gap; ex_gap; ex_gap]; [mkGap 33 (s "centromere")] ].
Proof.
  eexists. split; [vm_compute; reflexivity|]. vm_compute. repeat split.
Qed.

Print Assumptions gap_provenance_head.
Print Assumptions gap_provenance_results.
Print Assumptions gap_provenance_fuse.
Print Assumptions gap_provenance_tail.
Print Assumptions gap_provenance_rows.
Print Assumptions gap_provenance_instance.
Print Assumptions gap_provenance.
