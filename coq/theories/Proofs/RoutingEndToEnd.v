(* C09, END TO END through [remap]: every stored overlap result that still has
   rows is written -- whole, as one contiguous block of rows -- into a scaffold
   of the output assembly whose key is the result's tag if it has one
   (Haplotig / Contaminant / FalseDuplicate), else its haplotype if it has one,
   else the primary assembly (key None); the tag and haplotype of a result are
   what [label_scaffold] computed from the tags of its bait and of its Pretext
   scaffold when it was looked up, and nothing later changes them; a left-over
   scaffold (sequence absent from the map) goes by the same rule. *)
From Tola Require Import Py.Base Py.Sort Model.Fragment Model.Scaffold Model.Lookup
  Model.OverlapResult Model.OvrSpec Model.NaturalKey Model.Namer Model.Remap Model.RemapSpec
  Proofs.BaseLemmas Proofs.RemapHead Proofs.JoinGaps Proofs.Routing Proofs.GapProvenance
  Proofs.PipelineInv Proofs.CoreKept.
From Tola Require Proofs.RemapTail Proofs.NaturalKey Proofs.OverlapResult.
From Coq Require Import Lia ZifyBool Permutation.

(* the assembly key a piece with this tag / haplotype is filed under *)
Definition dest_key (tag hap : option str) : option str :=
  if truthy tag then tag else if truthy hap then hap else None.

Definition routing_end_to_end_statement : Prop :=
  forall g prefix bpt input pretext o rs,
  remap_to_input repaired g prefix bpt input pretext = Ok rs ->
  remap repaired g prefix bpt input pretext = Ok o ->
  (* results *)
  (forall id r, In id (b_added (rs_b rs)) -> get_ovr (b_store (rs_b rs)) id = Ok r -> o_rows r <> [] ->
     exists a sc pre suf,
       In a (out_asms o) /\ In sc (oa_scaffolds a)
       /\ sc_rows sc = pre ++ to_scaffold_rows r ++ suf
       /\ sc_tag sc = o_tag r /\ sc_hap sc = o_hap r
       /\ oa_key a = dest_key (o_tag r) (o_hap r))
  (* left-over scaffolds *)
  /\ (forall l, In l (rs_left rs) -> sc_rows l <> [] ->
     exists a sc pre suf,
       In a (out_asms o) /\ In sc (oa_scaffolds a)
       /\ sc_rows sc = pre ++ sc_rows l ++ suf
       /\ sc_tag sc = sc_tag l /\ sc_hap sc = sc_hap l
       /\ oa_key a = dest_key (sc_tag l) (sc_hap l))
  (* and conversely every scaffold of an output assembly carries that assembly's key *)
  /\ (forall a sc, In a (out_asms o) -> In sc (oa_scaffolds a) ->
        oa_key a = dest_key (sc_tag sc) (sc_hap sc)).


(* ===================================================================== 1 ==
   the tail of [remap]: fusing, naming, grouping, sorting *)

(* what naming never touches *)
Definition core (sc : scaffold) : list row * option str * option str :=
  (sc_rows sc, sc_tag sc, sc_hap sc).

Lemma core_with_name sc n : core (with_name sc n) = core sc.
Proof. reflexivity. Qed.

Lemma dest_key_asm_key sc : fst (asm_key_of sc) = dest_key (sc_tag sc) (sc_hap sc).
Proof.
  unfold asm_key_of, dest_key.
  destruct (truthy (sc_tag sc)) eqn:Et; [reflexivity|].
  destruct (truthy (sc_hap sc)) eqn:Eh; reflexivity.
Qed.

Lemma core_asm_key a b : core a = core b -> fst (asm_key_of a) = fst (asm_key_of b).
Proof.
  intros E. unfold core in E. injection E as _ Et Eh.
  rewrite !dest_key_asm_key, Et, Eh. reflexivity.
Qed.

Lemma name_group_core prefix n fused g :
  map core (name_group prefix n fused g) = map core fused.
Proof.
  unfold name_group.
  apply (RemapTail.fold_left_inv (fun fs => map core fs = map core fused)); [|reflexivity].
  intros fs [h hap_set] Hfs.
  apply (RemapTail.fold_left_inv (fun fs => map core fs = map core fused)); [|exact Hfs].
  clear fs Hfs. intros fs [[orig idxs] this_chr] Hfs.
  apply (RemapTail.fold_left_inv (fun fs => map core fs = map core fused)); [|exact Hfs].
  clear fs Hfs. intros fs i Hfs.
  destruct (nth_error fs i) as [sc|] eqn:N; [|exact Hfs].
  rewrite (RemapTail.map_set_nth_same core fs i sc _ N); [exact Hfs | apply core_with_name].
Qed.

Lemma name_chromosomes_core prefix fused items r :
  name_chromosomes prefix fused items = Ok r -> map core r = map core fused.
Proof.
  unfold name_chromosomes. destruct (dedup str_eqb (map fst items)) as [|h0 haps].
  - intros H. injection H as <-. reflexivity.
  - destruct (foldM _ items _) as [st|]; cbn [bind]; [|discriminate].
    destruct (existsb _ _); [discriminate|]. intros H. injection H as <-.
    apply (RemapTail.fold_left_inv
             (fun s : list scaffold * Z => map core (fst s) = map core fused)); [|reflexivity].
    intros [fs n] g Hfs. cbn [fst] in *. rewrite name_group_core. exact Hfs.
Qed.

(* grouping: every scaffold of a group carries the group's key *)
Definition keyed (acc : list (option str * (bool * list scaffold))) : Prop :=
  forall e sc, In e acc -> In sc (snd (snd e)) -> fst (asm_key_of sc) = fst e.

Lemma group_step_keyed acc sc : keyed acc -> keyed (RemapTail.group_step acc sc).
Proof.
  intros Hk. unfold RemapTail.group_step.
  destruct (asm_key_of sc) as [k curated] eqn:Ek.
  destruct (aget (opt_eqb str_eqb) acc k) as [[cur scs]|] eqn:G.
  - destruct (aget_split (opt_eqb str_eqb) Routing.opt_str_eqb_eq acc k (cur, scs) G)
      as (l1 & l2 & E1 & _ & E2).
    rewrite E2. intros e x He Hx. apply in_app_or in He. destruct He as [He | [<- | He]].
    + apply (Hk e x); [rewrite E1; apply in_or_app; left; exact He | exact Hx].
    + cbn [fst snd] in *. apply in_app_or in Hx. destruct Hx as [Hx | [<- | []]].
      * apply (Hk (k, (cur, scs)) x); [rewrite E1; apply in_or_app; right; left; reflexivity | exact Hx].
      * rewrite Ek. reflexivity.
    + apply (Hk e x); [rewrite E1; apply in_or_app; right; right; exact He | exact Hx].
  - intros e x He Hx. apply in_app_or in He. destruct He as [He | [<- | []]].
    + apply (Hk e x); assumption.
    + cbn [fst snd] in *. destruct Hx as [<- | []]. rewrite Ek. reflexivity.
Qed.

Lemma group_fold_keyed : forall l acc, keyed acc -> keyed (fold_left RemapTail.group_step l acc).
Proof.
  induction l as [|sc l IH]; intros acc Hk; cbn [fold_left]; [exact Hk|].
  apply IH, group_step_keyed, Hk.
Qed.

Lemma keyed_nil : keyed [].
Proof. intros e sc []. Qed.

(* the tail, opened: the fused scaffolds, the same scaffolds after naming
   (rows, tag and haplotype untouched), the output assemblies are a partition
   of these and every scaffold sits in the assembly of its own key *)
Lemma assemblies_out_core : forall c g prefix input rs o,
  assemblies_with_scaffolds_fused c g prefix input rs = Ok o ->
  exists fused0 fused, fuse_all c g rs = Ok fused0 /\ map core fused = map core fused0
    /\ Permutation (flat_map oa_scaffolds (out_asms o)) fused
    /\ (forall a sc, In a (out_asms o) -> In sc (oa_scaffolds a) -> oa_key a = fst (asm_key_of sc)).
Proof.
  intros c g prefix input rs o H. unfold assemblies_with_scaffolds_fused in H.
  destruct (fuse_all c g rs) as [fused0|]; cbn [bind] in H; [|discriminate].
  match type of H with context [name_chromosomes prefix ?f1 ?it] =>
    destruct (name_chromosomes prefix f1 it) as [fused|] eqn:NC end;
    cbn [bind] in H; [|discriminate].
  match type of H with context [mapM ?f ?a0] =>
    destruct (mapM f a0) as [asms|] eqn:MM end; cbn [bind] in H; [|discriminate].
  destruct (make_stats _ _ _) as [[[breaks joins] per]|]; cbn [bind] in H; [|discriminate].
  injection H as <-. cbn [out_asms].
  exists fused0, fused. split; [reflexivity|]. split; [|split].
  - rewrite (name_chromosomes_core _ _ _ _ NC). rewrite map_map.
    apply map_ext. intros sc. destruct (_ && _); reflexivity.
  - eapply perm_trans; [apply (RemapTail.sort_groups_perm _ _ MM)|].
    apply (RemapTail.group_fold_perm fused []).
  - intros a sc Ha Hsc.
    destruct (mapM_ok_In _ _ _ MM a Ha) as ([k [curated scs]] & Hin & Hf).
    destruct (Proofs.NaturalKey.smart_sort_total sc_rank sc_name scs) as (srt & Es & Ps).
    rewrite Es in Hf. cbn [bind] in Hf. injection Hf as <-. cbn [oa_key oa_scaffolds] in *.
    symmetry.
    refine (group_fold_keyed fused [] keyed_nil (k, (curated, scs)) sc Hin _).
    cbn [snd]. eapply Permutation_in; [exact Ps | exact Hsc].
Qed.

Lemma map_eq_In {A B} (f : A -> B) : forall l l' x, map f l = map f l' -> In x l ->
  exists y, In y l' /\ f y = f x.
Proof.
  intros l l' x E Hx. assert (Hfx : In (f x) (map f l')) by (rewrite <- E; apply in_map; exact Hx).
  apply in_map_iff in Hfx. destruct Hfx as (y & Ey & Hy). exists y. split; assumption.
Qed.

(* a fused scaffold is in the output, same rows / tag / haplotype, in the
   assembly of its key *)
Lemma fused_in_output c g prefix input rs o fused0 b :
  assemblies_with_scaffolds_fused c g prefix input rs = Ok o ->
  fuse_all c g rs = Ok fused0 -> In b fused0 ->
  exists a sc, In a (out_asms o) /\ In sc (oa_scaffolds a) /\ core sc = core b
    /\ oa_key a = dest_key (sc_tag b) (sc_hap b).
Proof.
  intros H F Hb.
  destruct (assemblies_out_core _ _ _ _ _ _ H) as (fused0' & fused & F' & Ec & Pm & Hkey).
  rewrite F in F'. injection F' as <-.
  destruct (map_eq_In core fused0 fused b (eq_sym Ec) Hb) as (sc & Hsc & Esc).
  assert (Hout : In sc (flat_map oa_scaffolds (out_asms o))).
  { eapply Permutation_in; [apply Permutation_sym; exact Pm | exact Hsc]. }
  apply in_flat_map in Hout. destruct Hout as (a & Ha & Hin).
  exists a, sc. split; [exact Ha|]. split; [exact Hin|]. split; [exact Esc|].
  rewrite (Hkey a sc Ha Hin), (core_asm_key sc b Esc). apply dest_key_asm_key.
Qed.

Lemma mapM_ok_In_l {A B} (f : A -> res B) : forall l l',
  mapM f l = Ok l' -> forall x y, In x l -> f x = Ok y -> In y l'.
Proof.
  induction l as [|x0 l IH]; intros l' H x y Hx Hf; [destruct Hx|].
  cbn [mapM] in H. bind_inv H y0 Hy0. bind_inv H ys Hys. injection H as <-.
  destruct Hx as [-> | Hx].
  - left. congruence.
  - right. eapply IH; eassumption.
Qed.

(* a piece with rows lands, as one block, in a fused scaffold of its tag and
   haplotype *)
Lemma piece_in_fused g rs fused0 sc isr :
  fuse_all repaired g rs = Ok fused0 ->
  (isr = true /\ (exists id r, In id (b_added (rs_b rs)) /\ get_ovr (b_store (rs_b rs)) id = Ok r
                               /\ sc = fst (piece_of_result r))
   \/ isr = false /\ In sc (rs_left rs)) ->
  sc_rows sc <> [] ->
  exists b pre suf, In b fused0 /\ sc_rows b = pre ++ sc_rows sc ++ suf
    /\ sc_tag b = sc_tag sc /\ sc_hap b = sc_hap sc.
Proof.
  intros F Hp NE. unfold fuse_all in F. bind_inv F results Hres. injection F as <-.
  assert (Hin : In (sc, isr) (map piece_of_result results ++ map (fun sc => (sc, false)) (rs_left rs))).
  { apply in_or_app. destruct Hp as [(-> & id & r & Hid & Hget & ->) | (-> & Hl)].
    - left. apply in_map_iff. exists r. split; [reflexivity|].
      eapply mapM_ok_In_l; eassumption.
    - right. apply in_map_iff. exists sc. split; [reflexivity | exact Hl]. }
  destruct (routing_gen g _ [] sc isr fused_ok_nil Hin NE) as (b & pre & suf & Hget & R & T & Hh & _).
  exists b, pre, suf. split; [|auto].
  apply (aget_In fuse_key_eqb Routing.fuse_key_eqb_eq) in Hget.
  apply in_map_iff. exists (key_of_piece sc, b). split; [reflexivity | exact Hget].
Qed.

Theorem routing_end_to_end : routing_end_to_end_statement.
Proof.
  intros g prefix bpt input pretext o rs Hrs H. unfold remap in H. rewrite Hrs in H. cbn [bind] in H.
  destruct (assemblies_out_core _ _ _ _ _ _ H) as (fused0 & fused & F & _ & _ & Hkey).
  split; [|split].
  - intros id r Hid Hget NE.
    destruct (piece_in_fused g rs fused0 (fst (piece_of_result r)) true F) as (b & pre & suf & Hb & R & T & Hh).
    { left. split; [reflexivity|]. exists id, r. auto. }
    { cbn [piece_of_result fst sc_rows]. intros E. apply NE. apply to_scaffold_rows_nil_iff. exact E. }
    cbn [piece_of_result fst sc_rows sc_tag sc_hap] in R, T, Hh.
    destruct (fused_in_output _ _ _ _ _ _ _ b H F Hb) as (a & sc & Ha & Hsc & Ec & Ek).
    unfold core in Ec. injection Ec as Er Et Eh.
    exists a, sc, pre, suf. rewrite Er, Et, Eh, Ek, T, Hh. repeat split; auto.
  - intros l Hl NE.
    destruct (piece_in_fused g rs fused0 l false F) as (b & pre & suf & Hb & R & T & Hh).
    { right. split; [reflexivity | exact Hl]. }
    { exact NE. }
    destruct (fused_in_output _ _ _ _ _ _ _ b H F Hb) as (a & sc & Ha & Hsc & Ec & Ek).
    unfold core in Ec. injection Ec as Er Et Eh.
    exists a, sc, pre, suf. rewrite Er, Et, Eh, Ek, T, Hh. repeat split; auto.
  - intros a sc Ha Hsc. rewrite (Hkey a sc Ha Hsc). apply dest_key_asm_key.
Qed.

(* ===================================================================== 2 ==
   where the tag and the haplotype of a stored result come from: they are what
   [label_scaffold] returned when the result was created, for the tags of its
   bait and the tag set of the Pretext scaffold the bait is a row of; the
   resolver, the cuts and the two renamings change neither (nor the bait) *)

(* the fields no later stage writes *)
Definition same_label (r r' : ovr) : Prop :=
  o_bait r' = o_bait r /\ o_tag r' = o_tag r /\ o_hap r' = o_hap r
  /\ o_orig r' = o_orig r /\ o_orig_tags r' = o_orig_tags r.

Lemma same_label_refl r : same_label r r.
Proof. repeat split. Qed.

Lemma same_label_trans a b c : same_label a b -> same_label b c -> same_label a c.
Proof. unfold same_label. intros (A1 & A2 & A3 & A4 & A5) (B1 & B2 & B3 & B4 & B5). repeat split; congruence. Qed.

Lemma same_label_span r st en rows : same_label r (set_span_rows r st en rows).
Proof. repeat split. Qed.

Lemma same_label_set_name r n : same_label r (set_name r n).
Proof. repeat split. Qed.

Lemma same_label_discard_start r r' : discard_start r = Ok r' -> same_label r r'.
Proof.
  unfold discard_start. intros H. destruct (o_rows r) as [|d t]; [discriminate|].
  destruct (pop_gaps_front t (o_start r + row_len d)) as [rows' st].
  injection H as <-. apply same_label_span.
Qed.

Lemma same_label_discard_end r r' : discard_end r = Ok r' -> same_label r r'.
Proof.
  unfold discard_end. intros H. destruct (rev (o_rows r)) as [|d t]; [discriminate|].
  destruct (pop_gaps_back_rev t (o_end r - row_len d)) as [rr en].
  injection H as <-. apply same_label_span.
Qed.

Lemma same_label_trim_large r e r' : trim_large_overhangs r e = Ok r' -> same_label r r'.
Proof.
  intros H. apply Proofs.OverlapResult.trim_large_cases in H.
  destruct H as (r1 & H1 & H2). apply (same_label_trans r r1 r').
  - destruct H1 as [-> | H1]; [apply same_label_refl | apply same_label_discard_start; exact H1].
  - destruct H2 as [-> | H2]; [apply same_label_refl | apply same_label_discard_end; exact H2].
Qed.

Lemma same_label_trim_fragment r t ks ke new r' :
  trim_fragment r t ks ke = Ok (new, r') -> same_label r r'.
Proof.
  intros H. unfold trim_fragment in H. bind_inv H r0 Hr0. cbv zeta in H. bind_inv H rl Hrl.
  destruct (negb (row_is r0 t || row_is rl t)); [discriminate|].
  bind_inv H nw Hnw. injection H as _ <-. apply same_label_span.
Qed.

Lemma foldM_inv_In {A S} (f : S -> A -> res S) (P : S -> Prop) : forall l,
  (forall s a s', In a l -> P s -> f s a = Ok s' -> P s') ->
  forall s s', P s -> foldM f l s = Ok s' -> P s'.
Proof.
  induction l as [|a l IH]; intros Hstep s0 s' Hs H; cbn [foldM] in H.
  - injection H as <-. exact Hs.
  - bind_inv H s1 Hs1. eapply IH; [| |exact H].
    + intros s2 a2 s3 Ha2. apply Hstep. right. exact Ha2.
    + eapply Hstep; [left; reflexivity | exact Hs | exact Hs1].
Qed.

Lemma nth_error_set_nth_inv {A} : forall (l : list A) i x j y,
  nth_error (set_nth l i x) j = Some y -> (j = i /\ y = x) \/ nth_error l j = Some y.
Proof.
  induction l as [|z l IH]; intros i x j y H; [destruct i; cbn [set_nth] in H; right; exact H|].
  destruct i as [|i]; cbn [set_nth] in H.
  - destruct j as [|j]; cbn [nth_error] in *; [left; split; congruence | right; exact H].
  - destruct j as [|j]; cbn [nth_error] in *; [right; exact H|].
    destruct (IH i x j y H) as [[-> ->] | Hn]; [left; split; reflexivity | right; exact Hn].
Qed.

Section LabelInv.
  Variable Q : nat -> ovr -> Prop.
  Hypothesis Q_ext : forall n r r', same_label r r' -> Q n r -> Q n r'.

  Definition QS (st : list ovr) : Prop := forall n r, nth_error st n = Some r -> Q n r.

  Lemma QS_nil : QS [].
  Proof. intros [|n] r H; discriminate H. Qed.

  Lemma QS_get st id r : QS st -> get_ovr st id = Ok r -> Q (Z.to_nat id) r.
  Proof.
    intros Hs H. apply Hs. unfold get_ovr in H.
    destruct (nth_error st (Z.to_nat id)) as [x|]; [injection H as ->; reflexivity | discriminate].
  Qed.

  Lemma QS_put st id x : QS st -> Q (Z.to_nat id) x -> QS (put_ovr st id x).
  Proof.
    intros Hs Hx n r H. unfold put_ovr in H. apply nth_error_set_nth_inv in H.
    destruct H as [[-> ->] | H]; [exact Hx | apply Hs; exact H].
  Qed.

  Lemma QS_update st id r r' :
    QS st -> get_ovr st id = Ok r -> same_label r r' -> QS (put_ovr st id r').
  Proof.
    intros Hs Hg Hl. apply QS_put; [exact Hs|]. apply (Q_ext _ r); [exact Hl|].
    eapply QS_get; eassumption.
  Qed.

  Lemma QS_snoc st r : QS st -> Q (length st) r -> QS (st ++ [r]).
  Proof.
    intros Hs Hr n x H. destruct (Nat.lt_ge_cases n (length st)) as [Hlt | Hge].
    - rewrite nth_error_app1 in H by exact Hlt. apply Hs. exact H.
    - rewrite nth_error_app2 in H by exact Hge.
      destruct (n - length st)%nat as [|m] eqn:E; cbn [nth_error] in H.
      + injection H as <-. replace n with (length st) by lia. exact Hr.
      + destruct m; discriminate H.
  Qed.

  (* the renamings *)
  Lemma QS_rename st ids st' : QS st -> rename_results st ids = Ok st' -> QS st'.
  Proof.
    intros Hs H. unfold rename_results in H. bind_inv H rs Hrs. injection H as <-.
    set (pairs := rename_by_size rs _ _).
    assert (Hp : forall id r n, In ((id, r), n) pairs -> get_ovr st id = Ok r).
    { intros id r n Hin. unfold pairs, rename_by_size in Hin. apply in_combine_l in Hin.
      unfold sort_by_Z_desc in Hin. apply In_stable_sort in Hin.
      destruct (mapM_ok_In _ _ _ Hrs _ Hin) as (id0 & _ & Hf).
      bind_inv Hf r0 Hr0. injection Hf as <- <-. exact Hr0. }
    clearbody pairs. clear Hrs.
    assert (G : forall cur, QS cur ->
      QS (fold_left (fun st0 '(id, r, n) => put_ovr st0 id (set_name r n)) pairs cur)).
    { induction pairs as [|[[id r] n] pairs IH]; intros cur Hc; cbn [fold_left]; [exact Hc|].
      apply IH.
      - intros id' r' n' Hin. apply (Hp id' r' n'). right. exact Hin.
      - apply QS_put; [exact Hc|]. apply (Q_ext _ r); [apply same_label_set_name|].
        eapply QS_get; [exact Hs|]. apply (Hp id r n). left. reflexivity. }
    apply G. exact Hs.
  Qed.

  (* the overhang resolver *)
  Lemma p_apply_QS st p st' : QS st -> p_apply st p = Ok st' -> QS st'.
  Proof.
    intros Hs H. unfold p_apply in H. bind_inv H r Hr. bind_inv H r' Hr'. injection H as <-.
    eapply QS_update; [exact Hs | exact Hr|].
    destruct (pr_kind p); [apply same_label_discard_start | apply same_label_discard_end]; exact Hr'.
  Qed.

  Lemma fix_one_QS err st pl st' fx : QS st -> fix_one err st pl = Ok (st', fx) -> QS st'.
  Proof.
    intros Hs H. apply fix_one_cases in H. destruct H as [[_ ->] | (p & _ & _ & H)]; [exact Hs|].
    eapply p_apply_QS; eassumption.
  Qed.

  Lemma make_fixes_QS err : forall pls st st' fxs,
    QS st -> make_fixes err st pls = Ok (st', fxs) -> QS st'.
  Proof.
    induction pls as [|pl pls IH]; intros st st' fxs Hs H; cbn [make_fixes] in H.
    - injection H as <- _. exact Hs.
    - bind_inv H r Hr. destruct r as [st1 fx]. bind_inv H r2 Hr2. destruct r2 as [st2 fxs2].
      injection H as <- _. eapply IH; [|exact Hr2]. eapply fix_one_QS; eassumption.
  Qed.

  Lemma discard_loop_QS err : forall fuel b b',
    QS (b_store b) -> discard_loop fuel err b = Ok b' -> QS (b_store b').
  Proof.
    induction fuel as [|fuel IH]; intros b b' Hs H; cbn [discard_loop] in H; [discriminate|].
    destruct (b_multi b) as [|k0 ks] eqn:Em; [injection H as <-; exact Hs|].
    bind_inv H pls Hpls. bind_inv H r Hr. destruct r as [st fixes].
    pose proof (make_fixes_QS _ _ _ _ _ Hs Hr) as Hst.
    destruct fixes as [|fx0 fixes].
    - injection H as <-. exact Hst.
    - bind_inv H fm Hfm. destruct fm as [found multi']. eapply IH; [|exact H]. exact Hst.
  Qed.

  (* the cuts *)
  Lemma trim_all_QS c f : forall ids st i last st' subs,
    QS st -> trim_all c st f ids i last = Ok (st', subs) -> QS st'.
  Proof.
    induction ids as [|id ids IH]; intros st i last st' subs Hs H; cbn [trim_all] in H.
    - injection H as <- _. exact Hs.
    - cbv zeta in H. bind_inv H r Hr. bind_inv H fr Hfr. destruct fr as [new r'].
      bind_inv H rest Hrest. destruct rest as [st2 subs2]. cbn [fst snd] in H. injection H as <- _.
      eapply IH; [|exact Hrest]. eapply QS_update; [exact Hs | exact Hr|].
      eapply same_label_trim_fragment. exact Hfr.
  Qed.

  Lemma cut_fragments_QS c b k b' :
    QS (b_store b) -> cut_fragments c b k = Ok b' -> QS (b_store b').
  Proof.
    intros Hs H. unfold cut_fragments in H.
    destruct (aget key_eqb (b_found b) k) as [[f ids]|] eqn:E; [|discriminate].
    bind_inv H keyed0 Hkeyed. bind_inv H r Hr. destruct r as [st subs].
    bind_inv H u Hu. injection H as <-. cbn [b_store].
    eapply trim_all_QS; [exact Hs | exact Hr].
  Qed.

  Lemma cut_remaining_QS c b b' :
    QS (b_store b) -> cut_remaining_overhangs c b = Ok b' -> QS (b_store b').
  Proof.
    intros Hs H. unfold cut_remaining_overhangs in H. bind_inv H b1 Hb1. injection H as <-.
    cbn [b_store].
    eapply (foldM_inv _ (fun b0 => QS (b_store b0))); [|exact Hs | exact Hb1].
    intros s0 a s1 Hs0 Hf. eapply cut_fragments_QS; eassumption.
  Qed.
End LabelInv.

(* result number [n] was labelled by this call of label_scaffold *)
Definition labelled (pretext : list (str * list row)) (n : nat) (r : ovr) : Prop :=
  exists pname prows nm nm' lab,
    In (pname, prows) pretext /\ In (o_bait r) (frags_of prows)
    /\ o_orig r = Some pname /\ o_orig_tags r = fragment_tags prows
    /\ label_scaffold nm (Z.of_nat n) (f_tags (o_bait r)) (fragment_tags prows) = Ok (nm', lab)
    /\ o_tag r = lb_tag lab /\ o_hap r = lb_hap lab.

Lemma labelled_ext pretext n r r' : same_label r r' -> labelled pretext n r -> labelled pretext n r'.
Proof.
  intros (E1 & E2 & E3 & E4 & E5) (pname & prows & nm & nm' & lab & H1 & H2 & H3 & H4 & H5 & H6 & H7).
  exists pname, prows, nm, nm', lab. rewrite E1, E2, E3, E4, E5. repeat split; assumption.
Qed.

Section Lookups.
  Variable inp : list (str * list row).
  Variable err : Z.
  Variable pretext : list (str * list row).
  Let QSl := QS (labelled pretext).

  Lemma one_bait_QS pname prows b bait b' :
    In (pname, prows) pretext -> In bait (frags_of prows) ->
    QSl (b_store b) -> one_bait inp err (fragment_tags prows) pname b bait = Ok b' -> QSl (b_store b').
  Proof.
    intros Hp Hb Hs H. unfold one_bait in H.
    bind_inv H rows Hrows. bind_inv H fo Hfo. destruct fo as [fo|]; [|injection H as <-; exact Hs].
    bind_inv H nl Hnl. destruct nl as [nm lab]. bind_inv H r1 Hr1.
    assert (Hr1p : labelled pretext (length (b_store b)) r1).
    { apply (labelled_ext _ _ _ _ (same_label_trim_large _ _ _ Hr1)).
      exists pname, prows, (b_namer b), nm, lab.
      cbn [set_labels ovr_of_found o_bait o_tag o_hap o_orig o_orig_tags].
      repeat split; try assumption. }
    assert (Hst : QSl (b_store b ++ [r1])) by (apply QS_snoc; assumption).
    destruct (o_rows r1) as [|x0 t0].
    - injection H as <-. exact Hst.
    - injection H as <-. unfold store_fragments_found.
      cbn [b_store b_added b_found b_multi b_namer b_cuts].
      destruct (fold_left _ _ _) as [found' multi']. exact Hst.
  Qed.

  Lemma one_pretext_scaffold_QS b psc b' :
    In psc pretext ->
    QSl (b_store b) -> one_pretext_scaffold inp err b psc = Ok b' -> QSl (b_store b').
  Proof.
    intros Hp Hs H. unfold one_pretext_scaffold in H. destruct psc as [pname prows].
    bind_inv H nm Hnm. bind_inv H b1 Hb1. bind_inv H st Hst. injection H as <-.
    cbn [with_store b_store].
    eapply (QS_rename _ (labelled_ext pretext)); [|exact Hst].
    eapply (foldM_inv_In _ (fun b => QSl (b_store b))); [| |exact Hb1]; [|exact Hs].
    intros s0 a s1 Ha Hs0 Hf. eapply one_bait_QS; eassumption.
  Qed.
End Lookups.

Theorem labels_from_label_scaffold : forall c g prefix bpt input pretext rs,
  remap_to_input c g prefix bpt input pretext = Ok rs ->
  forall n r, nth_error (b_store (rs_b rs)) n = Some r -> labelled pretext n r.
Proof.
  intros c g prefix bpt input pretext rs H.
  unfold remap_to_input in H. destruct (has_dup_names (map fst input)); [discriminate|].
  cbv zeta in H.
  bind_inv H b1 Hb1. bind_inv H b2 Hb2. bind_inv H b3 Hb3. bind_inv H st Hst.
  bind_inv H nl Hnl. injection H as <-. cbn [rs_b with_namer with_store b_store].
  change (QS (labelled pretext) st).
  pose proof (labelled_ext pretext) as Hext.
  assert (H1 : QS (labelled pretext) (b_store b1)).
  { eapply (foldM_inv_In _ (fun b => QS (labelled pretext) (b_store b))); [| |exact Hb1].
    - intros s0 a s1 Ha Hs0 Hf. eapply one_pretext_scaffold_QS; eassumption.
    - apply QS_nil. }
  assert (H2 : QS (labelled pretext) (b_store b2)) by (eapply discard_loop_QS; eassumption).
  assert (H3 : QS (labelled pretext) (b_store b3)) by (eapply cut_remaining_QS; eassumption).
  eapply QS_rename; eassumption.
Qed.

Lemma get_ovr_nth st id r : get_ovr st id = Ok r -> nth_error st (Z.to_nat id) = Some r.
Proof.
  unfold get_ovr. destruct (nth_error st (Z.to_nat id)) as [x|]; [intros [= ->]; reflexivity | discriminate].
Qed.

(* the form asked for: a namer state, the tag set of the Pretext scaffold of
   the bait, and the label computed from them *)
Theorem routing_from_tags : forall c g prefix bpt input pretext rs,
  remap_to_input c g prefix bpt input pretext = Ok rs ->
  forall id r, 0 <= id -> get_ovr (b_store (rs_b rs)) id = Ok r ->
  exists pname prows nm nm' lab,
    In (pname, prows) pretext /\ In (o_bait r) (frags_of prows)
    /\ o_orig r = Some pname /\ o_orig_tags r = fragment_tags prows
    /\ label_scaffold nm id (f_tags (o_bait r)) (fragment_tags prows) = Ok (nm', lab)
    /\ o_tag r = lb_tag lab /\ o_hap r = lb_hap lab.
Proof.
  intros c g prefix bpt input pretext rs H id r Hid Hget.
  pose proof (labels_from_label_scaffold _ _ _ _ _ _ _ H _ _ (get_ovr_nth _ _ _ Hget)) as L.
  unfold labelled in L. rewrite Z2Nat.id in L by exact Hid. exact L.
Qed.

(* ... hence the tag of every stored result is [expected_tag] of the tags of
   its bait (and of Target mode and the scaffold's tag set), whatever its id *)
Lemma mem_str_In x l : mem_str x l = true <-> In x l.
Proof.
  unfold mem_str. rewrite existsb_exists. split.
  - intros (y & Hy & E). apply str_eqb_eq in E. subst y. exact Hy.
  - intros Hx. exists x. split; [exact Hx | apply str_eqb_eq; reflexivity].
Qed.

Lemma mem_str_not_In x l : mem_str x l = false <-> ~ In x l.
Proof.
  rewrite <- mem_str_In. destruct (mem_str x l); split; congruence.
Qed.

Theorem result_tag_spec : forall c g prefix bpt input pretext rs,
  remap_to_input c g prefix bpt input pretext = Ok rs ->
  forall id r, get_ovr (b_store (rs_b rs)) id = Ok r ->
  exists pname prows target,
    In (pname, prows) pretext /\ In (o_bait r) (frags_of prows)
    /\ o_tag r = expected_tag target (f_tags (o_bait r)) (fragment_tags prows).
Proof.
  intros c g prefix bpt input pretext rs H id r Hget.
  destruct (labels_from_label_scaffold _ _ _ _ _ _ _ H _ _ (get_ovr_nth _ _ _ Hget))
    as (pname & prows & nm & nm' & lab & H1 & H2 & _ & _ & H5 & H6 & _).
  apply label_tag_spec in H5. destruct H5 as (Et & _).
  exists pname, prows, (nm_target nm). rewrite H6, Et. auto.
Qed.

Corollary result_tag_by_bait_tags : forall c g prefix bpt input pretext rs,
  remap_to_input c g prefix bpt input pretext = Ok rs ->
  forall id r, get_ovr (b_store (rs_b rs)) id = Ok r ->
  let ft := f_tags (o_bait r) in
  (In (s "FalseDuplicate") ft -> o_tag r = Some (s "FalseDuplicate"))
  /\ (~ In (s "FalseDuplicate") ft -> In (s "Haplotig") ft -> o_tag r = Some (s "Haplotig"))
  /\ (~ In (s "FalseDuplicate") ft -> ~ In (s "Haplotig") ft -> In (s "Contaminant") ft ->
        o_tag r = Some (s "Contaminant"))
  /\ (~ In (s "FalseDuplicate") ft -> ~ In (s "Haplotig") ft -> ~ In (s "Contaminant") ft ->
        o_tag r = None \/ o_tag r = Some (s "Contaminant")).
Proof.
  intros c g prefix bpt input pretext rs H id r Hget ft.
  destruct (result_tag_spec _ _ _ _ _ _ _ H id r Hget) as (pname & prows & target & _ & _ & Et).
  fold ft in Et. rewrite Et. unfold expected_tag.
  split; [|split; [|split]].
  - intros Hfd. apply mem_str_In in Hfd. rewrite Hfd. reflexivity.
  - intros Nfd Hh. apply mem_str_not_In in Nfd. apply mem_str_In in Hh. rewrite Nfd, Hh. reflexivity.
  - intros Nfd Nh Hc. apply mem_str_not_In in Nfd. apply mem_str_not_In in Nh. apply mem_str_In in Hc.
    rewrite Nfd, Nh, Hc. reflexivity.
  - intros Nfd Nh Nc. apply mem_str_not_In in Nfd. apply mem_str_not_In in Nh.
    rewrite Nfd, Nh.
    destruct (mem_str (s "Contaminant") ft || (target && negb (mem_str (s "Target") (fragment_tags prows))));
      [right | left]; reflexivity.
Qed.

(* ===================================================================== 3 ==
   both halves together: from the tags of the bait in the Pretext file to the
   output assembly *)
Lemma dest_key_tagged t h : t <> [] -> dest_key (Some t) h = Some t.
Proof. intros N. unfold dest_key. destruct t; [contradiction | reflexivity]. Qed.

Theorem routing_by_bait_tags : forall g prefix bpt input pretext o rs id r,
  remap_to_input repaired g prefix bpt input pretext = Ok rs ->
  remap repaired g prefix bpt input pretext = Ok o ->
  In id (b_added (rs_b rs)) -> get_ovr (b_store (rs_b rs)) id = Ok r -> o_rows r <> [] ->
  let ft := f_tags (o_bait r) in
  exists a sc pre suf,
    In a (out_asms o) /\ In sc (oa_scaffolds a)
    /\ sc_rows sc = pre ++ to_scaffold_rows r ++ suf
    /\ sc_tag sc = o_tag r /\ sc_hap sc = o_hap r
    /\ (In (s "FalseDuplicate") ft -> oa_key a = Some (s "FalseDuplicate"))
    /\ (~ In (s "FalseDuplicate") ft -> In (s "Haplotig") ft -> oa_key a = Some (s "Haplotig"))
    /\ (~ In (s "FalseDuplicate") ft -> ~ In (s "Haplotig") ft -> In (s "Contaminant") ft ->
          oa_key a = Some (s "Contaminant"))
    /\ (~ In (s "FalseDuplicate") ft -> ~ In (s "Haplotig") ft -> ~ In (s "Contaminant") ft ->
          oa_key a = Some (s "Contaminant")                    (* Target mode *)
          \/ oa_key a = (if truthy (o_hap r) then o_hap r else None)).
Proof.
  intros g prefix bpt input pretext o rs id r Hrs Ho Hid Hget NE ft.
  destruct (routing_end_to_end g prefix bpt input pretext o rs Hrs Ho) as (C1 & _ & _).
  destruct (C1 id r Hid Hget NE) as (a & sc & pre & suf & Ha & Hsc & R & T & Hh & K).
  destruct (result_tag_by_bait_tags _ _ _ _ _ _ _ Hrs id r Hget) as (T1 & T2 & T3 & T4). fold ft in T1, T2, T3, T4.
  exists a, sc, pre, suf. repeat (split; [assumption|]).
  split; [|split; [|split]].
  - intros H1. rewrite K, (T1 H1). apply dest_key_tagged. discriminate.
  - intros H1 H2. rewrite K, (T2 H1 H2). apply dest_key_tagged. discriminate.
  - intros H1 H2 H3. rewrite K, (T3 H1 H2 H3). apply dest_key_tagged. discriminate.
  - intros H1 H2 H3. rewrite K. destruct (T4 H1 H2 H3) as [E | E]; rewrite E.
    + right. reflexivity.
    + left. apply dest_key_tagged. discriminate.
Qed.

(* the cleanest instance: a bait tagged Haplotig (and not FalseDuplicate, which
   takes precedence) has its rows, as one block, in a scaffold tagged Haplotig
   of the assembly keyed "Haplotig" *)
Corollary haplotig_bait_routed : forall g prefix bpt input pretext o rs id r,
  remap_to_input repaired g prefix bpt input pretext = Ok rs ->
  remap repaired g prefix bpt input pretext = Ok o ->
  In id (b_added (rs_b rs)) -> get_ovr (b_store (rs_b rs)) id = Ok r -> o_rows r <> [] ->
  In (s "Haplotig") (f_tags (o_bait r)) -> ~ In (s "FalseDuplicate") (f_tags (o_bait r)) ->
  exists a sc pre suf,
    In a (out_asms o) /\ oa_key a = Some (s "Haplotig") /\ In sc (oa_scaffolds a)
    /\ sc_tag sc = Some (s "Haplotig")
    /\ sc_rows sc = pre ++ to_scaffold_rows r ++ suf.
Proof.
  intros g prefix bpt input pretext o rs id r Hrs Ho Hid Hget NE Hh Nfd.
  destruct (routing_by_bait_tags g prefix bpt input pretext o rs id r Hrs Ho Hid Hget NE)
    as (a & sc & pre & suf & Ha & Hsc & R & T & _ & _ & K & _).
  destruct (result_tag_by_bait_tags _ _ _ _ _ _ _ Hrs id r Hget) as (_ & T2 & _).
  exists a, sc, pre, suf. repeat split; auto. rewrite T. apply T2; assumption.
Qed.

Corollary contaminant_bait_routed : forall g prefix bpt input pretext o rs id r,
  remap_to_input repaired g prefix bpt input pretext = Ok rs ->
  remap repaired g prefix bpt input pretext = Ok o ->
  In id (b_added (rs_b rs)) -> get_ovr (b_store (rs_b rs)) id = Ok r -> o_rows r <> [] ->
  In (s "Contaminant") (f_tags (o_bait r)) ->
  ~ In (s "FalseDuplicate") (f_tags (o_bait r)) -> ~ In (s "Haplotig") (f_tags (o_bait r)) ->
  exists a sc pre suf,
    In a (out_asms o) /\ oa_key a = Some (s "Contaminant") /\ In sc (oa_scaffolds a)
    /\ sc_tag sc = Some (s "Contaminant")
    /\ sc_rows sc = pre ++ to_scaffold_rows r ++ suf.
Proof.
  intros g prefix bpt input pretext o rs id r Hrs Ho Hid Hget NE Hc Nfd Nh.
  destruct (routing_by_bait_tags g prefix bpt input pretext o rs id r Hrs Ho Hid Hget NE)
    as (a & sc & pre & suf & Ha & Hsc & R & T & _ & _ & _ & K & _).
  destruct (result_tag_by_bait_tags _ _ _ _ _ _ _ Hrs id r Hget) as (_ & _ & T3 & _).
  exists a, sc, pre, suf. repeat split; auto. rewrite T. apply T3; assumption.
Qed.

(* the other direction: what sits in the assembly keyed [t] is tagged [t], or is
   untagged and of haplotype [t].  (The second alternative cannot be dropped,
   not even for t = "Haplotig": tags and haplotypes share one key space, see
   [key_space_shared] below.) *)
Corollary assembly_members : forall g prefix bpt input pretext o a sc t,
  remap repaired g prefix bpt input pretext = Ok o ->
  In a (out_asms o) -> In sc (oa_scaffolds a) -> oa_key a = Some t ->
  sc_tag sc = Some t \/ (truthy (sc_tag sc) = false /\ sc_hap sc = Some t).
Proof.
  intros g prefix bpt input pretext o a sc t Ho Ha Hsc Hk.
  pose proof Ho as Ho'. unfold remap in Ho'. bind_inv Ho' rs Hrs.
  destruct (routing_end_to_end g prefix bpt input pretext o rs Hrs Ho) as (_ & _ & C3).
  rewrite (C3 a sc Ha Hsc) in Hk. unfold dest_key in Hk.
  destruct (truthy (sc_tag sc)) eqn:Et; [left; exact Hk|].
  destruct (truthy (sc_hap sc)) eqn:Eh; [right; split; [reflexivity | exact Hk] | discriminate].
Qed.

Corollary primary_assembly_members : forall g prefix bpt input pretext o a sc,
  remap repaired g prefix bpt input pretext = Ok o ->
  In a (out_asms o) -> In sc (oa_scaffolds a) -> oa_key a = None ->
  truthy (sc_tag sc) = false /\ truthy (sc_hap sc) = false.
Proof.
  intros g prefix bpt input pretext o a sc Ho Ha Hsc Hk.
  pose proof Ho as Ho'. unfold remap in Ho'. bind_inv Ho' rs Hrs.
  destruct (routing_end_to_end g prefix bpt input pretext o rs Hrs Ho) as (_ & _ & C3).
  rewrite (C3 a sc Ha Hsc) in Hk. unfold dest_key in Hk.
  destruct (truthy (sc_tag sc)) eqn:Et.
  { destruct (sc_tag sc) as [[|c0 t0]|]; discriminate. }
  destruct (truthy (sc_hap sc)) eqn:Eh; [|split; reflexivity].
  destruct (sc_hap sc) as [[|c0 t0]|]; discriminate.
Qed.

(* ============================================================ non-vacuity *)
(* Two haplotypes.  Scaffold_1 (Hap1, painted) has three baits on scaffold_1:
   ctgA, then ctgB whose bait is tagged Contaminant, then ctgC.  Scaffold_2
   (Hap2, painted) has ctgD and then ctgE (minus strand bait) tagged Haplotig.
   scaffold_3 is not in the map.  Outcome: A and C are fused around the hole
   left by B into the one Hap1 chromosome; B goes to the assembly
   "Contaminant"; D is the Hap2 chromosome; E, reversed, is H_1 in the
   assembly "Haplotig"; scaffold_3 is left over and goes to the primary
   assembly (key None). *)
Definition re_gap : gap := mkGap 200 (s "scaffold").
Definition re_g100 : row := RG (mkGap 100 (s "scaffold")).
Definition re_input : list (str * list row) :=
  [ (s "scaffold_1", [ex_F "ctgA" 1 1000 1 []; re_g100; ex_F "ctgB" 1 1000 1 []; re_g100;
                      ex_F "ctgC" 1 1000 1 []]);
    (s "scaffold_2", [ex_F "ctgD" 1 1000 1 []; re_g100; ex_F "ctgE" 1 1000 (-1) []]);
    (s "scaffold_3", [ex_F "ctgF" 1 500 1 []]) ].
Definition re_ptx : list (str * list row) :=
  [ (s "Scaffold_1", [ex_F "scaffold_1" 1 1000 1 [s "Hap1"; s "Painted"]; RG re_gap;
                      ex_F "scaffold_1" 1101 2100 1 [s "Hap1"; s "Painted"; s "Contaminant"]; RG re_gap;
                      ex_F "scaffold_1" 2201 3200 1 [s "Hap1"; s "Painted"]]);
    (s "Scaffold_2", [ex_F "scaffold_2" 1 1000 1 [s "Hap2"; s "Painted"]; RG re_gap;
                      ex_F "scaffold_2" 1101 2100 (-1) [s "Hap2"; s "Painted"; s "Haplotig"]]) ].

Definition re_show_result (r : ovr) :=
  (f_tags (o_bait r), o_tag r, o_hap r, map ex_erase (to_scaffold_rows r)).
Definition re_show_sc (sc : scaffold) :=
  (sc_name sc, sc_tag sc, sc_hap sc, map ex_erase (sc_rows sc)).

Example routing_run :
  exists rs o,
    remap_to_input repaired re_gap (s "SUPER_") (10, 1) re_input re_ptx = Ok rs
    /\ remap repaired re_gap (s "SUPER_") (10, 1) re_input re_ptx = Ok o
    /\ b_added (rs_b rs) = [0; 1; 2; 3; 4]
    /\ map re_show_result (b_store (rs_b rs))
       = [ ([s "Hap1"; s "Painted"], None, Some (s "Hap1"), [ex_F "ctgA" 1 1000 1 []]);
           ([s "Hap1"; s "Painted"; s "Contaminant"], Some (s "Contaminant"), Some (s "Hap1"),
            [ex_F "ctgB" 1 1000 1 []]);
           ([s "Hap1"; s "Painted"], None, Some (s "Hap1"), [ex_F "ctgC" 1 1000 1 []]);
           ([s "Hap2"; s "Painted"], None, Some (s "Hap2"), [ex_F "ctgD" 1 1000 1 []]);
           ([s "Hap2"; s "Painted"; s "Haplotig"], Some (s "Haplotig"), Some (s "Hap2"),
            [ex_F "ctgE" 1 1000 1 []]) ]
    /\ map re_show_sc (rs_left rs) = [ (s "scaffold_3", None, None, [ex_F "ctgF" 1 500 1 []]) ]
    /\ map (fun a => (oa_key a, oa_curated a, map re_show_sc (oa_scaffolds a))) (out_asms o)
       = [ (Some (s "Hap1"), true,
            [ (s "SUPER_1", None, Some (s "Hap1"),
               [ex_F "ctgA" 1 1000 1 []; RG re_gap; ex_F "ctgC" 1 1000 1 []]) ]);
           (Some (s "Contaminant"), false,
            [ (s "Scaffold_1", Some (s "Contaminant"), Some (s "Hap1"), [ex_F "ctgB" 1 1000 1 []]) ]);
           (Some (s "Hap2"), true,
            [ (s "SUPER_1", None, Some (s "Hap2"), [ex_F "ctgD" 1 1000 1 []]) ]);
           (Some (s "Haplotig"), false,
            [ (s "H_1", Some (s "Haplotig"), Some (s "Hap2"), [ex_F "ctgE" 1 1000 1 []]) ]);
           (None, true,
            [ (s "scaffold_3", None, None, [ex_F "ctgF" 1 500 1 []]) ]) ].
Proof.
  eexists. eexists. split; [vm_compute; reflexivity|]. split; [vm_compute; reflexivity|].
  vm_compute. repeat split.
Qed.

(* what the theorems say of this run *)
Example routing_run_applies :
  exists rs o,
    remap_to_input repaired re_gap (s "SUPER_") (10, 1) re_input re_ptx = Ok rs
    /\ remap repaired re_gap (s "SUPER_") (10, 1) re_input re_ptx = Ok o
    (* every result: a block of a scaffold of the assembly [dest_key tag hap] *)
    /\ (forall id r, In id [0; 1; 2; 3; 4] -> get_ovr (b_store (rs_b rs)) id = Ok r ->
          exists a sc pre suf,
            In a (out_asms o) /\ In sc (oa_scaffolds a)
            /\ sc_rows sc = pre ++ to_scaffold_rows r ++ suf
            /\ sc_tag sc = o_tag r /\ sc_hap sc = o_hap r
            /\ oa_key a = dest_key (o_tag r) (o_hap r))
    (* result 1, the Contaminant bait in the middle of painted Scaffold_1 *)
    /\ (exists r a sc pre suf,
          get_ovr (b_store (rs_b rs)) 1 = Ok r
          /\ In a (out_asms o) /\ oa_key a = Some (s "Contaminant") /\ In sc (oa_scaffolds a)
          /\ sc_tag sc = Some (s "Contaminant") /\ sc_rows sc = pre ++ to_scaffold_rows r ++ suf)
    (* result 4, the Haplotig bait *)
    /\ (exists r a sc pre suf,
          get_ovr (b_store (rs_b rs)) 4 = Ok r
          /\ In a (out_asms o) /\ oa_key a = Some (s "Haplotig") /\ In sc (oa_scaffolds a)
          /\ sc_tag sc = Some (s "Haplotig") /\ sc_rows sc = pre ++ to_scaffold_rows r ++ suf)
    (* result 0, untagged, haplotype Hap1 *)
    /\ (exists r a sc pre suf,
          get_ovr (b_store (rs_b rs)) 0 = Ok r
          /\ In a (out_asms o) /\ oa_key a = Some (s "Hap1") /\ In sc (oa_scaffolds a)
          /\ sc_rows sc = pre ++ to_scaffold_rows r ++ suf)
    (* the left-over scaffold *)
    /\ (forall l, In l (rs_left rs) ->
          exists a sc pre suf,
            In a (out_asms o) /\ In sc (oa_scaffolds a) /\ sc_rows sc = pre ++ sc_rows l ++ suf
            /\ oa_key a = None).
Proof.
  destruct routing_run as (rs & o & Hrs & Ho & Hadd & Hst & Hleft & _).
  exists rs, o. split; [exact Hrs|]. split; [exact Ho|].
  destruct (routing_end_to_end _ _ _ _ _ _ _ Hrs Ho) as (C1 & C2 & _).
  assert (Hrows : forall id r, In id [0; 1; 2; 3; 4] -> get_ovr (b_store (rs_b rs)) id = Ok r -> o_rows r <> []).
  { intros id r Hid Hget E. apply to_scaffold_rows_nil_iff in E.
    assert (Hin : In (re_show_result r) (map re_show_result (b_store (rs_b rs)))).
    { apply in_map. eapply get_ovr_In. exact Hget. }
    rewrite Hst in Hin. unfold re_show_result at 1 in Hin. rewrite E in Hin. cbn [map] in Hin.
    repeat (destruct Hin as [Hin | Hin]; [discriminate Hin|]). destruct Hin. }
  assert (Hget : forall id x, nth_error (map re_show_result (b_store (rs_b rs))) (Z.to_nat id) = Some x ->
            exists r, get_ovr (b_store (rs_b rs)) id = Ok r /\ re_show_result r = x).
  { intros id x Hx. rewrite nth_error_map in Hx. unfold get_ovr.
    destruct (nth_error (b_store (rs_b rs)) (Z.to_nat id)) as [r|]; [|discriminate].
    injection Hx as <-. exists r. split; reflexivity. }
  split; [|split; [|split; [|split]]].
  - intros id r Hid Hg. apply (C1 id r); [rewrite Hadd; exact Hid | exact Hg | eapply Hrows; eassumption].
  - destruct (Hget 1 _ ltac:(rewrite Hst; reflexivity)) as (r & Hg & Er).
    unfold re_show_result in Er. injection Er as Eft _ _ _.
    destruct (contaminant_bait_routed _ _ _ _ _ _ _ 1 r Hrs Ho) as (a & sc & pre & suf & K);
      [rewrite Hadd; cbn; auto | exact Hg | apply (Hrows 1); [cbn; auto | exact Hg] | | | |].
    + rewrite Eft. cbn. auto.
    + rewrite Eft. intros [X|[X|[X|[]]]]; discriminate X.
    + rewrite Eft. intros [X|[X|[X|[]]]]; discriminate X.
    + exists r, a, sc, pre, suf. split; [exact Hg | exact K].
  - destruct (Hget 4 _ ltac:(rewrite Hst; reflexivity)) as (r & Hg & Er).
    unfold re_show_result in Er. injection Er as Eft _ _ _.
    destruct (haplotig_bait_routed _ _ _ _ _ _ _ 4 r Hrs Ho) as (a & sc & pre & suf & K);
      [rewrite Hadd; cbn; auto 10 | exact Hg | apply (Hrows 4); [cbn; auto 10 | exact Hg] | | |].
    + rewrite Eft. cbn. auto.
    + rewrite Eft. intros [X|[X|[X|[]]]]; discriminate X.
    + exists r, a, sc, pre, suf. split; [exact Hg | exact K].
  - destruct (Hget 0 _ ltac:(rewrite Hst; reflexivity)) as (r & Hg & Er).
    unfold re_show_result in Er. injection Er as _ Et Eh _.
    destruct (C1 0 r) as (a & sc & pre & suf & Ha & Hsc & R & _ & _ & K);
      [rewrite Hadd; cbn; auto | exact Hg | apply (Hrows 0); [cbn; auto | exact Hg] |].
    rewrite Et, Eh in K.
    exists r, a, sc, pre, suf. repeat split; auto.
  - intros l Hl.
    assert (Hin : In (re_show_sc l) (map re_show_sc (rs_left rs))) by (apply in_map; exact Hl).
    rewrite Hleft in Hin. destruct Hin as [Hin | []].
    unfold re_show_sc in Hin. injection Hin as _ Et Eh Er.
    destruct (C2 l Hl) as (a & sc & pre & suf & Ha & Hsc & R & _ & _ & K).
    { intros E. rewrite E in Er. discriminate Er. }
    rewrite <- Et, <- Eh in K. exists a, sc, pre, suf. repeat split; auto.
Qed.

(* Tags and haplotypes share the key space of the assemblies dict: an input
   contig named Haplotig_ctg_1 that the map does not mention is left over
   with haplotype "Haplotig" (taken from the name prefix), no tag, and is filed
   under the key "Haplotig" -- as a curated assembly, and counted as a haplotig
   removal.  Hence the second alternative of [assembly_members]. *)
Example key_space_shared :
  exists o a sc,
    remap repaired re_gap (s "SUPER_") (10, 1) [(s "scaffold_1", [ex_F "Haplotig_ctg_1" 1 1000 1 []])] [] = Ok o
    /\ out_asms o = [a] /\ oa_key a = Some (s "Haplotig") /\ oa_curated a = true
    /\ oa_scaffolds a = [sc] /\ sc_tag sc = None /\ sc_hap sc = Some (s "Haplotig")
    /\ haplotig_removals o = 1.
Proof.
  eexists. eexists. eexists. split; [vm_compute; reflexivity|]. vm_compute. repeat split.
Qed.

(* ------------------------------------------------------------ summary *)
Print Assumptions routing_end_to_end.
Print Assumptions labels_from_label_scaffold.
Print Assumptions routing_from_tags.
Print Assumptions result_tag_spec.
Print Assumptions result_tag_by_bait_tags.
Print Assumptions routing_by_bait_tags.
Print Assumptions haplotig_bait_routed.
Print Assumptions contaminant_bait_routed.
Print Assumptions assembly_members.
Print Assumptions primary_assembly_members.
Print Assumptions routing_run.
Print Assumptions routing_run_applies.
Print Assumptions key_space_shared.
