(* The second half of the pipeline (fusing, ChrNamer, grouping, sorting,
   statistics) completes when the ChrNamer items are well interleaved
   two-haplotype items.  No axioms. *)
From Tola Require Import Py.Base Py.Dec Py.Sort Model.Fragment Model.Scaffold Model.Lookup
  Model.OverlapResult Model.NaturalKey Model.Namer Model.Remap Model.RemapSpec
  Proofs.BaseLemmas Proofs.OverlapResult Proofs.RemapHead Proofs.PipelineInv Proofs.CoreKept
  Proofs.Junctions Proofs.Routing Proofs.NaturalKey Proofs.Naming Proofs.UniqueNames
  Proofs.CompletionLookup Proofs.CompletionTail Proofs.Completion Proofs.MultiHap Proofs.CompletionPainted.
From Tola Require Proofs.RemapFinal Proofs.RemapTail Proofs.JoinGaps.
From Coq Require Import Lia ZifyBool Permutation.

Lemma Forall2_In_r {A B} (R : A -> B -> Prop) : forall a b, Forall2 R a b ->
  forall y, In y b -> exists x, In x a /\ R x y.
Proof.
  induction 1 as [|x y a b Hxy Hab IH]; intros z Hz; [destruct Hz|]. destruct Hz as [->|Hz].
  - exists x. split; [left; reflexivity | exact Hxy].
  - destruct (IH z Hz) as (x' & I & H'). exists x'. split; [right; exact I | exact H'].
Qed.

Lemma two_hap_tail_total : forall g prefix input rs fused0 h1 h2 p0 pairs,
  Forall (fun f => f_strand f = 1 \/ f_strand f = -1) (in_frags input) ->
  fuse_all repaired g rs = Ok fused0 ->
  (forall sc, In sc fused0 -> spm (sc_rows sc)) ->
  h1 <> h2 ->
  chr_items (map (prefix_rank2 prefix) fused0) = items_of (map (chrom2 h1 h2) (p0 :: pairs)) ->
  Forall (fun p => sub_ok (map (prefix_rank2 prefix) fused0) (fst p) /\ sub_ok (map (prefix_rank2 prefix) fused0) (snd p)) (p0 :: pairs) ->
  NoDup (map snd (items_of (map (chrom2 h1 h2) (p0 :: pairs)))) ->
  exists o, assemblies_with_scaffolds_fused repaired g prefix input rs = Ok o.
Proof.
  intros g prefix input rs fused0 h1 h2 p0 pairs Hpm HF Hrows0 Hne Hitems Hsub Hidx.
  unfold assemblies_with_scaffolds_fused. rewrite HF. cbn [bind].
  change (map (fun sc => if (sc_rank sc =? 2) && negb (starts_with prefix (sc_name sc))
                         then with_name sc (prefix ++ sc_name sc) else sc) fused0)
    with (map (prefix_rank2 prefix) fused0).
  set (fused1 := map (prefix_rank2 prefix) fused0) in *.
  change (flat_map _ (combine (seq 0 (length fused1)) fused1)) with (chr_items fused1).
  rewrite Hitems.
  destruct (two_hap_names prefix fused1 h1 h2 p0 pairs Hne Hsub Hidx) as (fused & NC & [Hsame _] & _).
  rewrite NC. cbn [bind].
  assert (Hrows : forall sc, In sc fused -> spm (sc_rows sc)).
  { intros sc Isc. destruct (Forall2_In_r _ _ _ Hsame sc Isc) as (sc1 & I1 & Er & _). rewrite Er.
    apply in_map_iff in I1 as (sc0 & <- & I0).
    destruct (prefix_rank2_sbn prefix sc0) as (Rr & _). rewrite Rr. exact (Hrows0 sc0 I0). }
  change (fold_left _ fused []) with (fold_left RemapTail.group_step fused []).
  match goal with |- context [mapM ?f ?a0] => destruct (mapM_total f a0) as (asms & MM) end.
  { intros [k [cur scs]] _. destruct (smart_sort_total sc_rank sc_name scs) as (r & Er & _).
    rewrite Er. cbn [bind]. eexists; reflexivity. }
  rewrite MM. cbn [bind].
  destruct (make_stats_total repaired (number_input input 0) asms) as ([[breaks joins] per] & MS).
  { intros isc Iisc. pose proof (number_input_pm input 0 Hpm) as Hp. rewrite Forall_forall in Hp |- *.
    intros f If. apply Hp. unfold in_frags. apply in_flat_map. exists isc. split; assumption. }
  { intros a sc Ia Isc. apply spm_frags, Hrows.
    destruct (mapM_In _ _ _ MM a Ia) as ([k [cur scs]] & I & E).
    destruct (smart_sort_total sc_rank sc_name scs) as (r & Er & Pr). rewrite Er in E. cbn [bind] in E.
    injection E as <-. cbn [oa_scaffolds] in Isc.
    pose proof (Permutation_in _ Pr Isc) as Is. rewrite (grouping_spec _ _ _ _ I) in Is.
    apply filter_In in Is as [Is _]. exact Is. }
  rewrite MS. eexists. reflexivity.
Qed.

Print Assumptions two_hap_tail_total.
