(* C02, the Pretext-order clause and the layout of the output: every output
   scaffold is the join -- with the join gap between consecutive pieces -- of
   the pieces that carry its key, IN THE ORDER OF THE PRETEXT FILE: first the
   results of the baits in the order in which the map lists them (Pretext
   scaffolds in file order, baits in row order; a bait whose result came out
   empty contributes nothing), each presented as is or -- bait on the minus
   strand -- reversed with every strand inverted, then the left-over
   scaffolds in input order. *)
From Tola Require Import Py.Base Py.Sort Model.Fragment Model.Scaffold Model.Lookup
  Model.OverlapResult Model.OvrSpec Model.NaturalKey Model.Namer Model.Remap Model.RemapSpec
  Proofs.BaseLemmas Proofs.Lookup Proofs.OverlapResult Proofs.RemapHead Proofs.JoinGaps
  Proofs.PipelineInv Proofs.CoreKept.
From Coq Require Import Lia ZifyBool Permutation.

(* sub-sequence: l1 is obtained from l2 by deleting elements *)
Inductive subseq {A} : list A -> list A -> Prop :=
| ss_nil : subseq [] []
| ss_skip x l1 l2 : subseq l1 l2 -> subseq l1 (x :: l2)
| ss_keep x l1 l2 : subseq l1 l2 -> subseq (x :: l1) (x :: l2).

Definition pretext_order_statement : Prop :=
  forall g prefix bpt input pretext rs fused,
  remap_to_input repaired g prefix bpt input pretext = Ok rs ->
  fuse_all repaired g rs = Ok fused ->
  exists results,
    (* the results that take part, in store order ... *)
    mapM (get_ovr (b_store (rs_b rs))) (b_added (rs_b rs)) = Ok results
    (* ... whose baits are a sub-sequence of the baits of the map in FILE ORDER *)
    /\ subseq (map o_bait results) (baits_of pretext)
    (* every fused scaffold = join, in that order, of the pieces carrying its key *)
    /\ let pieces := map piece_of_result results ++ map (fun sc => (sc, false)) (rs_left rs) in
       forall b, In b fused ->
         sc_rows b = join_rows g (map (fun p => sc_rows (fst p))
                                      (filter (fun p => match sc_rows (fst p) with
                                                        | [] => false
                                                        | _ => fuse_key_eqb (piece_key repaired (fst p))
                                                                            (piece_key repaired b)
                                                        end) pieces)).

From Tola Require Proofs.Routing.
From Tola Require Import Proofs.CoreKeptResolver Proofs.CoreKeptLookup.

(* ====================================================================
   Part A: sub-sequences
   ==================================================================== *)
Lemma subseq_nil_l {A} : forall l : list A, subseq [] l.
Proof. induction l as [|x l IH]; [apply ss_nil | apply ss_skip; exact IH]. Qed.

Lemma subseq_refl {A} : forall l : list A, subseq l l.
Proof. induction l as [|x l IH]; [apply ss_nil | apply ss_keep; exact IH]. Qed.

Lemma subseq_app {A} : forall (a b c d : list A),
  subseq a b -> subseq c d -> subseq (a ++ c) (b ++ d).
Proof.
  intros a b c d Hab Hcd. induction Hab as [|x l1 l2 Hs IH|x l1 l2 Hs IH]; cbn [app].
  - exact Hcd.
  - apply ss_skip. exact IH.
  - apply ss_keep. exact IH.
Qed.

Lemma subseq_trans {A} : forall (a b c : list A), subseq a b -> subseq b c -> subseq a c.
Proof.
  intros a b c Hab Hbc. revert a Hab.
  induction Hbc as [|x l1 l2 Hs IH|x l1 l2 Hs IH]; intros a Hab.
  - exact Hab.
  - apply ss_skip. apply IH. exact Hab.
  - inversion Hab as [|y m1 m2 Hm|y m1 m2 Hm]; subst.
    + apply ss_skip. apply IH. exact Hm.
    + apply ss_keep. apply IH. exact Hm.
Qed.

Lemma subseq_map {A B} (g : A -> B) : forall l1 l2, subseq l1 l2 -> subseq (map g l1) (map g l2).
Proof.
  intros l1 l2 H. induction H as [|x l1 l2 Hs IH|x l1 l2 Hs IH]; cbn [map].
  - apply ss_nil.
  - apply ss_skip. exact IH.
  - apply ss_keep. exact IH.
Qed.

(* a sub-sequence keeps the relative order: a split of the short list is a
   split of the long one *)
Lemma subseq_split {A} : forall (l1 l2 : list A), subseq l1 l2 ->
  forall p x q, l1 = p ++ x :: q ->
  exists p' q', l2 = p' ++ x :: q' /\ subseq p p' /\ subseq q q'.
Proof.
  intros l1 l2 H. induction H as [|y l1 l2 Hs IH|y l1 l2 Hs IH]; intros p x q E.
  - destruct p; discriminate.
  - destruct (IH p x q E) as (p' & q' & -> & H1 & H2).
    exists (y :: p'), q'. split; [reflexivity|]. split; [apply ss_skip; exact H1 | exact H2].
  - destruct p as [|z p]; cbn [app] in E.
    + injection E as -> ->. exists [], l2. split; [reflexivity|]. split; [apply ss_nil | exact Hs].
    + injection E as -> ->. destruct (IH p x q eq_refl) as (p' & q' & -> & H1 & H2).
      exists (z :: p'), q'. split; [reflexivity|]. split; [apply ss_keep; exact H1 | exact H2].
Qed.

(* ====================================================================
   Part B: ascending id lists select a sub-sequence of the store
   ==================================================================== *)
Fixpoint asc (lo hi : Z) (l : list Z) : Prop :=
  match l with [] => True | x :: t => lo <= x < hi /\ asc (x + 1) hi t end.

Lemma asc_weaken lo lo' hi hi' : forall l, lo' <= lo -> hi <= hi' -> asc lo hi l -> asc lo' hi' l.
Proof.
  intros l. revert lo lo'. induction l as [|x t IH]; intros lo lo' Hlo Hhi H; cbn [asc] in *; [exact I|].
  destruct H as [Hx Ht]. split; [lia|]. apply (IH (x + 1) (x + 1)); [lia | exact Hhi | exact Ht].
Qed.

Lemma asc_snoc hi : forall l lo, lo <= hi -> asc lo hi l -> asc lo (hi + 1) (l ++ [hi]).
Proof.
  induction l as [|x t IH]; intros lo Hlo H; cbn [asc app] in *.
  - split; [lia | exact I].
  - destruct H as [Hx Ht]. split; [lia|]. apply IH; [lia | exact Ht].
Qed.

Lemma asc_lower lo hi : forall l, asc lo hi l -> Forall (fun x => lo <= x) l.
Proof.
  intros l. revert lo. induction l as [|x t IH]; intros lo H; cbn [asc] in H; constructor.
  - lia.
  - destruct H as [Hx Ht]. eapply Forall_impl; [|apply (IH (x + 1)); exact Ht].
    cbv beta. intros a Ha. lia.
Qed.

Lemma Forall2_impl_l {A B} (P Q : A -> B -> Prop) (R : A -> Prop) : forall l l',
  Forall R l -> (forall x y, R x -> P x y -> Q x y) -> Forall2 P l l' -> Forall2 Q l l'.
Proof.
  intros l l' HR Himp HF. induction HF as [|x y l l' Hxy HF IH]; constructor.
  - apply Himp; [inversion HR; assumption | exact Hxy].
  - apply IH. inversion HR; assumption.
Qed.

Definition sel_at {A} (st : list A) (off : Z) (id : Z) (r : A) : Prop :=
  nth_error st (Z.to_nat (id - off)) = Some r.

Lemma sel_at_shift {A} (a : A) st off id r :
  off + 1 <= id -> sel_at (a :: st) off id r -> sel_at st (off + 1) id r.
Proof.
  intros Hid H. unfold sel_at in *.
  replace (id - off) with (Z.succ (id - (off + 1))) in H by lia.
  rewrite Z2Nat.inj_succ in H by lia. cbn [nth_error] in H. exact H.
Qed.

Lemma asc_sel_subseq {A} : forall (st : list A) off hi ids rs,
  asc off hi ids -> Forall2 (sel_at st off) ids rs -> subseq rs st.
Proof.
  induction st as [|a st IH]; intros off hi ids rs Ha HF.
  - destruct HF as [|id r ids rs Hsel HF]; [apply ss_nil|].
    unfold sel_at in Hsel. destruct (Z.to_nat (id - off)); discriminate.
  - destruct HF as [|id r ids rs Hsel HF]; [apply subseq_nil_l|].
    cbn [asc] in Ha. destruct Ha as [Hid Ht].
    destruct (Z.eq_dec id off) as [E|N].
    + subst id. unfold sel_at in Hsel. rewrite Z.sub_diag in Hsel. cbn [Z.to_nat nth_error] in Hsel.
      injection Hsel as <-. apply ss_keep.
      apply (IH (off + 1) hi ids rs Ht).
      eapply Forall2_impl_l; [apply (asc_lower _ _ _ Ht) | | exact HF].
      cbv beta. intros x y Hx Hy. apply (sel_at_shift a); assumption.
    + apply ss_skip.
      assert (Ha' : asc (off + 1) hi (id :: ids)) by (cbn [asc]; split; [lia | exact Ht]).
      apply (IH (off + 1) hi (id :: ids) (r :: rs) Ha').
      eapply Forall2_impl_l; [apply (asc_lower _ _ _ Ha') | | constructor; [exact Hsel | exact HF]].
      cbv beta. intros x y Hx Hy. apply (sel_at_shift a); assumption.
Qed.

Lemma mapM_get_sel store : forall ids rs,
  mapM (get_ovr store) ids = Ok rs -> Forall2 (sel_at store 0) ids rs.
Proof.
  induction ids as [|id ids IH]; intros rs H; cbn [mapM] in H.
  - injection H as <-. constructor.
  - bind_inv H r Hr. bind_inv H rs' Hrs. injection H as <-. constructor; [|apply IH; exact Hrs].
    unfold sel_at. rewrite Z.sub_0_r. unfold get_ovr in Hr.
    destruct (nth_error store (Z.to_nat id)); [|discriminate]. injection Hr as ->. reflexivity.
Qed.

Lemma asc_results_subseq store ids rs hi :
  asc 0 hi ids -> mapM (get_ovr store) ids = Ok rs -> subseq rs store.
Proof.
  intros Ha H. eapply asc_sel_subseq; [exact Ha | apply mapM_get_sel; exact H].
Qed.

(* ====================================================================
   Part C: the lookups.  SB = baits of the store, in store order;
   OKA = b_added ascending and inside the store.
   ==================================================================== *)
Definition SBo (b : bstate) : list frag := map o_bait (b_store b).
Definition OKA (b : bstate) : Prop := asc 0 (zlen (b_store b)) (b_added b).

Lemma ds_bait r r' : discard_start r = Ok r' -> o_bait r' = o_bait r.
Proof.
  unfold discard_start. destruct (o_rows r) as [|d t]; [discriminate|].
  destruct (pop_gaps_front t (o_start r + row_len d)) as [rows' st]. intros H. injection H as <-. reflexivity.
Qed.

Lemma de_bait r r' : discard_end r = Ok r' -> o_bait r' = o_bait r.
Proof.
  unfold discard_end. destruct (rev (o_rows r)) as [|d t]; [discriminate|].
  destruct (pop_gaps_back_rev t (o_end r - row_len d)) as [rr en]. intros H. injection H as <-. reflexivity.
Qed.

Lemma trim_large_bait r e r' : trim_large_overhangs r e = Ok r' -> o_bait r' = o_bait r.
Proof.
  unfold trim_large_overhangs. intros H.
  destruct ((zlen (o_rows r) =? 1) && (f_len (o_bait r) >? e)) eqn:E0; [injection H as <-; reflexivity|].
  bind_inv H r1 Hr1.
  assert (B1 : o_bait r1 = o_bait r).
  { destruct (start_overhang r >? e) eqn:E1; [|injection Hr1 as <-; reflexivity].
    bind_inv Hr1 ov Hov. destruct (ov <? e) eqn:E2; [apply ds_bait; exact Hr1 | injection Hr1 as <-; reflexivity]. }
  rewrite <- B1.
  destruct (o_rows r1) as [|x0 t0] eqn:R1.
  - destruct ((start_overhang r >? e) && negb (zlen (o_rows r) =? 0)) eqn:E3; [injection H as <-; reflexivity|].
    destruct (end_overhang r1 >? e) eqn:E4.
    + bind_inv H ov Hov. injection H as <-. reflexivity.
    + injection H as <-. reflexivity.
  - destruct (end_overhang r1 >? e) eqn:E4; [|injection H as <-; reflexivity].
    bind_inv H ov Hov. destruct (ov <? e) eqn:E5; [apply de_bait; exact H | injection H as <-; reflexivity].
Qed.

Lemma zlen_snoc {A} (l : list A) x : zlen (l ++ [x]) = zlen l + 1.
Proof. unfold zlen. rewrite app_length. cbn [length]. lia. Qed.

Lemma zlen_nonneg {A} (l : list A) : 0 <= zlen l.
Proof. unfold zlen. lia. Qed.

Lemma one_bait_order inp err tags orig b bait b' :
  one_bait inp err tags orig b bait = Ok b' -> OKA b ->
  exists ext, SBo b' = SBo b ++ ext /\ subseq ext [bait] /\ OKA b'.
Proof.
  intros H HA. unfold one_bait in H.
  bind_inv H rows Hrows. bind_inv H fo Hfo.
  destruct fo as [fo|].
  2:{ injection H as <-. exists []. rewrite app_nil_r. split; [reflexivity|].
      split; [apply subseq_nil_l | exact HA]. }
  bind_inv H nl Hnl. destruct nl as [nm lab]. bind_inv H r1 Hr1.
  pose proof (trim_large_bait _ _ _ Hr1) as B1. cbn [set_labels ovr_of_found o_bait] in B1.
  exists [bait].
  assert (HA1 : asc 0 (zlen (b_store b ++ [r1])) (b_added b)).
  { rewrite zlen_snoc. eapply asc_weaken; [| |exact HA]; lia. }
  assert (HA2 : asc 0 (zlen (b_store b ++ [r1])) (b_added b ++ [zlen (b_store b)])).
  { rewrite zlen_snoc. apply asc_snoc; [apply zlen_nonneg | exact HA]. }
  destruct (o_rows r1) as [|x0 t0] eqn:Er1.
  - injection H as <-. unfold SBo, OKA. cbn [b_store b_added]. rewrite map_app. cbn [map]. rewrite B1.
    split; [reflexivity|]. split; [apply subseq_refl | exact HA1].
  - injection H as <-. unfold store_fragments_found.
    cbn [b_store b_added b_found b_multi b_namer b_cuts].
    destruct (fold_left _ _ _) as [found' multi'].
    unfold SBo, OKA. cbn [b_store b_added]. rewrite map_app. cbn [map]. rewrite B1.
    split; [reflexivity|]. split; [apply subseq_refl | exact HA2].
Qed.

Lemma baits_fold_order inp err tags orig : forall l b b',
  foldM (one_bait inp err tags orig) l b = Ok b' -> OKA b ->
  exists ext, SBo b' = SBo b ++ ext /\ subseq ext l /\ OKA b'.
Proof.
  induction l as [|bait l IH]; intros b b' H HA; cbn [foldM] in H.
  - injection H as <-. exists []. rewrite app_nil_r. split; [reflexivity|]. split; [apply ss_nil | exact HA].
  - bind_inv H b1 Hb1.
    destruct (one_bait_order _ _ _ _ _ _ _ Hb1 HA) as (e1 & E1 & S1 & A1).
    destruct (IH _ _ H A1) as (e2 & E2 & S2 & A2).
    exists (e1 ++ e2). rewrite E2, E1, <- app_assoc. split; [reflexivity|].
    split; [|exact A2]. change (bait :: l) with ([bait] ++ l). apply subseq_app; assumption.
Qed.

Lemma map_eq_zlen {A B} (g : A -> B) (l l' : list A) : map g l = map g l' -> zlen l = zlen l'.
Proof.
  intros E. unfold zlen. f_equal. rewrite <- (map_length g l), <- (map_length g l'), E. reflexivity.
Qed.

Lemma one_pretext_order inp err b psc b' :
  one_pretext_scaffold inp err b psc = Ok b' -> OKA b ->
  exists ext, SBo b' = SBo b ++ ext /\ subseq ext (frags_of (snd psc)) /\ OKA b'.
Proof.
  intros H HA. unfold one_pretext_scaffold in H. destruct psc as [pname prows]. cbn [snd].
  bind_inv H nm Hnm. bind_inv H b1 Hb1. bind_inv H st Hst. injection H as <-.
  assert (HA0 : OKA (with_namer b nm)) by exact HA.
  destruct (baits_fold_order _ _ _ _ _ _ _ Hb1 HA0) as (ext & E & S & A1).
  pose proof (rename_results_baits _ _ _ Hst) as HB.
  exists ext. unfold SBo, OKA in *. cbn [with_store with_namer b_store b_added] in *.
  rewrite HB. split; [exact E|]. split; [exact S|].
  rewrite (map_eq_zlen _ _ _ HB). exact A1.
Qed.

Lemma pretext_fold_order inp err : forall pretext b b',
  foldM (one_pretext_scaffold inp err) pretext b = Ok b' -> OKA b ->
  exists ext, SBo b' = SBo b ++ ext /\ subseq ext (baits_of pretext) /\ OKA b'.
Proof.
  induction pretext as [|psc pretext IH]; intros b b' H HA; cbn [foldM] in H.
  - injection H as <-. exists []. rewrite app_nil_r. split; [reflexivity|]. split; [apply ss_nil | exact HA].
  - bind_inv H b1 Hb1.
    destruct (one_pretext_order _ _ _ _ _ Hb1 HA) as (e1 & E1 & S1 & A1).
    destruct (IH _ _ H A1) as (e2 & E2 & S2 & A2).
    exists (e1 ++ e2). rewrite E2, E1, <- app_assoc. split; [reflexivity|].
    split; [|exact A2]. unfold baits_of. cbn [flat_map]. apply subseq_app; assumption.
Qed.

(* ====================================================================
   Part D: the later stages keep the baits of the store and b_added
   ==================================================================== *)
Lemma p_apply_baits st p st' : p_apply st p = Ok st' -> map o_bait st' = map o_bait st.
Proof.
  intros H. unfold p_apply in H. bind_inv H r Hr. bind_inv H r' Hr'. injection H as <-.
  eapply put_ovr_map; [exact Hr|].
  destruct (pr_kind p); [eapply ds_bait | eapply de_bait]; exact Hr'.
Qed.

Lemma fix_one_baits err st pl st' fx :
  fix_one err st pl = Ok (st', fx) -> map o_bait st' = map o_bait st.
Proof.
  intros H. apply fix_one_cases in H. destruct H as [[_ ->] | (p & _ & _ & H)]; [reflexivity|].
  eapply p_apply_baits. exact H.
Qed.

Lemma make_fixes_baits err : forall pls st st' fxs,
  make_fixes err st pls = Ok (st', fxs) -> map o_bait st' = map o_bait st.
Proof.
  induction pls as [|pl pls IH]; intros st st' fxs H; cbn [make_fixes] in H.
  - injection H as <- _. reflexivity.
  - bind_inv H r Hr. destruct r as [st1 fx]. bind_inv H r2 Hr2. destruct r2 as [st2 fxs2].
    injection H as <- _. rewrite (IH _ _ _ Hr2). eapply fix_one_baits. exact Hr.
Qed.

Lemma discard_loop_order err : forall fuel b b',
  discard_loop fuel err b = Ok b' -> SBo b' = SBo b /\ b_added b' = b_added b.
Proof.
  induction fuel as [|fuel IH]; intros b b' H; cbn [discard_loop] in H; [discriminate|].
  destruct (b_multi b) as [|k0 ks] eqn:Em; [injection H as <-; split; reflexivity|].
  bind_inv H pls Hpls. bind_inv H r Hr. destruct r as [st fixes].
  pose proof (make_fixes_baits _ _ _ _ _ Hr) as HB.
  destruct fixes as [|fx0 fixes].
  - injection H as <-. unfold SBo. cbn [with_store b_store b_added]. split; [exact HB | reflexivity].
  - bind_inv H fm Hfm. destruct fm as [found multi'].
    destruct (IH _ _ H) as [E1 E2]. unfold SBo in *. cbn [b_store b_added] in *.
    split; [rewrite E1; exact HB | exact E2].
Qed.

Lemma cut_fragments_added c b k b' : cut_fragments c b k = Ok b' -> b_added b' = b_added b.
Proof.
  intros H. unfold cut_fragments in H.
  destruct (aget key_eqb (b_found b) k) as [[f ids]|]; [|discriminate].
  bind_inv H keyed Hkeyed. bind_inv H r Hr. destruct r as [st subs].
  bind_inv H u Hu. injection H as <-. reflexivity.
Qed.

Lemma cut_remaining_order c b b' :
  cut_remaining_overhangs c b = Ok b' -> SBo b' = SBo b /\ b_added b' = b_added b.
Proof.
  intros H. split; [exact (cut_remaining_baits _ _ _ H)|].
  unfold cut_remaining_overhangs in H. bind_inv H b1 Hb1. injection H as <-. cbn [b_added].
  apply (foldM_inv (cut_fragments c) (fun b0 => b_added b0 = b_added b))
    with (l := b_multi b) (s := b); [|reflexivity | exact Hb1].
  intros s0 a s1 Hs0 Hf. rewrite (cut_fragments_added _ _ _ _ Hf). exact Hs0.
Qed.

(* all stages: the final store has the baits of the store after the lookups,
   a sub-sequence of the baits of the map, and b_added is ascending *)
Lemma remap_order c g prefix bpt input pretext rs :
  remap_to_input c g prefix bpt input pretext = Ok rs ->
  subseq (SBo (rs_b rs)) (baits_of pretext) /\ OKA (rs_b rs).
Proof.
  intros H. unfold remap_to_input in H.
  destruct (has_dup_names (map fst input)) eqn:Edup; [discriminate|].
  cbv zeta in H.
  bind_inv H b1 Hb1. bind_inv H b2 Hb2. bind_inv H b3 Hb3. bind_inv H st Hst.
  bind_inv H nl Hnl. injection H as <-.
  assert (HA0 : OKA (mkB [] [] [] [] (new_namer prefix) 0)) by exact I.
  destruct (pretext_fold_order _ _ _ _ _ Hb1 HA0) as (ext & E1 & S1 & A1).
  cbn [SBo b_store map app] in E1.
  destruct (discard_loop_order _ _ _ _ Hb2) as [E2 D2].
  destruct (cut_remaining_order _ _ _ Hb3) as [E3 D3].
  pose proof (rename_results_baits _ _ _ Hst) as E4.
  unfold SBo, OKA in *. cbn [rs_b with_namer with_store b_store b_added].
  assert (EB : map o_bait st = map o_bait (b_store b1)) by congruence.
  split.
  - rewrite EB. unfold SBo in E1. rewrite E1. exact S1.
  - rewrite (map_eq_zlen _ _ _ EB), D3, D2. exact A1.
Qed.

(* ====================================================================
   Part E: the fusion dictionary: keys are distinct and every scaffold is
   stored under its own key
   ==================================================================== *)
Lemma aset_fst_In {K V} (keqb : K -> K -> bool) : forall (d : list (K * V)) k v x,
  In x (map fst (aset keqb d k v)) -> x = k \/ In x (map fst d).
Proof.
  induction d as [|[k0 v0] d IH]; intros k v x H; cbn [aset] in H.
  - cbn [map fst In] in H. destruct H as [H | []]. left. symmetry. exact H.
  - destruct (keqb k k0) eqn:E; cbn [map fst In] in *.
    + right. exact H.
    + destruct H as [H | H]; [right; left; exact H|].
      destruct (IH _ _ _ H) as [H1 | H1]; [left; exact H1 | right; right; exact H1].
Qed.

Lemma aset_fst_nodup {K V} (keqb : K -> K -> bool) :
  (forall a b, keqb a b = true <-> a = b) ->
  forall (d : list (K * V)) k v, NoDup (map fst d) -> NoDup (map fst (aset keqb d k v)).
Proof.
  intros Heq. induction d as [|[k0 v0] d IH]; intros k v Hnd; cbn [aset].
  - cbn [map fst]. constructor; [intros []|constructor].
  - cbn [map fst] in Hnd. inversion Hnd as [|? ? Hn Hnd']; subst.
    destruct (keqb k k0) eqn:E; cbn [map fst].
    + constructor; assumption.
    + constructor; [|apply IH; exact Hnd'].
      intros Hin. apply aset_fst_In in Hin. destruct Hin as [Hin | Hin]; [|contradiction].
      subst k0. assert (E' : keqb k k = true) by (apply Heq; reflexivity). congruence.
Qed.

Lemma fuse_step_nodup c g acc p :
  NoDup (map fst acc) -> NoDup (map fst (fuse_step c g acc p)).
Proof.
  intros H. destruct p as [sc isr]. unfold fuse_step.
  destruct (sc_rows sc) as [|r0 rows0]; [exact H|].
  apply (aset_fst_nodup fuse_key_eqb JoinGaps.fuse_key_eqb_eq). exact H.
Qed.

Lemma fuse_fold_nodup c g : forall pieces acc,
  NoDup (map fst acc) -> NoDup (map fst (fold_left (fuse_step c g) pieces acc)).
Proof.
  induction pieces as [|p t IH]; intros acc H; cbn [fold_left]; [exact H|].
  apply IH. apply fuse_step_nodup. exact H.
Qed.

Lemma piece_key_repaired sc : piece_key repaired sc = Routing.key_of_piece sc.
Proof. reflexivity. Qed.

(* a scaffold of the fused list is stored under its own key *)
Lemma fused_In_aget g pieces b :
  In b (map snd (fold_left (fuse_step repaired g) pieces [])) ->
  aget fuse_key_eqb (fold_left (fuse_step repaired g) pieces []) (piece_key repaired b) = Some b.
Proof.
  intros Hin. apply in_map_iff in Hin. destruct Hin as ([k b0] & E & Hin). cbn [snd] in E. subst b0.
  assert (Hnd : NoDup (map fst (fold_left (fuse_step repaired g) pieces [])))
    by (apply fuse_fold_nodup; constructor).
  pose proof (In_aget fuse_key_eqb JoinGaps.fuse_key_eqb_eq _ _ _ Hnd Hin) as Hget.
  pose proof (Routing.fold_fuse_keeps_keys g pieces [] Routing.fused_ok_nil k b Hget) as Hk.
  rewrite piece_key_repaired, Hk. exact Hget.
Qed.

(* ====================================================================
   The theorem
   ==================================================================== *)
Theorem pretext_order : pretext_order_statement.
Proof.
  intros g prefix bpt input pretext rs fused H HF.
  destruct (remap_order _ _ _ _ _ _ _ H) as [HS HA].
  unfold fuse_all in HF. bind_inv HF results Hres. cbv zeta in HF. injection HF as <-.
  exists results. split; [exact Hres|]. split.
  - eapply subseq_trans; [|exact HS]. unfold SBo. apply subseq_map.
    eapply asc_results_subseq; [exact HA | exact Hres].
  - cbv zeta. intros b Hb. apply fused_In_aget in Hb.
    apply (fuse_fold_is_join g _ _ _ Hb).
Qed.

(* ====================================================================
   The user-facing form: two results that go to the same output scaffold
   appear there in the order of their baits in the Pretext file
   ==================================================================== *)
(* the fusion key of a stored result: tag, haplotype, name *)
Definition result_key (r : ovr) : fuse_key := piece_key repaired (fst (piece_of_result r)).

Lemma result_key_eq r : result_key r = (o_tag r, o_hap r, o_name r).
Proof. reflexivity. Qed.

Lemma mapM_app_inv {A B} (f : A -> res B) : forall a b rs,
  mapM f (a ++ b) = Ok rs -> exists ra rb, rs = ra ++ rb /\ mapM f a = Ok ra /\ mapM f b = Ok rb.
Proof.
  induction a as [|x a IH]; intros b rs H; cbn [app mapM] in H.
  - exists [], rs. split; [reflexivity|]. split; [reflexivity | exact H].
  - bind_inv H y Hy. bind_inv H ys Hys. injection H as <-.
    destruct (IH _ _ Hys) as (ra & rb & -> & Ha & Hb).
    exists (y :: ra), rb. split; [reflexivity|]. split; [|exact Hb].
    cbn [mapM]. rewrite Hy. cbn [bind]. rewrite Ha. reflexivity.
Qed.

Lemma mapM_cons_inv {A B} (f : A -> res B) x t rs :
  mapM f (x :: t) = Ok rs -> exists y ys, rs = y :: ys /\ f x = Ok y /\ mapM f t = Ok ys.
Proof.
  intros H. cbn [mapM] in H. bind_inv H y Hy. bind_inv H ys Hys. injection H as <-.
  exists y, ys. split; [reflexivity|]. split; assumption.
Qed.

Lemma join_rows_app_r g : forall X Y, Y <> [] -> exists pre, join_rows g (X ++ Y) = pre ++ join_rows g Y.
Proof.
  induction X as [|a X IH]; intros Y HY; cbn [app].
  - exists []. reflexivity.
  - destruct (IH Y HY) as (pre & E).
    destruct (X ++ Y) as [|q t] eqn:EXY.
    + exfalso. apply app_eq_nil in EXY. destruct EXY as [_ EY]. contradiction.
    + rewrite join_rows_cons2, E. exists (a ++ RG g :: pre). rewrite <- app_assoc. reflexivity.
Qed.

Lemma join_rows_cons_ne g x T : T <> [] -> join_rows g (x :: T) = x ++ RG g :: join_rows g T.
Proof. intros HT. destruct T as [|q t]; [congruence | reflexivity]. Qed.

Lemma join_rows_cons_hd g x T : exists suf, join_rows g (x :: T) = x ++ suf.
Proof.
  destruct T as [|q t].
  - exists []. cbn [join_rows]. rewrite app_nil_r. reflexivity.
  - exists (RG g :: join_rows g (q :: t)). reflexivity.
Qed.

Lemma join_rows_two g X x Y y Z :
  exists pre mid post, join_rows g (X ++ x :: Y ++ y :: Z) = pre ++ x ++ mid ++ y ++ post.
Proof.
  destruct (join_rows_app_r g X (x :: Y ++ y :: Z)) as (pre & E1); [discriminate|].
  assert (HT : Y ++ y :: Z <> []) by (destruct Y; discriminate).
  destruct (join_rows_app_r g Y (y :: Z)) as (pre2 & E2); [discriminate|].
  destruct (join_rows_cons_hd g y Z) as (suf & E3).
  exists pre, (RG g :: pre2), suf.
  rewrite E1, (join_rows_cons_ne g x _ HT), E2, E3. reflexivity.
Qed.

Lemma join_two_taken {P} g (f : P -> bool) (rw : P -> list row) A x B y C :
  f x = true -> f y = true ->
  exists pre mid post,
    join_rows g (map rw (filter f (A ++ x :: B ++ y :: C))) = pre ++ rw x ++ mid ++ rw y ++ post.
Proof.
  intros Hx Hy.
  rewrite filter_app. cbn [filter]. rewrite Hx. rewrite filter_app. cbn [filter]. rewrite Hy.
  rewrite map_app. cbn [map]. rewrite map_app. cbn [map].
  apply join_rows_two.
Qed.

Lemma takes_result r K : o_rows r <> [] -> result_key r = K -> takes K (piece_of_result r) = true.
Proof.
  intros Hne <-. unfold takes.
  assert (Hn : to_scaffold_rows r <> []) by (rewrite to_scaffold_rows_nil_iff; exact Hne).
  change (sc_rows (fst (piece_of_result r))) with (to_scaffold_rows r).
  destruct (to_scaffold_rows r) as [|x0 t0]; [congruence|]. apply fuse_key_eqb_refl.
Qed.

Theorem pretext_order_pairs :
  forall g prefix bpt input pretext rs fused l1 id1 l2 id2 l3 r1 r2,
  remap_to_input repaired g prefix bpt input pretext = Ok rs ->
  fuse_all repaired g rs = Ok fused ->
  (* id1 precedes id2 in b_added *)
  b_added (rs_b rs) = l1 ++ id1 :: l2 ++ id2 :: l3 ->
  get_ovr (b_store (rs_b rs)) id1 = Ok r1 ->
  get_ovr (b_store (rs_b rs)) id2 = Ok r2 ->
  o_rows r1 <> [] -> o_rows r2 <> [] ->
  result_key r1 = result_key r2 ->
  exists results b,
    mapM (get_ovr (b_store (rs_b rs))) (b_added (rs_b rs)) = Ok results
    (* the output scaffold with that key ... *)
    /\ In b fused /\ piece_key repaired b = result_key r1
    (* ... presents r1 before r2 *)
    /\ (exists pre mid post,
          sc_rows b = pre ++ to_scaffold_rows r1 ++ mid ++ to_scaffold_rows r2 ++ post)
    (* the bait of r1 precedes the bait of r2 among the baits of the results, at
       the positions of id1 and id2 in b_added ... *)
    /\ (exists p1 p2 p3,
          map o_bait results = p1 ++ o_bait r1 :: p2 ++ o_bait r2 :: p3
          /\ length p1 = length l1 /\ length p2 = length l2)
    (* ... which are a sub-sequence of the baits of the map in file order, so the
       bait of r1 is listed before the bait of r2 in the Pretext file *)
    /\ subseq (map o_bait results) (baits_of pretext)
    /\ (exists q1 q2 q3, baits_of pretext = q1 ++ o_bait r1 :: q2 ++ o_bait r2 :: q3).
Proof.
  intros g prefix bpt input pretext rs fused l1 id1 l2 id2 l3 r1 r2 H HF Hadd Hg1 Hg2 Hn1 Hn2 HK.
  destruct (pretext_order g prefix bpt input pretext rs fused H HF) as (results & Hres & Hsub & Hjoin).
  cbv zeta in Hjoin.
  (* the results split like b_added *)
  pose proof Hres as Hres'. rewrite Hadd in Hres'.
  destruct (mapM_app_inv _ _ _ _ Hres') as (R1 & T1 & ER & HR1 & HT1).
  destruct (mapM_cons_inv _ _ _ _ HT1) as (r1' & T2 & ET1 & Hg1' & HT2).
  destruct (mapM_app_inv _ _ _ _ HT2) as (R2 & T3 & ET2 & HR2 & HT3).
  destruct (mapM_cons_inv _ _ _ _ HT3) as (r2' & R3 & ET3 & Hg2' & HR3).
  assert (E1 : r1' = r1) by congruence. assert (E2 : r2' = r2) by congruence.
  subst r1' r2' T3 T2 T1.
  (* the pieces *)
  set (L := map (fun sc => (sc, false)) (rs_left rs)) in *.
  assert (EP : map piece_of_result results ++ L
               = map piece_of_result R1 ++ piece_of_result r1
                 :: map piece_of_result R2 ++ piece_of_result r2 :: (map piece_of_result R3 ++ L)).
  { rewrite ER, map_app. cbn [map]. rewrite map_app. cbn [map].
    rewrite <- app_assoc. cbn [app]. rewrite <- app_assoc. reflexivity. }
  (* the fused scaffold with the key of r1 *)
  pose proof HF as HF'. unfold fuse_all in HF'. rewrite Hres in HF'. cbn [bind] in HF'. cbv zeta in HF'.
  fold L in HF'. injection HF' as HF'.
  assert (Hin1 : In (fst (piece_of_result r1), true) (map piece_of_result results ++ L)).
  { rewrite EP. apply in_or_app. right. left. reflexivity. }
  assert (Hne1 : sc_rows (fst (piece_of_result r1)) <> []).
  { change (to_scaffold_rows r1 <> []). rewrite to_scaffold_rows_nil_iff. exact Hn1. }
  destruct (Routing.routing_gen g _ [] _ _ Routing.fused_ok_nil Hin1 Hne1)
    as (b & _ & _ & Hget & _).
  pose proof (Routing.fold_fuse_keeps_keys g _ [] Routing.fused_ok_nil _ _ Hget) as Hkb.
  assert (Hb : In b fused).
  { rewrite <- HF'. apply (aget_In fuse_key_eqb JoinGaps.fuse_key_eqb_eq) in Hget.
    apply in_map_iff. exists (Routing.key_of_piece (fst (piece_of_result r1)), b).
    split; [reflexivity | exact Hget]. }
  assert (Hkey : piece_key repaired b = result_key r1) by exact Hkb.
  exists results, b. split; [exact Hres|]. split; [exact Hb|]. split; [exact Hkey|].
  split; [|split; [|split; [exact Hsub|]]].
  - specialize (Hjoin b Hb). fold L in Hjoin.
    change (sc_rows b = join_rows g (map (fun p => sc_rows (fst p))
                                         (filter (takes (piece_key repaired b))
                                                 (map piece_of_result results ++ L)))) in Hjoin.
    rewrite EP, Hkey in Hjoin.
    destruct (join_two_taken g (takes (result_key r1)) (fun p => sc_rows (fst p))
                (map piece_of_result R1) (piece_of_result r1)
                (map piece_of_result R2) (piece_of_result r2)
                (map piece_of_result R3 ++ L))
      as (pre & mid & post & EJ).
    + apply takes_result; [exact Hn1 | reflexivity].
    + apply takes_result; [exact Hn2 | symmetry; exact HK].
    + exists pre, mid, post. rewrite Hjoin. exact EJ.
  - exists (map o_bait R1), (map o_bait R2), (map o_bait R3).
    split; [|split].
    + rewrite ER, map_app. cbn [map]. rewrite map_app. reflexivity.
    + rewrite map_length. apply (mapM_ok_length _ _ _ HR1).
    + rewrite map_length. apply (mapM_ok_length _ _ _ HR2).
  - assert (EB : map o_bait results
                 = map o_bait R1 ++ o_bait r1 :: (map o_bait R2 ++ o_bait r2 :: map o_bait R3)).
    { rewrite ER, map_app. cbn [map]. rewrite map_app. reflexivity. }
    destruct (subseq_split _ _ Hsub _ _ _ EB) as (q1 & q' & Eq & _ & Hq').
    destruct (subseq_split _ _ Hq' _ _ _ eq_refl) as (q2 & q3 & Eq' & _ & _).
    exists q1, q2, q3. rewrite Eq, Eq'. reflexivity.
Qed.

(* ====================================================================
   A concrete run.  The input scaffold_1 is ctg1 (1..100), a gap (101..300),
   ctg2 (301..400).  The map has ONE Pretext scaffold that lists the piece
   301..400 FIRST and the piece 1..100 second.  Both results get the same
   key, so they are fused into one output scaffold; by [pretext_order_pairs]
   the rows of the piece listed first in the map (ctg2, the SECOND in the
   input's coordinate order) come before the rows of the other (ctg1).
   ==================================================================== *)
Definition po_F (nm : string) (id a b st : Z) : row := RF (mkFrag id (list_ascii_of_string nm) a b st []).
Arguments po_F nm%string_scope id a b st.
Definition po_dg : gap := mkGap 200 (s "scaffold").
Definition po_inp : list (str * list row) :=
  [(s "scaffold_1", [po_F "ctg1" (-1) 1 100 1; RG (mkGap 200 (s "scaffold")); po_F "ctg2" (-1) 1 100 1])].
Definition po_ptx : list (str * list row) :=
  [(s "Scaffold_1", [po_F "scaffold_1" (-1) 301 400 1; RG (mkGap 100 (s "scaffold"));
                     po_F "scaffold_1" (-1) 1 100 1])].

Example pretext_order_example :
  exists rs fused ra rb b,
    remap_to_input repaired po_dg (s "SUPER_") (1, 1) po_inp po_ptx = Ok rs
    /\ fuse_all repaired po_dg rs = Ok fused
    /\ b_added (rs_b rs) = [0; 1]
    /\ get_ovr (b_store (rs_b rs)) 0 = Ok ra /\ get_ovr (b_store (rs_b rs)) 1 = Ok rb
    (* ra: looked up at 301..400 = ctg2; rb: looked up at 1..100 = ctg1 *)
    /\ (f_start (o_bait ra), f_end (o_bait ra)) = (301, 400)
    /\ (f_start (o_bait rb), f_end (o_bait rb)) = (1, 100)
    /\ to_scaffold_rows ra = [po_F "ctg2" 2 1 100 1]
    /\ to_scaffold_rows rb = [po_F "ctg1" 0 1 100 1]
    /\ In b fused
    /\ (exists pre mid post,
          sc_rows b = pre ++ to_scaffold_rows ra ++ mid ++ to_scaffold_rows rb ++ post)
    /\ (exists q1 q2 q3, baits_of po_ptx = q1 ++ o_bait ra :: q2 ++ o_bait rb :: q3).
Proof.
  assert (Erun0 : exists rs, remap_to_input repaired po_dg (s "SUPER_") (1, 1) po_inp po_ptx = Ok rs)
    by (vm_compute; eexists; reflexivity).
  destruct Erun0 as (rs & Erun).
  pose proof Erun as Ev. vm_compute in Ev. injection Ev as Ev. subst rs.
  match type of Erun with _ = Ok ?v => set (rs := v) in * end.
  destruct (fuse_all repaired po_dg rs) as [fused|e] eqn:Efuse; [|vm_compute in Efuse; discriminate].
  assert (G1 : exists ra, get_ovr (b_store (rs_b rs)) 0 = Ok ra) by (vm_compute; eexists; reflexivity).
  assert (G2 : exists rb, get_ovr (b_store (rs_b rs)) 1 = Ok rb) by (vm_compute; eexists; reflexivity).
  destruct G1 as (ra & Hga). destruct G2 as (rb & Hgb).
  assert (Hadd : b_added (rs_b rs) = [] ++ 0 :: [] ++ 1 :: []) by reflexivity.
  assert (Fa : Ok ra = get_ovr (b_store (rs_b rs)) 0) by (symmetry; exact Hga).
  assert (Fb : Ok rb = get_ovr (b_store (rs_b rs)) 1) by (symmetry; exact Hgb).
  vm_compute in Fa. vm_compute in Fb. injection Fa as Fa. injection Fb as Fb.
  assert (Hn1 : o_rows ra <> []) by (rewrite Fa; discriminate).
  assert (Hn2 : o_rows rb <> []) by (rewrite Fb; discriminate).
  assert (HK : result_key ra = result_key rb) by (rewrite Fa, Fb; reflexivity).
  destruct (pretext_order_pairs po_dg (s "SUPER_") (1, 1) po_inp po_ptx rs fused
              [] 0 [] 1 [] ra rb Erun Efuse Hadd Hga Hgb Hn1 Hn2 HK)
    as (results & b & _ & Hb & _ & Hrows & _ & _ & Hfile).
  exists rs, fused, ra, rb, b.
  split; [exact Erun|]. split; [exact Efuse|]. split; [reflexivity|].
  split; [exact Hga|]. split; [exact Hgb|].
  split; [rewrite Fa; reflexivity|]. split; [rewrite Fb; reflexivity|].
  split; [rewrite Fa; reflexivity|]. split; [rewrite Fb; reflexivity|].
  split; [exact Hb|]. split; [exact Hrows | exact Hfile].
Qed.

Print Assumptions pretext_order.
Print Assumptions pretext_order_pairs.
Print Assumptions pretext_order_example.
