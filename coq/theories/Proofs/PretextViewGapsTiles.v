(* PretextViewGaps, part 2: interval arithmetic on a tiling.  A contig span
   lo .. hi of a scaffold of length L that starts at or before the end E of
   the tiling meets a tile T for which neither dropping condition of
   trim_large_overhangs ([PretextViewGapsTrim.trim_keeps]) holds: the tile
   that contains lo, or -- when the contig sticks out of that tile on the
   right by more than the error length while overlapping it in less -- the
   tile after it, which is at least two texels (hence one error length) long
   and which the contig enters from the left with a start overhang below the
   error length. *)
From Tola Require Import Py.Base Model.Fragment Model.Remap Proofs.BaseLemmas Proofs.Completion.
From Tola Require Proofs.CompletionTiling.
From Coq Require Import Lia ZifyBool Permutation.

Lemma tiling_cover : forall l from E x, tiling l from E -> from <= x <= E ->
  exists t, In t l /\ f_start t <= x <= f_end t.
Proof.
  induction l as [|a l IH]; intros from E x H Hx; [contradiction|].
  destruct l as [|b t].
  - destruct H as (H1 & H2 & H3). exists a. split; [left; reflexivity | lia].
  - destruct H as (H1 & H2 & H3).
    destruct (Z_le_gt_dec x (f_end a)) as [Hle | Hgt].
    + exists a. split; [left; reflexivity | lia].
    + destruct (IH (f_end a + 1) E x H3 ltac:(lia)) as (u & Hu & Hb).
      exists u. split; [right; exact Hu | exact Hb].
Qed.

Section Tiles.
  Variables n d : Z.
  Hypothesis Hd : 0 < d.
  Hypothesis Hdn : d <= n.
  Let err := error_length (n, d).

  Lemma err_facts : d * (err - 1) <= n /\ n < d * err /\ 1 <= err.
  Proof.
    unfold err, error_length. cbn [fst snd].
    pose proof (Z.mul_div_le n d Hd) as H1.
    pose proof (Z.mul_succ_div_gt n d Hd) as H2.
    pose proof (Z.div_pos n d ltac:(lia) Hd) as H3.
    replace (1 + n / d - 1) with (n / d) by lia. split; [exact H1|]. split; lia.
  Qed.

  Lemma tiles_find sorted E L lo hi :
    tiling sorted 1 E -> d * Z.abs (E - L) < n ->
    (length sorted = 1%nat \/ Forall (fun b => 2 * n <= d * f_len b) sorted) ->
    1 <= lo <= hi -> hi <= L -> lo <= E ->
    exists T, In T sorted /\ lo <= f_end T /\ f_start T <= hi /\ 1 <= f_start T <= f_end T
      /\ ~ (f_start T - lo > err /\ Z.min (f_end T) hi - f_start T + 1 < err)
      /\ ~ (hi - f_end T > err /\ f_end T - Z.max (f_start T) lo + 1 < err).
  Proof.
    intros HT HE Hbig Hlo Hhi HloE.
    destruct err_facts as (Q1 & Q2 & Q3).
    pose proof (CompletionTiling.tiling_bounds _ _ _ HT) as Hbd. rewrite Forall_forall in Hbd.
    destruct (tiling_cover sorted 1 E lo HT ltac:(lia)) as (T & HinT & HsT).
    pose proof (Hbd T HinT) as BT. cbn beta in BT.
    destruct (Z_lt_dec err (hi - f_end T)) as [Hout | Hin].
    2: { exists T. split; [exact HinT|]. repeat split; lia. }
    destruct (Z_lt_dec (f_end T - lo + 1) err) as [Hsmall | Hok].
    2: { exists T. split; [exact HinT|]. repeat split; lia. }
    (* the contig sticks out of T on the right: T is not the last tile *)
    assert (HLE : L - E < err).
    { assert (d * (L - E) < d * err) by lia.
      apply (Z.mul_lt_mono_pos_l d); [exact Hd | assumption]. }
    assert (HltE : f_end T < E) by lia.
    destruct (CompletionTiling.tiling_next _ _ _ _ HT HinT HltE) as (T' & HinT' & HsT').
    pose proof (Hbd T' HinT') as BT'. cbn beta in BT'.
    assert (Hlen : err <= f_len T').
    { destruct Hbig as [Hone | Hall].
      - exfalso. destruct sorted as [|x [|y t]]; try discriminate Hone.
        destruct HinT as [<- | []]. destruct HinT' as [<- | []]. lia.
      - rewrite Forall_forall in Hall. pose proof (Hall T' HinT') as Hb. cbn beta in Hb.
        assert (d * err <= d * f_len T') by lia.
        apply (Z.mul_le_mono_pos_l _ _ d Hd). assumption. }
    unfold f_len in Hlen.
    exists T'. split; [exact HinT'|]. repeat split; lia.
  Qed.
End Tiles.

Print Assumptions tiles_find.
