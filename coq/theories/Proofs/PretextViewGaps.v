(* C07, second sentence, for maps PretextView can produce: on maps that TILE
   every scaffold they show (the hypotheses of Proofs.Completion), the third
   case of NeighbourGaps cannot arise -- a contig that no bait found lies
   entirely beyond the last texel of its scaffold (or its scaffold is absent
   from the map), so the never-found contigs of a scaffold form a suffix of its
   rows and no found contig lies between two of them.  Hence: every gap run
   between two consecutive fragments of an output scaffold is exactly the join
   gap or exactly the input gap run that separated the same two contigs. *)
From Tola Require Import Py.Base Py.Sort Model.Fragment Model.Scaffold Model.Lookup
  Model.OverlapResult Model.OvrSpec Model.NaturalKey Model.Namer Model.Remap Model.RemapSpec
  Proofs.BaseLemmas Proofs.Lookup Proofs.OverlapResult Proofs.RemapHead Proofs.PipelineInv
  Proofs.JoinGaps Proofs.NeighbourGaps Proofs.CoreKeptGood Proofs.CoreKeptResolver Proofs.CoreKeptLookup
  Proofs.CoreKept Proofs.Completion
  Proofs.PretextViewGapsTrim Proofs.PretextViewGapsTiles Proofs.PretextViewGapsKeys.
From Tola Require Proofs.RemapTail Proofs.CompletionTiling.
From Coq Require Import Lia ZifyBool Permutation.

Definition pretextview_gaps_statement : Prop :=
  forall g prefix n d input pretext o,
  0 < d -> d <= n ->
  Forall input_ok input ->
  NoDup (map fst input) ->
  NoDup (map key_of (in_frags input)) ->
  Forall (fun f => f_tags f = []) (in_frags input) ->
  Forall (fun p => exists b t, snd p = RF b :: t) pretext ->
  Forall (fun b => f_tags b = [] /\ (f_strand b = 1 \/ f_strand b = -1)
                   /\ In (f_name b) (map fst input)) (baits_of pretext) ->
  Forall (scaffold_tiled n d (baits_of pretext)) input ->
  remap repaired g prefix (n, d) input pretext = Ok o ->
  forall a sc x mid y,
    In a (out_asms o) -> In sc (oa_scaffolds a) -> consecutive (sc_rows sc) x mid y ->
    mid = [g] \/ same_neighbours input x mid y.

(* ======================================================================
   The proof.
   Proofs.PretextViewGapsTrim  : one lookup + trim_large_overhangs;
   Proofs.PretextViewGapsTiles : which tile keeps a contig;
   Proofs.PretextViewGapsKeys  : the keys of the found table.
   Here: (1) add_missing_scaffolds_from_input when the never-found contigs
   of a scaffold form a suffix of its rows, (2) in a tiling map they do,
   (3) the composition with Proofs.NeighbourGaps. *)

(* ------------------------- (1) never-found contigs forming a suffix *)
Section MissingSuffix.
  Variable found : list (fkey * (frag * list rid)).
  Variable g : gap.

  Definition NF (f : frag) : Prop := aget key_eqb found (key_of f) = None.

  (* every contig after a never-found contig is never-found *)
  Definition Suf (rows : list row) : Prop :=
    forall pre f post f', rows = pre ++ RF f :: post -> In (RF f') post -> NF f -> NF f'.

  Lemma Suf_tail r t : Suf (r :: t) -> Suf t.
  Proof. intros H pre f post f' E. apply (H (r :: pre) f post f'). rewrite E. reflexivity. Qed.

  Lemma missing_sep_gaps_id between :
    forallb is_gap_row between = true -> missing_sep repaired g between = between.
  Proof. intros H. unfold missing_sep. cbn [repaired fix_gap_run andb]. rewrite H. reflexivity. Qed.

  (* after a re-added contig, when only never-found contigs follow: the rows up
     to the next re-added contig are exactly the input rows *)
  Lemma lead_nf : forall rows between i j m y post,
    (forall f', In (RF f') rows -> NF f') -> forallb is_gap_row between = true ->
    j < i -> (j = i - 1 -> between = []) ->
    missing_rows repaired found g rows between i (Some j) = map RG m ++ RF y :: post ->
    exists post', between ++ rows = map RG m ++ RF y :: post'.
  Proof.
    induction rows as [|r t IH]; intros between i j m y post Hnf Hg Hj Hb E; cbn [missing_rows] in E.
    - destruct m; discriminate.
    - destruct r as [f|gg].
      + pose proof (Hnf f (or_introl eq_refl)) as Hf. unfold NF in Hf. rewrite Hf in E.
        assert (Es : (if negb (j =? i - 1) then missing_sep repaired g between else []) = between).
        { destruct (negb (j =? i - 1)) eqn:N; [apply missing_sep_gaps_id; exact Hg|].
          rewrite Hb by lia. reflexivity. }
        rewrite Es in E. destruct (gap_rows_map _ Hg) as (m0 & ->).
        apply gaps_then_frag_inj in E. destruct E as (-> & -> & _). exists t. reflexivity.
      + apply IH in E.
        * destruct E as (post' & E). exists post'. rewrite <- app_assoc in E. exact E.
        * intros f' Hf'. apply Hnf. right. exact Hf'.
        * rewrite forallb_app. cbn [forallb is_gap_row andb]. rewrite Hg. reflexivity.
        * lia.
        * intros; lia.
  Qed.

  Lemma missing_rows_suffix_gen : forall rows between i la x mid y,
    Suf rows -> consecutive (missing_rows repaired found g rows between i la) x mid y ->
    mid = [g] \/ consecutive rows x mid y.
  Proof.
    induction rows as [|r t IH]; intros between i la x mid y HS H; cbn [missing_rows] in H.
    - exfalso. eapply consecutive_not_nil. exact H.
    - assert (Hrec : forall between' la',
                consecutive (missing_rows repaired found g t between' (i + 1) la') x mid y ->
                mid = [g] \/ consecutive (r :: t) x mid y).
      { intros between' la' H'. destruct (IH _ _ _ _ _ _ (Suf_tail _ _ HS) H') as [E | Hc].
        - left. exact E.
        - right. apply consecutive_cons. exact Hc. }
      destruct r as [f|gg]; [|eapply Hrec; exact H].
      destruct (aget key_eqb found (key_of f)) eqn:Ef; [eapply Hrec; exact H|].
      match type of H with consecutive (?sep ++ _) _ _ _ =>
        assert (Hsep : forallb is_gap_row sep = true);
        [ destruct la as [la0|]; [destruct (negb (la0 =? i - 1)); [apply missing_sep_gaps|]|]; reflexivity
        | destruct (gap_rows_map _ Hsep) as (m0 & Em0); rewrite Em0 in H; clear Hsep Em0 ]
      end.
      apply consecutive_skip_gaps in H. apply consecutive_head in H.
      destruct H as [[-> (post & E)] | H]; [|eapply Hrec; exact H].
      apply lead_nf in E.
      + cbn [app] in E. destruct E as (post' & ->). right. exists [], post'. reflexivity.
      + intros f' Hf'. exact (HS [] f t f' eq_refl Hf' Ef).
      + reflexivity.
      + lia.
      + reflexivity.
  Qed.
End MissingSuffix.

Theorem missing_rows_suffix : forall found g rows x mid y,
  Suf found rows -> consecutive (missing_rows repaired found g rows [] 0 None) x mid y ->
  mid = [g] \/ consecutive rows x mid y.
Proof. intros found g rows x mid y. apply missing_rows_suffix_gen. Qed.

(* --------------------------------------- numbering keeps the row lengths *)
Lemma number_rows_lens : forall rows n, map row_len (fst (number_rows rows n)) = map row_len rows.
Proof.
  induction rows as [|r rows IH]; intros n; cbn [number_rows]; [reflexivity|].
  specialize (IH (n + 1)).
  destruct r as [f|g0]; destruct (number_rows rows (n + 1)) as [t' n']; cbn [fst map] in *;
    rewrite IH; reflexivity.
Qed.

Lemma number_input_lens : forall input n name rows, In (name, rows) (number_input input n) ->
  exists rows0, In (name, rows0) input /\ rows_len rows = rows_len rows0.
Proof.
  induction input as [|[nm rows0] input IH]; intros n name rows H; cbn [number_input] in H; [destruct H|].
  pose proof (number_rows_lens rows0 n) as Hl.
  destruct (number_rows rows0 n) as [rows1 n1]. cbn [fst] in Hl.
  destruct H as [E | H].
  - injection E as <- <-. exists rows0. split; [left; reflexivity|]. unfold rows_len. rewrite Hl. reflexivity.
  - destruct (IH _ _ _ H) as (r0 & Hin & E). exists r0. split; [right; exact Hin | exact E].
Qed.

(* --------------------- (2) in a tiling map the found contigs form a prefix *)
Lemma found_prefix n d prefix input pretext b1 :
  0 < d -> d <= n ->
  Forall input_ok input ->
  NoDup (map fst input) ->
  NoDup (map key_of (in_frags input)) ->
  Forall (scaffold_tiled n d (baits_of pretext)) input ->
  foldM (one_pretext_scaffold (number_input input 0) (error_length (n, d))) pretext
        (mkB [] [] [] [] (new_namer prefix) 0) = Ok b1 ->
  forall name rows pre f post f',
    In (name, rows) (number_input input 0) -> rows = pre ++ RF f :: post -> In (RF f') post ->
    In (key_of f') (map fst (b_found b1)) -> In (key_of f) (map fst (b_found b1)).
Proof.
  intros Hd Hdn Hin Hnm Hkeys0 Htile Hs1.
  set (inp := number_input input 0) in *. set (err := error_length (n, d)) in *.
  set (all := baits_of pretext) in *.
  destruct (number_input_spec input 0) as (Ek & Hidpos & Hids). fold inp in Ek, Hidpos, Hids.
  assert (Hkeys : NoDup (map key_of (in_frags inp))) by (rewrite Ek; exact Hkeys0).
  assert (Hnames : NoDup (map fst inp)) by (unfold inp; rewrite number_input_fst; exact Hnm).
  assert (Hpos0 : Forall (fun isc => pos_rows (snd isc)) input).
  { eapply Forall_impl; [|exact Hin]. intros isc (_ & H & _). exact H. }
  pose proof (number_input_pos input 0 Hpos0) as Hposr. fold inp in Hposr.
  destruct (pretext_FK inp err all pretext _ b1 (FK_init inp err all _) Hs1) as (_ & K1 & K2).
  (* the tiling of a scaffold that some bait names *)
  assert (Tiles : forall name rows bait, In (name, rows) inp -> In bait all -> f_name bait = name ->
            exists sorted E,
              Permutation (filter (fun b => str_eqb (f_name b) name) all) sorted
              /\ tiling sorted 1 E /\ d * Z.abs (E - rows_len rows) < n
              /\ (length sorted = 1%nat \/ Forall (fun b => 2 * n <= d * f_len b) sorted)).
  { intros name rows bait Hsrc Hba Hname.
    destruct (number_input_lens _ _ _ _ Hsrc) as (rows0 & Hin0 & El).
    rewrite Forall_forall in Htile. pose proof (Htile _ Hin0) as Ht.
    unfold scaffold_tiled in Ht. cbv zeta in Ht. cbn [fst snd] in Ht. fold all in Ht.
    destruct Ht as [Hnil | (sorted & E & HP & HT & HE & Hbig)].
    - exfalso.
      assert (Hm : In bait (filter (fun b => str_eqb (f_name b) name) all)).
      { apply filter_In. split; [exact Hba | apply str_eqb_eq; exact Hname]. }
      rewrite Hnil in Hm. destruct Hm.
    - exists sorted, E. rewrite El. repeat split; assumption. }
  intros name rows pre f post f' Hsrc E Hf' Hk'.
  pose proof (Hposr _ _ Hsrc) as Hp.
  (* f' was looked up by a bait of this scaffold *)
  destruct (K2 _ Hk') as (bait & g0 & Hba & Ekey & (rows' & fo & Hrows' & Hfo & Hg0)).
  pose proof (input_rows_In inp _ _ Hrows') as Hsrc'.
  pose proof (Hposr _ _ Hsrc') as Hp'.
  destruct (Tiles _ _ bait Hsrc' Hba eq_refl) as (sorted' & E' & HP' & HT' & _).
  assert (Hbs' : In bait sorted').
  { eapply Permutation_in; [exact HP'|]. apply filter_In. split; [exact Hba | apply str_eqb_refl]. }
  pose proof (CompletionTiling.tiling_bounds _ _ _ HT') as Hbd'. rewrite Forall_forall in Hbd'.
  pose proof (Hbd' bait Hbs') as Bb. cbn beta in Bb.
  assert (Hbv : 1 <= f_start bait <= f_end bait) by lia.
  pose proof (find_overlaps_lookup _ _ _ _ Hp' Hbv Hfo) as Hl.
  destruct (lookup_row_pos _ _ _ _ _ Hp' Hl Hg0) as (a' & c' & Erows' & Hpos').
  assert (Hf'in : In (RF f') rows).
  { rewrite E. apply in_or_app. right. right. exact Hf'. }
  assert (Hg0in : In (RF g0) rows').
  { rewrite Erows'. apply in_or_app. right. left. reflexivity. }
  assert (Eg : g0 = f').
  { eapply (NoDup_map_inj key_of); [exact Hkeys | | | symmetry; exact Ekey].
    - unfold in_frags. apply in_flat_map. exists (f_name bait, rows'). split; [exact Hsrc'|].
      cbn [snd]. apply In_frags_of_iff. exact Hg0in.
    - unfold in_frags. apply in_flat_map. exists (name, rows). split; [exact Hsrc|].
      cbn [snd]. apply In_frags_of_iff. exact Hf'in. }
  subst g0.
  pose proof (same_src inp Hids _ _ _ _ f' Hsrc' Hsrc Hg0in Hf'in) as Esrc.
  injection Esrc as Ename Erows. rewrite Erows in Erows'.
  (* the place of f' in the scaffold is unique *)
  apply in_split in Hf'. destruct Hf' as (p1 & p2 & Epost).
  assert (E2 : rows = (pre ++ RF f :: p1) ++ RF f' :: p2).
  { rewrite E, Epost, <- app_assoc. reflexivity. }
  pose proof (src_nodup_g f_id inp _ _ Hids Hsrc) as Hndr.
  assert (Ea' : a' = pre ++ RF f :: p1).
  { eapply (split_unique (RF f')); [| |rewrite <- Erows'; exact E2].
    - apply (nodup_ids_notin a' f' c'). rewrite <- Erows'. exact Hndr.
    - apply (nodup_ids_notin (pre ++ RF f :: p1) f' p2). rewrite <- E2. exact Hndr. }
  (* lengths *)
  assert (Hpp : pos_rows pre /\ 1 <= f_len f /\ pos_rows p1 /\ pos_rows post).
  { rewrite E in Hp. apply pos_rows_app in Hp. destruct Hp as [P1 P2].
    unfold pos_rows in P2. apply Forall_cons_iff in P2. destruct P2 as [Pf Pp]. cbn [row_len] in Pf.
    split; [exact P1|]. split; [exact Pf|]. split; [|exact Pp].
    rewrite Epost in Pp. apply pos_rows_app in Pp. tauto. }
  destruct Hpp as (Ppre & Pf & Pp1 & Ppost).
  pose proof (pos_rows_len_nonneg _ Ppre) as Npre.
  pose proof (pos_rows_len_nonneg _ Pp1) as Np1.
  pose proof (pos_rows_len_nonneg _ Ppost) as Npost.
  assert (La' : rows_len a' = rows_len pre + f_len f + rows_len p1).
  { rewrite Ea', rows_len_app, rows_len_cons. cbn [row_len]. lia. }
  assert (Lrows : rows_len rows = rows_len pre + f_len f + rows_len post).
  { rewrite E, rows_len_app, rows_len_cons. cbn [row_len]. lia. }
  (* the tile that keeps f *)
  destruct (Tiles _ _ bait Hsrc Hba Ename) as (sorted & E0 & HP & HT & HE & Hbig).
  assert (Hbs : In bait sorted).
  { eapply Permutation_in; [exact HP|]. apply filter_In. split; [exact Hba | apply str_eqb_eq; exact Ename]. }
  pose proof (CompletionTiling.tiling_bounds _ _ _ HT) as Hbd. rewrite Forall_forall in Hbd.
  pose proof (Hbd bait Hbs) as Bb0. cbn beta in Bb0.
  destruct (tiles_find n d Hd Hdn sorted E0 (rows_len rows) (rows_len pre + 1) (rows_len pre + f_len f)
              HT HE Hbig ltac:(lia) ltac:(lia) ltac:(lia))
    as (T & HTs & M1 & M2 & HTv & N1 & N2).
  fold err in N1, N2.
  assert (HTm : In T (filter (fun b => str_eqb (f_name b) name) all)).
  { eapply Permutation_in; [apply Permutation_sym; exact HP | exact HTs]. }
  apply filter_In in HTm. destruct HTm as [HTa HTn]. apply str_eqb_eq in HTn.
  destruct (K1 T HTa) as [[] | HK]. apply HK.
  (* T keeps f *)
  assert (Hne : rows <> []) by (rewrite E; intros X; destruct pre; discriminate X).
  destruct (find_overlaps_spec rows (f_start T) (f_end T) Hne Hp HTv) as (r & Er & Hr).
  destruct (split_span rows pre (RF f) post E) as (Hnth & Hss & Hse). cbn [row_len] in Hse.
  destruct r as [foT|].
  2: { exfalso. cbn [lookup_spec] in Hr. apply (Hr (length pre)); [exists f; exact Hnth|].
       unfold meets. rewrite Hss, Hse. lia. }
  exists rows, foT. split.
  { rewrite HTn. unfold input_rows. rewrite (In_aget str_eqb str_eqb_eq inp name rows Hnames Hsrc). reflexivity. }
  split; [exact Er|].
  intros r0 r1 B R S0 E1 Htl.
  destruct (lookup_split rows (f_start T) (f_end T) foT pre f post Hr E ltac:(lia) ltac:(lia))
    as (a1 & a2 & c1 & c2 & Ea & Ec & Efo & Es & Ee).
  assert (La : rows_len pre = rows_len a1 + rows_len a2) by (rewrite Ea, rows_len_app; reflexivity).
  apply (trim_keeps err r0 r1 a2 f c1 (rows_len pre + 1) (rows_len pre + f_len f)).
  - rewrite R. exact Efo.
  - rewrite S0, Es. lia.
  - rewrite E1, Ee. lia.
  - lia.
  - rewrite B. exact M1.
  - rewrite B. exact M2.
  - rewrite B. exact N1.
  - rewrite B. exact N2.
  - exact Htl.
Qed.

(* ------------------------------------------------------ (3) the theorem *)
Theorem pretextview_gaps : pretextview_gaps_statement.
Proof.
  intros g prefix n d input pretext o Hd Hdn Hin Hnm Hkeys0 Hunt Hpre Hb Htile H a sc x mid y Ha Hsc Hc.
  assert (Hpos : Forall (fun isc => pos_rows (snd isc)) input).
  { eapply Forall_impl; [|exact Hin]. intros isc (_ & Hp & _). exact Hp. }
  unfold remap in H. bind_inv H rs Hrs.
  destruct (RemapTail.assemblies_out_perm _ _ _ _ _ _ H) as (fused0 & fused & F & R & P).
  assert (Hinf : In sc fused).
  { eapply Permutation_in; [exact P|]. apply in_flat_map. exists a. split; assumption. }
  assert (Hr : In (sc_rows sc) (map sc_rows fused0)) by (rewrite <- R; apply in_map; exact Hinf).
  apply in_map_iff in Hr. destruct Hr as (sc0 & E & Hsc0). rewrite <- E in Hc.
  destruct (neighbour_gaps_fused _ _ _ _ _ _ _ Hpos Hrs F sc0 Hsc0) as [_ Hg].
  destruct (Hg x mid y Hc) as [Hm | [Hn | [_ (lsc & Hl & Hcl)]]].
  - left. exact Hm.
  - right. eapply same_neighbours_number. exact Hn.
  - (* inside a left-over scaffold: the never-found contigs are a suffix *)
    destruct (remap_to_input_found _ _ _ _ _ _ Hrs) as (_ & b1 & found & Hb1 & Hk & HLO).
    destruct (HLO lsc Hl) as ([name rows] & Hisc & Erows). cbn [snd] in Erows.
    rewrite Erows in Hcl. apply missing_rows_suffix in Hcl.
    + destruct Hcl as [-> | Hcc]; [left; reflexivity | right].
      apply (same_neighbours_number input 0). exists (name, rows), x, y. split; [exact Hisc|].
      left. cbn [snd]. split; [exact Hcc|]. split; apply piece_of_refl.
    + intros pre f post f' Er Hf' Hnf. unfold NF in *.
      destruct (aget key_eqb found (key_of f')) as [v|] eqn:Ef'; [exfalso | reflexivity].
      apply (aget_None key_eqb key_eqb_eq) in Hnf. apply Hnf. apply Hk.
      eapply (found_prefix n d prefix input pretext b1 Hd Hdn Hin Hnm Hkeys0 Htile Hb1 name rows pre f post f');
        [exact Hisc | exact Er | exact Hf'|].
      apply Hk. apply (aget_In key_eqb key_eqb_eq) in Ef'. apply (in_map fst) in Ef'. exact Ef'.
Qed.

(* ============================================================== an instance *)
(* Proofs.Completion.ThreePieces with two more contigs beyond the last texel:
   A(100,+) gap(10) B(300,-) gap(10) C(100,+) gap(1) D(1,+) E(1,-), 523 bp,
   texel 3.5 bp; the map ends at 520.  D and E are found by no bait: they are
   re-added as a left-over scaffold, directly adjacent as in the input, and
   fused after the last piece with the join gap. *)
Module Beyond.
  Import ThreePieces.
  Definition g1 := mkGap 1 (s "scaffold").
  Definition D := mkFrag 0 (s "cD") 1 1 1 [].
  Definition E := mkFrag 0 (s "cE") 1 1 (-1) [].
  Definition input := [(s "scaf1", [RF A; RG g10; RF B; RG g10; RF C; RG g1; RF D; RF E])].
  (* as they appear in the output (numbered) *)
  Definition A' := mkFrag 0 (s "cA") 1 100 (-1) [].
  Definition D' := mkFrag 6 (s "cD") 1 1 1 [].
  Definition E' := mkFrag 7 (s "cE") 1 1 (-1) [].
  Definition out : list row :=
    [RF (mkFrag 4 (s "cC") 1 100 (-1) []); RG g10;
     RF (mkFrag (-1) (s "cB") 1 60 1 [s "Cut"]); RG g10;
     RF (mkFrag (-2) (s "cB") 61 210 (-1) [s "Cut"]); RG g10;
     RF (mkFrag (-2) (s "cB") 211 300 1 [s "Cut"]); RG g10;
     RF A'; RG g10; RF D'; RF E'].
End Beyond.

Example pretextview_gaps_instance :
  exists o, remap repaired ThreePieces.g10 (s "SUPER_") (7, 2) Beyond.input ThreePieces.pretext = Ok o
    /\ (exists a sc, In a (out_asms o) /\ In sc (oa_scaffolds a) /\ sc_rows sc = Beyond.out
          (* the join gap before the left-over contigs *)
          /\ consecutive (sc_rows sc) Beyond.A' [ThreePieces.g10] Beyond.D'
          (* two left-over contigs, directly adjacent as in the input *)
          /\ consecutive (sc_rows sc) Beyond.D' [] Beyond.E')
    (* and the theorem, for this run *)
    /\ (forall a sc x mid y,
          In a (out_asms o) -> In sc (oa_scaffolds a) -> consecutive (sc_rows sc) x mid y ->
          mid = [ThreePieces.g10] \/ same_neighbours Beyond.input x mid y).
Proof.
  assert (Hrun : exists o, remap repaired ThreePieces.g10 (s "SUPER_") (7, 2) Beyond.input ThreePieces.pretext = Ok o
                           /\ map sc_rows (flat_map oa_scaffolds (out_asms o)) = [Beyond.out]).
  { eexists. split; vm_compute; reflexivity. }
  destruct Hrun as (o & Hrun & Hm). exists o. split; [exact Hrun|]. split.
  - destruct (rows_in_output o Beyond.out) as (a & sc & Ha & Hsc & Esc); [rewrite Hm; left; reflexivity|].
    exists a, sc. split; [exact Ha|]. split; [exact Hsc|]. split; [exact Esc|]. rewrite Esc. split.
    + eexists _, [RF Beyond.E']. unfold Beyond.out.
      match goal with |- ?l = _ => change l with (firstn 8 l ++ skipn 8 l) end. reflexivity.
    + eexists _, []. unfold Beyond.out.
      match goal with |- ?l = _ => change l with (firstn 10 l ++ skipn 10 l) end. reflexivity.
  - apply (pretextview_gaps ThreePieces.g10 (s "SUPER_") 7 2 Beyond.input ThreePieces.pretext o).
    + lia.
    + lia.
    + constructor; [|constructor]. unfold input_ok. cbn [snd Beyond.input].
      split; [discriminate|]. split; [repeat constructor; cbn; lia|].
      split; [eexists _, _; reflexivity|].
      split; [exists Beyond.E, [RF ThreePieces.A; RG ThreePieces.g10; RF ThreePieces.B; RG ThreePieces.g10;
                                RF ThreePieces.C; RG Beyond.g1; RF Beyond.D]; reflexivity|].
      repeat (apply Forall_cons; [split; cbn; lia|]). apply Forall_nil.
    + cbn. repeat constructor; cbn; intuition discriminate.
    + cbn. repeat constructor; cbn; intuition discriminate.
    + repeat constructor.
    + repeat constructor; eexists _, _; reflexivity.
    + cbn. repeat (apply Forall_cons; [split; [reflexivity|split; [cbn; lia | cbn; auto]]|]). apply Forall_nil.
    + constructor; [|constructor]. right.
      exists [ThreePieces.b1; ThreePieces.b2; ThreePieces.b3], 520.
      split.
      { replace (filter _ _) with (rev [ThreePieces.b1; ThreePieces.b2; ThreePieces.b3])
          by (vm_compute; reflexivity).
        apply Permutation_sym, Permutation_rev. }
      split; [cbn; lia|]. split; [vm_compute; reflexivity|].
      right. repeat constructor; cbn; lia.
    + exact Hrun.
Qed.

Print Assumptions missing_rows_suffix.
Print Assumptions found_prefix.
Print Assumptions pretextview_gaps_instance.
Print Assumptions pretextview_gaps.
