(* Deep cuts, part 2: the per-result predicate K for one source fragment f
   that two abutting baits b1 | b2 both overlap in at least 3 error lengths:
   the result of b1 keeps f as its LAST row (untouched, ending where f ends),
   the result of b2 keeps f as its FIRST row.  K holds after the lookup and
   survives every justified discard, hence (Proofs.CoreKeptHeld) it holds of
   every stored result when the cuts begin. *)
From Tola Require Import Py.Base Py.Sort Model.Fragment Model.Scaffold Model.Lookup
  Model.OverlapResult Model.OvrSpec Model.NaturalKey Model.Namer Model.Remap Model.RemapSpec
  Proofs.BaseLemmas Proofs.Lookup Proofs.OverlapResult Proofs.RemapHead Proofs.PipelineInv
  Proofs.CoreKeptGood Proofs.CoreKeptResolver Proofs.CoreKeptLookup Proofs.CoreKeptHeld.
From Coq Require Import Lia ZifyBool.

#[local] Hint Rewrite rows_len_app rows_len_cons rows_len_nil rows_len_rev : rl.

Lemma In_unique_name (inp : list (str * list row)) n a b :
  NoDup (map fst inp) -> In (n, a) inp -> In (n, b) inp -> a = b.
Proof.
  intros Hn Ha Hb.
  pose proof (In_aget str_eqb str_eqb_eq inp n a Hn Ha) as E1.
  pose proof (In_aget str_eqb str_eqb_eq inp n b Hn Hb) as E2. congruence.
Qed.

Lemma nodup_ids_notin_r a f c :
  NoDup (map f_id (frags_of (a ++ RF f :: c))) -> ~ In (RF f) c.
Proof.
  intros H Hin. rewrite frags_of_app, frags_of_RF, map_app in H. cbn [map] in H.
  apply NoDup_remove_2 in H. apply H. apply in_or_app. right.
  apply in_map. apply In_frags_of_iff. exact Hin.
Qed.

(* ------------------------------------------------ discards, by their shape *)
Lemma discard_start_bait r r' : discard_start r = Ok r' -> o_bait r' = o_bait r /\ o_end r' = o_end r.
Proof.
  unfold discard_start. destruct (o_rows r) as [|d t]; [discriminate|].
  destruct (pop_gaps_front t (o_start r + row_len d)) as [rows' st]. intros H. injection H as <-.
  split; reflexivity.
Qed.

Lemma discard_end_bait r r' : discard_end r = Ok r' -> o_bait r' = o_bait r /\ o_start r' = o_start r.
Proof.
  unfold discard_end. destruct (rev (o_rows r)) as [|d t]; [discriminate|].
  destruct (pop_gaps_back_rev t (o_end r - row_len d)) as [rr en]. intros H. injection H as <-.
  split; reflexivity.
Qed.

Lemma discard_start_shape r r' g t' f :
  o_rows r = RF g :: t' ++ [RF f] -> discard_start r = Ok r' ->
  (o_rows r' = [RF f] /\ all_gaps t' /\ o_start r' = o_start r + f_len g + rows_len t')
  \/ (exists gaps m rest', t' = gaps ++ RF m :: rest' /\ o_rows r' = RF m :: rest' ++ [RF f]).
Proof.
  intros Er H. unfold discard_start in H. rewrite Er in H. cbn [row_len] in H.
  destruct (split_gaps t') as (gaps & rest & Et & Hg & Hrest).
  destruct Hrest as [-> | (m & rest' & ->)].
  - rewrite app_nil_r in Et. subst t'. rewrite pop_front_gaps in H by exact Hg.
    injection H as <-. left. cbn [set_span_rows o_rows o_start]. split; [reflexivity|]. split; [exact Hg | lia].
  - subst t'. rewrite <- app_assoc in H. cbn [app] in H. rewrite pop_front_gaps in H by exact Hg.
    injection H as <-. right. exists gaps, m, rest'. split; reflexivity.
Qed.

Lemma discard_end_shape r r' f t' g :
  o_rows r = RF f :: t' ++ [RF g] -> discard_end r = Ok r' ->
  (o_rows r' = [RF f] /\ all_gaps t' /\ o_end r' = o_end r - f_len g - rows_len t')
  \/ (exists rest' m gaps, t' = rest' ++ RF m :: gaps /\ o_rows r' = RF f :: rest' ++ [RF m]).
Proof.
  intros Er H. unfold discard_end in H. rewrite Er in H.
  change (RF f :: t' ++ [RF g]) with ((RF f :: t') ++ [RF g]) in H. rewrite rev_unit in H.
  cbn [rev row_len] in H.
  destruct (split_gaps_back t') as (rest & gaps & Et & Hg & Hrest).
  assert (Hg' : all_gaps (rev gaps)) by (apply Forall_rev; exact Hg).
  destruct Hrest as [-> | (rest' & m & ->)].
  - cbn [app] in Et. subst t'. rewrite pop_back_gaps in H by exact Hg'.
    injection H as <-. left. cbn [set_span_rows o_rows o_end rev app].
    split; [reflexivity|]. split; [exact Hg|]. rewrite rows_len_rev. lia.
  - subst t'. rewrite rev_app_distr, rev_unit in H. rewrite <- app_assoc in H. cbn [app] in H.
    rewrite pop_back_gaps in H by exact Hg'. injection H as <-. right.
    exists rest', m, gaps. split; [rewrite <- app_assoc; reflexivity|].
    cbn [set_span_rows o_rows rev]. rewrite rev_app_distr. cbn [rev app].
    rewrite rev_involutive. reflexivity.
Qed.

Section DeepK.
  Variable inp : list (str * list row).
  Variable err : Z.
  Variable all : list frag.
  Hypothesis Hids : NoDup (map f_id (in_frags inp)).
  Hypothesis Hidpos : Forall (fun f => 0 <= f_id f) (in_frags inp).
  Hypothesis Hnames : NoDup (map fst inp).
  Hypothesis Hposr : forall name src, In (name, src) inp -> pos_rows src.
  Hypothesis Herr : 1 <= err.
  Hypothesis Hall : Forall (fun b => 1 <= f_start b <= f_end b) all.

  Variables b1 b2 : frag.
  Variable src a0 c0 : list row.
  Variable f : frag.
  Hypothesis Hb1 : In b1 all.
  Hypothesis Hb2 : In b2 all.
  Hypothesis Hname : f_name b1 = f_name b2.
  Hypothesis Habut : f_end b1 + 1 = f_start b2.
  Hypothesis Hsrc : In (f_name b1, src) inp.
  Hypothesis Esrc : src = a0 ++ RF f :: c0.
  Let lo := rows_len a0 + 1.
  Let hi := rows_len a0 + f_len f.
  Hypothesis Hov1 : 3 * err <= Z.min (f_end b1) hi - Z.max (f_start b1) lo + 1.
  Hypothesis Hov2 : 3 * err <= Z.min (f_end b2) hi - Z.max (f_start b2) lo + 1.

  Definition K1 (r : ovr) : Prop :=
    o_bait r = b1 ->
    o_end r = hi
    /\ ((o_rows r = [RF f] /\ o_start r = lo)
        \/ exists g t', o_rows r = RF g :: t' ++ [RF f] /\ f_id g <> f_id f).
  Definition K2 (r : ovr) : Prop :=
    o_bait r = b2 ->
    o_start r = lo
    /\ ((o_rows r = [RF f] /\ o_end r = hi)
        \/ exists t' g, o_rows r = RF f :: t' ++ [RF g] /\ f_id g <> f_id f).
  Definition KK (r : ovr) : Prop := K1 r /\ K2 r.

  Lemma b1_valid : 1 <= f_start b1 <= f_end b1.
  Proof. rewrite Forall_forall in Hall. apply Hall. exact Hb1. Qed.
  Lemma b2_valid : 1 <= f_start b2 <= f_end b2.
  Proof. rewrite Forall_forall in Hall. apply Hall. exact Hb2. Qed.

  Lemma Hsrc2 : In (f_name b2, src) inp.
  Proof. rewrite <- Hname. exact Hsrc. Qed.

  Lemma src_pos : pos_rows src.
  Proof. eapply Hposr. exact Hsrc. Qed.

  Lemma f_len_pos : 1 <= f_len f.
  Proof.
    apply (pos_rows_In src (RF f) src_pos). rewrite Esrc. apply in_or_app. right. left. reflexivity.
  Qed.

  Lemma lo_hi : hi = lo + f_len f - 1.
  Proof. unfold lo, hi. lia. Qed.

  Lemma facts : lo <= f_end b1 /\ f_start b2 <= hi /\ lo <= hi.
  Proof. pose proof f_len_pos. pose proof b1_valid. pose proof b2_valid. unfold lo, hi in *. lia. Qed.

  Lemma src_nodup_ids : NoDup (map f_id (frags_of src)).
  Proof. apply (src_nodup_g f_id inp _ _ Hids Hsrc). Qed.

  Lemma f_in : In f (in_frags inp).
  Proof.
    unfold in_frags. apply in_flat_map. exists (f_name b1, src). split; [exact Hsrc|]. cbn [snd].
    apply In_frags_of_iff. rewrite Esrc. apply in_or_app. right. left. reflexivity.
  Qed.

  Lemma f_id_nonneg : 0 <= f_id f.
  Proof. rewrite Forall_forall in Hidpos. apply Hidpos. exact f_in. Qed.

  Lemma src_frag_same g : In (RF g) src -> f_id g = f_id f -> g = f.
  Proof.
    intros Hg E. apply (id_inj inp Hids); [|exact f_in | exact E].
    unfold in_frags. apply in_flat_map. exists (f_name b1, src). split; [exact Hsrc|]. cbn [snd].
    apply In_frags_of_iff. exact Hg.
  Qed.

  Lemma at_pos_f : at_pos src f lo.
  Proof. exists a0, c0. split; [exact Esrc | reflexivity]. Qed.

  Lemma KK_ext r r' :
    o_bait r' = o_bait r -> o_rows r' = o_rows r -> o_start r' = o_start r -> o_end r' = o_end r ->
    KK r -> KK r'.
  Proof. intros E0 E1 E2 E3. unfold KK, K1, K2. rewrite E0, E1, E2, E3. tauto. Qed.

  (* ------------------------------------------------------------ the lookup *)
  Let k := length a0.

  Lemma k_facts : nth_error src k = Some (RF f) /\ span_start src k = lo /\ span_end src k = hi.
  Proof.
    destruct (split_span _ _ _ _ Esrc) as (H1 & H2 & H3). cbn [row_len] in H3.
    split; [exact H1|]. unfold lo, hi, k. split; lia.
  Qed.

  Lemma k_lt : (k < length src)%nat.
  Proof. apply nth_error_Some. destruct k_facts as (H & _). fold k in H. congruence. Qed.

  Lemma K1_init fo :
    lookup_spec src (f_start b1) (f_end b1) (Some fo) -> K1 (ovr_of_found b1 fo).
  Proof.
    intros (i & j & L & R & S1 & E1 & (o1 & Ho1) & (o2 & Ho2) & Mi & Mj & U) _.
    cbn [ovr_of_found o_rows o_start o_end].
    destruct k_facts as (Hk & Hks & Hke). pose proof facts as (F1 & F2 & F3).
    pose proof b1_valid as V1. pose proof b2_valid as V2. pose proof src_pos as Hp.
    assert (Mk : meets src (f_start b1) (f_end b1) k) by (unfold meets; lia).
    pose proof (U k (ex_intro _ f Hk) Mk) as Lk.
    assert (Ej : j = k).
    { destruct (Nat.eq_dec j k) as [E|N]; [exact E|]. exfalso.
      assert (G := pre_mono_le src Hp (S k) j ltac:(lia)). unfold Lookup.pre in G.
      unfold meets, span_start, span_end in *. lia. }
    subst j. rewrite Hk in Ho2. injection Ho2 as <-.
    split; [rewrite E1; exact Hke|]. rewrite R.
    destruct (Nat.eq_dec i k) as [Ei|Ni].
    - left. subst i. rewrite Hk in Ho1. injection Ho1 as <-. split; [|rewrite S1; exact Hks].
      replace (S k - k)%nat with 1%nat by lia. rewrite (skipn_nth_cons _ _ _ Hk). reflexivity.
    - right. destruct (slice_shape src i k o1 f ltac:(lia) Ho1 Hk) as [[_ E] | E]; [contradiction|].
      eexists o1, _. split; [exact E|]. intros Eid.
      assert (o1 = f) by (apply src_frag_same; [eapply nth_error_In; exact Ho1 | exact Eid]). subst o1.
      apply (nodup_ids_notin a0 f c0); [rewrite <- Esrc; exact src_nodup_ids|].
      rewrite Esrc, nth_error_app1 in Ho1 by (fold k; lia). eapply nth_error_In. exact Ho1.
  Qed.

  Lemma K2_init fo :
    lookup_spec src (f_start b2) (f_end b2) (Some fo) -> K2 (ovr_of_found b2 fo).
  Proof.
    intros (i & j & L & R & S1 & E1 & (o1 & Ho1) & (o2 & Ho2) & Mi & Mj & U) _.
    cbn [ovr_of_found o_rows o_start o_end].
    destruct k_facts as (Hk & Hks & Hke). pose proof facts as (F1 & F2 & F3).
    pose proof b1_valid as V1. pose proof b2_valid as V2. pose proof src_pos as Hp.
    assert (Mk : meets src (f_start b2) (f_end b2) k) by (unfold meets; lia).
    pose proof (U k (ex_intro _ f Hk) Mk) as Lk.
    assert (Ei : i = k).
    { destruct (Nat.eq_dec i k) as [E|N]; [exact E|]. exfalso.
      assert (G := pre_mono_le src Hp (S i) k ltac:(lia)). unfold Lookup.pre in G.
      unfold meets, span_start, span_end in *. lia. }
    subst i. rewrite Hk in Ho1. injection Ho1 as <-.
    split; [rewrite S1; exact Hks|]. rewrite R.
    destruct (Nat.eq_dec j k) as [Ej|Nj].
    - left. subst j. split; [|rewrite E1; exact Hke].
      replace (S k - k)%nat with 1%nat by lia. rewrite (skipn_nth_cons _ _ _ Hk). reflexivity.
    - right. destruct (slice_shape src k j f o2 ltac:(lia) Hk Ho2) as [[_ E] | E]; [lia|].
      eexists _, o2. split; [exact E|]. intros Eid.
      assert (o2 = f) by (apply src_frag_same; [eapply nth_error_In; exact Ho2 | exact Eid]). subst o2.
      apply (nodup_ids_notin_r a0 f c0); [rewrite <- Esrc; exact src_nodup_ids|].
      rewrite Esrc, nth_error_app2 in Ho2 by (fold k; lia). fold k in Ho2.
      destruct (j - k)%nat as [|n] eqn:En; [lia|]. cbn [nth_error] in Ho2.
      eapply nth_error_In. exact Ho2.
  Qed.

  Lemma KK_init bait rows fo :
    In bait all -> In (f_name bait, rows) inp ->
    lookup_spec rows (f_start bait) (f_end bait) (Some fo) -> KK (ovr_of_found bait fo).
  Proof.
    intros Hb Hin Hl. split.
    - intros E. cbn [ovr_of_found o_bait] in E. subst bait.
      rewrite (In_unique_name inp _ _ _ Hnames Hin Hsrc) in Hl. apply K1_init; [exact Hl | reflexivity].
    - intros E. cbn [ovr_of_found o_bait] in E. subst bait.
      rewrite (In_unique_name inp _ _ _ Hnames Hin Hsrc2) in Hl. apply K2_init; [exact Hl | reflexivity].
  Qed.

  (* ------------------------------------------------------------- discards *)
  Lemma rows_nodup_ids src' r pre post :
    src' = pre ++ o_rows r ++ post -> NoDup (map f_id (frags_of src')) ->
    NoDup (map f_id (frags_of (o_rows r))).
  Proof.
    intros E H. rewrite E, !frags_of_app, !map_app in H.
    apply NoDup_app_right in H. apply NoDup_app_left in H. exact H.
  Qed.

  Lemma GoodU_rows_ids r : GoodU err src r -> NoDup (map f_id (frags_of (o_rows r))).
  Proof.
    intros [[E _] | (pre & post & Hs & _)]; [rewrite E; constructor|].
    eapply rows_nodup_ids; [exact Hs | exact src_nodup_ids].
  Qed.

  Lemma GoodU_tail_pos r x t : GoodU err src r -> o_rows r = x :: t -> pos_rows t.
  Proof.
    intros [[E _] | (pre & post & Hs & _)] Er; [rewrite E in Er; discriminate|].
    pose proof src_pos as Hp. rewrite Hs, Er in Hp. apply pos_rows_app in Hp. destruct Hp as [_ Hp].
    apply pos_rows_app in Hp. destruct Hp as [Hp _]. inversion Hp; assumption.
  Qed.

  Lemma GoodU_init_pos r t x : GoodU err src r -> o_rows r = t ++ [x] -> pos_rows t.
  Proof.
    intros [[E _] | (pre & post & Hs & _)] Er; [rewrite E in Er; destruct t; discriminate|].
    pose proof src_pos as Hp. rewrite Hs, Er in Hp. apply pos_rows_app in Hp. destruct Hp as [_ Hp].
    apply pos_rows_app in Hp. destruct Hp as [Hp _].
    apply pos_rows_app in Hp. destruct Hp as [Hp _]. exact Hp.
  Qed.

  (* b1's result: the start side may go, but never its last row f *)
  Lemma K1_ds r r' :
    GoodU err src r -> K1 r -> just_start err r -> discard_start r = Ok r' -> K1 r'.
  Proof.
    intros HG HK Hj Hd Eb. destruct (discard_start_bait _ _ Hd) as [B Een]. rewrite B in Eb.
    destruct (HK Eb) as (He & Hshape). pose proof facts as (F1 & F2 & F3).
    pose proof b1_valid as V1. pose proof b2_valid as V2. pose proof lo_hi as Elh.
    split; [rewrite Een; exact He|].
    destruct Hshape as [[Er Es] | (g & t' & Er & Hne)].
    - exfalso. destruct Hj as [(ov & Hov & Hlt) | (Hz & _)].
      + pose proof (start_row_bait_overlap_spec r (RF f) ov (first_row_cons _ _ _ Er) Hov) as E.
        cbn [row_len] in E. rewrite Eb in E. lia.
      + rewrite Er in Hz. apply Hz. reflexivity.
    - destruct (discard_start_shape _ _ _ _ _ Er Hd) as [(Er' & Hg & Es') | (gaps & m & rest' & Et & Er')].
      + left. split; [exact Er'|].
        pose proof (good_end err src r (RF g :: t') f HG Er) as Hend.
        rewrite rows_len_cons in Hend. cbn [row_len] in Hend. lia.
      + right. exists m, rest'. split; [exact Er'|].
        pose proof (GoodU_rows_ids r HG) as Hn. rewrite Er, Et in Hn.
        replace (RF g :: (gaps ++ RF m :: rest') ++ [RF f])
          with ((RF g :: gaps) ++ RF m :: rest' ++ [RF f]) in Hn
          by (cbn [app]; rewrite <- app_assoc; reflexivity).
        rewrite frags_of_app, map_app in Hn. apply NoDup_app_right in Hn.
        rewrite frags_of_RF in Hn. cbn [map] in Hn. inversion Hn as [|? ? Hni _]; subst.
        intros E. apply Hni. rewrite E. apply in_map. apply In_frags_of_iff.
        apply in_or_app. right. left. reflexivity.
  Qed.

  Lemma K1_de r r' :
    GoodU err src r -> K1 r -> just_end err r -> discard_end r = Ok r' -> K1 r'.
  Proof.
    intros HG HK Hj Hd Eb. destruct (discard_end_bait _ _ Hd) as [B _]. rewrite B in Eb.
    destruct (HK Eb) as (He & Hshape). pose proof facts as (F1 & F2 & F3).
    pose proof b1_valid as V1. pose proof b2_valid as V2. pose proof lo_hi as Elh.
    exfalso.
    assert (Hlast : exists t, o_rows r = t ++ [RF f]).
    { destruct Hshape as [[Er _] | (g & t' & Er & _)]; [exists []; exact Er | exists (RF g :: t'); exact Er]. }
    destruct Hlast as (t & Er).
    destruct Hj as [(ov & Hov & Hlt) | (Hz & v & Hv & Hgt)].
    - pose proof (end_row_bait_overlap_spec r (RF f) ov (last_row_snoc _ _ _ Er) Hov) as E.
      cbn [row_len] in E. rewrite Eb in E. lia.
    - unfold overhang_if_end_removed in Hv. rewrite Er, rev_unit in Hv. injection Hv as Hv.
      cbn [row_len] in Hv. rewrite Eb in Hv.
      pose proof (GoodU_init_pos r t (RF f) HG Er) as Hpt.
      assert (Hpr : pos_rows (rev t)) by (apply Forall_rev; exact Hpt).
      pose proof (leading_gaps_nonneg _ Hpr). lia.
  Qed.

  Lemma K2_de r r' :
    GoodU err src r -> K2 r -> just_end err r -> discard_end r = Ok r' -> K2 r'.
  Proof.
    intros HG HK Hj Hd Eb. destruct (discard_end_bait _ _ Hd) as [B Est]. rewrite B in Eb.
    destruct (HK Eb) as (Hs & Hshape). pose proof facts as (F1 & F2 & F3).
    pose proof b1_valid as V1. pose proof b2_valid as V2. pose proof lo_hi as Elh.
    split; [rewrite Est; exact Hs|].
    destruct Hshape as [[Er Ee] | (t' & g & Er & Hne)].
    - exfalso. destruct Hj as [(ov & Hov & Hlt) | (Hz & _)].
      + pose proof (end_row_bait_overlap_spec r (RF f) ov (last_row_snoc r [] _ Er) Hov) as E.
        cbn [row_len] in E. rewrite Eb in E. lia.
      + rewrite Er in Hz. apply Hz. reflexivity.
    - destruct (discard_end_shape _ _ _ _ _ Er Hd) as [(Er' & Hg & Ee') | (rest' & m & gaps & Et & Er')].
      + left. split; [exact Er'|].
        change (RF f :: t' ++ [RF g]) with ((RF f :: t') ++ [RF g]) in Er.
        pose proof (good_end err src r (RF f :: t') g HG Er) as Hend.
        rewrite rows_len_cons in Hend. cbn [row_len] in Hend. lia.
      + right. exists rest', m. split; [exact Er'|].
        pose proof (GoodU_rows_ids r HG) as Hn. rewrite Er, Et in Hn.
        rewrite frags_of_RF in Hn. cbn [map] in Hn. inversion Hn as [|? ? Hni _]; subst.
        intros E. apply Hni. rewrite <- E. apply in_map. apply In_frags_of_iff.
        apply in_or_app. left. apply in_or_app. right. left. reflexivity.
  Qed.

  Lemma K2_ds r r' :
    GoodU err src r -> K2 r -> just_start err r -> discard_start r = Ok r' -> K2 r'.
  Proof.
    intros HG HK Hj Hd Eb. destruct (discard_start_bait _ _ Hd) as [B _]. rewrite B in Eb.
    destruct (HK Eb) as (Hs & Hshape). pose proof facts as (F1 & F2 & F3).
    pose proof b1_valid as V1. pose proof b2_valid as V2. pose proof lo_hi as Elh.
    exfalso.
    assert (Hfirst : exists t, o_rows r = RF f :: t).
    { destruct Hshape as [[Er _] | (t' & g & Er & _)]; [exists []; exact Er | exists (t' ++ [RF g]); exact Er]. }
    destruct Hfirst as (t & Er).
    destruct Hj as [(ov & Hov & Hlt) | (Hz & v & Hv & Hgt)].
    - pose proof (start_row_bait_overlap_spec r (RF f) ov (first_row_cons _ _ _ Er) Hov) as E.
      cbn [row_len] in E. rewrite Eb in E. lia.
    - unfold overhang_if_start_removed in Hv. rewrite Er in Hv. injection Hv as Hv.
      cbn [row_len] in Hv. rewrite Eb in Hv.
      pose proof (GoodU_tail_pos r _ t HG Er) as Hpt.
      pose proof (leading_gaps_nonneg _ Hpt). lia.
  Qed.

  Lemma same_name_src src' r :
    (o_bait r = b1 \/ o_bait r = b2) -> In (f_name (o_bait r), src') inp -> src' = src.
  Proof.
    intros [E | E] Hin; rewrite E in Hin.
    - apply (In_unique_name inp _ _ _ Hnames Hin Hsrc).
    - apply (In_unique_name inp _ _ _ Hnames Hin Hsrc2).
  Qed.

  Lemma KK_ds src' r r' :
    In (o_bait r) all -> In (f_name (o_bait r), src') inp -> GoodU err src' r -> KK r ->
    just_start err r -> discard_start r = Ok r' -> KK r'.
  Proof.
    intros _ Hin HG [H1 H2] Hj Hd. destruct (discard_start_bait _ _ Hd) as [B _]. split.
    - intros Eb. pose proof Eb as Eb0. rewrite B in Eb0.
      rewrite (same_name_src src' r (or_introl Eb0) Hin) in HG. eapply K1_ds; eassumption.
    - intros Eb. pose proof Eb as Eb0. rewrite B in Eb0.
      rewrite (same_name_src src' r (or_intror Eb0) Hin) in HG. eapply K2_ds; eassumption.
  Qed.

  Lemma KK_de src' r r' :
    In (o_bait r) all -> In (f_name (o_bait r), src') inp -> GoodU err src' r -> KK r ->
    just_end err r -> discard_end r = Ok r' -> KK r'.
  Proof.
    intros _ Hin HG [H1 H2] Hj Hd. destruct (discard_end_bait _ _ Hd) as [B _]. split.
    - intros Eb. pose proof Eb as Eb0. rewrite B in Eb0.
      rewrite (same_name_src src' r (or_introl Eb0) Hin) in HG. eapply K1_de; eassumption.
    - intros Eb. pose proof Eb as Eb0. rewrite B in Eb0.
      rewrite (same_name_src src' r (or_intror Eb0) Hin) in HG. eapply K2_de; eassumption.
  Qed.

  (* both baits meet row k, so both get a stored result *)
  Lemma must_b1 : must inp b1.
  Proof.
    destruct k_facts as (Hk & Hks & Hke). pose proof facts as (F1 & F2 & F3).
    pose proof b1_valid. pose proof b2_valid.
    exists src, k. split; [exact Hsrc|]. split; [exists f; exact Hk|]. unfold meets. lia.
  Qed.

  Lemma must_b2 : must inp b2.
  Proof.
    destruct k_facts as (Hk & Hks & Hke). pose proof facts as (F1 & F2 & F3).
    pose proof b1_valid. pose proof b2_valid.
    exists src, k. split; [exact Hsrc2|]. split; [exists f; exact Hk|]. unfold meets. lia.
  Qed.
End DeepK.
