(* C02 capstone for PAINTED maps, PART C: the output scaffold that holds the
   rows of a bait tagged ["Painted"] is a CHROMOSOME: it has rank 1
   ([c02_end_to_end_painted_rank]) and, under the hypotheses of
   Proofs.ChromosomeNumbers.chromosome_numbers_end_to_end, its name is
   prefix ++ <number> ++ <unloc suffix> ([c02_end_to_end_painted_named]).

   One hypothesis is ADDED to those of part A: the name of a painted Pretext
   scaffold is not the name of an input scaffold.  Without it the statement is
   false ([painted_rank_needs_fresh_names]): an unpainted Pretext scaffold is
   named after the input scaffold of its first bait (rank 3); if a painted
   Pretext scaffold listed later bears the same name, the two fuse under one
   key and the fused scaffold keeps the rank of the FIRST piece: the painted
   bait's rows end up in a rank-3 scaffold that the ChrNamer never numbers.

   Ingredients:
     head_LN          a label invariant of the first half: every stored result
                      has rank 1 or is named after an input scaffold; the result
                      of a Painted bait has rank 1 and the name of a painted
                      Pretext scaffold;
     leftovers_named  the left-over scaffolds are named after input scaffolds;
     result_in_fused_named / fused_to_output_rank
                      routing that also tracks the name (into the fused
                      scaffold) and the rank (into the output). *)
From Tola Require Import Py.Base Py.Dec Py.Sort Model.Fragment Model.Scaffold Model.Lookup
  Model.OverlapResult Model.OvrSpec Model.NaturalKey Model.Namer Model.Remap Model.RemapSpec
  Proofs.BaseLemmas Proofs.RemapHead Proofs.Junctions Proofs.EndToEndC02Total Proofs.EndToEndC02Order
  Proofs.EndToEndC02 Proofs.EndToEndC02PaintedHead Proofs.EndToEndC02Painted.
From Tola Require Proofs.Completion Proofs.CompletionTiling Proofs.CompletionPainted Proofs.CoreKept
  Proofs.RoutingEndToEnd Proofs.Routing Proofs.RemapTail Proofs.NullMap Proofs.PipelineInv
  Proofs.PretextOrder Proofs.UniqueNames Proofs.Naming Proofs.ChromosomeNumbers Proofs.JoinGaps
  Proofs.CompletionLookup.
From Coq Require Import Lia ZifyBool Permutation.

Notation labs := Proofs.UniqueNames.labs.
Notation o_labs := Proofs.UniqueNames.o_labs.
Notation sc_labs := Proofs.UniqueNames.sc_labs.
Notation painted_b := Proofs.UniqueNames.painted_b.

(* ===================================================================== 1 ==
   the name and the rank of the result of an untagged / Painted bait *)
Lemma one_bait_tags_ok_labs inp err tags orig b bait b' :
  tags_ok (f_tags bait) -> one_bait inp err tags orig b bait = Ok b' ->
  b_namer b' = b_namer b
  /\ (b_store b' = b_store b
      \/ exists r, b_store b' = b_store b ++ [r] /\ o_bait r = bait
           /\ o_name r = match nm_cur_name (b_namer b) with Some n => n | None => [] end
           /\ o_rank r = (if nm_target (b_namer b) && negb (mem_str (s "Target") tags)
                          then 3 else nm_cur_rank (b_namer b))
           /\ o_orig r = Some orig).
Proof.
  intros Hu H. unfold one_bait in H.
  bind_inv H rows Hrows. bind_inv H fo Hfo. destruct fo as [fo|]; [|injection H as <-; auto].
  assert (EL : label_scaffold (b_namer b) (zlen (b_store b)) (f_tags bait) tags
               = Ok (b_namer b,
                     mkLabel (match nm_cur_name (b_namer b) with Some n => n | None => [] end)
                             (if nm_target (b_namer b) && negb (mem_str (s "Target") tags)
                              then Some (s "Contaminant") else None)
                             (nm_cur_hap (b_namer b))
                             (if nm_target (b_namer b) && negb (mem_str (s "Target") tags)
                              then 3 else nm_cur_rank (b_namer b)))).
  { destruct Hu as [-> | ->]; [reflexivity|]. unfold label_scaffold.
    change (mem_str (s "Contaminant") [s "Painted"]) with false.
    change (mem_str (s "FalseDuplicate") [s "Painted"]) with false.
    change (mem_str (s "Haplotig") [s "Painted"]) with false.
    change (mem_str (s "Unloc") [s "Painted"]) with false.
    reflexivity. }
  rewrite EL in H. cbn [bind] in H. bind_inv H r1 Hr1.
  pose proof (Proofs.UniqueNames.trim_large_labs _ _ _ Hr1) as L.
  pose proof (Proofs.PretextOrder.trim_large_bait _ _ _ Hr1) as B.
  unfold Proofs.UniqueNames.o_labs in L.
  cbn [set_labels ovr_of_found o_name o_tag o_hap o_rank o_orig o_bait lb_name lb_tag lb_hap lb_rank] in L, B.
  injection L as Ln _ _ Lr Lo.
  destruct (o_rows r1) as [|x0 t0].
  - injection H as <-. cbn [b_store b_namer]. split; [reflexivity|]. right. exists r1. auto.
  - injection H as <-. unfold store_fragments_found.
    cbn [b_store b_added b_found b_multi b_namer b_cuts].
    destruct (fold_left _ _ _) as [found' multi']. cbn [b_store b_namer].
    split; [reflexivity|]. right. exists r1. auto.
Qed.

(* what make_scaffold_name decides for a Pretext scaffold whose tag set is []
   or ["Painted"] *)
Lemma msn_tags_ok nm pname rows f t nm' :
  rows = RF f :: t -> tags_ok (fragment_tags rows) ->
  make_scaffold_name nm pname rows (fragment_tags rows) = Ok nm' ->
  nm_target nm' = nm_target nm
  /\ (fragment_tags rows = [] -> nm_cur_name nm' = Some (f_name f) /\ nm_cur_rank nm' = 3)
  /\ (fragment_tags rows = [s "Painted"] -> nm_cur_name nm' = Some pname /\ nm_cur_rank nm' = 1).
Proof.
  intros Hrows [Ht | Ht] H; rewrite Ht in H; unfold make_scaffold_name in H; try rewrite Ht in H; subst rows.
  - cbn [foldM bind ts_hap ts_lc ts_primary ts_name ts_painted ts_rank ts_target truthy andb negb
         first_row_name] in H.
    destruct (haplotype_prefix_of_name (f_name f)) as [p|];
      [destruct (get_set_haplotype (nm_hap_lc nm) p) as [h lc]|]; cbn [bind] in H;
      injection H as <-; (split; [reflexivity|]); (split; [intros _; split; reflexivity|]);
      rewrite Ht; discriminate.
  - cbn [foldM] in H. rewrite Proofs.CompletionLookup.scan_painted in H.
    cbn [bind ts_hap ts_lc ts_primary ts_name ts_painted ts_rank ts_target truthy andb negb
         first_row_name] in H.
    destruct (haplotype_prefix_of_name (f_name f)) as [p|];
      [destruct (get_set_haplotype (nm_hap_lc nm) p) as [h lc]|]; cbn [bind] in H;
      injection H as <-; (split; [reflexivity|]); (split; [rewrite Ht; discriminate|]);
      intros _; split; reflexivity.
Qed.

Lemma painted_in_fragment_tags rows f :
  In f (frags_of rows) -> f_tags f = [s "Painted"] -> In (s "Painted") (fragment_tags rows).
Proof.
  intros Hf Ht. unfold fragment_tags. apply (dedup_in str_eqb str_eqb_eq).
  apply in_flat_map. exists f. split; [exact Hf|]. rewrite Ht. left. reflexivity.
Qed.

(* ===================================================================== 2 ==
   the label invariant *)
Section Names.
  Variables (inames : list str) (pretext : list (str * list row)).

  Definition LN (bait : frag) (l : labs) : Prop :=
    let '(name, _, _, rank, orig) := l in
    ((rank = 1 /\ orig = Some name) \/ In name inames)
    /\ (f_tags bait = [s "Painted"] ->
        rank = 1 /\ orig = Some name
        /\ exists prows, In (name, prows) pretext /\ In bait (frags_of prows)
                         /\ painted_b (name, prows) = true).
  Definition LNr (r : ovr) : Prop := LN (o_bait r) (o_labs r).

  (* what the fusion needs of every piece *)
  Definition Qn (l : labs) : Prop :=
    let '(name, _, _, rank, orig) := l in (rank = 1 /\ orig = Some name) \/ In name inames.

  Lemma LNr_ext st st' :
    map o_bait st' = map o_bait st -> map o_labs st' = map o_labs st ->
    Forall LNr st -> Forall LNr st'.
  Proof.
    intros EB EL F. apply Forall_forall. intros r' Hr'. apply In_nth_error in Hr'. destruct Hr' as (n & Hn).
    destruct (map_eq_nth o_bait _ _ _ _ EB Hn) as (r & Hr & Eb).
    destruct (map_eq_nth o_labs _ _ _ _ EL Hn) as (r0 & Hr0 & El).
    assert (r0 = r) by congruence. subst r0.
    rewrite Forall_forall in F. pose proof (F r (nth_error_In _ _ Hr)) as X.
    unfold LNr in *. rewrite <- Eb, <- El. exact X.
  Qed.

  (* the state of the namer while the baits of (pname, prows) are looked up *)
  Definition cur_ok (nm : namer) (pname : str) (prows : list row) : Prop :=
    (fragment_tags prows = [] /\ nm_cur_rank nm = 3
     /\ exists n, nm_cur_name nm = Some n /\ In n inames)
    \/ (fragment_tags prows = [s "Painted"] /\ nm_cur_rank nm = 1 /\ nm_cur_name nm = Some pname).

  Lemma one_bait_LN inp err pname prows b bait b' :
    tags_ok (f_tags bait) -> In bait (frags_of prows) -> In (pname, prows) pretext ->
    nm_target (b_namer b) = false -> cur_ok (b_namer b) pname prows ->
    Forall LNr (b_store b) ->
    one_bait inp err (fragment_tags prows) pname b bait = Ok b' ->
    Forall LNr (b_store b') /\ b_namer b' = b_namer b.
  Proof.
    intros Ht Hb Hp T C F H.
    destruct (one_bait_tags_ok_labs _ _ _ _ _ _ _ Ht H) as [N [S | (r & S & Br & Nr & Rr & Or)]].
    - rewrite S. auto.
    - split; [|exact N]. rewrite S. apply Forall_app. split; [exact F|]. constructor; [|constructor].
      rewrite T in Rr. cbn [andb] in Rr.
      unfold LNr, LN, Proofs.UniqueNames.o_labs. rewrite Br, Nr, Rr, Or.
      destruct C as [(Et & Ck & n & Cn & In_n) | (Et & Ck & Cn)]; rewrite Cn, Ck.
      + split; [right; exact In_n|]. intro Pb. exfalso.
        pose proof (painted_in_fragment_tags prows bait Hb Pb) as X. rewrite Et in X. destruct X.
      + split; [left; split; reflexivity|]. intros _. split; [reflexivity|]. split; [reflexivity|].
        exists prows. split; [exact Hp|]. split; [exact Hb|]. unfold Proofs.UniqueNames.painted_b. cbn [snd]. rewrite Et. reflexivity.
  Qed.

  Definition HI (b : bstate) : Prop :=
    nm_target (b_namer b) = false /\ nm_hap_scaffolds (b_namer b) = [] /\ Forall LNr (b_store b).

  Lemma one_pretext_LN inp err b pname prows b' :
    (exists f t, prows = RF f :: t /\ In (f_name f) inames) ->
    Forall (fun f => tags_ok (f_tags f)) (frags_of prows) ->
    In (pname, prows) pretext ->
    HI b -> one_pretext_scaffold inp err b (pname, prows) = Ok b' -> HI b'.
  Proof.
    intros (f & t & Hrows & Hfn) Hu Hp (T & Hh & F) H. unfold one_pretext_scaffold in H.
    bind_inv H nm Hnm. bind_inv H b1 Hb1. bind_inv H st Hst. injection H as <-.
    cbn [with_store b_store b_namer].
    pose proof (Proofs.CompletionLookup.fragment_tags_painted prows Hu) as Ht.
    destruct (msn_lists _ _ _ _ _ Hnm) as [U1 U2].
    destruct (msn_tags_ok _ _ _ _ _ _ Hrows Ht Hnm) as (Tn & C0 & C1).
    assert (C : cur_ok nm pname prows).
    { destruct Ht as [Ht | Ht].
      - left. destruct (C0 Ht) as [X Y]. split; [exact Ht|]. split; [exact Y|]. exists (f_name f). auto.
      - right. destruct (C1 Ht) as [X Y]. auto. }
    assert (I1 : Forall LNr (b_store b1) /\ b_namer b1 = nm).
    { apply (Proofs.CompletionPainted.foldM_inv_in (one_bait inp err (fragment_tags prows) pname)
               (fun b0 => Forall LNr (b_store b0) /\ b_namer b0 = nm) (frags_of prows)) with (3 := Hb1).
      - intros s0 a s1 Ia [Fs En] E. rewrite Forall_forall in Hu.
        destruct (one_bait_LN _ _ _ _ _ _ _ (Hu a Ia) Ia Hp
                    ltac:(rewrite En, Tn; exact T) ltac:(rewrite En; exact C) Fs E) as [K1 K2].
        split; [exact K1 | congruence].
      - split; [exact F | reflexivity]. }
    destruct I1 as [F1 N1].
    rewrite N1, U1, Proofs.NullMap.rename_results_nil in Hst. injection Hst as <-.
    unfold HI. cbn [with_store b_store b_namer]. rewrite N1.
    split; [congruence|]. split; [congruence | exact F1].
  Qed.

  Lemma leftovers_named c g found : forall inp nm left nm' left',
    Forall (fun sc => In (sc_name sc) inames /\ sc_rank sc = 3) left ->
    incl (map fst inp) inames ->
    foldM (add_missing_one c g found) inp (nm, left) = Ok (nm', left') ->
    Forall (fun sc => In (sc_name sc) inames /\ sc_rank sc = 3) left'.
  Proof.
    induction inp as [|[name rows] inp IH]; intros nm left nm' left' F I H; cbn [foldM] in H.
    - injection H as _ <-. exact F.
    - bind_inv H acc1 Hacc. destruct acc1 as [nm1 left1].
      apply (IH nm1 left1 nm' left'); [| |exact H].
      + unfold add_missing_one in Hacc.
        destruct (missing_rows c found g rows [] 0 None) as [|x0 t0].
        * injection Hacc as <- <-. exact F.
        * bind_inv Hacc nm2 Hnm2. injection Hacc as <- <-.
          apply Forall_app. split; [exact F|]. constructor; [|constructor].
          cbn [sc_name sc_rank]. split; [|reflexivity]. apply I. left. reflexivity.
      + intros x Hx. apply I. right. exact Hx.
  Qed.
End Names.

Theorem head_LN : forall c g prefix bpt input pretext rs,
  Forall (fun p => exists b t, snd p = RF b :: t) pretext ->
  Forall (fun b => tags_ok (f_tags b) /\ In (f_name b) (map fst input)) (baits_of pretext) ->
  remap_to_input c g prefix bpt input pretext = Ok rs ->
  Forall (LNr (map fst input) pretext) (b_store (rs_b rs))
  /\ Forall (fun sc => In (sc_name sc) (map fst input) /\ sc_rank sc = 3) (rs_left rs).
Proof.
  intros c g prefix bpt input pretext rs Hpre Hb H.
  destruct (Proofs.CompletionPainted.run_stages _ _ _ _ _ _ _ H)
    as (fuel & b1 & b2 & b3 & st & nm & left & E1 & E2 & E3 & E4 & E5 & ->).
  set (inames := map fst input) in *.
  assert (O1 : HI inames pretext b1).
  { apply (Proofs.CompletionPainted.foldM_inv_in _ (HI inames pretext) pretext) with (3 := E1).
    - intros s0 [pname prows] s1 Ia Hs E. rewrite Forall_forall in Hpre, Hb.
      destruct (Hpre _ Ia) as (f & t & Hrows). cbn [snd] in Hrows.
      assert (Hin : forall x, In x (frags_of prows) -> In x (baits_of pretext)).
      { intros x Hx. eapply (in_baits_of (pname, prows)); eassumption. }
      apply (one_pretext_LN inames pretext _ _ _ _ _ _) with (5 := E); [| |exact Ia|exact Hs].
      + exists f, t. split; [exact Hrows|]. apply (Hb f). apply Hin. rewrite Hrows. left. reflexivity.
      + apply Forall_forall. intros x Hx. exact (proj1 (Hb x (Hin x Hx))).
    - split; [reflexivity|]. split; [reflexivity | constructor]. }
  destruct O1 as (T1 & Hh1 & F1).
  destruct (Proofs.UniqueNames.discard_loop_labs _ _ _ _ E2) as (L2 & _ & N2).
  destruct (Proofs.UniqueNames.cut_remaining_labs _ _ _ E3) as (L3 & _ & N3).
  destruct (Proofs.PretextOrder.discard_loop_order _ _ _ _ E2) as [B2 _].
  destruct (Proofs.PretextOrder.cut_remaining_order _ _ _ E3) as [B3 _].
  unfold Proofs.PretextOrder.SBo in B2, B3.
  assert (Eh : nm_hap_scaffolds (b_namer b3) = []) by (rewrite N3, N2; exact Hh1).
  rewrite Eh, Proofs.NullMap.rename_results_nil in E4. injection E4 as <-.
  cbn [rs_b rs_left with_namer with_store b_store].
  split.
  - apply (LNr_ext inames pretext (b_store b1)); [congruence | congruence | exact F1].
  - apply (leftovers_named inames c g _ _ _ _ _ _ (Forall_nil _)) with (2 := E5).
    unfold inames. rewrite Proofs.CoreKept.number_input_fst. apply incl_refl.
Qed.

(* ===================================================================== 3 ==
   routing that tracks the name and the rank *)
Lemma result_in_fused_named g rs fused0 id r :
  fuse_all repaired g rs = Ok fused0 ->
  In id (b_added (rs_b rs)) -> get_ovr (b_store (rs_b rs)) id = Ok r -> o_rows r <> [] ->
  exists b pre suf, In b fused0 /\ sc_rows b = pre ++ to_scaffold_rows r ++ suf
    /\ sc_name b = o_name r.
Proof.
  intros F Hid Hget NE. unfold fuse_all in F. bind_inv F results Hres. injection F as <-.
  set (sc := fst (piece_of_result r)).
  assert (Hin : In (sc, true) (map piece_of_result results ++ map (fun sc => (sc, false)) (rs_left rs))).
  { apply in_or_app. left. apply in_map_iff. exists r. split; [reflexivity|].
    eapply Proofs.RoutingEndToEnd.mapM_ok_In_l; eassumption. }
  assert (NE' : sc_rows sc <> []).
  { unfold sc. cbn [piece_of_result fst sc_rows]. intros E. apply NE.
    apply Proofs.JoinGaps.to_scaffold_rows_nil_iff. exact E. }
  destruct (Proofs.Routing.routing_gen g _ [] sc true Proofs.Routing.fused_ok_nil Hin NE')
    as (b & pre & suf & Hg & R & _ & _ & Nm).
  exists b, pre, suf. split; [|split; [exact R | exact Nm]].
  apply (aget_In fuse_key_eqb Proofs.Routing.fuse_key_eqb_eq) in Hg.
  apply in_map_iff. exists (Proofs.Routing.key_of_piece sc, b). split; [reflexivity | exact Hg].
Qed.

Lemma fused_to_output_rank g prefix bpt input pretext o rs fused0 b :
  remap_to_input repaired g prefix bpt input pretext = Ok rs ->
  remap repaired g prefix bpt input pretext = Ok o ->
  fuse_all repaired g rs = Ok fused0 -> In b fused0 ->
  exists a sc, In a (out_asms o) /\ In sc (oa_scaffolds a)
    /\ sc_rows sc = sc_rows b /\ sc_rank sc = sc_rank b /\ sc_orig sc = sc_orig b.
Proof.
  intros Hrs Ho HF Hb.
  destruct (Proofs.ChromosomeNumbers.remap_stages _ _ _ _ _ _ Ho) as (rs' & fused0' & fused & R & HF' & NC & Pm).
  rewrite Hrs in R. injection R as <-. rewrite HF in HF'. injection HF' as <-.
  destruct (Proofs.UniqueNames.name_chromosomes_as_ops _ _ _ _ NC) as (sorted & EQ & _ & _).
  destruct (Proofs.UniqueNames.apply_ops_upd_ok (Proofs.UniqueNames.all_ops prefix sorted)
              (map (Proofs.UniqueNames.prefix_rank2 prefix) fused0)) as [F2 _].
  rewrite <- EQ in F2.
  apply In_nth_error in Hb. destruct Hb as (i & Hi).
  destruct (Proofs.Naming.Forall2_nth_error _ _ _ F2 i _ (map_nth_error _ _ _ Hi)) as (y & Hy & Sy).
  destruct Sy as (Y1 & _ & _ & Y4 & Y5 & _).
  destruct (Proofs.UniqueNames.prefix_rank2_sbn prefix b) as (P1 & _ & _ & P4 & P5 & _).
  assert (Iy : In y (Proofs.ChromosomeNumbers.out_scaffolds o)).
  { apply (Permutation_in _ (Permutation_sym Pm)). eapply nth_error_In. exact Hy. }
  unfold Proofs.ChromosomeNumbers.out_scaffolds in Iy. apply in_flat_map in Iy. destruct Iy as (a & Ha & Hin).
  exists a, y. split; [exact Ha|]. split; [exact Hin|]. repeat split; congruence.
Qed.

(* ===================================================================== 4 ==
   PART C *)
(* the statement, with the added hypothesis switched on or off *)
Definition painted_rank_statement (fresh : bool) : Prop :=
  forall g prefix n d input pretext,
  0 < d -> d <= n ->
  Forall Proofs.Completion.input_ok input -> NoDup (map fst input) ->
  NoDup (map key_of (Model.RemapSpec.in_frags input)) ->
  Forall (fun f => f_tags f = []) (Model.RemapSpec.in_frags input) ->
  Forall (fun p => exists b t, snd p = RF b :: t) pretext ->
  Forall (fun b => (f_tags b = [] \/ f_tags b = [s "Painted"]) /\ (f_strand b = 1 \/ f_strand b = -1)
                   /\ In (f_name b) (map fst input)) (Proofs.CoreKept.baits_of pretext) ->
  Forall (Proofs.Completion.scaffold_tiled n d (Proofs.CoreKept.baits_of pretext)) input ->
  Forall (fun f => f_strand f = 1 \/ f_strand f = -1) (Model.RemapSpec.in_frags input) ->
  Forall (fun p => Proofs.UniqueNames.painted_b p = true -> fst p <> []) pretext ->
  Proofs.UniqueNames.no_haplotypes pretext ->
  (* ADDED: a painted Pretext scaffold is not named like an input scaffold *)
  (fresh = true ->
   Forall (fun p => Proofs.UniqueNames.painted_b p = true -> ~ In (fst p) (map fst input)) pretext) ->
  exists rs o,
    remap_to_input repaired g prefix (n, d) input pretext = Ok rs
    /\ remap repaired g prefix (n, d) input pretext = Ok o
    /\ let err := error_length (n, d) in
       forall bait src x,
         In bait (Proofs.CoreKept.baits_of pretext) ->
         In (f_name bait, src) (number_input input 0) ->
         Proofs.CoreKept.in_core err bait x -> Proofs.CoreKept.contig_base src x ->
         f_tags bait = [s "Painted"] ->
         exists r a sc pre suf,
           In r (b_store (rs_b rs)) /\ o_bait r = bait
           /\ Model.OvrSpec.Inv src r /\ Proofs.CoreKept.core_kept err src r
           /\ In a (out_asms o) /\ In sc (oa_scaffolds a)
           /\ sc_rows sc = pre ++ to_scaffold_rows r ++ suf
           /\ sc_rank sc = 1
           /\ exists pname prows, In (pname, prows) pretext /\ In bait (frags_of prows)
                                  /\ sc_orig sc = Some pname.

Theorem c02_end_to_end_painted_rank : painted_rank_statement true.
Proof.
  intros g prefix n d input pretext Hd Hdn Hin Hnm Hkeys Hunt Hpre Hb Htile Hstr Hnames NHp Hfresh.
  specialize (Hfresh eq_refl).
  set (all := Proofs.CoreKept.baits_of pretext) in *.
  (* 1. both halves complete *)
  destruct (Proofs.CompletionPainted.completion_of_painted_tiling_maps g prefix n d input pretext
              Hd Hdn Hin Hnm Hkeys Hunt Hpre Hb Htile) as (rs & Hrs).
  destruct (Proofs.CompletionPainted.painted_tiling_maps_complete g prefix n d input pretext
              Hd Hdn Hin Hnm Hkeys Hunt Hpre Hb Htile Hstr Hnames NHp) as (o & Hremap).
  (* 2. the stored result keeps its core *)
  assert (Hnamed : Forall (fun b => In (f_name b) (map fst input)) all).
  { eapply Forall_impl; [|exact Hb]. intros b (_ & _ & H). exact H. }
  pose proof (Proofs.CompletionTiling.tiled_valid n d input all Hnamed Htile) as Hvalid.
  pose proof (Proofs.CompletionTiling.tiled_disjoint n d input all Hnamed Htile) as Hdisj.
  assert (Hpos0 : Forall (fun isc => pos_rows (snd isc)) input).
  { eapply Forall_impl; [|exact Hin]. intros isc (_ & H & _). exact H. }
  assert (Hn0 : 0 <= fst (n, d)) by (cbn [fst]; lia).
  assert (Hd0 : 0 < snd (n, d)) by (cbn [snd]; lia).
  pose proof (Proofs.CoreKept.core_kept_end_to_end repaired g prefix (n, d) input pretext rs
                Hn0 Hd0 Hpos0 Hkeys Hvalid Hdisj Hrs) as HAB.
  cbv zeta in HAB. destruct HAB as [HA HB].
  destruct (head_added repaired g prefix (n, d) input pretext rs Hrs) as (_ & Hadd).
  (* 3. the labels of the results, of the left-overs, of the fused scaffolds *)
  assert (Hb2 : Forall (fun b => tags_ok (f_tags b) /\ In (f_name b) (map fst input)) all).
  { eapply Forall_impl; [|exact Hb]. intros b (H1 & _ & H2). split; assumption. }
  destruct (head_LN repaired g prefix (n, d) input pretext rs Hpre Hb2 Hrs) as [FL FLeft].
  pose proof Hremap as Ho'. unfold remap in Ho'. rewrite Hrs in Ho'. cbn [bind] in Ho'.
  destruct (Proofs.RoutingEndToEnd.assemblies_out_core _ _ _ _ _ _ Ho') as (fused0 & fused & F & _).
  assert (FQ : Forall (fun sc => Qn (map fst input) (sc_labs sc)) fused0).
  { apply (Proofs.UniqueNames.fuse_all_labs (Qn (map fst input)) repaired g rs fused0) with (3 := F).
    - eapply Forall_impl; [|exact FL]. intros r X.
      unfold LNr, LN, Proofs.UniqueNames.o_labs in X. unfold Qn, Proofs.UniqueNames.o_labs. exact (proj1 X).
    - eapply Forall_impl; [|exact FLeft]. intros sc [X Y]. unfold Qn, Proofs.UniqueNames.sc_labs. right. exact X. }
  set (inp := number_input input 0) in *.
  exists rs, o. split; [exact Hrs|]. split; [exact Hremap|].
  cbv zeta. intros bait src x Hbait Hsrc Hcore Hbase Hpt.
  (* 4. the result of this bait *)
  destruct (store_find (b_store (rs_b rs)) bait) as [(r & Hr & Eb) | Hnone].
  2:{ exfalso. exact (HB bait src Hbait Hsrc Hnone x Hcore Hbase). }
  destruct (HA r Hr) as (src' & Hsrc' & _ & HI & HK).
  assert (Es : src' = src).
  { assert (Hnn : NoDup (map fst inp)) by (unfold inp; rewrite Proofs.CoreKept.number_input_fst; exact Hnm).
    rewrite Eb in Hsrc'. exact (Proofs.NullMap.nodup_names_inj inp _ _ _ Hnn Hsrc' Hsrc). }
  subst src'.
  assert (Hne : o_rows r <> []).
  { rewrite <- Eb in Hcore. exact (proj1 (HK x Hcore Hbase)). }
  (* its label: rank 1, named after a painted Pretext scaffold that holds the bait *)
  rewrite Forall_forall in FL. pose proof (FL r Hr) as X.
  unfold LNr, LN, Proofs.UniqueNames.o_labs in X. rewrite Eb in X. destruct X as [_ X].
  destruct (X Hpt) as (Rk & Og & prows & Hp & Hbp & Pb).
  apply In_nth_error in Hr. destruct Hr as (k & Hk).
  pose proof (Hadd k r Hk Hne) as Hin_added.
  assert (Hget : get_ovr (b_store (rs_b rs)) (Z.of_nat k) = Ok r).
  { unfold get_ovr. rewrite Nat2Z.id, Hk. reflexivity. }
  (* 5. the fused scaffold of that name has rank 1 ... *)
  destruct (result_in_fused_named g rs fused0 (Z.of_nat k) r F Hin_added Hget Hne)
    as (b & pre & suf & Hbf & Rb & Nb).
  rewrite Forall_forall in FQ, Hfresh. pose proof (FQ b Hbf) as Qb.
  unfold Qn, Proofs.UniqueNames.sc_labs in Qb. rewrite Nb in Qb.
  destruct Qb as [[Rkb Ogb] | Bad].
  2:{ exfalso. exact (Hfresh _ Hp Pb Bad). }
  (* 6. ... and so has the output scaffold *)
  destruct (fused_to_output_rank g prefix (n, d) input pretext o rs fused0 b Hrs Hremap F Hbf)
    as (a & sc & Ha & Hsc & R1 & R2 & R3).
  exists r, a, sc, pre, suf.
  split; [eapply nth_error_In; exact Hk|]. split; [exact Eb|]. split; [exact HI|].
  split; [exact HK|]. split; [exact Ha|]. split; [exact Hsc|].
  split; [rewrite R1; exact Rb|]. split; [congruence|].
  exists (o_name r), prows. split; [exact Hp|]. split; [exact Hbp | congruence].
Qed.

(* ============================================ the added hypothesis is needed *)
Module FreshNeeded.
  Import Proofs.CompletionPainted.Needs.
  (* P1 (unpainted) shows input scaffold Xa and is therefore named "Xa", rank 3;
     the painted Pretext scaffold that shows Xb is itself named "Xa" *)
  Definition input := [(s "Xa", [RF (ctg (s "cA") 1)]); (s "Xb", [RF (ctg (s "cB") 1)])].
  Definition pretext := [(s "P1", [RF (mkFrag 0 (s "Xa") 1 100 1 [])]); (s "Xa", [RF (pbait (s "Xb") 100)])].

  (* every output scaffold has rank 3 *)
  Lemma run : exists o, remap repaired g10 (s "SUPER_") (2, 1) input pretext = Ok o
    /\ forallb (fun a => forallb (fun sc => sc_rank sc =? 3) (oa_scaffolds a)) (out_asms o) = true.
  Proof. eexists. split; vm_compute; reflexivity. Qed.

  (* ... although the hypotheses of chromosome_numbers_end_to_end hold as well *)
  Lemma names_ok : Proofs.UniqueNames.input_namespace_ok_b (s "SUPER_") input pretext = true
    /\ Proofs.UniqueNames.no_haplotypes_b input = true /\ Proofs.UniqueNames.no_haplotypes_b pretext = true.
  Proof. vm_compute. auto. Qed.
End FreshNeeded.

Theorem painted_rank_needs_fresh_names : ~ painted_rank_statement false.
Proof.
  intros H.
  destruct (H Proofs.CompletionPainted.Needs.g10 (s "SUPER_") 2 1 FreshNeeded.input FreshNeeded.pretext)
    as (rs & o & _ & Ho & HC).
  - lia.
  - lia.
  - constructor; [|constructor; [|constructor]].
    + Proofs.CompletionPainted.Needs.one_contig_ok (Proofs.CompletionPainted.Needs.ctg (s "cA") 1).
    + Proofs.CompletionPainted.Needs.one_contig_ok (Proofs.CompletionPainted.Needs.ctg (s "cB") 1).
  - cbn. repeat constructor; cbn; intuition discriminate.
  - cbn. repeat constructor; cbn; intuition discriminate.
  - repeat constructor.
  - repeat constructor; eexists _, _; reflexivity.
  - cbn. apply Forall_cons; [split; [left; reflexivity | split; [left; reflexivity | cbn; auto]]|].
    apply Forall_cons; [split; [right; reflexivity | split; [left; reflexivity | cbn; auto]]|]. apply Forall_nil.
  - constructor; [|constructor; [|constructor]].
    + Proofs.CompletionPainted.Needs.one_bait_tiled (mkFrag 0 (s "Xa") 1 100 1 []) 100.
    + Proofs.CompletionPainted.Needs.one_bait_tiled (Proofs.CompletionPainted.Needs.pbait (s "Xb") 100) 100.
  - repeat constructor; cbn; auto.
  - repeat constructor; intros _; discriminate.
  - apply Proofs.UniqueNames.no_haplotypes_b_sound. vm_compute. reflexivity.
  - discriminate.
  - destruct FreshNeeded.run as (o' & Ho' & Hall). rewrite Ho' in Ho. injection Ho as <-.
    cbv zeta in HC.
    destruct (HC (Proofs.CompletionPainted.Needs.pbait (s "Xb") 100)
                 [RF (mkFrag 1 (s "cB") 1 100 1 [])] 50)
      as (r & a & sc & pre & suf & _ & _ & _ & _ & Ha & Hsc & _ & Rk & _).
    + cbn. auto.
    + vm_compute. right. left. reflexivity.
    + unfold Proofs.CoreKept.in_core. vm_compute. split; discriminate.
    + exists 0%nat. split; [eexists; reflexivity|]. vm_compute. split; discriminate.
    + reflexivity.
    + rewrite forallb_forall in Hall. specialize (Hall a Ha). rewrite forallb_forall in Hall.
      specialize (Hall sc Hsc). rewrite Rk in Hall. discriminate.
Qed.

(* ===================================================================== 5 ==
   with the hypotheses of chromosome_numbers_end_to_end: the scaffold is a
   numbered chromosome, prefix ++ <number> ++ <"" or "_unloc_<digits>"> *)
Theorem c02_end_to_end_painted_named : forall g prefix n d input pretext,
  0 < d -> d <= n ->
  Forall Proofs.Completion.input_ok input -> NoDup (map fst input) ->
  NoDup (map key_of (Model.RemapSpec.in_frags input)) ->
  Forall (fun f => f_tags f = []) (Model.RemapSpec.in_frags input) ->
  Forall (fun p => exists b t, snd p = RF b :: t) pretext ->
  Forall (fun b => (f_tags b = [] \/ f_tags b = [s "Painted"]) /\ (f_strand b = 1 \/ f_strand b = -1)
                   /\ In (f_name b) (map fst input)) (Proofs.CoreKept.baits_of pretext) ->
  Forall (Proofs.Completion.scaffold_tiled n d (Proofs.CoreKept.baits_of pretext)) input ->
  Forall (fun f => f_strand f = 1 \/ f_strand f = -1) (Model.RemapSpec.in_frags input) ->
  Forall (fun p => Proofs.UniqueNames.painted_b p = true -> fst p <> []) pretext ->
  Proofs.UniqueNames.no_haplotypes pretext ->
  (* ADDED for the rank (refuted without: painted_rank_needs_fresh_names) *)
  Forall (fun p => Proofs.UniqueNames.painted_b p = true -> ~ In (fst p) (map fst input)) pretext ->
  (* the other hypotheses of chromosome_numbers_end_to_end *)
  Proofs.UniqueNames.input_namespace_ok prefix input pretext ->
  (length (filter Proofs.UniqueNames.painted_b pretext) <= 191)%nat ->
  Proofs.UniqueNames.no_haplotypes input ->
  NoDup (map fst pretext) ->
  exists rs o,
    remap_to_input repaired g prefix (n, d) input pretext = Ok rs
    /\ remap repaired g prefix (n, d) input pretext = Ok o
    /\ let err := error_length (n, d) in
       forall bait src x,
         In bait (Proofs.CoreKept.baits_of pretext) ->
         In (f_name bait, src) (number_input input 0) ->
         Proofs.CoreKept.in_core err bait x -> Proofs.CoreKept.contig_base src x ->
         f_tags bait = [s "Painted"] ->
         exists r a sc pre suf,
           In r (b_store (rs_b rs)) /\ o_bait r = bait
           /\ Model.OvrSpec.Inv src r /\ Proofs.CoreKept.core_kept err src r
           /\ In a (out_asms o) /\ In sc (oa_scaffolds a)
           /\ sc_rows sc = pre ++ to_scaffold_rows r ++ suf
           /\ sc_rank sc = 1
           /\ (exists pname prows, In (pname, prows) pretext /\ In bait (frags_of prows)
                                   /\ sc_orig sc = Some pname)
           /\ exists k sfx, sc_name sc = prefix ++ str_of_Z (Z.of_nat k + 1) ++ sfx
                            /\ Proofs.UniqueNames.unloc_sfx sfx = true.
Proof.
  intros g prefix n d input pretext Hd Hdn Hin Hnm Hkeys Hunt Hpre Hb Htile Hstr Hnames NHp Hfresh
         INS B191 NHi NDp.
  destruct (c02_end_to_end_painted_rank g prefix n d input pretext Hd Hdn Hin Hnm Hkeys Hunt Hpre Hb Htile
              Hstr Hnames NHp (fun _ => Hfresh)) as (rs & o & Hrs & Ho & HC).
  cbv zeta in HC.
  destruct (Proofs.ChromosomeNumbers.chromosome_numbers_end_to_end g prefix (n, d) input pretext o
              Ho INS B191 NHi NHp NDp) as (chroms & _ & Hnum & _).
  exists rs, o. split; [exact Hrs|]. split; [exact Ho|]. cbv zeta.
  intros bait src x Hbait Hsrc Hcore Hbase Hpt.
  destruct (HC bait src x Hbait Hsrc Hcore Hbase Hpt)
    as (r & a & sc & pre & suf & C1 & C2 & C3 & C4 & Ha & Hsc & C7 & Rk & C9).
  exists r, a, sc, pre, suf. repeat (split; [assumption|]).
  assert (Iout : In sc (Proofs.ChromosomeNumbers.out_scaffolds o)).
  { unfold Proofs.ChromosomeNumbers.out_scaffolds. apply in_flat_map. exists a. split; assumption. }
  destruct (Hnum sc Iout Rk) as (k & orig & sfx & _ & _ & En & Es).
  exists k, sfx. split; assumption.
Qed.

(* ============================================================== non-vacuity
   the painted three-piece map: the bait p1 (tagged Painted, 1..200 of scaf1) has
   contig base 50 in its core; its rows are in a rank-1 output scaffold whose
   original name is P2 *)
Example c02_end_to_end_painted_rank_instance :
  exists o sc a,
    remap repaired Proofs.Completion.ThreePieces.g10 (s "SUPER_") (7, 2)
          Proofs.Completion.ThreePieces.input Proofs.CompletionPainted.PaintedThreePieces.pretext = Ok o
    /\ In a (out_asms o) /\ In sc (oa_scaffolds a) /\ sc_rank sc = 1
    /\ exists k sfx, sc_name sc = s "SUPER_" ++ str_of_Z (Z.of_nat k + 1) ++ sfx.
Proof.
  destruct Instance.hyps as (H1 & H2 & H3 & H4 & H5 & H6 & H7 & H8 & H9 & H10 & H11 & H12).
  destruct (c02_end_to_end_painted_named Proofs.Completion.ThreePieces.g10 (s "SUPER_") 7 2
              Proofs.Completion.ThreePieces.input Proofs.CompletionPainted.PaintedThreePieces.pretext
              H1 H2 H3 H4 H5 H6 H7 H8 H9 H10 H11 H12) as (rs & o & _ & Ho & HC).
  - repeat constructor; cbn; intros _; intuition discriminate.
  - apply Proofs.UniqueNames.input_namespace_ok_b_sound. vm_compute. reflexivity.
  - vm_compute. lia.
  - apply Proofs.UniqueNames.no_haplotypes_b_sound. vm_compute. reflexivity.
  - cbn. repeat constructor; cbn; intuition discriminate.
  - cbv zeta in HC.
    destruct (HC Proofs.CompletionPainted.PaintedThreePieces.p1
                 (snd (hd (s "", []) (number_input Proofs.Completion.ThreePieces.input 0))) 50)
      as (r & a & sc & pre & suf & _ & _ & _ & _ & Ha & Hsc & _ & Rk & _ & k & sfx & En & _).
    + cbn. auto.
    + vm_compute. left. reflexivity.
    + unfold Proofs.CoreKept.in_core. vm_compute. split; discriminate.
    + exists 0%nat. split; [eexists; vm_compute; reflexivity|]. vm_compute. split; discriminate.
    + reflexivity.
    + exists o, sc, a. repeat (split; [assumption|]). exists k, sfx. exact En.
Qed.

Print Assumptions head_LN.
Print Assumptions c02_end_to_end_painted_rank.
Print Assumptions painted_rank_needs_fresh_names.
Print Assumptions c02_end_to_end_painted_named.
Print Assumptions c02_end_to_end_painted_rank_instance.
