(* C02 capstone, part 2 (ingredients of the Pretext-order clause on the final
   output), for maps whose baits carry no tag and are pairwise different:

   same_scaffold_same_key  two stored results whose baits are rows of the SAME
                           Pretext scaffold carry the same fusion key
                           (tag, haplotype, name): the namer is not touched by an
                           untagged bait, and nothing is renamed afterwards;
   store_order             the store lists the results in the order of their
                           baits in the map;
   asc_split               so their ids are met in that order in b_added. *)
From Tola Require Import Py.Base Py.Sort Model.Fragment Model.Scaffold Model.Lookup
  Model.OverlapResult Model.OvrSpec Model.NaturalKey Model.Namer Model.Remap Model.RemapSpec
  Proofs.BaseLemmas Proofs.RemapHead.
From Tola Require Proofs.UniqueNames Proofs.NullMap Proofs.PretextOrder Proofs.CoreKept
  Proofs.CoreKeptResolver Proofs.JoinGaps.
From Coq Require Import Lia ZifyBool Permutation.

Notation baits_of := Proofs.CoreKept.baits_of.
Notation result_key := Proofs.PretextOrder.result_key.

Lemma baits_of_app a b : baits_of (a ++ b) = baits_of a ++ baits_of b.
Proof. unfold Proofs.CoreKept.baits_of. apply flat_map_app. Qed.

(* ------------------------------------------------ pairwise different baits *)
Lemma disjoint_valid_nodup (l : list frag) :
  Proofs.CoreKept.disjoint_baits l -> Forall (fun b => 1 <= f_start b <= f_end b) l -> NoDup l.
Proof.
  unfold Proofs.CoreKept.disjoint_baits. induction 1 as [|x l Hx _ IH]; intro V; [constructor|].
  inversion V as [|? ? Vx Vl]; subst. constructor; [|apply IH; exact Vl].
  intro Hin. rewrite Forall_forall in Hx. specialize (Hx x Hin eq_refl). lia.
Qed.

(* ------------------------------------------- the label of an untagged bait *)
Definition lkey (nm : namer) (tags : list str) : fuse_key :=
  (if nm_target nm && negb (mem_str (s "Target") tags) then Some (s "Contaminant") else None,
   nm_cur_hap nm,
   match nm_cur_name nm with Some n => n | None => [] end).

Lemma one_bait_untagged inp err tags orig b bait b' :
  f_tags bait = [] -> one_bait inp err tags orig b bait = Ok b' ->
  b_namer b' = b_namer b
  /\ (b_store b' = b_store b
      \/ exists r, b_store b' = b_store b ++ [r] /\ o_bait r = bait
                   /\ result_key r = lkey (b_namer b) tags).
Proof.
  intros Hu H. unfold one_bait in H.
  bind_inv H rows Hrows. bind_inv H fo Hfo. destruct fo as [fo|]; [|injection H as <-; auto].
  rewrite Hu in H.
  assert (EL : label_scaffold (b_namer b) (zlen (b_store b)) [] tags
               = Ok (b_namer b,
                     mkLabel (match nm_cur_name (b_namer b) with Some n => n | None => [] end)
                             (if nm_target (b_namer b) && negb (mem_str (s "Target") tags)
                              then Some (s "Contaminant") else None)
                             (nm_cur_hap (b_namer b))
                             (if nm_target (b_namer b) && negb (mem_str (s "Target") tags)
                              then 3 else nm_cur_rank (b_namer b)))) by reflexivity.
  rewrite EL in H. cbn [bind] in H. bind_inv H r1 Hr1.
  pose proof (Proofs.UniqueNames.trim_large_labs _ _ _ Hr1) as L.
  pose proof (Proofs.PretextOrder.trim_large_bait _ _ _ Hr1) as B.
  unfold Proofs.UniqueNames.o_labs in L.
  cbn [set_labels ovr_of_found o_name o_tag o_hap o_rank o_orig o_bait lb_name lb_tag lb_hap lb_rank] in L, B.
  injection L as Ln Lt Lh _ _.
  assert (K : result_key r1 = lkey (b_namer b) tags).
  { rewrite Proofs.PretextOrder.result_key_eq. unfold lkey. rewrite Ln, Lt, Lh. reflexivity. }
  destruct (o_rows r1) as [|x0 t0].
  - injection H as <-. cbn [b_store b_namer]. split; [reflexivity|]. right. exists r1. auto.
  - injection H as <-. unfold store_fragments_found.
    cbn [b_store b_added b_found b_multi b_namer b_cuts].
    destruct (fold_left _ _ _) as [found' multi']. cbn [b_store b_namer].
    split; [reflexivity|]. right. exists r1. auto.
Qed.

Lemma baits_fold_untagged inp err tags orig : forall l b b',
  Forall (fun f => f_tags f = []) l -> foldM (one_bait inp err tags orig) l b = Ok b' ->
  b_namer b' = b_namer b
  /\ exists new, b_store b' = b_store b ++ new
       /\ Forall (fun r => In (o_bait r) l /\ result_key r = lkey (b_namer b) tags) new.
Proof.
  induction l as [|bait l IH]; intros b b' Hu H; cbn [foldM] in H.
  - injection H as <-. split; [reflexivity|]. exists []. rewrite app_nil_r. split; [reflexivity | constructor].
  - bind_inv H b1 Hb1. inversion Hu as [|? ? Hu1 Hu2]; subst.
    destruct (one_bait_untagged _ _ _ _ _ _ _ Hu1 Hb1) as [N1 S1].
    destruct (IH _ _ Hu2 H) as (N2 & new & S2 & F2).
    split; [congruence|]. rewrite N1 in F2.
    assert (F2' : Forall (fun r => In (o_bait r) (bait :: l) /\ result_key r = lkey (b_namer b) tags) new).
    { eapply Forall_impl; [|exact F2]. intros r [X Y]. split; [right; exact X | exact Y]. }
    destruct S1 as [S1 | (r & S1 & Br & Kr)].
    + exists new. rewrite S2, S1. split; [reflexivity | exact F2'].
    + exists (r :: new). rewrite S2, S1, <- app_assoc. split; [reflexivity|].
      constructor; [|exact F2']. split; [left; symmetry; exact Br | exact Kr].
Qed.

Lemma msn_untagged nm pname rows nm' :
  fragment_tags rows = [] -> make_scaffold_name nm pname rows (fragment_tags rows) = Ok nm' ->
  nm_unloc_scaffolds nm' = [] /\ nm_hap_scaffolds nm' = nm_hap_scaffolds nm.
Proof.
  intros E H. rewrite E in H. unfold make_scaffold_name in H. rewrite E in H.
  cbn [foldM bind ts_hap ts_lc ts_primary ts_name ts_painted ts_rank ts_target truthy andb negb] in H.
  bind_inv H hap_lc Hhl. destruct hap_lc as [hap lc1]. cbn [bind] in H.
  bind_inv H nr Hnr. destruct nr as [name rank]. injection H as <-. split; reflexivity.
Qed.

Lemma one_pretext_untagged inp err b pname prows b' :
  Forall (fun f => f_tags f = []) (frags_of prows) ->
  nm_hap_scaffolds (b_namer b) = [] ->
  one_pretext_scaffold inp err b (pname, prows) = Ok b' ->
  nm_hap_scaffolds (b_namer b') = []
  /\ exists new K, b_store b' = b_store b ++ new
       /\ Forall (fun r => In (o_bait r) (frags_of prows) /\ result_key r = K) new.
Proof.
  intros Hu Hh H. unfold one_pretext_scaffold in H.
  bind_inv H nm Hnm. bind_inv H b1 Hb1. bind_inv H st Hst. injection H as <-.
  cbn [with_store b_store b_namer].
  pose proof (Proofs.NullMap.fragment_tags_untagged prows Hu) as Et.
  destruct (msn_untagged _ _ _ _ Et Hnm) as [U1 U2].
  destruct (baits_fold_untagged _ _ _ _ _ _ _ Hu Hb1) as (N1 & new & S1 & F1).
  cbn [with_namer b_namer b_store] in N1, S1, F1.
  rewrite N1, U1, Proofs.NullMap.rename_results_nil in Hst. injection Hst as <-.
  split; [rewrite N1; congruence|]. exists new, (lkey nm (fragment_tags prows)). split; assumption.
Qed.

(* ------------------------------------------------------ over the whole map *)
Definition SK (done : list (str * list row)) (st : list ovr) : Prop :=
  (forall r, In r st -> In (o_bait r) (baits_of done))
  /\ (forall r r' e, In r st -> In r' st -> In e done ->
        In (o_bait r) (frags_of (snd e)) -> In (o_bait r') (frags_of (snd e)) ->
        result_key r = result_key r').

Lemma in_baits_of e done f : In e done -> In f (frags_of (snd e)) -> In f (baits_of done).
Proof. intros He Hf. unfold Proofs.CoreKept.baits_of. apply in_flat_map. exists e. split; assumption. Qed.

Lemma pretext_fold_SK inp err : forall todo done b b',
  NoDup (baits_of (done ++ todo)) ->
  Forall (fun f => f_tags f = []) (baits_of todo) ->
  nm_hap_scaffolds (b_namer b) = [] ->
  SK done (b_store b) ->
  foldM (one_pretext_scaffold inp err) todo b = Ok b' ->
  SK (done ++ todo) (b_store b') /\ nm_hap_scaffolds (b_namer b') = [].
Proof.
  induction todo as [|[pname prows] todo IH]; intros done b b' ND Hu Hh HS H; cbn [foldM] in H.
  - injection H as <-. rewrite app_nil_r. auto.
  - bind_inv H b1 Hb1.
    change ((pname, prows) :: todo) with ([(pname, prows)] ++ todo) in Hu, ND |- *.
    rewrite baits_of_app in Hu. apply Forall_app in Hu. destruct Hu as [Hu1 Hu2].
    unfold Proofs.CoreKept.baits_of in Hu1. cbn [flat_map snd] in Hu1. rewrite app_nil_r in Hu1.
    destruct (one_pretext_untagged _ _ _ _ _ _ Hu1 Hh Hb1) as (Hh1 & new & K & S1 & F1).
    rewrite app_assoc in ND |- *.
    apply (IH (done ++ [(pname, prows)]) b1 b' ND Hu2 Hh1); [|exact H].
    (* the baits of this scaffold are not baits of an earlier one *)
    assert (Fresh : forall f, In f (frags_of prows) -> ~ In f (baits_of done)).
    { rewrite !baits_of_app in ND. apply Proofs.NullMap.NoDup_app_inv in ND. destruct ND as (ND1 & _ & _).
      apply Proofs.NullMap.NoDup_app_inv in ND1. destruct ND1 as (_ & _ & D).
      intros f Hf Hd. apply (D f Hd). unfold Proofs.CoreKept.baits_of. cbn [flat_map snd].
      rewrite app_nil_r. exact Hf. }
    destruct HS as [HS1 HS2]. rewrite S1. rewrite Forall_forall in F1. split.
    + intros r Hr. rewrite baits_of_app. apply in_or_app. apply in_app_or in Hr. destruct Hr as [Hr | Hr].
      * left. apply HS1. exact Hr.
      * right. unfold Proofs.CoreKept.baits_of. cbn [flat_map snd]. rewrite app_nil_r.
        exact (proj1 (F1 r Hr)).
    + intros r r' e Hr Hr' He B B'.
      apply in_app_or in Hr. apply in_app_or in Hr'. apply in_app_or in He.
      destruct He as [He | [<- | []]].
      * (* an earlier scaffold: both results are old *)
        destruct Hr as [Hr | Hr].
        2:{ exfalso. apply (Fresh _ (proj1 (F1 r Hr))). eapply in_baits_of; eassumption. }
        destruct Hr' as [Hr' | Hr'].
        2:{ exfalso. apply (Fresh _ (proj1 (F1 r' Hr'))). eapply in_baits_of; eassumption. }
        exact (HS2 r r' e Hr Hr' He B B').
      * (* this scaffold: both results are new *)
        cbn [snd] in B, B'.
        destruct Hr as [Hr | Hr]; [exfalso; exact (Fresh _ B (HS1 r Hr))|].
        destruct Hr' as [Hr' | Hr']; [exfalso; exact (Fresh _ B' (HS1 r' Hr'))|].
        rewrite (proj2 (F1 r Hr)), (proj2 (F1 r' Hr')). reflexivity.
Qed.

(* SK only reads the baits and the labels *)
Lemma map_eq_nth {A B} (f : A -> B) : forall (l' l : list A) n x',
  map f l' = map f l -> nth_error l' n = Some x' -> exists x, nth_error l n = Some x /\ f x = f x'.
Proof.
  intros l' l n x' E H. pose proof (map_nth_error f _ _ H) as H1. rewrite E in H1.
  rewrite nth_error_map in H1. destruct (nth_error l n) as [x|]; [|discriminate].
  injection H1 as H1. exists x. auto.
Qed.

Lemma labs_key r r' : Proofs.UniqueNames.o_labs r = Proofs.UniqueNames.o_labs r' -> result_key r = result_key r'.
Proof.
  unfold Proofs.UniqueNames.o_labs. intro E. injection E as E1 E2 E3 _ _.
  rewrite !Proofs.PretextOrder.result_key_eq. congruence.
Qed.

Lemma SK_ext done st st' :
  map o_bait st' = map o_bait st ->
  map Proofs.UniqueNames.o_labs st' = map Proofs.UniqueNames.o_labs st ->
  SK done st -> SK done st'.
Proof.
  intros EB EL [H1 H2].
  assert (T : forall r', In r' st' -> exists r, In r st /\ o_bait r = o_bait r' /\ result_key r = result_key r').
  { intros r' Hr'. apply In_nth_error in Hr'. destruct Hr' as (n & Hn).
    destruct (map_eq_nth o_bait _ _ _ _ EB Hn) as (r & Hr & Eb).
    destruct (map_eq_nth Proofs.UniqueNames.o_labs _ _ _ _ EL Hn) as (r0 & Hr0 & El).
    assert (r0 = r) by congruence. subst r0.
    exists r. split; [eapply nth_error_In; exact Hr|]. split; [exact Eb | apply labs_key; exact El]. }
  split.
  - intros r' Hr'. destruct (T r' Hr') as (r & Hr & Eb & _). rewrite <- Eb. apply H1. exact Hr.
  - intros r1' r2' e Hr1 Hr2 He B1 B2.
    destruct (T r1' Hr1) as (r1 & Hi1 & Eb1 & Ek1). destruct (T r2' Hr2) as (r2 & Hi2 & Eb2 & Ek2).
    rewrite <- Ek1, <- Ek2. apply (H2 r1 r2 e Hi1 Hi2 He); [rewrite Eb1 | rewrite Eb2]; assumption.
Qed.

Theorem same_scaffold_same_key : forall c g prefix bpt input pretext rs,
  Forall (fun f => f_tags f = []) (baits_of pretext) ->
  NoDup (baits_of pretext) ->
  remap_to_input c g prefix bpt input pretext = Ok rs ->
  forall r r' pname prows,
    In r (b_store (rs_b rs)) -> In r' (b_store (rs_b rs)) ->
    In (pname, prows) pretext ->
    In (o_bait r) (frags_of prows) -> In (o_bait r') (frags_of prows) ->
    result_key r = result_key r'.
Proof.
  intros c g prefix bpt input pretext rs Hu ND H.
  unfold remap_to_input in H. destruct (has_dup_names (map fst input)); [discriminate|].
  cbv zeta in H.
  bind_inv H b1 Hb1. bind_inv H b2 Hb2. bind_inv H b3 Hb3. bind_inv H st Hst.
  bind_inv H nl Hnl. injection H as <-. cbn [rs_b with_namer with_store b_store].
  destruct (pretext_fold_SK (number_input input 0) (error_length bpt) pretext [] (mkB [] [] [] [] (new_namer prefix) 0) b1 ND Hu eq_refl)
    as [S1 Hh1]; [|exact Hb1|].
  { split; [intros r []|intros r r' e []]. }
  cbn [app] in S1.
  destruct (Proofs.UniqueNames.discard_loop_labs _ _ _ _ Hb2) as (L2 & _ & N2).
  destruct (Proofs.UniqueNames.cut_remaining_labs _ _ _ Hb3) as (L3 & _ & N3).
  destruct (Proofs.PretextOrder.discard_loop_order _ _ _ _ Hb2) as [B2 _].
  destruct (Proofs.PretextOrder.cut_remaining_order _ _ _ Hb3) as [B3 _].
  unfold Proofs.PretextOrder.SBo in B2, B3.
  assert (Eh : nm_hap_scaffolds (b_namer b3) = []) by (rewrite N3, N2; exact Hh1).
  rewrite Eh, Proofs.NullMap.rename_results_nil in Hst. injection Hst as <-.
  assert (S3 : SK pretext (b_store b3)).
  { apply (SK_ext pretext (b_store b1)); [congruence | congruence | exact S1]. }
  intros r r' pname prows Hr Hr' He B B'.
  exact (proj2 S3 r r' (pname, prows) Hr Hr' He B B').
Qed.

(* ------------------------------------------------------------------ order *)
Lemma nodup_split_unique {A} (x : A) : forall a b a' b',
  NoDup (a ++ x :: b) -> a ++ x :: b = a' ++ x :: b' -> a = a' /\ b = b'.
Proof.
  induction a as [|y a IH]; intros b a' b' N E.
  - destruct a' as [|z a']; cbn [app] in E.
    + injection E as ->. auto.
    + injection E as <- E. exfalso. cbn [app] in N. inversion N as [|? ? N1 _]; subst.
      apply N1. apply in_or_app. right. left. reflexivity.
  - destruct a' as [|z a']; cbn [app] in E.
    + injection E as -> E. exfalso. cbn [app] in N. inversion N as [|? ? N1 _]; subst.
      apply N1. apply in_or_app. right. left. reflexivity.
    + injection E as <- E. cbn [app] in N. inversion N as [|? ? _ N2]; subst.
      destruct (IH b a' b' N2 E) as [-> ->]. auto.
Qed.

Lemma nodup_order_contra {A} (x y : A) q1 q2 q3 t1 t2 t3 :
  NoDup (q1 ++ x :: q2 ++ y :: q3) -> q1 ++ x :: q2 ++ y :: q3 = t1 ++ y :: t2 ++ x :: t3 -> False.
Proof.
  intros N E.
  assert (E' : q1 ++ x :: (q2 ++ y :: q3) = (t1 ++ y :: t2) ++ x :: t3).
  { rewrite E, <- app_assoc. reflexivity. }
  destruct (nodup_split_unique x _ _ _ _ N E') as [E1 _].
  apply Proofs.NullMap.NoDup_app_inv in N. destruct N as (_ & _ & D).
  apply (D y).
  - rewrite E1. apply in_or_app. right. left. reflexivity.
  - right. apply in_or_app. right. left. reflexivity.
Qed.

Theorem store_order : forall c g prefix bpt input pretext rs k1 k2 r1 r2 q1 q2 q3,
  NoDup (baits_of pretext) ->
  remap_to_input c g prefix bpt input pretext = Ok rs ->
  nth_error (b_store (rs_b rs)) k1 = Some r1 -> nth_error (b_store (rs_b rs)) k2 = Some r2 ->
  baits_of pretext = q1 ++ o_bait r1 :: q2 ++ o_bait r2 :: q3 ->
  (k1 < k2)%nat.
Proof.
  intros c g prefix bpt input pretext rs k1 k2 r1 r2 q1 q2 q3 ND H H1 H2 EQ.
  destruct (Proofs.PretextOrder.remap_order _ _ _ _ _ _ _ H) as [Hsub _].
  unfold Proofs.PretextOrder.SBo in Hsub.
  destruct (Nat.lt_total k1 k2) as [L | [E | L]]; [exact L | |]; exfalso.
  - subst k2. assert (r2 = r1) by congruence. subst r2.
    rewrite EQ in ND. apply Proofs.NullMap.NoDup_app_inv in ND. destruct ND as (_ & ND & _).
    inversion ND as [|? ? N1 _]; subst. apply N1. apply in_or_app. right. left. reflexivity.
  - destruct (nth_error_split _ _ H2) as (s1 & s' & E2 & L2).
    rewrite E2 in H1. rewrite nth_error_app2 in H1 by lia.
    destruct (k1 - length s1)%nat as [|m] eqn:Em; [lia|]. cbn [nth_error] in H1.
    destruct (nth_error_split _ _ H1) as (s2 & s3 & E3 & _).
    assert (EB : map o_bait (b_store (rs_b rs))
                 = map o_bait s1 ++ o_bait r2 :: (map o_bait s2 ++ o_bait r1 :: map o_bait s3)).
    { rewrite E2, E3, map_app. cbn [map]. rewrite map_app. reflexivity. }
    destruct (Proofs.PretextOrder.subseq_split _ _ Hsub _ _ _ EB) as (t1 & t' & Et & _ & Ht').
    destruct (Proofs.PretextOrder.subseq_split _ _ Ht' _ _ _ eq_refl) as (t2 & t3 & Et' & _ & _).
    rewrite Et' in Et. rewrite EQ in ND. rewrite EQ in Et.
    exact (nodup_order_contra _ _ _ _ _ _ _ _ ND Et).
Qed.

Lemma asc_split hi : forall l lo x y, Proofs.PretextOrder.asc lo hi l -> In x l -> In y l -> x < y ->
  exists l1 l2 l3, l = l1 ++ x :: l2 ++ y :: l3.
Proof.
  induction l as [|z l IH]; intros lo x y A Hx Hy L; [destruct Hx|].
  cbn [Proofs.PretextOrder.asc] in A. destruct A as [A1 A2].
  pose proof (Proofs.PretextOrder.asc_lower _ _ _ A2) as Low. rewrite Forall_forall in Low.
  destruct Hx as [-> | Hx].
  - destruct Hy as [-> | Hy]; [lia|].
    apply in_split in Hy. destruct Hy as (l2 & l3 & ->). exists [], l2, l3. reflexivity.
  - destruct Hy as [-> | Hy]; [specialize (Low x Hx); lia|].
    destruct (IH _ x y A2 Hx Hy L) as (l1 & l2 & l3 & ->). exists (z :: l1), l2, l3. reflexivity.
Qed.

Print Assumptions same_scaffold_same_key.
Print Assumptions store_order.
