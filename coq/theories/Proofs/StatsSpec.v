(* Specification of Model/Stats.v:
     1. chromosome_name_csv  (the chromosome.list.csv file)
     2. name_assemblies      (file-name stems of the output assemblies)
     3. non-vacuity examples
   Every Theorem is closed under the global context (see the end). *)
From Tola Require Import Py.Base Py.Dec Model.Fragment Model.Scaffold Model.Namer Model.Remap Model.Stats.
From Tola Require Import Proofs.BaseLemmas Proofs.Naming.
From Coq Require Import Lia Permutation.

(* ===================================================================== *)
(* 1. the CSV                                                             *)
(* ===================================================================== *)

Definition rank12 (sc : scaffold) : bool := (sc_rank sc =? 1) || (sc_rank sc =? 2).
Definition nl : str := [ascii_of_N 10].
Definition csv_line (name chr loc : str) : str := name ++ comma ++ chr ++ comma ++ loc ++ nl.
Definition chr_of (prefix name : str) : str := replace prefix [] name (Some 1%nat).

(* one step of the loop, in the vocabulary of this file *)
Lemma chr_csv_lines_cons prefix sc t lo cn :
  chr_csv_lines prefix (sc :: t) lo cn =
  if rank12 sc then
    if truthy lo && opt_eqb str_eqb (sc_orig sc) lo
    then csv_line (sc_name sc) cn (s "no") :: chr_csv_lines prefix t lo cn
    else csv_line (sc_name sc) (chr_of prefix (sc_name sc)) (s "yes")
           :: chr_csv_lines prefix t (sc_orig sc) (chr_of prefix (sc_name sc))
  else chr_csv_lines prefix t lo cn.
Proof. reflexivity. Qed.

(* ------------------------------------------------------------- 1(a) *)
Theorem csv_ignores_rank3 : forall prefix scs lo cn,
  chr_csv_lines prefix scs lo cn = chr_csv_lines prefix (filter rank12 scs) lo cn.
Proof.
  intros prefix scs; induction scs as [|sc t IH]; intros lo cn; [reflexivity|].
  cbn [filter]. rewrite chr_csv_lines_cons. destruct (rank12 sc) eqn:E; [|apply IH].
  rewrite chr_csv_lines_cons, E.
  destruct (truthy lo && opt_eqb str_eqb (sc_orig sc) lo); f_equal; apply IH.
Qed.

Theorem csv_line_count : forall prefix scs lo cn,
  length (chr_csv_lines prefix scs lo cn)
  = length (filter (fun sc => (sc_rank sc =? 1) || (sc_rank sc =? 2)) scs).
Proof.
  intros prefix scs; induction scs as [|sc t IH]; intros lo cn; [reflexivity|].
  rewrite chr_csv_lines_cons. cbn [filter]. fold (rank12 sc).
  destruct (rank12 sc); [|apply IH].
  destruct (truthy lo && opt_eqb str_eqb (sc_orig sc) lo); cbn [length]; f_equal; apply IH.
Qed.

Theorem csv_none_iff : forall prefix scs,
  chromosome_name_csv prefix scs = None
  <-> (forall sc, In sc scs -> (sc_rank sc =? 1) || (sc_rank sc =? 2) = false).
Proof.
  intros prefix scs. unfold chromosome_name_csv.
  assert (L := csv_line_count prefix scs None []).
  split.
  - intros H sc Hin.
    destruct (chr_csv_lines prefix scs None []) eqn:E; [|discriminate].
    cbn [length] in L. symmetry in L. apply length_zero_iff_nil in L.
    destruct ((sc_rank sc =? 1) || (sc_rank sc =? 2)) eqn:R; [|reflexivity].
    assert (Hf : In sc (filter (fun sc => (sc_rank sc =? 1) || (sc_rank sc =? 2)) scs))
      by (apply filter_In; split; assumption).
    rewrite L in Hf. destruct Hf.
  - intros H.
    assert (F : filter (fun sc => (sc_rank sc =? 1) || (sc_rank sc =? 2)) scs = []).
    { clear L. induction scs as [|sc t IH]; [reflexivity|]. cbn [filter].
      rewrite (H sc (or_introl eq_refl)). apply IH. intros x Hx. apply H. right. exact Hx. }
    rewrite F in L. cbn [length] in L. apply length_zero_iff_nil in L. rewrite L. reflexivity.
Qed.

(* and when it is not None it is the concatenation of the lines *)
Theorem csv_some : forall prefix scs x,
  chromosome_name_csv prefix scs = Some x -> x = concat (chr_csv_lines prefix scs None []).
Proof.
  intros prefix scs x. unfold chromosome_name_csv.
  destruct (chr_csv_lines prefix scs None []); [discriminate|]. intros [= <-]. reflexivity.
Qed.

(* ------------------------------------------------------------- 1(b) *)
Definition is_csv_line_of (sc : scaffold) (line : str) : Prop :=
  exists chr loc, (loc = s "yes" \/ loc = s "no")
                  /\ line = sc_name sc ++ s "," ++ chr ++ s "," ++ loc ++ s "
".

Theorem csv_lines_shape : forall prefix scs lo cn,
  Forall2 is_csv_line_of (filter rank12 scs) (chr_csv_lines prefix scs lo cn).
Proof.
  intros prefix scs; induction scs as [|sc t IH]; intros lo cn; [constructor|].
  rewrite chr_csv_lines_cons. cbn [filter]. destruct (rank12 sc); [|apply IH].
  destruct (truthy lo && opt_eqb str_eqb (sc_orig sc) lo); constructor; try apply IH.
  - exists cn, (s "no"). split; [right|]; reflexivity.
  - exists (chr_of prefix (sc_name sc)), (s "yes"). split; [left|]; reflexivity.
Qed.

(* ------------------------------------------------------------- 1(c) *)
(* str.replace(old, new, 1) *)
Lemma replace_fuel_count0 old new : forall fuel x, replace_fuel fuel old new x (Some 0%nat) = x.
Proof.
  induction fuel as [|fuel IH]; intros x; [reflexivity|].
  destruct x as [|c x]; [reflexivity|]. cbn [replace_fuel negb andb]. f_equal. apply IH.
Qed.

Lemma replace_fuel_no_occ_count old new : forall x fuel count,
  (forall j, (j < length x)%nat -> starts_with old (skipn j x) = false) ->
  replace_fuel fuel old new x count = x.
Proof.
  induction x as [|c x IH]; intros fuel count H; destruct fuel as [|fuel]; cbn [replace_fuel]; try reflexivity.
  assert (H0 := H 0%nat). cbn [skipn length] in H0. rewrite H0 by lia.
  rewrite andb_false_r. f_equal.
  apply IH. intros j Hj. apply (H (S j)). cbn [length]; lia.
Qed.

Theorem replace_no_occurrence : forall old new x count,
  (forall j, (j < length x)%nat -> starts_with old (skipn j x) = false) ->
  replace old new x count = x.
Proof.
  intros old new x count H. unfold replace. destruct old; [reflexivity|].
  apply replace_fuel_no_occ_count. exact H.
Qed.

Theorem replace_once_prefix : forall old new sfx, old <> [] ->
  replace old new (old ++ sfx) (Some 1%nat) = new ++ sfx.
Proof.
  intros old new sfx Hne. unfold replace.
  destruct old as [|c old']; [congruence|].
  change (c :: old' ++ sfx) with ((c :: old') ++ sfx).
  remember (c :: old') as old eqn:Eo.
  assert (E : forall fuel, replace_fuel (S fuel) old new (old ++ sfx) (Some 1%nat)
                           = new ++ replace_fuel fuel old new sfx (Some 0%nat)).
  { intro fuel. cbn [replace_fuel]. cbn [negb andb].
    rewrite starts_with_app, skipn_app_exact. rewrite Eo at 1. reflexivity. }
  rewrite E, replace_fuel_count0. reflexivity.
Qed.

(* the chromosome name: the scaffold name with the autosome prefix removed *)
Theorem chr_of_prefixed : forall prefix x, prefix <> [] -> chr_of prefix (prefix ++ x) = x.
Proof. intros. unfold chr_of. rewrite replace_once_prefix by assumption. reflexivity. Qed.

Theorem chr_of_unprefixed : forall prefix name,
  (forall j, (j < length name)%nat -> starts_with prefix (skipn j name) = false) ->
  chr_of prefix name = name.
Proof. intros. apply replace_no_occurrence. assumption. Qed.

Theorem chr_of_empty_prefix : forall name, chr_of [] name = name.
Proof. reflexivity. Qed.

(* a chromosome group *)
Record chr_grp := mkGrp { g_main : scaffold; g_unlocs : list scaffold; g_orig : str }.
Definition grp_scs (g : chr_grp) : list scaffold := g_main g :: g_unlocs g.
Definition grp_ok (g : chr_grp) : Prop :=
  g_orig g <> [] /\
  Forall (fun sc => sc_orig sc = Some (g_orig g) /\ rank12 sc = true) (grp_scs g).
Fixpoint adjacent_differ (gs : list chr_grp) : Prop :=
  match gs with
  | g1 :: (g2 :: _) as t => g_orig g1 <> g_orig g2 /\ adjacent_differ t
  | _ => True
  end.
Definition grp_lines (prefix : str) (g : chr_grp) : list str :=
  let chr := replace prefix [] (sc_name (g_main g)) (Some 1%nat) in
  (sc_name (g_main g) ++ s "," ++ chr ++ s ",yes
")
    :: map (fun u => sc_name u ++ s "," ++ chr ++ s ",no
") (g_unlocs g).

Lemma not_same lo o : lo <> Some o -> truthy lo && opt_eqb str_eqb (Some o) lo = false.
Proof.
  intros H. destruct lo as [l|]; [|reflexivity]. cbn [opt_eqb].
  destruct (str_eqb o l) eqn:E; [|apply andb_false_r].
  apply str_eqb_eq in E. subst. congruence.
Qed.

Lemma is_same o : o <> [] -> truthy (Some o) && opt_eqb str_eqb (Some o) (Some o) = true.
Proof. intros H. destruct o; [congruence|]. cbn [truthy opt_eqb andb]. apply str_eqb_refl. Qed.

Lemma csv_unlocs prefix o cn : o <> [] -> forall us rest,
  Forall (fun sc => sc_orig sc = Some o /\ rank12 sc = true) us ->
  chr_csv_lines prefix (us ++ rest) (Some o) cn
  = map (fun u => sc_name u ++ s "," ++ cn ++ s ",no
") us ++ chr_csv_lines prefix rest (Some o) cn.
Proof.
  intros Ho us rest; induction us as [|u us IH]; intros F; [reflexivity|].
  inversion F as [|? ? [Eo Er] F']; subst.
  cbn [app map]. rewrite chr_csv_lines_cons, Er, Eo, (is_same o Ho). f_equal. apply IH. exact F'.
Qed.

Theorem csv_groups_gen : forall prefix groups lo cn,
  Forall grp_ok groups -> adjacent_differ groups ->
  match groups with g :: _ => lo <> Some (g_orig g) | [] => True end ->
  chr_csv_lines prefix (flat_map grp_scs groups) lo cn = flat_map (grp_lines prefix) groups.
Proof.
  intros prefix groups; induction groups as [|g gs IH]; intros lo cn F A L; [reflexivity|].
  inversion F as [|? ? [Ho Fg] F']; subst.
  cbn [flat_map]. unfold grp_scs at 1. cbn [app].
  inversion Fg as [|? ? [Eo Er] Fu]; subst.
  rewrite chr_csv_lines_cons, Er, Eo, (not_same lo _ L).
  unfold grp_lines at 1. cbn [app]. f_equal.
  rewrite csv_unlocs by assumption. f_equal.
  apply IH; [exact F' | destruct gs; [exact I | apply A] |].
  destruct gs as [|g2 gs]; [exact I|]. destruct A as [A _]. congruence.
Qed.

(* localised = "no" exactly for the unlocs, each carrying its chromosome's name *)
Theorem csv_groups : forall prefix groups,
  Forall grp_ok groups -> adjacent_differ groups ->
  chr_csv_lines prefix (flat_map (fun g => g_main g :: g_unlocs g) groups) None []
  = flat_map (fun g =>
      let chr := replace prefix [] (sc_name (g_main g)) (Some 1%nat) in
      (sc_name (g_main g) ++ s "," ++ chr ++ s ",yes
")
        :: map (fun u => sc_name u ++ s "," ++ chr ++ s ",no
") (g_unlocs g)) groups.
Proof.
  intros prefix groups F A. apply (csv_groups_gen prefix groups None [] F A).
  destruct groups; [exact I | discriminate].
Qed.

(* with other (rank 3) scaffolds interleaved anywhere *)
Corollary csv_groups_interleaved : forall prefix groups scs,
  Forall grp_ok groups -> adjacent_differ groups ->
  filter rank12 scs = flat_map grp_scs groups ->
  chr_csv_lines prefix scs None [] = flat_map (grp_lines prefix) groups.
Proof.
  intros prefix groups scs F A E. rewrite csv_ignores_rank3, E. apply csv_groups; assumption.
Qed.

(* ------------------------------------------------------------- 1(d) *)
Definition mk_sc (name : string) (rank : Z) (orig : string) : scaffold :=
  mkScaffold (s name) [] None None rank (Some (s orig)) [].
Arguments mk_sc name%string_scope rank%Z_scope orig%string_scope.

(* known weakness (recorded finding): the main scaffold of a chromosome is
   missing and its unloc comes first -- the unloc is reported as localised,
   and its "chromosome" is its own name *)
Example csv_orphan_unloc :
  chr_csv_lines (s "SUPER_") [mk_sc "SUPER_4_unloc_1" 2 "Scaffold_4"] None []
  = [s "SUPER_4_unloc_1,4_unloc_1,yes
"].
Proof. vm_compute. reflexivity. Qed.

(* same cause: the unloc sorted before its main scaffold swaps the roles *)
Example csv_unloc_before_main :
  chr_csv_lines (s "SUPER_")
    [mk_sc "SUPER_4_unloc_1" 2 "Scaffold_4"; mk_sc "SUPER_4" 1 "Scaffold_4"] None []
  = [s "SUPER_4_unloc_1,4_unloc_1,yes
"; s "SUPER_4,4_unloc_1,no
"].
Proof. vm_compute. reflexivity. Qed.

(* why [adjacent_differ] is needed: two chromosomes cut from the same Pretext
   scaffold, one after the other -- the second main scaffold reads as an unloc *)
Example csv_same_orig_adjacent :
  chr_csv_lines (s "SUPER_")
    [mk_sc "SUPER_1" 1 "Scaffold_1"; mk_sc "SUPER_2" 1 "Scaffold_1"] None []
  = [s "SUPER_1,1,yes
"; s "SUPER_2,1,no
"].
Proof. vm_compute. reflexivity. Qed.

(* why [o <> []]: with an empty (falsy) original name nothing is ever an unloc *)
Example csv_empty_orig :
  chr_csv_lines (s "SUPER_")
    [mk_sc "SUPER_1" 1 ""; mk_sc "SUPER_1_unloc_1" 2 ""] None []
  = [s "SUPER_1,1,yes
"; s "SUPER_1_unloc_1,1_unloc_1,yes
"].
Proof. vm_compute. reflexivity. Qed.

(* ===================================================================== *)
(* 2. name_assemblies                                                     *)
(* ===================================================================== *)

Definition has_key (k : option str) (asms : list out_asm) : bool :=
  existsb (fun a => opt_eqb str_eqb (oa_key a) k) asms.

Lemma foldM_snoc {A B} (g : A -> res (list B)) (f : list B -> A -> res (list B)) :
  (forall acc a, f acc a = do x <- g a; Ok (acc ++ x)) ->
  forall l acc, foldM f l acc = do xs <- mapM g l; Ok (acc ++ concat xs).
Proof.
  intros H l; induction l as [|a l IH]; intros acc; cbn [foldM mapM bind concat].
  - rewrite app_nil_r. reflexivity.
  - rewrite H. destruct (g a) as [x|e]; cbn [bind]; [|reflexivity].
    rewrite IH. destruct (mapM g l); cbn [bind concat]; [|reflexivity].
    rewrite app_assoc. reflexivity.
Qed.

Lemma foldM_map {A B} (h : A -> B) (f : list B -> A -> res (list B)) : forall l,
  (forall acc a, In a l -> f acc a = Ok (acc ++ [h a])) ->
  forall acc, foldM f l acc = Ok (acc ++ map h l).
Proof.
  induction l as [|a l IH]; intros H acc; cbn [foldM map bind].
  - rewrite app_nil_r. reflexivity.
  - rewrite H by (left; reflexivity). cbn [bind].
    rewrite IH by (intros; apply H; right; assumption).
    rewrite <- app_assoc. reflexivity.
Qed.

Definition key_str (k : option str) : str := match k with Some t => t | None => [] end.

(* ---- the Primary branch *)
Definition primary_entry (root v : str) (a : out_asm) : list named_asm :=
  if is_primary_key (oa_key a)
  then [mkNamed (oa_key a) (stem root v (s "primary")) (oa_curated a) (oa_scaffolds a)]
  else if oa_curated a then []
  else [mkNamed (oa_key a) (stem root v (lower (key_str (oa_key a)) ++ s "s")) false (oa_scaffolds a)].

Definition is_merged (a : out_asm) : bool := negb (is_primary_key (oa_key a)) && oa_curated a.
Definition merged (asms : list out_asm) : list out_asm := filter is_merged asms.
Definition kept (asms : list out_asm) : list out_asm := filter (fun a => negb (is_merged a)) asms.

Definition all_haplotigs_na (root v : str) (asms : list out_asm) : named_asm :=
  mkNamed (Some (s "all_haplotigs")) (stem root v (s "all_haplotigs")) true
          (flat_map oa_scaffolds (merged asms)).

Definition primary_result (root v : str) (asms : list out_asm) : list named_asm :=
  flat_map (primary_entry root v) asms
  ++ match merged asms with [] => [] | _ => [all_haplotigs_na root v asms] end.

(* the assemblies on which asm_key.lower() is called with asm_key = None *)
Definition none_uncurated (a : out_asm) : bool :=
  match oa_key a with None => negb (oa_curated a) | Some _ => false end.

Definition g_primary (root v : str) (a : out_asm) : res (list named_asm) :=
  if is_primary_key (oa_key a)
  then Ok [mkNamed (oa_key a) (stem root v (s "primary")) (oa_curated a) (oa_scaffolds a)]
  else if oa_curated a then Ok []
  else do l <- key_lower (oa_key a);
       Ok [mkNamed (oa_key a) (stem root v (l ++ s "s")) false (oa_scaffolds a)].

Lemma g_primary_eq root v a :
  g_primary root v a
  = if none_uncurated a then Err AttributeError else Ok (primary_entry root v a).
Proof.
  unfold g_primary, primary_entry, none_uncurated.
  destruct (oa_key a) as [t|]; cbn [is_primary_key opt_eqb key_lower key_str bind].
  - destruct (str_eqb t (s "Primary")), (oa_curated a); reflexivity.
  - destruct (oa_curated a); reflexivity.
Qed.

Lemma mapM_g_primary root v : forall asms,
  mapM (g_primary root v) asms
  = if existsb none_uncurated asms then Err AttributeError
    else Ok (map (primary_entry root v) asms).
Proof.
  induction asms as [|a l IH]; [reflexivity|].
  cbn [mapM existsb map]. rewrite IH, g_primary_eq.
  destruct (none_uncurated a), (existsb none_uncurated l); reflexivity.
Qed.

(* ---- the single-haplotype branch *)
Definition single_na (root v : str) (a : out_asm) : named_asm :=
  match oa_key a with
  | None => mkNamed None (stem root v (s "primary")) (oa_curated a) (oa_scaffolds a)
  | Some t =>
      if str_eqb t (s "Haplotig")
      then mkNamed (Some (s "additional_haplotigs")) (stem root v (s "additional_haplotigs")) true
                   (oa_scaffolds a)
      else mkNamed (Some t) (stem root v (lower t ++ s "s")) (oa_curated a) (oa_scaffolds a)
  end.

(* ---- the multi-haplotype branch *)
Definition multi_na (root v : str) (a : out_asm) : named_asm :=
  let l := lower (key_str (oa_key a)) in
  if oa_curated a
  then mkNamed (oa_key a) (root ++ s "." ++ l ++ s "." ++ v ++ s "." ++ s "primary") true (oa_scaffolds a)
  else mkNamed (oa_key a) (root ++ s "." ++ v ++ s "." ++ l ++ s "s") false (oa_scaffolds a).

Lemma has_key_false k asms :
  has_key k asms = false -> forall a, In a asms -> oa_key a <> k.
Proof.
  unfold has_key. intros H a Hin E.
  assert (X : existsb (fun a => opt_eqb str_eqb (oa_key a) k) asms = true).
  { apply existsb_exists. exists a. split; [exact Hin|]. rewrite E.
    destruct k; cbn [opt_eqb]; [apply str_eqb_refl | reflexivity]. }
  congruence.
Qed.

Lemma has_key_true k asms :
  has_key k asms = true <-> exists a, In a asms /\ oa_key a = k.
Proof.
  unfold has_key. rewrite existsb_exists. split; intros [a [Hin E]]; exists a; (split; [exact Hin|]).
  - destruct (oa_key a), k; cbn [opt_eqb] in E; try discriminate; [|reflexivity].
    apply str_eqb_eq in E. congruence.
  - rewrite E. destruct k; cbn [opt_eqb]; [apply str_eqb_refl | reflexivity].
Qed.

(* ---- name_assemblies, completely characterised *)
Theorem name_assemblies_spec : forall asms root v,
  name_assemblies asms root v =
  if has_key (Some (s "Primary")) asms then
    if existsb none_uncurated asms then Err AttributeError
    else Ok (primary_result root v asms)
  else if has_key None asms then Ok (map (single_na root v) asms)
  else Ok (map (multi_na root v) asms).
Proof.
  intros asms root v. unfold name_assemblies. cbv zeta. fold (has_key (Some (s "Primary")) asms).
  fold (has_key None asms).
  destruct (has_key (Some (s "Primary")) asms) eqn:HP.
  - rewrite (foldM_snoc (g_primary root v)) by (intros acc a; unfold g_primary;
      destruct (is_primary_key (oa_key a)); [reflexivity|];
      destruct (oa_curated a); [cbn [bind]; rewrite app_nil_r; reflexivity|];
      destruct (key_lower (oa_key a)); reflexivity).
    rewrite mapM_g_primary. destruct (existsb none_uncurated asms); [reflexivity|].
    cbn [bind app]. unfold primary_result, all_haplotigs_na, merged, is_merged.
    rewrite <- (flat_map_concat_map (primary_entry root v) asms).
    destruct (filter (fun a => negb (is_primary_key (oa_key a)) && oa_curated a) asms); [|reflexivity].
    rewrite app_nil_r. reflexivity.
  - destruct (has_key None asms) eqn:HN.
    + rewrite (foldM_map (single_na root v)); [reflexivity|].
      intros acc a _. unfold single_na. destruct (oa_key a) as [t|]; [|reflexivity].
      destruct (str_eqb t (s "Haplotig")); reflexivity.
    + rewrite (foldM_map (multi_na root v)); [reflexivity|].
      intros acc a Hin. unfold multi_na. assert (K := has_key_false _ _ HN a Hin).
      destruct (oa_key a) as [t|]; [|congruence]. cbn [key_lower bind key_str].
      destruct (oa_curated a); reflexivity.
Qed.

(* ------------------------------------------------------------- 2(a) *)
Lemma flat_map_partition {A B} (f : A -> list B) (q : A -> bool) : forall l,
  Permutation (flat_map f (filter (fun a => negb (q a)) l) ++ flat_map f (filter q l)) (flat_map f l).
Proof.
  induction l as [|a l IH]; [constructor|].
  cbn [filter flat_map]. destruct (q a); cbn [negb flat_map].
  - etransitivity; [apply Permutation_app_swap_app|]. apply Permutation_app_head. exact IH.
  - rewrite <- app_assoc. apply Permutation_app_head. exact IH.
Qed.

Lemma primary_entry_scaffolds root v : forall asms,
  map na_scaffolds (flat_map (primary_entry root v) asms) = map oa_scaffolds (kept asms).
Proof.
  induction asms as [|a l IH]; [reflexivity|].
  unfold kept in *. cbn [flat_map filter]. rewrite map_app, IH.
  unfold primary_entry, is_merged.
  destruct (is_primary_key (oa_key a)), (oa_curated a); reflexivity.
Qed.

Lemma primary_entry_keys root v : forall asms,
  map na_key (flat_map (primary_entry root v) asms) = map oa_key (kept asms).
Proof.
  induction asms as [|a l IH]; [reflexivity|].
  unfold kept in *. cbn [flat_map filter]. rewrite map_app, IH.
  unfold primary_entry, is_merged.
  destruct (is_primary_key (oa_key a)), (oa_curated a); reflexivity.
Qed.

Lemma flat_map_via_map {A B} (f : A -> list B) l : flat_map f l = concat (map f l).
Proof. apply flat_map_concat_map. Qed.

(* order statement, Primary branch: first the assemblies that are kept, in
   order, then the scaffolds of the merged ones, in order *)
Theorem name_assemblies_primary_order : forall asms root v l,
  has_key (Some (s "Primary")) asms = true ->
  name_assemblies asms root v = Ok l ->
  flat_map na_scaffolds l
  = flat_map oa_scaffolds (kept asms) ++ flat_map oa_scaffolds (merged asms).
Proof.
  intros asms root v l HP. rewrite name_assemblies_spec, HP.
  destruct (existsb none_uncurated asms); [discriminate|]. intros [= <-].
  unfold primary_result. rewrite flat_map_app. f_equal.
  - rewrite (flat_map_via_map na_scaffolds), (flat_map_via_map oa_scaffolds (kept asms)),
      primary_entry_scaffolds. reflexivity.
  - unfold all_haplotigs_na. destruct (merged asms); [reflexivity|].
    cbn [flat_map na_scaffolds]. apply app_nil_r.
Qed.

(* order statement, the two other branches: assembly by assembly *)
Theorem name_assemblies_other_order : forall asms root v l,
  has_key (Some (s "Primary")) asms = false ->
  name_assemblies asms root v = Ok l ->
  map na_scaffolds l = map oa_scaffolds asms.
Proof.
  intros asms root v l HP. rewrite name_assemblies_spec, HP.
  destruct (has_key None asms); intros [= <-]; rewrite map_map; apply map_ext; intro a.
  - unfold single_na. destruct (oa_key a) as [t|]; [|reflexivity].
    destruct (str_eqb t (s "Haplotig")); reflexivity.
  - unfold multi_na. destruct (oa_curated a); reflexivity.
Qed.

(* no scaffold is lost or duplicated; the distinctness of the keys is not
   even needed *)
Theorem name_assemblies_preserves_scaffolds_strong : forall asms root v l,
  name_assemblies asms root v = Ok l ->
  Permutation (flat_map na_scaffolds l) (flat_map oa_scaffolds asms).
Proof.
  intros asms root v l H.
  destruct (has_key (Some (s "Primary")) asms) eqn:HP.
  - rewrite (name_assemblies_primary_order _ _ _ _ HP H). apply flat_map_partition.
  - rewrite !flat_map_via_map, (name_assemblies_other_order _ _ _ _ HP H). reflexivity.
Qed.

Theorem name_assemblies_preserves_scaffolds : forall asms root v l,
  name_assemblies asms root v = Ok l -> NoDup (map oa_key asms) ->
  Permutation (flat_map na_scaffolds l) (flat_map oa_scaffolds asms).
Proof. intros asms root v l H _. eapply name_assemblies_preserves_scaffolds_strong; eassumption. Qed.

(* ------------------------------------------------------------- 2(b) *)
Theorem name_assemblies_error_iff : forall asms root v e,
  name_assemblies asms root v = Err e
  <-> e = AttributeError
      /\ has_key (Some (s "Primary")) asms = true
      /\ exists a, In a asms /\ oa_key a = None /\ oa_curated a = false.
Proof.
  intros asms root v e. rewrite name_assemblies_spec.
  assert (X : existsb none_uncurated asms = true
              <-> exists a, In a asms /\ oa_key a = None /\ oa_curated a = false).
  { rewrite existsb_exists. unfold none_uncurated.
    split; intros [a [Hin H]]; exists a; (split; [exact Hin|]).
    - destruct (oa_key a); [discriminate|]. destruct (oa_curated a); [discriminate|]. split; reflexivity.
    - destruct H as [-> ->]. reflexivity. }
  destruct (has_key (Some (s "Primary")) asms).
  - destruct (existsb none_uncurated asms).
    + split; [intros [= <-]; split; [reflexivity|]; split; [reflexivity|]; apply X; reflexivity|].
      intros [-> _]. reflexivity.
    + split; [discriminate|]. intros [_ [_ H]]. apply X in H. discriminate.
  - split; [destruct (has_key None asms); discriminate|]. intros [_ [H _]]. discriminate.
Qed.

Corollary name_assemblies_no_primary_ok : forall asms root v,
  has_key (Some (s "Primary")) asms = false -> exists l, name_assemblies asms root v = Ok l.
Proof.
  intros asms root v HP. destruct (name_assemblies asms root v) as [l|e] eqn:E; [eauto|].
  apply name_assemblies_error_iff in E. destruct E as [_ [H _]]. congruence.
Qed.

(* ------------------------------------------------------------- 2(c) *)
Theorem name_assemblies_single : forall asms root v,
  has_key (Some (s "Primary")) asms = false -> has_key None asms = true ->
  name_assemblies asms root v = Ok (map (single_na root v) asms).
Proof. intros asms root v HP HN. rewrite name_assemblies_spec, HP, HN. reflexivity. Qed.

(* the stems, key by key *)
Theorem single_na_stems : forall root v a,
  (oa_key a = None -> na_name (single_na root v a) = root ++ s "." ++ v ++ s ".primary") /\
  (oa_key a = Some (s "Haplotig") ->
     na_name (single_na root v a) = root ++ s "." ++ v ++ s ".additional_haplotigs"
     /\ na_key (single_na root v a) = Some (s "additional_haplotigs")
     /\ na_curated (single_na root v a) = true) /\
  (forall t, oa_key a = Some t -> t <> s "Haplotig" ->
     na_name (single_na root v a) = root ++ s "." ++ v ++ s "." ++ lower t ++ s "s"
     /\ na_key (single_na root v a) = Some t
     /\ na_curated (single_na root v a) = oa_curated a).
Proof.
  intros root v a. unfold single_na. split; [|split].
  - intros ->. reflexivity.
  - intros ->. cbn. repeat split; reflexivity.
  - intros t -> Ht. apply str_eqb_neq in Ht. rewrite Ht. repeat split; reflexivity.
Qed.

(* what decides the file name in this branch *)
Definition single_norm (k : option str) : option str :=
  match k with
  | None => None
  | Some t => Some (if str_eqb t (s "Haplotig") then s "additional_haplotig" else lower t)
  end.

Definition single_what (k : option str) : str :=
  match k with None => s "primary" | Some t => key_str (single_norm (Some t)) ++ s "s" end.

Lemma single_na_name root v a : na_name (single_na root v a) = stem root v (single_what (oa_key a)).
Proof.
  unfold single_na, single_what, single_norm. destruct (oa_key a) as [t|]; [|reflexivity].
  destruct (str_eqb t (s "Haplotig")); reflexivity.
Qed.

Lemma stem_inj root v a b : stem root v a = stem root v b -> a = b.
Proof. unfold stem. intros H. repeat apply app_inv_head in H. exact H. Qed.

(* "primary" ends in y, every other stem ends in s: the None assembly never
   clashes with another one, so no condition about "primar" is needed *)
Lemma primary_not_plural x : s "primary" <> x ++ s "s".
Proof.
  intros H. change (s "primary") with (s "primar" ++ ["y"%char]) in H.
  change (s "s") with ["s"%char] in H. apply app_inj_tail in H. destruct H as [_ H]. discriminate.
Qed.

Lemma single_what_eq_iff k k' : single_what k = single_what k' <-> single_norm k = single_norm k'.
Proof.
  destruct k as [t|], k' as [t'|]; unfold single_what; cbn [single_norm key_str].
  - split; intros H; [apply app_inv_tail in H; congruence | injection H as H; f_equal; exact H].
  - split; [intros H; symmetry in H; apply primary_not_plural in H; destruct H | discriminate].
  - split; [intros H; apply primary_not_plural in H; destruct H | discriminate].
  - split; reflexivity.
Qed.

Lemma NoDup_map_transfer {A B C} (f : A -> B) (g : A -> C) : forall l,
  (forall x y, In x l -> In y l -> g x = g y -> f x = f y) ->
  NoDup (map f l) -> NoDup (map g l).
Proof.
  induction l as [|a l IH]; intros H N; [constructor|].
  cbn [map] in *. inversion N as [|? ? Hn N']; subst. constructor.
  - intros Hin. apply in_map_iff in Hin. destruct Hin as [x [E Hx]]. apply Hn.
    rewrite <- (H x a); [apply in_map; exact Hx | right; exact Hx | left; reflexivity | exact E].
  - apply IH; [|exact N']. intros x y Hx Hy. apply H; right; assumption.
Qed.

Lemma Some_inj {A} (a b : A) : Some a = Some b -> a = b.
Proof. intros [= ->]. reflexivity. Qed.

(* exact condition for the file names to be pairwise different *)
Theorem single_names_nodup_iff : forall asms root v,
  NoDup (map na_name (map (single_na root v) asms)) <-> NoDup (map single_norm (map oa_key asms)).
Proof.
  intros asms root v. rewrite !map_map. split; apply NoDup_map_transfer; intros x y _ _ H.
  - rewrite !single_na_name. f_equal. apply single_what_eq_iff. exact H.
  - rewrite !single_na_name in H. apply stem_inj in H. apply single_what_eq_iff. exact H.
Qed.

(* a sufficient condition in plain terms: the keys differ after lower-casing,
   and if "Haplotig" is present no key lower-cases to "additional_haplotig" *)
Theorem single_names_nodup : forall asms root v l,
  has_key (Some (s "Primary")) asms = false -> has_key None asms = true ->
  name_assemblies asms root v = Ok l ->
  NoDup (map (option_map lower) (map oa_key asms)) ->
  (In (Some (s "Haplotig")) (map oa_key asms) ->
   forall t, In (Some t) (map oa_key asms) -> lower t <> s "additional_haplotig") ->
  NoDup (map na_name l).
Proof.
  intros asms root v l HP HN E N C.
  rewrite name_assemblies_single in E by assumption. injection E as <-.
  apply single_names_nodup_iff.
  revert N. apply NoDup_map_transfer. intros k k' Hk Hk' H.
  destruct k as [t|], k' as [t'|]; cbn [single_norm option_map] in *; try discriminate; [|reflexivity].
  apply Some_inj in H. f_equal.
  destruct (str_eqb t (s "Haplotig")) eqn:E1, (str_eqb t' (s "Haplotig")) eqn:E2.
  - apply str_eqb_eq in E1, E2. congruence.
  - apply str_eqb_eq in E1. subst t. exfalso. apply (C Hk t' Hk'). symmetry. exact H.
  - apply str_eqb_eq in E2. subst t'. exfalso. apply (C Hk' t Hk). exact H.
  - exact H.
Qed.

(* without the side conditions two assemblies are written to the same file *)
Definition oa (k : string) (cur : bool) (scs : list scaffold) : out_asm :=
  mkOutAsm (Some (s k)) cur scs.
Arguments oa k%string_scope cur scs.
Definition oa_none (cur : bool) (scs : list scaffold) : out_asm := mkOutAsm None cur scs.

Example single_clash_haplotig :
  option_map (map na_name)
    (match name_assemblies [oa_none true []; oa "Haplotig" false [];
                            oa "additional_haplotig" false []] (s "ilFoo1") (s "1")
     with Ok l => Some l | Err _ => None end)
  = Some [s "ilFoo1.1.primary"; s "ilFoo1.1.additional_haplotigs"; s "ilFoo1.1.additional_haplotigs"].
Proof. vm_compute. reflexivity. Qed.

Example single_clash_case :
  option_map (map na_name)
    (match name_assemblies [oa_none true []; oa "Contaminant" false [];
                            oa "contaminant" false []] (s "ilFoo1") (s "1")
     with Ok l => Some l | Err _ => None end)
  = Some [s "ilFoo1.1.primary"; s "ilFoo1.1.contaminants"; s "ilFoo1.1.contaminants"].
Proof. vm_compute. reflexivity. Qed.

(* a key lower-casing to "primar" is harmless *)
Example single_primar_no_clash :
  option_map (map na_name)
    (match name_assemblies [oa_none true []; oa "Primar" false []] (s "ilFoo1") (s "1")
     with Ok l => Some l | Err _ => None end)
  = Some [s "ilFoo1.1.primary"; s "ilFoo1.1.primars"].
Proof. vm_compute. reflexivity. Qed.

(* ------------------------------------------------------------- 2(d) *)
Theorem name_assemblies_multi : forall asms root v,
  has_key (Some (s "Primary")) asms = false -> has_key None asms = false ->
  name_assemblies asms root v = Ok (map (multi_na root v) asms).
Proof. intros asms root v HP HN. rewrite name_assemblies_spec, HP, HN. reflexivity. Qed.

Definition is_multi_na_of (root v : str) (a : out_asm) (n : named_asm) : Prop :=
  exists t, oa_key a = Some t /\ na_key n = Some t /\ na_scaffolds n = oa_scaffolds a /\
    na_curated n = oa_curated a /\
    na_name n = if oa_curated a
                then root ++ s "." ++ lower t ++ s "." ++ v ++ s ".primary"
                else root ++ s "." ++ v ++ s "." ++ lower t ++ s "s".

Theorem name_assemblies_multi_stems : forall asms root v l,
  has_key (Some (s "Primary")) asms = false -> has_key None asms = false ->
  name_assemblies asms root v = Ok l ->
  Forall2 (is_multi_na_of root v) asms l.
Proof.
  intros asms root v l HP HN E. rewrite name_assemblies_multi in E by assumption. injection E as <-.
  assert (K := has_key_false _ _ HN). clear HP HN.
  induction asms as [|a asms IH]; [constructor|]. cbn [map]. constructor.
  - assert (Ka := K a (or_introl eq_refl)). destruct (oa_key a) as [t|] eqn:Ek; [|congruence].
    exists t. unfold multi_na. rewrite Ek. cbn [key_str].
    destruct (oa_curated a); cbn; repeat split; reflexivity.
  - apply IH. intros x Hx. apply K. right. exact Hx.
Qed.

(* ------------------------------------------------------------- 2(e) *)
Theorem name_assemblies_primary : forall asms root v l,
  has_key (Some (s "Primary")) asms = true ->
  name_assemblies asms root v = Ok l ->
  l = primary_result root v asms.
Proof.
  intros asms root v l HP. rewrite name_assemblies_spec, HP.
  destruct (existsb none_uncurated asms); [discriminate|]. intros [= <-]. reflexivity.
Qed.

Lemma in_primary_entry root v a asms n :
  In a asms -> In n (primary_entry root v a) -> In n (primary_result root v asms).
Proof.
  intros Ha Hn. unfold primary_result. apply in_or_app. left. apply in_flat_map. exists a. split; assumption.
Qed.

(* the "Primary" assembly gets root.v.primary *)
Theorem primary_gets_primary : forall asms root v l a,
  name_assemblies asms root v = Ok l ->
  In a asms -> oa_key a = Some (s "Primary") ->
  In (mkNamed (Some (s "Primary")) (root ++ s "." ++ v ++ s ".primary") (oa_curated a) (oa_scaffolds a)) l.
Proof.
  intros asms root v l a E Ha Hk.
  assert (HP : has_key (Some (s "Primary")) asms = true) by (apply has_key_true; eauto).
  rewrite (name_assemblies_primary _ _ _ _ HP E). apply (in_primary_entry root v a); [exact Ha|].
  unfold primary_entry. rewrite Hk. left. reflexivity.
Qed.

(* uncurated assemblies keep their key and get root.v.<lower key>s *)
Theorem primary_uncurated_keep_key : forall asms root v l a,
  has_key (Some (s "Primary")) asms = true ->
  name_assemblies asms root v = Ok l ->
  In a asms -> oa_key a <> Some (s "Primary") -> oa_curated a = false ->
  exists t, oa_key a = Some t /\
    In (mkNamed (Some t) (root ++ s "." ++ v ++ s "." ++ lower t ++ s "s") false (oa_scaffolds a)) l.
Proof.
  intros asms root v l a HP E Ha Hk Hc.
  destruct (oa_key a) as [t|] eqn:Ek.
  - exists t. split; [reflexivity|].
    rewrite (name_assemblies_primary _ _ _ _ HP E). apply (in_primary_entry root v a); [exact Ha|].
    unfold primary_entry. rewrite Ek, Hc. cbn [is_primary_key opt_eqb key_str].
    destruct (str_eqb t (s "Primary")) eqn:Et; [apply str_eqb_eq in Et; congruence|].
    left. reflexivity.
  - exfalso. assert (X : name_assemblies asms root v = Err AttributeError).
    { apply name_assemblies_error_iff. split; [reflexivity|]. split; [exact HP|]. exists a. auto. }
    congruence.
Qed.

(* the other curated assemblies end up, in order, in one all_haplotigs
   assembly, which comes last and is flagged curated; the assemblies before
   it are exactly the kept ones, in order *)
Theorem primary_all_haplotigs_last : forall asms root v l,
  has_key (Some (s "Primary")) asms = true ->
  name_assemblies asms root v = Ok l ->
  merged asms <> [] ->
  exists l0,
    l = l0 ++ [mkNamed (Some (s "all_haplotigs")) (root ++ s "." ++ v ++ s ".all_haplotigs") true
                       (flat_map oa_scaffolds
                          (filter (fun a => negb (is_primary_key (oa_key a)) && oa_curated a) asms))]
    /\ map na_key l0 = map oa_key (kept asms)
    /\ map na_scaffolds l0 = map oa_scaffolds (kept asms).
Proof.
  intros asms root v l HP E M. rewrite (name_assemblies_primary _ _ _ _ HP E).
  exists (flat_map (primary_entry root v) asms). split; [|split].
  - unfold primary_result. f_equal. destruct (merged asms) eqn:Em; [congruence|]. reflexivity.
  - apply primary_entry_keys.
  - apply primary_entry_scaffolds.
Qed.

Theorem primary_nothing_merged : forall asms root v l,
  has_key (Some (s "Primary")) asms = true ->
  name_assemblies asms root v = Ok l ->
  merged asms = [] ->
  map na_key l = map oa_key asms /\ map na_scaffolds l = map oa_scaffolds asms.
Proof.
  intros asms root v l HP E M. rewrite (name_assemblies_primary _ _ _ _ HP E).
  unfold primary_result. rewrite M, app_nil_r, primary_entry_keys, primary_entry_scaffolds.
  assert (K : kept asms = asms).
  { unfold kept, merged in *. clear HP E. induction asms as [|a asms IH]; [reflexivity|].
    cbn [filter] in *. destruct (is_merged a); [discriminate|]. cbn [negb]. f_equal. apply IH. exact M. }
  rewrite K. split; reflexivity.
Qed.

(* ---- the new keys: Python stores the result in a dict, so a repeated new
   key would silently drop an assembly; the list model keeps both.  The new
   keys are distinct under the following conditions. *)
Lemma NoDup_map_filter {A B} (f : A -> B) (p : A -> bool) : forall l,
  NoDup (map f l) -> NoDup (map f (filter p l)).
Proof.
  induction l as [|a l IH]; intros N; [constructor|].
  cbn [map] in N. inversion N as [|? ? Hn N']; subst. cbn [filter].
  destruct (p a); [|apply IH; exact N']. cbn [map]. constructor; [|apply IH; exact N'].
  intros Hin. apply Hn. apply in_map_iff in Hin. destruct Hin as [x [E Hx]].
  apply filter_In in Hx. rewrite <- E. apply in_map. apply Hx.
Qed.

Lemma single_na_key root v a :
  na_key (single_na root v a)
  = match oa_key a with
    | Some t => if str_eqb t (s "Haplotig") then Some (s "additional_haplotigs") else Some t
    | None => None
    end.
Proof.
  unfold single_na. destruct (oa_key a) as [t|]; [|reflexivity].
  destruct (str_eqb t (s "Haplotig")); reflexivity.
Qed.

Theorem name_assemblies_new_keys_nodup : forall asms root v l,
  name_assemblies asms root v = Ok l ->
  NoDup (map oa_key asms) ->
  (has_key (Some (s "Primary")) asms = true ->
     forall a, In a asms -> oa_key a = Some (s "all_haplotigs") -> oa_curated a = true) ->
  (has_key (Some (s "Primary")) asms = false -> has_key None asms = true ->
     has_key (Some (s "Haplotig")) asms = true ->
     has_key (Some (s "additional_haplotigs")) asms = false) ->
  NoDup (map na_key l).
Proof.
  intros asms root v l E N C1 C2. rewrite name_assemblies_spec in E.
  destruct (has_key (Some (s "Primary")) asms) eqn:HP.
  - destruct (existsb none_uncurated asms); [discriminate|]. injection E as <-.
    unfold primary_result. rewrite map_app, primary_entry_keys.
    assert (NK : NoDup (map oa_key (kept asms))) by (apply NoDup_map_filter; exact N).
    destruct (merged asms) eqn:Em; [rewrite app_nil_r; exact NK|].
    cbn [map all_haplotigs_na na_key].
    apply (Permutation_NoDup (Permutation_cons_append _ _)).
    constructor; [|exact NK]. intros Hin. apply in_map_iff in Hin. destruct Hin as [a [Ek Ha]].
    apply filter_In in Ha. destruct Ha as [Ha Hm]. unfold is_merged in Hm.
    rewrite (C1 eq_refl a Ha Ek), Ek in Hm. vm_compute in Hm. discriminate.
  - destruct (has_key None asms) eqn:HN; injection E as <-; rewrite map_map.
    + revert N. apply NoDup_map_transfer. intros x y Hx Hy. rewrite !single_na_key.
      destruct (oa_key x) as [t|] eqn:Ex, (oa_key y) as [t'|] eqn:Ey;
        try reflexivity;
        try (destruct (str_eqb t (s "Haplotig")); discriminate);
        try (destruct (str_eqb t' (s "Haplotig")); discriminate).
      destruct (str_eqb t (s "Haplotig")) eqn:E1, (str_eqb t' (s "Haplotig")) eqn:E2; intros H.
      * apply str_eqb_eq in E1, E2. congruence.
      * exfalso. apply str_eqb_eq in E1. subst t. apply Some_inj in H. subst t'.
        assert (HH : has_key (Some (s "Haplotig")) asms = true) by (apply has_key_true; eauto).
        apply (has_key_false _ _ (C2 eq_refl eq_refl HH) y Hy Ey).
      * exfalso. apply str_eqb_eq in E2. subst t'. apply Some_inj in H. subst t.
        assert (HH : has_key (Some (s "Haplotig")) asms = true) by (apply has_key_true; eauto).
        apply (has_key_false _ _ (C2 eq_refl eq_refl HH) x Hx Ex).
      * exact H.
    + replace (map (fun x => na_key (multi_na root v x)) asms) with (map oa_key asms); [exact N|].
      apply map_ext. intro a. unfold multi_na. destruct (oa_curated a); reflexivity.
Qed.

(* and indeed, in the list model, such a repeated key does occur *)
Example single_new_key_clash :
  option_map (map na_key)
    (match name_assemblies [oa_none true []; oa "Haplotig" false [];
                            oa "additional_haplotigs" false []] (s "ilFoo1") (s "1")
     with Ok l => Some l | Err _ => None end)
  = Some [None; Some (s "additional_haplotigs"); Some (s "additional_haplotigs")].
Proof. vm_compute. reflexivity. Qed.

Example primary_new_key_clash :
  option_map (map na_key)
    (match name_assemblies [oa "Primary" true []; oa "HAP2" true [];
                            oa "all_haplotigs" false []] (s "ilFoo1") (s "1")
     with Ok l => Some l | Err _ => None end)
  = Some [Some (s "Primary"); Some (s "all_haplotigs"); Some (s "all_haplotigs")].
Proof. vm_compute. reflexivity. Qed.

(* a name clash in the Primary branch, for the record: an uncurated assembly
   whose key lower-cases to "all_haplotig" gets the file of the merged one *)
Example primary_name_clash :
  option_map (map na_name)
    (match name_assemblies [oa "Primary" true []; oa "HAP2" true [];
                            oa "All_Haplotig" false []] (s "ilFoo1") (s "1")
     with Ok l => Some l | Err _ => None end)
  = Some [s "ilFoo1.1.primary"; s "ilFoo1.1.all_haplotigs"; s "ilFoo1.1.all_haplotigs"].
Proof. vm_compute. reflexivity. Qed.

(* ===================================================================== *)
(* 3. non-vacuity                                                         *)
(* ===================================================================== *)

(* ---- 1(c): SUPER_1 with two unlocs, SUPER_X with none *)
Definition ex_groups : list chr_grp :=
  [ mkGrp (mk_sc "SUPER_1" 1 "Scaffold_1")
          [mk_sc "SUPER_1_unloc_1" 2 "Scaffold_1"; mk_sc "SUPER_1_unloc_2" 2 "Scaffold_1"]
          (s "Scaffold_1");
    mkGrp (mk_sc "SUPER_X" 1 "Scaffold_7") [] (s "Scaffold_7") ].

Example ex_groups_hyps : Forall grp_ok ex_groups /\ adjacent_differ ex_groups.
Proof.
  split.
  - repeat constructor; discriminate.
  - cbn. split; [discriminate | exact I].
Qed.

Definition ex_lines : list str :=
  [ s "SUPER_1,1,yes
"; s "SUPER_1_unloc_1,1,no
"; s "SUPER_1_unloc_2,1,no
"; s "SUPER_X,X,yes
" ].

(* directly ... *)
Example ex_csv_direct :
  chr_csv_lines (s "SUPER_") (flat_map grp_scs ex_groups) None [] = ex_lines.
Proof. vm_compute. reflexivity. Qed.

(* ... and through the theorem: its right-hand side is these lines *)
Example ex_csv_by_theorem :
  chr_csv_lines (s "SUPER_") (flat_map (fun g => g_main g :: g_unlocs g) ex_groups) None [] = ex_lines.
Proof.
  rewrite (csv_groups (s "SUPER_") ex_groups (proj1 ex_groups_hyps) (proj2 ex_groups_hyps)).
  vm_compute. reflexivity.
Qed.

(* a rank-3 scaffold in the middle changes nothing; the file as a whole *)
Example ex_csv_file :
  chromosome_name_csv (s "SUPER_")
    [ mk_sc "SUPER_1" 1 "Scaffold_1"; mk_sc "SUPER_1_unloc_1" 2 "Scaffold_1";
      mk_sc "scaffold_1" 3 "Scaffold_9";
      mk_sc "SUPER_1_unloc_2" 2 "Scaffold_1"; mk_sc "SUPER_X" 1 "Scaffold_7";
      mk_sc "scaffold_2" 3 "Scaffold_7" ]
  = Some (s "SUPER_1,1,yes
SUPER_1_unloc_1,1,no
SUPER_1_unloc_2,1,no
SUPER_X,X,yes
").
Proof. vm_compute. reflexivity. Qed.

Example ex_csv_no_chromosomes :
  chromosome_name_csv (s "SUPER_") [mk_sc "scaffold_1" 3 "Scaffold_1"; mk_sc "scaffold_2" 3 "Scaffold_2"]
  = None.
Proof. vm_compute. reflexivity. Qed.

Example ex_chr_of : chr_of (s "SUPER_") (s "SUPER_12") = s "12" /\ chr_of (s "SUPER_") (s "scaffold_3") = s "scaffold_3".
Proof. split; vm_compute; reflexivity. Qed.

(* ---- name_assemblies *)
Definition scA := mk_sc "SUPER_1" 1 "Scaffold_1".
Definition scB := mk_sc "H_1" 3 "Scaffold_2".
Definition scC := mk_sc "C_1" 3 "Scaffold_3".
Definition scD := mk_sc "H_2" 3 "Scaffold_4".

(* single haplotype: Haplotig + Contaminant *)
Definition ex_single := [oa_none true [scA]; oa "Haplotig" false [scB]; oa "Contaminant" false [scC]].

Example ex_single_run :
  name_assemblies ex_single (s "ilFoo1") (s "1")
  = Ok [ mkNamed None (s "ilFoo1.1.primary") true [scA];
         mkNamed (Some (s "additional_haplotigs")) (s "ilFoo1.1.additional_haplotigs") true [scB];
         mkNamed (Some (s "Contaminant")) (s "ilFoo1.1.contaminants") false [scC] ].
Proof. vm_compute. reflexivity. Qed.

(* the hypotheses of single_names_nodup hold of it *)
Example ex_single_names_nodup : forall l,
  name_assemblies ex_single (s "ilFoo1") (s "1") = Ok l -> NoDup (map na_name l).
Proof.
  intros l E. apply (single_names_nodup ex_single (s "ilFoo1") (s "1") l); try reflexivity; [exact E | |].
  - cbn. repeat constructor; cbn; intuition discriminate.
  - intros _ t. cbn. intros [H|[H|[H|[]]]]; try discriminate; injection H as <-; vm_compute; discriminate.
Qed.

(* two haplotypes *)
Definition ex_multi := [oa "HAP1" true [scA]; oa "HAP2" true [scB]; oa "Contaminant" false [scC]].

Example ex_multi_run :
  name_assemblies ex_multi (s "ilFoo1") (s "1")
  = Ok [ mkNamed (Some (s "HAP1")) (s "ilFoo1.hap1.1.primary") true [scA];
         mkNamed (Some (s "HAP2")) (s "ilFoo1.hap2.1.primary") true [scB];
         mkNamed (Some (s "Contaminant")) (s "ilFoo1.1.contaminants") false [scC] ].
Proof. vm_compute. reflexivity. Qed.

(* Primary: HAP2 and HAP3 merged, in order, into all_haplotigs, which comes last *)
Definition ex_primary :=
  [oa "HAP2" true [scB]; oa "Primary" true [scA]; oa "Contaminant" false [scC]; oa "HAP3" true [scD]].

Example ex_primary_run :
  name_assemblies ex_primary (s "ilFoo1") (s "1")
  = Ok [ mkNamed (Some (s "Primary")) (s "ilFoo1.1.primary") true [scA];
         mkNamed (Some (s "Contaminant")) (s "ilFoo1.1.contaminants") false [scC];
         mkNamed (Some (s "all_haplotigs")) (s "ilFoo1.1.all_haplotigs") true [scB; scD] ].
Proof. vm_compute. reflexivity. Qed.

(* the only failure: Primary present, and an uncurated assembly with key None *)
Example ex_primary_error :
  name_assemblies [oa "Primary" true [scA]; oa_none false [scB]] (s "ilFoo1") (s "1") = Err AttributeError.
Proof. vm_compute. reflexivity. Qed.

(* a curated None assembly is merged without its key being looked at *)
Example ex_primary_none_curated :
  name_assemblies [oa "Primary" true [scA]; oa_none true [scB]] (s "ilFoo1") (s "1")
  = Ok [ mkNamed (Some (s "Primary")) (s "ilFoo1.1.primary") true [scA];
         mkNamed (Some (s "all_haplotigs")) (s "ilFoo1.1.all_haplotigs") true [scB] ].
Proof. vm_compute. reflexivity. Qed.

(* ===================================================================== *)
Print Assumptions csv_ignores_rank3.
Print Assumptions csv_line_count.
Print Assumptions csv_none_iff.
Print Assumptions csv_some.
Print Assumptions csv_lines_shape.
Print Assumptions replace_no_occurrence.
Print Assumptions replace_once_prefix.
Print Assumptions chr_of_prefixed.
Print Assumptions chr_of_unprefixed.
Print Assumptions chr_of_empty_prefix.
Print Assumptions csv_groups_gen.
Print Assumptions csv_groups.
Print Assumptions csv_groups_interleaved.
Print Assumptions name_assemblies_spec.
Print Assumptions name_assemblies_primary_order.
Print Assumptions name_assemblies_other_order.
Print Assumptions name_assemblies_preserves_scaffolds_strong.
Print Assumptions name_assemblies_preserves_scaffolds.
Print Assumptions name_assemblies_error_iff.
Print Assumptions name_assemblies_no_primary_ok.
Print Assumptions name_assemblies_single.
Print Assumptions single_na_stems.
Print Assumptions single_names_nodup_iff.
Print Assumptions single_names_nodup.
Print Assumptions name_assemblies_multi.
Print Assumptions name_assemblies_multi_stems.
Print Assumptions name_assemblies_primary.
Print Assumptions primary_gets_primary.
Print Assumptions primary_uncurated_keep_key.
Print Assumptions primary_all_haplotigs_last.
Print Assumptions primary_nothing_merged.
Print Assumptions name_assemblies_new_keys_nodup.
