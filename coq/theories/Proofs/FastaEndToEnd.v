(* End-to-end composition of the FASTA indexer theorems (Proofs/FastaIndex.v)
   with the streaming theorems (Proofs/Stream.v, Proofs/StreamFinal.v): the
   premise [seqs_accessible] of the streaming theorems is discharged for every
   well-formed rendered FASTA file and the index the indexer computes for it.
   1. rendered_accessible   2. index_then_stream (C03)
   3. tile_rows_bytes, stream_back (C04)   4. non-vacuity examples *)
From Tola Require Import Py.Base Model.Fragment Model.Scaffold Model.Fasta Model.Stream Model.FastaSpec.
From Tola Require Import Proofs.BaseLemmas Proofs.FastaIndex Proofs.StreamFinal.
From Tola Require Proofs.Stream.
From Coq Require Import Lia.

Definition seqs_of (recs : list record) : list (str * str) :=
  map (fun r => (r_name r, r_seq r)) recs.

(* ============================================ 1 -- accessibility of every record *)
(* looking a name up in [seqs_of recs] and in any index built over the same
   records in the same order finds the same (first) record *)
Lemma aget_seqs_index {V} (f : record -> Z -> V) : forall recs offs n x,
  length offs = length recs ->
  aget str_eqb (seqs_of recs) n = Some x ->
  exists k r off, nth_error recs k = Some r /\ r_name r = n /\ r_seq r = x
    /\ nth_error offs k = Some off
    /\ aget str_eqb (map (fun '(r, off) => (r_name r, f r off)) (combine recs offs)) n
       = Some (f r off).
Proof.
  induction recs as [|r t IH]; intros offs n x Hl H; cbn [seqs_of map aget] in H; [discriminate|].
  destruct offs as [|o offs]; [discriminate|]. cbn [length] in Hl. injection Hl as Hl.
  cbn [combine map aget].
  destruct (str_eqb n (r_name r)) eqn:E.
  - injection H as <-. apply str_eqb_eq in E. exists 0%nat, r, o. cbn [nth_error]. auto.
  - destruct (IH offs n x Hl H) as (k & r' & off & Hk & Hn & Hx & Ho & Hi).
    exists (S k), r', off. cbn [nth_error]. auto.
Qed.

Theorem rendered_accessible : forall w eol final_nl recs,
  fasta_wf w eol recs ->
  Proofs.Stream.seqs_accessible (render w eol final_nl recs) (expected_index w eol recs) (seqs_of recs).
Proof.
  intros w eol fnl recs Hwf n x H.
  destruct (aget_seqs_index (expected_info w eol) recs (offsets w eol recs 0) n x
              (FastaIndex.offsets_length w eol recs 0) H)
    as (k & r & off & Hk & Hn & Hx & Ho & Hi).
  exists (expected_info w eol r off). split; [exact Hi|]. subst x.
  exact (random_access_spec w eol fnl recs k r off Hwf Hk Ho).
Qed.

(* what the indexer returns on a well-formed rendered file *)
Lemma index_result w eol final_nl recs ibuf idx asm peak :
  fasta_wf w eol recs ->
  index_fasta (render w eol final_nl recs) ibuf = Ok (idx, asm, peak) ->
  idx = expected_index w eol recs /\ asm = expected_asm recs.
Proof.
  intros Hwf Hi. pose proof (index_spec w eol final_nl recs ibuf Hwf) as S.
  rewrite Hi in S. cbn [drop_peak] in S. injection S as -> ->. split; reflexivity.
Qed.

(* =================================================== 2 -- C03 end to end *)
Theorem index_then_stream : forall w eol final_nl recs ibuf idx asm peak buf L gap_char name rows body,
  fasta_wf w eol recs ->
  index_fasta (render w eol final_nl recs) ibuf = Ok (idx, asm, peak) ->
  1 <= buf -> (1 <= L)%nat -> gaps_nonneg rows ->
  rows_bytes (seqs_of recs) gap_char rows = Some body ->
  write_scaffold (render w eol final_nl recs) idx buf (Z.of_nat L) gap_char name rows
  = Ok (GT :: name ++ LF :: wrap_body L body).
Proof.
  intros w eol fnl recs ibuf idx asm peak buf L gc name rows body Hwf Hi Hb HL Hg Hr.
  destruct (index_result w eol fnl recs ibuf idx asm peak Hwf Hi) as [-> _].
  apply (write_scaffold_final (render w eol fnl recs) (expected_index w eol recs) (seqs_of recs)
           buf L gc name rows body Hb HL (rendered_accessible w eol fnl recs Hwf) Hg Hr).
Qed.

(* =================================================== 3 -- C04 stream-back *)
Definition mask (gap_char : ascii) (x : str) : str :=
  map (fun c => if is_acgt c then c else gap_char) x.

Lemma mask_app gc a b : mask gc (a ++ b) = mask gc a ++ mask gc b.
Proof. apply map_app. Qed.

Lemma mask_all_acgt gc a : all_acgt a -> mask gc a = a.
Proof.
  unfold all_acgt. induction a as [|c a IH]; intro H; [reflexivity|].
  cbn [forallb] in H. apply andb_prop in H as [Hc Ha]. cbn [mask map]. rewrite Hc.
  f_equal. apply IH, Ha.
Qed.

Lemma mask_none_acgt gc a : none_acgt a -> mask gc a = repeat gc (length a).
Proof.
  unfold none_acgt. induction a as [|c a IH]; intro H; [reflexivity|].
  cbn [forallb] in H. apply andb_prop in H as [Hc Ha]. cbn [mask map length repeat].
  destruct (is_acgt c); [discriminate|]. f_equal. apply IH, Ha.
Qed.

Lemma slice1_mid (pre run rest : str) :
  slice1 (pre ++ run ++ rest) (zlen pre + 1) (zlen pre + zlen run) = run.
Proof.
  unfold slice1, py_slice, zlen.
  replace (Z.to_nat (Z.of_nat (length pre) + 1 - 1)) with (length pre) by lia.
  replace (Z.to_nat (Z.of_nat (length pre) + Z.of_nat (length run) - (Z.of_nat (length pre) + 1 - 1)))
    with (length run) by lia.
  rewrite skipn_app, skipn_all, Nat.sub_diag. cbn [skipn app].
  rewrite firstn_app, firstn_all, Nat.sub_diag. cbn [firstn]. apply app_nil_r.
Qed.

Lemma zlen_app' {A} (a b : list A) : zlen (a ++ b) = zlen a + zlen b.
Proof. unfold zlen. rewrite app_length. lia. Qed.

(* the rows tiling the not yet consumed suffix [rest] of a record read back
   as that suffix, masked; [pre] is what has been consumed *)
Lemma tile_rows_bytes_from (seqs : list (str * str)) gc name (full : str) :
  aget str_eqb seqs name = Some full ->
  forall fuel (rest pre : str), full = pre ++ rest -> (length rest < fuel)%nat ->
  rows_bytes seqs gc (tile_rows fuel name rest (zlen pre)) = Some (mask gc rest).
Proof.
  intros Hget. induction fuel as [|f IH]; intros rest pre Hfull Hlt; [lia|].
  destruct rest as [|c t]; [reflexivity|].
  destruct (is_acgt c) eqn:Ec.
  - rewrite tile_rows_acgt by exact Ec.
    destruct (take_acgt (c :: t)) as [run rest'] eqn:E.
    destruct (take_acgt_spec _ _ _ E) as (Hsplit & Hrun & Hrest).
    assert (Hne : run <> []).
    { intros ->. cbn [app] in Hsplit. subst rest'. cbn in Hrest. congruence. }
    rewrite Hsplit in Hfull, Hlt |- *. rewrite app_length in Hlt.
    assert (0 < zlen run) by (unfold zlen; destruct run; [congruence | cbn [length]; lia]).
    cbn [rows_bytes row_bytes f_name f_start f_end f_strand]. rewrite Hget.
    assert (C : (1 <=? zlen pre + 1) && (zlen pre + 1 <=? zlen pre + zlen run)
                && (zlen pre + zlen run <=? zlen full) = true).
    { rewrite Hfull, !zlen_app'. unfold zlen in *. lia. }
    rewrite C. change (1 =? -1) with false. cbv iota.
    rewrite Hfull, slice1_mid.
    rewrite <- zlen_app'.
    rewrite (IH rest' (pre ++ run)).
    + rewrite mask_app, (mask_all_acgt gc run Hrun). reflexivity.
    + rewrite Hfull. apply app_assoc.
    + unfold zlen in *. lia.
  - rewrite tile_rows_non by exact Ec.
    destruct (take_non (c :: t)) as [run rest'] eqn:E.
    destruct (take_non_spec _ _ _ E) as (Hsplit & Hrun & Hrest).
    assert (Hne : run <> []).
    { intros ->. cbn [app] in Hsplit. subst rest'. cbn in Hrest. congruence. }
    rewrite Hsplit in Hfull, Hlt |- *. rewrite app_length in Hlt.
    assert (0 < zlen run) by (unfold zlen; destruct run; [congruence | cbn [length]; lia]).
    cbn [rows_bytes row_bytes g_len].
    rewrite <- zlen_app'.
    rewrite (IH rest' (pre ++ run)).
    + rewrite mask_app, (mask_none_acgt gc run Hrun). unfold zlen. rewrite Nat2Z.id. reflexivity.
    + rewrite Hfull. apply app_assoc.
    + unfold zlen in *. lia.
Qed.

Lemma aget_seqs_of_in recs r : In r recs -> NoDup (map r_name recs) ->
  aget str_eqb (seqs_of recs) (r_name r) = Some (r_seq r).
Proof.
  induction recs as [|a t IH]; intros Hin Hnd; [destruct Hin|].
  cbn [map] in Hnd. inversion Hnd as [|? ? Hnot Hnd']; subst.
  cbn [seqs_of map aget]. destruct Hin as [->|Hin].
  - rewrite str_eqb_refl. reflexivity.
  - destruct (str_eqb (r_name r) (r_name a)) eqn:E.
    + apply str_eqb_eq in E. exfalso. apply Hnot. rewrite <- E. apply in_map, Hin.
    + apply IH; assumption.
Qed.

(* the record may even be empty: [tile_rows] of [] is [] *)
Lemma tile_rows_bytes_any recs r gap_char : In r recs -> NoDup (map r_name recs) ->
  rows_bytes (seqs_of recs) gap_char (tile_rows (S (length (r_seq r))) (r_name r) (r_seq r) 0)
  = Some (mask gap_char (r_seq r)).
Proof.
  intros Hin Hnd.
  change 0 with (zlen (@nil ascii)).
  apply (tile_rows_bytes_from (seqs_of recs) gap_char (r_name r) (r_seq r)
           (aget_seqs_of_in recs r Hin Hnd)); [reflexivity | lia].
Qed.

Theorem tile_rows_bytes : forall recs r gap_char,
  In r recs -> NoDup (map r_name recs) -> r_seq r <> [] ->
  rows_bytes (seqs_of recs) gap_char (tile_rows (S (length (r_seq r))) (r_name r) (r_seq r) 0)
  = Some (mask gap_char (r_seq r)).
Proof. intros recs r gc Hin Hnd _. apply tile_rows_bytes_any; assumption. Qed.

Lemma tile_rows_gaps_nonneg name : forall f x pos, gaps_nonneg (tile_rows f name x pos).
Proof.
  unfold gaps_nonneg.
  induction f as [|f IH]; intros x pos; [constructor|].
  destruct x as [|c t]; [constructor|].
  destruct (is_acgt c) eqn:Ec.
  - rewrite tile_rows_acgt by exact Ec. destruct (take_acgt (c :: t)) as [run rest].
    constructor; [exact I | apply IH].
  - rewrite tile_rows_non by exact Ec. destruct (take_non (c :: t)) as [run rest].
    constructor; [cbn [g_len]; unfold zlen; lia | apply IH].
Qed.

Lemma expected_asm_gaps_nonneg recs :
  Forall (fun sc => gaps_nonneg (snd sc)) (expected_asm recs).
Proof.
  unfold expected_asm. apply Forall_forall. intros sc Hin.
  apply in_map_iff in Hin as (r & <- & _). cbn [snd]. apply tile_rows_gaps_nonneg.
Qed.

Definition masked_record (L : nat) (gap_char : ascii) (r : record) : str :=
  GT :: r_name r ++ LF :: wrap_body L (mask gap_char (r_seq r)).

Lemma expected_assembly_tiles recs gc L : NoDup (map r_name recs) ->
  forall l, incl l recs ->
  Proofs.Stream.expected_assembly (seqs_of recs) gc L (expected_asm l)
  = Some (concat (map (masked_record L gc) l)).
Proof.
  intros Hnd. induction l as [|r l IH]; intro Hincl; [reflexivity|].
  cbn [expected_asm map Proofs.Stream.expected_assembly concat].
  unfold expected_scaffold.
  rewrite (tile_rows_bytes_any recs r gc (Hincl r (or_introl eq_refl)) Hnd).
  fold (expected_asm l). rewrite IH; [reflexivity|].
  intros y Hy. apply Hincl. right. exact Hy.
Qed.

Theorem stream_back : forall w eol final_nl recs ibuf idx asm peak buf L gap_char,
  fasta_wf w eol recs ->
  index_fasta (render w eol final_nl recs) ibuf = Ok (idx, asm, peak) ->
  1 <= buf -> (1 <= L)%nat ->
  write_assembly (render w eol final_nl recs) idx buf (Z.of_nat L) gap_char asm
  = Ok (concat (map (fun r => GT :: r_name r ++ LF :: wrap_body L (mask gap_char (r_seq r))) recs)).
Proof.
  intros w eol fnl recs ibuf idx asm peak buf L gc Hwf Hi Hb HL.
  destruct (index_result w eol fnl recs ibuf idx asm peak Hwf Hi) as [-> ->].
  pose proof Hwf as (_ & _ & _ & _ & Hnd).
  apply (write_assembly_final (render w eol fnl recs) (expected_index w eol recs) (seqs_of recs)
           buf L gc (expected_asm recs) _ Hb HL (rendered_accessible w eol fnl recs Hwf)
           (expected_asm_gaps_nonneg recs)).
  apply (expected_assembly_tiles recs gc L Hnd recs (incl_refl recs)).
Qed.

(* ================================================== 4 -- non-vacuity examples *)
(* two records, CRLF line ends, no newline after the last line, lines of 5 *)
Definition e2e_recs : list record :=
  [ mkRecord (s "chr1") (s " first record") (s "ACGTNNNNacgtRYAC");
    mkRecord (s "scaffold_2") [] (s "NNACGTACGTAN") ].
Definition e2e_file : str := render 5 [CR; LF] false e2e_recs.

Lemma e2e_fasta_wf : fasta_wf 5 [CR; LF] e2e_recs.
Proof.
  unfold fasta_wf. split; [lia|]. split; [right; reflexivity|]. split; [discriminate|]. split.
  - repeat constructor; try discriminate.
  - repeat constructor; cbn; intro H; repeat (destruct H as [H|H]; try discriminate H); exact H.
Qed.

(* the file really is CRLF without a final line end *)
Example e2e_file_tail :
  e2e_file = s ">chr1 first record" ++ [CR; LF] ++ s "ACGTN" ++ [CR; LF] ++ s "NNNac" ++ [CR; LF]
             ++ s "gtRYA" ++ [CR; LF] ++ s "C" ++ [CR; LF]
             ++ s ">scaffold_2" ++ [CR; LF] ++ s "NNACG" ++ [CR; LF] ++ s "TACGT" ++ [CR; LF] ++ s "AN".
Proof. vm_compute. reflexivity. Qed.

(* the indexer succeeds on it (indexer buffer 4), so the premises of the
   theorems are jointly satisfiable *)
Example e2e_index_ok :
  index_fasta e2e_file 4 = Ok (expected_index 5 [CR; LF] e2e_recs, expected_asm e2e_recs, 5).
Proof. vm_compute. reflexivity. Qed.

(* C04 by computation: index, then stream the derived assembly with reader
   buffer 3, line length 4, gap character '-' *)
Example e2e_stream_back_computed :
  match index_fasta e2e_file 4 with
  | Ok (idx, asm, _) => write_assembly e2e_file idx 3 4 "-"%char asm
  | Err e => Err e
  end
  = Ok (s ">chr1" ++ LF :: s "ACGT" ++ LF :: s "----" ++ LF :: s "acgt" ++ LF :: s "--AC" ++ [LF]
        ++ s ">scaffold_2" ++ LF :: s "--AC" ++ LF :: s "GTAC" ++ LF :: s "GTA-" ++ [LF]).
Proof. vm_compute. reflexivity. Qed.

(* ... and the same equation as an instance of [stream_back] *)
Example e2e_stream_back_instance :
  write_assembly e2e_file (expected_index 5 [CR; LF] e2e_recs) 3 (Z.of_nat 4) "-"%char
                 (expected_asm e2e_recs)
  = Ok (concat (map (fun r => GT :: r_name r ++ LF :: wrap_body 4 (mask "-"%char (r_seq r))) e2e_recs)).
Proof.
  apply (stream_back 5 [CR; LF] false e2e_recs 4 _ _ 5 3 4%nat "-"%char e2e_fasta_wf e2e_index_ok);
    lia.
Qed.

(* C03: a scaffold mixing a reverse-strand piece of record 2, a gap and a
   forward piece of record 1 that crosses line boundaries of the file *)
Definition e2e_rows : list row :=
  [ RF (mkFrag 1 (s "scaffold_2") 3 9 (-1) []); RG (mkGap 3 (s "scaffold"));
    RF (mkFrag 2 (s "chr1") 4 14 1 []) ].

Example e2e_rows_bytes :
  rows_bytes (seqs_of e2e_recs) "n"%char e2e_rows = Some (s "CGTACGTnnnTNNNNacgtRY").
Proof. vm_compute. reflexivity. Qed.

Example e2e_index_then_stream_computed :
  match index_fasta e2e_file 4 with
  | Ok (idx, _, _) => write_scaffold e2e_file idx 2 6 "n"%char (s "joined") e2e_rows
  | Err e => Err e
  end
  = Ok (s ">joined" ++ LF :: s "CGTACG" ++ LF :: s "TnnnTN" ++ LF :: s "NNNacg" ++ LF :: s "tRY" ++ [LF]).
Proof. vm_compute. reflexivity. Qed.

Example e2e_index_then_stream_instance :
  write_scaffold e2e_file (expected_index 5 [CR; LF] e2e_recs) 2 (Z.of_nat 6) "n"%char (s "joined") e2e_rows
  = Ok (GT :: s "joined" ++ LF :: wrap_body 6 (s "CGTACGTnnnTNNNNacgtRY")).
Proof.
  apply (index_then_stream 5 [CR; LF] false e2e_recs 4 _ _ 5 2 6%nat "n"%char (s "joined") e2e_rows _
           e2e_fasta_wf e2e_index_ok); try lia.
  - repeat constructor. cbn. lia.
  - exact e2e_rows_bytes.
Qed.

Print Assumptions rendered_accessible.
Print Assumptions index_then_stream.
Print Assumptions tile_rows_bytes.
Print Assumptions stream_back.
Print Assumptions e2e_stream_back_instance.
Print Assumptions e2e_index_then_stream_instance.
