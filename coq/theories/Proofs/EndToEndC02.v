(* C02 CAPSTONE: one statement about the FINAL output of [remap] for every
   untagged map that tiles the scaffolds it shows.  It composes

     Proofs.Completion.completion_of_tiling_maps      remap_to_input returns Ok
     Proofs.EndToEndC02Total.head_untagged/tail_total the rest of remap returns Ok
     Proofs.CoreKept.core_kept_end_to_end             the stored result of a bait
                                                      keeps its core (C18 invariant)
     Proofs.RoutingEndToEnd.routing_end_to_end        a result with rows is written
                                                      whole into an output scaffold

   into: the whole pipeline completes, and for every bait with a contig base in
   its core there is a stored result r for that bait, satisfying the C18
   invariant and core_kept, whose rows sit as ONE contiguous block in a
   scaffold of an output assembly.

   One hypothesis is ADDED to those of C02_completion: every input contig is on
   strand +1 or -1.  Without it the statement is false
   ([c02_end_to_end_original_refuted]): an input scaffold with two contigs, one
   of them unstranded (strand 0, which input_ok admits), passes remap_to_input
   but make_stats raises ValueError in junction_tuple on the INPUT assembly. *)
From Tola Require Import Py.Base Model.Fragment Model.Scaffold Model.Lookup Model.OverlapResult
  Model.OvrSpec Model.Namer Model.Remap Model.RemapSpec Proofs.Junctions Proofs.EndToEndC02Total.
From Tola Require Proofs.Completion Proofs.CompletionTiling Proofs.CoreKept Proofs.RoutingEndToEnd
  Proofs.RemapTail Proofs.NullMap Proofs.RemapHead Proofs.PipelineInv Proofs.PretextOrder
  Proofs.EndToEndC02Order.
From Coq Require Import Lia ZifyBool Permutation.

(* ------------------------------------------------------------ small facts *)
Lemma frag_eq_dec (a b : frag) : {a = b} + {a <> b}.
Proof.
  decide equality; try apply Z.eq_dec; try (apply list_eq_dec; apply Ascii.ascii_dec).
  apply list_eq_dec. apply list_eq_dec. apply Ascii.ascii_dec.
Qed.

Lemma store_find (st : list ovr) (bait : frag) :
  (exists r, In r st /\ o_bait r = bait) \/ (forall r, In r st -> o_bait r <> bait).
Proof.
  induction st as [|r0 st IH].
  - right. intros r [].
  - destruct (frag_eq_dec (o_bait r0) bait) as [E | NE].
    + left. exists r0. split; [left; reflexivity | exact E].
    + destruct IH as [(r & Hr & E) | Hn].
      * left. exists r. split; [right; exact Hr | exact E].
      * right. intros r [<- | Hr]; [exact NE | apply Hn; exact Hr].
Qed.

Lemma in_RF_frags rows f : In (RF f) rows <-> In f (frags_of rows).
Proof.
  unfold frags_of. rewrite in_flat_map. split.
  - intro H. exists (RF f). split; [exact H | left; reflexivity].
  - intros ([f' | gp] & H & Hf); [|destruct Hf]. destruct Hf as [<- | []]. exact H.
Qed.

Lemma In_firstn {A} (x : A) : forall n l, In x (firstn n l) -> In x l.
Proof.
  induction n as [|n IH]; intros [|y l] H; cbn [firstn] in H; try contradiction.
  destruct H as [<- | H]; [left; reflexivity | right; apply IH; exact H].
Qed.

Lemma In_skipn {A} (x : A) : forall n l, In x (skipn n l) -> In x l.
Proof.
  induction n as [|n IH]; intros [|y l] H; cbn [skipn] in H; try exact H.
  right. apply IH. exact H.
Qed.

(* the C18 invariant hands the strands of the source down to the result *)
Lemma Inv_pm src r : pm_rows src -> Inv src r -> pm_rows (o_rows r).
Proof.
  intros Hs [E | (i & n & ls & le & _ & _ & R & _)]; [rewrite E; constructor|].
  unfold pm_rows in *. rewrite Forall_forall in Hs.
  assert (Hsl : forall o, In (RF o) (firstn n (skipn i src)) -> pm o).
  { intros o Ho. apply Hs. apply in_RF_frags. eapply In_skipn, In_firstn. exact Ho. }
  destruct R as [(o & f & Es & Er & T) | (o1 & f1 & mid & o2 & f2 & Es & Er & T1 & T2)].
  - rewrite Er. cbn [frags_of flat_map app]. constructor; [|constructor].
    destruct T as (_ & St & _). unfold pm. rewrite St. apply Hsl. rewrite Es. left. reflexivity.
  - rewrite Er. apply Forall_forall. intros f Hf. apply in_RF_frags in Hf.
    destruct Hf as [Hf | Hf].
    + injection Hf as <-. destruct T1 as (_ & St & _). unfold pm. rewrite St.
      apply Hsl. rewrite Es. left. reflexivity.
    + apply in_app_or in Hf. destruct Hf as [Hf | [Hf | []]].
      * apply Hsl. rewrite Es. right. apply in_or_app. left. exact Hf.
      * injection Hf as <-. destruct T2 as (_ & St & _). unfold pm. rewrite St.
        apply Hsl. rewrite Es. right. apply in_or_app. right. left. reflexivity.
Qed.

Lemma in_frags_In input name rows f :
  In (name, rows) input -> In f (frags_of rows) -> In f (in_frags input).
Proof.
  intros H Hf. unfold in_frags. apply in_flat_map. exists (name, rows). split; assumption.
Qed.

(* ================================================================ PART A *)
Theorem c02_end_to_end : forall g prefix n d input pretext,
  0 < d -> d <= n ->
  Forall Proofs.Completion.input_ok input ->
  NoDup (map fst input) ->
  NoDup (map key_of (Model.RemapSpec.in_frags input)) ->
  Forall (fun f => f_tags f = []) (Model.RemapSpec.in_frags input) ->
  Forall (fun f => f_strand f = 1 \/ f_strand f = -1) (Model.RemapSpec.in_frags input) ->  (* ADDED *)
  Forall (fun p => exists b t, snd p = RF b :: t) pretext ->
  Forall (fun b => f_tags b = [] /\ (f_strand b = 1 \/ f_strand b = -1)
                   /\ In (f_name b) (map fst input)) (Proofs.CoreKept.baits_of pretext) ->
  Forall (Proofs.Completion.scaffold_tiled n d (Proofs.CoreKept.baits_of pretext)) input ->
  exists rs o,
    remap_to_input repaired g prefix (n, d) input pretext = Ok rs
    /\ remap repaired g prefix (n, d) input pretext = Ok o
    /\ let err := error_length (n, d) in
       forall bait src x,
         In bait (Proofs.CoreKept.baits_of pretext) ->
         In (f_name bait, src) (number_input input 0) ->
         Proofs.CoreKept.in_core err bait x -> Proofs.CoreKept.contig_base src x ->
         exists r a sc pre suf,
           In r (b_store (rs_b rs)) /\ o_bait r = bait
           /\ Model.OvrSpec.Inv src r /\ Proofs.CoreKept.core_kept err src r
           /\ In a (out_asms o) /\ In sc (oa_scaffolds a)
           /\ sc_rows sc = pre ++ to_scaffold_rows r ++ suf.
Proof.
  intros g prefix n d input pretext Hd Hdn Hin Hnm Hkeys Hunt Hstr Hpre Hb Htile.
  set (all := Proofs.CoreKept.baits_of pretext) in *.
  (* 1. remap_to_input completes *)
  destruct (Proofs.Completion.completion_of_tiling_maps g prefix n d input pretext
              Hd Hdn Hin Hnm Hkeys Hunt Hpre Hb Htile) as (rs & Hrs).
  (* 2. the hypotheses of core_kept_end_to_end from the tiling *)
  assert (Hnamed : Forall (fun b => In (f_name b) (map fst input)) all).
  { eapply Forall_impl; [|exact Hb]. intros b (_ & _ & H). exact H. }
  pose proof (Proofs.CompletionTiling.tiled_valid n d input all Hnamed Htile) as Hvalid.
  pose proof (Proofs.CompletionTiling.tiled_disjoint n d input all Hnamed Htile) as Hdisj.
  assert (Hpos0 : Forall (fun isc => pos_rows (snd isc)) input).
  { eapply Forall_impl; [|exact Hin]. intros isc (_ & H & _). exact H. }
  assert (Hn0 : 0 <= fst (n, d)) by (cbn [fst]; lia).
  assert (Hd0 : 0 < snd (n, d)) by (cbn [snd]; lia).
  pose proof (Proofs.CoreKept.core_kept_end_to_end repaired g prefix (n, d) input pretext rs
                Hn0 Hd0 Hpos0 Hkeys Hvalid Hdisj Hrs) as HAB.
  cbv zeta in HAB. destruct HAB as [HA HB].
  (* 3. the first half leaves nothing of rank 1 and every result with rows is added *)
  assert (Hbu : Forall (fun f => f_tags f = []) all).
  { eapply Forall_impl; [|exact Hb]. intros b (H & _). exact H. }
  destruct (head_untagged repaired g prefix (n, d) input pretext rs Hbu Hrs)
    as (Hids & Hrk & Hadd & Hlrk).
  (* 4. every contig that reaches the tail is on strand +1 / -1 *)
  set (inp := number_input input 0) in *.
  assert (Hpm_in : Forall pm (in_frags inp)).
  { apply Proofs.Completion.number_input_frags; [intros f id H; exact H | exact Hstr]. }
  assert (Hpm_sc : forall name rows, In (name, rows) inp -> pm_rows rows).
  { intros name rows H. unfold pm_rows. apply Forall_forall. intros f Hf.
    rewrite Forall_forall in Hpm_in. apply Hpm_in. eapply in_frags_In; eassumption. }
  assert (Hpm_st : Forall (fun r => pm_rows (o_rows r)) (b_store (rs_b rs))).
  { apply Forall_forall. intros r Hr. destruct (HA r Hr) as (src & Hsrc & _ & HI & _).
    eapply Inv_pm; [|exact HI]. eapply Hpm_sc. exact Hsrc. }
  assert (Hpm_left : Forall (fun sc => pm_rows (sc_rows sc)) (rs_left rs)).
  { destruct (Proofs.RemapTail.remap_to_input_inv _ _ _ _ _ _ _ Hrs)
      as (b1 & b2 & b3 & _ & _ & _ & _ & _ & _ & HL).
    apply Forall_forall. intros sc Hsc. unfold pm_rows. apply Forall_forall. intros f Hf.
    assert (Hfl : In f (Proofs.RemapTail.left_frags (rs_left rs))).
    { unfold Proofs.RemapTail.left_frags. apply in_flat_map. exists sc. split; assumption. }
    rewrite HL in Hfl. apply filter_In in Hfl. destruct Hfl as [Hfl _].
    rewrite Forall_forall in Hpm_in. apply Hpm_in. exact Hfl. }
  assert (Hpm_inp : Forall (fun p => pm_rows (snd p)) inp).
  { apply Forall_forall. intros [name rows] H. cbn [snd]. eapply Hpm_sc. exact H. }
  (* 5. the rest of remap completes *)
  destruct (tail_total g prefix input rs Hids Hrk Hlrk Hpm_st Hpm_left Hpm_inp) as (o & Ho).
  assert (Hremap : remap repaired g prefix (n, d) input pretext = Ok o).
  { unfold remap. rewrite Hrs. cbn [bind]. exact Ho. }
  destruct (Proofs.RoutingEndToEnd.routing_end_to_end g prefix (n, d) input pretext o rs Hrs Hremap)
    as (Hroute & _ & _).
  exists rs, o. split; [exact Hrs|]. split; [exact Hremap|].
  cbv zeta. intros bait src x Hbait Hsrc Hcore Hbase.
  (* 6. the result of this bait *)
  destruct (store_find (b_store (rs_b rs)) bait) as [(r & Hr & Eb) | Hnone].
  2:{ exfalso. exact (HB bait src Hbait Hsrc Hnone x Hcore Hbase). }
  destruct (HA r Hr) as (src' & Hsrc' & _ & HI & HK).
  assert (Es : src' = src).
  { assert (Hnn : NoDup (map fst inp)) by (unfold inp; rewrite Proofs.CoreKept.number_input_fst; exact Hnm).
    rewrite Eb in Hsrc'. exact (Proofs.NullMap.nodup_names_inj inp _ _ _ Hnn Hsrc' Hsrc). }
  subst src'.
  assert (Hne : o_rows r <> []).
  { rewrite <- Eb in Hcore. exact (proj1 (HK x Hcore Hbase)). }
  apply In_nth_error in Hr. destruct Hr as (k & Hk).
  pose proof (Hadd k r Hk Hne) as Hin_added.
  assert (Hget : get_ovr (b_store (rs_b rs)) (Z.of_nat k) = Ok r).
  { unfold get_ovr. rewrite Nat2Z.id, Hk. reflexivity. }
  destruct (Hroute (Z.of_nat k) r Hin_added Hget Hne) as (a & sc & pre & suf & Ha & Hsc & Erows & _).
  exists r, a, sc, pre, suf.
  split; [eapply nth_error_In; exact Hk|]. split; [exact Eb|]. split; [exact HI|].
  split; [exact HK|]. split; [exact Ha|]. split; [exact Hsc | exact Erows].
Qed.

(* ============================================ the added hypothesis is needed *)
Module Refutation.
  Definition g10 := mkGap 10 (s "scaffold").
  Definition A := mkFrag 0 (s "cA") 1 100 0 [].      (* an unstranded contig *)
  Definition B := mkFrag 0 (s "cB") 1 100 1 [].
  Definition input : list (str * list row) := [(s "scaf1", [RF A; RG g10; RF B])].
  Definition bt := mkFrag 0 (s "scaf1") 1 210 1 [].
  Definition pretext : list (str * list row) := [(s "P1", [RF bt])].

  (* the first half succeeds, the statistics of the INPUT assembly fail *)
  Lemma head_ok : exists rs, remap_to_input repaired g10 (s "SUPER_") (1, 1) input pretext = Ok rs.
  Proof. vm_compute. eexists. reflexivity. Qed.

  Lemma run : remap repaired g10 (s "SUPER_") (1, 1) input pretext = Err ValueError.
  Proof. vm_compute. reflexivity. Qed.
End Refutation.

(* the statement with the hypotheses of C02_completion only *)
Definition c02_end_to_end_original : Prop :=
  forall g prefix n d input pretext,
  0 < d -> d <= n ->
  Forall Proofs.Completion.input_ok input ->
  NoDup (map fst input) ->
  NoDup (map key_of (Model.RemapSpec.in_frags input)) ->
  Forall (fun f => f_tags f = []) (Model.RemapSpec.in_frags input) ->
  Forall (fun p => exists b t, snd p = RF b :: t) pretext ->
  Forall (fun b => f_tags b = [] /\ (f_strand b = 1 \/ f_strand b = -1)
                   /\ In (f_name b) (map fst input)) (Proofs.CoreKept.baits_of pretext) ->
  Forall (Proofs.Completion.scaffold_tiled n d (Proofs.CoreKept.baits_of pretext)) input ->
  exists rs o,
    remap_to_input repaired g prefix (n, d) input pretext = Ok rs
    /\ remap repaired g prefix (n, d) input pretext = Ok o
    /\ let err := error_length (n, d) in
       forall bait src x,
         In bait (Proofs.CoreKept.baits_of pretext) ->
         In (f_name bait, src) (number_input input 0) ->
         Proofs.CoreKept.in_core err bait x -> Proofs.CoreKept.contig_base src x ->
         exists r a sc pre suf,
           In r (b_store (rs_b rs)) /\ o_bait r = bait
           /\ Model.OvrSpec.Inv src r /\ Proofs.CoreKept.core_kept err src r
           /\ In a (out_asms o) /\ In sc (oa_scaffolds a)
           /\ sc_rows sc = pre ++ to_scaffold_rows r ++ suf.

Theorem c02_end_to_end_original_refuted : ~ c02_end_to_end_original.
Proof.
  intros H.
  destruct (H Refutation.g10 (s "SUPER_") 1 1 Refutation.input Refutation.pretext)
    as (rs & o & _ & Ho & _).
  - lia.
  - lia.
  - constructor; [|constructor]. unfold Proofs.Completion.input_ok. cbn [snd Refutation.input].
    split; [discriminate|]. split; [repeat constructor; cbn; lia|].
    split; [eexists _, _; reflexivity|].
    split; [exists Refutation.B, [RF Refutation.A; RG Refutation.g10]; reflexivity|].
    repeat (apply Forall_cons; [split; cbn; lia|]). apply Forall_nil.
  - cbn. repeat constructor; cbn; intuition discriminate.
  - cbn. repeat constructor; cbn; intuition discriminate.
  - repeat constructor.
  - repeat constructor. eexists _, _. reflexivity.
  - repeat constructor; cbn; auto.
  - constructor; [|constructor]. right. exists [Refutation.bt], 210.
    split; [apply Permutation_refl|]. split; [cbn; lia|]. split; [vm_compute; reflexivity|].
    left. reflexivity.
  - rewrite Refutation.run in Ho. discriminate.
Qed.

(* ================================================================ PART B
   the Pretext-order clause on the FINAL output: two baits b1, b2 of the SAME
   Pretext scaffold, b1 before b2 in its row list, both with a contig base in
   their cores: their results r1, r2 sit in the SAME scaffold of an output
   assembly, the rows of r1 (oriented by b1) before the rows of r2 (oriented by
   b2). *)
Theorem c02_end_to_end_order : forall g prefix n d input pretext,
  0 < d -> d <= n ->
  Forall Proofs.Completion.input_ok input ->
  NoDup (map fst input) ->
  NoDup (map key_of (Model.RemapSpec.in_frags input)) ->
  Forall (fun f => f_tags f = []) (Model.RemapSpec.in_frags input) ->
  Forall (fun f => f_strand f = 1 \/ f_strand f = -1) (Model.RemapSpec.in_frags input) ->  (* ADDED *)
  Forall (fun p => exists b t, snd p = RF b :: t) pretext ->
  Forall (fun b => f_tags b = [] /\ (f_strand b = 1 \/ f_strand b = -1)
                   /\ In (f_name b) (map fst input)) (Proofs.CoreKept.baits_of pretext) ->
  Forall (Proofs.Completion.scaffold_tiled n d (Proofs.CoreKept.baits_of pretext)) input ->
  exists rs o,
    remap_to_input repaired g prefix (n, d) input pretext = Ok rs
    /\ remap repaired g prefix (n, d) input pretext = Ok o
    /\ let err := error_length (n, d) in
       forall pname prows l1 b1 l2 b2 l3 src1 x1 src2 x2,
         In (pname, prows) pretext ->
         frags_of prows = l1 ++ b1 :: l2 ++ b2 :: l3 ->
         In (f_name b1, src1) (number_input input 0) ->
         Proofs.CoreKept.in_core err b1 x1 -> Proofs.CoreKept.contig_base src1 x1 ->
         In (f_name b2, src2) (number_input input 0) ->
         Proofs.CoreKept.in_core err b2 x2 -> Proofs.CoreKept.contig_base src2 x2 ->
         exists r1 r2 a sc pre mid post,
           In r1 (b_store (rs_b rs)) /\ o_bait r1 = b1
           /\ Model.OvrSpec.Inv src1 r1 /\ Proofs.CoreKept.core_kept err src1 r1
           /\ In r2 (b_store (rs_b rs)) /\ o_bait r2 = b2
           /\ Model.OvrSpec.Inv src2 r2 /\ Proofs.CoreKept.core_kept err src2 r2
           /\ In a (out_asms o) /\ In sc (oa_scaffolds a)
           /\ sc_rows sc = pre ++ to_scaffold_rows r1 ++ mid ++ to_scaffold_rows r2 ++ post.
Proof.
  intros g prefix n d input pretext Hd Hdn Hin Hnm Hkeys Hunt Hstr Hpre Hb Htile.
  destruct (c02_end_to_end g prefix n d input pretext Hd Hdn Hin Hnm Hkeys Hunt Hstr Hpre Hb Htile)
    as (rs & o & Hrs & Ho & HA).
  cbv zeta in HA.
  exists rs, o. split; [exact Hrs|]. split; [exact Ho|]. cbv zeta.
  intros pname prows l1 b1 l2 b2 l3 src1 x1 src2 x2 He Hfr Hs1 Hc1 Hx1 Hs2 Hc2 Hx2.
  set (all := Proofs.CoreKept.baits_of pretext) in *.
  (* the baits are pairwise different, untagged *)
  assert (Hnamed : Forall (fun b => In (f_name b) (map fst input)) all).
  { eapply Forall_impl; [|exact Hb]. intros b (_ & _ & H). exact H. }
  pose proof (Proofs.CompletionTiling.tiled_valid n d input all Hnamed Htile) as Hvalid.
  pose proof (Proofs.CompletionTiling.tiled_disjoint n d input all Hnamed Htile) as Hdisj.
  pose proof (Proofs.EndToEndC02Order.disjoint_valid_nodup all Hdisj Hvalid) as ND.
  assert (Hbu : Forall (fun f => f_tags f = []) all).
  { eapply Forall_impl; [|exact Hb]. intros b (H & _). exact H. }
  (* b1, b2 are baits of the map, b1 first *)
  assert (Hb1p : In b1 (frags_of prows)).
  { rewrite Hfr. apply in_or_app. right. left. reflexivity. }
  assert (Hb2p : In b2 (frags_of prows)).
  { rewrite Hfr. apply in_or_app. right. right. apply in_or_app. right. left. reflexivity. }
  assert (Hb1 : In b1 all) by (eapply (Proofs.EndToEndC02Order.in_baits_of (pname, prows)); eassumption).
  assert (Hb2 : In b2 all) by (eapply (Proofs.EndToEndC02Order.in_baits_of (pname, prows)); eassumption).
  destruct (in_split _ _ He) as (P1 & P2 & EP).
  assert (EQ : all = (Proofs.CoreKept.baits_of P1 ++ l1) ++ b1 :: l2 ++ b2 :: (l3 ++ Proofs.CoreKept.baits_of P2)).
  { unfold all. rewrite EP. change ((pname, prows) :: P2) with ([(pname, prows)] ++ P2).
    rewrite !Proofs.EndToEndC02Order.baits_of_app.
    unfold Proofs.CoreKept.baits_of at 2. cbn [flat_map snd]. rewrite app_nil_r, Hfr.
    rewrite <- !app_assoc. cbn [app]. rewrite <- !app_assoc. reflexivity. }
  (* their results, by part A *)
  destruct (HA b1 src1 x1 Hb1 Hs1 Hc1 Hx1) as (r1 & _ & _ & _ & _ & Hr1 & Eb1 & HI1 & HK1 & _).
  destruct (HA b2 src2 x2 Hb2 Hs2 Hc2 Hx2) as (r2 & _ & _ & _ & _ & Hr2 & Eb2 & HI2 & HK2 & _).
  assert (Hne1 : o_rows r1 <> []) by (rewrite <- Eb1 in Hc1; exact (proj1 (HK1 x1 Hc1 Hx1))).
  assert (Hne2 : o_rows r2 <> []) by (rewrite <- Eb2 in Hc2; exact (proj1 (HK2 x2 Hc2 Hx2))).
  (* their ids, in b_added in this order *)
  destruct (head_untagged repaired g prefix (n, d) input pretext rs Hbu Hrs) as (_ & _ & Hadd & _).
  destruct (In_nth_error _ _ Hr1) as (k1 & Hk1). destruct (In_nth_error _ _ Hr2) as (k2 & Hk2).
  assert (Lt : (k1 < k2)%nat).
  { eapply (Proofs.EndToEndC02Order.store_order repaired g prefix (n, d) input pretext rs k1 k2 r1 r2);
      [exact ND | exact Hrs | exact Hk1 | exact Hk2|]. rewrite Eb1, Eb2. exact EQ. }
  destruct (Proofs.PretextOrder.remap_order _ _ _ _ _ _ _ Hrs) as [_ HO].
  unfold Proofs.PretextOrder.OKA in HO.
  destruct (Proofs.EndToEndC02Order.asc_split _ _ _ (Z.of_nat k1) (Z.of_nat k2) HO
              (Hadd k1 r1 Hk1 Hne1) (Hadd k2 r2 Hk2 Hne2)) as (a1 & a2 & a3 & Eadd); [lia|].
  assert (Hg1 : get_ovr (b_store (rs_b rs)) (Z.of_nat k1) = Ok r1)
    by (unfold get_ovr; rewrite Nat2Z.id, Hk1; reflexivity).
  assert (Hg2 : get_ovr (b_store (rs_b rs)) (Z.of_nat k2) = Ok r2)
    by (unfold get_ovr; rewrite Nat2Z.id, Hk2; reflexivity).
  (* one fusion key *)
  assert (HKeq : Proofs.PretextOrder.result_key r1 = Proofs.PretextOrder.result_key r2).
  { eapply (Proofs.EndToEndC02Order.same_scaffold_same_key repaired g prefix (n, d) input pretext rs
              Hbu ND Hrs r1 r2 pname prows Hr1 Hr2 He); [rewrite Eb1 | rewrite Eb2]; assumption. }
  (* the fused scaffold and its place in the output *)
  pose proof Ho as Ho'. unfold remap in Ho'. rewrite Hrs in Ho'. cbn [bind] in Ho'.
  destruct (Proofs.RoutingEndToEnd.assemblies_out_core _ _ _ _ _ _ Ho') as (fused0 & fused & F & _).
  destruct (Proofs.PretextOrder.pretext_order_pairs g prefix (n, d) input pretext rs fused0
              a1 (Z.of_nat k1) a2 (Z.of_nat k2) a3 r1 r2 Hrs F Eadd Hg1 Hg2 Hne1 Hne2 HKeq)
    as (results & b & _ & Hbf & _ & (pre & mid & post & Erows) & _).
  destruct (Proofs.RoutingEndToEnd.fused_in_output _ _ _ _ _ _ _ b Ho' F Hbf)
    as (a & sc & Ha & Hsc & Ec & _).
  unfold Proofs.RoutingEndToEnd.core in Ec. injection Ec as Er _ _.
  exists r1, r2, a, sc, pre, mid, post.
  repeat (split; [assumption|]). rewrite Er. exact Erows.
Qed.

(* ============================================================== non-vacuity
   the three-piece map of Proofs.Completion (A(100,+) -10- B(300,-) -10- C(100,+),
   texel 3.5 bp, pieces 1-200 | 201-350 | 351-520 out of order, two reversed, in
   two Pretext scaffolds) satisfies every hypothesis: the whole of [remap]
   completes -- obtained by applying the theorem *)
Example c02_end_to_end_instance :
  exists o, remap repaired Proofs.Completion.ThreePieces.g10 (s "SUPER_") (7, 2)
              Proofs.Completion.ThreePieces.input Proofs.Completion.ThreePieces.pretext = Ok o.
Proof.
  destruct (c02_end_to_end_order Proofs.Completion.ThreePieces.g10 (s "SUPER_") 7 2
              Proofs.Completion.ThreePieces.input Proofs.Completion.ThreePieces.pretext)
    as (rs & o & _ & Ho & _); [..|exists o; exact Ho].
  - lia.
  - lia.
  - constructor; [|constructor]. unfold Proofs.Completion.input_ok.
    cbn [snd Proofs.Completion.ThreePieces.input].
    split; [discriminate|]. split; [repeat constructor; cbn; lia|].
    split; [eexists _, _; reflexivity|].
    split; [exists Proofs.Completion.ThreePieces.C,
              [RF Proofs.Completion.ThreePieces.A; RG Proofs.Completion.ThreePieces.g10;
               RF Proofs.Completion.ThreePieces.B; RG Proofs.Completion.ThreePieces.g10];
            reflexivity|].
    repeat (apply Forall_cons; [split; cbn; lia|]). apply Forall_nil.
  - cbn. repeat constructor; cbn; intuition discriminate.
  - cbn. repeat constructor; cbn; intuition discriminate.
  - repeat constructor.
  - cbn. repeat (apply Forall_cons; [cbn; lia|]). apply Forall_nil.
  - repeat constructor; eexists _, _; reflexivity.
  - cbn. repeat (apply Forall_cons; [split; [reflexivity|split; [cbn; lia | cbn; auto]]|]). apply Forall_nil.
  - constructor; [|constructor]. right.
    exists [Proofs.Completion.ThreePieces.b1; Proofs.Completion.ThreePieces.b2;
            Proofs.Completion.ThreePieces.b3], 520.
    split.
    { replace (filter _ _) with (rev [Proofs.Completion.ThreePieces.b1; Proofs.Completion.ThreePieces.b2;
                                      Proofs.Completion.ThreePieces.b3])
        by (vm_compute; reflexivity).
      apply Permutation_sym, Permutation_rev. }
    split; [cbn; lia|]. split; [vm_compute; reflexivity|].
    right. repeat constructor; cbn; lia.
Qed.

Print Assumptions c02_end_to_end_original_refuted.
Print Assumptions c02_end_to_end_instance.
Print Assumptions c02_end_to_end_order.
Print Assumptions c02_end_to_end.
