(* C08, end to end on the model: an unedited (null) Pretext map reproduces the
   input assembly -- same scaffold names, same rows, no cuts, no breaks, no
   joins -- for the unpainted, untagged case.

   Stages:
     A. every bait of a null map finds all rows of its scaffold, nothing is
        trimmed, each contig is recorded once (b_multi stays empty);
     B. with b_multi empty the overhang resolver, the cuts and both renames do
        nothing;
     C. add_missing_scaffolds_from_input re-adds exactly the scaffolds that no
        bait named, rows unchanged (every gap of a run of gaps is kept: this
        is [fix_gap_run]; the pinned commit kept only the last one, see
        [null_map_legacy_refuted] at the end);
     D. fusing by name fuses nothing (names are distinct);
     E. no chromosome is named, one assembly (key None, curated) comes out,
        sorted; the junction sets of input and output coincide.
   No axioms. *)
From Tola Require Import Py.Base Py.Dec Py.Sort Model.Fragment Model.Scaffold Model.Lookup
  Model.OverlapResult Model.NaturalKey Model.Namer Model.Remap
  Proofs.BaseLemmas Proofs.Lookup Proofs.NaturalKey Proofs.NullMapAndCuts Proofs.Junctions
  Proofs.Routing.
From Tola Require Proofs.RemapTail.
From Coq Require Import Lia ZifyBool Permutation.

(* ============================================================ statement *)
(* rows with the object ids erased (number_input assigns ids; the outputs carry them) *)
Definition erase_id (r : row) : row :=
  match r with
  | RF f => RF (mkFrag (-1) (f_name f) (f_start f) (f_end f) (f_strand f) (f_tags f))
  | RG g => RG g
  end.

(* no two consecutive gap rows (what the pinned commit needed of a scaffold
   that no bait names; no hypothesis of the theorem any more) *)
Definition no_gap_pair (rows : list row) : Prop :=
  forall a g1 g2 b, rows <> a ++ RG g1 :: RG g2 :: b.

(* an input scaffold the theorem speaks about *)
Definition sc_ok (sc : str * list row) : Prop :=
  snd sc <> [] /\ pos_rows (snd sc)
  /\ (exists f t, snd sc = RF f :: t) /\ (exists f t, snd sc = t ++ [RF f])
  /\ Forall (fun f => f_tags f = [] /\ (f_strand f = 1 \/ f_strand f = -1) /\ f_start f <= f_end f)
            (frags_of (snd sc))
  /\ haplotype_prefix_of_name (fst sc) = None
  /\ (forall f t, snd sc = RF f :: t -> haplotype_prefix_of_name (f_name f) = None).

(* a null map: every Pretext scaffold is one whole input scaffold, painted
   [1, E] with E within a texel of its length; input scaffolds that no bait
   names (shorter than a texel) are unconstrained *)
Inductive null_map (n d : Z) : list (str * list row) -> list (str * list row) -> Prop :=
  | nm_nil : null_map n d [] []
  | nm_absent : forall sc input ptx, null_map n d input ptx -> null_map n d (sc :: input) ptx
  | nm_present : forall name rows E pname input ptx,
      null_map n d input ptx -> 1 <= E -> rows_len (removelast rows) < E ->
      d * (rows_len rows - E) < n -> pname <> [] ->
      null_map n d ((name, rows) :: input) ((pname, [RF (mkFrag (-1) name 1 E 1 [])]) :: ptx).

(* ======================================================= small utilities *)
Lemma aget_notin {K V} (keqb : K -> K -> bool) (Hk : forall a b, keqb a b = true -> a = b) :
  forall (d : list (K * V)) k, ~ In k (map fst d) -> aget keqb d k = None.
Proof.
  induction d as [|[k0 v0] d IH]; intros k H; cbn [aget]; [reflexivity|].
  destruct (keqb k k0) eqn:E.
  - exfalso. apply H. left. symmetry. apply Hk, E.
  - apply IH. intro G. apply H. right. exact G.
Qed.

Lemma aget_in {K V} (keqb : K -> K -> bool) (Hk : forall a, keqb a a = true) :
  forall (d : list (K * V)) k, In k (map fst d) -> exists v, aget keqb d k = Some v.
Proof.
  induction d as [|[k0 v0] d IH]; intros k H; cbn [aget map fst In] in *; [destruct H|].
  destruct (keqb k k0) eqn:E; [eauto|].
  destruct H as [<-|H]; [rewrite Hk in E; discriminate | apply IH, H].
Qed.

Lemma aget_nodup_in {V} : forall (d : list (str * V)) k v,
  NoDup (map fst d) -> In (k, v) d -> aget str_eqb d k = Some v.
Proof.
  induction d as [|[k0 v0] d IH]; intros k v N H; [destruct H|].
  cbn [aget]. cbn [map fst] in N. inversion N as [|? ? N1 N2]; subst.
  destruct H as [H|H].
  - injection H as -> ->. rewrite str_eqb_refl. reflexivity.
  - destruct (str_eqb k k0) eqn:E.
    + apply str_eqb_eq in E. subst. exfalso. apply N1.
      change k0 with (fst (k0, v)). apply in_map, H.
    + apply IH; assumption.
Qed.

Lemma aset_notin {K V} (keqb : K -> K -> bool) (Hk : forall a b, keqb a b = true -> a = b) :
  forall (d : list (K * V)) k v, ~ In k (map fst d) -> aset keqb d k v = d ++ [(k, v)].
Proof.
  induction d as [|[k0 v0] d IH]; intros k v H; cbn [aset app]; [reflexivity|].
  destruct (keqb k k0) eqn:E.
  - exfalso. apply H. left. symmetry. apply Hk, E.
  - rewrite IH; [reflexivity|]. intro G. apply H. right. exact G.
Qed.

Lemma key_eqb_true a b : key_eqb a b = true -> a = b.
Proof.
  destruct a as [[n1 s1] e1], b as [[n2 s2] e2]. unfold key_eqb.
  destruct (Z.eqb_spec s1 s2); [|discriminate].
  destruct (Z.eqb_spec e1 e2); [|discriminate].
  intro H. apply str_eqb_eq in H. congruence.
Qed.
Lemma key_eqb_rfl a : key_eqb a a = true.
Proof.
  destruct a as [[n1 s1] e1]. unfold key_eqb. rewrite !Z.eqb_refl. apply str_eqb_refl.
Qed.

Lemma frags_of_cons_RF f t : frags_of (RF f :: t) = f :: frags_of t.
Proof. reflexivity. Qed.
Lemma frags_of_cons_RG g t : frags_of (RG g :: t) = frags_of t.
Proof. reflexivity. Qed.

Lemma mem_str_in x l : mem_str x l = true <-> In x l.
Proof.
  unfold mem_str. rewrite existsb_exists. split.
  - intros (y & Hy & E). apply str_eqb_eq in E. subst. exact Hy.
  - intro H. exists x. split; [exact H | apply str_eqb_refl].
Qed.

Lemma has_dup_names_nodup l : NoDup l -> has_dup_names l = false.
Proof.
  induction 1 as [|x l Hx Hl IH]; [reflexivity|].
  cbn [has_dup_names]. rewrite IH, Bool.orb_false_r.
  destruct (mem_str x l) eqn:E; [|reflexivity]. apply mem_str_in in E. contradiction.
Qed.

(* ================================================ numbering is harmless *)
Lemma number_rows_erase : forall rows n,
  map erase_id (fst (number_rows rows n)) = map erase_id rows.
Proof.
  induction rows as [|r rows IH]; intro n; [reflexivity|].
  cbn [number_rows]. specialize (IH (n + 1)).
  destruct r as [f|g]; destruct (number_rows rows (n + 1)) as [t' n']; cbn [fst map] in *;
    rewrite IH; reflexivity.
Qed.

Lemma number_input_erase : forall input n,
  map (fun p => (fst p, map erase_id (snd p))) (number_input input n)
  = map (fun p => (fst p, map erase_id (snd p))) input.
Proof.
  induction input as [|[name rows] input IH]; intro n; [reflexivity|].
  cbn [number_input]. pose proof (number_rows_erase rows n) as E.
  destruct (number_rows rows n) as [rows' n']. cbn [fst snd map] in *. rewrite E, IH. reflexivity.
Qed.

Lemma number_input_names : forall input n, map fst (number_input input n) = map fst input.
Proof.
  induction input as [|[name rows] input IH]; intro n; [reflexivity|].
  cbn [number_input]. destruct (number_rows rows n) as [rows' n']. cbn [map fst]. rewrite IH. reflexivity.
Qed.

(* everything the theorem assumes of a scaffold is blind to the ids *)
Lemma row_len_erase r : row_len (erase_id r) = row_len r.
Proof. destruct r; reflexivity. Qed.

Lemma erase_same_lens a b : map erase_id a = map erase_id b -> map row_len a = map row_len b.
Proof.
  intro E. apply (f_equal (map row_len)) in E. rewrite !map_map in E.
  erewrite (map_ext _ row_len), (map_ext (fun x => row_len (erase_id x)) row_len) in E
    by (intro; apply row_len_erase).
  exact E.
Qed.

Lemma map_removelast {A B} (f : A -> B) l : map f (removelast l) = removelast (map f l).
Proof.
  induction l as [|x l IH]; [reflexivity|].
  destruct l as [|y l]; [reflexivity|]. cbn [removelast map] in *. rewrite IH. reflexivity.
Qed.

Definition erase_frag (f : frag) : frag :=
  mkFrag (-1) (f_name f) (f_start f) (f_end f) (f_strand f) (f_tags f).

Lemma frags_of_erase rows : frags_of (map erase_id rows) = map erase_frag (frags_of rows).
Proof.
  induction rows as [|[f|g] rows IH]; [reflexivity| |]; cbn [map erase_id].
  - rewrite !frags_of_cons_RF. cbn [map]. rewrite IH. reflexivity.
  - rewrite !frags_of_cons_RG. exact IH.
Qed.

Lemma erase_same_frags (P : frag -> Prop) a b :
  (forall f, P (erase_frag f) <-> P f) ->
  map erase_id a = map erase_id b -> Forall P (frags_of a) -> Forall P (frags_of b).
Proof.
  intros HP E F.
  assert (G : Forall P (map erase_frag (frags_of b))).
  { rewrite <- frags_of_erase, <- E, frags_of_erase. rewrite Forall_map.
    eapply Forall_impl; [|exact F]. intros f Hf. apply HP, Hf. }
  rewrite Forall_map in G. eapply Forall_impl; [|exact G]. intros f Hf. apply HP, Hf.
Qed.

Lemma erase_last a b f t :
  map erase_id a = map erase_id b -> a = t ++ [RF f] -> exists f' t', b = t' ++ [RF f'].
Proof.
  intros E ->. destruct (exists_last (l := b)) as (t' & x & ->).
  { intros ->. destruct t; discriminate. }
  rewrite !map_app in E. apply app_inj_tail in E as [_ E].
  destruct x as [f'|g]; [eauto | discriminate].
Qed.

Lemma no_gap_pair_erase a b :
  map erase_id a = map erase_id b -> no_gap_pair a -> no_gap_pair b.
Proof.
  intros E H p g1 g2 q ->. rewrite map_app in E. cbn [map erase_id] in E.
  apply map_eq_app in E as (p' & r' & -> & _ & E).
  destruct r' as [|x [|y r']]; try discriminate. cbn [map] in E.
  injection E as E1 E2 _. destruct x as [?|x]; [discriminate|]. destruct y as [?|y]; [discriminate|].
  exact (H p' x y r' eq_refl).
Qed.

Lemma sc_ok_erase name a b :
  map erase_id a = map erase_id b -> sc_ok (name, a) -> sc_ok (name, b).
Proof.
  intros E (H1 & H2 & (f0 & t0 & H3) & (fl & tl & H4) & H5 & H6 & H7). unfold sc_ok. cbn [fst snd] in *.
  assert (EL := erase_same_lens a b E).
  split; [|split; [|split; [|split; [|split; [|split]]]]].
  - intros ->. destruct a; [congruence | discriminate].
  - unfold pos_rows in *. rewrite <- (Forall_map row_len (fun z => 1 <= z)) in *.
    rewrite <- EL. exact H2.
  - subst a. destruct b as [|[f'|g] b']; try discriminate. eauto.
  - eapply erase_last; eassumption.
  - eapply (erase_same_frags _ a b); [|exact E|exact H5]. intro f. reflexivity.
  - exact H6.
  - intros f t ->. subst a. cbn [map erase_id] in E. injection E as E _.
    rewrite <- E. apply (H7 f0 t0 eq_refl).
Qed.

Lemma rows_len_erase a b : map erase_id a = map erase_id b -> rows_len a = rows_len b.
Proof. intro E. unfold rows_len. rewrite (erase_same_lens a b E). reflexivity. Qed.

Lemma null_map_number n d : forall input ptx, null_map n d input ptx ->
  forall k, null_map n d (number_input input k) ptx.
Proof.
  induction 1 as [|[name rows] input ptx H IH|name rows E pname input ptx H IH H1 H2 H3 H4];
    intro k; cbn [number_input].
  - constructor.
  - destruct (number_rows rows k) as [rows' k']. cbn [fst snd] in *.
    apply nm_absent. apply IH.
  - pose proof (number_rows_erase rows k) as Er.
    destruct (number_rows rows k) as [rows' k']. cbn [fst] in Er.
    apply nm_present; try assumption; [apply IH | |].
    + rewrite (rows_len_erase (removelast rows') (removelast rows)); [exact H2|].
      rewrite !map_removelast, Er. reflexivity.
    + rewrite (rows_len_erase rows' rows Er). exact H3.
Qed.

Lemma sc_ok_number : forall input k, Forall sc_ok input -> Forall sc_ok (number_input input k).
Proof.
  induction input as [|[name rows] input IH]; intros k F; cbn [number_input]; [constructor|].
  pose proof (number_rows_erase rows k) as Er.
  destruct (number_rows rows k) as [rows' k']. cbn [fst] in Er.
  inversion F as [|? ? F1 F2]; subst. constructor; [|apply IH, F2].
  eapply sc_ok_erase; [symmetry; exact Er | exact F1].
Qed.

(* ================================================ the present scaffolds *)
Record pres := mkP { p_pname : str; p_name : str; p_rows : list row; p_E : Z }.
Definition ptx_of (q : pres) : str * list row :=
  (p_pname q, [RF (mkFrag (-1) (p_name q) 1 (p_E q) 1 [])]).
Definition pres_ok (n d : Z) (inp : list (str * list row)) (q : pres) : Prop :=
  In (p_name q, p_rows q) inp /\ 1 <= p_E q /\ rows_len (removelast (p_rows q)) < p_E q
  /\ d * (rows_len (p_rows q) - p_E q) < n.

Lemma null_map_pres n d : forall sub ptx, null_map n d sub ptx -> NoDup (map fst sub) ->
  exists ps, ptx = map ptx_of ps /\ Forall (pres_ok n d sub) ps /\ NoDup (map p_name ps).
Proof.
  induction 1 as [|sc input ptx H IH|name rows E pname input ptx H IH H1 H2 H3 H4]; intro N.
  - exists []. repeat split; constructor.
  - cbn [map] in N. inversion N as [|? ? N1 N2]; subst.
    destruct (IH N2) as (ps & -> & F & ND). exists ps.
    split; [reflexivity|]. split; [|exact ND].
    eapply Forall_impl; [|exact F]. intros q (Q1 & Q2). split; [right; exact Q1 | exact Q2].
  - cbn [map fst] in N. inversion N as [|? ? N1 N2]; subst.
    destruct (IH N2) as (ps & -> & F & ND). exists (mkP pname name rows E :: ps).
    split; [reflexivity|]. split.
    + constructor.
      * split; [left; reflexivity|]. cbn [p_E p_rows]. auto.
      * eapply Forall_impl; [|exact F]. intros q (Q1 & Q2). split; [right; exact Q1 | exact Q2].
    + cbn [map p_name]. constructor; [|exact ND]. intro I. apply N1.
      apply in_map_iff in I as (q & <- & Iq). rewrite Forall_forall in F.
      destruct (F q Iq) as (Q1 & _). change (p_name q) with (fst (p_name q, p_rows q)).
      apply in_map, Q1.
Qed.

(* ======================================================= A. the lookups *)
Definition nm_inv (nm : namer) : Prop :=
  nm_primary nm = None /\ nm_target nm = false
  /\ nm_hap_scaffolds nm = [] /\ nm_unloc_scaffolds nm = [].

Definition piece_of (q : pres) : scaffold * bool :=
  (mkScaffold (p_name q) (p_rows q) None None 3 (Some (p_pname q)) [], true).

Lemma fragment_tags_untagged rows :
  Forall (fun f => f_tags f = []) (frags_of rows) -> fragment_tags rows = [].
Proof.
  unfold fragment_tags. intro F.
  replace (flat_map f_tags (frags_of rows)) with (@nil str); [reflexivity|].
  induction F as [|f l Hf _ IH]; [reflexivity|]. cbn [flat_map]. rewrite Hf, <- IH. reflexivity.
Qed.

(* make_scaffold_name for an untagged, unpainted scaffold whose first contig
   does not look like <hap>_..._<n> *)
Lemma msn_plain nm sc_name0 rows fn :
  fragment_tags rows = [] -> first_row_name rows = Ok fn -> haplotype_prefix_of_name fn = None ->
  nm_primary nm = None ->
  make_scaffold_name nm sc_name0 rows [] =
    Ok (mkNamer (nm_prefix nm) (Some fn) 3 None (nm_hap_n nm) (nm_hap_scaffolds nm) None
                (nm_target nm) 0 [] (nm_hap_lc nm)).
Proof.
  intros H1 H2 H3 H4. unfold make_scaffold_name. rewrite H1.
  cbn [foldM bind ts_hap ts_lc ts_primary ts_name ts_painted ts_rank ts_target truthy andb negb].
  rewrite H2. cbn [bind]. rewrite H3. cbn [bind andb]. rewrite H4. reflexivity.
Qed.

Lemma label_plain nm id name : nm_cur_name nm = Some name -> nm_target nm = false ->
  label_scaffold nm id [] [] = Ok (nm, mkLabel name None (nm_cur_hap nm) (nm_cur_rank nm)).
Proof. intros H1 H2. unfold label_scaffold. rewrite H1, H2. reflexivity. Qed.

Lemma trim_large_noop' r err :
  start_overhang r <= err -> end_overhang r <= err -> trim_large_overhangs r err = Ok r.
Proof.
  intros A B. unfold trim_large_overhangs.
  assert (A' : start_overhang r >? err = false) by lia.
  assert (B' : end_overhang r >? err = false) by lia.
  destruct ((zlen (o_rows r) =? 1) && (f_len (o_bait r) >? err)); [reflexivity|].
  rewrite A'. cbn [bind andb]. rewrite B'. destruct (o_rows r); reflexivity.
Qed.

Lemma store_found_fresh id : forall fs found,
  NoDup (map fst found ++ map key_of fs) ->
  exists found', fold_left (store_found_one id) fs (found, []) = (found', [])
    /\ map fst found' = map fst found ++ map key_of fs.
Proof.
  induction fs as [|f fs IH]; intros found N; cbn [fold_left map].
  - exists found. rewrite app_nil_r. split; reflexivity.
  - cbn [map] in N. pose proof (NoDup_remove_2 _ _ _ N) as NI.
    unfold store_found_one at 2.
    rewrite (aget_notin key_eqb key_eqb_true found (key_of f))
      by (intro G; apply NI, in_or_app; left; exact G).
    destruct (IH (found ++ [(key_of f, (f, [id]))])) as (found' & E1 & E2).
    { rewrite map_app. cbn [map fst]. rewrite <- app_assoc. exact N. }
    exists found'. split; [exact E1|]. rewrite E2, map_app, <- app_assoc. reflexivity.
Qed.

Lemma one_pretext_null n d inp q b :
  0 <= n -> 0 < d ->
  NoDup (map fst inp) -> sc_ok (p_name q, p_rows q) -> pres_ok n d inp q ->
  b_multi b = [] -> nm_inv (b_namer b) ->
  NoDup (map fst (b_found b) ++ map key_of (frags_of (p_rows q))) ->
  exists r found' nm',
    one_pretext_scaffold inp (error_length (n, d)) b (ptx_of q)
      = Ok (mkB (b_store b ++ [r]) (b_added b ++ [zlen (b_store b)]) found' [] nm' (b_cuts b))
    /\ piece_of_result r = piece_of q
    /\ map fst found' = map fst (b_found b) ++ map key_of (frags_of (p_rows q))
    /\ nm_inv nm'.
Proof.
  intros Hn Hd N (S1 & S2 & S3 & S4 & S5 & S6 & S7) (Q1 & Q2 & Q3 & Q4) M (I1 & I2 & I3 & I4) ND.
  destruct q as [pname name rows E]. destruct b as [store added found multi nm cuts].
  cbn [fst snd p_pname p_name p_rows p_E b_store b_added b_found b_multi b_namer b_cuts] in *. subst multi.
  destruct (null_bait_result rows name E 1 [] n d S1 S2 S3 S4 Q2 Q3 Hn Hd Q4)
    as (fo & F1 & F2 & F3 & F4 & _).
  set (r := set_labels (ovr_of_found (mkFrag (-1) name 1 E 1 []) fo) (mkLabel name None None 3) pname []).
  assert (T : trim_large_overhangs r (error_length (n, d)) = Ok r).
  { apply trim_large_noop'.
    - unfold start_overhang, r, set_labels, ovr_of_found. cbn [o_bait o_start f_start]. rewrite F3.
      pose proof (error_length_pos n d Hn Hd). lia.
    - unfold end_overhang, r, set_labels, ovr_of_found. cbn [o_bait o_end f_end]. rewrite F4.
      pose proof (error_length_spec n d Hn Hd) as G.
      assert (L : d * (rows_len rows - E) < d * error_length (n, d)) by lia.
      apply Z.mul_lt_mono_pos_l in L; lia. }
  assert (R : o_rows r = rows) by (unfold r, set_labels, ovr_of_found; cbn [o_rows]; exact F2).
  destruct (store_found_fresh (zlen store) (frags_of rows) found ND) as (found' & E1 & E2).
  exists r, found',
    (mkNamer (nm_prefix nm) (Some name) 3 None (nm_hap_n nm) (nm_hap_scaffolds nm) None
             (nm_target nm) 0 [] (nm_hap_lc nm)).
  split; [|split; [|split; [exact E2|]]].
  - unfold one_pretext_scaffold, ptx_of. cbn [p_pname p_name p_rows p_E].
    change (fragment_tags [RF (mkFrag (-1) name 1 E 1 [])]) with (@nil str).
    rewrite (msn_plain nm pname _ name); [|reflexivity|reflexivity|exact S6|exact I1].
    cbn [bind]. change (frags_of [RF (mkFrag (-1) name 1 E 1 [])]) with [mkFrag (-1) name 1 E 1 []].
    cbn [foldM]. unfold one_bait at 1. cbn [f_name f_start f_end f_tags].
    unfold input_rows. rewrite (aget_nodup_in inp name rows N Q1). cbn [bind].
    rewrite F1. cbn [bind]. unfold with_namer. cbn [b_store b_added b_found b_multi b_namer b_cuts].
    rewrite (label_plain _ _ name); [|reflexivity|exact I2]. cbn [bind nm_cur_hap nm_cur_rank].
    fold r. rewrite T. cbn [bind]. rewrite R.
    destruct S3 as (f0 & t0 & S3). rewrite S3 at 1. rewrite <- S3.
    unfold store_fragments_found. cbn [b_store b_added b_found b_multi b_namer b_cuts].
    rewrite E1. cbn [bind foldM].
    unfold rename_results. cbn [b_store b_namer nm_unloc_scaffolds mapM bind].
    unfold rename_by_size. cbn [map combine fold_left]. unfold with_store.
    cbn [b_store b_added b_found b_multi b_namer b_cuts]. reflexivity.
  - unfold piece_of_result, piece_of, to_scaffold_rows, r, set_labels, ovr_of_found.
    cbn [o_name o_tag o_hap o_rank o_orig o_orig_tags o_bait o_rows f_strand lb_name lb_tag lb_hap lb_rank
         p_name p_rows p_pname].
    change (1 =? -1) with false. cbv iota. rewrite F2. reflexivity.
  - unfold nm_inv. cbn. auto.
Qed.

Lemma NoDup_app_inv {A} (a b : list A) :
  NoDup (a ++ b) -> NoDup a /\ NoDup b /\ (forall x, In x a -> ~ In x b).
Proof.
  induction a as [|x a IH]; cbn [app]; intro N.
  - split; [constructor|]. split; [exact N|]. intros x [].
  - inversion N as [|? ? N1 N2]; subst. destruct (IH N2) as (I1 & I2 & I3).
    split; [|split; [exact I2|]].
    + constructor; [|exact I1]. intro G. apply N1, in_or_app. left. exact G.
    + intros y [<-|Hy] G; [apply N1, in_or_app; right; exact G | exact (I3 y Hy G)].
Qed.

Definition added_ok (b : bstate) : Prop :=
  b_added b = map Z.of_nat (seq 0 (length (b_store b))).

Definition pres_frags (ps : list pres) : list frag := flat_map (fun q => frags_of (p_rows q)) ps.

Lemma pretext_null n d inp : 0 <= n -> 0 < d -> NoDup (map fst inp) -> Forall sc_ok inp ->
  forall ps b,
  Forall (pres_ok n d inp) ps ->
  b_multi b = [] -> nm_inv (b_namer b) -> added_ok b ->
  NoDup (map fst (b_found b) ++ map key_of (pres_frags ps)) ->
  exists b',
    foldM (one_pretext_scaffold inp (error_length (n, d))) (map ptx_of ps) b = Ok b'
    /\ map piece_of_result (b_store b') = map piece_of_result (b_store b) ++ map piece_of ps
    /\ map fst (b_found b') = map fst (b_found b) ++ map key_of (pres_frags ps)
    /\ b_multi b' = [] /\ nm_inv (b_namer b') /\ added_ok b' /\ b_cuts b' = b_cuts b.
Proof.
  intros Hn Hd N OK. induction ps as [|q ps IH]; intros b F M I A ND.
  - exists b. cbn [map foldM pres_frags flat_map]. rewrite !app_nil_r. auto 10.
  - inversion F as [|? ? F1 F2]; subst.
    assert (Sq : sc_ok (p_name q, p_rows q)).
    { rewrite Forall_forall in OK. apply OK. apply F1. }
    unfold pres_frags in ND. cbn [flat_map] in ND. rewrite map_app, app_assoc in ND.
    destruct (NoDup_app_inv _ _ ND) as (ND1 & _ & _).
    destruct (one_pretext_null n d inp q b Hn Hd N Sq F1 M I ND1) as (r & found' & nm' & E & P & Fd & I').
    cbn [map foldM]. rewrite E. cbn [bind].
    destruct (IH (mkB (b_store b ++ [r]) (b_added b ++ [zlen (b_store b)]) found' [] nm' (b_cuts b)))
      as (b' & E' & P' & Fd' & M' & I'' & A' & C'); try assumption; try reflexivity.
    + unfold added_ok in *. cbn [b_added b_store]. rewrite A, app_length. cbn [length].
      rewrite Nat.add_1_r, seq_S, map_app. reflexivity.
    + cbn [b_found]. rewrite Fd. exact ND.
    + exists b'. split; [exact E'|]. cbn [b_store b_found b_cuts] in *.
      split; [|split; [|auto]].
      * rewrite P', map_app, <- app_assoc. cbn [map app]. rewrite P. reflexivity.
      * rewrite Fd', Fd. unfold pres_frags. cbn [flat_map]. rewrite map_app, <- app_assoc. reflexivity.
Qed.

(* ============================ B. nothing to resolve, nothing to cut *)
Lemma discard_loop_nomulti fuel err b : b_multi b = [] -> discard_loop (S fuel) err b = Ok b.
Proof. intro M. cbn [discard_loop]. rewrite M. reflexivity. Qed.

Lemma cut_remaining_nomulti c b : b_multi b = [] -> cut_remaining_overhangs c b = Ok b.
Proof.
  intro M. unfold cut_remaining_overhangs. rewrite M. cbn [foldM bind].
  destruct b; cbn in *. subst. reflexivity.
Qed.

Lemma rename_results_nil st : rename_results st [] = Ok st.
Proof. reflexivity. Qed.

(* =================================== C. the scaffolds no bait named *)
(* [alt_ok g rows]: no two consecutive gaps in [rows], no gap at the end, and
   no gap at the start if [g] (the row before was a gap).  Only the lemmas
   that hold for BOTH values of [fix_gap_run] use it. *)
Fixpoint alt_ok (prev_gap : bool) (rows : list row) : Prop :=
  match rows with
  | [] => prev_gap = false
  | RF _ :: t => alt_ok false t
  | RG _ :: t => prev_gap = false /\ alt_ok true t
  end.

Lemma alt_ok_of_no_gap_pair : forall rows,
  (exists f t, rows = t ++ [RF f]) -> no_gap_pair rows ->
  alt_ok false rows /\ ((exists f t, rows = RF f :: t) -> alt_ok true rows).
Proof.
  induction rows as [|r rows IH]; intros (fl & tl & L) G.
  - destruct tl; discriminate.
  - destruct rows as [|r2 rows'].
    + destruct tl as [|x [|y tl]]; try discriminate. injection L as ->.
      cbn [alt_ok]. split; [reflexivity|]. intros _. reflexivity.
    + assert (L' : exists f t, r2 :: rows' = t ++ [RF f]).
      { destruct tl as [|x tl]; [discriminate|]. injection L as _ L. eauto. }
      assert (G' : no_gap_pair (r2 :: rows')).
      { intros a g1 g2 b E. apply (G (r :: a) g1 g2 b). rewrite E. reflexivity. }
      destruct (IH L' G') as (I1 & I2).
      destruct r as [f|g].
      * cbn [alt_ok]. split; [exact I1|]. intros _. exact I1.
      * split; [|intros (f & t & E); discriminate].
        cbn [alt_ok]. split; [reflexivity|]. apply I2.
        destruct r2 as [f2|g2]; [eauto|]. exfalso. exact (G [] g g2 rows' eq_refl).
Qed.

Definition none_found (found : list (fkey * (frag * list rid))) (rows : list row) : Prop :=
  Forall (fun f => aget key_eqb found (key_of f) = None) (frags_of rows).
Definition all_found (found : list (fkey * (frag * list rid))) (rows : list row) : Prop :=
  Forall (fun f => aget key_eqb found (key_of f) <> None) (frags_of rows).

Lemma missing_all_found c found dg : forall rows between i la,
  all_found found rows -> missing_rows c found dg rows between i la = [].
Proof.
  induction rows as [|[f|g] rows IH]; intros between i la A; cbn [missing_rows]; [reflexivity| |].
  - unfold all_found in A. rewrite frags_of_cons_RF in A. inversion A as [|? ? A1 A2]; subst.
    destruct (aget key_eqb found (key_of f)); [apply IH, A2 | congruence].
  - apply IH, A.
Qed.

(* ---- both modes: rows without two consecutive gaps come back unchanged.
   [between] is [] right after an added fragment and [RG g] after one gap; a
   single gap is its own separator whatever [fix_gap_run] says *)
Lemma missing_sep_single c dg g : missing_sep c dg [RG g] = [RG g].
Proof. unfold missing_sep. cbn [forallb is_gap_row andb last]. destruct (fix_gap_run c); reflexivity. Qed.

Lemma missing_none_found_gen c found dg : forall rows i, none_found found rows ->
  (alt_ok false rows -> missing_rows c found dg rows [] i (Some (i - 1)) = rows)
  /\ (alt_ok true rows -> forall g, missing_rows c found dg rows [RG g] i (Some (i - 2)) = RG g :: rows).
Proof.
  induction rows as [|[f|g'] rows IH]; intros i NF.
  - split; [reflexivity|]. cbn [alt_ok]. discriminate.
  - unfold none_found in NF. rewrite frags_of_cons_RF in NF. inversion NF as [|? ? N1 N2]; subst.
    destruct (IH (i + 1) N2) as (I1 & _).
    replace (Some (i + 1 - 1)) with (Some i) in I1 by (f_equal; lia).
    cbn [missing_rows alt_ok]. rewrite N1. split.
    + intros A. rewrite Z.eqb_refl. cbn [negb app]. rewrite (I1 A). reflexivity.
    + intros A x. replace (i - 2 =? i - 1) with false by lia. cbn [negb].
      rewrite missing_sep_single. cbn [app]. rewrite (I1 A). reflexivity.
  - destruct (IH (i + 1) NF) as (_ & I2).
    replace (Some (i + 1 - 2)) with (Some (i - 1)) in I2 by (f_equal; lia).
    cbn [missing_rows alt_ok app]. split.
    + intros (_ & A). apply I2, A.
    + intros (A & _). discriminate.
Qed.

Lemma missing_none_found c found dg f t :
  none_found found (RF f :: t) -> alt_ok false t ->
  missing_rows c found dg (RF f :: t) [] 0 None = RF f :: t.
Proof.
  intros NF A. unfold none_found in NF. rewrite frags_of_cons_RF in NF.
  inversion NF as [|? ? N1 N2]; subst.
  cbn [missing_rows]. rewrite N1. cbn [app]. f_equal.
  destruct (missing_none_found_gen c found dg t (0 + 1) N2) as (I1 & _).
  apply (I1 A).
Qed.

(* ---- [fix_gap_run c = true] only: ANY rows that begin and end with a fragment
   come back unchanged, runs of several gaps included.  (False of the pinned
   commit: [null_map_legacy_refuted] below.) *)
Lemma none_found_app found a b : none_found found (a ++ b) <-> none_found found a /\ none_found found b.
Proof. unfold none_found. rewrite RemapTail.frags_of_app. apply Forall_app. Qed.

Lemma missing_sep_run c dg between i j :
  fix_gap_run c = true -> forallb is_gap_row between = true -> (j = i - 1 -> between = []) ->
  (if negb (j =? i - 1) then missing_sep c dg between else []) = between.
Proof.
  intros FX GB B. destruct (Z.eqb_spec j (i - 1)) as [E|E]; cbn [negb].
  - symmetry. apply B, E.
  - unfold missing_sep. rewrite FX, GB. reflexivity.
Qed.

Lemma missing_none_found_runs_gen c found dg fl : fix_gap_run c = true ->
  forall rows between i j, none_found found (rows ++ [RF fl]) ->
  forallb is_gap_row between = true -> j < i -> (j = i - 1 -> between = []) ->
  missing_rows c found dg (rows ++ [RF fl]) between i (Some j) = between ++ rows ++ [RF fl].
Proof.
  intros FX. induction rows as [|[f|g'] rows IH]; intros between i j NF GB Hj B; cbn [app missing_rows].
  - unfold none_found in NF. cbn [frags_of flat_map app] in NF. inversion NF as [|? ? N1 _]; subst.
    rewrite N1, (missing_sep_run c dg between i j FX GB B). reflexivity.
  - cbn [app] in NF. unfold none_found in NF. rewrite frags_of_cons_RF in NF.
    inversion NF as [|? ? N1 N2]; subst.
    rewrite N1, (missing_sep_run c dg between i j FX GB B).
    rewrite (IH [] (i + 1) i N2 eq_refl) by (first [lia | intros; reflexivity]). reflexivity.
  - rewrite (IH (between ++ [RG g']) (i + 1) j NF); [rewrite <- app_assoc; reflexivity | | lia | lia].
    rewrite forallb_app, GB. reflexivity.
Qed.

Lemma missing_none_found_runs c found dg rows :
  fix_gap_run c = true -> none_found found rows ->
  (exists f t, rows = RF f :: t) -> (exists f t, rows = t ++ [RF f]) ->
  missing_rows c found dg rows [] 0 None = rows.
Proof.
  intros FX NF (f0 & t0 & ->) (fl & tl & S4).
  unfold none_found in NF. rewrite frags_of_cons_RF in NF. inversion NF as [|? ? N1 N2]; subst.
  cbn [missing_rows]. rewrite N1. cbn [app]. f_equal.
  destruct tl as [|x tl]; cbn [app] in S4; injection S4 as S4 ->.
  - reflexivity.
  - rewrite (missing_none_found_runs_gen c found dg fl FX tl [] (0 + 1) 0 N2 eq_refl)
      by (first [lia | intros; reflexivity]).
    reflexivity.
Qed.

Definition leftb (found : list (fkey * (frag * list rid))) (p : str * list row) : bool :=
  match frags_of (snd p) with
  | f :: _ => match aget key_eqb found (key_of f) with None => true | Some _ => false end
  | [] => false
  end.
Definition mk_left (p : str * list row) : scaffold := mkScaffold (fst p) (snd p) None None 3 None [].

(* needs [fix_gap_run c = true] (or, for the pinned commit, [no_gap_pair rows]) *)
Lemma add_missing_one_left c dg found nm left name rows :
  fix_gap_run c = true ->
  nm_primary nm = None -> nm_target nm = false -> sc_ok (name, rows) ->
  none_found found rows ->
  exists fn, add_missing_one c dg found (nm, left) (name, rows)
  = Ok (mkNamer (nm_prefix nm) (Some fn) 3 None (nm_hap_n nm) (nm_hap_scaffolds nm)
                None false 0 [] (nm_hap_lc nm),
        left ++ [mkScaffold name rows None None 3 None []]).
Proof.
  intros FX P T (S1 & S2 & (f0 & t0 & S3) & S4 & S5 & S6 & S7) NF. cbn [fst snd] in *.
  exists (f_name f0).
  assert (MR : missing_rows c found dg rows [] 0 None = rows).
  { apply missing_none_found_runs; eauto. }
  unfold add_missing_one. rewrite MR. rewrite S3 at 1. rewrite <- S3.
  rewrite (msn_plain nm name rows (f_name f0)); [| |subst rows; reflexivity|apply (S7 f0 t0 S3)|exact P].
  2:{ apply fragment_tags_untagged. eapply Forall_impl; [|exact S5]. cbn. tauto. }
  cbn [bind nm_target nm_cur_hap]. rewrite T. reflexivity.
Qed.

Lemma add_missing_null c dg found : fix_gap_run c = true -> forall inp nm left,
  nm_primary nm = None -> nm_target nm = false ->
  Forall (fun p => sc_ok p /\ (all_found found (snd p) \/ none_found found (snd p))) inp ->
  exists nm', foldM (add_missing_one c dg found) inp (nm, left)
              = Ok (nm', left ++ map mk_left (filter (leftb found) inp)).
Proof.
  intros FX. induction inp as [|[name rows] inp IH]; intros nm left P T F.
  - exists nm. cbn [foldM filter map]. rewrite app_nil_r. reflexivity.
  - inversion F as [|? ? F1 F2]; subst. destruct F1 as (OK & C). cbn [snd] in C.
    cbn [foldM]. destruct C as [A|NF].
    + unfold add_missing_one at 1.
      rewrite (missing_all_found c found dg rows [] 0 None A). cbn [bind].
      destruct (IH nm left P T F2) as (nm' & E). exists nm'. rewrite E.
      assert (L : leftb found (name, rows) = false).
      { destruct OK as (_ & _ & (f0 & t0 & S3) & _). cbn [snd] in S3.
        unfold leftb. cbn [snd]. subst rows. rewrite frags_of_cons_RF.
        unfold all_found in A. rewrite frags_of_cons_RF in A. inversion A as [|? ? A1 _]; subst.
        destruct (aget key_eqb found (key_of f0)); [reflexivity | congruence]. }
      cbn [filter]. rewrite L. reflexivity.
    + destruct (add_missing_one_left c dg found nm left name rows FX P T OK NF) as (fn & E1).
      rewrite E1. cbn [bind].
      destruct (IH (mkNamer (nm_prefix nm) (Some fn) 3 None (nm_hap_n nm) (nm_hap_scaffolds nm)
                            None false 0 [] (nm_hap_lc nm))
                   (left ++ [mkScaffold name rows None None 3 None []]) eq_refl eq_refl F2) as (nm' & E).
      exists nm'. rewrite E.
      assert (L : leftb found (name, rows) = true).
      { destruct OK as (_ & _ & (f0 & t0 & S3) & _). cbn [snd] in S3.
        unfold leftb. cbn [snd]. rewrite S3, frags_of_cons_RF.
        unfold none_found in NF. rewrite S3, frags_of_cons_RF in NF. inversion NF as [|? ? N1 _]; subst.
        rewrite N1. reflexivity. }
      cbn [filter]. rewrite L. cbn [map]. rewrite <- app_assoc. reflexivity.
Qed.

(* ========================================== D. fusing fuses nothing *)
Lemma mapM_get_all : forall l pre,
  mapM (get_ovr (pre ++ l)) (map Z.of_nat (seq (length pre) (length l))) = Ok l.
Proof.
  induction l as [|x l IH]; intro pre; [reflexivity|].
  cbn [length seq map mapM].
  assert (G : get_ovr (pre ++ x :: l) (Z.of_nat (length pre)) = Ok x).
  { unfold get_ovr. rewrite Nat2Z.id, nth_error_app2 by lia. rewrite Nat.sub_diag. reflexivity. }
  rewrite G. cbn [bind].
  specialize (IH (pre ++ [x])). rewrite <- app_assoc, app_length in IH. cbn [app length] in IH.
  rewrite Nat.add_1_r in IH. rewrite IH. reflexivity.
Qed.

Lemma fuse_fold_distinct g : forall pieces acc,
  Forall (fun p : scaffold * bool => sc_rows (fst p) <> []) pieces ->
  NoDup (map fst acc ++ map (fun p => key_of_piece (fst p)) pieces) ->
  fold_left (fuse_step repaired g) pieces acc
  = acc ++ map (fun p => (key_of_piece (fst p), fst p)) pieces.
Proof.
  induction pieces as [|[sc isr] pieces IH]; intros acc F N; cbn [fold_left map fst].
  - rewrite app_nil_r. reflexivity.
  - inversion F as [|? ? F1 F2]; subst. cbn [fst map] in *.
    rewrite (fuse_step_repaired g acc sc isr F1).
    assert (NI : ~ In (key_of_piece sc) (map fst acc)).
    { intro G. apply (NoDup_remove_2 _ _ _ N), in_or_app. left. exact G. }
    assert (HK : forall a b, fuse_key_eqb a b = true -> a = b) by (intros a b; apply fuse_key_eqb_eq).
    rewrite (aset_notin fuse_key_eqb HK acc _ _ NI).
    assert (B : step_build' g acc sc = sc).
    { unfold step_build', step_build. rewrite (aget_notin fuse_key_eqb HK acc _ NI).
      unfold append_rows. cbn [sc_name sc_rows sc_tag sc_hap sc_rank sc_orig sc_orig_tags app].
      destruct sc; reflexivity. }
    rewrite B, IH; [rewrite <- app_assoc; reflexivity | exact F2 |].
    rewrite map_app, <- app_assoc. exact N.
Qed.

(* ================================================= E. one assembly out *)
Definition plain (sc : scaffold) : Prop := sc_tag sc = None /\ sc_hap sc = None /\ sc_rank sc = 3.

Lemma asm_key_plain sc : plain sc -> asm_key_of sc = (None, true).
Proof. intros (T & H & _). unfold asm_key_of. rewrite T, H. reflexivity. Qed.

Lemma group_plain_acc : forall l scs, Forall plain l ->
  fold_left
    (fun acc sc =>
       let '(k, curated) := asm_key_of sc in
       match aget (opt_eqb str_eqb) acc k with
       | Some (cur, scs) => aset (opt_eqb str_eqb) acc k (cur, scs ++ [sc])
       | None => acc ++ [(k, (curated, [sc]))]
       end) l [(None, (true, scs))]
  = [(None, (true, scs ++ l))].
Proof.
  induction l as [|sc l IH]; intros scs F; cbn [fold_left].
  - rewrite app_nil_r. reflexivity.
  - inversion F as [|? ? F1 F2]; subst. rewrite (asm_key_plain sc F1).
    cbn [aget aset opt_eqb]. rewrite (IH _ F2), <- app_assoc. reflexivity.
Qed.

Lemma group_plain : forall l, Forall plain l -> l <> [] ->
  fold_left
    (fun acc sc =>
       let '(k, curated) := asm_key_of sc in
       match aget (opt_eqb str_eqb) acc k with
       | Some (cur, scs) => aset (opt_eqb str_eqb) acc k (cur, scs ++ [sc])
       | None => acc ++ [(k, (curated, [sc]))]
       end) l []
  = [(None, (true, l))].
Proof.
  intros [|sc l] F NE; [congruence|]. inversion F as [|? ? F1 F2]; subst.
  cbn [fold_left]. rewrite (asm_key_plain sc F1). cbn [aget app].
  rewrite (group_plain_acc l [sc] F2). reflexivity.
Qed.

Lemma map_id_in {A} (f : A -> A) l : (forall x, In x l -> f x = x) -> map f l = l.
Proof.
  induction l as [|x l IH]; intro H; [reflexivity|]. cbn [map].
  rewrite (H x (or_introl eq_refl)), IH; [reflexivity|]. intros y Hy. apply H. right. exact Hy.
Qed.

Lemma flat_map_nil_in {A B} (f : A -> list B) l : (forall x, In x l -> f x = []) -> flat_map f l = [].
Proof.
  induction l as [|x l IH]; intro H; [reflexivity|]. cbn [flat_map].
  rewrite (H x (or_introl eq_refl)), IH; [reflexivity|]. intros y Hy. apply H. right. exact Hy.
Qed.

(* ----------------------------------------------------- junction sets *)
Definition jset (rows : list row) : list junction :=
  match junction_set repaired rows with Ok l => l | Err _ => [] end.

Definition mem_any {K} (x : junction) (d : list (K * list junction)) : Prop :=
  exists p, In p d /\ In x (snd p).

Lemma mem_any_cons {K} x (p : K * list junction) d : mem_any x (p :: d) <-> In x (snd p) \/ mem_any x d.
Proof.
  unfold mem_any. split.
  - intros (q & [<-|I] & H); [left; exact H | right; eauto].
  - intros [H|(q & I & H)]; [exists p; split; [left; reflexivity | exact H] | exists q; split; [right; exact I | exact H]].
Qed.

Lemma mem_any_nil {K} x : ~ mem_any x (@nil (K * list junction)).
Proof. intros (q & [] & _). Qed.

Lemma mem_any_aset x : forall (d : list (option str * list junction)) k js,
  mem_any x (aset (opt_eqb str_eqb) d k
               (union_j (match aget (opt_eqb str_eqb) d k with Some l => l | None => [] end) js))
  <-> mem_any x d \/ In x js.
Proof.
  induction d as [|[k0 v0] d IH]; intros k js; cbn [aget aset].
  - rewrite mem_any_cons. cbn [snd]. rewrite union_j_in. pose proof (@mem_any_nil (option str) x). cbn [In]. tauto.
  - destruct (opt_eqb str_eqb k k0).
    + rewrite !mem_any_cons. cbn [snd]. rewrite union_j_in. tauto.
    + rewrite !mem_any_cons, IH. tauto.
Qed.

Lemma fold_union_in {K} x : forall (d : list (K * list junction)) a0,
  In x (fold_left (fun acc p => union_j acc (snd p)) d a0) <-> In x a0 \/ mem_any x d.
Proof.
  induction d as [|p d IH]; intro a0; cbn [fold_left].
  - pose proof (@mem_any_nil K x). tauto.
  - rewrite IH, union_j_in, mem_any_cons. tauto.
Qed.

Definition pm_rows (rows : list row) : Prop := Forall pm (frags_of rows).

Lemma jset_ok rows : pm_rows rows -> junction_set repaired rows = Ok (jset rows).
Proof. intro H. unfold jset. destruct (junction_set_ok repaired rows H) as (js & ->). reflexivity. Qed.

Lemma jset_nofrags rows : frags_of rows = [] -> jset rows = [].
Proof. intro H. unfold jset, junction_set, scaffold_junctions. rewrite H. reflexivity. Qed.

Lemma input_junctions_null : forall (inp : list (str * list row)) acc,
  Forall (fun p => pm_rows (snd p)) inp ->
  exists ijs,
    foldM (fun acc '(_, rows) =>
             match frags_of rows with
             | [] => Ok acc
             | f :: _ =>
                 let k := asm_prefix_of (f_name f) in
                 do js <- junction_set repaired rows;
                 let old := match aget (opt_eqb str_eqb) acc k with Some l => l | None => [] end in
                 Ok (aset (opt_eqb str_eqb) acc k (union_j old js))
             end) inp acc = Ok ijs
    /\ forall x, mem_any x ijs <-> mem_any x acc \/ exists p, In p inp /\ In x (jset (snd p)).
Proof.
  induction inp as [|[name rows] inp IH]; intros acc F; cbn [foldM].
  - exists acc. split; [reflexivity|]. intro x. split; [auto|]. intros [H|(p & [] & _)]. exact H.
  - inversion F as [|? ? F1 F2]; subst. cbn [snd] in F1.
    destruct (frags_of rows) as [|f fs] eqn:FR.
    + cbn [bind]. destruct (IH acc F2) as (ijs & E & M). exists ijs. split; [exact E|].
      intro x. rewrite M. split; intros [H|(p & I & H)]; auto.
      * right. exists p. split; [right; exact I | exact H].
      * destruct I as [<-|I]; [cbn [snd] in H; rewrite (jset_nofrags rows FR) in H; destruct H|].
        right. eauto.
    + rewrite (jset_ok rows F1). cbn [bind]. cbv zeta.
      match goal with |- context [foldM _ inp ?a] => destruct (IH a F2) as (ijs & E & M) end.
      exists ijs. split; [exact E|].
      intro x. rewrite M, mem_any_aset. split.
      * intros [[H|H]|(p & I & H)]; auto.
        -- right. exists (name, rows). split; [left; reflexivity | exact H].
        -- right. exists p. split; [right; exact I | exact H].
      * intros [H|(p & [<-|I] & H)]; auto. right. eauto.
Qed.

Lemma asm_junctions_null : forall scs acc,
  Forall (fun sc => pm_rows (sc_rows sc)) scs ->
  exists js,
    foldM (fun acc sc => do js <- junction_set repaired (sc_rows sc); Ok (union_j acc js)) scs acc = Ok js
    /\ forall x, In x js <-> In x acc \/ exists sc, In sc scs /\ In x (jset (sc_rows sc)).
Proof.
  induction scs as [|sc scs IH]; intros acc F; cbn [foldM].
  - exists acc. split; [reflexivity|]. intro x. split; [auto|]. intros [H|(p & [] & _)]. exact H.
  - inversion F as [|? ? F1 F2]; subst. rewrite (jset_ok _ F1). cbn [bind].
    destruct (IH (union_j acc (jset (sc_rows sc))) F2) as (js & E & M). exists js. split; [exact E|].
    intro x. rewrite M, union_j_in. split.
    + intros [[H|H]|(p & I & H)]; auto.
      * right. exists sc. split; [left; reflexivity | exact H].
      * right. exists p. split; [right; exact I | exact H].
    + intros [H|(p & [<-|I] & H)]; auto. right. eauto.
Qed.

Lemma diff_j_nil a b : (forall x, In x a -> In x b) -> diff_j a b = [].
Proof.
  intro H. destruct (diff_j a b) as [|j l] eqn:E; [reflexivity|].
  assert (G : In j (diff_j a b)) by (rewrite E; left; reflexivity).
  apply diff_j_in in G as (G1 & G2). exfalso. apply G2, H, G1.
Qed.

Lemma inter_j_nil_r a : inter_j a [] = [].
Proof.
  destruct (inter_j a []) as [|j l] eqn:E; [reflexivity|].
  assert (G : In j (inter_j a [])) by (rewrite E; left; reflexivity).
  apply inter_j_in in G as (_ & []).
Qed.

Lemma make_stats_null (inp : list (str * list row)) scs :
  Forall (fun p => pm_rows (snd p)) inp ->
  (forall rows, In rows (map sc_rows scs) <-> In rows (map snd inp)) ->
  exists per, make_stats repaired inp [mkOutAsm None true scs] = Ok (0, 0, per)
    /\ Forall (fun p => snd p = (0, 0)) per.
Proof.
  intros F Same.
  assert (F' : Forall (fun sc => pm_rows (sc_rows sc)) scs).
  { rewrite Forall_forall in *. intros sc I.
    assert (G : In (sc_rows sc) (map snd inp)) by (apply Same, in_map, I).
    apply in_map_iff in G as (p & <- & Ip). apply F, Ip. }
  destruct (input_junctions_null inp [] F) as (ijs & E1 & M1).
  destruct (asm_junctions_null scs [] F') as (js & E2 & M2).
  assert (E1' : input_junctions_by_prefix repaired inp = Ok ijs) by exact E1.
  assert (E2' : asm_junctions repaired scs = Ok js) by exact E2.
  unfold make_stats. rewrite E1'. cbn [bind mapM oa_scaffolds oa_key].
  rewrite E2'. cbn [bind fold_left snd].
  set (iset := fold_left _ ijs []). set (oset := union_j [] js).
  assert (EQ : forall x, In x iset <-> In x oset).
  { intro x. unfold iset, oset. rewrite fold_union_in, union_j_in, M1, M2.
    pose proof (@mem_any_nil (option str) x). cbn [In]. split.
    - intros [[]|[H1|(p & I & H1)]]; [contradiction|]. right. right.
      assert (G : In (snd p) (map sc_rows scs)) by (apply Same, in_map, I).
      apply in_map_iff in G as (sc & G & Is). exists sc. rewrite G. auto.
    - intros [[]|[[]|(sc & I & H1)]]. right. right.
      assert (G : In (sc_rows sc) (map snd inp)) by (apply Same, in_map, I).
      apply in_map_iff in G as (p & G & Ip). exists p. rewrite G. auto. }
  rewrite (diff_j_nil iset oset) by (intro x; apply EQ).
  rewrite (diff_j_nil oset iset) by (intro x; apply EQ).
  eexists. split; [reflexivity|].
  destruct (aget (opt_eqb str_eqb) ijs None) as [[|j0 l0]|]; try constructor.
  - rewrite !inter_j_nil_r. reflexivity.
  - constructor.
Qed.

Lemma assemblies_null g prefix input0 rs fused :
  fuse_all repaired g rs = Ok fused -> Forall plain fused -> fused <> [] ->
  Forall (fun p => pm_rows (snd p)) (number_input input0 0) ->
  (forall rows, In rows (map sc_rows fused) <-> In rows (map snd (number_input input0 0))) ->
  exists sorted per, Permutation sorted fused
    /\ assemblies_with_scaffolds_fused repaired g prefix input0 rs
       = Ok (mkOut [mkOutAsm None true sorted] (b_cuts (rs_b rs)) 0 0 per)
    /\ Forall (fun p => snd p = (0, 0)) per.
Proof.
  intros HF P NE PM Same.
  destruct (smart_sort_total sc_rank sc_name fused) as (sorted & ES & PS).
  destruct (make_stats_null (number_input input0 0) sorted PM) as (per & EM & FP).
  { intro rows. rewrite <- Same.
    split; intro H; apply in_map_iff in H as (sc & <- & I); apply in_map;
      [apply (Permutation_in _ PS) | apply (Permutation_in _ (Permutation_sym PS))]; exact I. }
  exists sorted, per. split; [exact PS|]. split; [|exact FP].
  unfold assemblies_with_scaffolds_fused. rewrite HF. cbn [bind]. cbv zeta.
  rewrite Forall_forall in P.
  match goal with |- context [map ?f fused] => replace (map f fused) with fused end.
  2:{ symmetry. apply map_id_in. intros sc I. destruct (P sc I) as (_ & _ & R). rewrite R. reflexivity. }
  match goal with |- context [flat_map ?f (combine ?a fused)] =>
    replace (flat_map f (combine a fused)) with (@nil (str * nat)) end.
  2:{ symmetry. apply flat_map_nil_in. intros [i sc] I. apply in_combine_r in I.
      destruct (P sc I) as (_ & _ & R). rewrite R. reflexivity. }
  change (name_chromosomes prefix fused []) with (Ok fused). cbn [bind].
  rewrite <- Forall_forall in P.
  rewrite (group_plain fused P NE). cbn [mapM]. rewrite ES. cbn [bind]. rewrite EM. reflexivity.
Qed.

(* =============================================== found or not found *)
Definition sc_of (q : pres) : str * list row := (p_name q, p_rows q).
Definition keys_of_sc (p : str * list row) : list fkey := map key_of (frags_of (snd p)).

Lemma map_flat_map' {A B C} (f : B -> C) (g : A -> list B) l :
  map f (flat_map g l) = flat_map (fun x => map f (g x)) l.
Proof. induction l as [|x l IH]; [reflexivity|]. cbn [flat_map]. rewrite map_app, IH. reflexivity. Qed.

Lemma flat_nodup_disj {A B} (F : A -> list B) : forall l x x' y,
  NoDup (flat_map F l) -> In x l -> In x' l -> In y (F x) -> In y (F x') -> x = x'.
Proof.
  induction l as [|a l IH]; intros x x' y N I I' Hy Hy'; [destruct I|].
  cbn [flat_map] in N. destruct (NoDup_app_inv _ _ N) as (N1 & N2 & D).
  destruct I as [<-|I], I' as [<-|I'].
  - reflexivity.
  - exfalso. apply (D y Hy). apply in_flat_map. eauto.
  - exfalso. apply (D y Hy'). apply in_flat_map. eauto.
  - eapply IH; eassumption.
Qed.

Lemma flat_nodup_in {A B} (F : A -> list B) : forall l x, NoDup (flat_map F l) -> In x l -> NoDup (F x).
Proof.
  induction l as [|a l IH]; intros x N I; [destruct I|].
  cbn [flat_map] in N. destruct (NoDup_app_inv _ _ N) as (N1 & N2 & D).
  destruct I as [<-|I]; [exact N1 | apply IH; assumption].
Qed.

Lemma flat_nodup_sub {A B} (F : A -> list B) inp : NoDup (flat_map F inp) ->
  forall l, NoDup l -> incl l inp -> NoDup (flat_map F l).
Proof.
  intros N. induction l as [|x l IH]; intros ND INC; [constructor|].
  inversion ND as [|? ? ND1 ND2]; subst. cbn [flat_map].
  apply NoDup_app'.
  - apply (flat_nodup_in F inp x N). apply INC. left. reflexivity.
  - apply IH; [exact ND2|]. intros y Hy. apply INC. right. exact Hy.
  - intros y Hy G. apply in_flat_map in G as (x' & Ix' & Hy').
    assert (x = x').
    { apply (flat_nodup_disj F inp x x' y N); auto.
      - apply INC. left. reflexivity.
      - apply INC. right. exact Ix'. }
    subst x'. contradiction.
Qed.

Lemma nodup_names_inj {V} (inp : list (str * V)) n r1 r2 :
  NoDup (map fst inp) -> In (n, r1) inp -> In (n, r2) inp -> r1 = r2.
Proof.
  intros N I1 I2. pose proof (aget_nodup_in inp n r1 N I1) as E1.
  pose proof (aget_nodup_in inp n r2 N I2) as E2. congruence.
Qed.

Lemma NoDup_map_fst_inv {A B} (l : list (A * B)) : NoDup (map fst l) -> NoDup l.
Proof. apply NoDup_map_inv. Qed.

Lemma NoDup_map_filter' {A B} (g : A -> B) p l : NoDup (map g l) -> NoDup (map g (filter p l)).
Proof.
  induction l as [|x l IH]; cbn [map filter]; intros H; [constructor|].
  inversion H as [|? ? Hn Hnd]; subst. destruct (p x); [|auto].
  cbn [map]. constructor; [|auto].
  intro G. apply Hn. apply in_map_iff in G as (y & E & Iy). apply filter_In in Iy as (Iy & _).
  rewrite <- E. apply in_map, Iy.
Qed.

Section Classify.
  Variables (n d : Z) (inp : list (str * list row)) (ps : list pres)
            (found : list (fkey * (frag * list rid))).
  Hypothesis Nn : NoDup (map fst inp).
  Hypothesis OK : Forall sc_ok inp.
  Hypothesis NK : NoDup (map key_of (flat_map (fun p => frags_of (snd p)) inp)).
  Hypothesis PO : Forall (pres_ok n d inp) ps.
  Hypothesis NP : NoDup (map p_name ps).
  Hypothesis FD : map fst found = map key_of (pres_frags ps).

  Lemma NK' : NoDup (flat_map keys_of_sc inp).
  Proof. unfold keys_of_sc. rewrite <- map_flat_map'. exact NK. Qed.

  Lemma sc_of_in q : In q ps -> In (sc_of q) inp.
  Proof. intro I. rewrite Forall_forall in PO. apply (PO q I). Qed.

  Lemma pres_keys_eq : map key_of (pres_frags ps) = flat_map keys_of_sc (map sc_of ps).
  Proof.
    unfold pres_frags. rewrite map_flat_map'.
    clear. induction ps as [|q l IH]; [reflexivity|]. cbn [map flat_map]. rewrite IH. reflexivity.
  Qed.

  Lemma found_keys : map fst found = flat_map keys_of_sc (map sc_of ps).
  Proof. rewrite FD. apply pres_keys_eq. Qed.

  Lemma nodup_sc_of : NoDup (map sc_of ps).
  Proof.
    apply (NoDup_map_inv fst). rewrite map_map. exact NP.
  Qed.

  Lemma pres_keys_nodup : NoDup (map key_of (pres_frags ps)).
  Proof.
    rewrite pres_keys_eq. apply (flat_nodup_sub keys_of_sc inp NK' _ nodup_sc_of).
    intros p I. apply in_map_iff in I as (q & <- & Iq). apply sc_of_in, Iq.
  Qed.

  Lemma classify p : In p inp ->
    (exists q, In q ps /\ p = sc_of q /\ all_found found (snd p) /\ leftb found p = false)
    \/ (~ In (fst p) (map p_name ps) /\ none_found found (snd p) /\ leftb found p = true).
  Proof.
    intro I.
    assert (SP : sc_ok p) by (rewrite Forall_forall in OK; apply OK, I).
    destruct SP as (_ & _ & (f0 & t0 & S3) & _).
    destruct (mem_str (fst p) (map p_name ps)) eqn:M.
    - left. apply mem_str_in in M. apply in_map_iff in M as (q & E & Iq).
      exists q. split; [exact Iq|].
      assert (P : p = sc_of q).
      { destruct p as [nm rows]. cbn [fst] in E. subst nm. unfold sc_of. f_equal.
        eapply nodup_names_inj; [exact Nn | exact I | apply sc_of_in, Iq]. }
      split; [exact P|].
      assert (A : all_found found (snd p)).
      { unfold all_found. rewrite Forall_forall. intros f If.
        destruct (aget_in key_eqb key_eqb_rfl found (key_of f)) as (v & ->); [|discriminate].
        rewrite found_keys. apply in_flat_map. exists p. split.
        - rewrite P. apply in_map, Iq.
        - unfold keys_of_sc. apply in_map, If. }
      split; [exact A|]. unfold leftb. rewrite S3, frags_of_cons_RF.
      unfold all_found in A. rewrite S3, frags_of_cons_RF in A. inversion A as [|? ? A1 _]; subst.
      destruct (aget key_eqb found (key_of f0)); [reflexivity | congruence].
    - right.
      assert (NI : ~ In (fst p) (map p_name ps)).
      { intro G. apply mem_str_in in G. congruence. }
      split; [exact NI|].
      assert (NF : none_found found (snd p)).
      { unfold none_found. rewrite Forall_forall. intros f If.
        apply (aget_notin key_eqb key_eqb_true). rewrite found_keys. intro G.
        apply in_flat_map in G as (p' & Ip' & Hk).
        apply in_map_iff in Ip' as (q & <- & Iq).
        assert (p = sc_of q).
        { apply (flat_nodup_disj keys_of_sc inp p (sc_of q) (key_of f) NK' I (sc_of_in q Iq)); [|exact Hk].
          unfold keys_of_sc. apply in_map, If. }
        subst p. apply NI. cbn [sc_of fst]. apply in_map, Iq. }
      split; [exact NF|].
      unfold leftb. rewrite S3, frags_of_cons_RF.
      unfold none_found in NF. rewrite S3, frags_of_cons_RF in NF. inversion NF as [|? ? N1 _]; subst.
      rewrite N1. reflexivity.
  Qed.

  Definition lefts : list (str * list row) := filter (leftb found) inp.

  Lemma nodup_all_names : NoDup (map p_name ps ++ map fst lefts).
  Proof.
    apply NoDup_app'; [exact NP | apply NoDup_map_filter', Nn |].
    intros nm I G. apply in_map_iff in G as (p & <- & Ip). apply filter_In in Ip as (Ip & L).
    destruct (classify p Ip) as [(q & _ & _ & _ & L')|(NI & _)]; [congruence | contradiction].
  Qed.

  Lemma all_perm : Permutation (map sc_of ps ++ lefts) inp.
  Proof.
    apply NoDup_Permutation.
    - apply NoDup_map_fst_inv. rewrite map_app, map_map. exact nodup_all_names.
    - apply NoDup_map_fst_inv, Nn.
    - intro p. rewrite in_app_iff. split.
      + intros [G|G].
        * apply in_map_iff in G as (q & <- & Iq). apply sc_of_in, Iq.
        * apply filter_In in G. tauto.
      + intro I. destruct (classify p I) as [(q & Iq & -> & _)|(_ & _ & L)].
        * left. apply in_map, Iq.
        * right. apply filter_In. auto.
  Qed.

  Lemma add_missing_ready :
    Forall (fun p => sc_ok p /\ (all_found found (snd p) \/ none_found found (snd p))) inp.
  Proof.
    rewrite Forall_forall. intros p I. split; [rewrite Forall_forall in OK; apply OK, I|].
    destruct (classify p I) as [(q & _ & _ & A & _)|(_ & NF & _)]; auto.
  Qed.
End Classify.

(* ===================================================== the whole run *)
Definition fused_of (ps : list pres) (ls : list (str * list row)) : list scaffold :=
  map (fun q => fst (piece_of q)) ps ++ map mk_left ls.

Lemma fused_of_names_rows ps ls :
  map (fun sc => (sc_name sc, sc_rows sc)) (fused_of ps ls) = map sc_of ps ++ ls.
Proof.
  unfold fused_of. rewrite map_app, !map_map. f_equal.
  rewrite <- (map_id ls) at 2. apply map_ext. intros [a b]. reflexivity.
Qed.

Lemma fused_of_plain ps ls : Forall plain (fused_of ps ls).
Proof.
  unfold fused_of. apply Forall_app. split; rewrite Forall_map, Forall_forall; intros x _;
    unfold plain; cbn; auto.
Qed.

Lemma remap_null_numbered g prefix n d input0 ps :
  0 <= n -> 0 < d ->
  NoDup (map fst input0) -> Forall sc_ok (number_input input0 0) ->
  NoDup (map key_of (flat_map (fun p => frags_of (snd p)) (number_input input0 0))) ->
  Forall (pres_ok n d (number_input input0 0)) ps -> NoDup (map p_name ps) ->
  number_input input0 0 <> [] ->
  exists scs per,
    remap repaired g prefix (n, d) input0 (map ptx_of ps)
      = Ok (mkOut [mkOutAsm None true scs] 0 0 0 per)
    /\ Forall (fun p => snd p = (0, 0)) per
    /\ Permutation (map (fun sc => (sc_name sc, sc_rows sc)) scs) (number_input input0 0)
    /\ Forall plain scs.
Proof.
  intros Hn Hd N0 OK NK PO NP NE.
  set (inp := number_input input0 0) in *.
  assert (Nn : NoDup (map fst inp)) by (unfold inp; rewrite number_input_names; exact N0).
  (* A *)
  destruct (pretext_null n d inp Hn Hd Nn OK ps (mkB [] [] [] [] (new_namer prefix) 0) PO eq_refl)
    as (b1 & E1 & P1 & Fd1 & M1 & I1 & A1 & C1).
  { unfold nm_inv. cbn. auto. }
  { reflexivity. }
  { cbn [b_found map app]. exact (pres_keys_nodup n d inp ps NK PO NP). }
  destruct b1 as [st1 ad1 fd1 mu1 nm1 cu1].
  cbn [b_store b_added b_found b_multi b_namer b_cuts map app] in *. subst mu1 cu1.
  destruct I1 as (J1 & J2 & J3 & J4). unfold added_ok in A1. cbn [b_store b_added] in A1.
  (* C *)
  pose proof (add_missing_ready n d inp ps fd1 Nn OK NK PO Fd1) as RD.
  destruct (add_missing_null repaired g fd1 eq_refl inp nm1 [] J1 J2 RD) as (nm' & E3). cbn [app] in E3.
  fold (lefts inp fd1) in E3.
  (* D *)
  set (rs := mkRun (mkB st1 ad1 fd1 [] nm' 0) (map mk_left (lefts inp fd1))).
  assert (ER : remap_to_input repaired g prefix (n, d) input0 (map ptx_of ps) = Ok rs).
  { unfold remap_to_input. rewrite (has_dup_names_nodup _ N0). fold inp. rewrite E1. cbn [bind].
    rewrite discard_loop_nomulti by reflexivity. cbn [bind].
    rewrite cut_remaining_nomulti by reflexivity. cbn [bind b_store b_namer].
    rewrite J3, rename_results_nil. cbn [bind]. unfold with_store. cbn [b_store b_added b_found b_multi b_namer b_cuts].
    rewrite E3. cbn [bind fst snd]. reflexivity. }
  set (fused := fused_of ps (lefts inp fd1)).
  pose proof (all_perm n d inp ps fd1 Nn OK NK PO NP Fd1) as PERM.
  assert (HF : fuse_all repaired g rs = Ok fused).
  { unfold fuse_all, rs. cbn [rs_b rs_left b_store b_added]. rewrite A1.
    pose proof (mapM_get_all st1 []) as G. cbn [app length] in G. rewrite G. cbn [bind].
    rewrite P1. rewrite fuse_fold_distinct.
    - cbn [app]. rewrite map_map. cbn [snd]. unfold fused, fused_of.
      rewrite map_app, !map_map. reflexivity.
    - apply Forall_app. split; rewrite Forall_map, Forall_forall.
      + intros q Iq. cbn [piece_of fst sc_rows].
        assert (S : sc_ok (sc_of q)).
        { rewrite Forall_forall in OK. apply OK. apply (sc_of_in n d inp ps PO q Iq). }
        apply S.
      + intros sc Isc. apply in_map_iff in Isc as (p & <- & Ip). cbn [fst mk_left sc_rows].
        apply filter_In in Ip as (Ip & _). rewrite Forall_forall in OK. apply (OK p Ip).
    - cbn [map app]. rewrite map_app, !map_map. cbn [piece_of fst mk_left key_of_piece sc_tag sc_hap sc_name].
      pose proof (nodup_all_names n d inp ps fd1 Nn OK NK PO NP Fd1) as ND.
      apply (NoDup_map_inv (fun k : fuse_key => snd k)).
      rewrite map_app, !map_map. cbn [snd]. exact ND. }
  assert (NR : map (fun sc => (sc_name sc, sc_rows sc)) fused = map sc_of ps ++ lefts inp fd1)
    by apply fused_of_names_rows.
  destruct (assemblies_null g prefix input0 rs fused HF (fused_of_plain _ _)) as (sorted & per & PS & EA & FP).
  - intros Z. rewrite Z in NR. cbn [map] in NR. rewrite <- NR in PERM.
    apply Permutation_nil in PERM. contradiction.
  - fold inp. rewrite Forall_forall in *. intros p Ip. destruct (OK p Ip) as (_ & _ & _ & _ & S5 & _).
    unfold pm_rows, pm. rewrite Forall_forall in *. intros f If. apply (S5 f If).
  - fold inp. intro rows.
    replace (map sc_rows fused) with (map snd (map (fun sc => (sc_name sc, sc_rows sc)) fused))
      by (rewrite map_map; reflexivity).
    rewrite NR. split; intro H; apply in_map_iff in H as (p & <- & Ip); apply in_map;
      [apply (Permutation_in _ PERM) | apply (Permutation_in _ (Permutation_sym PERM))]; exact Ip.
  - exists sorted, per. split; [|split; [exact FP|split]].
    + unfold remap. rewrite ER. cbn [bind]. rewrite EA. reflexivity.
    + eapply perm_trans; [apply Permutation_map, PS|]. rewrite NR. exact PERM.
    + pose proof (fused_of_plain ps (lefts inp fd1)) as FPL. rewrite Forall_forall in *.
      intros sc I. apply FPL. apply (Permutation_in _ PS I).
Qed.

(* ============================================================ theorem *)
Theorem null_map_identity : forall g prefix n d input ptx,
  0 <= n -> 0 < d -> input <> [] ->
  NoDup (map fst input) -> Forall sc_ok input ->
  NoDup (map key_of (flat_map (fun p => frags_of (snd p)) input)) ->     (* distinct contigs *)
  null_map n d input ptx ->
  exists scs per,
    remap repaired g prefix (n, d) input ptx = Ok (mkOut [mkOutAsm None true scs] 0 0 0 per)
    /\ Forall (fun p => snd p = (0, 0)) per
    /\ Permutation (map (fun sc => (sc_name sc, map erase_id (sc_rows sc))) scs)
                   (map (fun p => (fst p, map erase_id (snd p))) input)
    /\ Forall (fun sc => sc_tag sc = None /\ sc_hap sc = None /\ sc_rank sc = 3) scs.
Proof.
  intros g prefix n d input ptx Hn Hd NE N0 OK NK NM.
  pose proof (null_map_number n d input ptx NM 0) as NM'.
  assert (Nn : NoDup (map fst (number_input input 0))) by (rewrite number_input_names; exact N0).
  destruct (null_map_pres n d _ _ NM' Nn) as (ps & -> & PO & NP).
  destruct (remap_null_numbered g prefix n d input ps Hn Hd N0 (sc_ok_number input 0 OK))
    as (scs & per & E & FP & PERM & PL); try assumption.
  - pose proof (RemapTail.number_input_keys input 0) as K. unfold RemapSpec.in_frags in K.
    rewrite K. exact NK.
  - intro Z. apply NE. apply (f_equal (map fst)) in Z. rewrite number_input_names in Z.
    destruct input; [reflexivity | discriminate].
  - exists scs, per. split; [exact E|]. split; [exact FP|]. split; [|exact PL].
    rewrite <- (number_input_erase input 0).
    apply (Permutation_map (fun p : str * list row => (fst p, map erase_id (snd p)))) in PERM.
    rewrite map_map in PERM. exact PERM.
Qed.

(* ----- the pinned commit ([fix_gap_run] off) is refuted by a scaffold that no
   bait names and that has two consecutive gaps: every hypothesis of
   [null_map_identity] holds, and it comes back with only the second gap *)
Definition cex_F (nm : string) (a b st : Z) : row := RF (mkFrag (-1) (list_ascii_of_string nm) a b st []).
Arguments cex_F nm%string_scope a b st.
Definition cex_input : list (str * list row) :=
  [ (s "scaffold_1", [cex_F "ctg1" 1 100 1; RG (mkGap 50 (s "scaffold")); cex_F "ctg2" 1 200 (-1)]);
    (s "scaffold_2", [cex_F "ctg3" 1 5 1; RG (mkGap 2 (s "x")); RG (mkGap 3 (s "y")); cex_F "ctg4" 1 3 1]) ].
Definition cex_ptx : list (str * list row) :=
  [ (s "Scaffold_1", [RF (mkFrag (-1) (s "scaffold_1") 1 345 1 [])]) ].

Lemma cex_sc_ok : Forall sc_ok cex_input.
Proof.
  unfold cex_input. constructor; [|constructor; [|constructor]]; unfold sc_ok; cbn [fst snd].
  - split; [discriminate|]. split; [repeat constructor; cbn; lia|].
    split; [eexists _, _; reflexivity|].
    split; [exists (mkFrag (-1) (s "ctg2") 1 200 (-1) []), [cex_F "ctg1" 1 100 1; RG (mkGap 50 (s "scaffold"))]; reflexivity|].
    split; [repeat constructor; cbn; lia|].
    split; [reflexivity|]. intros f t E. injection E as <- _. reflexivity.
  - split; [discriminate|]. split; [repeat constructor; cbn; lia|].
    split; [eexists _, _; reflexivity|].
    split; [exists (mkFrag (-1) (s "ctg4") 1 3 1 []), [cex_F "ctg3" 1 5 1; RG (mkGap 2 (s "x")); RG (mkGap 3 (s "y"))]; reflexivity|].
    split; [repeat constructor; cbn; lia|].
    split; [reflexivity|]. intros f t E. injection E as <- _. reflexivity.
Qed.

Theorem null_map_legacy_refuted :
  0 <= 10 /\ 0 < 1 /\ cex_input <> []
  /\ NoDup (map fst cex_input) /\ Forall sc_ok cex_input
  /\ NoDup (map key_of (flat_map (fun p => frags_of (snd p)) cex_input))
  /\ null_map 10 1 cex_input cex_ptx
  /\ exists o, remap (mkCfg true true true true false) (mkGap 200 (s "scaffold")) (s "SUPER_") (10, 1)
                     cex_input cex_ptx = Ok o
     /\ map (fun sc => (sc_name sc, map erase_id (sc_rows sc))) (flat_map oa_scaffolds (out_asms o))
        = [ (s "scaffold_1", [cex_F "ctg1" 1 100 1; RG (mkGap 50 (s "scaffold")); cex_F "ctg2" 1 200 (-1)]);
            (s "scaffold_2", [cex_F "ctg3" 1 5 1; RG (mkGap 3 (s "y")); cex_F "ctg4" 1 3 1]) ].
Proof.
  split; [lia|]. split; [lia|]. split; [discriminate|].
  split; [|split; [exact cex_sc_ok|split; [|split]]].
  - cbn. repeat constructor; cbn; intuition discriminate.
  - cbn. repeat constructor; cbn; intuition discriminate.
  - unfold cex_input, cex_ptx. apply nm_present; [apply nm_absent; constructor | | | |]; cbn; try lia; discriminate.
  - eexists. split; vm_compute; reflexivity.
Qed.

(* the same run under the repaired code: scaffold_2 keeps both gaps *)
Example null_map_repaired_keeps_gap_run :
  exists o, remap repaired (mkGap 200 (s "scaffold")) (s "SUPER_") (10, 1) cex_input cex_ptx = Ok o
     /\ map (fun sc => (sc_name sc, map erase_id (sc_rows sc))) (flat_map oa_scaffolds (out_asms o))
        = cex_input.
Proof. eexists. split; vm_compute; reflexivity. Qed.

(* ----- the hypotheses are satisfiable: three scaffolds, the middle one absent
   (shorter than a texel) with a run of two gaps, a reverse-strand contig *)
Definition ok_input : list (str * list row) :=
  [ (s "scaffold_1", [cex_F "ctg1" 1 100 1; RG (mkGap 50 (s "scaffold")); cex_F "ctg2" 1 200 (-1)]);
    (s "scaffold_2", [cex_F "ctg3" 1 5 1; RG (mkGap 2 (s "x")); RG (mkGap 3 (s "y")); cex_F "ctg4" 1 3 1]);
    (s "scaffold_3", [cex_F "ctg5" 1 300 1]) ].
Definition ok_ptx : list (str * list row) :=
  [ (s "Scaffold_1", [RF (mkFrag (-1) (s "scaffold_1") 1 345 1 [])]);
    (s "Scaffold_2", [RF (mkFrag (-1) (s "scaffold_3") 1 300 1 [])]) ].

Example null_map_hypotheses_satisfiable :
  ok_input <> [] /\ NoDup (map fst ok_input) /\ Forall sc_ok ok_input
  /\ NoDup (map key_of (flat_map (fun p => frags_of (snd p)) ok_input))
  /\ null_map 10 1 ok_input ok_ptx
  /\ ~ no_gap_pair (snd (nth 1 ok_input ([], []))).     (* the absent scaffold has a run of two gaps *)
Proof.
  split; [discriminate|]. split; [|split; [|split; [|split]]].
  - cbn. repeat constructor; cbn; intuition discriminate.
  - unfold ok_input. constructor; [|constructor; [|constructor; [|constructor]]]; unfold sc_ok; cbn [fst snd].
    + split; [discriminate|]. split; [repeat constructor; cbn; lia|].
      split; [eexists _, _; reflexivity|].
      split; [exists (mkFrag (-1) (s "ctg2") 1 200 (-1) []), [cex_F "ctg1" 1 100 1; RG (mkGap 50 (s "scaffold"))]; reflexivity|].
      split; [repeat constructor; cbn; lia|].
      split; [reflexivity|]. intros f t E. injection E as <- _. reflexivity.
    + split; [discriminate|]. split; [repeat constructor; cbn; lia|].
      split; [eexists _, _; reflexivity|].
      split; [exists (mkFrag (-1) (s "ctg4") 1 3 1 []), [cex_F "ctg3" 1 5 1; RG (mkGap 2 (s "x")); RG (mkGap 3 (s "y"))]; reflexivity|].
      split; [repeat constructor; cbn; lia|].
      split; [reflexivity|]. intros f t E. injection E as <- _. reflexivity.
    + split; [discriminate|]. split; [repeat constructor; cbn; lia|].
      split; [eexists _, _; reflexivity|].
      split; [exists (mkFrag (-1) (s "ctg5") 1 300 1 []), []; reflexivity|].
      split; [repeat constructor; cbn; lia|].
      split; [reflexivity|]. intros f t E. injection E as <- _. reflexivity.
  - cbn. repeat constructor; cbn; intuition discriminate.
  - unfold ok_input, ok_ptx.
    apply nm_present; [apply nm_absent; apply nm_present; [constructor| | | |]| | | |];
      cbn; try lia; try discriminate.
  - intro H. exact (H [cex_F "ctg3" 1 5 1] (mkGap 2 (s "x")) (mkGap 3 (s "y")) [cex_F "ctg4" 1 3 1] eq_refl).
Qed.

Print Assumptions null_map_identity.
Print Assumptions null_map_legacy_refuted.
Print Assumptions null_map_repaired_keeps_gap_run.
Print Assumptions null_map_hypotheses_satisfiable.
