(* C18 / C07 / C11 through the whole pipeline.

   1. [pipeline_Inv]: after ANY completed run of [remap_to_input] (every cfg,
      join gap, prefix, texel size, every Pretext map; input rows >= 1 bp)
      every stored overlap result satisfies the C18 invariant [OvrSpec.Inv]
      against the (numbered) input scaffold it was looked up in; hence
      [pipeline_consistent].
   2. [output_scaffolds_well_formed]: every output scaffold of every completed
      run of [remap] has rows, begins with a fragment and ends with a
      fragment.  NO hypothesis at all is needed for this one (not even
      positive row lengths): it is proved from a weaker invariant ("rows are
      empty, or begin and end with a fragment") carried through the same
      stages.
   3. [haplotig_count]: the haplotig-removal count is the number of scaffolds
      of the assembly keyed "Haplotig", each of which is written with rows.

   Both invariants go through ONE generic theorem, [store_invariant]: a
   predicate on results that survives the lookup, discard_start, discard_end,
   trim_fragment (with an input fragment as argument) and is blind to labels
   holds of every stored result after remap_to_input.  That theorem is the
   formal content of "every modification the pipeline makes to a stored result
   is one of the four C18 operations or a relabelling". *)
From Tola Require Import Py.Base Py.Sort Model.Fragment Model.Scaffold Model.Lookup
  Model.OverlapResult Model.OvrSpec Model.NaturalKey Model.Namer Model.Remap Model.RemapSpec
  Proofs.BaseLemmas Proofs.Lookup Proofs.OverlapResult Proofs.RemapHead Proofs.JoinGaps
  Proofs.GapProvenance.
From Tola Require Proofs.RemapTail.
From Coq Require Import Lia ZifyBool Permutation.

(* ================================================ the lookup, structurally *)
(* What find_overlaps returns when it returns something, for ANY bait
   coordinates (also start > end, also outside the scaffold) and ANY rows (also
   rows of length <= 0): a slice rows[i .. j] whose first and last rows are
   fragments, with the matching scaffold coordinates.  (Proofs.Lookup proves
   the full specification -- which rows meet the bait -- for valid queries.) *)
Definition lookup_shape (rows : list row) (fo : found) : Prop :=
  exists i j, (i <= j < length rows)%nat
    /\ fo_rows fo = firstn (S j - i) (skipn i rows)
    /\ fo_start fo = span_start rows i /\ fo_end fo = span_end rows j
    /\ frag_at rows i /\ frag_at rows j.

Lemma bsearch_range idx bs be : forall fuel a z m,
  bsearch idx bs be fuel a z = Ok (Some m) -> a <= m < z.
Proof.
  induction fuel as [|fuel IH]; intros a z m H; cbn [bsearch] in H; [discriminate|].
  cbv zeta in H. destruct (a <? z) eqn:Eaz; [|discriminate].
  assert (Hm : a <= a + (z - a) / 2 < z) by (Z.div_mod_to_equations; lia).
  destruct (idx_at idx (a + (z - a) / 2) <? bs).
  - apply IH in H. lia.
  - destruct (row_start idx (a + (z - a) / 2) >? be).
    + apply IH in H. lia.
    + injection H as <-. exact Hm.
Qed.

Lemma extend_left_range idx bs : forall n cur,
  extend_left idx bs n cur = cur
  \/ exists i, (i < n)%nat /\ extend_left idx bs n cur = Z.of_nat i.
Proof.
  induction n as [|n IH]; intros cur; cbn [extend_left]; [left; reflexivity|].
  destruct (idx_at idx (Z.of_nat n) <? bs); [left; reflexivity|].
  right. destruct (IH (Z.of_nat n)) as [E | (i & Hi & E)].
  - exists n. split; [lia | exact E].
  - exists i. split; [lia | exact E].
Qed.

Lemma extend_right_range idx be : forall n j cur,
  extend_right idx be n j cur = cur
  \/ exists k, j <= k < j + Z.of_nat n /\ extend_right idx be n j cur = k.
Proof.
  induction n as [|n IH]; intros j cur; cbn [extend_right]; [left; reflexivity|].
  destruct (row_start idx j >? be); [left; reflexivity|].
  right. destruct (IH (j + 1) j) as [E | (k & Hk & E)].
  - exists j. split; [lia | exact E].
  - exists k. split; [lia | exact E].
Qed.

Theorem find_overlaps_shape : forall rows bs be fo,
  find_overlaps rows bs be = Ok (Some fo) -> lookup_shape rows fo.
Proof.
  intros rows bs be fo H. unfold find_overlaps in H.
  assert (Hne : rows <> []) by (intros ->; discriminate).
  rewrite find_overlaps_unfold in H by exact Hne. cbv zeta in H.
  rewrite make_index_length in H. set (n := length rows) in *.
  bind_inv H ov Hov. destruct ov as [m|]; [|discriminate].
  apply bsearch_range in Hov.
  assert (Hi0 : exists i0, extend_left (make_index rows) bs (Z.to_nat m) m = Z.of_nat i0
                           /\ (i0 <= Z.to_nat m)%nat).
  { destruct (extend_left_range (make_index rows) bs (Z.to_nat m) m) as [E | (i & Hi & E)].
    - exists (Z.to_nat m). split; [rewrite E; lia | lia].
    - exists i. split; [exact E | lia]. }
  destruct Hi0 as (i0 & Ei0 & Li0). rewrite Ei0 in H.
  assert (Hj0 : exists j0, extend_right (make_index rows) be (n - S (Z.to_nat m)) (m + 1) m = Z.of_nat j0
                           /\ (Z.to_nat m <= j0 < n)%nat).
  { destruct (extend_right_range (make_index rows) be (n - S (Z.to_nat m)) (m + 1) m) as [E | (k & Hk & E)].
    - exists (Z.to_nat m). split; [rewrite E; lia | lia].
    - exists (Z.to_nat k). split; [rewrite E; lia | lia]. }
  destruct Hj0 as (j0 & Ej0 & Lj0). rewrite Ej0 in H.
  destruct (strip_left_spec rows (S (S n)) i0 j0 ltac:(lia) ltac:(lia) ltac:(lia))
    as (i1 & Ei1 & Li1 & G1 & F1).
  rewrite Ei1 in H. cbn [bind] in H.
  destruct (le_lt_dec i1 j0) as [Le|Gt].
  - destruct (strip_right_spec rows i1 (F1 Le) (S (S (n + n))) j0 ltac:(lia) ltac:(lia))
      as (j1 & Ej1 & Lj1 & F2 & G2).
    rewrite Ej1 in H. cbn [bind] in H.
    replace (Z.of_nat i1 <=? Z.of_nat j1) with true in H by lia. cbn [negb] in H.
    injection H as <-. exists i1, j1. cbn [fo_rows fo_start fo_end].
    split; [lia|]. split. { unfold py_slice. rewrite Nat2Z.id. f_equal. lia. }
    split. { rewrite row_start_pre by lia. rewrite Nat2Z.id. reflexivity. }
    split. { rewrite idx_at_pre by lia. rewrite Nat2Z.id. reflexivity. }
    split; [apply F1; exact Le | exact F2].
  - exfalso. assert (i1 = S j0) by lia. subst i1.
    cbn [strip_right] in H.
    replace (Z.of_nat (S j0) <=? Z.of_nat j0) with false in H by lia.
    cbn [andb negb bind] in H.
    replace (Z.of_nat (S j0) <=? Z.of_nat j0) with false in H by lia.
    cbn [negb] in H. discriminate.
Qed.

(* the slice between two fragment rows: one row, or first :: middle ++ [last] *)
Lemma slice_shape (rows : list row) i j o1 o2 :
  (i <= j)%nat -> nth_error rows i = Some (RF o1) -> nth_error rows j = Some (RF o2) ->
  firstn (S j - i) (skipn i rows) = [RF o1] /\ i = j
  \/ firstn (S j - i) (skipn i rows)
     = RF o1 :: firstn (j - i - 1) (skipn (S i) rows) ++ [RF o2].
Proof.
  intros Hij Ho1 Ho2. destruct (Nat.eq_dec i j) as [E|Hne].
  - subst j. left. replace (S i - i)%nat with 1%nat by lia.
    rewrite (skipn_nth_cons _ _ _ Ho1). cbn [firstn]. split; reflexivity.
  - right. replace (S j - i)%nat with (S (j - i)) by lia.
    rewrite (firstn_S_nth _ (j - i) (RF o2)).
    2:{ rewrite nth_error_skipn'. replace (i + (j - i))%nat with j by lia. exact Ho2. }
    rewrite (skipn_nth_cons _ _ _ Ho1).
    remember (j - i - 1)%nat as k eqn:Ek.
    replace (j - i)%nat with (S k) by lia. cbn [firstn app]. reflexivity.
Qed.

(* Inv'_init of Proofs.OverlapResult, from the structural facts alone *)
Lemma Inv'_init_shape src bait fo :
  pos_rows src -> lookup_shape src fo -> Inv' src (ovr_of_found bait fo).
Proof.
  intros Hpos (i & j & Hij & Hrows & Hst & Hen & (o1 & Ho1) & (o2 & Ho2)).
  assert (P1 : 1 <= f_len o1).
  { apply (pos_rows_In src (RF o1) Hpos). eapply nth_error_In; exact Ho1. }
  assert (P2 : 1 <= f_len o2).
  { apply (pos_rows_In src (RF o2) Hpos). eapply nth_error_In; exact Ho2. }
  right.
  exists (firstn i src), (firstn (S j - i) (skipn i src)),
         (skipn (S j - i) (skipn i src)), 0, 0.
  cbn [ovr_of_found o_rows o_start o_end].
  spl.
  - rewrite firstn_skipn, firstn_skipn. reflexivity.
  - rewrite Hrows.
    destruct (slice_shape src i j o1 o2 ltac:(lia) Ho1 Ho2) as [[E Eij] | E]; rewrite E.
    + subst j. left. exists o1, o1. spl; try reflexivity. apply trimmed_refl; exact P1.
    + right. exists o1, o1, (firstn (j - i - 1) (skipn (S i) src)), o2, o2.
      spl; try reflexivity.
      * apply trimmed_refl; exact P1.
      * apply trimmed_refl; exact P2.
      * split; left; reflexivity.
  - rewrite Hst. unfold span_start. lia.
  - rewrite Hen. unfold span_end.
    assert (E : firstn (S j) src = firstn i src ++ firstn (S j - i) (skipn i src)).
    { rewrite <- firstn_add. f_equal. lia. }
    rewrite E, OverlapResult.rows_len_app. lia.
Qed.

(* ==================================================== trim_fragment, opened *)
Lemma trim_fragment_inv r t ks ke new r' :
  trim_fragment r t ks ke = Ok (new, r') ->
  exists r0 rl, first_row r = Ok r0 /\ last_row r = Ok rl
    /\ row_is r0 t || row_is rl t = true
    /\ f_id new < 0
    /\ o_rows r' = (if row_is rl t then set_last (o_rows r) (RF new)
                    else set_nth (o_rows r) 0 (RF new)).
Proof.
  intros H. unfold trim_fragment in H. bind_inv H r0 Hr0. cbv zeta in H. bind_inv H rl Hrl.
  destruct (row_is r0 t || row_is rl t) eqn:E; cbn [negb] in H; [|discriminate].
  bind_inv H nw Hnw. injection H as <- <-. apply new_frag_ok in Hnw. destruct Hnw as [-> _].
  exists r0, rl. split; [exact Hr0|]. split; [exact Hrl|]. split; [exact E|].
  cbn [f_id set_span_rows o_rows]. split; [destruct (row_is rl t); lia | reflexivity].
Qed.

(* ============================================================ the generic
   store invariant *)
Section StoreInv.
  Variable inp : list (str * list row).
  Variable P : ovr -> Prop.
  (* blind to labels *)
  Hypothesis P_ext : forall r r',
    o_rows r' = o_rows r -> o_start r' = o_start r -> o_end r' = o_end r -> P r -> P r'.
  (* holds of what the lookup builds *)
  Hypothesis P_init : forall name rows bait fo,
    In (name, rows) inp ->
    find_overlaps rows (f_start bait) (f_end bait) = Ok (Some fo) -> P (ovr_of_found bait fo).
  (* survives the operations *)
  Hypothesis P_ds : forall r r', P r -> discard_start r = Ok r' -> P r'.
  Hypothesis P_de : forall r r', P r -> discard_end r = Ok r' -> P r'.
  Hypothesis P_tf : forall r t ks ke new r',
    In t (in_frags inp) -> P r -> trim_fragment r t ks ke = Ok (new, r') -> P r'.

  Definition PS (st : list ovr) : Prop := forall r, In r st -> P r.

  Lemma P_trim_large r e r' : P r -> trim_large_overhangs r e = Ok r' -> P r'.
  Proof.
    intros Hp H. apply trim_large_cases in H as (r1 & [-> | H1] & [-> | H2]).
    - exact Hp.
    - eapply P_de; eassumption.
    - eapply P_ds; eassumption.
    - eapply P_de; [|exact H2]. eapply P_ds; eassumption.
  Qed.

  Lemma PS_nil : PS [].
  Proof. intros r []. Qed.

  Lemma PS_snoc st r : PS st -> P r -> PS (st ++ [r]).
  Proof.
    intros Hs Hr x Hx. apply in_app_or in Hx.
    destruct Hx as [Hx | [<- | []]]; [apply Hs; exact Hx | exact Hr].
  Qed.

  Lemma PS_put st id r : PS st -> P r -> PS (put_ovr st id r).
  Proof.
    intros Hs Hr x Hx. apply put_ovr_In in Hx.
    destruct Hx as [-> | Hx]; [exact Hr | apply Hs; exact Hx].
  Qed.

  Lemma PS_get st id r : PS st -> get_ovr st id = Ok r -> P r.
  Proof. intros Hs H. apply Hs. eapply get_ovr_In. exact H. Qed.

  (* renaming: every element of the new store is an old element, possibly
     with another name *)
  Lemma rename_results_In st ids st' : rename_results st ids = Ok st' ->
    forall x, In x st' -> exists r, In r st /\ (x = r \/ exists n, x = set_name r n).
  Proof.
    unfold rename_results. intros H. bind_inv H rs Hrs. injection H as <-.
    set (pairs := rename_by_size rs _ _).
    assert (Hp : forall id r n, In ((id, r), n) pairs -> In r st).
    { intros id r n Hin. unfold pairs, rename_by_size in Hin. apply in_combine_l in Hin.
      unfold sort_by_Z_desc in Hin. apply In_stable_sort in Hin.
      destruct (mapM_ok_In _ _ _ Hrs _ Hin) as (id0 & _ & Hf).
      bind_inv Hf r0 Hr0. injection Hf as <- <-. eapply get_ovr_In. exact Hr0. }
    clearbody pairs. clear Hrs.
    set (Q := fun x => exists r, In r st /\ (x = r \/ exists n, x = set_name r n)).
    assert (G : forall cur, (forall x, In x cur -> Q x) ->
      forall x, In x (fold_left (fun st0 '(id, r, n) => put_ovr st0 id (set_name r n)) pairs cur) -> Q x).
    { induction pairs as [|[[id r] n] pairs IH]; intros cur Hc; cbn [fold_left]; [exact Hc|].
      apply IH.
      - intros id' r' n' Hin. apply (Hp id' r' n'). right. exact Hin.
      - intros x Hx. apply put_ovr_In in Hx. destruct Hx as [-> | Hx]; [|apply Hc; exact Hx].
        exists r. split; [apply (Hp id r n); left; reflexivity|]. right. exists n. reflexivity. }
    apply G. intros x Hx. exists x. split; [exact Hx | left; reflexivity].
  Qed.

  Lemma PS_rename st ids st' : PS st -> rename_results st ids = Ok st' -> PS st'.
  Proof.
    intros Hs H x Hx. destruct (rename_results_In _ _ _ H x Hx) as (r & Hr & [-> | (n & ->)]).
    - apply Hs. exact Hr.
    - apply (P_ext r); try reflexivity. apply Hs. exact Hr.
  Qed.

  (* ----------------------------------------------------------- lookups *)
  Lemma one_bait_PS err sc_tags orig b bait b' :
    PS (b_store b) -> one_bait inp err sc_tags orig b bait = Ok b' -> PS (b_store b').
  Proof.
    intros Hs H. unfold one_bait in H.
    bind_inv H rows Hrows. bind_inv H fo Hfo. destruct fo as [fo|]; [|injection H as <-; exact Hs].
    bind_inv H nl Hnl. destruct nl as [nm lab]. bind_inv H r1 Hr1.
    assert (Hin : In (f_name bait, rows) inp).
    { unfold input_rows in Hrows. destruct (aget str_eqb inp (f_name bait)) as [rows0|] eqn:E; [|discriminate].
      injection Hrows as <-. apply (aget_In str_eqb str_eqb_eq) in E. exact E. }
    assert (Hr1p : P r1).
    { eapply P_trim_large; [|exact Hr1].
      apply (P_ext (ovr_of_found bait fo)); try reflexivity.
      eapply P_init; eassumption. }
    assert (Hst : PS (b_store b ++ [r1])) by (apply PS_snoc; assumption).
    destruct (o_rows r1) as [|x0 t0].
    - injection H as <-. exact Hst.
    - injection H as <-. unfold store_fragments_found.
      cbn [b_store b_added b_found b_multi b_namer b_cuts].
      destruct (fold_left _ _ _) as [found' multi']. exact Hst.
  Qed.

  Lemma one_pretext_scaffold_PS err b psc b' :
    PS (b_store b) -> one_pretext_scaffold inp err b psc = Ok b' -> PS (b_store b').
  Proof.
    intros Hs H. unfold one_pretext_scaffold in H. destruct psc as [pname prows].
    bind_inv H nm Hnm. bind_inv H b1 Hb1. bind_inv H st Hst. injection H as <-.
    cbn [with_store b_store]. eapply PS_rename; [|exact Hst].
    eapply (foldM_inv _ (fun b => PS (b_store b))); [| |exact Hb1]; [|exact Hs].
    intros s0 a s1 Hs0 Hf. eapply one_bait_PS; eassumption.
  Qed.

  Lemma pretext_PS err pretext b0 b1 :
    PS (b_store b0) -> foldM (one_pretext_scaffold inp err) pretext b0 = Ok b1 -> PS (b_store b1).
  Proof.
    intros Hs H. eapply (foldM_inv _ (fun b => PS (b_store b))); [|exact Hs | exact H].
    intros s0 a s1 Hs0 Hf. eapply one_pretext_scaffold_PS; eassumption.
  Qed.

  (* -------------------------------------------------- the overhang resolver *)
  Lemma p_apply_PS st p st' : PS st -> p_apply st p = Ok st' -> PS st'.
  Proof.
    intros Hs H. unfold p_apply in H. bind_inv H r Hr. bind_inv H r' Hr'. injection H as <-.
    apply PS_put; [exact Hs|]. pose proof (PS_get _ _ _ Hs Hr) as Hg.
    destruct (pr_kind p); [eapply P_ds | eapply P_de]; eassumption.
  Qed.

  Lemma fix_one_PS err st pl st' fx : PS st -> fix_one err st pl = Ok (st', fx) -> PS st'.
  Proof.
    intros Hs H. apply fix_one_cases in H. destruct H as [[_ ->] | (p & _ & _ & H)]; [exact Hs|].
    eapply p_apply_PS; eassumption.
  Qed.

  Lemma make_fixes_PS err : forall pls st st' fxs,
    PS st -> make_fixes err st pls = Ok (st', fxs) -> PS st'.
  Proof.
    induction pls as [|pl pls IH]; intros st st' fxs Hs H; cbn [make_fixes] in H.
    - injection H as <- _. exact Hs.
    - bind_inv H r Hr. destruct r as [st1 fx]. bind_inv H r2 Hr2. destruct r2 as [st2 fxs2].
      injection H as <- _. eapply IH; [|exact Hr2]. eapply fix_one_PS; eassumption.
  Qed.

  Lemma discard_loop_PS err : forall fuel b b',
    PS (b_store b) -> discard_loop fuel err b = Ok b' -> PS (b_store b').
  Proof.
    induction fuel as [|fuel IH]; intros b b' Hs H; cbn [discard_loop] in H; [discriminate|].
    destruct (b_multi b) as [|k0 ks] eqn:Em; [injection H as <-; exact Hs|].
    bind_inv H pls Hpls. bind_inv H r Hr. destruct r as [st fixes].
    pose proof (make_fixes_PS _ _ _ _ _ Hs Hr) as Hst.
    destruct fixes as [|fx0 fixes].
    - injection H as <-. exact Hst.
    - bind_inv H fm Hfm. destruct fm as [found multi']. eapply IH; [|exact H]. exact Hst.
  Qed.

  (* --------------------------------------------------------- the cut phase *)
  Definition found_in (found : list (fkey * (frag * list rid))) : Prop :=
    forall k f ids, aget key_eqb found k = Some (f, ids) -> In f (in_frags inp).

  Lemma trim_all_PS c f : In f (in_frags inp) -> forall ids st i last st' subs,
    PS st -> trim_all c st f ids i last = Ok (st', subs) -> PS st'.
  Proof.
    intros Hf. induction ids as [|id ids IH]; intros st i last st' subs Hs H; cbn [trim_all] in H.
    - injection H as <- _. exact Hs.
    - cbv zeta in H. bind_inv H r Hr. bind_inv H fr Hfr. destruct fr as [new r'].
      bind_inv H rest Hrest. destruct rest as [st2 subs2]. cbn [fst snd] in H. injection H as <- _.
      eapply IH; [|exact Hrest]. apply PS_put; [exact Hs|].
      eapply P_tf; [exact Hf | | exact Hfr]. eapply PS_get; eassumption.
  Qed.

  Lemma cut_fragments_PS c b k b' :
    found_in (b_found b) -> PS (b_store b) -> cut_fragments c b k = Ok b' ->
    PS (b_store b') /\ b_found b' = b_found b.
  Proof.
    intros Hfi Hs H. unfold cut_fragments in H.
    destruct (aget key_eqb (b_found b) k) as [[f ids]|] eqn:E; [|discriminate].
    bind_inv H keyed Hkeyed. bind_inv H r Hr. destruct r as [st subs].
    bind_inv H u Hu. injection H as <-. cbn [b_store b_found]. split; [|reflexivity].
    eapply trim_all_PS; [eapply Hfi; exact E | exact Hs | exact Hr].
  Qed.

  Lemma cut_remaining_PS c b b' :
    found_in (b_found b) -> PS (b_store b) -> cut_remaining_overhangs c b = Ok b' -> PS (b_store b').
  Proof.
    intros Hfi Hs H. unfold cut_remaining_overhangs in H. bind_inv H b1 Hb1. injection H as <-.
    cbn [b_store].
    refine (proj1 (foldM_inv _ (fun b0 => PS (b_store b0) /\ b_found b0 = b_found b) _ _ _ _
                     (conj Hs eq_refl) Hb1)).
    intros s0 a s1 [Hs0 Ef] Hf.
    destruct (cut_fragments_PS c s0 a s1) as [H1 H2]; [rewrite Ef; exact Hfi | exact Hs0 | exact Hf |].
    split; [exact H1 | congruence].
  Qed.

  (* the found table of RemapHead's invariant holds input fragments only *)
  Lemma Inv_found_in b : RemapHead.Inv inp b -> found_in (b_found b).
  Proof.
    intros (_ & _ & (_ & _ & HF & _) & _) k f ids E.
    apply (aget_In key_eqb key_eqb_eq) in E. rewrite Forall_forall in HF.
    destruct (HF _ E) as (_ & Hin & _). exact Hin.
  Qed.

  (* ------------------------------------------------------ all stages at once *)
  Hypothesis Hids : NoDup (map f_id (in_frags inp)).

  Lemma head_PS c err fuel pretext nm b1 b2 b3 ids st :
    foldM (one_pretext_scaffold inp err) pretext (mkB [] [] [] [] nm 0) = Ok b1 ->
    discard_loop fuel err b1 = Ok b2 ->
    cut_remaining_overhangs c b2 = Ok b3 ->
    rename_results (b_store b3) ids = Ok st ->
    PS st.
  Proof.
    intros Hb1 Hb2 Hb3 Hst.
    assert (I1 : RemapHead.Inv inp b1) by (eapply pretext_inv; exact Hb1).
    assert (I2 : RemapHead.Inv inp b2) by (eapply discard_loop_inv; eassumption).
    assert (H1 : PS (b_store b1)) by (eapply pretext_PS; [|exact Hb1]; apply PS_nil).
    assert (H2 : PS (b_store b2)) by (eapply discard_loop_PS; eassumption).
    assert (H3 : PS (b_store b3)).
    { eapply cut_remaining_PS; [apply Inv_found_in; exact I2 | exact H2 | exact Hb3]. }
    eapply PS_rename; eassumption.
  Qed.
End StoreInv.

(* A predicate on results that is blind to labels, holds of every lookup
   result in an input scaffold, and survives discard_start, discard_end and
   trim_fragment with an input fragment as the fragment to trim, holds of
   every stored result of every completed run of remap_to_input. *)
Theorem store_invariant : forall (P : ovr -> Prop) c g prefix bpt input pretext rs,
  let inp := number_input input 0 in
  (forall r r', o_rows r' = o_rows r -> o_start r' = o_start r -> o_end r' = o_end r -> P r -> P r') ->
  (forall name rows bait fo, In (name, rows) inp ->
     find_overlaps rows (f_start bait) (f_end bait) = Ok (Some fo) -> P (ovr_of_found bait fo)) ->
  (forall r r', P r -> discard_start r = Ok r' -> P r') ->
  (forall r r', P r -> discard_end r = Ok r' -> P r') ->
  (forall r t ks ke new r', In t (in_frags inp) -> P r ->
     trim_fragment r t ks ke = Ok (new, r') -> P r') ->
  remap_to_input c g prefix bpt input pretext = Ok rs ->
  forall r, In r (b_store (rs_b rs)) -> P r.
Proof.
  intros P c g prefix bpt input pretext rs inp Pext Pinit Pds Pde Ptf H.
  destruct (number_input_spec input 0) as (_ & _ & Hids). fold inp in Hids.
  unfold remap_to_input in H. destruct (has_dup_names (map fst input)); [discriminate|].
  cbv zeta in H. fold inp in H.
  bind_inv H b1 Hb1. bind_inv H b2 Hb2. bind_inv H b3 Hb3. bind_inv H st Hst.
  bind_inv H nl Hnl. injection H as <-. cbn [rs_b with_namer with_store b_store].
  exact (head_PS inp P Pext Pinit Pds Pde Ptf Hids c _ _ _ _ _ _ _ _ _ Hb1 Hb2 Hb3 Hst).
Qed.

(* ====================================================== 1: the C18 invariant *)
Section C18.
  Variable inp : list (str * list row).
  Hypothesis Hids : NoDup (map f_id (in_frags inp)).
  Hypothesis Hidpos : Forall (fun f => 0 <= f_id f) (in_frags inp).
  Hypothesis Hposr : forall name src, In (name, src) inp -> pos_rows src.

  Lemma src_frag_in name src f : In (name, src) inp -> In (RF f) src -> In f (in_frags inp).
  Proof.
    intros Hsrc Hf. unfold in_frags. apply in_flat_map. exists (name, src).
    split; [exact Hsrc|]. cbn [snd]. apply In_frags_of_iff. exact Hf.
  Qed.

  Lemma NoDup_app_l {A} (a b : list A) : NoDup (a ++ b) -> NoDup a.
  Proof.
    induction a as [|x a IH]; cbn [app]; intros H; [constructor|].
    inversion H as [|? ? Hn Hnd]; subst. constructor; [|apply IH; exact Hnd].
    intros Hin. apply Hn. apply in_or_app. left. exact Hin.
  Qed.

  Lemma NoDup_app_r {A} (a b : list A) : NoDup (a ++ b) -> NoDup b.
  Proof.
    induction a as [|x a IH]; cbn [app]; intros H; [exact H|].
    inversion H; subst. apply IH. assumption.
  Qed.

  Lemma src_ids_distinct name src : In (name, src) inp -> ids_distinct src.
  Proof.
    intros Hsrc. split.
    - apply in_split in Hsrc. destruct Hsrc as (l1 & l2 & E).
      unfold in_frags in Hids. rewrite E, flat_map_app in Hids. cbn [flat_map snd] in Hids.
      rewrite !map_app in Hids. apply NoDup_app_r in Hids. apply NoDup_app_l in Hids. exact Hids.
    - apply Forall_forall. intros f Hf. apply (in_frags_id_pos inp Hidpos).
      eapply src_frag_in; [exact Hsrc|]. apply In_frags_of_iff. exact Hf.
  Qed.

  (* provenance of fragment rows: a row of the source itself, or a copy made
     by trim_fragment (negative id) *)
  Definition prov (src rows : list row) : Prop :=
    forall f, In (RF f) rows -> In (RF f) src \/ f_id f < 0.
  Definition SInv (src : list row) (r : ovr) : Prop := Inv' src r /\ prov src (o_rows r).
  Definition RI (r : ovr) : Prop := exists name src, In (name, src) inp /\ SInv src r.

  Lemma RI_ext r r' :
    o_rows r' = o_rows r -> o_start r' = o_start r -> o_end r' = o_end r -> RI r -> RI r'.
  Proof.
    intros E1 E2 E3 (name & src & Hsrc & HI & HP). exists name, src. split; [exact Hsrc|].
    unfold SInv, Inv'. rewrite E1, E2, E3. split; [exact HI | exact HP].
  Qed.

  Lemma RI_init name rows bait fo :
    In (name, rows) inp ->
    find_overlaps rows (f_start bait) (f_end bait) = Ok (Some fo) -> RI (ovr_of_found bait fo).
  Proof.
    intros Hin Hfo. exists name, rows. split; [exact Hin|]. split.
    - apply Inv'_init_shape; [eapply Hposr; exact Hin | eapply find_overlaps_shape; exact Hfo].
    - intros f Hf. left. cbn [ovr_of_found o_rows] in Hf. eapply find_overlaps_rows; eassumption.
  Qed.

  Lemma RI_ds r r' : RI r -> discard_start r = Ok r' -> RI r'.
  Proof.
    intros (name & src & Hsrc & HI & HP) H. exists name, src. split; [exact Hsrc|]. split.
    - eapply discard_start_pres; [eapply Hposr; exact Hsrc | exact HI | exact H].
    - intros f Hf. apply HP. eapply discard_start_incl; eassumption.
  Qed.

  Lemma RI_de r r' : RI r -> discard_end r = Ok r' -> RI r'.
  Proof.
    intros (name & src & Hsrc & HI & HP) H. exists name, src. split; [exact Hsrc|]. split.
    - eapply discard_end_pres; [eapply Hposr; exact Hsrc | exact HI | exact H].
    - intros f Hf. apply HP. eapply discard_end_incl; eassumption.
  Qed.

  (* the cut: the fragment to trim is an input fragment [t]; a row of the
     result that passes the identity test against [t] IS [t] (distinct ids,
     copies have negative ids), so this call of trim_fragment is the C18
     operation TrimFrag at the first or at the last row *)
  Lemma trim_fragment_is_op name src r t ks ke new r' :
    In (name, src) inp -> In t (in_frags inp) -> prov src (o_rows r) ->
    trim_fragment r t ks ke = Ok (new, r') ->
    exists last, apply_op r (TrimFrag last ks ke) = Ok r'.
  Proof.
    intros Hsrc Ht HP H.
    destruct (trim_fragment_inv _ _ _ _ _ _ H) as (r0 & rl & Hr0 & Hrl & Hor & _ & _).
    assert (Hrow : forall x, In x (o_rows r) -> row_is x t = true -> x = RF t).
    { intros x Hx Hxt. apply row_is_true in Hxt. destruct Hxt as (g0 & -> & Eg).
      destruct (HP g0 Hx) as [Hin | Hlt].
      - f_equal. eapply (id_inj inp Hids); [|exact Ht | exact Eg].
        eapply src_frag_in; eassumption.
      - pose proof (in_frags_id_pos inp Hidpos t Ht). lia. }
    destruct (row_is rl t) eqn:El.
    - exists true. cbn [apply_op]. rewrite Hrl. cbn [bind].
      assert (E : rl = RF t).
      { apply Hrow; [|exact El]. unfold last_row in Hrl. apply py_nth_m1_inv in Hrl.
        destruct Hrl as (tl & ->). apply in_or_app. right. left. reflexivity. }
      rewrite E, H. reflexivity.
    - rewrite orb_false_r in Hor. exists false. cbn [apply_op]. rewrite Hr0. cbn [bind].
      assert (E : r0 = RF t).
      { apply Hrow; [|exact Hor]. unfold first_row in Hr0. apply py_nth_0_inv in Hr0.
        destruct Hr0 as (t0 & ->). left. reflexivity. }
      rewrite E, H. reflexivity.
  Qed.

  Lemma RI_tf r t ks ke new r' :
    In t (in_frags inp) -> RI r -> trim_fragment r t ks ke = Ok (new, r') -> RI r'.
  Proof.
    intros Ht (name & src & Hsrc & HI & HP) H. exists name, src. split; [exact Hsrc|]. split.
    - destruct (trim_fragment_is_op _ _ _ _ _ _ _ _ Hsrc Ht HP H) as (last & Hop).
      eapply apply_op_pres; [eapply Hposr; exact Hsrc | eapply src_ids_distinct; exact Hsrc
                            | exact HI | exact Hop].
    - destruct (trim_fragment_inv _ _ _ _ _ _ H) as (r0 & rl & Hr0 & Hrl & _ & Hneg & Erows).
      intros f Hf. rewrite Erows in Hf. destruct (row_is rl t).
      + unfold last_row in Hrl. apply py_nth_m1_inv in Hrl. destruct Hrl as (tl & El).
        rewrite El, set_last_app in Hf. apply in_app_or in Hf. destruct Hf as [Hf | [Hf | []]].
        * apply HP. rewrite El. apply in_or_app. left. exact Hf.
        * injection Hf as <-. right. exact Hneg.
      + apply set_nth_In in Hf. destruct Hf as [Hf | Hf]; [|apply HP; exact Hf].
        injection Hf as ->. right. exact Hneg.
  Qed.
End C18.

(* the numbered input: row lengths are those of the input *)
Lemma number_rows_pos : forall rows n, pos_rows rows -> pos_rows (fst (number_rows rows n)).
Proof.
  induction rows as [|r rows IH]; intros n H; cbn [number_rows]; [constructor|].
  inversion H as [|? ? Hr Hrows]; subst. specialize (IH (n + 1) Hrows).
  destruct r as [f|g0]; destruct (number_rows rows (n + 1)) as [t' n']; cbn [fst] in *;
    (constructor; [exact Hr | exact IH]).
Qed.

Lemma number_input_pos : forall input n,
  Forall (fun isc => pos_rows (snd isc)) input ->
  forall name src, In (name, src) (number_input input n) -> pos_rows src.
Proof.
  induction input as [|[nm rows] input IH]; intros n H name src Hin; cbn [number_input] in Hin;
    [destruct Hin|].
  inversion H as [|? ? Hr Hrest]; subst. cbn [snd] in Hr.
  pose proof (number_rows_pos rows n Hr) as Hp.
  destruct (number_rows rows n) as [rows' n']. cbn [fst] in Hp.
  destruct Hin as [E | Hin]; [injection E as _ <-; exact Hp | eapply IH; eassumption].
Qed.

(* 1 *)
Theorem pipeline_Inv : forall c g prefix bpt input pretext rs,
  Forall (fun isc => pos_rows (snd isc)) input ->
  remap_to_input c g prefix bpt input pretext = Ok rs ->
  forall r, In r (b_store (rs_b rs)) ->
    exists name src, In (name, src) (number_input input 0) /\ OvrSpec.Inv src r.
Proof.
  intros c g prefix bpt input pretext rs Hpos H r Hr.
  destruct (number_input_spec input 0) as (_ & Hidpos & Hids).
  pose proof (number_input_pos input 0 Hpos) as Hposr.
  set (inp := number_input input 0) in *.
  assert (HRI : RI inp r).
  { refine (store_invariant (RI inp) c g prefix bpt input pretext rs _ _ _ _ _ H r Hr).
    - apply RI_ext.
    - apply RI_init. exact Hposr.
    - apply RI_ds. exact Hposr.
    - apply RI_de. exact Hposr.
    - apply RI_tf; assumption. }
  destruct HRI as (name & src & Hsrc & HI & _). exists name, src.
  split; [exact Hsrc | apply Inv'_Inv; exact HI].
Qed.

Corollary pipeline_consistent : forall c g prefix bpt input pretext rs,
  Forall (fun isc => pos_rows (snd isc)) input ->
  remap_to_input c g prefix bpt input pretext = Ok rs ->
  forall r, In r (b_store (rs_b rs)) -> consistent r.
Proof.
  intros c g prefix bpt input pretext rs Hpos H r Hr.
  destruct (pipeline_Inv _ _ _ _ _ _ _ Hpos H r Hr) as (name & src & Hsrc & HI).
  eapply Inv_consistent; [|exact HI]. eapply number_input_pos; eassumption.
Qed.

(* the per-stage forms, for a caller that holds an intermediate state *)
Section Stages.
  Variable inp : list (str * list row).
  Hypothesis Hids : NoDup (map f_id (in_frags inp)).
  Hypothesis Hidpos : Forall (fun f => 0 <= f_id f) (in_frags inp).
  Hypothesis Hposr : forall name src, In (name, src) inp -> pos_rows src.
  Let PSI := PS (RI inp).

  Theorem Inv_after_lookups err pretext b0 b1 :
    PSI (b_store b0) -> foldM (one_pretext_scaffold inp err) pretext b0 = Ok b1 -> PSI (b_store b1).
  Proof.
    apply pretext_PS; [apply RI_ext | apply RI_init; exact Hposr
                      | apply RI_ds; exact Hposr | apply RI_de; exact Hposr].
  Qed.

  Theorem Inv_after_resolver err fuel b b' :
    PSI (b_store b) -> discard_loop fuel err b = Ok b' -> PSI (b_store b').
  Proof. apply discard_loop_PS; [apply RI_ds; exact Hposr | apply RI_de; exact Hposr]. Qed.

  Theorem Inv_after_cuts c b b' :
    found_in inp (b_found b) -> PSI (b_store b) -> cut_remaining_overhangs c b = Ok b' ->
    PSI (b_store b').
  Proof. apply cut_remaining_PS. apply RI_tf; assumption. Qed.
End Stages.

(* ============================= 2: no output scaffold has a terminal gap *)
Definition head_frag (rows : list row) : Prop := exists f t, rows = RF f :: t.
Definition last_frag (rows : list row) : Prop := exists f t, rows = t ++ [RF f].
(* empty, or begins and ends with a fragment *)
Definition NT (rows : list row) : Prop := rows = [] \/ no_terminal_gap rows.

Lemma last_frag_app_r a b : b <> [] -> last_frag (a ++ b) -> last_frag b.
Proof.
  intros Hb (f & t & E). destruct (exists_last' b) as [-> | (b' & x & ->)]; [congruence|].
  rewrite app_assoc in E. apply app_inj_tail in E. destruct E as [_ ->]. exists f, b'. reflexivity.
Qed.

Lemma last_frag_app_l a b : last_frag b -> last_frag (a ++ b).
Proof. intros (f & t & ->). exists f, (a ++ t). rewrite app_assoc. reflexivity. Qed.

Lemma head_frag_app_l a b : a <> [] -> head_frag (a ++ b) -> head_frag a.
Proof.
  intros Ha (f & t & E). destruct a as [|x a]; [congruence|]. cbn [app] in E. injection E as -> _.
  exists f, a. reflexivity.
Qed.

Lemma head_frag_rev rows : head_frag rows -> last_frag (rev rows).
Proof. intros (f & t & ->). exists f, (rev t). reflexivity. Qed.

Lemma pop_front_head t : forall pos rows' p,
  pop_gaps_front t pos = (rows', p) -> rows' = [] \/ head_frag rows'.
Proof.
  induction t as [|x t IH]; intros pos rows' p H; cbn [pop_gaps_front] in H.
  - injection H as <- _. left. reflexivity.
  - destruct x as [f|g0].
    + injection H as <- _. right. exists f, t. reflexivity.
    + eapply IH. exact H.
Qed.

Lemma pop_back_head t : forall pos rows' p,
  pop_gaps_back_rev t pos = (rows', p) -> rows' = [] \/ head_frag rows'.
Proof.
  induction t as [|x t IH]; intros pos rows' p H; cbn [pop_gaps_back_rev] in H.
  - injection H as <- _. left. reflexivity.
  - destruct x as [f|g0].
    + injection H as <- _. right. exists f, t. reflexivity.
    + eapply IH. exact H.
Qed.

Lemma NT_discard_start r r' : NT (o_rows r) -> discard_start r = Ok r' -> NT (o_rows r').
Proof.
  intros Hn H. unfold discard_start in H. destruct (o_rows r) as [|d t] eqn:Er; [discriminate|].
  destruct (pop_gaps_front t (o_start r + row_len d)) as [rows' st] eqn:E.
  injection H as <-. cbn [set_span_rows o_rows].
  destruct (pop_front_head _ _ _ _ E) as [-> | Hh]; [left; reflexivity|].
  destruct Hn as [Hn | [_ Hl]]; [discriminate|]. right. split; [exact Hh|].
  destruct (pop_front_split _ _ _ _ E) as (gaps & -> & _).
  apply (last_frag_app_r (d :: gaps)); [|exact Hl].
  destruct Hh as (f & t' & ->). discriminate.
Qed.

Lemma NT_discard_end r r' : NT (o_rows r) -> discard_end r = Ok r' -> NT (o_rows r').
Proof.
  intros Hn H. unfold discard_end in H. destruct (rev (o_rows r)) as [|d t] eqn:Er; [discriminate|].
  destruct (pop_gaps_back_rev t (o_end r - row_len d)) as [rr en] eqn:E.
  injection H as <-. cbn [set_span_rows o_rows].
  destruct (pop_back_head _ _ _ _ E) as [-> | Hh]; [left; reflexivity|].
  destruct Hn as [Hn | [Hf _]]; [rewrite Hn in Er; discriminate|]. right.
  destruct (pop_back_split _ _ _ _ E) as (gaps & Et & _).
  assert (Erows : o_rows r = rev rr ++ (rev gaps ++ [d])).
  { rewrite <- (rev_involutive (o_rows r)), Er, Et. cbn [rev].
    rewrite rev_app_distr, <- app_assoc. reflexivity. }
  split.
  - apply (head_frag_app_l _ (rev gaps ++ [d])); [|rewrite <- Erows; exact Hf].
    destruct Hh as (f & t' & ->). cbn [rev]. intros N. apply app_eq_nil in N. destruct N; discriminate.
  - apply head_frag_rev. exact Hh.
Qed.

Lemma NT_trim_fragment r t ks ke new r' :
  NT (o_rows r) -> trim_fragment r t ks ke = Ok (new, r') -> NT (o_rows r').
Proof.
  intros Hn H. destruct (trim_fragment_inv _ _ _ _ _ _ H) as (r0 & rl & Hr0 & Hrl & _ & _ & ->).
  unfold first_row in Hr0. unfold last_row in Hrl.
  apply py_nth_0_inv in Hr0. destruct Hr0 as (t0 & E0).
  apply py_nth_m1_inv in Hrl. destruct Hrl as (tl & El).
  destruct Hn as [Hn | [(f1 & t1 & E1) (f2 & t2 & E2)]]; [rewrite Hn in E0; discriminate|].
  right. destruct (row_is rl t).
  - rewrite El, set_last_app. split; [|exists new, tl; reflexivity].
    rewrite El in E1. destruct tl as [|x tl]; cbn [app] in *.
    + exists new, []. reflexivity.
    + injection E1 as -> _. exists f1, (tl ++ [RF new]). reflexivity.
  - rewrite E0. cbn [set_nth]. split; [exists new, t0; reflexivity|].
    rewrite E0 in E2. destruct (exists_last' t0) as [-> | (t0' & x & ->)].
    + exists new, []. reflexivity.
    + change (r0 :: t0' ++ [x]) with ((r0 :: t0') ++ [x]) in E2.
      apply app_inj_tail in E2. destruct E2 as [_ ->].
      exists f2, (RF new :: t0'). reflexivity.
Qed.

Lemma NT_init rows bs be fo : find_overlaps rows bs be = Ok (Some fo) -> NT (fo_rows fo).
Proof.
  intros H. apply find_overlaps_shape in H.
  destruct H as (i & j & Hij & -> & _ & _ & (o1 & Ho1) & (o2 & Ho2)).
  right. destruct (slice_shape rows i j o1 o2 ltac:(lia) Ho1 Ho2) as [[E _] | E]; rewrite E.
  - split; [exists o1, [] | exists o1, []]; reflexivity.
  - split; [eexists o1, _; reflexivity|].
    exists o2, (RF o1 :: firstn (j - i - 1) (skipn (S i) rows)). reflexivity.
Qed.

(* the results of every completed run: no hypothesis on input or map *)
Theorem results_no_terminal_gap : forall c g prefix bpt input pretext rs,
  remap_to_input c g prefix bpt input pretext = Ok rs ->
  forall r, In r (b_store (rs_b rs)) -> NT (o_rows r).
Proof.
  intros c g prefix bpt input pretext rs H.
  refine (store_invariant (fun r => NT (o_rows r)) c g prefix bpt input pretext rs _ _ _ _ _ H).
  - intros r r' E _ _ Hn. rewrite E. exact Hn.
  - intros name rows bait fo _ Hfo. cbn [ovr_of_found o_rows]. eapply NT_init. exact Hfo.
  - apply NT_discard_start.
  - apply NT_discard_end.
  - intros r t ks ke new r' _. apply NT_trim_fragment.
Qed.

(* ------------------------------------------------- left-over scaffolds *)
Definition NL (l : list scaffold) : Prop := forall sc, In sc l -> no_terminal_gap (sc_rows sc).

Lemma add_missing_one_NL c g found acc isc acc' :
  NL (snd acc) -> add_missing_one c g found acc isc = Ok acc' -> NL (snd acc').
Proof.
  intros Ha H. unfold add_missing_one in H. destruct acc as [nm leftovers]. destruct isc as [name rows].
  cbn [snd] in *.
  pose proof (missing_rows_no_terminal_gap c found g rows) as Hm.
  destruct (missing_rows c found g rows [] 0 None) as [|r0 new_rows]; [injection H as <-; exact Ha|].
  bind_inv H nm' Hnm'. injection H as <-. cbn [snd].
  intros sc Hsc. apply in_app_or in Hsc. destruct Hsc as [Hsc | [<- | []]]; [apply Ha; exact Hsc|].
  cbn [sc_rows]. destruct Hm as [Hm | Hm]; [discriminate | exact Hm].
Qed.

Lemma add_missing_NL c g found : forall input acc acc',
  NL (snd acc) -> foldM (add_missing_one c g found) input acc = Ok acc' -> NL (snd acc').
Proof.
  intros input acc acc' Ha H.
  eapply (foldM_inv _ (fun a => NL (snd a))); [|exact Ha | exact H].
  intros s0 a s1 Hs0 Hf. eapply add_missing_one_NL; eassumption.
Qed.

Theorem leftovers_no_terminal_gap : forall c g prefix bpt input pretext rs,
  remap_to_input c g prefix bpt input pretext = Ok rs -> NL (rs_left rs).
Proof.
  intros c g prefix bpt input pretext rs H.
  unfold remap_to_input in H. destruct (has_dup_names (map fst input)); [discriminate|].
  cbv zeta in H. bind_inv H b1 Hb1. bind_inv H b2 Hb2. bind_inv H b3 Hb3. bind_inv H st Hst.
  bind_inv H nl Hnl. injection H as <-. cbn [rs_left].
  eapply (add_missing_NL _ _ _ _ (_, [])); [|exact Hnl]. intros sc [].
Qed.

(* ---------------------------------------------------------------- fusing *)
(* for EVERY cfg (JoinGaps.fused_no_terminal_gap is the [repaired] case) *)
Definition NA (acc : list (fuse_key * scaffold)) : Prop :=
  forall e, In e acc -> no_terminal_gap (sc_rows (snd e)).

Lemma append_rows_ntg self othr og :
  NT self -> no_terminal_gap othr -> no_terminal_gap (append_rows self othr og).
Proof.
  intros [-> | [Hh Hl]] Ho.
  - unfold append_rows. destruct og; exact Ho.
  - assert (G : forall mid, no_terminal_gap (self ++ mid ++ othr)).
    { intros mid. destruct Hh as (f & t & ->). split.
      - exists f, (t ++ mid ++ othr). reflexivity.
      - rewrite app_assoc. apply last_frag_app_l. apply Ho. }
    unfold append_rows. destruct og as [g'|].
    + destruct self as [|x self']; [destruct Hh as (? & ? & ?); discriminate|]. apply (G [RG g']).
    + apply (G []).
Qed.

Lemma fuse_step_NA c g acc piece :
  NA acc -> NT (sc_rows (fst piece)) -> NA (fuse_step c g acc piece).
Proof.
  intros Ha Hp. unfold fuse_step. destruct piece as [sc is_result]. cbn [fst] in Hp.
  destruct (sc_rows sc) as [|r0 rows0] eqn:R; [exact Ha|]. rewrite <- R.
  set (k := (if fix_tag_key c then sc_tag sc else None, sc_hap sc, sc_name sc)).
  intros e He. apply aset_In_val in He. destruct He as [-> | He]; [|apply Ha; exact He].
  cbn [sc_rows]. apply append_rows_ntg.
  - destruct (aget fuse_key_eqb acc k) as [bsc|] eqn:G.
    + apply aget_In_val in G. destruct G as (k' & Hk). right. exact (Ha _ Hk).
    + left. reflexivity.
  - destruct Hp as [Hp | Hp]; [discriminate | rewrite R; exact Hp].
Qed.

Lemma fuse_fold_NA c g : forall pieces acc,
  NA acc -> (forall p, In p pieces -> NT (sc_rows (fst p))) ->
  NA (fold_left (fuse_step c g) pieces acc).
Proof.
  induction pieces as [|p pieces IH]; intros acc Ha Hp; cbn [fold_left]; [exact Ha|].
  apply IH.
  - apply fuse_step_NA; [exact Ha | apply Hp; left; reflexivity].
  - intros q Hq. apply Hp. right. exact Hq.
Qed.

Lemma NT_to_scaffold_rows r : NT (o_rows r) -> NT (to_scaffold_rows r).
Proof.
  intros [E | Hn]; [left; apply to_scaffold_rows_nil_iff; exact E|]. right.
  unfold to_scaffold_rows. destruct (f_strand (o_bait r) =? -1); [|exact Hn].
  apply rows_reverse_no_terminal_gap. exact Hn.
Qed.

Theorem fused_no_terminal_gap_any_cfg : forall c g rs fused,
  (forall r, In r (b_store (rs_b rs)) -> NT (o_rows r)) -> NL (rs_left rs) ->
  fuse_all c g rs = Ok fused -> NL fused.
Proof.
  intros c g rs fused Hs Hl H. unfold fuse_all in H. bind_inv H results Hres. injection H as <-.
  intros sc Hsc. apply in_map_iff in Hsc. destruct Hsc as (e & <- & He).
  revert e He. apply fuse_fold_NA; [intros e []|].
  intros p Hp. apply in_app_or in Hp. destruct Hp as [Hp | Hp]; apply in_map_iff in Hp.
  - destruct Hp as (r & <- & Hr). cbn [piece_of_result fst sc_rows].
    apply NT_to_scaffold_rows.
    destruct (mapM_ok_In _ _ _ Hres _ Hr) as (id & _ & Hget). apply Hs. eapply get_ovr_In. exact Hget.
  - destruct Hp as (sc0 & <- & Hsc0). cbn [fst]. right. apply Hl. exact Hsc0.
Qed.

(* 2 *)
Theorem output_scaffolds_well_formed : forall c g prefix bpt input pretext o,
  remap c g prefix bpt input pretext = Ok o ->
  forall a sc, In a (out_asms o) -> In sc (oa_scaffolds a) ->
    sc_rows sc <> [] /\ (exists f t, sc_rows sc = RF f :: t) /\ (exists f t, sc_rows sc = t ++ [RF f]).
Proof.
  intros c g prefix bpt input pretext o H a sc Ha Hsc. unfold remap in H. bind_inv H rs Hrs.
  destruct (RemapTail.assemblies_out_perm _ _ _ _ _ _ H) as (fused0 & fused & F & R & Pm).
  assert (Hin : In sc fused).
  { eapply Permutation_in; [exact Pm|]. apply in_flat_map. exists a. split; assumption. }
  assert (Hr : In (sc_rows sc) (map sc_rows fused0)) by (rewrite <- R; apply in_map; exact Hin).
  apply in_map_iff in Hr. destruct Hr as (sc0 & E & Hsc0). rewrite <- E.
  pose proof (fused_no_terminal_gap_any_cfg c g rs fused0
                (results_no_terminal_gap _ _ _ _ _ _ _ Hrs)
                (leftovers_no_terminal_gap _ _ _ _ _ _ _ Hrs) F sc0 Hsc0) as [Hh Hl].
  split; [|split; assumption]. destruct Hh as (f & t & ->). discriminate.
Qed.

(* ------------------------------------------- assembly keys are distinct *)
(* out_asms is a Python dict keyed by assembly key: one entry per key *)
Lemma group_step_keys acc sc :
  NoDup (map fst acc) -> NoDup (map fst (RemapTail.group_step acc sc)).
Proof.
  intros Hnd. unfold RemapTail.group_step. destruct (asm_key_of sc) as [k curated].
  destruct (aget (opt_eqb str_eqb) acc k) as [[cur scs]|] eqn:G.
  - destruct (RemapTail.aset_found (opt_eqb str_eqb) acc k (cur, scs) (cur, scs ++ [sc]) G)
      as (l1 & k' & l2 & E1 & E2).
    rewrite E2. rewrite E1 in Hnd. rewrite map_app in *. exact Hnd.
  - rewrite map_app. cbn [map fst]. apply NoDup_snoc; [exact Hnd|].
    apply (aget_None (opt_eqb str_eqb) opt_str_eqb_eq). exact G.
Qed.

Lemma sort_groups_keys : forall (asms0 : list (option str * (bool * list scaffold))) asms,
  mapM (fun '(k, (curated, scs)) =>
          do sorted <- smart_sort sc_rank sc_name scs; Ok (mkOutAsm k curated sorted)) asms0 = Ok asms ->
  map oa_key asms = map fst asms0.
Proof.
  induction asms0 as [|[k [curated scs]] asms0 IH]; intros asms H; cbn [mapM] in H.
  - injection H as <-. reflexivity.
  - bind_inv H a Ha. bind_inv H asms' Hasms'. injection H as <-.
    bind_inv Ha sorted Hsorted. injection Ha as <-. cbn [map oa_key fst]. f_equal. apply IH. exact Hasms'.
Qed.

Theorem out_asm_keys_distinct : forall c g prefix bpt input pretext o,
  remap c g prefix bpt input pretext = Ok o -> NoDup (map oa_key (out_asms o)).
Proof.
  intros c g prefix bpt input pretext o H. unfold remap in H. bind_inv H rs Hrs.
  unfold assemblies_with_scaffolds_fused in H.
  destruct (fuse_all c g rs) as [fused0|]; cbn [bind] in H; [|discriminate].
  match type of H with context [name_chromosomes prefix ?f1 ?it] =>
    destruct (name_chromosomes prefix f1 it) as [fused|] eqn:NC end;
    cbn [bind] in H; [|discriminate].
  match type of H with context [mapM ?f ?a0] =>
    destruct (mapM f a0) as [asms|] eqn:MM end; cbn [bind] in H; [|discriminate].
  destruct (make_stats _ _ _) as [[[breaks joins] per]|]; cbn [bind] in H; [|discriminate].
  injection H as <-. cbn [out_asms]. rewrite (sort_groups_keys _ _ MM).
  change (NoDup (map fst (fold_left RemapTail.group_step fused []))).
  assert (G : forall l acc, NoDup (map fst acc) -> NoDup (map fst (fold_left RemapTail.group_step l acc))).
  { induction l as [|sc l IH]; intros acc Ha; cbn [fold_left]; [exact Ha|].
    apply IH. apply group_step_keys. exact Ha. }
  apply G. constructor.
Qed.

(* ============================================== 3: the haplotig-removal count *)
(* write_info_yaml: manual_haplotig_removals = len(assemblies["Haplotig"].scaffolds),
   0 when there is no such assembly *)
Definition is_haplotig_asm (a : out_asm) : bool := opt_eqb str_eqb (oa_key a) (Some (s "Haplotig")).
Definition haplotig_scaffolds (o : outputs) : list scaffold :=
  match find is_haplotig_asm (out_asms o) with Some a => oa_scaffolds a | None => [] end.
Definition haplotig_removals (o : outputs) : Z := zlen (haplotig_scaffolds o).
Definition has_rows (sc : scaffold) : bool := match sc_rows sc with [] => false | _ => true end.

Lemma haplotig_scaffolds_in o sc : In sc (haplotig_scaffolds o) ->
  exists a, In a (out_asms o) /\ oa_key a = Some (s "Haplotig") /\ In sc (oa_scaffolds a).
Proof.
  unfold haplotig_scaffolds. destruct (find is_haplotig_asm (out_asms o)) as [a|] eqn:E; [|intros []].
  intros Hsc. apply find_some in E. destruct E as [Ha Hk]. exists a. split; [exact Ha|]. split; [|exact Hsc].
  unfold is_haplotig_asm in Hk. apply opt_str_eqb_eq in Hk. exact Hk.
Qed.

(* every scaffold that is counted is written with rows (none is empty, each
   begins and ends with a fragment), so the count reported equals the number
   of haplotig scaffolds that appear in the output files *)
Corollary haplotig_count : forall c g prefix bpt input pretext o,
  remap c g prefix bpt input pretext = Ok o ->
  (forall sc, In sc (haplotig_scaffolds o) ->
     sc_rows sc <> [] /\ (exists f t, sc_rows sc = RF f :: t) /\ (exists f t, sc_rows sc = t ++ [RF f]))
  /\ haplotig_removals o = zlen (filter has_rows (haplotig_scaffolds o))
  /\ ((forall a, In a (out_asms o) -> oa_key a <> Some (s "Haplotig")) -> haplotig_removals o = 0)
  /\ (forall a, In a (out_asms o) -> oa_key a = Some (s "Haplotig") ->
        haplotig_scaffolds o = oa_scaffolds a).
Proof.
  intros c g prefix bpt input pretext o H.
  assert (Hall : forall sc, In sc (haplotig_scaffolds o) ->
     sc_rows sc <> [] /\ (exists f t, sc_rows sc = RF f :: t) /\ (exists f t, sc_rows sc = t ++ [RF f])).
  { intros sc Hsc. destruct (haplotig_scaffolds_in o sc Hsc) as (a & Ha & _ & Hin).
    eapply output_scaffolds_well_formed; eassumption. }
  split; [exact Hall|]. split.
  - unfold haplotig_removals. f_equal.
    assert (E : filter has_rows (haplotig_scaffolds o) = haplotig_scaffolds o); [|rewrite E; reflexivity].
    induction (haplotig_scaffolds o) as [|sc l IH]; [reflexivity|]. cbn [filter].
    assert (Hsc : has_rows sc = true).
    { destruct (Hall sc (or_introl eq_refl)) as [Hne _]. unfold has_rows. destruct (sc_rows sc); congruence. }
    rewrite Hsc. f_equal. apply IH. intros sc' Hsc'. apply Hall. right. exact Hsc'.
  - split.
    { intros Hno. unfold haplotig_removals, haplotig_scaffolds.
      destruct (find is_haplotig_asm (out_asms o)) as [a|] eqn:E; [|reflexivity].
      apply find_some in E. destruct E as [Ha Hk]. exfalso. apply (Hno a Ha).
      unfold is_haplotig_asm in Hk. apply opt_str_eqb_eq in Hk. exact Hk. }
    intros a Ha Hk. unfold haplotig_scaffolds.
    destruct (find is_haplotig_asm (out_asms o)) as [a0|] eqn:E.
    + apply find_some in E. destruct E as [Ha0 Hk0].
      unfold is_haplotig_asm in Hk0. apply opt_str_eqb_eq in Hk0.
      assert (Ea : a0 = a).
      { eapply (NoDup_map_inj oa_key); [eapply out_asm_keys_distinct; exact H | exact Ha0 | exact Ha | congruence]. }
      rewrite Ea. reflexivity.
    + exfalso. pose proof (find_none _ _ E a Ha) as Hn. unfold is_haplotig_asm in Hn.
      rewrite Hk in Hn. cbn [opt_eqb] in Hn. rewrite str_eqb_refl in Hn. discriminate.
Qed.


(* ============================================================ non-vacuity *)
(* One input scaffold  A -5- B -100- C(minus strand)  and a second one
   E -33- G that the map does not mention.  Texel size 10 bp (error length 11).
   Three baits on scaffold_1:
     1..1025     meets A, the 5 bp gap and 20 bp of B: B is found twice, the
                 overhang resolver DISCARDS B (and the gap) from this result;
     1026..2505  meets B, the 100 bp gap and 400 bp of C;
     2506..3105  (tagged Haplotig) meets the other 600 bp of C: C is found
                 twice and is CUT at 2505/2506 (trim_fragment on both copies);
   scaffold_2 is LEFT OVER. *)
Definition pi_gap : gap := mkGap 200 (s "scaffold").
Definition pi_input : list (str * list row) :=
  [ (s "scaffold_1", [ex_F "ctgA" 1 1000 1 []; RG (mkGap 5 (s "scaffold")); ex_F "ctgB" 1 1000 1 [];
                      RG (mkGap 100 (s "scaffold")); ex_F "ctgC" 1 1000 (-1) []]);
    (s "scaffold_2", [ex_F "ctgE" 1 500 1 []; RG (mkGap 33 (s "centromere")); ex_F "ctgG" 1 500 (-1) []]) ].
Definition pi_ptx : list (str * list row) :=
  [ (s "Scaffold_1", [ex_F "scaffold_1" 1 1025 1 []]);
    (s "Scaffold_2", [ex_F "scaffold_1" 1026 2505 1 []]);
    (s "Scaffold_3", [ex_F "scaffold_1" 2506 3105 1 [s "Haplotig"]]) ].

(* the numbered rows of scaffold_1 (ids 0..4) and the store after the run *)
Definition pi_src : list row :=
  Eval vm_compute in match number_input pi_input 0 with (_, rows) :: _ => rows | [] => [] end.
Definition pi_store : list ovr :=
  Eval vm_compute in
    match remap_to_input repaired pi_gap (s "SUPER_") (10, 1) pi_input pi_ptx with
    | Ok rs => b_store (rs_b rs) | Err _ => [] end.
Definition pi_show (r : ovr) := (o_start r, o_end r, map ex_erase (o_rows r)).

Example pipeline_run :
  exists rs, remap_to_input repaired pi_gap (s "SUPER_") (10, 1) pi_input pi_ptx = Ok rs
    /\ In (s "scaffold_1", pi_src) (number_input pi_input 0)
    /\ b_store (rs_b rs) = pi_store
    /\ map pi_show pi_store
       = [ (1, 1000, [ex_F "ctgA" 1 1000 1 []]);                                    (* B discarded *)
           (1006, 2505, [ex_F "ctgB" 1 1000 1 []; RG (mkGap 100 (s "scaffold"));
                         ex_F "ctgC" 601 1000 (-1) [s "Cut"]]);                     (* C cut: 600 bp off its end *)
           (2506, 3105, [ex_F "ctgC" 1 600 (-1) [s "Cut"; s "Haplotig"]]) ]         (* C cut: 400 bp off its start *)
    /\ b_cuts (rs_b rs) = 1
    /\ map (fun sc => (sc_name sc, map ex_erase (sc_rows sc))) (rs_left rs)
       = [ (s "scaffold_2", [ex_F "ctgE" 1 500 1 []; RG (mkGap 33 (s "centromere")); ex_F "ctgG" 1 500 (-1) []]) ].
Proof.
  eexists. split; [vm_compute; reflexivity|]. split; [left; vm_compute; reflexivity|].
  vm_compute. repeat split.
Qed.

(* the first bait alone keeps A, the gap and B: the discard above is the
   overhang resolver's, not trim_large_overhangs' *)
Example pipeline_run_no_resolver :
  exists rs, remap_to_input repaired pi_gap (s "SUPER_") (10, 1) pi_input (firstn 1 pi_ptx) = Ok rs
    /\ map pi_show (b_store (rs_b rs))
       = [ (1, 2005, [ex_F "ctgA" 1 1000 1 []; RG (mkGap 5 (s "scaffold")); ex_F "ctgB" 1 1000 1 []]) ].
Proof. eexists. split; vm_compute; reflexivity. Qed.

(* the witnesses of [OvrSpec.Inv], spelled out *)
Definition Inv_with (src : list row) (r : ovr) (i n : nat) (ls le : Z) : Prop :=
  (1 <= n)%nat /\ (i + n <= length src)%nat
  /\ rows_rel (firstn n (skipn i src)) (o_rows r) ls le
  /\ o_start r = 1 + rows_len (firstn i src) + ls
  /\ o_end r = rows_len (firstn (i + n) src) - le.

Lemma Inv_with_Inv src r i n ls le : Inv_with src r i n ls le -> OvrSpec.Inv src r.
Proof. intros H. right. exists i, n, ls, le. exact H. Qed.

Definition pi_dummy : ovr := mkOvr (mkFrag 0 [] 0 0 0 []) 0 0 [] [] None None 0 None [].

(* result 0 = src[0..1), untrimmed; result 1 = src[2..5) with 600 bp off the
   scaffold-end side of its last fragment; result 2 = src[4..5) with 400 bp
   off the scaffold-start side *)
Example pipeline_Inv_witnesses :
  Inv_with pi_src (nth 0 pi_store pi_dummy) 0 1 0 0
  /\ Inv_with pi_src (nth 1 pi_store pi_dummy) 2 3 0 600
  /\ Inv_with pi_src (nth 2 pi_store pi_dummy) 4 1 400 0.
Proof.
  unfold Inv_with. cbn [pi_src pi_store nth firstn skipn o_rows o_start o_end length Nat.add].
  repeat match goal with |- _ /\ _ => split end; try lia; try (vm_compute; reflexivity).
  - left. eexists _, _. split; [reflexivity|]. split; [reflexivity|].
    unfold trimmed. cbn. repeat split; lia.
  - right. eexists _, _, [_], _, _. split; [reflexivity|]. split; [reflexivity|].
    unfold trimmed. cbn. repeat split; lia.
  - left. eexists _, _. split; [reflexivity|]. split; [reflexivity|].
    unfold trimmed. cbn. repeat split; lia.
Qed.

(* ... and they are what the theorem promises *)
Example pipeline_Inv_applies :
  forall r, In r pi_store ->
    exists name src, In (name, src) (number_input pi_input 0) /\ OvrSpec.Inv src r.
Proof.
  assert (Hpos : Forall (fun isc => pos_rows (snd isc)) pi_input).
  { repeat constructor; cbn; lia. }
  assert (H : exists rs, remap_to_input repaired pi_gap (s "SUPER_") (10, 1) pi_input pi_ptx = Ok rs
                         /\ b_store (rs_b rs) = pi_store).
  { eexists. split; vm_compute; reflexivity. }
  destruct H as (rs & Hrs & <-). exact (pipeline_Inv _ _ _ _ _ _ _ Hpos Hrs).
Qed.

(* the whole run: the two results named scaffold_1 are fused with the join
   gap, the cut-off half of C is the one haplotig scaffold, and the
   haplotig-removal count is 1 *)
Example pipeline_output :
  exists o, remap repaired pi_gap (s "SUPER_") (10, 1) pi_input pi_ptx = Ok o
    /\ map (fun a => (oa_key a, map (fun sc => (sc_name sc, map ex_erase (sc_rows sc))) (oa_scaffolds a)))
           (out_asms o)
       = [ (None,
            [ (s "scaffold_1", [ex_F "ctgA" 1 1000 1 []; RG pi_gap; ex_F "ctgB" 1 1000 1 [];
                                RG (mkGap 100 (s "scaffold")); ex_F "ctgC" 601 1000 (-1) [s "Cut"]]);
              (s "scaffold_2", [ex_F "ctgE" 1 500 1 []; RG (mkGap 33 (s "centromere"));
                                ex_F "ctgG" 1 500 (-1) []]) ]);
           (Some (s "Haplotig"),
            [ (s "H_1", [ex_F "ctgC" 1 600 (-1) [s "Cut"; s "Haplotig"]]) ]) ]
    /\ out_cuts o = 1 /\ haplotig_removals o = 1.
Proof. eexists. split; [vm_compute; reflexivity|]. vm_compute. repeat split. Qed.

(* ------------------------------------------------- which hypotheses matter *)
(* 1 needs "every input row is at least 1 bp long".  An input scaffold A, Z
   with Z a fragment of length 0 (start 5, end 4: Python's Fragment refuses it,
   the row type of the model does not) and a bait that overshoots the scaffold
   end by one base: the result holds [A; Z], it ends with a row of 0 bp, and no
   source whatever makes it satisfy Inv *)
Definition zl_input : list (str * list row) :=
  [ (s "scaffold_1", [ex_F "ctgA" 1 1000 1 []; ex_F "ctgZ" 5 4 1 []]) ].
Definition zl_ptx : list (str * list row) := [ (s "Scaffold_1", [ex_F "scaffold_1" 1 1001 1 []]) ].

Example pos_rows_needed_for_Inv :
  exists rs r, remap_to_input repaired pi_gap (s "SUPER_") (10, 1) zl_input zl_ptx = Ok rs
    /\ In r (b_store (rs_b rs))
    /\ pi_show r = (1, 1000, [ex_F "ctgA" 1 1000 1 []; ex_F "ctgZ" 5 4 1 []])
    /\ ~ consistent r /\ forall src, ~ OvrSpec.Inv src r.
Proof.
  eexists. eexists. split; [vm_compute; reflexivity|]. split; [left; reflexivity|].
  split; [vm_compute; reflexivity|]. split.
  - intros [E | (_ & _ & _ & HF)]; [discriminate E|]. cbn [o_rows] in HF.
    inversion HF as [|? ? _ HF']; subst. inversion HF' as [|? ? Hz _]; subst. cbn in Hz. lia.
  - intros src [E | (i & n & ls & le & _ & _ & Hrel & _)]; [discriminate E|]. cbn [o_rows] in Hrel.
    destruct Hrel as [(o & f & _ & E & _) | (o1 & f1 & mid & o2 & f2 & _ & E & _ & Ht)].
    + discriminate E.
    + destruct mid as [|x [|y mid]]; cbn [app] in E; try discriminate E.
      injection E as _ <-. destruct Ht as (_ & _ & _ & _ & Hse & _). cbn in Hse. lia.
Qed.

(* 2 needs nothing.  The same run: the output scaffold [A; Z] begins and ends
   with a fragment (of 0 bp, but a fragment) *)
Example zero_length_fragment_output :
  exists o, remap repaired pi_gap (s "SUPER_") (10, 1) zl_input zl_ptx = Ok o
    /\ map (fun sc => map ex_erase (sc_rows sc)) (flat_map oa_scaffolds (out_asms o))
       = [ [ex_F "ctgA" 1 1000 1 []; ex_F "ctgZ" 5 4 1 []] ].
Proof. eexists. split; vm_compute; reflexivity. Qed.

(* an input scaffold that is one gap and nothing else, absent from the map:
   missing_rows emits a row only for a fragment, so it gives [] and
   add_missing_one adds no scaffold: the gap-only scaffold vanishes from the
   output instead of becoming a scaffold that begins with a gap.  A join gap
   of 0 bp changes nothing either. *)
Definition go_input : list (str * list row) :=
  [ (s "scaffold_1", [ex_F "ctgA" 1 1000 1 []]); (s "scaffold_2", [RG (mkGap 100 (s "scaffold"))]);
    (s "scaffold_3", [RG (mkGap 7 (s "scaffold")); ex_F "ctgB" 1 10 1 []; RG (mkGap 7 (s "scaffold"))]) ].
Definition go_ptx : list (str * list row) := [ (s "Scaffold_1", [ex_F "scaffold_1" 1 1000 1 []]) ].

Example gap_only_scaffold_vanishes :
  missing_rows repaired [] pi_gap [RG (mkGap 100 (s "scaffold"))] [] 0 None = []
  /\ exists o, remap repaired (mkGap 0 (s "scaffold")) (s "SUPER_") (10, 1) go_input go_ptx = Ok o
    /\ map (fun sc => (sc_name sc, map ex_erase (sc_rows sc))) (flat_map oa_scaffolds (out_asms o))
       = [ (s "scaffold_1", [ex_F "ctgA" 1 1000 1 []]);
           (s "scaffold_3", [ex_F "ctgB" 1 10 1 []]) ].   (* terminal gaps of a left-over scaffold are dropped *)
Proof. split; [reflexivity|]. eexists. split; vm_compute; reflexivity. Qed.

(* distinct input names need not be assumed: a duplicate makes the run fail *)
Example duplicate_names_fail :
  remap_to_input repaired pi_gap (s "SUPER_") (10, 1) (pi_input ++ pi_input) pi_ptx = Err ValueError.
Proof. vm_compute. reflexivity. Qed.

Print Assumptions find_overlaps_shape.
Print Assumptions store_invariant.
Print Assumptions pipeline_Inv.
Print Assumptions pipeline_consistent.
Print Assumptions Inv_after_lookups.
Print Assumptions Inv_after_resolver.
Print Assumptions Inv_after_cuts.
Print Assumptions results_no_terminal_gap.
Print Assumptions leftovers_no_terminal_gap.
Print Assumptions fused_no_terminal_gap_any_cfg.
Print Assumptions output_scaffolds_well_formed.
Print Assumptions out_asm_keys_distinct.
Print Assumptions haplotig_count.
Print Assumptions pipeline_run.
Print Assumptions pipeline_run_no_resolver.
Print Assumptions pipeline_Inv_witnesses.
Print Assumptions pipeline_Inv_applies.
Print Assumptions pipeline_output.
Print Assumptions pos_rows_needed_for_Inv.
Print Assumptions zero_length_fragment_output.
Print Assumptions gap_only_scaffold_vanishes.
Print Assumptions duplicate_names_fail.
