(* C10, first sentence: WHEN are the scaffold names within one output assembly
   pairwise distinct?

   1. fuse_keys_nodup      the fused scaffolds have pairwise distinct fusion
                           keys (tag, haplotype, name), for every run state
                           and for both values of fix_tag_key
   2. same_name_in_assembly_cases / assembly_names_nodup_before_renaming
                           what can still collide inside one assembly (three
                           kinds of collision), and the side conditions that
                           rule them out
      duplicate_names_in_contaminants (+ _chrX, _by_tag_haplotype_clash)
                           the side conditions are needed: runs of [remap]
                           whose Contaminant assembly holds two scaffolds
                           with the same name; other ways to a repeated name
   3. renaming_keeps_distinct / names_nodup_after_renaming
                           rank-2 prefixing and ChrNamer (any number of
                           haplotypes) keep the names of one assembly
                           distinct under a namespace hypothesis on the
                           scaffolds that come out of the fusion
   4. unique_names_example a non-vacuity example through [remap]
   5. names_nodup_observable
                           the namespace hypothesis moved to the names in the
                           input and in the map (an invariant of the labels
                           through the whole first half of the pipeline)
   6. names_nodup_no_haplotypes
                           every hypothesis on the input and the map, for
                           runs that mention no haplotype. *)
From Tola Require Import Py.Base Py.Dec Py.Sort Model.Fragment Model.Scaffold Model.Lookup Model.OverlapResult
  Model.NaturalKey Model.Namer Model.Remap.
From Tola Require Import Proofs.BaseLemmas Proofs.Dec Proofs.NaturalKey Proofs.Routing Proofs.Naming.
From Tola Require Proofs.RemapTail Proofs.RemapHead Proofs.Junctions.
From Coq Require Import Lia ZifyBool Permutation Sorted.

(* ================================================================ 0. assoc *)
Lemma NoDup_snoc' {A} (l : list A) x : NoDup l -> ~ In x l -> NoDup (l ++ [x]).
Proof.
  intros N I. apply NoDup_rev in N. rewrite <- (rev_involutive (l ++ [x])), rev_app_distr.
  apply NoDup_rev. cbn [rev app]. constructor; [rewrite <- in_rev; exact I | exact N].
Qed.

Section Assoc0.
  Context {K V : Type} (keqb : K -> K -> bool).
  Hypothesis Hk : forall a b, keqb a b = true <-> a = b.

  Lemma aget_none_notin (d : list (K * V)) k : aget keqb d k = None -> ~ In k (map fst d).
  Proof.
    induction d as [|[k0 v0] d IH]; cbn [aget map fst In]; [tauto|].
    destruct (keqb k k0) eqn:E; [discriminate|]. intros H [X|X].
    - subst k0. rewrite (proj2 (Hk k k) eq_refl) in E. discriminate.
    - exact (IH H X).
  Qed.

  Lemma aget_some_in (d : list (K * V)) k v : aget keqb d k = Some v -> In (k, v) d.
  Proof.
    induction d as [|[k0 v0] d IH]; cbn [aget In]; [discriminate|].
    destruct (keqb k k0) eqn:E.
    - apply Hk in E. subst k0. intros [= ->]. left. reflexivity.
    - intro H. right. exact (IH H).
  Qed.

  Lemma in_nodup_aget (d : list (K * V)) k v :
    NoDup (map fst d) -> In (k, v) d -> aget keqb d k = Some v.
  Proof.
    induction d as [|[k0 v0] d IH]; cbn [aget map fst In]; [tauto|].
    intros N I. inversion N as [|? ? N1 N2]; subst.
    destruct I as [[= -> ->]|I].
    - rewrite (proj2 (Hk k k) eq_refl). reflexivity.
    - destruct (keqb k k0) eqn:E; [|exact (IH N2 I)].
      apply Hk in E. subst k0. exfalso. apply N1. apply (in_map fst) in I. exact I.
  Qed.

  (* [aset] either rewrites the value at the (unique) place of the key or
     appends a new entry *)
  Lemma aset_cases (d : list (K * V)) k v :
    (exists l1 v0 l2, d = l1 ++ (k, v0) :: l2 /\ aset keqb d k v = l1 ++ (k, v) :: l2
                      /\ aget keqb d k = Some v0)
    \/ (aget keqb d k = None /\ aset keqb d k v = d ++ [(k, v)]).
  Proof.
    induction d as [|[k0 v0] d IH]; cbn [aget aset app].
    - right. split; reflexivity.
    - destruct (keqb k k0) eqn:E.
      + apply Hk in E. subst k0. left. exists [], v0, d. repeat split.
      + destruct IH as [(l1 & w & l2 & E1 & E2 & E3)|[E1 E2]].
        * left. exists ((k0, v0) :: l1), w, l2. cbn [app]. rewrite <- E1, E2. repeat split. exact E3.
        * right. rewrite E2. split; [exact E1 | reflexivity].
  Qed.

  Lemma aset_keys_nodup (d : list (K * V)) k v : NoDup (map fst d) -> NoDup (map fst (aset keqb d k v)).
  Proof.
    intro N. destruct (aset_cases d k v) as [(l1 & w & l2 & E1 & E2 & _)|[E1 E2]].
    - rewrite E2. rewrite E1 in N. rewrite map_app in *. exact N.
    - rewrite E2, map_app. cbn [map fst]. apply NoDup_snoc'; [exact N|].
      apply aget_none_notin. exact E1.
  Qed.
End Assoc0.

(* ==================================================== 1. fuse_keys_nodup *)
(* the key under which [fuse_step c] files a piece *)
Definition fuse_key_c (c : cfg) (sc : scaffold) : fuse_key :=
  (if fix_tag_key c then sc_tag sc else None, sc_hap sc, sc_name sc).
Definition fuse_key_of : scaffold -> fuse_key := key_of_piece.

Definition fuse_inv (c : cfg) (acc : list (fuse_key * scaffold)) : Prop :=
  NoDup (map fst acc) /\ Forall (fun kb => fuse_key_c c (snd kb) = fst kb) acc.

Lemma fuse_step_inv c g acc p : fuse_inv c acc -> fuse_inv c (fuse_step c g acc p).
Proof.
  intros [N F]. destruct p as [sc isr]. unfold fuse_step.
  destruct (sc_rows sc) as [|r0 rows0] eqn:R; [split; assumption|].
  fold (fuse_key_c c sc). set (k := fuse_key_c c sc).
  set (g' := if isr || fix_leftover_gap c then Some g else None).
  destruct (aset_cases fuse_key_eqb fuse_key_eqb_eq acc k
              (let build := match aget fuse_key_eqb acc k with
                            | Some bsc => bsc
                            | None => mkScaffold (sc_name sc) [] (sc_tag sc) (sc_hap sc) (sc_rank sc)
                                                 (sc_orig sc) (sc_orig_tags sc)
                            end in
               mkScaffold (sc_name build) (append_rows (sc_rows build) (r0 :: rows0) g')
                          (sc_tag build) (sc_hap build) (sc_rank build) (sc_orig build) (sc_orig_tags build)))
    as [(l1 & v0 & l2 & E1 & E2 & E3)|[E1 E2]]; cbv zeta in E2; rewrite E2.
  - rewrite E3. split.
    + rewrite E1 in N. rewrite map_app in *. exact N.
    + rewrite E1 in F. apply Forall_app in F as [F1 F2]. inversion F2 as [|? ? F3 F4]; subst.
      apply Forall_app. split; [exact F1|]. constructor; [|exact F4].
      cbn [fst snd] in *. unfold fuse_key_c in *. cbn [sc_tag sc_hap sc_name]. exact F3.
  - rewrite E1. split.
    + rewrite map_app. cbn [map fst]. apply NoDup_snoc'; [exact N|].
      apply (aget_none_notin fuse_key_eqb fuse_key_eqb_eq). exact E1.
    + apply Forall_app. split; [exact F|]. constructor; [|constructor].
      cbn [fst snd]. reflexivity.
Qed.

Lemma fuse_fold_inv c g pieces : forall acc, fuse_inv c acc -> fuse_inv c (fold_left (fuse_step c g) pieces acc).
Proof.
  induction pieces as [|p pieces IH]; intros acc H; cbn [fold_left]; [exact H|].
  apply IH, fuse_step_inv, H.
Qed.

Lemma NoDup_map_factor {A B C} (f : A -> B) (h : B -> C) l : NoDup (map (fun x => h (f x)) l) -> NoDup (map f l).
Proof.
  induction l as [|x l IH]; cbn [map]; intro N; [constructor|].
  inversion N as [|? ? N1 N2]; subst. constructor; [|exact (IH N2)].
  intro I. apply N1. apply in_map_iff in I as (y & E & I). apply in_map_iff. exists y. split; [|exact I].
  rewrite E. reflexivity.
Qed.

(* the key actually used is a function of (tag, haplotype, name): distinct
   keys under either setting of the flag give distinct triples *)
Theorem fuse_keys_nodup_cfg : forall c g rs fused,
  fuse_all c g rs = Ok fused ->
  NoDup (map (fuse_key_c c) fused) /\ NoDup (map fuse_key_of fused).
Proof.
  intros c g rs fused H. unfold fuse_all in H.
  destruct (mapM _ _) as [results|]; cbn [bind] in H; [|discriminate]. injection H as <-.
  match goal with |- context [fold_left ?f ?l []] =>
    destruct (fuse_fold_inv c g l [] (conj (NoDup_nil _) (Forall_nil _))) as [N F];
    set (acc := fold_left f l []) in * end.
  clearbody acc.
  assert (E : map (fuse_key_c c) (map snd acc) = map fst acc).
  { rewrite map_map. apply map_ext_in. intros kb I. rewrite Forall_forall in F. exact (F kb I). }
  assert (N1 : NoDup (map (fuse_key_c c) (map snd acc))) by (rewrite E; exact N).
  split; [exact N1|].
  apply (NoDup_map_factor fuse_key_of
           (fun k : fuse_key => let '(t, h, n) := k in (if fix_tag_key c then t else None, h, n))).
  exact N1.
Qed.

Theorem fuse_keys_nodup : forall g rs fused,
  fuse_all repaired g rs = Ok fused -> NoDup (map fuse_key_of fused).
Proof. intros g rs fused H. exact (proj2 (fuse_keys_nodup_cfg repaired g rs fused H)). Qed.

(* with the legacy key the statement is even stronger: (haplotype, name) alone is duplicate-free *)
Corollary fuse_keys_nodup_legacy : forall c g rs fused, fix_tag_key c = false ->
  fuse_all c g rs = Ok fused -> NoDup (map (fun sc => (sc_hap sc, sc_name sc)) fused).
Proof.
  intros c g rs fused Hc H. destruct (fuse_keys_nodup_cfg c g rs fused H) as [N _].
  unfold fuse_key_c in N. rewrite Hc in N.
  apply (NoDup_map_factor (fun sc => (sc_hap sc, sc_name sc)) (fun p => (@None str, fst p, snd p))). exact N.
Qed.

(* ===================================== 2. one assembly, before renaming *)
Definition asm_k (sc : scaffold) : option str := fst (asm_key_of sc).

(* scaffolds at different positions that go to the same assembly have different names *)
Definition asm_distinct (l : list scaffold) : Prop :=
  forall i j a b, i <> j -> nth_error l i = Some a -> nth_error l j = Some b ->
    asm_k a = asm_k b -> sc_name a <> sc_name b.

Lemma NoDup_map_nth {A B} (f : A -> B) l i j a b :
  NoDup (map f l) -> i <> j -> nth_error l i = Some a -> nth_error l j = Some b -> f a <> f b.
Proof.
  intros N Hij Ha Hb E. apply Hij.
  assert (Li : (i < length (map f l))%nat) by (rewrite map_length; apply nth_error_Some; congruence).
  apply (proj1 (NoDup_nth_error (map f l)) N i j Li).
  rewrite (map_nth_error f i l Ha), (map_nth_error f j l Hb). f_equal. exact E.
Qed.

Lemma truthy_false_cases o : truthy o = false -> o = None \/ o = Some [].
Proof. destruct o as [[|c t]|]; cbn; intro H; auto; discriminate. Qed.

(* The exact list of what can collide.  Two scaffolds with different fusion
   keys, the same assembly and the same name are in one of three situations:
   (A) the same non-empty tag and different haplotypes;
   (B) one is tagged, the other is not and its haplotype is spelled like the tag;
   (C) both untagged, and the difference is None against the empty string
       (in the tag, or in the haplotype when neither has one). *)
Inductive collision (a b : scaffold) : Prop :=
  | col_tag_hap : truthy (sc_tag a) = true -> sc_tag a = sc_tag b -> sc_hap a <> sc_hap b -> collision a b
  | col_tag_is_hap_l : truthy (sc_tag a) = true -> truthy (sc_tag b) = false -> sc_hap b = sc_tag a -> collision a b
  | col_tag_is_hap_r : truthy (sc_tag b) = true -> truthy (sc_tag a) = false -> sc_hap a = sc_tag b -> collision a b
  | col_empty_tag : truthy (sc_tag a) = false -> truthy (sc_tag b) = false -> sc_tag a <> sc_tag b -> collision a b
  | col_empty_hap : truthy (sc_tag a) = false -> truthy (sc_tag b) = false ->
                    truthy (sc_hap a) = false -> truthy (sc_hap b) = false -> sc_hap a <> sc_hap b -> collision a b.

Theorem same_name_in_assembly_cases : forall l i j a b,
  NoDup (map fuse_key_of l) -> i <> j -> nth_error l i = Some a -> nth_error l j = Some b ->
  asm_k a = asm_k b -> sc_name a = sc_name b -> collision a b.
Proof.
  intros l i j a b N Hij Ha Hb K En.
  pose proof (NoDup_map_nth fuse_key_of l i j a b N Hij Ha Hb) as D.
  unfold fuse_key_of, key_of_piece in D. rewrite En in D.
  unfold asm_k, asm_key_of in K.
  destruct (truthy (sc_tag a)) eqn:Ta, (truthy (sc_tag b)) eqn:Tb.
  - cbn [fst] in K. apply col_tag_hap; [exact Ta | exact K|]. intro Eh. apply D. rewrite K, Eh. reflexivity.
  - destruct (truthy (sc_hap b)) eqn:Hb'; cbn [fst] in K.
    + apply col_tag_is_hap_l; auto.
    + rewrite K in Ta. discriminate.
  - destruct (truthy (sc_hap a)) eqn:Ha'; cbn [fst] in K.
    + apply col_tag_is_hap_r; auto.
    + rewrite <- K in Tb. discriminate.
  - destruct (opt_eqb str_eqb (sc_tag a) (sc_tag b)) eqn:Et;
      [apply opt_str_eqb_eq in Et
      |apply col_empty_tag; auto; intro X; apply opt_str_eqb_eq in X; congruence].
    assert (Dh : sc_hap a <> sc_hap b) by (intro Eh; apply D; rewrite Et, Eh; reflexivity).
    destruct (truthy (sc_hap a)) eqn:Ha', (truthy (sc_hap b)) eqn:Hb'; cbn [fst] in K.
    + contradiction.
    + rewrite K in Ha'. discriminate.
    + rewrite <- K in Hb'. discriminate.
    + apply col_empty_hap; auto.
Qed.

(* the three side conditions, one per kind of collision *)
(* (A) the one that matters: pieces with the same tag and the same name have the same haplotype *)
Definition tagged_same_hap (l : list scaffold) : Prop :=
  forall s1 s2, In s1 l -> In s2 l -> sc_tag s1 = sc_tag s2 -> sc_tag s1 <> None ->
    sc_name s1 = sc_name s2 -> sc_hap s1 = sc_hap s2.
(* (B) no untagged scaffold has a haplotype spelled like a tag in use *)
Definition no_tag_hap_clash (l : list scaffold) : Prop :=
  forall s1 s2, In s1 l -> In s2 l -> truthy (sc_tag s1) = true -> truthy (sc_tag s2) = false ->
    sc_hap s2 <> sc_tag s1.
(* (C) Python's "" never stands for "no tag" / "no haplotype" *)
Definition labels_normal (sc : scaffold) : Prop := sc_tag sc <> Some [] /\ sc_hap sc <> Some [].

Theorem asm_distinct_before_renaming : forall l,
  NoDup (map fuse_key_of l) -> Forall labels_normal l -> no_tag_hap_clash l -> tagged_same_hap l ->
  asm_distinct l.
Proof.
  intros l N LN NC TS i j a b Hij Ha Hb K En.
  pose proof (nth_error_In _ _ Ha) as Ia. pose proof (nth_error_In _ _ Hb) as Ib.
  rewrite Forall_forall in LN. destruct (LN a Ia) as [Na1 Na2]. destruct (LN b Ib) as [Nb1 Nb2].
  destruct (same_name_in_assembly_cases l i j a b N Hij Ha Hb K En)
    as [T E D | T1 T2 E | T1 T2 E | T1 T2 D | T1 T2 H1 H2 D].
  - apply D. apply TS; auto. intro X. rewrite X in T. discriminate.
  - exact (NC a b Ia Ib T1 T2 E).
  - exact (NC b a Ib Ia T1 T2 E).
  - apply truthy_false_cases in T1, T2. destruct T1, T2; congruence.
  - apply truthy_false_cases in H1, H2. destruct H1, H2; congruence.
Qed.

(* ---------------------------------------------- the grouping into assemblies *)
Import Proofs.RemapTail.

Definition has_key (k : option str) (sc : scaffold) : bool := opt_eqb str_eqb (asm_k sc) k.
Definition members (acc : list (option str * (bool * list scaffold))) (k : option str) : list scaffold :=
  match aget (opt_eqb str_eqb) acc k with Some (_, scs) => scs | None => [] end.

Lemma aget_app_l {K V} (keqb : K -> K -> bool) (d d' : list (K * V)) k v :
  aget keqb d k = Some v -> aget keqb (d ++ d') k = Some v.
Proof.
  induction d as [|[k0 v0] d IH]; cbn [aget app]; [discriminate|].
  destruct (keqb k k0); [tauto | exact IH].
Qed.
Lemma aget_app_r {K V} (keqb : K -> K -> bool) (d d' : list (K * V)) k :
  aget keqb d k = None -> aget keqb (d ++ d') k = aget keqb d' k.
Proof.
  induction d as [|[k0 v0] d IH]; cbn [aget app]; [reflexivity|].
  destruct (keqb k k0); [discriminate | exact IH].
Qed.

Lemma members_step acc sc k :
  members (group_step acc sc) k = members acc k ++ (if has_key k sc then [sc] else []).
Proof.
  unfold group_step, members, has_key, asm_k.
  destruct (asm_key_of sc) as [k0 cur0]. cbn [fst].
  destruct (opt_eqb str_eqb k0 k) eqn:E.
  - apply opt_str_eqb_eq in E. subst k0.
    destruct (aget (opt_eqb str_eqb) acc k) as [[cur scs]|] eqn:G.
    + rewrite (aget_aset_same _ opt_str_eqb_eq). reflexivity.
    + rewrite (aget_app_r _ _ _ _ G). cbn [aget]. rewrite (proj2 (opt_str_eqb_eq k k) eq_refl). reflexivity.
  - assert (NE : k <> k0) by (intro X; subst; rewrite (proj2 (opt_str_eqb_eq k0 k0) eq_refl) in E; discriminate).
    rewrite app_nil_r.
    destruct (aget (opt_eqb str_eqb) acc k0) as [[cur scs]|] eqn:G.
    + rewrite (aget_aset_other _ opt_str_eqb_eq) by exact NE. reflexivity.
    + destruct (aget (opt_eqb str_eqb) acc k) as [v|] eqn:G2.
      * rewrite (aget_app_l _ _ _ _ _ G2). reflexivity.
      * rewrite (aget_app_r _ _ _ _ G2). cbn [aget].
        destruct (opt_eqb str_eqb k k0) eqn:E2; [apply opt_str_eqb_eq in E2; congruence | reflexivity].
Qed.

Lemma members_fold : forall l acc k,
  members (fold_left group_step l acc) k = members acc k ++ filter (has_key k) l.
Proof.
  induction l as [|sc l IH]; intros acc k; cbn [fold_left filter]; [rewrite app_nil_r; reflexivity|].
  rewrite IH, members_step, <- app_assoc. destruct (has_key k sc); reflexivity.
Qed.

Lemma group_step_keys acc sc : NoDup (map fst acc) -> NoDup (map fst (group_step acc sc)).
Proof.
  intro N. unfold group_step. destruct (asm_key_of sc) as [k0 cur0].
  destruct (aget (opt_eqb str_eqb) acc k0) as [[cur scs]|] eqn:G.
  - apply (aset_keys_nodup _ opt_str_eqb_eq). exact N.
  - rewrite map_app. cbn [map fst]. apply NoDup_snoc'; [exact N|].
    apply (aget_none_notin _ opt_str_eqb_eq). exact G.
Qed.

Lemma group_fold_keys : forall l acc, NoDup (map fst acc) -> NoDup (map fst (fold_left group_step l acc)).
Proof.
  induction l as [|sc l IH]; intros acc N; cbn [fold_left]; [exact N|]. apply IH, group_step_keys, N.
Qed.

(* every assembly is the sub-list of the scaffolds with its key, in order *)
Theorem grouping_spec : forall l k cur scs,
  In (k, (cur, scs)) (fold_left group_step l []) -> scs = filter (has_key k) l.
Proof.
  intros l k cur scs I.
  pose proof (in_nodup_aget _ opt_str_eqb_eq _ k (cur, scs) (group_fold_keys l [] (NoDup_nil _)) I) as G.
  pose proof (members_fold l [] k) as M. unfold members at 1 in M. rewrite G in M. exact M.
Qed.

Lemma asm_distinct_tail x l : asm_distinct (x :: l) -> asm_distinct l.
Proof.
  intros H i j a b Hij Ha Hb. apply (H (S i) (S j)); [congruence | exact Ha | exact Hb].
Qed.

Lemma asm_distinct_filter_nodup k : forall l, asm_distinct l -> NoDup (map sc_name (filter (has_key k) l)).
Proof.
  induction l as [|x l IH]; intro H; cbn [filter map]; [constructor|].
  pose proof (IH (asm_distinct_tail x l H)) as N.
  destruct (has_key k x) eqn:Kx; [|exact N]. cbn [map]. constructor; [|exact N].
  intro I. apply in_map_iff in I as (y & En & Iy). apply filter_In in Iy as [Iy Ky].
  apply In_nth_error in Iy as [j Hj].
  apply (H 0%nat (S j) x y); [discriminate | reflexivity | exact Hj | | symmetry; exact En].
  unfold has_key in *. apply opt_str_eqb_eq in Kx, Ky. congruence.
Qed.

(* item 2 as asked: the grouping applied to ANY list with duplicate-free fusion keys *)
Theorem assembly_names_nodup_before_renaming : forall l,
  NoDup (map fuse_key_of l) -> Forall labels_normal l -> no_tag_hap_clash l -> tagged_same_hap l ->
  forall k cur scs, In (k, (cur, scs)) (fold_left group_step l []) -> NoDup (map sc_name scs).
Proof.
  intros l N LN NC TS k cur scs I. rewrite (grouping_spec l k cur scs I).
  apply asm_distinct_filter_nodup, asm_distinct_before_renaming; assumption.
Qed.

(* and the converse reading: a repeated name inside one assembly is a collision *)
Theorem assembly_duplicate_is_collision : forall l, NoDup (map fuse_key_of l) ->
  forall k cur scs, In (k, (cur, scs)) (fold_left group_step l []) ->
  forall i j a b, i <> j -> nth_error scs i = Some a -> nth_error scs j = Some b ->
    sc_name a = sc_name b -> collision a b.
Proof.
  intros l N k cur scs I i j a b Hij Ha Hb En.
  rewrite (grouping_spec l k cur scs I) in Ha, Hb.
  assert (Ka : has_key k a = true) by (apply nth_error_In, filter_In in Ha; tauto).
  assert (Kb : has_key k b = true) by (apply nth_error_In, filter_In in Hb; tauto).
  assert (NF : NoDup (map fuse_key_of (filter (has_key k) l))).
  { clear -N. induction l as [|x l IH]; cbn [filter map] in *; [constructor|].
    inversion N as [|? ? N1 N2]; subst. destruct (has_key k x); [|exact (IH N2)].
    cbn [map]. constructor; [|exact (IH N2)]. intro X. apply N1.
    apply in_map_iff in X as (y & E & Iy). apply filter_In in Iy as [Iy _]. apply in_map_iff. eauto. }
  apply (same_name_in_assembly_cases _ i j a b NF Hij Ha Hb); [|exact En].
  unfold has_key in *. apply opt_str_eqb_eq in Ka, Kb. congruence.
Qed.

(* The statement of item 2 with [tagged_same_hap] as its ONLY side condition is
   false for arbitrary lists: duplicate-free fusion keys and [tagged_same_hap]
   hold, and still one assembly gets the same name twice -- (C) None against
   the empty string, (B) a haplotype spelled like a tag.  Hence the two extra
   side conditions [labels_normal] and [no_tag_hap_clash] above. *)
Definition assemblies_of (l : list scaffold) : list (option str * list str) :=
  map (fun e : option str * (bool * list scaffold) => (fst e, map sc_name (snd (snd e))))
      (fold_left group_step l []).

Example item2_needs_labels_normal :
  let l := [mkScaffold (s "x") [] None None 3 None []; mkScaffold (s "x") [] (Some []) None 3 None []] in
  NoDup (map fuse_key_of l) /\ tagged_same_hap l /\ assemblies_of l = [(None, [s "x"; s "x"])].
Proof.
  cbv zeta. split; [|split; [|vm_compute; reflexivity]].
  - repeat constructor; cbn; intuition discriminate.
  - intros s1 s2 [<-|[<-|[]]] [<-|[<-|[]]]; cbn; intros; congruence.
Qed.

Example item2_needs_no_tag_hap_clash :
  let l := [mkScaffold (s "x") [] None (Some (s "Contaminant")) 3 None [];
            mkScaffold (s "x") [] (Some (s "Contaminant")) None 3 None []] in
  NoDup (map fuse_key_of l) /\ tagged_same_hap l /\ Forall labels_normal l
  /\ assemblies_of l = [(Some (s "Contaminant"), [s "x"; s "x"])].
Proof.
  cbv zeta. split; [|split; [|split; [|vm_compute; reflexivity]]].
  - repeat constructor; cbn; intuition discriminate.
  - intros s1 s2 [<-|[<-|[]]] [<-|[<-|[]]]; cbn; intros; congruence.
  - repeat constructor; cbn; discriminate.
Qed.

(* ------------------------------------------------------------------------
   The side condition [tagged_same_hap] IS needed, and [remap] itself violates
   it (candidate finding about the Python code, reproduced on /repo/src).

   Input: one scaffold, scaffold_7 = ctg7:1-2000.
   Map:   scaffold_7 is not painted; its first half is shown in Pretext
          Scaffold_1 with the tags HAP1 Contaminant, its second half in
          Scaffold_2 with the tags HAP2 Contaminant.
   The fusion keys (Contaminant, HAP1, scaffold_7) and (Contaminant, HAP2,
   scaffold_7) differ, so the two halves stay two scaffolds; both have the tag
   Contaminant, so both go to the assembly "Contaminant" -- under the same
   name scaffold_7. *)
Definition ex_gap : gap := mkGap 200 (s "scaffold").
Definition exF (n : str) (a b : Z) (tags : list str) : row := RF (mkFrag 0 n a b 1 tags).

Definition names_of (r : res outputs) : list (option str * list str) :=
  match r with
  | Ok o => map (fun a => (oa_key a, map sc_name (oa_scaffolds a))) (out_asms o)
  | Err _ => []
  end.
Definition labels_of (r : res outputs) : list (str * option str * option str) :=
  match r with
  | Ok o => flat_map (fun a => map (fun sc => (sc_name sc, sc_tag sc, sc_hap sc)) (oa_scaffolds a)) (out_asms o)
  | Err _ => []
  end.

Definition dup_input : list (str * list row) := [(s "scaffold_7", [exF (s "ctg7") 1 2000 []])].
Definition dup_pretext : list (str * list row) :=
  [(s "Scaffold_1", [exF (s "scaffold_7") 1 1000 [s "HAP1"; s "Contaminant"]]);
   (s "Scaffold_2", [exF (s "scaffold_7") 1001 2000 [s "HAP2"; s "Contaminant"]])].

Example duplicate_names_in_contaminants :
  let r := remap repaired ex_gap (s "SUPER_") (10, 1) dup_input dup_pretext in
  names_of r = [(Some (s "Contaminant"), [s "scaffold_7"; s "scaffold_7"])]
  /\ labels_of r = [(s "scaffold_7", Some (s "Contaminant"), Some (s "HAP1"));
                    (s "scaffold_7", Some (s "Contaminant"), Some (s "HAP2"))].
Proof. vm_compute. split; reflexivity. Qed.

(* the same thing without any cut: chromosome X of both haplotypes, each with
   a fragment tagged Contaminant.  The contaminant pieces keep the name "X". *)
Definition dupX_input : list (str * list row) :=
  [(s "scaffold_1", [exF (s "c1") 1 1000 []; RG ex_gap; exF (s "c2") 1 500 []]);
   (s "scaffold_2", [exF (s "c3") 1 1000 []; RG ex_gap; exF (s "c4") 1 500 []])].
Definition dupX_pretext : list (str * list row) :=
  [(s "Scaffold_1", [exF (s "scaffold_1") 1 1000 [s "X"; s "HAP1"]; RG ex_gap;
                     exF (s "scaffold_1") 1201 1700 [s "Contaminant"]]);
   (s "Scaffold_2", [exF (s "scaffold_2") 1 1000 [s "X"; s "HAP2"]; RG ex_gap;
                     exF (s "scaffold_2") 1201 1700 [s "Contaminant"]])].

Example duplicate_names_in_contaminants_chrX :
  names_of (remap repaired ex_gap (s "SUPER_") (10, 1) dupX_input dupX_pretext)
  = [(Some (s "HAP1"), [s "SUPER_X"]);
     (Some (s "Contaminant"), [s "X"; s "X"]);
     (Some (s "HAP2"), [s "SUPER_X"])].
Proof. vm_compute. reflexivity. Qed.

(* and without any haplotype TAG on the contaminant: the two halves of
   HAP1_x_1 get their haplotype from the name, but between them a scaffold
   tagged Primary makes HAP1 the primary haplotype, and from then on HAP1 is
   written "Primary" *)
Example duplicate_names_in_contaminants_primary_switch :
  let r := remap repaired ex_gap (s "SUPER_") (10, 1)
             [(s "HAP1_x_1", [exF (s "c1") 1 2000 []]); (s "HAP1_y_2", [exF (s "c2") 1 3000 []])]
             [(s "Scaffold_1", [exF (s "HAP1_x_1") 1 1000 [s "Contaminant"]]);
              (s "Scaffold_2", [exF (s "HAP1_y_2") 1 3000 [s "Painted"; s "Primary"]]);
              (s "Scaffold_3", [exF (s "HAP1_x_1") 1001 2000 [s "Contaminant"]])] in
  names_of r = [(Some (s "Contaminant"), [s "HAP1_x_1"; s "HAP1_x_1"]); (Some (s "Primary"), [s "SUPER_1"])]
  /\ labels_of r = [(s "HAP1_x_1", Some (s "Contaminant"), Some (s "HAP1"));
                    (s "HAP1_x_1", Some (s "Contaminant"), Some (s "Primary"));
                    (s "SUPER_1", None, Some (s "Primary"))].
Proof. vm_compute. split; reflexivity. Qed.

(* [no_tag_hap_clash] is needed too: an input scaffold called Contaminant_x_1
   gives the haplotype "Contaminant" to its untagged half, which then shares
   the assembly (and the name) with its half tagged Contaminant -- and the
   assembly is flagged curated, because the untagged half came first *)
Example duplicate_names_by_tag_haplotype_clash :
  let r := remap repaired ex_gap (s "SUPER_") (10, 1)
             [(s "Contaminant_x_1", [exF (s "ctg7") 1 2000 []])]
             [(s "Scaffold_1", [exF (s "Contaminant_x_1") 1 1000 []]);
              (s "Scaffold_2", [exF (s "Contaminant_x_1") 1001 2000 [s "Contaminant"]])] in
  names_of r = [(Some (s "Contaminant"), [s "Contaminant_x_1"; s "Contaminant_x_1"])]
  /\ labels_of r = [(s "Contaminant_x_1", None, Some (s "Contaminant"));
                    (s "Contaminant_x_1", Some (s "Contaminant"), Some (s "Contaminant"))]
  /\ match r with Ok o => map oa_curated (out_asms o) = [true] | Err _ => False end.
Proof. vm_compute. repeat split; reflexivity. Qed.

(* other ways to a repeated name; the first two are excluded by the property's
   namespace clause, the third is not an input NAME but a chromosome TAG *)
(* (i) an unpainted input scaffold called like a generated chromosome name *)
Example duplicate_input_named_like_chromosome :
  names_of (remap repaired ex_gap (s "SUPER_") (10, 1)
              [(s "SUPER_1", [exF (s "c1") 1 1000 []]); (s "scaffold_2", [exF (s "c2") 1 1000 []])]
              [(s "Scaffold_1", [exF (s "scaffold_2") 1 1000 [s "Painted"]])])
  = [(None, [s "SUPER_1"; s "SUPER_1"])].
Proof. vm_compute. reflexivity. Qed.

(* (ii) an unpainted input scaffold called like a Pretext scaffold is not
   duplicated but FUSED with the painted chromosome of that name *)
Example input_named_like_pretext_scaffold_is_fused :
  match remap repaired ex_gap (s "SUPER_") (10, 1)
          [(s "Scaffold_1", [exF (s "c1") 1 1000 []]); (s "scaffold_2", [exF (s "c2") 1 1000 []])]
          [(s "Scaffold_1", [exF (s "scaffold_2") 1 1000 [s "Painted"]])] with
  | Ok o => map (fun a => map (fun sc => (sc_name sc, map f_name (frags_of (sc_rows sc)))) (oa_scaffolds a))
                (out_asms o)
  | Err _ => []
  end = [[(s "SUPER_1", [s "c2"; s "c1"])]].
Proof. vm_compute. reflexivity. Qed.

(* (iii) a chromosome tag of the form digits+letters against the letters that
   ChrNamer gives to homologues: "1A" becomes SUPER_1A, and so does the first
   of two HAP2 homologues in group 1 *)
Example duplicate_chr_tag_1A :
  names_of (remap repaired ex_gap (s "SUPER_") (10, 1)
              [(s "a", [exF (s "c1") 1 3000 []]); (s "b", [exF (s "c2") 1 2000 []]);
               (s "c", [exF (s "c3") 1 1000 []]); (s "d", [exF (s "c4") 1 1000 []])]
              [(s "Scaffold_1", [exF (s "a") 1 3000 [s "Painted"; s "HAP1"]]);
               (s "Scaffold_2", [exF (s "b") 1 2000 [s "Painted"; s "HAP2"]]);
               (s "Scaffold_3", [exF (s "c") 1 1000 [s "Painted"; s "HAP2"]]);
               (s "Scaffold_4", [exF (s "d") 1 1000 [s "1A"; s "HAP2"]])])
  = [(Some (s "HAP1"), [s "SUPER_1"]);
     (Some (s "HAP2"), [s "SUPER_1A"; s "SUPER_1B"; s "SUPER_1A"])].
Proof. vm_compute. reflexivity. Qed.

(* (iv) an autosome prefix that a chromosome tag can start with: with the
   prefix "X" the tags I and XI both end up as XI *)
Example duplicate_prefix_inside_tag :
  names_of (remap repaired ex_gap (s "X") (10, 1)
              [(s "a", [exF (s "c1") 1 3000 []]); (s "b", [exF (s "c2") 1 2000 []])]
              [(s "Scaffold_1", [exF (s "a") 1 3000 [s "I"]]);
               (s "Scaffold_2", [exF (s "b") 1 2000 [s "XI"]])])
  = [(None, [s "XI"; s "XI"])].
Proof. vm_compute. reflexivity. Qed.

(* ====================================================== 3. after renaming *)
(* ------------------------------------------------- 3a. ChrNamer's groups *)

Section AssocPerm.
  Context {K V X : Type} (keqb : K -> K -> bool).
  Hypothesis Hk : forall a b, keqb a b = true <-> a = b.

  Lemma flat_map_aset_perm (F : K * V -> list X) (d : list (K * V)) k v dflt x :
    F (k, dflt) = [] ->
    Permutation (F (k, v)) (x :: F (k, match aget keqb d k with Some v0 => v0 | None => dflt end)) ->
    Permutation (flat_map F (aset keqb d k v)) (x :: flat_map F d).
  Proof.
    intros Hd P. destruct (aset_cases keqb Hk d k v) as [(l1 & v0 & l2 & E1 & E2 & E3)|[E1 E2]]; rewrite E2.
    - rewrite E3 in P. rewrite E1. rewrite !flat_map_app. cbn [flat_map].
      eapply perm_trans; [apply Permutation_app_head, Permutation_app_tail, P|].
      cbn [app]. symmetry. apply Permutation_middle.
    - rewrite E1, Hd in P. rewrite flat_map_app. cbn [flat_map]. rewrite app_nil_r.
      eapply perm_trans; [apply Permutation_app_head, P|]. symmetry. apply Permutation_cons_append.
  Qed.

  Lemma in_aset (d : list (K * V)) k v e : In e (aset keqb d k v) -> In e d \/ e = (k, v).
  Proof.
    destruct (aset_cases keqb Hk d k v) as [(l1 & v0 & l2 & E1 & E2 & E3)|[E1 E2]]; rewrite E2; intro I.
    - rewrite E1. apply in_app_or in I as [I|[<-|I]]; [left; apply in_or_app; auto | auto |].
      left. apply in_or_app. right. right. exact I.
    - apply in_app_or in I as [I|[<-|[]]]; auto.
  Qed.
End AssocPerm.

(* (haplotype, original name, index) of every member of a group *)
Definition slots_d (h : str) (d : list (str * list nat)) : list (str * str * nat) :=
  flat_map (fun oi : str * list nat => map (fun i => (h, fst oi, i)) (snd oi)) d.
Definition slots_g (g : chr_group) : list (str * str * nat) :=
  flat_map (fun hd : str * list (str * list nat) => slots_d (fst hd) (snd hd)) g.
Definition slots (gs : list chr_group) : list (str * str * nat) := flat_map slots_g gs.

Definition hapset_wf (d : list (str * list nat)) : Prop :=
  NoDup (map fst d) /\ Forall (fun oi => snd oi <> []) d.
Definition group_wf (g : chr_group) : Prop :=
  NoDup (map fst g) /\ Forall (fun hd => hapset_wf (snd hd)) g.

Lemma new_group_wf haps : NoDup haps -> group_wf (new_group haps).
Proof.
  intro N. unfold new_group. split.
  - rewrite map_map. cbn [fst]. rewrite map_id. exact N.
  - apply Forall_forall. intros hd I. apply in_map_iff in I as (h & <- & _). split; constructor.
Qed.

Lemma new_group_slots haps : slots_g (new_group haps) = [].
Proof. unfold slots_g, new_group. induction haps as [|h haps IH]; cbn; [reflexivity | exact IH]. Qed.

Lemma group_add_wf g h o i : group_wf g -> group_wf (group_add g h o i).
Proof.
  intros [N F]. unfold group_add. split; [apply (aset_keys_nodup _ str_eqb_eq); exact N|].
  apply Forall_forall. intros hd I. apply (in_aset _ str_eqb_eq) in I as [I | ->].
  - rewrite Forall_forall in F. exact (F hd I).
  - cbn [snd].
    assert (W : hapset_wf (group_hap g h)).
    { unfold group_hap. destruct (aget str_eqb g h) as [d|] eqn:G; [|split; constructor].
      apply (aget_some_in _ str_eqb_eq) in G. rewrite Forall_forall in F. exact (F _ G). }
    destruct W as [Nd Fd]. split; [apply (aset_keys_nodup _ str_eqb_eq); exact Nd|].
    apply Forall_forall. intros oi Io. apply (in_aset _ str_eqb_eq) in Io as [Io | ->].
    + rewrite Forall_forall in Fd. exact (Fd oi Io).
    + cbn [snd]. intro X. apply app_eq_nil in X as [_ X]. discriminate.
Qed.

Lemma group_add_slots g h o i : Permutation (slots_g (group_add g h o i)) ((h, o, i) :: slots_g g).
Proof.
  unfold slots_g, group_add.
  apply (flat_map_aset_perm _ str_eqb_eq (fun hd : str * list (str * list nat) => slots_d (fst hd) (snd hd))
           g h _ []); [reflexivity|].
  cbn [fst snd]. fold (group_hap g h). unfold slots_d.
  apply (flat_map_aset_perm _ str_eqb_eq (fun oi : str * list nat => map (fun i => (h, fst oi, i)) (snd oi))
           (group_hap g h) o _ []); [reflexivity|].
  cbn [fst snd]. rewrite map_app. cbn [map]. symmetry. apply Permutation_cons_append.
Qed.

Definition orig_of (fused : list scaffold) (i : nat) : str :=
  match nth_error fused i with
  | Some sc => match sc_orig sc with Some o => o | None => [] end
  | None => []
  end.

Lemma slots_app a b : slots (a ++ b) = slots a ++ slots b.
Proof. unfold slots. apply flat_map_app. Qed.

Lemma build_groups_step_spec fused haps mh st h i st' :
  NoDup haps -> cg_groups st <> [] -> Forall group_wf (cg_groups st) ->
  build_groups_step fused haps mh st (h, i) = Ok st' ->
  cg_groups st' <> [] /\ Forall group_wf (cg_groups st')
  /\ Permutation (slots (cg_groups st')) ((h, orig_of fused i, i) :: slots (cg_groups st)).
Proof.
  intros Nh NE W H. unfold build_groups_step in H. unfold orig_of.
  destruct (nth_error fused i) as [sc|]; [|discriminate].
  destruct (sc_orig sc) as [[|c o]|]; try discriminate.
  set (orig := c :: o) in *.
  match type of H with context [if ?b then cg_groups st ++ [new_group haps] else cg_groups st] =>
    set (need_new := b) in H end.
  set (groups := if need_new then cg_groups st ++ [new_group haps] else cg_groups st) in H.
  assert (G : groups <> [] /\ Forall group_wf groups /\ slots groups = slots (cg_groups st)).
  { unfold groups. destruct need_new.
    - split; [intro X; apply app_eq_nil in X as [_ X]; discriminate|]. split.
      + apply Forall_app. split; [exact W|]. constructor; [apply new_group_wf, Nh | constructor].
      + rewrite slots_app. unfold slots at 2. cbn [flat_map]. rewrite new_group_slots. rewrite !app_nil_r. reflexivity.
    - auto. }
  clearbody groups. destruct G as (G1 & G2 & G3).
  destruct (exists_last G1) as (init & cur' & ->).
  rewrite last_opt_snoc, set_last_group_snoc in H. injection H as <-. cbn [cg_groups].
  apply Forall_app in G2 as [G2 G4]. inversion G4 as [|? ? G5 _]; subst.
  split; [intro X; apply app_eq_nil in X as [_ X]; discriminate|]. split.
  - apply Forall_app. split; [exact G2|]. constructor; [apply group_add_wf, G5 | constructor].
  - rewrite <- G3, !slots_app. unfold slots at 2 4. cbn [flat_map]. rewrite !app_nil_r.
    eapply perm_trans; [apply Permutation_app_head, group_add_slots|].
    symmetry. apply Permutation_middle.
Qed.

Lemma build_groups_fold_spec fused haps mh : NoDup haps -> forall items st st',
  cg_groups st <> [] -> Forall group_wf (cg_groups st) ->
  foldM (build_groups_step fused haps mh) items st = Ok st' ->
  Forall group_wf (cg_groups st')
  /\ Permutation (slots (cg_groups st'))
                 (map (fun it : str * nat => (fst it, orig_of fused (snd it), snd it)) items ++ slots (cg_groups st)).
Proof.
  intros Nh. induction items as [|[h i] items IH]; intros st st' NE W H; cbn [foldM] in H.
  - injection H as <-. split; [exact W | apply Permutation_refl].
  - destruct (build_groups_step fused haps mh st (h, i)) as [st1|] eqn:E; cbn [bind] in H; [|discriminate].
    destruct (build_groups_step_spec _ _ _ _ _ _ _ Nh NE W E) as (NE1 & W1 & P1).
    destruct (IH st1 st' NE1 W1 H) as (W2 & P2). split; [exact W2|].
    eapply perm_trans; [exact P2|]. cbn [map fst snd app].
    eapply perm_trans; [apply Permutation_app_head, P1|]. symmetry. apply Permutation_middle.
Qed.

(* ------------------------------- 3b. name_chromosomes as a list of renamings *)
Definition rop := (nat * str * str)%type.           (* index, original name, chromosome name *)
Definition rop_idx (p : rop) : nat := fst (fst p).

Definition apply_rop (fs : list scaffold) (p : rop) : list scaffold :=
  match nth_error fs (fst (fst p)) with
  | Some sc => set_nth fs (fst (fst p)) (with_name sc (replace (snd (fst p)) (snd p) (sc_name sc) None))
  | None => fs
  end.

Definition letter (q count : nat) : str :=
  match count with 1%nat => [] | _ => [ascii_of_N (65 + N.of_nat q)] end.

Definition hapset_ops (names : list str) (d : list (str * list nat)) : list rop :=
  flat_map (fun p : (str * list nat) * str => map (fun i => (i, fst (fst p), snd p)) (snd (fst p)))
           (combine d names).
Definition group_ops (prefix : str) (n : Z) (g : chr_group) : list rop :=
  flat_map (fun hd : str * list (str * list nat) =>
              hapset_ops (multi_chr_list (prefix ++ str_of_Z n) (length (snd hd))) (snd hd)) g.

Lemma fold_left_flat_map {A B S} (f : S -> B -> S) (F : A -> list B) : forall l a,
  fold_left f (flat_map F l) a = fold_left (fun a x => fold_left f (F x) a) l a.
Proof. induction l as [|x l IH]; intro a; cbn [flat_map fold_left]; [reflexivity|]. rewrite fold_left_app. apply IH. Qed.

Lemma fold_left_map {A B S} (f : S -> B -> S) (g : A -> B) : forall l a,
  fold_left f (map g l) a = fold_left (fun a x => f a (g x)) l a.
Proof. induction l as [|x l IH]; intro a; cbn [map fold_left]; [reflexivity | apply IH]. Qed.

Lemma fold_left_ext' {A S} (f g : S -> A -> S) : (forall a x, f a x = g a x) ->
  forall l a, fold_left f l a = fold_left g l a.
Proof. intros H l. induction l as [|x l IH]; intro a; cbn [fold_left]; [reflexivity|]. rewrite H. apply IH. Qed.

Lemma name_group_as_ops prefix n fs g : name_group prefix n fs g = fold_left apply_rop (group_ops prefix n g) fs.
Proof.
  unfold name_group, group_ops. rewrite fold_left_flat_map. apply fold_left_ext'.
  intros fs1 [h d]. cbn [snd]. unfold hapset_ops. rewrite fold_left_flat_map. apply fold_left_ext'.
  intros fs2 [[orig idxs] c]. cbn [fst snd]. rewrite fold_left_map. apply fold_left_ext'.
  intros fs3 i. reflexivity.
Qed.

Definition all_ops (prefix : str) (sorted : list chr_group) : list rop :=
  flat_map (fun kg : nat * chr_group => group_ops prefix (Z.of_nat (fst kg) + 1) (snd kg))
           (combine (seq 0 (length sorted)) sorted).

Lemma name_groups_as_ops prefix fused sorted :
  fst (fold_left (fun '(fs, n) g => (name_group prefix n fs g, n + 1)) sorted (fused, 1))
  = fold_left apply_rop (all_ops prefix sorted) fused.
Proof.
  rewrite (name_groups_numbered prefix sorted fused 1 0). cbn [fst].
  unfold all_ops. rewrite fold_left_flat_map. apply fold_left_ext'.
  intros fs [k g]. cbn [fst snd]. rewrite name_group_as_ops. f_equal. f_equal. lia.
Qed.

(* effect of a list of renamings with pairwise different indices *)
Lemma apply_op_upd_ok fs p : upd_ok [rop_idx p] fs (apply_rop fs p).
Proof.
  unfold apply_rop, rop_idx. destruct (nth_error fs (fst (fst p))) eqn:E;
    [apply set_nth_upd_ok; exact E | apply upd_ok_refl].
Qed.

Lemma apply_ops_upd_ok ops fs : upd_ok (map rop_idx ops) fs (fold_left apply_rop ops fs).
Proof.
  eapply upd_ok_incl; [|apply (fold_upd_ok apply_rop (fun p => [rop_idx p]) apply_op_upd_ok)].
  intros i I. apply in_flat_map in I as (p & Ip & [<-|[]]). apply in_map. exact Ip.
Qed.

Lemma apply_ops_at : forall ops fs p sc, NoDup (map rop_idx ops) -> In p ops ->
  nth_error fs (rop_idx p) = Some sc ->
  nth_error (fold_left apply_rop ops fs) (rop_idx p)
  = Some (with_name sc (replace (snd (fst p)) (snd p) (sc_name sc) None)).
Proof.
  induction ops as [|q ops IH]; intros fs p sc N I Hn; [destruct I|].
  cbn [map] in N. inversion N as [|? ? N1 N2]; subst. cbn [fold_left].
  destruct I as [->|I].
  - destruct (apply_ops_upd_ok ops (apply_rop fs p)) as [_ U]. rewrite (U _ N1).
    unfold apply_rop. fold (rop_idx p). rewrite Hn. eapply nth_error_set_nth_same; exact Hn.
  - apply IH; [exact N2 | exact I|].
    destruct (apply_op_upd_ok fs q) as [_ U]. rewrite U; [exact Hn|].
    intros [E|[]]. apply N1. rewrite E. apply in_map. exact I.
Qed.

(* where a renaming comes from *)
Lemma in_combine_nth {A B} : forall (a : list A) (b : list B) x y,
  In (x, y) (combine a b) -> exists q, nth_error a q = Some x /\ nth_error b q = Some y.
Proof.
  induction a as [|x0 a IH]; intros [|y0 b] x y I; cbn [combine In] in I; try contradiction.
  destruct I as [I|I].
  - injection I as <- <-. exists 0%nat. split; reflexivity.
  - destruct (IH b x y I) as (q & H1 & H2). exists (S q). split; assumption.
Qed.

Lemma multi_chr_list_nth name count q c :
  nth_error (multi_chr_list name count) q = Some c -> (q < count)%nat /\ c = name ++ letter q count.
Proof.
  intro H. destruct (multi_chr_list_spec name count) as (L & H1 & H2).
  assert (Q : (q < count)%nat) by (rewrite <- L; apply nth_error_Some; congruence).
  split; [exact Q|]. unfold letter. destruct (Nat.eq_dec count 1) as [->|NE].
  - rewrite (H1 eq_refl) in H. destruct q as [|q]; [|lia]. cbn in H. injection H as <-. rewrite app_nil_r. reflexivity.
  - rewrite (H2 NE q Q) in H. injection H as <-. destruct count as [|[|count]]; [lia | congruence | reflexivity].
Qed.

Lemma group_ops_decode prefix n g i o c : In (i, o, c) (group_ops prefix n g) ->
  exists h d q idxs, In (h, d) g /\ nth_error d q = Some (o, idxs) /\ In i idxs
    /\ c = (prefix ++ str_of_Z n) ++ letter q (length d).
Proof.
  intro I. unfold group_ops in I. apply in_flat_map in I as ([h d] & Ig & I). cbn [snd] in I.
  unfold hapset_ops in I. apply in_flat_map in I as ([[o' idxs] c'] & Ic & I). cbn [fst snd] in I.
  apply in_map_iff in I as (i' & [= -> -> ->] & Ii).
  apply in_combine_nth in Ic as (q & Hq & Hc). apply multi_chr_list_nth in Hc as [_ Hc].
  exists h, d, q, idxs. auto.
Qed.

Lemma all_ops_decode prefix sorted i o c : In (i, o, c) (all_ops prefix sorted) ->
  exists k g h d q idxs, nth_error sorted k = Some g /\ In (h, d) g /\ nth_error d q = Some (o, idxs)
    /\ In i idxs /\ c = (prefix ++ str_of_Z (Z.of_nat k + 1)) ++ letter q (length d).
Proof.
  intro I. unfold all_ops in I. apply in_flat_map in I as ([k g] & Ik & I). cbn [fst snd] in I.
  apply in_combine_nth in Ik as (p & Hs & Hg).
  assert (p = k).
  { assert (P : (p < length (seq 0 (length sorted)))%nat) by (apply nth_error_Some; congruence).
    rewrite seq_length in P. rewrite nth_error_seq in Hs by exact P. injection Hs as <-. reflexivity. }
  subst p. destruct (group_ops_decode _ _ _ _ _ _ I) as (h & d & q & idxs & H1 & H2 & H3 & H4).
  exists k, g, h, d, q, idxs. auto.
Qed.

(* the indices renamed are exactly the indices stored in the groups *)
Lemma map_flat_map {A B C} (f : B -> C) (F : A -> list B) l :
  map f (flat_map F l) = flat_map (fun x => map f (F x)) l.
Proof. induction l as [|x l IH]; cbn [flat_map map]; [reflexivity|]. rewrite map_app, IH. reflexivity. Qed.

Lemma flat_map_ext' {A B} (F G : A -> list B) l : (forall x, F x = G x) -> flat_map F l = flat_map G l.
Proof. intro H. induction l as [|x l IH]; cbn [flat_map]; [reflexivity|]. rewrite H, IH. reflexivity. Qed.

Definition slot_idx (t : str * str * nat) : nat := snd t.

Lemma hapset_ops_idx names h d : length names = length d ->
  map rop_idx (hapset_ops names d) = map slot_idx (slots_d h d).
Proof.
  intro L. unfold hapset_ops, slots_d. rewrite !map_flat_map.
  transitivity (flat_map (fun oi : str * list nat => snd oi) (map fst (combine d names))).
  - rewrite RemapTail.flat_map_map. apply flat_map_ext'. intros [[o idxs] c]. cbn [fst snd].
    rewrite map_map. cbn. apply map_id.
  - rewrite map_fst_combine by (symmetry; exact L). apply flat_map_ext'. intros [o idxs]. cbn [fst snd].
    rewrite map_map. cbn. symmetry. apply map_id.
Qed.

Lemma group_ops_idx prefix n g : map rop_idx (group_ops prefix n g) = map slot_idx (slots_g g).
Proof.
  unfold group_ops, slots_g. rewrite !map_flat_map. apply flat_map_ext'. intros [h d]. cbn [fst snd].
  apply hapset_ops_idx. apply (proj1 (multi_chr_list_spec _ _)).
Qed.

Lemma all_ops_idx prefix sorted : map rop_idx (all_ops prefix sorted) = map slot_idx (slots sorted).
Proof.
  unfold all_ops, slots. rewrite !map_flat_map.
  transitivity (flat_map (fun g => map slot_idx (slots_g g)) (map snd (combine (seq 0 (length sorted)) sorted))).
  - rewrite RemapTail.flat_map_map. apply flat_map_ext'. intros [k g]. cbn [fst snd]. apply group_ops_idx.
  - rewrite map_snd_combine by apply seq_length. reflexivity.
Qed.

Lemma dedup_nil_inv (l : list str) : dedup str_eqb l = [] -> l = [].
Proof.
  destruct l as [|x l]; [reflexivity|]. intro H.
  assert (I : In x (dedup str_eqb (x :: l))) by (apply (Junctions.dedup_in _ str_eqb_eq); left; reflexivity).
  rewrite H in I. destruct I.
Qed.

Definition slot_of (fused : list scaffold) (it : str * nat) : str * str * nat :=
  (fst it, orig_of fused (snd it), snd it).

(* name_chromosomes = the renamings of well-formed groups that hold exactly the items *)
Theorem name_chromosomes_as_ops : forall prefix fused1 items fused,
  name_chromosomes prefix fused1 items = Ok fused ->
  exists sorted, fused = fold_left apply_rop (all_ops prefix sorted) fused1
    /\ Forall group_wf sorted
    /\ Permutation (slots sorted) (map (slot_of fused1) items).
Proof.
  intros prefix fused1 items fused H. unfold name_chromosomes in H.
  destruct (dedup str_eqb (map fst items)) as [|h0 haps'] eqn:D.
  - injection H as <-. apply dedup_nil_inv in D. destruct items; [|discriminate].
    exists []. split; [reflexivity|]. split; [constructor | apply perm_nil].
  - set (haps := h0 :: haps') in *.
    assert (Nh : NoDup haps) by (rewrite <- D; apply (Junctions.dedup_nodup _ str_eqb_eq)).
    destruct (foldM _ items _) as [st|] eqn:E; cbn [bind] in H; [|discriminate].
    destruct (existsb _ _); [discriminate|]. injection H as <-.
    destruct (build_groups_fold_spec fused1 haps (1 <? zlen haps) Nh items
                (mkCg [new_group haps] None None) st) as (W & P); [| |exact E|].
    { cbn [cg_groups]. discriminate. }
    { cbn [cg_groups]. constructor; [apply new_group_wf, Nh | constructor]. }
    cbn [cg_groups] in P. unfold slots at 2 in P. cbn [flat_map] in P. rewrite new_group_slots in P.
    cbn [app] in P. rewrite app_nil_r in P.
    set (sorted := sort_by_Z_desc (group_length fused1 haps) (cg_groups st)).
    assert (PS : Permutation sorted (cg_groups st)) by apply sort_desc_perm.
    exists sorted. split; [apply name_groups_as_ops|]. split.
    + apply Forall_forall. intros g Ig. rewrite Forall_forall in W. apply W.
      apply (Permutation_in _ PS). exact Ig.
    + eapply perm_trans; [|exact P]. unfold slots. apply RemapTail.flat_map_perm. exact PS.
Qed.

(* --------------------------------------------------------- 3c. the strings *)
Lemma starts_with_split : forall p x, starts_with p x = true -> x = p ++ skipn (length p) x.
Proof.
  induction p as [|c p IH]; intros x H; [reflexivity|].
  destruct x as [|d x]; cbn [starts_with] in H; [discriminate|].
  apply andb_prop in H as [H1 H2]. apply Ascii.eqb_eq in H1. subst d.
  cbn [length skipn app]. f_equal. apply IH. exact H2.
Qed.

(* "" or "_unloc_<digits>" *)
Definition unloc_sfx (x : str) : bool :=
  match x with
  | [] => true
  | _ => starts_with (s "_unloc_") x && forallb is_digit (skipn 7 x)
  end.

Definition no_digit_first (x : str) : Prop := match x with [] => True | c :: _ => is_digit c = false end.

Lemma unloc_sfx_cases x : unloc_sfx x = true ->
  x = [] \/ exists d, x = s "_unloc_" ++ d /\ forallb is_digit d = true.
Proof.
  destruct x as [|c x]; [auto|]. intro H. right. cbn [unloc_sfx] in H.
  apply andb_prop in H as [H1 H2]. exists (skipn 7 (c :: x)). split; [|exact H2].
  exact (starts_with_split _ _ H1).
Qed.

Lemma unloc_sfx_no_upper x : unloc_sfx x = true -> forallb (fun d => negb (is_upper d)) x = true.
Proof.
  intro H. destruct (unloc_sfx_cases x H) as [->|(d & -> & Hd)]; [reflexivity|].
  rewrite forallb_app. apply andb_true_intro. split; [reflexivity|].
  rewrite forallb_forall in *. intros c Ic. specialize (Hd c Ic).
  unfold is_digit, is_upper in *. lia.
Qed.

Lemma unloc_sfx_no_digit_first x : unloc_sfx x = true -> no_digit_first x.
Proof. intro H. destruct (unloc_sfx_cases x H) as [->|(d & -> & _)]; [exact I | reflexivity]. Qed.

Lemma digits_split : forall d1 d2 r1 r2,
  forallb is_digit d1 = true -> forallb is_digit d2 = true -> no_digit_first r1 -> no_digit_first r2 ->
  d1 ++ r1 = d2 ++ r2 -> d1 = d2 /\ r1 = r2.
Proof.
  induction d1 as [|c d1 IH]; intros [|c' d2] r1 r2 H1 H2 N1 N2 E; cbn [app forallb] in *.
  - auto.
  - subst r1. apply andb_prop in H2 as [H2 _]. cbn in N1. congruence.
  - subst r2. apply andb_prop in H1 as [H1 _]. cbn in N2. congruence.
  - injection E as -> E. apply andb_prop in H1 as [_ H1]. apply andb_prop in H2 as [_ H2].
    destruct (IH d2 r1 r2 H1 H2 N1 N2 E) as [-> ->]. auto.
Qed.

Lemma letter_code q : (q < 191)%nat -> code (ascii_of_N (65 + N.of_nat q)) = (65 + N.of_nat q)%N.
Proof. intro H. unfold code. apply N_ascii_embedding. lia. Qed.

Lemma letter_no_digit q count : (q < 191)%nat -> forall x, no_digit_first (letter q count ++ x) \/ letter q count = [].
Proof.
  intros H x. unfold letter. destruct count as [|[|count]]; auto; left; cbn [app no_digit_first];
    unfold is_digit; rewrite (letter_code q H); lia.
Qed.

Lemma letter_inj q q' count : (q < 191)%nat -> (q' < 191)%nat -> (q < count)%nat -> (q' < count)%nat ->
  letter q count = letter q' count -> q = q'.
Proof.
  intros H H' Hc Hc' E. unfold letter in E. destruct count as [|[|count]]; [lia | lia |].
  assert (E' : code (ascii_of_N (65 + N.of_nat q)) = code (ascii_of_N (65 + N.of_nat q'))) by congruence.
  rewrite !letter_code in E' by assumption. lia.
Qed.

(* <letter><suffix> determines both parts *)
Lemma letter_sfx_split q q' count count' x x' :
  unloc_sfx x = true -> unloc_sfx x' = true ->
  letter q count ++ x = letter q' count' ++ x' -> letter q count = letter q' count' /\ x = x'.
Proof.
  intros U U' E.
  assert (K : forall c y y', unloc_sfx y = true -> unloc_sfx y' = true -> y = c :: y' -> False).
  { intros c y y' Hy Hy' Ey. destruct (unloc_sfx_cases y Hy) as [->|(d & -> & _)]; [discriminate|].
    cbn in Ey. injection Ey as <- <-. cbn in Hy'. discriminate. }
  assert (S : forall q count, letter q count = [] \/ exists ch, letter q count = [ch]).
  { intros q0 [|[|c0]]; cbn [letter]; eauto. }
  destruct (S q count) as [L|[ch L]], (S q' count') as [L'|[ch' L']]; rewrite L, L' in *; cbn [app] in E.
  - auto.
  - exfalso. exact (K _ _ _ U U' E).
  - exfalso. exact (K _ _ _ U' U (eq_sym E)).
  - injection E as -> ->. auto.
Qed.

(* ------------------------------------------------- 3d. the namespace hypothesis *)
(* What the generated names need from the names that come out of the fusion:
   rank 1 (painted, to be numbered): the name is <Pretext scaffold name> or
     <Pretext scaffold name>_unloc_<digits>, the Pretext scaffold name starts
     with an upper-case letter (Scaffold_7) and is recorded as original name;
   rank 2 (chromosome named by a tag): the name does not start with the
     autosome prefix already, and does not start with a digit (so it cannot be
     mistaken for <number><letter>);
   every other rank: the name does not start with the autosome prefix. *)
Definition rank1_ok (sc : scaffold) : bool :=
  match sc_orig sc with
  | Some (c :: o) =>
      is_upper c && starts_with (c :: o) (sc_name sc) && unloc_sfx (skipn (length (c :: o)) (sc_name sc))
  | _ => false
  end.
Definition first_not_digit (x : str) : bool := match x with c :: _ => negb (is_digit c) | [] => false end.
Definition name_ok (prefix : str) (sc : scaffold) : bool :=
  if sc_rank sc =? 1 then rank1_ok sc
  else if sc_rank sc =? 2 then negb (starts_with prefix (sc_name sc)) && first_not_digit (sc_name sc)
  else negb (starts_with prefix (sc_name sc)).
Definition is_rank1 (sc : scaffold) : bool := sc_rank sc =? 1.
(* the different original (Pretext scaffold) names of the rank-1 scaffolds *)
Definition rank1_origs (l : list scaffold) : list str :=
  dedup str_eqb (flat_map (fun sc => if is_rank1 sc then match sc_orig sc with Some o => [o] | None => [] end
                                     else []) l).
(* 191 = 256 - 65: the model's characters are bytes, so its chr(65 + k) wraps
   at k = 191 (Python's does not); k < number of painted Pretext scaffolds *)
Definition namespace_ok (prefix : str) (l : list scaffold) : Prop :=
  forallb (name_ok prefix) l = true /\ (length (rank1_origs l) <= 191)%nat.

Lemma rank1_ok_inv sc : rank1_ok sc = true ->
  exists c o sfx, sc_orig sc = Some (c :: o) /\ is_upper c = true /\ sc_name sc = (c :: o) ++ sfx
                  /\ unloc_sfx sfx = true.
Proof.
  unfold rank1_ok. destruct (sc_orig sc) as [[|c o]|]; try discriminate. intro H.
  apply andb_prop in H as [H H3]. apply andb_prop in H as [H1 H2].
  exists c, o, (skipn (length (c :: o)) (sc_name sc)). repeat split; auto.
  apply starts_with_split. exact H2.
Qed.

Lemma replace_orig_sfx c o new sfx : is_upper c = true -> unloc_sfx sfx = true ->
  replace (c :: o) new ((c :: o) ++ sfx) None = new ++ sfx.
Proof.
  intros Hc Hs. apply replace_prefix_head.
  pose proof (unloc_sfx_no_upper sfx Hs) as F. rewrite forallb_forall in *.
  intros d Id. specialize (F d Id). destruct (Ascii.eqb c d) eqn:E; [|reflexivity].
  apply Ascii.eqb_eq in E. subst d. rewrite Hc in F. discriminate.
Qed.

(* -------------------------------------------------------- 3e. the stages *)
Definition prefix_rank2 (prefix : str) (sc : scaffold) : scaffold :=
  if (sc_rank sc =? 2) && negb (starts_with prefix (sc_name sc))
  then with_name sc (prefix ++ sc_name sc) else sc.
Definition chr_items_from (a : nat) (l : list scaffold) : list (str * nat) :=
  flat_map (fun '(i, sc) => if sc_rank sc =? 1 then [(hap_str (fst (asm_key_of sc)), i)] else [])
           (combine (seq a (length l)) l).
Definition chr_items (l : list scaffold) : list (str * nat) := chr_items_from 0 l.

Lemma chr_items_in : forall l a h i, In (h, i) (chr_items_from a l) <->
  (a <= i)%nat /\ exists sc, nth_error l (i - a) = Some sc /\ sc_rank sc = 1 /\ h = hap_str (asm_k sc).
Proof.
  induction l as [|x l IH]; intros a h i; unfold chr_items_from; cbn [length seq combine flat_map].
  - split; [intros [] | intros (_ & sc & H & _)]. destruct (i - a)%nat; discriminate.
  - rewrite in_app_iff. fold (chr_items_from (S a) l). rewrite IH. split.
    + intros [I|(L & sc & H1 & H2 & H3)].
      * destruct (sc_rank x =? 1) eqn:R; [|destruct I]. destruct I as [[= <- <-]|[]].
        split; [lia|]. exists x. rewrite Nat.sub_diag. repeat split. lia.
      * split; [lia|]. exists sc. replace (i - a)%nat with (S (i - S a)) by lia. auto.
    + intros (L & sc & H1 & H2 & H3). destruct (Nat.eq_dec i a) as [->|NE].
      * left. rewrite Nat.sub_diag in H1. cbn in H1. injection H1 as ->.
        rewrite (proj2 (Z.eqb_eq _ _) H2). left. rewrite H3. reflexivity.
      * right. split; [lia|]. exists sc. replace (i - a)%nat with (S (i - S a)) in H1 by lia. auto.
Qed.

Lemma chr_items_nodup : forall l a, NoDup (map snd (chr_items_from a l)).
Proof.
  induction l as [|x l IH]; intro a; unfold chr_items_from; cbn [length seq combine flat_map]; [constructor|].
  fold (chr_items_from (S a) l). destruct (sc_rank x =? 1); [|apply IH].
  cbn [app map snd]. constructor; [|apply IH].
  intro I. apply in_map_iff in I as ([h i] & E & I). cbn [snd] in E. subst i.
  apply chr_items_in in I as [L _]. lia.
Qed.

(* -------------------------------------- 3f. the names after the renaming *)
Lemma slots_intro gs k g h d q o idxs i :
  nth_error gs k = Some g -> In (h, d) g -> nth_error d q = Some (o, idxs) -> In i idxs ->
  In (h, o, i) (slots gs).
Proof.
  intros Hg Hd Hq Hi. unfold slots. apply in_flat_map. exists g. split; [eapply nth_error_In; exact Hg|].
  unfold slots_g. apply in_flat_map. exists (h, d). split; [exact Hd|]. cbn [fst snd].
  unfold slots_d. apply in_flat_map. exists (o, idxs). split; [eapply nth_error_In; exact Hq|].
  cbn [fst snd]. apply in_map. exact Hi.
Qed.

Lemma nodup_keys_same_value {K V} (l : list (K * V)) k v v' :
  NoDup (map fst l) -> In (k, v) l -> In (k, v') l -> v = v'.
Proof.
  induction l as [|[k0 v0] l IH]; cbn [map fst In]; [tauto|]. intros N I I'.
  inversion N as [|? ? N1 N2]; subst.
  destruct I as [E|I], I' as [E'|I'].
  - congruence.
  - exfalso. apply N1. apply (in_map fst) in I'. cbn [fst] in I'. congruence.
  - exfalso. apply N1. apply (in_map fst) in I. cbn [fst] in I. congruence.
  - exact (IH N2 I I').
Qed.

Lemma asm_k_with_name sc n : asm_k (with_name sc n) = asm_k sc.
Proof. reflexivity. Qed.

Lemma same_but_name_asm_k a b : same_but_name a b -> asm_k b = asm_k a.
Proof. intros (_ & T & H & _). unfold asm_k, asm_key_of. rewrite T, H. reflexivity. Qed.

Lemma prefix_rank2_sbn prefix sc : same_but_name sc (prefix_rank2 prefix sc).
Proof. unfold prefix_rank2. destruct (_ && _); repeat split. Qed.

(* the three kinds of name after the renaming *)
Inductive new_name (prefix : str) (sorted : list chr_group) (a0 a' : scaffold) : Prop :=
  | nn_chr k g d q idxs c o sfx :
      sc_rank a0 = 1 -> nth_error sorted k = Some g -> In (hap_str (asm_k a0), d) g ->
      nth_error d q = Some (c :: o, idxs) -> sc_name a0 = (c :: o) ++ sfx -> unloc_sfx sfx = true ->
      sc_name a' = (prefix ++ str_of_Z (Z.of_nat k + 1)) ++ letter q (length d) ++ sfx ->
      new_name prefix sorted a0 a'
  | nn_tag : sc_rank a0 = 2 -> sc_name a' = prefix ++ sc_name a0 -> first_not_digit (sc_name a0) = true ->
      new_name prefix sorted a0 a'
  | nn_other : sc_rank a0 <> 1 -> sc_name a' = sc_name a0 -> starts_with prefix (sc_name a0) = false ->
      new_name prefix sorted a0 a'.

Section Renaming.
  Variables (prefix : str) (fused0 fused : list scaffold) (sorted : list chr_group).
  Let fused1 := map (prefix_rank2 prefix) fused0.
  Let items := chr_items fused1.
  Hypothesis NS : namespace_ok prefix fused0.
  Hypothesis EQ : fused = fold_left apply_rop (all_ops prefix sorted) fused1.
  Hypothesis W : Forall group_wf sorted.
  Hypothesis P : Permutation (slots sorted) (map (slot_of fused1) items).

  Let ops := all_ops prefix sorted.

  Lemma ops_nodup : NoDup (map rop_idx ops).
  Proof.
    unfold ops. rewrite all_ops_idx.
    apply (Permutation_NoDup (Permutation_sym (Permutation_map slot_idx P))).
    rewrite map_map. cbn [slot_idx slot_of snd]. apply chr_items_nodup.
  Qed.

  Lemma fused1_nth i a0 : nth_error fused0 i = Some a0 -> nth_error fused1 i = Some (prefix_rank2 prefix a0).
  Proof. intro H. unfold fused1. apply map_nth_error. exact H. Qed.

  Lemma name_ok_at i a0 : nth_error fused0 i = Some a0 -> name_ok prefix a0 = true.
  Proof. intro H. destruct NS as [F _]. rewrite forallb_forall in F. apply F. eapply nth_error_In; exact H. Qed.

  (* a slot holds a rank-1 scaffold, filed under its haplotype and original name *)
  Lemma slot_is_item h o i : In (h, o, i) (slots sorted) ->
    exists a0, nth_error fused0 i = Some a0 /\ sc_rank a0 = 1 /\ h = hap_str (asm_k a0) /\ o = orig_of fused1 i.
  Proof.
    intro S. apply (Permutation_in _ P) in S. apply in_map_iff in S as ([h' i'] & E & It).
    unfold slot_of in E. cbn [fst snd] in E. injection E as -> Eo ->.
    apply chr_items_in in It as (_ & sc & Hn & R & ->). rewrite Nat.sub_0_r in Hn.
    unfold fused1 in Hn. rewrite nth_error_map in Hn.
    destruct (nth_error fused0 i) as [a0|] eqn:H0; [|discriminate]. cbn in Hn. injection Hn as <-.
    exists a0. repeat split; auto.
    - destruct (prefix_rank2_sbn prefix a0) as (_ & _ & _ & R' & _). congruence.
    - rewrite (same_but_name_asm_k _ _ (prefix_rank2_sbn prefix a0)). reflexivity.
  Qed.

  Lemma op_is_item i o c : In (i, o, c) ops ->
    exists k g d q idxs a0,
      nth_error sorted k = Some g /\ In (hap_str (asm_k a0), d) g /\ nth_error d q = Some (o, idxs)
      /\ c = (prefix ++ str_of_Z (Z.of_nat k + 1)) ++ letter q (length d)
      /\ nth_error fused0 i = Some a0 /\ sc_rank a0 = 1 /\ o = orig_of fused1 i.
  Proof.
    intro I. destruct (all_ops_decode _ _ _ _ _ I) as (k & g & h & d & q & idxs & Hg & Hd & Hq & Hi & Hc).
    pose proof (slots_intro _ _ _ _ _ _ _ _ _ Hg Hd Hq Hi) as S.
    destruct (slot_is_item _ _ _ S) as (a0 & H0 & R & -> & Eo).
    exists k, g, d, q, idxs, a0. repeat split; auto.
  Qed.

  Lemma rank1_has_op i a0 : nth_error fused0 i = Some a0 -> sc_rank a0 = 1 -> exists o c, In (i, o, c) ops.
  Proof.
    intros H0 R.
    assert (It : In (hap_str (asm_k (prefix_rank2 prefix a0)), i) items).
    { apply chr_items_in. split; [lia|]. exists (prefix_rank2 prefix a0). rewrite Nat.sub_0_r.
      split; [apply fused1_nth, H0|]. split; [|reflexivity].
      destruct (prefix_rank2_sbn prefix a0) as (_ & _ & _ & R' & _). congruence. }
    apply (in_map (slot_of fused1)) in It. apply (Permutation_in _ (Permutation_sym P)) in It.
    apply (in_map slot_idx) in It. cbn [slot_idx slot_of snd] in It.
    rewrite <- (all_ops_idx prefix) in It. apply in_map_iff in It as ([[i' o] c] & E & I).
    cbn in E. subst i'. exists o, c. exact I.
  Qed.

  Lemma name_after i a0 : nth_error fused0 i = Some a0 ->
    exists a', nth_error fused i = Some a' /\ asm_k a' = asm_k a0 /\ new_name prefix sorted a0 a'.
  Proof.
    intro H0. pose proof (name_ok_at i a0 H0) as OK. pose proof (fused1_nth i a0 H0) as H1.
    destruct (apply_ops_upd_ok ops fused1) as [F2 U]. fold ops in EQ. rewrite <- EQ in F2, U.
    unfold name_ok in OK. destruct (sc_rank a0 =? 1) eqn:R1.
    - apply Z.eqb_eq in R1.
      destruct (rank1_ok_inv a0 OK) as (c & o & sfx & Ho & Hc & Hn & Hs).
      assert (E1 : prefix_rank2 prefix a0 = a0).
      { unfold prefix_rank2. rewrite R1. reflexivity. }
      rewrite E1 in H1.
      destruct (rank1_has_op i a0 H0 R1) as (o' & c' & I).
      destruct (op_is_item _ _ _ I) as (k & g & d & q & idxs & a0' & Hg & Hd & Hq & Hc' & H0' & _ & Eo).
      rewrite H0 in H0'. injection H0' as <-.
      assert (Eo' : o' = c :: o) by (rewrite Eo; unfold orig_of; rewrite H1, Ho; reflexivity).
      clear Eo. subst o'.
      pose proof (apply_ops_at ops fused1 (i, c :: o, c') a0 ops_nodup I H1) as A.
      rewrite <- EQ in A. cbn [rop_idx fst snd] in A.
      rewrite Hn, (replace_orig_sfx c o c' sfx Hc Hs) in A.
      eexists. split; [exact A|]. split; [reflexivity|].
      eapply nn_chr; eauto. cbn [with_name sc_name]. rewrite Hc', <- app_assoc. reflexivity.
    - apply Z.eqb_neq in R1.
      assert (NI : ~ In i (map rop_idx ops)).
      { intro X. apply in_map_iff in X as ([[i' o'] c'] & E & I). cbn in E. subst i'.
        destruct (op_is_item _ _ _ I) as (k & g & d & q & idxs & a0' & _ & _ & _ & _ & H0' & R & _).
        rewrite H0 in H0'. injection H0' as <-. contradiction. }
      rewrite <- (U i NI) in H1. eexists. split; [exact H1|].
      split; [apply same_but_name_asm_k, prefix_rank2_sbn|].
      unfold prefix_rank2. destruct (sc_rank a0 =? 2) eqn:R2.
      + apply Z.eqb_eq in R2. apply andb_prop in OK as [O1 O2]. rewrite O1. cbn [andb].
        apply nn_tag; auto.
      + cbn [andb]. apply nn_other; auto. apply negb_true_iff. exact OK.
  Qed.

  Lemma fused_length : length fused = length fused0.
  Proof.
    destruct (apply_ops_upd_ok ops fused1) as [F2 _]. fold ops in EQ. rewrite <- EQ in F2.
    rewrite <- (Forall2_len _ _ _ F2). unfold fused1. apply map_length.
  Qed.

  Lemma orig_of_rank1 i a0 : nth_error fused0 i = Some a0 -> sc_rank a0 = 1 ->
    sc_orig a0 = Some (orig_of fused1 i).
  Proof.
    intros H0 R. pose proof (name_ok_at i a0 H0) as OK. unfold name_ok in OK.
    rewrite (proj2 (Z.eqb_eq _ _) R) in OK. destruct (rank1_ok_inv a0 OK) as (c & o & sfx & Ho & _).
    unfold orig_of. rewrite (fused1_nth i a0 H0).
    destruct (prefix_rank2_sbn prefix a0) as (_ & _ & _ & _ & O' & _). rewrite O', Ho. reflexivity.
  Qed.

  Lemma slot_bound k g h d q x : nth_error sorted k = Some g -> In (h, d) g -> nth_error d q = Some x ->
    (q < 191)%nat /\ (q < length d)%nat.
  Proof.
    intros Hg Hd Hq.
    assert (Q : (q < length d)%nat) by (apply nth_error_Some; congruence). split; [|exact Q].
    pose proof (nth_error_In _ _ Hg) as Ig. rewrite Forall_forall in W. destruct (W g Ig) as [_ Wg].
    rewrite Forall_forall in Wg. destruct (Wg _ Hd) as [Nd Fd]. cbn [snd] in Nd, Fd.
    assert (I : incl (map fst d) (rank1_origs fused0)).
    { intros o Io. apply in_map_iff in Io as ([o' idxs] & <- & Io). cbn [fst].
      rewrite Forall_forall in Fd. pose proof (Fd _ Io) as NE. cbn [snd] in NE.
      destruct idxs as [|i idxs]; [congruence|].
      apply In_nth_error in Io as [q' Hq'].
      pose proof (slots_intro sorted k g h d q' o' (i :: idxs) i Hg Hd Hq' (or_introl eq_refl)) as S.
      destruct (slot_is_item _ _ _ S) as (a0 & H0 & R & _ & Eo).
      unfold rank1_origs. apply (Junctions.dedup_in _ str_eqb_eq). apply in_flat_map.
      exists a0. split; [eapply nth_error_In; exact H0|]. unfold is_rank1.
      rewrite (proj2 (Z.eqb_eq _ _) R), (orig_of_rank1 i a0 H0 R), <- Eo. left. reflexivity. }
    pose proof (NoDup_incl_length Nd I) as L. rewrite map_length in L.
    destruct NS as [_ B]. lia.
  Qed.
End Renaming.

(* the three kinds of new names never meet *)
Lemma str_of_Z_first_digit n x y : 0 <= n -> first_not_digit y = true -> str_of_Z n ++ x <> y.
Proof.
  intros Hn F E. destruct (str_of_Z_digits n Hn) as [NE D].
  destruct (str_of_Z n) as [|c t]; [congruence|]. cbn [forallb] in D. apply andb_prop in D as [D _].
  subst y. cbn in F. rewrite D in F. discriminate.
Qed.

Lemma chr_vs_tag prefix k (L sfx y : str) : first_not_digit y = true ->
  (prefix ++ str_of_Z (Z.of_nat k + 1)) ++ L ++ sfx <> prefix ++ y.
Proof.
  intros F E. rewrite <- app_assoc in E. apply app_inv_head in E.
  assert (Hk : 0 <= Z.of_nat k + 1) by lia.
  exact (str_of_Z_first_digit _ _ _ Hk F E).
Qed.

Lemma prefixed_vs_other prefix (x y : str) : starts_with prefix y = false -> prefix ++ x <> y.
Proof. intros F E. subst y. rewrite starts_with_app in F. discriminate. Qed.

Theorem renaming_keeps_distinct : forall prefix fused0 fused,
  namespace_ok prefix fused0 -> asm_distinct fused0 ->
  name_chromosomes prefix (map (prefix_rank2 prefix) fused0) (chr_items (map (prefix_rank2 prefix) fused0))
    = Ok fused ->
  asm_distinct fused.
Proof.
  intros prefix fused0 fused NS AD H.
  destruct (name_chromosomes_as_ops _ _ _ _ H) as (sorted & EQ & W & P).
  intros i j a' b' Hij Ha Hb K.
  assert (Li : (i < length fused0)%nat)
    by (rewrite <- (fused_length prefix fused0 fused sorted EQ); apply nth_error_Some; congruence).
  assert (Lj : (j < length fused0)%nat)
    by (rewrite <- (fused_length prefix fused0 fused sorted EQ); apply nth_error_Some; congruence).
  destruct (nth_error fused0 i) as [a0|] eqn:Ha0; [|apply nth_error_None in Ha0; lia].
  destruct (nth_error fused0 j) as [b0|] eqn:Hb0; [|apply nth_error_None in Hb0; lia].
  destruct (name_after prefix fused0 fused sorted NS EQ P i a0 Ha0) as (a'' & Ha'' & Ka & Na).
  destruct (name_after prefix fused0 fused sorted NS EQ P j b0 Hb0) as (b'' & Hb'' & Kb & Nb).
  rewrite Ha in Ha''. injection Ha'' as <-. rewrite Hb in Hb''. injection Hb'' as <-.
  assert (K0 : asm_k a0 = asm_k b0) by congruence.
  pose proof (AD i j a0 b0 Hij Ha0 Hb0 K0) as D0.
  destruct Na as [ka ga da qa ia ca oa sa Ra Hga Hda Hqa Hna Hsa Ea | Ra Ea Fa | Ra Ea Fa],
           Nb as [kb gb db qb ib cb ob sb Rb Hgb Hdb Hqb Hnb Hsb Eb | Rb Eb Fb | Rb Eb Fb];
    rewrite Ea, Eb.
  - (* two numbered chromosomes *)
    intro E. rewrite <- !app_assoc in E. apply app_inv_head in E.
    destruct (slot_bound prefix fused0 sorted NS W P _ _ _ _ _ _ Hga Hda Hqa) as [Ba Qa].
    destruct (slot_bound prefix fused0 sorted NS W P _ _ _ _ _ _ Hgb Hdb Hqb) as [Bb Qb].
    assert (NDa : no_digit_first (letter qa (length da) ++ sa)).
    { destruct (letter_no_digit qa (length da) Ba sa) as [X|X]; [exact X|].
      rewrite X. apply unloc_sfx_no_digit_first, Hsa. }
    assert (NDb : no_digit_first (letter qb (length db) ++ sb)).
    { destruct (letter_no_digit qb (length db) Bb sb) as [X|X]; [exact X|].
      rewrite X. apply unloc_sfx_no_digit_first, Hsb. }
    assert (Pa : 0 <= Z.of_nat ka + 1) by lia. assert (Pb : 0 <= Z.of_nat kb + 1) by lia.
    destruct (digits_split _ _ _ _ (proj2 (str_of_Z_digits _ Pa)) (proj2 (str_of_Z_digits _ Pb)) NDa NDb E)
      as [E1 E2].
    apply str_of_Z_inj in E1. assert (ka = kb) by lia. subst kb.
    rewrite Hga in Hgb. injection Hgb as <-.
    rewrite K0 in Hda.
    assert (da = db).
    { rewrite Forall_forall in W. destruct (W ga (nth_error_In _ _ Hga)) as [Ng _].
      exact (nodup_keys_same_value ga _ da db Ng Hda Hdb). }
    subst db. destruct (letter_sfx_split _ _ _ _ _ _ Hsa Hsb E2) as [E3 E4].
    assert (qa = qb) by (eapply letter_inj; eassumption). subst qb.
    rewrite Hqa in Hqb. injection Hqb as <- <- _. apply D0. rewrite Hna, Hnb, E4. reflexivity.
  - apply chr_vs_tag. exact Fb.
  - rewrite <- app_assoc. apply prefixed_vs_other. exact Fb.
  - apply not_eq_sym, chr_vs_tag. exact Fa.
  - intro E. apply app_inv_head in E. contradiction.
  - apply prefixed_vs_other. exact Fb.
  - rewrite <- app_assoc. apply not_eq_sym, prefixed_vs_other. exact Fa.
  - apply not_eq_sym, prefixed_vs_other. exact Fa.
  - exact D0.
Qed.

(* ------------------------------------------------ 3g. the output assemblies *)
Lemma mapM_In {A B} (f : A -> res B) : forall l l', mapM f l = Ok l' ->
  forall y, In y l' -> exists x, In x l /\ f x = Ok y.
Proof.
  induction l as [|x l IH]; intros l' H y Iy; cbn [mapM] in H.
  - injection H as <-. destruct Iy.
  - destruct (f x) as [y0|] eqn:E; cbn [bind] in H; [|discriminate].
    destruct (mapM f l) as [ys|]; cbn [bind] in H; [|discriminate]. injection H as <-.
    destruct Iy as [<-|Iy]; [exists x; split; [left; reflexivity | exact E]|].
    destruct (IH ys eq_refl y Iy) as (x' & I & E'). exists x'. split; [right; exact I | exact E'].
Qed.

(* the stages of assemblies_with_scaffolds_fused, made explicit *)
Lemma assemblies_stages : forall c g prefix input rs o,
  assemblies_with_scaffolds_fused c g prefix input rs = Ok o ->
  exists fused0 fused,
    fuse_all c g rs = Ok fused0
    /\ name_chromosomes prefix (map (prefix_rank2 prefix) fused0) (chr_items (map (prefix_rank2 prefix) fused0))
       = Ok fused
    /\ forall a, In a (out_asms o) -> exists cur scs,
         In (oa_key a, (cur, scs)) (fold_left group_step fused []) /\ Permutation (oa_scaffolds a) scs.
Proof.
  intros c g prefix input rs o H. unfold assemblies_with_scaffolds_fused in H.
  destruct (fuse_all c g rs) as [fused0|]; cbn [bind] in H; [|discriminate].
  change (map (fun sc => if (sc_rank sc =? 2) && negb (starts_with prefix (sc_name sc))
                         then with_name sc (prefix ++ sc_name sc) else sc) fused0)
    with (map (prefix_rank2 prefix) fused0) in H.
  set (fused1 := map (prefix_rank2 prefix) fused0) in *.
  change (flat_map _ (combine (seq 0 (length fused1)) fused1)) with (chr_items fused1) in H.
  destruct (name_chromosomes prefix fused1 (chr_items fused1)) as [fused|] eqn:NC; cbn [bind] in H; [|discriminate].
  match type of H with context [mapM ?f ?a0] =>
    destruct (mapM f a0) as [asms|] eqn:MM end; cbn [bind] in H; [|discriminate].
  destruct (make_stats _ _ _) as [[[breaks joins] per]|]; cbn [bind] in H; [|discriminate].
  injection H as <-. cbn [out_asms].
  exists fused0, fused. split; [reflexivity|]. split; [exact NC|].
  intros a Ia. destruct (mapM_In _ _ _ MM a Ia) as ([k [cur scs]] & I & E).
  destruct (smart_sort_total sc_rank sc_name scs) as (r & Er & Pr). rewrite Er in E. cbn [bind] in E.
  injection E as <-. cbn [oa_key oa_scaffolds]. exists cur, scs. split; [exact I | exact Pr].
Qed.

(* item 3, on the second half of the pipeline: for ANY run state, under the
   hypotheses on the scaffolds that come out of the fusion *)
Theorem names_nodup_after_renaming_tail : forall g prefix input rs o fused0,
  assemblies_with_scaffolds_fused repaired g prefix input rs = Ok o ->
  fuse_all repaired g rs = Ok fused0 ->
  Forall labels_normal fused0 -> no_tag_hap_clash fused0 -> tagged_same_hap fused0 ->
  namespace_ok prefix fused0 ->
  forall a, In a (out_asms o) -> NoDup (map sc_name (oa_scaffolds a)).
Proof.
  intros g prefix input rs o fused0 H HF LN NC TS NS a Ia.
  destruct (assemblies_stages _ _ _ _ _ _ H) as (fused0' & fused & HF' & NCh & G).
  rewrite HF in HF'. injection HF' as <-.
  destruct (G a Ia) as (cur & scs & I & Pm).
  apply (Permutation_NoDup (Permutation_sym (Permutation_map sc_name Pm))).
  rewrite (grouping_spec fused _ cur scs I). apply asm_distinct_filter_nodup.
  apply (renaming_keeps_distinct prefix fused0 fused NS); [|exact NCh].
  apply asm_distinct_before_renaming; auto. exact (fuse_keys_nodup g rs fused0 HF).
Qed.

(* ... and for a whole run *)
Theorem names_nodup_after_renaming : forall g prefix bpt input pretext o,
  remap repaired g prefix bpt input pretext = Ok o ->
  (forall rs fused0, remap_to_input repaired g prefix bpt input pretext = Ok rs ->
     fuse_all repaired g rs = Ok fused0 ->
     Forall labels_normal fused0 /\ no_tag_hap_clash fused0 /\ tagged_same_hap fused0
     /\ namespace_ok prefix fused0) ->
  forall a, In a (out_asms o) -> NoDup (map sc_name (oa_scaffolds a)).
Proof.
  intros g prefix bpt input pretext o H Hyp a Ia. unfold remap in H.
  destruct (remap_to_input repaired g prefix bpt input pretext) as [rs|] eqn:R; cbn [bind] in H; [|discriminate].
  destruct (assemblies_stages _ _ _ _ _ _ H) as (fused0 & _ & HF & _).
  destruct (Hyp rs fused0 eq_refl HF) as (LN & NC & TS & NS).
  exact (names_nodup_after_renaming_tail g prefix input rs o fused0 H HF LN NC TS NS a Ia).
Qed.

(* ------------------------------------- 3h. the hypotheses can be computed *)
Definition labels_normal_b (sc : scaffold) : bool :=
  negb (opt_eqb str_eqb (sc_tag sc) (Some [])) && negb (opt_eqb str_eqb (sc_hap sc) (Some [])).
Definition no_tag_hap_clash_b (l : list scaffold) : bool :=
  forallb (fun s1 => forallb (fun s2 =>
    negb (truthy (sc_tag s1) && negb (truthy (sc_tag s2)) && opt_eqb str_eqb (sc_hap s2) (sc_tag s1))) l) l.
Definition tagged_same_hap_b (l : list scaffold) : bool :=
  forallb (fun s1 => forallb (fun s2 =>
    implb (opt_eqb str_eqb (sc_tag s1) (sc_tag s2) && negb (opt_eqb str_eqb (sc_tag s1) None)
           && str_eqb (sc_name s1) (sc_name s2))
          (opt_eqb str_eqb (sc_hap s1) (sc_hap s2))) l) l.
Definition namespace_ok_b (prefix : str) (l : list scaffold) : bool :=
  forallb (name_ok prefix) l && (length (rank1_origs l) <=? 191)%nat.
Definition unique_names_hyps_b (prefix : str) (l : list scaffold) : bool :=
  forallb labels_normal_b l && no_tag_hap_clash_b l && tagged_same_hap_b l && namespace_ok_b prefix l.

Lemma opt_str_eqb_false a b : opt_eqb str_eqb a b = false <-> a <> b.
Proof.
  split.
  - intros H E. apply opt_str_eqb_eq in E. congruence.
  - intro N. destruct (opt_eqb str_eqb a b) eqn:E; [apply opt_str_eqb_eq in E; contradiction | reflexivity].
Qed.

Lemma unique_names_hyps_b_sound prefix l : unique_names_hyps_b prefix l = true ->
  Forall labels_normal l /\ no_tag_hap_clash l /\ tagged_same_hap l /\ namespace_ok prefix l.
Proof.
  unfold unique_names_hyps_b. rewrite !andb_true_iff. intros [[[H1 H2] H3] H4]. repeat split.
  - apply Forall_forall. intros sc I. rewrite forallb_forall in H1. specialize (H1 sc I).
    unfold labels_normal_b in H1. apply andb_prop in H1 as [A B].
    apply negb_true_iff in A, B. split; apply opt_str_eqb_false; assumption.
  - intros s1 s2 I1 I2 T1 T2 E. unfold no_tag_hap_clash_b in H2. rewrite forallb_forall in H2.
    specialize (H2 s1 I1). rewrite forallb_forall in H2. specialize (H2 s2 I2).
    rewrite T1, T2, (proj2 (opt_str_eqb_eq _ _) E) in H2. discriminate.
  - intros s1 s2 I1 I2 Et Nt En. unfold tagged_same_hap_b in H3. rewrite forallb_forall in H3.
    specialize (H3 s1 I1). rewrite forallb_forall in H3. specialize (H3 s2 I2).
    rewrite (proj2 (opt_str_eqb_eq _ _) Et), (proj2 (opt_str_eqb_false _ _) Nt),
      (proj2 (str_eqb_eq _ _) En) in H3.
    cbn in H3. apply opt_str_eqb_eq. exact H3.
  - unfold namespace_ok_b in H4. apply andb_prop in H4 as [A _]. exact A.
  - unfold namespace_ok_b in H4. apply andb_prop in H4 as [_ B]. apply Nat.leb_le. exact B.
Qed.

(* the scaffolds that come out of the fusion in a run, [] if the run fails *)
Definition fused_of_run (g : gap) (prefix : str) (bpt : Z * Z)
           (input pretext : list (str * list row)) : list scaffold :=
  match remap_to_input repaired g prefix bpt input pretext with
  | Ok rs => match fuse_all repaired g rs with Ok f => f | Err _ => [] end
  | Err _ => []
  end.

Corollary names_nodup_checked : forall g prefix bpt input pretext o,
  remap repaired g prefix bpt input pretext = Ok o ->
  unique_names_hyps_b prefix (fused_of_run g prefix bpt input pretext) = true ->
  forall a, In a (out_asms o) -> NoDup (map sc_name (oa_scaffolds a)).
Proof.
  intros g prefix bpt input pretext o H C. apply (names_nodup_after_renaming _ _ _ _ _ _ H).
  intros rs fused0 R F. unfold fused_of_run in C. rewrite R, F in C.
  apply unique_names_hyps_b_sound. exact C.
Qed.

(* ========================================================= 4. non-vacuity *)
(* two painted chromosomes (Scaffold_1 with an unloc), a haplotig, a
   contaminant and a scaffold left over from the input *)
Definition nv_input : list (str * list row) :=
  [(s "scaffold_1", [exF (s "c1") 1 5000 []; RG ex_gap; exF (s "c2") 1 800 []]);
   (s "scaffold_2", [exF (s "c3") 1 9000 []]);
   (s "scaffold_3", [exF (s "c4") 1 700 []]);
   (s "scaffold_4", [exF (s "c5") 1 600 []]);
   (s "scaffold_5", [exF (s "c6") 1 300 []])].
Definition nv_pretext : list (str * list row) :=
  [(s "Scaffold_1", [exF (s "scaffold_1") 1 5000 [s "Painted"]; RG ex_gap;
                     exF (s "scaffold_1") 5201 6000 [s "Painted"; s "Unloc"]]);
   (s "Scaffold_2", [exF (s "scaffold_2") 1 9000 [s "Painted"]]);
   (s "Scaffold_3", [exF (s "scaffold_3") 1 700 [s "Haplotig"]]);
   (s "Scaffold_4", [exF (s "scaffold_4") 1 600 [s "Contaminant"]])].

Example unique_names_example :
  let r := remap repaired ex_gap (s "SUPER_") (10, 1) nv_input nv_pretext in
  names_of r = [(None, [s "SUPER_1"; s "SUPER_2"; s "SUPER_2_unloc_1"; s "scaffold_5"]);
                (Some (s "Haplotig"), [s "H_1"]);
                (Some (s "Contaminant"), [s "scaffold_4"])]
  /\ map sc_name (fused_of_run ex_gap (s "SUPER_") (10, 1) nv_input nv_pretext)
     = [s "Scaffold_1"; s "Scaffold_1_unloc_1"; s "Scaffold_2"; s "H_1"; s "scaffold_4"; s "scaffold_5"]
  /\ unique_names_hyps_b (s "SUPER_") (fused_of_run ex_gap (s "SUPER_") (10, 1) nv_input nv_pretext) = true.
Proof. vm_compute. repeat split; reflexivity. Qed.

(* the theorem applied to the example (not by computation on the output) *)
Example unique_names_example_by_theorem : forall o,
  remap repaired ex_gap (s "SUPER_") (10, 1) nv_input nv_pretext = Ok o ->
  forall a, In a (out_asms o) -> NoDup (map sc_name (oa_scaffolds a)).
Proof.
  intros o H. apply (names_nodup_checked _ _ _ _ _ _ H). vm_compute. reflexivity.
Qed.

(* the hypotheses fail, as they must, on the runs with repeated names *)
Example hyps_fail_on_duplicates :
  unique_names_hyps_b (s "SUPER_") (fused_of_run ex_gap (s "SUPER_") (10, 1) dup_input dup_pretext) = false
  /\ tagged_same_hap_b (fused_of_run ex_gap (s "SUPER_") (10, 1) dup_input dup_pretext) = false
  /\ tagged_same_hap_b (fused_of_run ex_gap (s "SUPER_") (10, 1) dupX_input dupX_pretext) = false.
Proof. vm_compute. repeat split; reflexivity. Qed.

(* ============================ 5. from the input and the map to the fusion *)
(* ------------------------------------------ 5a. what keeps the labels *)
Definition labs := (str * option str * option str * Z * option str)%type.
Definition o_labs (r : ovr) : labs := (o_name r, o_tag r, o_hap r, o_rank r, o_orig r).
Definition sc_labs (sc : scaffold) : labs := (sc_name sc, sc_tag sc, sc_hap sc, sc_rank sc, sc_orig sc).

Ltac dm' H :=
  match type of H with
  | context [match ?x with _ => _ end] => destruct x eqn:?
  end.
Ltac res_inv H := unfold bind in H; repeat (dm' H; try discriminate).

Lemma discard_start_labs r r' : discard_start r = Ok r' -> o_labs r' = o_labs r.
Proof. unfold discard_start. intro H. res_inv H. all: injection H as <-; reflexivity. Qed.

Lemma discard_end_labs r r' : discard_end r = Ok r' -> o_labs r' = o_labs r.
Proof. unfold discard_end. intro H. res_inv H. all: injection H as <-; reflexivity. Qed.

Lemma trim_large_labs r e r' : trim_large_overhangs r e = Ok r' -> o_labs r' = o_labs r.
Proof.
  unfold trim_large_overhangs. intro H.
  destruct ((zlen (o_rows r) =? 1) && (f_len (o_bait r) >? e)); [injection H as <-; reflexivity|].
  unfold bind in H.
  match type of H with match ?x with _ => _ end = _ => destruct x as [r1|] eqn:E1; [|discriminate] end.
  assert (L1 : o_labs r1 = o_labs r).
  { res_inv E1; try (injection E1 as <-; reflexivity). apply discard_start_labs in E1. exact E1. }
  rewrite <- L1. res_inv H; try (injection H as <-; reflexivity).
  apply discard_end_labs in H. exact H.
Qed.

Lemma trim_fragment_labs r f ks ke new r' : trim_fragment r f ks ke = Ok (new, r') -> o_labs r' = o_labs r.
Proof. unfold trim_fragment. intro H. res_inv H. all: injection H as _ <-; reflexivity. Qed.

Lemma get_ovr_nth st id r : get_ovr st id = Ok r -> nth_error st (Z.to_nat id) = Some r.
Proof. unfold get_ovr. destruct (nth_error st (Z.to_nat id)); [intros [= ->]; reflexivity | discriminate]. Qed.

Lemma put_same_labs {B} (f : ovr -> B) st id r r' :
  get_ovr st id = Ok r -> f r' = f r -> map f (put_ovr st id r') = map f st.
Proof. intros G E. unfold put_ovr. eapply RemapTail.map_set_nth_same; [apply get_ovr_nth; exact G | exact E]. Qed.

Lemma p_apply_labs st p st' : p_apply st p = Ok st' -> map o_labs st' = map o_labs st.
Proof.
  unfold p_apply. intro H. unfold bind in H.
  destruct (get_ovr st (pr_rid p)) as [r|] eqn:G; [|discriminate].
  destruct (match pr_kind p with PStart => discard_start r | PEnd => discard_end r end) as [r'|] eqn:D; [|discriminate].
  injection H as <-. apply (put_same_labs o_labs _ _ r r' G).
  destruct (pr_kind p); [apply discard_start_labs | apply discard_end_labs]; exact D.
Qed.

Lemma fix_one_labs err st pl st' fx : fix_one err st pl = Ok (st', fx) -> map o_labs st' = map o_labs st.
Proof.
  unfold fix_one. intro H. res_inv H.
  all: try (injection H as <- _; reflexivity).
  all: injection H as <- _; eapply p_apply_labs; eassumption.
Qed.

Lemma make_fixes_labs err : forall pls st st' fxs,
  make_fixes err st pls = Ok (st', fxs) -> map o_labs st' = map o_labs st.
Proof.
  induction pls as [|pl pls IH]; intros st st' fxs H; cbn [make_fixes] in H.
  - injection H as <- _. reflexivity.
  - unfold bind in H. destruct (fix_one err st pl) as [[st1 fx]|] eqn:E1; [|discriminate].
    destruct (make_fixes err st1 pls) as [[st2 fxs2]|] eqn:E2; [|discriminate].
    injection H as <- _. rewrite (IH _ _ _ E2). exact (fix_one_labs _ _ _ _ _ E1).
Qed.

Lemma discard_loop_labs err : forall fuel b b', discard_loop fuel err b = Ok b' ->
  map o_labs (b_store b') = map o_labs (b_store b) /\ b_added b' = b_added b /\ b_namer b' = b_namer b.
Proof.
  induction fuel as [|fuel IH]; intros b b' H; cbn [discard_loop] in H; [discriminate|].
  destruct (b_multi b) as [|k0 multi0] eqn:M; [injection H as <-; auto|].
  unfold bind in H.
  match type of H with match ?x with _ => _ end = _ => destruct x as [pls|]; [|discriminate] end.
  match type of H with match ?x with _ => _ end = _ => destruct x as [[st fixes]|] eqn:MF; [|discriminate] end.
  pose proof (make_fixes_labs _ _ _ _ _ MF) as L.
  destruct fixes as [|fx fixes]; [injection H as <-; cbn [with_store b_store b_added b_namer]; auto|].
  match type of H with match ?x with _ => _ end = _ => destruct x as [[found multi']|]; [|discriminate] end.
  destruct (IH _ _ H) as (L2 & A2 & N2). cbn [b_store b_added b_namer] in *.
  split; [congruence | auto].
Qed.

Lemma trim_all_labs c f : forall ids st i last_i st' subs,
  trim_all c st f ids i last_i = Ok (st', subs) -> map o_labs st' = map o_labs st.
Proof.
  induction ids as [|id ids IH]; intros st i last_i st' subs H; cbn [trim_all] in H.
  - injection H as <- _. reflexivity.
  - unfold bind in H. destruct (get_ovr st id) as [r|] eqn:G; [|discriminate].
    match type of H with match ?x with _ => _ end = _ => destruct x as [[new r']|] eqn:T; [|discriminate] end.
    match type of H with match ?x with _ => _ end = _ => destruct x as [[st2 rest]|] eqn:R; [|discriminate] end.
    injection H as <- _. cbn [fst]. rewrite (IH _ _ _ _ _ R).
    apply (put_same_labs o_labs _ _ r r' G). exact (trim_fragment_labs _ _ _ _ _ _ T).
Qed.

Lemma cut_fragments_labs c b k b' : cut_fragments c b k = Ok b' ->
  map o_labs (b_store b') = map o_labs (b_store b) /\ b_added b' = b_added b /\ b_namer b' = b_namer b.
Proof.
  unfold cut_fragments. intro H.
  destruct (aget key_eqb (b_found b) k) as [[f ids]|]; [|discriminate]. unfold bind in H.
  match type of H with match ?x with _ => _ end = _ => destruct x as [keyed|]; [|discriminate] end.
  match type of H with match ?x with _ => _ end = _ => destruct x as [[st subs]|] eqn:T; [|discriminate] end.
  destruct (qc_sub_fragments f subs); [|discriminate]. injection H as <-.
  cbn [b_store b_added b_namer]. split; [exact (trim_all_labs _ _ _ _ _ _ _ _ T) | auto].
Qed.

Lemma cut_remaining_labs c b b' : cut_remaining_overhangs c b = Ok b' ->
  map o_labs (b_store b') = map o_labs (b_store b) /\ b_added b' = b_added b /\ b_namer b' = b_namer b.
Proof.
  unfold cut_remaining_overhangs. intro H. unfold bind in H.
  destruct (foldM (cut_fragments c) (b_multi b) b) as [b1|] eqn:F; [|discriminate]. injection H as <-.
  cbn [b_store b_added b_namer].
  revert F. generalize (b_multi b) as ks. intro ks. revert b.
  induction ks as [|k ks IH]; intros b F; cbn [foldM] in F; [injection F as <-; auto|].
  unfold bind in F. destruct (cut_fragments c b k) as [b2|] eqn:C; [|discriminate].
  destruct (cut_fragments_labs _ _ _ _ C) as (L & A & N). destruct (IH _ F) as (L' & A' & N').
  repeat split; congruence.
Qed.

(* ------------------------------------------------- 5b. rename_results *)
Lemma mapM_get_fst store : forall ids rs,
  mapM (fun id => do r <- get_ovr store id; Ok (id, r)) ids = Ok rs -> map fst rs = ids.
Proof.
  induction ids as [|id ids IH]; intros rs H; cbn [mapM] in H.
  - injection H as <-. reflexivity.
  - destruct (get_ovr store id) as [r|]; cbn [bind] in H; [|discriminate].
    destruct (mapM _ ids) as [rs'|]; cbn [bind] in H; [|discriminate].
    injection H as <-. cbn [map fst]. rewrite (IH rs' eq_refl). reflexivity.
Qed.

Lemma put_ovr_In' st id r x : In x (put_ovr st id r) -> x = r \/ In x st.
Proof.
  unfold put_ovr. generalize (Z.to_nat id) as n. intro n. revert n.
  induction st as [|y st IH]; intros [|n] I; cbn [set_nth In] in *; try tauto.
  - destruct I as [<-|I]; auto.
  - destruct I as [<-|I]; auto. destruct (IH n I); auto.
Qed.

Lemma rename_results_spec store ids store' : rename_results store ids = Ok store' ->
  (forall B (f : ovr -> B), (forall r n, f (set_name r n) = f r) -> map f store' = map f store)
  /\ (forall x, In x store' -> In x store \/
        exists id r id2 r2, In id ids /\ get_ovr store id = Ok r /\ In id2 ids /\ get_ovr store id2 = Ok r2
                            /\ x = set_name r (o_name r2)).
Proof.
  intro H. unfold rename_results in H.
  destruct (mapM _ ids) as [rs|] eqn:M; cbn [bind] in H; [|discriminate]. injection H as <-.
  pose proof (RemapTail.mapM_get_ok _ _ _ M) as G. pose proof (mapM_get_fst _ _ _ M) as Fi.
  rewrite Forall_forall in G.
  set (PP := fun p : (rid * ovr) * str =>
               get_ovr store (fst (fst p)) = Ok (snd (fst p)) /\ In (fst (fst p)) ids
               /\ exists id2 r2, In id2 ids /\ get_ovr store id2 = Ok r2 /\ snd p = o_name r2).
  assert (F : Forall PP (rename_by_size rs (fun p => o_name (snd p)) (fun p => o_length (snd p)))).
  { apply Forall_forall. intros [[id r] n] I. unfold rename_by_size in I.
    pose proof (in_combine_l _ _ _ _ I) as I1. pose proof (in_combine_r _ _ _ _ I) as I2.
    apply (Permutation_in _ (sort_desc_perm _ rs)) in I1.
    apply in_map_iff in I2 as ([id2 r2] & <- & I2).
    unfold PP. cbn [fst snd]. split; [exact (G _ I1)|]. split; [rewrite <- Fi; apply (in_map fst) in I1; exact I1|].
    exists id2, r2. split; [rewrite <- Fi; apply (in_map fst) in I2; exact I2|]. split; [exact (G _ I2) | reflexivity]. }
  revert F. generalize (rename_by_size rs (fun p => o_name (snd p)) (fun p => o_length (snd p))). intros pairs F.
  clear M G Fi rs.
  assert (K : forall cur,
    (forall B (f : ovr -> B), (forall r n, f (set_name r n) = f r) -> map f cur = map f store) ->
    (forall x, In x cur -> In x store \/
        exists id r id2 r2, In id ids /\ get_ovr store id = Ok r /\ In id2 ids /\ get_ovr store id2 = Ok r2
                            /\ x = set_name r (o_name r2)) ->
    let fin := fold_left (fun st '((id, r), n) => put_ovr st id (set_name r n)) pairs cur in
    (forall B (f : ovr -> B), (forall r n, f (set_name r n) = f r) -> map f fin = map f store)
    /\ (forall x, In x fin -> In x store \/
        exists id r id2 r2, In id ids /\ get_ovr store id = Ok r /\ In id2 ids /\ get_ovr store id2 = Ok r2
                            /\ x = set_name r (o_name r2))).
  { induction F as [|[[id r] n] pairs Hp F IH]; intros cur C1 C2; cbn [fold_left]; [split; assumption|].
    destruct Hp as (Hg & Hi & id2 & r2 & Hi2 & Hg2 & Hn). cbn [fst snd] in *. apply IH.
    - intros B f Hf. unfold put_ovr. rewrite RemapTail.map_set_nth, (C1 B f Hf), Hf.
      apply RemapTail.set_nth_same. rewrite nth_error_map, (get_ovr_nth _ _ _ Hg). reflexivity.
    - intros x I. apply put_ovr_In' in I as [->|I]; [|exact (C2 x I)].
      right. exists id, r, id2, r2. subst n. auto. }
  apply K; [reflexivity | auto].
Qed.

(* ----------------------------------------------- 5c. make_scaffold_name *)
Lemma cls_chr_looks tag : cls tag = CChr -> looks_like_chr_name tag = true.
Proof.
  unfold cls. destruct tag as [|c t]; [discriminate|].
  destruct (str_eqb (c :: t) (s "Painted")); [discriminate|].
  destruct (str_eqb (c :: t) (s "Target")); [discriminate|].
  destruct (str_eqb (c :: t) (s "Primary")); [discriminate|].
  destruct (looks_like_chr_name (c :: t)); [reflexivity|].
  destruct (negb (mem_str (c :: t) other_known_tags)); discriminate.
Qed.

Lemma cls_painted tag : cls tag = CPainted -> tag = s "Painted".
Proof.
  unfold cls. destruct tag as [|c t]; [discriminate|].
  destruct (str_eqb (c :: t) (s "Painted")) eqn:E; [intros _; apply str_eqb_eq; exact E|].
  destruct (str_eqb (c :: t) (s "Target")); [discriminate|].
  destruct (str_eqb (c :: t) (s "Primary")); [discriminate|].
  destruct (looks_like_chr_name (c :: t)); [discriminate|].
  destruct (negb (mem_str (c :: t) other_known_tags)); discriminate.
Qed.

Definition scan_inv (S : list str) (st : tagscan) : Prop :=
  ts_hap st <> Some [] /\ lc_ok (ts_lc st) /\ (ts_painted st = true -> In (s "Painted") S)
  /\ ((ts_name st = None /\ ts_rank st = None)
      \/ exists n, ts_name st = Some n /\ ts_rank st = Some 2 /\ In n S /\ looks_like_chr_name n = true).

Lemma scan_tag_inv S st tag st' : In tag S -> scan_inv S st -> scan_tag st tag = Ok st' -> scan_inv S st'.
Proof.
  intros I (H1 & H2 & H3 & H4) H. rewrite scan_tag_cls in H.
  destruct (cls tag) eqn:C; cbn [scan_cls] in H.
  - injection H as <-. cbn. repeat split; auto. intros _. rewrite <- (cls_painted _ C). exact I.
  - injection H as <-. cbn. repeat split; auto.
  - injection H as <-. cbn. repeat split; auto.
  - assert (K : scan_inv S (mkScan (Some tag) (ts_hap st) (ts_painted st) (Some 2) (ts_primary st) (ts_target st) (ts_lc st))).
    { cbn. repeat split; auto. right. exists tag. repeat split; auto. apply cls_chr_looks, C. }
    destruct (ts_name st) as [n|]; [destruct (negb (str_eqb tag n)); [discriminate|]|]; injection H as <-; exact K.
  - destruct (truthy (ts_hap st)); [discriminate|].
    destruct (get_set_haplotype (ts_lc st) tag) as [h lc] eqn:G. injection H as <-.
    destruct (get_set_haplotype_ok _ _ _ _ H2 (cls_hap_nonempty _ C) G) as [Hh Hl].
    cbn. repeat split; auto. intro X. injection X as X. contradiction.
  - injection H as <-. repeat split; auto.
Qed.

Lemma scan_fold_inv S : forall tags st st', incl tags S -> scan_inv S st ->
  foldM scan_tag tags st = Ok st' -> scan_inv S st'.
Proof.
  induction tags as [|t tags IH]; intros st st' I V H; cbn [foldM] in H.
  - injection H as <-. exact V.
  - unfold bind in H. destruct (scan_tag st t) as [st1|] eqn:E; [|discriminate].
    apply (IH st1 st'); [intros x Ix; apply I; right; exact Ix | | exact H].
    eapply scan_tag_inv; [apply I; left; reflexivity | exact V | exact E].
Qed.

Lemma msn_spec nm pname rows tags nm' : lc_ok (nm_hap_lc nm) ->
  make_scaffold_name nm pname rows tags = Ok nm' ->
  lc_ok (nm_hap_lc nm') /\ nm_cur_hap nm' <> Some []
  /\ nm_hap_n nm' = nm_hap_n nm /\ nm_hap_scaffolds nm' = nm_hap_scaffolds nm
  /\ nm_unloc_n nm' = 0 /\ nm_unloc_scaffolds nm' = []
  /\ exists name, nm_cur_name nm' = Some name
       /\ ((In name (eff_tags rows tags) /\ looks_like_chr_name name = true /\ nm_cur_rank nm' = 2)
           \/ (name = pname /\ nm_cur_rank nm' = 1 /\ In (s "Painted") (eff_tags rows tags))
           \/ (first_row_name rows = Ok name /\ nm_cur_rank nm' = 3)).
Proof.
  intros L H. pose proof (make_scaffold_name_lc_ok _ _ _ _ _ L H) as L'.
  rewrite make_scaffold_name_eq in H. unfold bind in H.
  destruct (foldM scan_tag (eff_tags rows tags) (scan0 nm)) as [sc|] eqn:E; [|discriminate].
  assert (V0 : scan_inv (eff_tags rows tags) (scan0 nm)).
  { unfold scan0. cbn. repeat split; auto; discriminate. }
  destruct (scan_fold_inv _ _ _ _ (incl_refl _) V0 E) as (V1 & V2 & V3 & V4).
  unfold finish, bind in H.
  destruct (fin_hap rows sc) as [[hap lc1]|] eqn:E1; [|discriminate].
  destruct (fin_prim nm sc hap lc1) as [[prim lc2]|] eqn:E2; [|discriminate].
  destruct (fin_name pname rows sc) as [[name rank]|] eqn:E3; [|discriminate].
  injection H as <-. cbn [nm_hap_lc nm_cur_hap nm_hap_n nm_hap_scaffolds nm_unloc_n nm_unloc_scaffolds nm_cur_name nm_cur_rank].
  assert (Hh : hap <> Some []).
  { unfold fin_hap, bind in E1. destruct (truthy (ts_hap sc)); [injection E1 as <- _; exact V1|].
    destruct (first_row_name rows) as [fn|]; [|discriminate].
    destruct (haplotype_prefix_of_name fn) as [p|] eqn:Ep; [|injection E1 as <- _; discriminate].
    destruct (get_set_haplotype (ts_lc sc) p) as [h lc] eqn:G. injection E1 as <- _.
    destruct (get_set_haplotype_ok _ _ _ _ V2 (haplotype_prefix_nonempty _ _ Ep) G) as [X _].
    intro Y. injection Y as Y. contradiction. }
  split; [exact L'|]. split.
  { destruct (truthy prim); [|exact Hh]. destruct (opt_eqb str_eqb hap prim); [discriminate | exact Hh]. }
  repeat (split; [reflexivity|]).
  exists name. split; [reflexivity|]. unfold fin_name in E3.
  destruct V4 as [[N R]|(n & N & R & I & Lk)]; rewrite N, R in E3.
  - destruct (ts_painted sc) eqn:Pt.
    + injection E3 as <- <-. right. left. auto.
    + unfold bind in E3. destruct (first_row_name rows) as [fn|]; [|discriminate].
      injection E3 as <- <-. right. right. auto.
  - injection E3 as <- <-. left. auto.
Qed.

(* -------------------------------------------------- 5d. label_scaffold *)
Lemma label_spec nm id ft st nm' l : label_scaffold nm id ft st = Ok (nm', l) ->
  nm_cur_name nm' = nm_cur_name nm /\ nm_cur_rank nm' = nm_cur_rank nm /\ nm_cur_hap nm' = nm_cur_hap nm
  /\ nm_hap_lc nm' = nm_hap_lc nm /\ lb_hap l = nm_cur_hap nm /\ lb_tag l <> Some []
  /\ let name0 := match nm_cur_name nm with Some n => n | None => [] end in
     ((nm_hap_n nm' = nm_hap_n nm /\ nm_hap_scaffolds nm' = nm_hap_scaffolds nm
       /\ nm_unloc_n nm' = nm_unloc_n nm /\ nm_unloc_scaffolds nm' = nm_unloc_scaffolds nm
       /\ lb_name l = name0 /\ (lb_rank l = 3 \/ lb_rank l = nm_cur_rank nm))
      \/ (nm_hap_n nm' = nm_hap_n nm + 1 /\ nm_hap_scaffolds nm' = nm_hap_scaffolds nm ++ [id]
          /\ nm_unloc_n nm' = nm_unloc_n nm /\ nm_unloc_scaffolds nm' = nm_unloc_scaffolds nm
          /\ lb_name l = s "H_" ++ str_of_Z (nm_hap_n nm + 1) /\ lb_rank l = 3)
      \/ (nm_hap_n nm' = nm_hap_n nm /\ nm_hap_scaffolds nm' = nm_hap_scaffolds nm
          /\ nm_unloc_n nm' = nm_unloc_n nm + 1 /\ nm_unloc_scaffolds nm' = nm_unloc_scaffolds nm ++ [id]
          /\ lb_name l = name0 ++ s "_unloc_" ++ str_of_Z (nm_unloc_n nm + 1)
          /\ (lb_rank l = 3 \/ lb_rank l = nm_cur_rank nm))).
Proof.
  unfold label_scaffold. intro H.
  set (cont := mem_str (s "Contaminant") ft || nm_target nm && negb (mem_str (s "Target") st)) in H.
  assert (T : (if cont then Some (s "Contaminant") else None) <> Some []) by (destruct cont; discriminate).
  assert (R : (if cont then 3 else nm_cur_rank nm) = 3 \/ (if cont then 3 else nm_cur_rank nm) = nm_cur_rank nm)
    by (destruct cont; auto).
  destruct (mem_str (s "FalseDuplicate") ft).
  { injection H as <- <-. cbn. repeat split; try discriminate. left. repeat split; auto. }
  destruct (mem_str (s "Haplotig") ft).
  { injection H as <- <-. cbn. repeat split; try discriminate. right. left. repeat split; auto. }
  destruct (mem_str (s "Unloc") ft).
  { destruct (negb (mem_str (s "Painted") st)); [discriminate|].
    injection H as <- <-. cbn. repeat split; auto. right. right. repeat split; auto. }
  injection H as <- <-. cbn. repeat split; auto. left. repeat split; auto.
Qed.

(* ---------------------------------------------- 5e. the invariant of the head *)

Lemma starts_with_refl x : starts_with x x = true.
Proof. rewrite <- (app_nil_r x) at 2. apply starts_with_app. Qed.

Lemma unloc_sfx_intro d : forallb is_digit d = true -> unloc_sfx (s "_unloc_" ++ d) = true.
Proof. intro H. cbn. exact H. Qed.

Lemma first_not_digit_app x y : first_not_digit x = true -> first_not_digit (x ++ y) = true.
Proof. destruct x; [discriminate | auto]. Qed.

Section HeadLabels.
  Variables (prefix : str) (pretext input : list (str * list row)).

  (* neither is a prefix of the other *)
  Definition clear (x : str) : Prop := starts_with prefix x = false /\ starts_with x prefix = false.
  Definition painted (prows : list row) : Prop := mem_str (s "Painted") (fragment_tags prows) = true.

  Lemma clear_app x y : clear x -> starts_with prefix (x ++ y) = false.
  Proof.
    unfold clear. revert x. induction prefix as [|c p IH]; intros x [H1 H2]; [discriminate|].
    destruct x as [|d x]; [discriminate|]. cbn [starts_with app] in *.
    destruct (Ascii.eqb c d) eqn:E; [|reflexivity]. cbn [andb] in *.
    rewrite Ascii.eqb_sym, E in H2. cbn [andb] in H2. apply IH. split; assumption.
  Qed.

  Definition lab_ok (l : labs) : Prop :=
    let '(name, tag, hap, rank, orig) := l in
    tag <> Some [] /\ hap <> Some [] /\ starts_with prefix name = false
    /\ (rank = 1 -> exists c o prows, orig = Some (c :: o) /\ is_upper c = true
                      /\ starts_with (c :: o) name = true /\ unloc_sfx (skipn (length (c :: o)) name) = true
                      /\ In (c :: o, prows) pretext /\ painted prows)
    /\ (rank = 2 -> first_not_digit name = true).
  Definition RL (r : ovr) : Prop := lab_ok (o_labs r).

  Definition NI (nm : namer) : Prop :=
    nm_cur_hap nm <> Some [] /\ lc_ok (nm_hap_lc nm) /\ 0 <= nm_hap_n nm /\ 0 <= nm_unloc_n nm.
  Definition CurOk (nm : namer) (pname : str) : Prop :=
    exists name0, nm_cur_name nm = Some name0 /\ clear name0
      /\ (nm_cur_rank nm = 1 -> name0 = pname /\ exists c o prows, pname = c :: o /\ is_upper c = true
                                   /\ In (pname, prows) pretext /\ painted prows)
      /\ (nm_cur_rank nm = 2 -> first_not_digit name0 = true).
  Definition SI (st : list ovr) (nm : namer) : Prop :=
    Forall RL st
    /\ forall id, In id (nm_hap_scaffolds nm) ->
         0 <= id < zlen st /\ forall r, get_ovr st id = Ok r -> o_rank r = 3.
  Definition UI (st : list ovr) (nm : namer) (pname : str) : Prop :=
    forall id, In id (nm_unloc_scaffolds nm) ->
      0 <= id < zlen st /\ forall r, get_ovr st id = Ok r ->
        exists name0 d, nm_cur_name nm = Some name0 /\ o_name r = name0 ++ s "_unloc_" ++ d
          /\ forallb is_digit d = true /\ o_orig r = Some pname
          /\ (o_rank r = 3 \/ o_rank r = nm_cur_rank nm).

  (* a name <current name>_unloc_<digits> suits every member of the current group *)
  Lemma unloc_name_ok nm pname tag hap rank name0 d :
    CurOk nm pname -> nm_cur_name nm = Some name0 -> forallb is_digit d = true ->
    tag <> Some [] -> hap <> Some [] -> (rank = 3 \/ rank = nm_cur_rank nm) ->
    lab_ok (name0 ++ s "_unloc_" ++ d, tag, hap, rank, Some pname).
  Proof.
    intros (n0 & E0 & C & C1 & C2) E D T Hh R. rewrite E in E0. injection E0 as <-.
    unfold lab_ok. split; [exact T|]. split; [exact Hh|]. split; [apply clear_app, C|]. split.
    - intro R1. destruct R as [R|R]; [lia|]. rewrite R1 in R. symmetry in R.
      destruct (C1 R) as (-> & c & o & prows & -> & U & I & Pt).
      exists c, o, prows. split; [reflexivity|]. split; [exact U|]. split; [apply starts_with_app|].
      split; [|auto]. rewrite skipn_app_exact. apply unloc_sfx_intro, D.
    - intro R2. destruct R as [R|R]; [lia|]. rewrite R2 in R. symmetry in R.
      apply first_not_digit_app, C2, R.
  Qed.

  Lemma plain_name_ok nm pname tag hap rank name0 :
    CurOk nm pname -> nm_cur_name nm = Some name0 ->
    tag <> Some [] -> hap <> Some [] -> (rank = 3 \/ rank = nm_cur_rank nm) ->
    lab_ok (name0, tag, hap, rank, Some pname).
  Proof.
    intros (n0 & E0 & C & C1 & C2) E T Hh R. rewrite E in E0. injection E0 as <-.
    unfold lab_ok. split; [exact T|]. split; [exact Hh|]. split; [exact (proj1 C)|]. split.
    - intro R1. destruct R as [R|R]; [lia|]. rewrite R1 in R. symmetry in R.
      destruct (C1 R) as (-> & c & o & prows & -> & U & I & Pt).
      exists c, o, prows. split; [reflexivity|]. split; [exact U|]. split; [apply starts_with_refl|].
      split; [|auto]. rewrite <- (app_nil_r (c :: o)) at 2. rewrite skipn_app_exact. reflexivity.
    - intro R2. destruct R as [R|R]; [lia|]. rewrite R2 in R. symmetry in R. apply C2, R.
  Qed.

  Hypothesis Hhap : clear (s "H_").

  Lemma one_bait_labels err sc_tags pname b bait b' :
    NI (b_namer b) -> CurOk (b_namer b) pname -> SI (b_store b) (b_namer b) -> UI (b_store b) (b_namer b) pname ->
    one_bait input err sc_tags pname b bait = Ok b' ->
    NI (b_namer b') /\ CurOk (b_namer b') pname /\ SI (b_store b') (b_namer b') /\ UI (b_store b') (b_namer b') pname.
  Proof.
    intros HN HC HS HU H. unfold one_bait in H. unfold bind in H.
    destruct (input_rows input (f_name bait)) as [rows|]; [|discriminate].
    destruct (find_overlaps rows (f_start bait) (f_end bait)) as [[fo|]|]; [|injection H as <-; auto|discriminate].
    destruct (label_scaffold (b_namer b) (zlen (b_store b)) (f_tags bait) sc_tags) as [[nm lab]|] eqn:EL; [|discriminate].
    destruct (trim_large_overhangs (set_labels (ovr_of_found bait fo) lab pname sc_tags) err) as [r1|] eqn:ET; [|discriminate].
    assert (EB : b_store b' = b_store b ++ [r1] /\ b_namer b' = nm).
    { destruct (o_rows r1); injection H as <-; [split; reflexivity|].
      unfold store_fragments_found. cbn [b_store b_found b_multi b_added b_namer b_cuts].
      destruct (fold_left _ _ _). split; reflexivity. }
    destruct EB as [-> ->]. clear H.
    pose proof (trim_large_labs _ _ _ ET) as L1. unfold o_labs in L1. cbn [set_labels o_name o_tag o_hap o_rank o_orig] in L1.
    injection L1 as Ln Lt Lh Lr Lo.
    destruct (label_spec _ _ _ _ _ _ EL) as (K1 & K2 & K3 & K4 & K5 & K6 & K7).
    destruct HN as (N1 & N2 & N3 & N4). destruct HS as [S1 S2].
    pose proof HC as HC'. destruct HC' as (name0 & E0 & C0 & C1 & C2).
    rewrite E0 in K7. cbv zeta in K7.
    assert (HC1 : CurOk nm pname).
    { exists name0. rewrite K1, K2. auto. }
    assert (Old : forall id, 0 <= id < zlen (b_store b) ->
              get_ovr (b_store b ++ [r1]) id = get_ovr (b_store b) id)
      by (intros; apply RemapHead.get_ovr_app; assumption).
    assert (Zl : zlen (b_store b ++ [r1]) = zlen (b_store b) + 1)
      by (unfold zlen; rewrite app_length; cbn [length]; lia).
    assert (New : get_ovr (b_store b ++ [r1]) (zlen (b_store b)) = Ok r1) by apply RemapHead.get_ovr_app_new.
    assert (Zp : 0 <= zlen (b_store b)) by (unfold zlen; lia).
    assert (RL1 : RL r1).
    { unfold RL, o_labs. rewrite Ln, Lt, Lh, Lr, Lo, K5.
      destruct K7 as [(_ & _ & _ & _ & A5 & A6)|[(_ & _ & _ & _ & A5 & A6)|(_ & _ & _ & _ & A5 & A6)]]; rewrite A5.
      - exact (plain_name_ok (b_namer b) pname _ _ _ name0 HC E0 K6 N1 A6).
      - unfold lab_ok. rewrite A6. split; [exact K6|]. split; [exact N1|].
        split; [apply clear_app, Hhap|]. split; intro; lia.
      - assert (Pn : 0 <= nm_unloc_n (b_namer b) + 1) by lia.
        exact (unloc_name_ok (b_namer b) pname _ _ _ name0 _ HC E0 (proj2 (str_of_Z_digits _ Pn)) K6 N1 A6). }
    split; [|split; [exact HC1|split]].
    - unfold NI. rewrite K3, K4.
      destruct K7 as [(A1 & _ & A3 & _)|[(A1 & _ & A3 & _)|(A1 & _ & A3 & _)]]; rewrite A1, A3; repeat split; auto; lia.
    - split; [apply Forall_app; split; [exact S1 | constructor; [exact RL1 | constructor]]|].
      intros id I.
      assert (Cases : In id (nm_hap_scaffolds (b_namer b)) \/ (id = zlen (b_store b) /\ o_rank r1 = 3)).
      { destruct K7 as [(_ & A2 & _)|[(_ & A2 & _ & _ & _ & A6)|(_ & A2 & _)]]; rewrite A2 in I; auto.
        apply in_app_or in I as [I|[<-|[]]]; auto. right. split; [reflexivity | congruence]. }
      destruct Cases as [I0|[-> R3]].
      + destruct (S2 id I0) as [B R]. split; [lia|]. rewrite (Old id B). exact R.
      + split; [lia|]. rewrite New. intros r [= <-]. exact R3.
    - intros id I.
      assert (Cases : In id (nm_unloc_scaffolds (b_namer b))
                      \/ (id = zlen (b_store b) /\ exists d, o_name r1 = name0 ++ s "_unloc_" ++ d
                            /\ forallb is_digit d = true /\ (o_rank r1 = 3 \/ o_rank r1 = nm_cur_rank (b_namer b)))).
      { destruct K7 as [(_ & _ & _ & A4 & _)|[(_ & _ & _ & A4 & _)|(_ & _ & _ & A4 & A5 & A6)]]; rewrite A4 in I; auto.
        apply in_app_or in I as [I|[<-|[]]]; auto. right. split; [reflexivity|].
        assert (Pn : 0 <= nm_unloc_n (b_namer b) + 1) by lia.
        eexists. split; [rewrite Ln; exact A5|]. split; [apply (proj2 (str_of_Z_digits _ Pn))|].
        rewrite Lr. exact A6. }
      destruct Cases as [I0|(-> & d & Dn & Dd & Dr)].
      + destruct (HU id I0) as [B R]. split; [lia|]. rewrite (Old id B). intros r G.
        destruct (R r G) as (n0 & d & Q1 & Q2 & Q3 & Q4 & Q5). exists n0, d. rewrite K1, K2. auto.
      + split; [lia|]. rewrite New. intros r [= <-]. exists name0, d. rewrite K1, K2, Lo. auto.
  Qed.

  (* ---- one Pretext scaffold *)
  Hypothesis Hpre : forall pname prows, In (pname, prows) pretext ->
    clear pname /\ exists c o, pname = c :: o /\ is_upper c = true.
  Hypothesis Hin : forall iname rows, In (iname, rows) input -> clear iname.
  Hypothesis Htag : forall pname prows f t, In (pname, prows) pretext -> In f (frags_of prows) ->
    In t (f_tags f) -> looks_like_chr_name t = true -> clear t /\ first_not_digit t = true.

  Lemma one_bait_ok_input err sc_tags orig b bait b' :
    one_bait input err sc_tags orig b bait = Ok b' -> exists rows, In (f_name bait, rows) input.
  Proof.
    unfold one_bait, bind, input_rows. intro H.
    destruct (aget str_eqb input (f_name bait)) as [rows|] eqn:E; [|discriminate].
    exists rows. apply (aget_some_in _ str_eqb_eq). exact E.
  Qed.

  Lemma SI_labs st st' nm : map o_labs st' = map o_labs st -> SI st nm -> SI st' nm.
  Proof.
    intros M [S1 S2].
    assert (Len : zlen st' = zlen st).
    { unfold zlen. f_equal. rewrite <- (map_length o_labs st'), M, map_length. reflexivity. }
    assert (Get : forall id r', get_ovr st' id = Ok r' -> exists r, get_ovr st id = Ok r /\ o_labs r = o_labs r').
    { intros id r' G. apply get_ovr_nth in G. pose proof (map_nth_error o_labs _ _ G) as G1.
      rewrite M, nth_error_map in G1. unfold get_ovr.
      destruct (nth_error st (Z.to_nat id)) as [r|]; [|discriminate]. cbn [option_map] in G1.
      exists r. split; [reflexivity | congruence]. }
    split.
    - apply Forall_forall. intros r' I. apply In_nth_error in I as [n Hn].
      pose proof (map_nth_error o_labs _ _ Hn) as G1. rewrite M, nth_error_map in G1.
      destruct (nth_error st n) as [r|] eqn:E; [|discriminate]. cbn [option_map] in G1.
      assert (G2 : o_labs r = o_labs r') by congruence.
      rewrite Forall_forall in S1. unfold RL. rewrite <- G2. apply S1. eapply nth_error_In; exact E.
    - intros id I. destruct (S2 id I) as [B R]. split; [lia|]. intros r' G.
      destruct (Get id r' G) as (r & G0 & L). specialize (R r G0).
      unfold o_labs in L. injection L as _ _ _ L _. congruence.
  Qed.

  Lemma foldM_inv' {A S} (f : S -> A -> res S) (Pr : S -> Prop) :
    (forall s a s', Pr s -> f s a = Ok s' -> Pr s') ->
    forall l s s', Pr s -> foldM f l s = Ok s' -> Pr s'.
  Proof.
    intros Hs. induction l as [|a l IH]; intros s0 s' Hp H; cbn [foldM] in H.
    - injection H as <-. exact Hp.
    - unfold bind in H. destruct (f s0 a) as [s1|] eqn:E; [|discriminate].
      eapply IH; [|exact H]. eapply Hs; eassumption.
  Qed.

  Definition OI (b : bstate) : Prop := NI (b_namer b) /\ SI (b_store b) (b_namer b).

  Lemma in_fragment_tags t prows : In t (fragment_tags prows) -> exists f, In f (frags_of prows) /\ In t (f_tags f).
  Proof.
    unfold fragment_tags. intro I. apply (proj1 (Junctions.dedup_in _ str_eqb_eq _ _)) in I.
    apply in_flat_map in I. exact I.
  Qed.

  Lemma one_pretext_scaffold_labels err b pname prows b' :
    In (pname, prows) pretext -> OI b -> one_pretext_scaffold input err b (pname, prows) = Ok b' -> OI b'.
  Proof.
    intros Ip [HN HS] H. unfold one_pretext_scaffold, bind in H.
    destruct (make_scaffold_name (b_namer b) pname prows (fragment_tags prows)) as [nm|] eqn:EM; [|discriminate].
    destruct (foldM _ (frags_of prows) (with_namer b nm)) as [b1|] eqn:EF; [|discriminate].
    destruct (rename_results (b_store b1) (nm_unloc_scaffolds (b_namer b1))) as [st|] eqn:ER; [|discriminate].
    injection H as <-.
    destruct HN as (N1 & N2 & N3 & N4).
    destruct (msn_spec _ _ _ _ _ N2 EM) as (M1 & M2 & M3 & M4 & M5 & M6 & name & M7 & M8).
    assert (ET : eff_tags prows (fragment_tags prows) = fragment_tags prows).
    { unfold eff_tags. destruct (fragment_tags prows); reflexivity. }
    rewrite ET in M8.
    assert (NI1 : NI nm) by (unfold NI; rewrite M3, M5; repeat split; auto; lia).
    assert (HC : CurOk nm pname).
    { exists name. split; [exact M7|].
      destruct M8 as [(I & Lk & R)|[(-> & R & I)|(Fr & R)]].
      - destruct (in_fragment_tags _ _ I) as (f & If & It).
        destruct (Htag _ _ _ _ Ip If It Lk) as [C F]. split; [exact C|]. split; intro; [lia | exact F].
      - destruct (Hpre _ _ Ip) as (C & c & o & E & U). split; [exact C|]. split; [|intro; lia].
        intros _. split; [reflexivity|]. exists c, o, prows. repeat split; auto.
        unfold painted, mem_str. apply existsb_exists. exists (s "Painted"). split; [exact I | apply str_eqb_refl].
      - split; [|split; intro; lia].
        unfold first_row_name in Fr. destruct prows as [|[f|gp] rest]; try discriminate. injection Fr as <-.
        cbn [frags_of flat_map app foldM] in EF. unfold bind in EF.
        destruct (one_bait input err (fragment_tags (RF f :: rest)) pname (with_namer b nm) f) as [bx|] eqn:EB; [|discriminate].
        destruct (one_bait_ok_input _ _ _ _ _ _ EB) as (rows & Ir). exact (Hin _ _ Ir). }
    assert (Inner : NI (b_namer b1) /\ CurOk (b_namer b1) pname /\ SI (b_store b1) (b_namer b1)
                    /\ UI (b_store b1) (b_namer b1) pname).
    { apply (foldM_inv' (one_bait input err (fragment_tags prows) pname)
               (fun s => NI (b_namer s) /\ CurOk (b_namer s) pname /\ SI (b_store s) (b_namer s)
                         /\ UI (b_store s) (b_namer s) pname)) with (l := frags_of prows) (s := with_namer b nm);
        [| |exact EF].
      - intros s0 a s1 (A1 & A2 & A3 & A4) E. eapply one_bait_labels; eassumption.
      - cbn [with_namer b_namer b_store]. split; [exact NI1|]. split; [exact HC|]. split.
        + destruct HS as [S1 S2]. split; [exact S1|]. rewrite M4. exact S2.
        + intros id I. rewrite M6 in I. destruct I. }
    destruct Inner as (I1 & I2 & [I3 I3'] & I4).
    destruct (rename_results_spec _ _ _ ER) as [R1 R2].
    unfold OI. cbn [with_store b_namer b_store]. split; [exact I1|].
    assert (ML : map o_rank st = map o_rank (b_store b1)) by (apply R1; reflexivity).
    split.
    - apply Forall_forall. intros x Ix. destruct (R2 x Ix) as [I0|(id & r & id2 & r2 & J1 & G1 & J2 & G2 & ->)].
      + rewrite Forall_forall in I3. exact (I3 x I0).
      + destruct (I4 id J1) as [_ Q1]. destruct (Q1 r G1) as (n0 & d & Qa & Qb & Qc & Qd & Qe).
        destruct (I4 id2 J2) as [_ Q2]. destruct (Q2 r2 G2) as (n0' & d2 & Qa' & Qb' & Qc' & _).
        rewrite Qa in Qa'. injection Qa' as <-.
        rewrite Forall_forall in I3. pose proof (I3 r (RemapHead.get_ovr_In _ _ _ G1)) as Rr.
        unfold RL, o_labs in Rr. cbn [lab_ok] in Rr. destruct Rr as (T & Hh & _).
        unfold RL, o_labs. cbn [set_name o_name o_tag o_hap o_rank o_orig]. rewrite Qb', Qd.
        exact (unloc_name_ok (b_namer b1) pname _ _ _ n0 d2 I2 Qa Qc' T Hh Qe).
    - intros id I. destruct (I3' id I) as [B R].
      assert (Len : zlen st = zlen (b_store b1)).
      { unfold zlen. f_equal. rewrite <- (map_length o_rank st), ML, map_length. reflexivity. }
      split; [lia|]. intros r' G. apply get_ovr_nth in G.
      pose proof (map_nth_error o_rank _ _ G) as G1. rewrite ML, nth_error_map in G1.
      destruct (nth_error (b_store b1) (Z.to_nat id)) as [r|] eqn:E; [|discriminate]. cbn [option_map] in G1.
      assert (G2 : o_rank r = o_rank r') by congruence.
      rewrite <- G2. apply R. unfold get_ovr. rewrite E. reflexivity.
  Qed.
End HeadLabels.

(* --------------------------------------------------- 5f. the whole head *)
Lemma number_input_names' : forall input n, map fst (number_input input n) = map fst input.
Proof.
  induction input as [|[name rows] input IH]; intro n; cbn [number_input map fst]; [reflexivity|].
  destruct (number_rows rows n) as [rows' n']. cbn [map fst]. rewrite IH. reflexivity.
Qed.

Definition PL (prefix : str) (pretext : list (str * list row)) (sc : scaffold) : Prop :=
  lab_ok prefix pretext (sc_labs sc).

(* the hypotheses on the names in the input and in the map *)
Record input_namespace_ok (prefix : str) (input pretext : list (str * list row)) : Prop := {
  (* Pretext scaffold names: Scaffold_7 -- an upper-case first letter, not comparable with the prefix *)
  ins_pretext : forall pname prows, In (pname, prows) pretext ->
    clear prefix pname /\ exists c o, pname = c :: o /\ is_upper c = true;
  (* input scaffold names *)
  ins_input : forall iname, In iname (map fst input) -> clear prefix iname;
  (* chromosome tags: not <digits><letters>, not comparable with the prefix *)
  ins_tags : forall pname prows f t, In (pname, prows) pretext -> In f (frags_of prows) ->
    In t (f_tags f) -> looks_like_chr_name t = true -> clear prefix t /\ first_not_digit t = true;
  (* the haplotig names H_<n> *)
  ins_hap : clear prefix (s "H_")
}.

Section RunLabels.
  Variables (prefix : str) (input0 pretext : list (str * list row)).
  Hypothesis INS : input_namespace_ok prefix input0 pretext.

  Let Hin n : forall iname rows, In (iname, rows) (number_input input0 n) -> clear prefix iname.
  Proof.
    intros iname rows I. apply (ins_input _ _ _ INS). rewrite <- (number_input_names' input0 n).
    apply (in_map fst) in I. exact I.
  Qed.

  Lemma pretext_fold_labels err n : forall l, incl l pretext -> forall b b',
    OI prefix pretext b -> foldM (one_pretext_scaffold (number_input input0 n) err) l b = Ok b' ->
    OI prefix pretext b'.
  Proof.
    induction l as [|[pname prows] l IH]; intros Il b b' HO H; cbn [foldM] in H.
    - injection H as <-. exact HO.
    - unfold bind in H.
      destruct (one_pretext_scaffold (number_input input0 n) err b (pname, prows)) as [b1|] eqn:E; [|discriminate].
      apply (IH (fun x Ix => Il x (or_intror Ix)) b1 b'); [|exact H].
      eapply (one_pretext_scaffold_labels prefix pretext (number_input input0 n)); try eassumption.
      + exact (ins_hap _ _ _ INS).
      + exact (ins_pretext _ _ _ INS).
      + exact (Hin n).
      + exact (ins_tags _ _ _ INS).
      + apply Il. left. reflexivity.
  Qed.

  Lemma leftovers_labels c g found : forall input nm left nm' left',
    (forall iname rows, In (iname, rows) input -> clear prefix iname) ->
    lc_ok (nm_hap_lc nm) -> Forall (PL prefix pretext) left ->
    foldM (add_missing_one c g found) input (nm, left) = Ok (nm', left') ->
    Forall (PL prefix pretext) left'.
  Proof.
    induction input as [|[name rows] input IH]; intros nm left nm' left' Hi L F H; cbn [foldM] in H.
    - injection H as _ <-. exact F.
    - unfold bind in H. destruct (add_missing_one c g found (nm, left) (name, rows)) as [[nm1 left1]|] eqn:E; [|discriminate].
      assert (K : lc_ok (nm_hap_lc nm1) /\ Forall (PL prefix pretext) left1).
      { unfold add_missing_one in E.
        destruct (missing_rows c found g rows [] 0 None) as [|r0 new_rows]; [injection E as <- <-; auto|].
        unfold bind in E. destruct (make_scaffold_name nm name (r0 :: new_rows) []) as [nm2|] eqn:EM; [|discriminate].
        injection E as <- <-. destruct (msn_spec _ _ _ _ _ L EM) as (M1 & M2 & _).
        split; [exact M1|]. apply Forall_app. split; [exact F|]. constructor; [|constructor].
        unfold PL, sc_labs, lab_ok. cbn [sc_name sc_tag sc_hap sc_rank sc_orig].
        split; [destruct (_ && _); discriminate|]. split; [exact M2|].
        split; [exact (proj1 (Hi name rows (or_introl eq_refl)))|]. split; intro; lia. }
      destruct K as [L1 F1].
      eapply (IH nm1 left1); [intros i r Ii; apply (Hi i r); right; exact Ii | exact L1 | exact F1 | exact H].
  Qed.

  Theorem remap_to_input_labels : forall c g bpt rs,
    remap_to_input c g prefix bpt input0 pretext = Ok rs ->
    Forall (RL prefix pretext) (b_store (rs_b rs)) /\ Forall (PL prefix pretext) (rs_left rs).
  Proof.
    intros c g bpt rs H. unfold remap_to_input in H.
    destruct (has_dup_names (map fst input0)); [discriminate|]. unfold bind in H.
    destruct (foldM _ pretext _) as [b1|] eqn:E1; [|discriminate].
    destruct (discard_loop _ _ b1) as [b2|] eqn:E2; [|discriminate].
    destruct (cut_remaining_overhangs c b2) as [b3|] eqn:E3; [|discriminate].
    destruct (rename_results (b_store b3) (nm_hap_scaffolds (b_namer b3))) as [st|] eqn:E4; [|discriminate].
    destruct (foldM _ (number_input input0 0) _) as [[nm' left]|] eqn:E5; [|discriminate].
    injection H as <-. cbn [rs_b rs_left with_namer with_store b_store b_namer fst snd] in *.
    assert (O1 : OI prefix pretext b1).
    { eapply (pretext_fold_labels _ 0 pretext (incl_refl _)); [|exact E1].
      split; [repeat split; try discriminate; try lia; constructor|].
      split; [constructor | intros id []]. }
    destruct (discard_loop_labs _ _ _ _ E2) as (L2 & _ & N2).
    destruct (cut_remaining_labs _ _ _ E3) as (L3 & _ & N3).
    destruct O1 as [NI1 SI1].
    assert (SI3 : SI prefix pretext (b_store b3) (b_namer b3)).
    { rewrite N3, N2. eapply SI_labs; [|exact SI1]. congruence. }
    assert (NI3 : NI (b_namer b3)) by (rewrite N3, N2; exact NI1).
    destruct SI3 as [F3 H3]. destruct (rename_results_spec _ _ _ E4) as [_ R2].
    assert (F4 : Forall (RL prefix pretext) st).
    { apply Forall_forall. intros x Ix. rewrite Forall_forall in F3.
      destruct (R2 x Ix) as [I0|(id & r & id2 & r2 & J1 & G1 & J2 & G2 & ->)]; [exact (F3 x I0)|].
      pose proof (F3 r (RemapHead.get_ovr_In _ _ _ G1)) as Rr.
      pose proof (F3 r2 (RemapHead.get_ovr_In _ _ _ G2)) as Rr2.
      destruct (H3 id J1) as [_ Rk]. specialize (Rk r G1).
      unfold RL, o_labs, lab_ok in *. cbn [set_name o_name o_tag o_hap o_rank o_orig].
      destruct Rr as (T & Hh & _). destruct Rr2 as (_ & _ & Sn & _).
      split; [exact T|]. split; [exact Hh|]. split; [exact Sn|]. split; intro; lia. }
    split; [exact F4|].
    eapply (leftovers_labels c g _ (number_input input0 0) (b_namer b3) [] nm' left);
      [exact (Hin 0) | exact (proj1 (proj2 NI3)) | constructor | exact E5].
  Qed.
End RunLabels.

(* ------------------------------------------- 5g. from the pieces to the fusion *)
Lemma mapM_get_in store : forall ids rs, mapM (get_ovr store) ids = Ok rs -> Forall (fun r => In r store) rs.
Proof.
  induction ids as [|id ids IH]; intros rs H; cbn [mapM] in H.
  - injection H as <-. constructor.
  - unfold bind in H. destruct (get_ovr store id) as [r|] eqn:G; [|discriminate].
    destruct (mapM (get_ovr store) ids) as [rs'|]; [|discriminate]. injection H as <-.
    constructor; [exact (RemapHead.get_ovr_In _ _ _ G) | apply IH; reflexivity].
Qed.

Lemma fuse_step_labs (Q : labs -> Prop) c g acc p :
  Q (sc_labs (fst p)) -> Forall (fun kb : fuse_key * scaffold => Q (sc_labs (snd kb))) acc ->
  Forall (fun kb : fuse_key * scaffold => Q (sc_labs (snd kb))) (fuse_step c g acc p).
Proof.
  intros Pp F. destruct p as [sc isr]. cbn [fst] in Pp. unfold fuse_step.
  destruct (sc_rows sc) as [|r0 rows0]; [exact F|].
  apply Forall_forall. intros e I. apply (in_aset _ fuse_key_eqb_eq) in I as [I| ->].
  - rewrite Forall_forall in F. exact (F e I).
  - cbn [snd]. unfold sc_labs. cbn [sc_name sc_tag sc_hap sc_rank sc_orig].
    match goal with |- context [aget fuse_key_eqb acc ?k] => destruct (aget fuse_key_eqb acc k) as [b|] eqn:G end.
    + apply (aget_some_in _ fuse_key_eqb_eq) in G. rewrite Forall_forall in F. exact (F _ G).
    + exact Pp.
Qed.

Lemma fuse_fold_labs (Q : labs -> Prop) c g : forall pieces acc,
  Forall (fun p : scaffold * bool => Q (sc_labs (fst p))) pieces ->
  Forall (fun kb : fuse_key * scaffold => Q (sc_labs (snd kb))) acc ->
  Forall (fun kb : fuse_key * scaffold => Q (sc_labs (snd kb))) (fold_left (fuse_step c g) pieces acc).
Proof.
  induction pieces as [|p pieces IH]; intros acc Fp Fa; cbn [fold_left]; [exact Fa|].
  inversion Fp as [|? ? P1 P2]; subst. apply IH; [exact P2|]. apply fuse_step_labs; assumption.
Qed.

(* every fused scaffold has the labels (name, tag, haplotype, rank, original
   name) of one of the pieces *)
Lemma fuse_all_labs (Q : labs -> Prop) c g rs fused :
  Forall (fun r => Q (o_labs r)) (b_store (rs_b rs)) -> Forall (fun sc => Q (sc_labs sc)) (rs_left rs) ->
  fuse_all c g rs = Ok fused -> Forall (fun sc => Q (sc_labs sc)) fused.
Proof.
  intros FR FL H. unfold fuse_all, bind in H.
  destruct (mapM (get_ovr (b_store (rs_b rs))) (b_added (rs_b rs))) as [results|] eqn:M; [|discriminate].
  injection H as <-. apply Forall_map.
  apply fuse_fold_labs; [|constructor].
  apply Forall_app. split; apply Forall_map.
  - pose proof (mapM_get_in _ _ _ M) as I. rewrite Forall_forall in *. intros r Ir.
    cbn [piece_of_result fst]. exact (FR r (I r Ir)).
  - cbn [fst]. exact FL.
Qed.

Lemma fuse_all_PL prefix pretext c g rs fused :
  Forall (RL prefix pretext) (b_store (rs_b rs)) -> Forall (PL prefix pretext) (rs_left rs) ->
  fuse_all c g rs = Ok fused -> Forall (PL prefix pretext) fused.
Proof. exact (fuse_all_labs (lab_ok prefix pretext) c g rs fused). Qed.

Lemma PL_name_ok prefix pretext sc : PL prefix pretext sc -> labels_normal sc /\ name_ok prefix sc = true.
Proof.
  unfold PL, sc_labs, lab_ok. intros (T & Hh & S & R1 & R2). split; [split; assumption|].
  unfold name_ok. destruct (sc_rank sc =? 1) eqn:E1.
  - apply Z.eqb_eq in E1. destruct (R1 E1) as (c & o & prows & Eo & U & Sw & Us & _).
    unfold rank1_ok. rewrite Eo, U, Sw, Us. reflexivity.
  - destruct (sc_rank sc =? 2) eqn:E2.
    + apply Z.eqb_eq in E2. rewrite S, (R2 E2). reflexivity.
    + rewrite S. reflexivity.
Qed.

Definition painted_b (p : str * list row) : bool := mem_str (s "Painted") (fragment_tags (snd p)).

Lemma PL_namespace prefix pretext fused :
  Forall (PL prefix pretext) fused -> (length (filter painted_b pretext) <= 191)%nat ->
  Forall labels_normal fused /\ namespace_ok prefix fused.
Proof.
  intros F B. split; [|split].
  - eapply Forall_impl; [|exact F]. intros sc Psc. exact (proj1 (PL_name_ok _ _ _ Psc)).
  - apply forallb_forall. intros sc I. rewrite Forall_forall in F. exact (proj2 (PL_name_ok _ _ _ (F sc I))).
  - assert (I : incl (rank1_origs fused) (map fst (filter painted_b pretext))).
    { intros o Io. unfold rank1_origs in Io. apply (proj1 (Junctions.dedup_in _ str_eqb_eq _ _)) in Io.
      apply in_flat_map in Io as (sc & Isc & Io). rewrite Forall_forall in F.
      pose proof (F sc Isc) as Psc. unfold PL, sc_labs, lab_ok in Psc. destruct Psc as (_ & _ & _ & R1 & _).
      unfold is_rank1 in Io. destruct (sc_rank sc =? 1) eqn:E1; [|destruct Io]. apply Z.eqb_eq in E1.
      destruct (R1 E1) as (c & o' & prows & Eo & _ & _ & _ & Ip & Pt). rewrite Eo in Io.
      destruct Io as [<-|[]]. apply in_map_iff. exists (c :: o', prows). split; [reflexivity|].
      apply filter_In. split; [exact Ip | exact Pt]. }
    pose proof (NoDup_incl_length (Junctions.dedup_nodup _ str_eqb_eq _) I) as L.
    rewrite map_length in L. unfold rank1_origs. lia.
Qed.

(* item 3 with the namespace hypothesis on the input and the map; the two
   haplotype conditions of item 2 stay on the scaffolds that come out of the fusion *)
Theorem names_nodup_observable : forall g prefix bpt input pretext o,
  remap repaired g prefix bpt input pretext = Ok o ->
  input_namespace_ok prefix input pretext ->
  (length (filter painted_b pretext) <= 191)%nat ->
  no_tag_hap_clash (fused_of_run g prefix bpt input pretext) ->
  tagged_same_hap (fused_of_run g prefix bpt input pretext) ->
  forall a, In a (out_asms o) -> NoDup (map sc_name (oa_scaffolds a)).
Proof.
  intros g prefix bpt input pretext o H INS B NC TS.
  apply (names_nodup_after_renaming _ _ _ _ _ _ H). intros rs fused0 R F.
  unfold fused_of_run in NC, TS. rewrite R, F in NC, TS.
  destruct (remap_to_input_labels prefix input pretext INS _ _ _ _ R) as [FR FL].
  destruct (PL_namespace prefix pretext fused0 (fuse_all_PL _ _ _ _ _ _ FR FL F) B) as [LN NS].
  auto.
Qed.

(* ------------------------------ 5h. the namespace hypothesis can be computed *)
Definition clear_b (prefix x : str) : bool := negb (starts_with prefix x) && negb (starts_with x prefix).
Definition input_namespace_ok_b (prefix : str) (input pretext : list (str * list row)) : bool :=
  forallb (fun p : str * list row =>
             clear_b prefix (fst p) && match fst p with c :: _ => is_upper c | [] => false end) pretext
  && forallb (fun p : str * list row => clear_b prefix (fst p)) input
  && forallb (fun p : str * list row =>
                forallb (fun f => forallb (fun t => implb (looks_like_chr_name t)
                                                          (clear_b prefix t && first_not_digit t)) (f_tags f))
                        (frags_of (snd p))) pretext
  && clear_b prefix (s "H_").

Lemma clear_b_sound prefix x : clear_b prefix x = true -> clear prefix x.
Proof. unfold clear_b, clear. intro H. apply andb_prop in H as [A B]. apply negb_true_iff in A, B. auto. Qed.

Lemma input_namespace_ok_b_sound prefix input pretext :
  input_namespace_ok_b prefix input pretext = true -> input_namespace_ok prefix input pretext.
Proof.
  unfold input_namespace_ok_b. rewrite !andb_true_iff. intros [[[H1 H2] H3] H4]. constructor.
  - intros pname prows I. rewrite forallb_forall in H1. specialize (H1 _ I). cbn [fst] in H1.
    apply andb_prop in H1 as [A B]. split; [apply clear_b_sound, A|].
    destruct pname as [|c o]; [discriminate|]. exists c, o. auto.
  - intros iname I. apply in_map_iff in I as ([n rows] & <- & I). rewrite forallb_forall in H2.
    apply clear_b_sound. exact (H2 _ I).
  - intros pname prows f t I If It Lk. rewrite forallb_forall in H3. specialize (H3 _ I). cbn [snd] in H3.
    rewrite forallb_forall in H3. specialize (H3 _ If). rewrite forallb_forall in H3. specialize (H3 _ It).
    rewrite Lk in H3. cbn [implb] in H3. apply andb_prop in H3 as [A B]. split; [apply clear_b_sound, A | exact B].
  - apply clear_b_sound, H4.
Qed.

(* non-vacuity of the observable form, on the example of section 4 *)
Example unique_names_example_observable : forall o,
  remap repaired ex_gap (s "SUPER_") (10, 1) nv_input nv_pretext = Ok o ->
  forall a, In a (out_asms o) -> NoDup (map sc_name (oa_scaffolds a)).
Proof.
  intros o H.
  assert (C : unique_names_hyps_b (s "SUPER_") (fused_of_run ex_gap (s "SUPER_") (10, 1) nv_input nv_pretext) = true)
    by (vm_compute; reflexivity).
  destruct (unique_names_hyps_b_sound _ _ C) as (_ & NC & TS & _).
  apply (names_nodup_observable _ _ _ _ _ _ H); [| |exact NC|exact TS].
  - apply input_namespace_ok_b_sound. vm_compute. reflexivity.
  - vm_compute. lia.
Qed.

(* ============================ 6. a fully observable case: no haplotypes *)
(* no fragment of the input or of the map says anything about a haplotype:
   no tag that would be taken for a haplotype name, no name of the form
   <hap>_..._<n> *)
Definition no_hap_frag (f : frag) : Prop :=
  haplotype_prefix_of_name (f_name f) = None /\ forall t, In t (f_tags f) -> cls t <> CHap.
Definition no_haplotypes (l : list (str * list row)) : Prop :=
  forall name rows f, In (name, rows) l -> In f (frags_of rows) -> no_hap_frag f.

Lemma number_rows_frag : forall rows n f', In f' (frags_of (fst (number_rows rows n))) ->
  exists f, In f (frags_of rows) /\ f_name f' = f_name f /\ f_tags f' = f_tags f.
Proof.
  induction rows as [|r rows IH]; intros n f' I; cbn [number_rows] in I; [destruct I|].
  destruct r as [f|gp]; destruct (number_rows rows (n + 1)) as [t' n1] eqn:E; cbn [fst] in I.
  - change (frags_of (RF ?x :: ?t)) with (x :: frags_of t) in *. destruct I as [<-|I].
    + exists f. split; [left; reflexivity | split; reflexivity].
    + specialize (IH (n + 1) f'). rewrite E in IH. destruct (IH I) as (f0 & I0 & E0).
      exists f0. split; [right; exact I0 | exact E0].
  - change (frags_of (RG gp :: ?t)) with (frags_of t) in *.
    specialize (IH (n + 1) f'). rewrite E in IH. exact (IH I).
Qed.

Lemma number_input_no_hap : forall input n, no_haplotypes input -> no_haplotypes (number_input input n).
Proof.
  induction input as [|[name rows] input IH]; intros n H; cbn [number_input]; [intros ? ? ? []|].
  destruct (number_rows rows n) as [rows' n'] eqn:E. intros nm rs f [[= <- <-]|I] If.
  - pose proof (number_rows_frag rows n f) as K. rewrite E in K. destruct (K If) as (f0 & I0 & En & Et).
    destruct (H name rows f0 (or_introl eq_refl) I0) as [A B]. split; [rewrite En; exact A | rewrite Et; exact B].
  - apply (IH n' (fun a b c Ia => H a b c (or_intror Ia)) nm rs f I If).
Qed.

Lemma scan_no_hap : forall tags st st', (forall t, In t tags -> cls t <> CHap) -> ts_hap st = None ->
  foldM scan_tag tags st = Ok st' -> ts_hap st' = None.
Proof.
  induction tags as [|t tags IH]; intros st st' Ht H0 H; cbn [foldM] in H.
  - injection H as <-. exact H0.
  - unfold bind in H. destruct (scan_tag st t) as [st1|] eqn:E; [|discriminate].
    apply (IH st1 st' (fun x Ix => Ht x (or_intror Ix))); [|exact H].
    rewrite scan_tag_cls in E. pose proof (Ht t (or_introl eq_refl)) as C.
    destruct (cls t); cbn [scan_cls] in E; try congruence; try (injection E as <-; exact H0).
    destruct (ts_name st) as [n|]; [destruct (negb (str_eqb t n)); [discriminate|]|]; injection E as <-; exact H0.
Qed.

Lemma msn_no_hap nm n rows tags nm' :
  (forall t, In t (eff_tags rows tags) -> cls t <> CHap) ->
  (forall fn, first_row_name rows = Ok fn -> haplotype_prefix_of_name fn = None) ->
  make_scaffold_name nm n rows tags = Ok nm' -> nm_cur_hap nm' = None.
Proof.
  intros Ht Hf H. rewrite make_scaffold_name_eq in H. unfold bind in H.
  destruct (foldM scan_tag (eff_tags rows tags) (scan0 nm)) as [sc|] eqn:E; [|discriminate].
  pose proof (scan_no_hap _ (scan0 nm) _ Ht eq_refl E) as S0.
  unfold finish, bind in H.
  destruct (fin_hap rows sc) as [[hap lc1]|] eqn:E1; [|discriminate].
  destruct (fin_prim nm sc hap lc1) as [[prim lc2]|] eqn:E2; [|discriminate].
  destruct (fin_name n rows sc) as [[name rank]|] eqn:E3; [|discriminate].
  injection H as <-. cbn [nm_cur_hap].
  assert (hap = None).
  { unfold fin_hap, bind in E1. rewrite S0 in E1. cbn [truthy] in E1.
    destruct (first_row_name rows) as [fn|]; [|discriminate]. rewrite (Hf fn eq_refl) in E1.
    injection E1 as <- _. reflexivity. }
  subst hap. destruct prim as [[|c p]|]; reflexivity.
Qed.

Definition HNone (b : bstate) : Prop :=
  nm_cur_hap (b_namer b) = None /\ Forall (fun r => o_hap r = None) (b_store b).

Lemma Forall_map_eq {A B} (f : A -> B) (Q : B -> Prop) : forall l l', map f l' = map f l ->
  Forall (fun x => Q (f x)) l -> Forall (fun x => Q (f x)) l'.
Proof.
  intros l l' M F. rewrite <- Forall_map in *. rewrite M. exact F.
Qed.

Definition hap_of_labs (l : labs) : option str := let '(_, _, h, _, _) := l in h.
Lemma map_hap_labs st st' : map o_labs st' = map o_labs st -> map o_hap st' = map o_hap st.
Proof.
  intro M. change o_hap with (fun r => hap_of_labs (o_labs r)).
  rewrite <- !(map_map o_labs hap_of_labs), M. reflexivity.
Qed.

Section NoHap.
  Variables (input pretext : list (str * list row)).
  Hypothesis NHi : no_haplotypes input.
  Hypothesis NHp : no_haplotypes pretext.

  Lemma one_bait_no_hap err sc_tags orig b bait b' :
    HNone b -> one_bait input err sc_tags orig b bait = Ok b' -> HNone b'.
  Proof.
    intros [H1 H2] H. unfold one_bait in H. unfold bind in H.
    destruct (input_rows input (f_name bait)) as [rows|]; [|discriminate].
    destruct (find_overlaps rows (f_start bait) (f_end bait)) as [[fo|]|]; [|injection H as <-; split; auto|discriminate].
    destruct (label_scaffold (b_namer b) (zlen (b_store b)) (f_tags bait) sc_tags) as [[nm lab]|] eqn:EL; [|discriminate].
    destruct (trim_large_overhangs (set_labels (ovr_of_found bait fo) lab orig sc_tags) err) as [r1|] eqn:ET; [|discriminate].
    assert (EB : b_store b' = b_store b ++ [r1] /\ b_namer b' = nm).
    { destruct (o_rows r1); injection H as <-; [split; reflexivity|].
      unfold store_fragments_found. cbn [b_store b_found b_multi b_added b_namer b_cuts].
      destruct (fold_left _ _ _). split; reflexivity. }
    destruct EB as [E1 E2]. unfold HNone. rewrite E1, E2.
    destruct (label_spec _ _ _ _ _ _ EL) as (_ & _ & K3 & _ & K5 & _).
    split; [congruence|]. apply Forall_app. split; [exact H2|]. constructor; [|constructor].
    pose proof (trim_large_labs _ _ _ ET) as L. unfold o_labs in L. cbn [set_labels o_hap] in L.
    injection L as _ _ L _ _. congruence.
  Qed.

  Lemma one_pretext_scaffold_no_hap err b pname prows b' :
    In (pname, prows) pretext -> HNone b -> one_pretext_scaffold input err b (pname, prows) = Ok b' -> HNone b'.
  Proof.
    intros Ip [H1 H2] H. unfold one_pretext_scaffold, bind in H.
    destruct (make_scaffold_name (b_namer b) pname prows (fragment_tags prows)) as [nm|] eqn:EM; [|discriminate].
    destruct (foldM _ (frags_of prows) (with_namer b nm)) as [b1|] eqn:EF; [|discriminate].
    destruct (rename_results (b_store b1) (nm_unloc_scaffolds (b_namer b1))) as [st|] eqn:ER; [|discriminate].
    injection H as <-.
    assert (C : nm_cur_hap nm = None).
    { apply (msn_no_hap _ _ _ _ _) with (3 := EM).
      - intros t It. assert (It' : In t (fragment_tags prows)) by (unfold eff_tags in It; destruct (fragment_tags prows); exact It).
        destruct (in_fragment_tags _ _ It') as (f & If & Itf). exact (proj2 (NHp _ _ _ Ip If) t Itf).
      - intros fn Fr. unfold first_row_name in Fr. destruct prows as [|[f|gp] rest]; try discriminate.
        injection Fr as <-. apply (proj1 (NHp _ _ f Ip (or_introl eq_refl))). }
    assert (I1 : HNone b1).
    { apply (foldM_inv' (one_bait input err (fragment_tags prows) pname) HNone) with (3 := EF).
      - intros s0 a s1 Hs E. eapply one_bait_no_hap; eassumption.
      - split; [exact C | exact H2]. }
    destruct I1 as [J1 J2]. destruct (rename_results_spec _ _ _ ER) as [R1 _].
    split; [exact J1|]. cbn [with_store b_store].
    apply (Forall_map_eq o_hap (fun h => h = None) (b_store b1)); [apply R1; reflexivity | exact J2].
  Qed.

  Lemma leftovers_no_hap c g found : forall inp nm left nm' left',
    (forall name rows f, In (name, rows) inp -> In f (frags_of rows) -> no_hap_frag f) ->
    Forall (fun sc => sc_hap sc = None) left ->
    foldM (add_missing_one c g found) inp (nm, left) = Ok (nm', left') ->
    Forall (fun sc => sc_hap sc = None) left'.
  Proof.
    induction inp as [|[name rows] inp IH]; intros nm left nm' left' Hi F H; cbn [foldM] in H.
    - injection H as _ <-. exact F.
    - unfold bind in H. destruct (add_missing_one c g found (nm, left) (name, rows)) as [[nm1 left1]|] eqn:E; [|discriminate].
      apply (IH nm1 left1 nm' left' (fun a b f Ia => Hi a b f (or_intror Ia))); [|exact H].
      unfold add_missing_one in E.
      pose proof (RemapTail.missing_rows_frags c found g rows) as MF.
      destruct (missing_rows c found g rows [] 0 None) as [|r0 new_rows]; [injection E as _ <-; exact F|].
      unfold bind in E. destruct (make_scaffold_name nm name (r0 :: new_rows) []) as [nm2|] eqn:EM; [|discriminate].
      injection E as _ <-. apply Forall_app. split; [exact F|]. constructor; [|constructor]. cbn [sc_hap].
      assert (Sub : forall f, In f (frags_of (r0 :: new_rows)) -> no_hap_frag f).
      { intros f If. rewrite MF in If. apply filter_In in If as [If _]. exact (Hi name rows f (or_introl eq_refl) If). }
      apply (msn_no_hap _ _ _ _ _) with (3 := EM).
      + intros t It. cbn [eff_tags] in It. destruct (in_fragment_tags _ _ It) as (f & If & Itf).
        exact (proj2 (Sub f If) t Itf).
      + intros fn Fr. unfold first_row_name in Fr. destruct r0 as [f|gp]; try discriminate. injection Fr as <-.
        exact (proj1 (Sub f (or_introl eq_refl))).
  Qed.
End NoHap.

Theorem no_haplotypes_fused : forall c g prefix bpt input pretext rs fused,
  no_haplotypes input -> no_haplotypes pretext ->
  remap_to_input c g prefix bpt input pretext = Ok rs -> fuse_all c g rs = Ok fused ->
  Forall (fun sc => sc_hap sc = None) fused.
Proof.
  intros c g prefix bpt input pretext rs fused NHi NHp H HF. unfold remap_to_input in H.
  destruct (has_dup_names (map fst input)); [discriminate|]. unfold bind in H.
  destruct (foldM _ pretext _) as [b1|] eqn:E1; [|discriminate].
  destruct (discard_loop _ _ b1) as [b2|] eqn:E2; [|discriminate].
  destruct (cut_remaining_overhangs c b2) as [b3|] eqn:E3; [|discriminate].
  destruct (rename_results (b_store b3) (nm_hap_scaffolds (b_namer b3))) as [st|] eqn:E4; [|discriminate].
  destruct (foldM _ (number_input input 0) _) as [[nm' left]|] eqn:E5; [|discriminate].
  injection H as <-.
  pose proof (number_input_no_hap input 0 NHi) as NHn.
  assert (O1 : HNone b1).
  { assert (G : forall l, incl l pretext -> forall b b', HNone b ->
              foldM (one_pretext_scaffold (number_input input 0) (error_length bpt)) l b = Ok b' -> HNone b').
    { induction l as [|[pname prows] l IH]; intros Il b b' HO H; cbn [foldM] in H.
      - injection H as <-. exact HO.
      - unfold bind in H. destruct (one_pretext_scaffold _ _ b (pname, prows)) as [bx|] eqn:E; [|discriminate].
        apply (IH (fun x Ix => Il x (or_intror Ix)) bx b'); [|exact H].
        eapply (one_pretext_scaffold_no_hap (number_input input 0) pretext NHp); [apply Il; left; reflexivity | exact HO | exact E]. }
    apply (G pretext (incl_refl _) _ b1) with (2 := E1). split; [reflexivity | constructor]. }
  destruct (discard_loop_labs _ _ _ _ E2) as (L2 & _ & N2).
  destruct (cut_remaining_labs _ _ _ E3) as (L3 & _ & N3).
  destruct O1 as [_ F1].
  assert (F3 : Forall (fun r => o_hap r = None) (b_store b3)).
  { apply (Forall_map_eq o_hap (fun h => h = None) (b_store b1)); [|exact F1].
    apply map_hap_labs. congruence. }
  destruct (rename_results_spec _ _ _ E4) as [R1 _].
  assert (F4 : Forall (fun r => o_hap r = None) st).
  { apply (Forall_map_eq o_hap (fun h => h = None) (b_store b3)); [apply R1; reflexivity | exact F3]. }
  pose proof (leftovers_no_hap c g _ _ _ _ _ _ NHn (Forall_nil _) E5) as FL.
  apply (fuse_all_labs (fun l => hap_of_labs l = None) c g _ fused) with (3 := HF).
  - cbn [rs_b with_namer with_store b_store]. exact F4.
  - cbn [rs_left]. exact FL.
Qed.

(* without haplotypes the two haplotype conditions of item 2 hold trivially *)
Lemma no_hap_conditions l : Forall (fun sc => sc_hap sc = None) l -> Forall labels_normal l ->
  no_tag_hap_clash l /\ tagged_same_hap l.
Proof.
  intros F LN. rewrite Forall_forall in F. split.
  - intros s1 s2 I1 I2 T1 T2 E. rewrite (F s2 I2) in E. rewrite <- E in T1. discriminate.
  - intros s1 s2 I1 I2 _ _ _. rewrite (F s1 I1), (F s2 I2). reflexivity.
Qed.

(* item 3, every hypothesis on the input and the map *)
Theorem names_nodup_no_haplotypes : forall g prefix bpt input pretext o,
  remap repaired g prefix bpt input pretext = Ok o ->
  input_namespace_ok prefix input pretext ->
  (length (filter painted_b pretext) <= 191)%nat ->
  no_haplotypes input -> no_haplotypes pretext ->
  forall a, In a (out_asms o) -> NoDup (map sc_name (oa_scaffolds a)).
Proof.
  intros g prefix bpt input pretext o H INS B NHi NHp.
  apply (names_nodup_after_renaming _ _ _ _ _ _ H). intros rs fused0 R F.
  destruct (remap_to_input_labels prefix input pretext INS _ _ _ _ R) as [FR FL].
  destruct (PL_namespace prefix pretext fused0 (fuse_all_PL _ _ _ _ _ _ FR FL F) B) as [LN NS].
  destruct (no_hap_conditions fused0 (no_haplotypes_fused _ _ _ _ _ _ _ _ NHi NHp R F) LN) as [NC TS].
  auto.
Qed.

Definition is_CHap (c : tcls) : bool := match c with CHap => true | _ => false end.
Definition no_hap_frag_b (f : frag) : bool :=
  match haplotype_prefix_of_name (f_name f) with None => true | Some _ => false end
  && forallb (fun t => negb (is_CHap (cls t))) (f_tags f).
Definition no_haplotypes_b (l : list (str * list row)) : bool :=
  forallb (fun p : str * list row => forallb no_hap_frag_b (frags_of (snd p))) l.

Lemma no_haplotypes_b_sound l : no_haplotypes_b l = true -> no_haplotypes l.
Proof.
  intros H name rows f I If. unfold no_haplotypes_b in H. rewrite forallb_forall in H.
  specialize (H _ I). cbn [snd] in H. rewrite forallb_forall in H. specialize (H f If).
  unfold no_hap_frag_b in H. apply andb_prop in H as [A B]. split.
  - destruct (haplotype_prefix_of_name (f_name f)); [discriminate | reflexivity].
  - intros t It C. rewrite forallb_forall in B. specialize (B t It). rewrite C in B. discriminate.
Qed.

(* non-vacuity: every hypothesis of names_nodup_no_haplotypes holds for the example of section 4 *)
Example unique_names_example_no_haplotypes : forall o,
  remap repaired ex_gap (s "SUPER_") (10, 1) nv_input nv_pretext = Ok o ->
  forall a, In a (out_asms o) -> NoDup (map sc_name (oa_scaffolds a)).
Proof.
  intros o H. apply (names_nodup_no_haplotypes _ _ _ _ _ _ H).
  - apply input_namespace_ok_b_sound. vm_compute. reflexivity.
  - vm_compute. lia.
  - apply no_haplotypes_b_sound. vm_compute. reflexivity.
  - apply no_haplotypes_b_sound. vm_compute. reflexivity.
Qed.

(* =========================================================== assumptions *)
Print Assumptions fuse_keys_nodup_cfg.
Print Assumptions fuse_keys_nodup.
Print Assumptions fuse_keys_nodup_legacy.
Print Assumptions same_name_in_assembly_cases.
Print Assumptions asm_distinct_before_renaming.
Print Assumptions grouping_spec.
Print Assumptions assembly_names_nodup_before_renaming.
Print Assumptions assembly_duplicate_is_collision.
Print Assumptions item2_needs_labels_normal.
Print Assumptions item2_needs_no_tag_hap_clash.
Print Assumptions duplicate_names_in_contaminants.
Print Assumptions duplicate_names_in_contaminants_chrX.
Print Assumptions duplicate_names_in_contaminants_primary_switch.
Print Assumptions duplicate_names_by_tag_haplotype_clash.
Print Assumptions duplicate_input_named_like_chromosome.
Print Assumptions input_named_like_pretext_scaffold_is_fused.
Print Assumptions duplicate_chr_tag_1A.
Print Assumptions duplicate_prefix_inside_tag.
Print Assumptions name_chromosomes_as_ops.
Print Assumptions renaming_keeps_distinct.
Print Assumptions names_nodup_after_renaming_tail.
Print Assumptions names_nodup_after_renaming.
Print Assumptions names_nodup_checked.
Print Assumptions unique_names_example.
Print Assumptions unique_names_example_by_theorem.
Print Assumptions hyps_fail_on_duplicates.
Print Assumptions remap_to_input_labels.
Print Assumptions names_nodup_observable.
Print Assumptions unique_names_example_observable.
Print Assumptions no_haplotypes_fused.
Print Assumptions names_nodup_no_haplotypes.
Print Assumptions unique_names_example_no_haplotypes.
