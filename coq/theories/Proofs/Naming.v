(* Naming of output scaffolds: rename_by_size, the H_n / _unloc_n counters of
   label_scaffold, multi_chr_list, and ChrNamer (name_chromosomes) for a
   single haplotype. *)
From Tola Require Import Py.Base Py.Dec Py.Sort Model.Fragment Model.Scaffold Model.Namer Model.Remap.
From Tola Require Import Proofs.BaseLemmas Proofs.Dec Proofs.NaturalKey.
From Coq Require Import Lia ZifyBool Permutation Sorted.

(* ============================================================ 0. helpers *)
Lemma map_fst_combine {A B} : forall (a : list A) (b : list B),
  length a = length b -> map fst (combine a b) = a.
Proof.
  induction a as [|x a IH]; intros [|y b] H; cbn in *; try reflexivity; try discriminate.
  f_equal. apply IH. lia.
Qed.

Lemma map_snd_combine {A B} : forall (a : list A) (b : list B),
  length a = length b -> map snd (combine a b) = b.
Proof.
  induction a as [|x a IH]; intros [|y b] H; cbn in *; try reflexivity; try discriminate.
  f_equal. apply IH. lia.
Qed.

Lemma Zgeb_trans a b c : (a >=? b) = true -> (b >=? c) = true -> (a >=? c) = true.
Proof. lia. Qed.
Lemma Zgeb_total a b : (a >=? b) = true \/ (b >=? a) = true.
Proof. lia. Qed.

Lemma StronglySorted_weaken {A} (R R' : A -> A -> Prop) :
  (forall a b, R a b -> R' a b) -> forall l, StronglySorted R l -> StronglySorted R' l.
Proof.
  intros H l; induction 1 as [|x l Hs IH Hx]; constructor; [exact IH|].
  eapply Forall_impl; [|exact Hx]. intros; apply H; assumption.
Qed.

Section DescSort.
  Context {A : Type} (key : A -> Z).

  Lemma sort_desc_perm l : Permutation (sort_by_Z_desc key l) l.
  Proof. exact (stable_sort_perm key Z.geb l). Qed.

  Lemma sort_desc_sorted l :
    StronglySorted (fun a b => key a >= key b) (sort_by_Z_desc key l).
  Proof.
    eapply StronglySorted_weaken; [|exact (stable_sort_sorted key Z.geb Zgeb_trans Zgeb_total l)].
    cbv beta. intros a b H. lia.
  Qed.

  Lemma sort_desc_stable z l :
    filter (fun a => key a =? z) (sort_by_Z_desc key l) = filter (fun a => key a =? z) l.
  Proof.
    apply (stable_sort_filter key Z.geb (fun a => key a =? z)).
    intros x y Hx Hy. lia.
  Qed.
End DescSort.

(* ===================================================== 1. rename_by_size *)
Theorem rename_by_size_spec : forall (A : Type) (ids : list A) (name_of : A -> str) (length_of : A -> Z),
  let r := rename_by_size ids name_of length_of in
  map snd r = map name_of ids
  /\ Permutation (map fst r) ids
  /\ StronglySorted (fun a b => length_of a >= length_of b) (map fst r)
  /\ (forall z, filter (fun a => length_of a =? z) (map fst r) = filter (fun a => length_of a =? z) ids).
Proof.
  intros A ids name_of length_of r. subst r. unfold rename_by_size.
  assert (L : length (sort_by_Z_desc length_of ids) = length (map name_of ids)).
  { rewrite map_length. apply Permutation_length, sort_desc_perm. }
  rewrite (map_snd_combine _ _ L), (map_fst_combine _ _ L).
  split; [reflexivity|]. split; [apply sort_desc_perm|].
  split; [apply sort_desc_sorted|]. intro z. apply sort_desc_stable.
Qed.

Corollary rename_by_size_length : forall (A : Type) (ids : list A) name_of length_of,
  length (rename_by_size ids name_of length_of) = length ids.
Proof.
  intros. unfold rename_by_size. rewrite combine_length, map_length.
  rewrite (Permutation_length (sort_desc_perm length_of ids)). lia.
Qed.

(* ================================================ 2. H_n / _unloc_n counters *)
Theorem haplotig_names_sequential : forall nm id ft st nm' l,
  label_scaffold nm id ft st = Ok (nm', l) -> mem_str (s "FalseDuplicate") ft = false -> mem_str (s "Haplotig") ft = true ->
  nm_hap_n nm' = nm_hap_n nm + 1 /\ lb_name l = s "H_" ++ str_of_Z (nm_hap_n nm + 1)
  /\ nm_hap_scaffolds nm' = nm_hap_scaffolds nm ++ [id].
Proof.
  intros nm id ft st nm' l H Hfd Hh. unfold label_scaffold in H.
  rewrite Hfd, Hh in H. injection H as <- <-. cbn [nm_hap_n lb_name nm_hap_scaffolds].
  repeat split.
Qed.

Theorem unloc_names_sequential : forall nm id ft st nm' l n0,
  label_scaffold nm id ft st = Ok (nm', l) -> mem_str (s "FalseDuplicate") ft = false -> mem_str (s "Haplotig") ft = false ->
  mem_str (s "Unloc") ft = true -> nm_cur_name nm = Some n0 ->
  nm_unloc_n nm' = nm_unloc_n nm + 1 /\ lb_name l = n0 ++ s "_unloc_" ++ str_of_Z (nm_unloc_n nm + 1)
  /\ nm_unloc_scaffolds nm' = nm_unloc_scaffolds nm ++ [id].
Proof.
  intros nm id ft st nm' l n0 H Hfd Hh Hu Hn. unfold label_scaffold in H.
  rewrite Hfd, Hh, Hu, Hn in H.
  destruct (negb (mem_str (s "Painted") st)); [discriminate|].
  injection H as <- <-. cbn [nm_unloc_n lb_name nm_unloc_scaffolds].
  repeat split.
Qed.

Theorem other_labels_keep_counters : forall nm id ft st nm' l,
  label_scaffold nm id ft st = Ok (nm', l) ->
  (mem_str (s "FalseDuplicate") ft = true \/ (mem_str (s "Haplotig") ft = false /\ mem_str (s "Unloc") ft = false)) -> nm' = nm.
Proof.
  intros nm id ft st nm' l H C. unfold label_scaffold in H.
  destruct (mem_str (s "FalseDuplicate") ft) eqn:Hfd.
  - injection H as <- _. reflexivity.
  - destruct C as [C|[Hh Hu]]; [discriminate|].
    rewrite Hh, Hu in H. injection H as <- _. reflexivity.
Qed.

(* the unloc branch can only fail with ValueError, exactly when the scaffold is not Painted *)
Lemma unloc_label_ok_iff : forall nm id ft st,
  mem_str (s "FalseDuplicate") ft = false -> mem_str (s "Haplotig") ft = false ->
  mem_str (s "Unloc") ft = true ->
  (exists r, label_scaffold nm id ft st = Ok r) <-> mem_str (s "Painted") st = true.
Proof.
  intros nm id ft st Hfd Hh Hu. unfold label_scaffold. rewrite Hfd, Hh, Hu.
  destruct (mem_str (s "Painted") st); cbn [negb]; split; intro H;
    try reflexivity; try (destruct H; discriminate); try discriminate.
  eexists; reflexivity.
Qed.

(* ====================================================== 3. multi_chr_list *)
Lemma nth_error_seq a : forall n k, (k < n)%nat -> nth_error (seq a n) k = Some (a + k)%nat.
Proof.
  revert a. intros a n; revert a. induction n as [|n IH]; intros a k H; [lia|].
  destruct k as [|k]; cbn [seq nth_error]; [f_equal; lia|].
  rewrite IH by lia. f_equal; lia.
Qed.

Theorem multi_chr_list_spec : forall name n, length (multi_chr_list name n) = n
  /\ (n = 1%nat -> multi_chr_list name n = [name])
  /\ (n <> 1%nat -> forall k, (k < n)%nat -> nth_error (multi_chr_list name n) k = Some (name ++ [ascii_of_N (65 + N.of_nat k)])).
Proof.
  intros name n.
  assert (E : n <> 1%nat ->
              multi_chr_list name n = map (fun k => name ++ [ascii_of_N (65 + N.of_nat k)]) (seq 0 n)).
  { intro H. destruct n as [|[|n]]; [reflexivity | congruence | reflexivity]. }
  split; [|split].
  - destruct (Nat.eq_dec n 1) as [->|H]; [reflexivity|].
    rewrite (E H), map_length, seq_length. reflexivity.
  - intros ->. reflexivity.
  - intros H k Hk. rewrite (E H).
    erewrite map_nth_error; [reflexivity|]. rewrite nth_error_seq by exact Hk. reflexivity.
Qed.

(* ============================================= 5a. groups sorted by size *)
Theorem groups_sorted_desc : forall fused haps (groups : list chr_group),
  StronglySorted (fun a b => group_length fused haps a >= group_length fused haps b)
                 (sort_by_Z_desc (group_length fused haps) groups)
  /\ Permutation (sort_by_Z_desc (group_length fused haps) groups) groups.
Proof.
  intros. split; [apply sort_desc_sorted | apply sort_desc_perm].
Qed.

Theorem groups_sorted_stable : forall fused haps (groups : list chr_group) z,
  filter (fun g => group_length fused haps g =? z) (sort_by_Z_desc (group_length fused haps) groups)
  = filter (fun g => group_length fused haps g =? z) groups.
Proof. intros. apply sort_desc_stable. Qed.

(* ================================================= 5b. replace at a prefix *)
Lemma starts_with_app old sfx : starts_with old (old ++ sfx) = true.
Proof.
  induction old as [|c old IH]; cbn [starts_with app]; [reflexivity|].
  rewrite Ascii.eqb_refl, IH. reflexivity.
Qed.

Lemma skipn_app_exact {A} (a b : list A) : skipn (length a) (a ++ b) = b.
Proof. induction a as [|x a IH]; cbn [length app skipn]; [reflexivity | exact IH]. Qed.

Lemma skipn_app_ge {A} (a b : list A) k : skipn (length a + k) (a ++ b) = skipn k b.
Proof. induction a as [|x a IH]; cbn [length app skipn Nat.add]; [reflexivity | exact IH]. Qed.

(* no occurrence of [old] in [x]: replace is the identity, whatever the fuel *)
Lemma replace_fuel_no_occ old new : forall x fuel,
  (forall j, (j < length x)%nat -> starts_with old (skipn j x) = false) ->
  replace_fuel fuel old new x None = x.
Proof.
  induction x as [|c x IH]; intros fuel H; destruct fuel as [|fuel]; cbn [replace_fuel]; try reflexivity.
  cbn [negb andb]. assert (H0 := H 0%nat). cbn [skipn length] in H0. rewrite H0 by lia. f_equal.
  apply IH. intros j Hj. apply (H (S j)). cbn [length]; lia.
Qed.

(* general form: only occurrences inside the suffix matter *)
Theorem replace_prefix_gen : forall old new sfx, old <> [] ->
  (forall j, (j < length sfx)%nat -> starts_with old (skipn j sfx) = false) ->
  replace old new (old ++ sfx) None = new ++ sfx.
Proof.
  intros old new sfx Hne H. unfold replace.
  destruct old as [|c old']; [congruence|].
  change (c :: old' ++ sfx) with ((c :: old') ++ sfx).
  remember (c :: old') as old eqn:Eo.
  assert (E : forall fuel, replace_fuel (S fuel) old new (old ++ sfx) None
                           = new ++ replace_fuel fuel old new sfx None).
  { intro fuel. cbn [replace_fuel]. cbn [negb andb].
    rewrite starts_with_app, skipn_app_exact. rewrite Eo at 1. reflexivity. }
  rewrite E. f_equal. apply replace_fuel_no_occ. exact H.
Qed.

(* the statement as asked *)
Theorem replace_prefix : forall old new sfx, old <> [] ->
  (forall k, (0 < k)%nat -> (k < length (old ++ sfx))%nat -> starts_with old (skipn k (old ++ sfx)) = false) ->
  replace old new (old ++ sfx) None = new ++ sfx.
Proof.
  intros old new sfx Hne H. apply replace_prefix_gen; [exact Hne|].
  intros j Hj. rewrite <- (skipn_app_ge old sfx j). apply H.
  - destruct old; [congruence | cbn [length]; lia].
  - rewrite app_length. lia.
Qed.

(* a sufficient condition that is easy to check: the first character of
   [old] does not occur in the suffix *)
Lemma starts_with_head_absent c old' x :
  forallb (fun d => negb (Ascii.eqb c d)) x = true -> forall j, starts_with (c :: old') (skipn j x) = false.
Proof.
  revert x. intros x; induction x as [|d x IH]; intros H j.
  - destruct j; reflexivity.
  - cbn [forallb] in H. apply andb_prop in H as [Hd Hx].
    destruct j as [|j]; cbn [skipn]; [|apply IH; exact Hx].
    cbn [starts_with]. destruct (Ascii.eqb c d); [discriminate | reflexivity].
Qed.

Theorem replace_prefix_head : forall c old' new sfx,
  forallb (fun d => negb (Ascii.eqb c d)) sfx = true ->
  replace (c :: old') new ((c :: old') ++ sfx) None = new ++ sfx.
Proof.
  intros. apply replace_prefix_gen; [discriminate|].
  intros j _. apply starts_with_head_absent. assumption.
Qed.

Corollary replace_whole : forall old new, old <> [] -> replace old new old None = new.
Proof.
  intros old new H. rewrite <- (app_nil_r old) at 2. rewrite replace_prefix_gen; [apply app_nil_r | exact H |].
  intros j Hj. cbn in Hj. lia.
Qed.

(* the shape that occurs: old = <letter-initial name>, suffix = "_unloc_" ++ str(m) *)
Corollary replace_prefix_unloc : forall c old' new m,
  is_alpha c = true -> c <> "u"%char -> c <> "n"%char -> c <> "l"%char -> c <> "o"%char -> c <> "c"%char ->
  0 <= m ->
  replace (c :: old') new ((c :: old') ++ s "_unloc_" ++ str_of_Z m) None = new ++ s "_unloc_" ++ str_of_Z m.
Proof.
  intros c old' new m Ha Hu Hn Hl Ho Hc Hm. apply replace_prefix_head.
  rewrite forallb_app. apply andb_true_intro. split.
  - cbn [s list_ascii_of_string forallb].
    repeat match goal with
    | |- context [Ascii.eqb c ?d] =>
        let E := fresh in destruct (Ascii.eqb c d) eqn:E;
        [apply Ascii.eqb_eq in E; subst c; try congruence; try discriminate Ha|]
    end. reflexivity.
  - destruct (str_of_Z_digits m Hm) as [_ D].
    rewrite forallb_forall in *. intros d Hd. specialize (D d Hd).
    destruct (Ascii.eqb c d) eqn:E; [|reflexivity]. apply Ascii.eqb_eq in E. subst d.
    exfalso. unfold is_alpha, is_upper, is_lower, is_digit in *. lia.
Qed.

Example replace_ex1 :
  replace (s "Scaffold_10") (s "SUPER_9A") (s "Scaffold_10_unloc_2") None = s "SUPER_9A_unloc_2".
Proof. vm_compute. reflexivity. Qed.
Example replace_ex2 :
  replace (s "Scaffold_10") (s "SUPER_9A") (s "Scaffold_10") None = s "SUPER_9A".
Proof. vm_compute. reflexivity. Qed.
(* why a side condition is needed: Python's replace is not anchored at the front *)
Example replace_ex3 :
  replace (s "Scaffold_1") (s "SUPER_2") (s "Scaffold_1_Scaffold_1") None = s "SUPER_2_SUPER_2".
Proof. vm_compute. reflexivity. Qed.
(* and the name need not start with the original name: Scaffold_1 inside Scaffold_10 *)
Example replace_ex4 :
  replace (s "Scaffold_1") (s "SUPER_2") (s "Scaffold_10") None = s "SUPER_20".
Proof. vm_compute. reflexivity. Qed.

(* ======================================== 4. ChrNamer, single haplotype *)
Lemma last_opt_snoc {A} (l : list A) x : last_opt (l ++ [x]) = Some x.
Proof. unfold last_opt. rewrite rev_app_distr. reflexivity. Qed.

Lemma set_last_group_snoc gs g g' : set_last_group (gs ++ [g]) g' = gs ++ [g'].
Proof.
  unfold set_last_group. destruct (gs ++ [g]) eqn:E; [destruct gs; discriminate|].
  rewrite <- E, removelast_last. reflexivity.
Qed.

Definition has_orig (fused : list scaffold) (it : str * nat) : Prop :=
  exists sc o, nth_error fused (snd it) = Some sc /\ sc_orig sc = Some o /\ o <> [].

Section SingleHap.
  Variable fused : list scaffold.
  Variable h : str.

  (* a group of a single-haplotype run: one original name, its indices *)
  Definition one_group (o : str) (idxs : list nat) : chr_group := [(h, [(o, idxs)])].
  Definition good_group (g : chr_group) : Prop := exists o idxs, g = one_group o idxs /\ idxs <> [].
  Definition gidx (g : chr_group) : list nat := flat_map snd (group_hap g h).

  Lemma group_hap_single d : group_hap [(h, d)] h = d.
  Proof. unfold group_hap. cbn [aget]. rewrite str_eqb_refl. reflexivity. Qed.

  Lemma group_add_single d o i :
    group_add [(h, d)] h o i
    = [(h, aset str_eqb d o ((match aget str_eqb d o with Some l => l | None => [] end) ++ [i]))].
  Proof. unfold group_add. rewrite group_hap_single. cbn [aset]. rewrite str_eqb_refl. reflexivity. Qed.

  Lemma gidx_one o idxs : gidx (one_group o idxs) = idxs.
  Proof. unfold gidx, one_group. rewrite group_hap_single. cbn [flat_map snd]. apply app_nil_r. Qed.

  Definition inv (st : cg_state) : Prop :=
    exists gs o idxs, cg_groups st = gs ++ [one_group o idxs] /\ idxs <> []
                      /\ cg_last_orig st = Some o /\ Forall good_group gs.

  Lemma inv_all_good st : inv st -> Forall good_group (cg_groups st).
  Proof.
    intros (gs & o & idxs & -> & Hne & _ & Hgs). apply Forall_app. split; [exact Hgs|].
    constructor; [|constructor]. exists o, idxs. split; [reflexivity | exact Hne].
  Qed.

  Lemma step_first i sc o' : nth_error fused i = Some sc -> sc_orig sc = Some o' -> o' <> [] ->
    exists st', build_groups_step fused [h] false (mkCg [new_group [h]] None None) (h, i) = Ok st'
                /\ inv st' /\ flat_map gidx (cg_groups st') = [i].
  Proof.
    intros Hn Ho Hne. unfold build_groups_step. rewrite Hn, Ho.
    destruct o' as [|c o'']; [congruence|]. cbv beta iota. remember (c :: o'') as orig eqn:Eo.
    cbn [cg_groups new_group map]. change [[(h, @nil (str * list nat))]] with ([] ++ [[(h, @nil (str * list nat))]]).
    rewrite last_opt_snoc, group_hap_single. cbv beta iota zeta.
    rewrite last_opt_snoc, group_add_single. cbn [aget aset].
    rewrite set_last_group_snoc. cbn [app]. eexists. split; [reflexivity|]. split.
    - exists [], orig, [i]. cbn [cg_groups cg_last_orig]. repeat split; [discriminate | constructor].
    - cbn [cg_groups app flat_map]. fold (one_group orig [i]). rewrite gidx_one. reflexivity.
  Qed.

  Lemma step_inv st i sc o' : inv st -> nth_error fused i = Some sc -> sc_orig sc = Some o' -> o' <> [] ->
    exists st', build_groups_step fused [h] false st (h, i) = Ok st'
                /\ inv st' /\ flat_map gidx (cg_groups st') = flat_map gidx (cg_groups st) ++ [i].
  Proof.
    intros (gs & o & idxs & Eg & Hidx & Elo & Hgs) Hn Ho Hne.
    unfold build_groups_step. rewrite Hn, Ho.
    destruct o' as [|c o'']; [congruence|]. cbv beta iota. remember (c :: o'') as orig eqn:Eo.
    rewrite Eg, last_opt_snoc. unfold one_group. rewrite group_hap_single. cbv beta iota zeta.
    rewrite Elo. cbn [opt_eqb].
    destruct (str_eqb orig o) eqn:E; cbn [negb].
    - apply str_eqb_eq in E. subst o.
      rewrite last_opt_snoc. rewrite group_add_single.
      cbn [aget aset]. rewrite str_eqb_refl. rewrite set_last_group_snoc.
      eexists. split; [reflexivity|]. split.
      + exists gs, orig, (idxs ++ [i]). cbn [cg_groups cg_last_orig].
        repeat split; [destruct idxs; discriminate | exact Hgs].
      + cbn [cg_groups]. fold (one_group orig (idxs ++ [i])). fold (one_group orig idxs).
        rewrite !flat_map_app. cbn [flat_map]. rewrite !gidx_one, !app_nil_r, app_assoc. reflexivity.
    - rewrite last_opt_snoc. cbn [new_group map]. rewrite group_add_single.
      cbn [aget aset app]. rewrite set_last_group_snoc.
      eexists. split; [reflexivity|]. split.
      + exists (gs ++ [one_group o idxs]), orig, [i]. cbn [cg_groups cg_last_orig].
        repeat split; [discriminate|]. apply Forall_app. split; [exact Hgs|].
        constructor; [|constructor]. exists o, idxs. split; [reflexivity | exact Hidx].
      + cbn [cg_groups]. fold (one_group orig [i]). fold (one_group o idxs).
        rewrite (flat_map_app _ (gs ++ [one_group o idxs])). cbn [flat_map].
        rewrite gidx_one, app_nil_r. reflexivity.
  Qed.

  Lemma fold_inv : forall items st, inv st ->
    Forall (fun it => fst it = h) items -> Forall (has_orig fused) items ->
    exists st', foldM (build_groups_step fused [h] false) items st = Ok st'
                /\ inv st' /\ flat_map gidx (cg_groups st') = flat_map gidx (cg_groups st) ++ map snd items.
  Proof.
    induction items as [|[h' i] items IH]; intros st Hinv Hh Ho.
    - exists st. cbn [foldM map]. rewrite app_nil_r. repeat split. exact Hinv.
    - inversion Hh as [|? ? Hh1 Hh2]; subst. inversion Ho as [|? ? Ho1 Ho2]; subst.
      cbn [fst] in Hh1. subst h'. destruct Ho1 as (sc & o & Hn & Hor & Hne). cbn [snd] in Hn.
      destruct (step_inv st i sc o Hinv Hn Hor Hne) as (st1 & E1 & Hinv1 & F1).
      destruct (IH st1 Hinv1 Hh2 Ho2) as (st2 & E2 & Hinv2 & F2).
      exists st2. cbn [foldM]. rewrite E1. cbn [bind]. split; [exact E2|]. split; [exact Hinv2|].
      rewrite F2, F1. cbn [map snd]. rewrite <- app_assoc. reflexivity.
  Qed.

  Lemma fold_from_start : forall items, items <> [] ->
    Forall (fun it => fst it = h) items -> Forall (has_orig fused) items ->
    exists st', foldM (build_groups_step fused [h] false) items (mkCg [new_group [h]] None None) = Ok st'
                /\ inv st' /\ flat_map gidx (cg_groups st') = map snd items.
  Proof.
    intros [|[h' i] items] Hne Hh Ho; [congruence|].
    inversion Hh as [|? ? Hh1 Hh2]; subst. inversion Ho as [|? ? Ho1 Ho2]; subst.
    cbn [fst] in Hh1. subst h'. destruct Ho1 as (sc & o & Hn & Hor & Hne'). cbn [snd] in Hn.
    destruct (step_first i sc o Hn Hor Hne') as (st1 & E1 & Hinv1 & F1).
    destruct (fold_inv items st1 Hinv1 Hh2 Ho2) as (st2 & E2 & Hinv2 & F2).
    exists st2. cbn [foldM]. rewrite E1. cbn [bind]. split; [exact E2|]. split; [exact Hinv2|].
    rewrite F2, F1. reflexivity.
  Qed.

  Lemma good_not_bad g : good_group g -> group_bad [h] g = false.
  Proof. intros (o & idxs & -> & _). unfold group_bad, one_group. rewrite group_hap_single. reflexivity. Qed.
End SingleHap.

(* The statement holds as given, WITHOUT assuming that equal original names
   are consecutive: going back to an earlier original name just opens a new
   group.  The stronger internal form ([good_group]: the group is literally
   [(h, [(o, idxs)])]) is what name_chromosomes_single_total uses. *)
Theorem single_hap_groups_strong : forall fused h items st,
  Forall (fun it => fst it = h) items -> items <> [] ->
  Forall (has_orig fused) items ->
  foldM (build_groups_step fused [h] false) items (mkCg [new_group [h]] None None) = Ok st ->
  Forall (good_group h) (cg_groups st)
  /\ flat_map (gidx h) (cg_groups st) = map snd items.
Proof.
  intros fused h items st Hh Hne Ho E.
  destruct (fold_from_start fused h items Hne Hh Ho) as (st' & E' & Hinv & F).
  rewrite E in E'. injection E' as <-. split; [apply inv_all_good; exact Hinv | exact F].
Qed.

Theorem single_hap_groups : forall fused h items st,
  Forall (fun it => fst it = h) items -> items <> [] ->
  Forall (fun it => exists sc o, nth_error fused (snd it) = Some sc /\ sc_orig sc = Some o /\ o <> []) items ->
  foldM (build_groups_step fused [h] false) items (mkCg [new_group [h]] None None) = Ok st ->
  Forall (fun g => exists o idxs, group_hap g h = [(o, idxs)] /\ idxs <> []) (cg_groups st)
  /\ flat_map (fun g => flat_map snd (group_hap g h)) (cg_groups st) = map snd items
  /\ existsb (group_bad [h]) (cg_groups st) = false.
Proof.
  intros fused h items st Hh Hne Ho E.
  destruct (single_hap_groups_strong fused h items st Hh Hne Ho E) as [G F].
  split; [|split].
  - eapply Forall_impl; [|exact G]. intros g (o & idxs & -> & Hi). exists o, idxs.
    unfold one_group. rewrite group_hap_single. split; [reflexivity | exact Hi].
  - exact F.
  - destruct (existsb (group_bad [h]) (cg_groups st)) eqn:B; [|reflexivity].
    apply existsb_exists in B as (g & Hg & Hb). rewrite Forall_forall in G.
    rewrite (good_not_bad h g (G g Hg)) in Hb. discriminate.
Qed.

(* ------------------------------------------ name_group only changes names *)
Definition same_but_name (a b : scaffold) : Prop :=
  sc_rows b = sc_rows a /\ sc_tag b = sc_tag a /\ sc_hap b = sc_hap a /\ sc_rank b = sc_rank a
  /\ sc_orig b = sc_orig a /\ sc_orig_tags b = sc_orig_tags a.

(* fs' is fs with some names changed, and only at positions listed in T *)
Definition upd_ok (T : list nat) (fs fs' : list scaffold) : Prop :=
  Forall2 same_but_name fs fs' /\ forall i, ~ In i T -> nth_error fs' i = nth_error fs i.

Lemma same_but_name_refl a : same_but_name a a.
Proof. repeat split. Qed.

Lemma same_but_name_trans a b c : same_but_name a b -> same_but_name b c -> same_but_name a c.
Proof. unfold same_but_name. intros (?&?&?&?&?&?) (?&?&?&?&?&?). repeat split; congruence. Qed.

Lemma Forall2_sbn_refl fs : Forall2 same_but_name fs fs.
Proof. induction fs; constructor; [apply same_but_name_refl | assumption]. Qed.

Lemma Forall2_sbn_trans : forall a b c,
  Forall2 same_but_name a b -> Forall2 same_but_name b c -> Forall2 same_but_name a c.
Proof.
  intros a b c H; revert c. induction H as [|x y a b Hxy Hab IH]; intros c Hc; inversion Hc; subst; constructor.
  - eapply same_but_name_trans; eassumption.
  - apply IH. assumption.
Qed.

Lemma Forall2_nth_error {A B} (R : A -> B -> Prop) : forall a b, Forall2 R a b ->
  forall i x, nth_error a i = Some x -> exists y, nth_error b i = Some y /\ R x y.
Proof.
  induction 1 as [|x y a b Hxy Hab IH]; intros [|i] z Hz; cbn [nth_error] in *; try discriminate.
  - injection Hz as <-. exists y. split; [reflexivity | exact Hxy].
  - apply IH. exact Hz.
Qed.

Lemma Forall2_len {A B} (R : A -> B -> Prop) : forall a b, Forall2 R a b -> length a = length b.
Proof. induction 1; cbn [length]; congruence. Qed.

Lemma upd_ok_refl T fs : upd_ok T fs fs.
Proof. split; [apply Forall2_sbn_refl | reflexivity]. Qed.

Lemma upd_ok_trans T1 T2 a b c : upd_ok T1 a b -> upd_ok T2 b c -> upd_ok (T1 ++ T2) a c.
Proof.
  intros [F1 N1] [F2 N2]. split; [eapply Forall2_sbn_trans; eassumption|].
  intros i Hi. rewrite N2, N1; [reflexivity | |]; intro; apply Hi, in_or_app; tauto.
Qed.

Lemma upd_ok_incl T T' a b : incl T T' -> upd_ok T a b -> upd_ok T' a b.
Proof. intros Hi [F N]. split; [exact F|]. intros i H. apply N. intro; apply H, Hi; assumption. Qed.

Lemma set_nth_upd_ok : forall fs i sc n, nth_error fs i = Some sc ->
  upd_ok [i] fs (set_nth fs i (with_name sc n)).
Proof.
  induction fs as [|x fs IH]; intros [|i] sc n H; cbn [nth_error] in H; try discriminate.
  - injection H as ->. cbn [set_nth]. split.
    + constructor; [repeat split | apply Forall2_sbn_refl].
    + intros [|j] Hj; [exfalso; apply Hj; left; reflexivity | reflexivity].
  - cbn [set_nth]. destruct (IH i sc n H) as [F N]. split.
    + constructor; [apply same_but_name_refl | exact F].
    + intros [|j] Hj; [reflexivity|]. cbn [nth_error]. apply N.
      intros [E|[]]. apply Hj. left. congruence.
Qed.

Lemma fold_upd_ok {X} (f : list scaffold -> X -> list scaffold) (T : X -> list nat) :
  (forall fs x, upd_ok (T x) fs (f fs x)) ->
  forall l fs, upd_ok (flat_map T l) fs (fold_left f l fs).
Proof.
  intros H. induction l as [|x l IH]; intro fs; cbn [flat_map fold_left]; [apply upd_ok_refl|].
  eapply upd_ok_trans; [apply H | apply IH].
Qed.

(* all the indices stored in a group *)
Definition gall (g : chr_group) : list nat := flat_map (fun p => flat_map snd (snd p)) g.

Lemma name_group_upd_ok prefix n fs g : upd_ok (gall g) fs (name_group prefix n fs g).
Proof.
  unfold name_group, gall. apply fold_upd_ok. clear fs g. intros fs [hap hap_set]. cbn [snd].
  set (names := multi_chr_list _ _). clearbody names.
  eapply upd_ok_incl;
    [| apply (fold_upd_ok _ (fun p : (str * list nat) * str => snd (fst p))) ].
  - intros i Hi. apply in_flat_map in Hi as (p & Hp & Hi). apply in_flat_map.
    destruct p as [[o idxs] nm]. exists (o, idxs). split; [eapply in_combine_l; exact Hp | exact Hi].
  - clear fs. intros fs [[orig idxs] this_chr]. cbn [fst snd].
    eapply upd_ok_incl; [| apply (fold_upd_ok _ (fun i : nat => [i])) ].
    + intros i Hi. apply in_flat_map in Hi as (j & Hj & [<-|[]]). exact Hj.
    + clear fs. intros fs i. destruct (nth_error fs i) as [sc|] eqn:E.
      * apply set_nth_upd_ok. exact E.
      * apply upd_ok_refl.
Qed.

Lemma name_groups_upd_ok prefix : forall gs fs n,
  upd_ok (flat_map gall gs) fs
         (fst (fold_left (fun '(fs, n) g => (name_group prefix n fs g, n + 1)) gs (fs, n))).
Proof.
  induction gs as [|g gs IH]; intros fs n; cbn [flat_map fold_left fst]; [apply upd_ok_refl|].
  eapply upd_ok_trans; [apply name_group_upd_ok | apply IH].
Qed.

Lemma dedup_acc_all_seen h : forall l, Forall (fun x => x = h) l -> dedup_acc str_eqb [h] l = [].
Proof.
  induction 1 as [|x l -> _ IH]; cbn [dedup_acc existsb]; [reflexivity|].
  rewrite str_eqb_refl. exact IH.
Qed.

Lemma dedup_all_same h : forall l, l <> [] -> Forall (fun x => x = h) l -> dedup str_eqb l = [h].
Proof.
  intros [|x l] Hne H; [congruence|]. inversion H as [|? ? H1 H2]; subst.
  unfold dedup. cbn [dedup_acc existsb]. f_equal. apply dedup_acc_all_seen. exact H2.
Qed.

Theorem name_chromosomes_single_total : forall prefix fused h items,
  Forall (fun it => fst it = h) items ->
  Forall (fun it => exists sc o, nth_error fused (snd it) = Some sc /\ sc_orig sc = Some o /\ o <> []) items ->
  exists fused', name_chromosomes prefix fused items = Ok fused'
    /\ length fused' = length fused
    /\ (forall i sc, nth_error fused i = Some sc -> exists sc', nth_error fused' i = Some sc'
          /\ sc_rows sc' = sc_rows sc /\ sc_tag sc' = sc_tag sc /\ sc_hap sc' = sc_hap sc /\ sc_rank sc' = sc_rank sc /\ sc_orig sc' = sc_orig sc)
    /\ (forall i, ~ In i (map snd items) -> nth_error fused' i = nth_error fused i).
Proof.
  intros prefix fused h items Hh Ho.
  assert (K : exists fused', name_chromosomes prefix fused items = Ok fused'
                             /\ upd_ok (map snd items) fused fused').
  { destruct items as [|it items'].
    - exists fused. split; [reflexivity | apply upd_ok_refl].
    - assert (Hne : it :: items' <> []) by discriminate.
      set (items := it :: items') in *. clearbody items.
      unfold name_chromosomes.
      assert (D : dedup str_eqb (map fst items) = [h]).
      { apply dedup_all_same; [destruct items; [congruence | discriminate]|].
        apply Forall_map. exact Hh. }
      rewrite D. change (1 <? zlen [h]) with false.
      destruct (fold_from_start fused h items Hne Hh Ho) as (st & E & Hinv & F).
      rewrite E. cbn [bind].
      pose proof (inv_all_good h st Hinv) as G.
      assert (B : existsb (group_bad [h]) (cg_groups st) = false).
      { destruct (existsb (group_bad [h]) (cg_groups st)) eqn:B; [|reflexivity].
        apply existsb_exists in B as (g & Hg & Hb). rewrite Forall_forall in G.
        rewrite (good_not_bad h g (G g Hg)) in Hb. discriminate. }
      rewrite B. eexists. split; [reflexivity|].
      eapply upd_ok_incl; [|apply name_groups_upd_ok].
      intros i Hi. apply in_flat_map in Hi as (g & Hg & Hi).
      apply (Permutation_in _ (sort_desc_perm _ _)) in Hg.
      rewrite <- F. apply in_flat_map. exists g. split; [exact Hg|].
      rewrite Forall_forall in G. destruct (G g Hg) as (o & idxs & -> & _).
      rewrite gidx_one. unfold gall, one_group in Hi. cbn [flat_map snd] in Hi.
      rewrite !app_nil_r in Hi. exact Hi. }
  destruct K as (fused' & E & F & N). exists fused'. split; [exact E|].
  split; [symmetry; eapply Forall2_len; exact F|]. split; [|exact N].
  intros i sc Hi. destruct (Forall2_nth_error _ _ _ F i sc Hi) as (sc' & Hs & R).
  exists sc'. split; [exact Hs|]. destruct R as (?&?&?&?&?&?). repeat split; assumption.
Qed.

(* --------------------- 5c. the number handed to each group is its 1-based
   position in the size-sorted list *)
Lemma name_groups_numbered prefix : forall gs fs n a,
  fold_left (fun '(fs, n) g => (name_group prefix n fs g, n + 1)) gs (fs, n)
  = (fold_left (fun fs '(k, g) => name_group prefix (n - Z.of_nat a + Z.of_nat k) fs g)
               (combine (seq a (length gs)) gs) fs,
     n + Z.of_nat (length gs)).
Proof.
  induction gs as [|g gs IH]; intros fs n a; cbn [fold_left length seq combine].
  - f_equal. lia.
  - rewrite (IH _ (n + 1) (S a)).
    replace (n - Z.of_nat a + Z.of_nat a) with n by lia.
    replace (n + 1 - Z.of_nat (S a)) with (n - Z.of_nat a) by lia.
    f_equal. lia.
Qed.

Theorem name_chromosomes_numbering : forall prefix fused haps (groups : list chr_group),
  let sorted := sort_by_Z_desc (group_length fused haps) groups in
  fst (fold_left (fun '(fs, n) g => (name_group prefix n fs g, n + 1)) sorted (fused, 1))
  = fold_left (fun fs '(k, g) => name_group prefix (Z.of_nat k + 1) fs g)
              (combine (seq 0 (length sorted)) sorted) fused.
Proof.
  intros. rewrite (name_groups_numbered prefix sorted fused 1 0). cbn [fst].
  (* the two step functions agree *)
  assert (E : forall k, 1 - Z.of_nat 0 + Z.of_nat k = Z.of_nat k + 1) by (intro; lia).
  generalize (combine (seq 0 (length sorted)) sorted) as l. intro l. clear -E. revert fused.
  induction l as [|[k g] l IH]; intro fs; cbn [fold_left]; [reflexivity|].
  rewrite E. apply IH.
Qed.

(* --------------------- 5d. effect of naming one single-haplotype group *)
Definition rename_step (f : str -> str) (fs : list scaffold) (i : nat) : list scaffold :=
  match nth_error fs i with
  | Some sc => set_nth fs i (with_name sc (f (sc_name sc)))
  | None => fs
  end.

Lemma rename_step_upd_ok f fs i : upd_ok [i] fs (rename_step f fs i).
Proof.
  unfold rename_step. destruct (nth_error fs i) eqn:E; [apply set_nth_upd_ok; exact E | apply upd_ok_refl].
Qed.

Lemma nth_error_set_nth_same {A} : forall (l : list A) i x y,
  nth_error l i = Some y -> nth_error (set_nth l i x) i = Some x.
Proof.
  induction l as [|z l IH]; intros [|i] x y H; cbn [nth_error set_nth] in *; try discriminate; [reflexivity|].
  eapply IH; exact H.
Qed.

Lemma rename_fold_at f : forall idxs fs i sc, NoDup idxs -> In i idxs -> nth_error fs i = Some sc ->
  nth_error (fold_left (rename_step f) idxs fs) i = Some (with_name sc (f (sc_name sc))).
Proof.
  induction idxs as [|j idxs IH]; intros fs i sc Hnd Hin Hn; [destruct Hin|].
  inversion Hnd as [|? ? Hj Hnd']; subst. cbn [fold_left].
  destruct (Nat.eq_dec j i) as [->|Hne].
  - destruct (fold_upd_ok (rename_step f) (fun i => [i]) (rename_step_upd_ok f) idxs (rename_step f fs i))
      as [_ N].
    rewrite N.
    + unfold rename_step. rewrite Hn. eapply nth_error_set_nth_same; exact Hn.
    + intro H. apply in_flat_map in H as (k & Hk & [<-|[]]). contradiction.
  - destruct Hin as [->|Hin]; [congruence|].
    apply IH; [exact Hnd' | exact Hin|].
    destruct (rename_step_upd_ok f fs j) as [_ N]. rewrite N; [exact Hn|].
    intros [E|[]]. congruence.
Qed.

Lemma name_group_one prefix n fs h o idxs :
  name_group prefix n fs [(h, [(o, idxs)])]
  = fold_left (rename_step (fun nm => replace o (prefix ++ str_of_Z n) nm None)) idxs fs.
Proof. reflexivity. Qed.

(* A member of group number n whose current name is <orig><sfx> is renamed
   <prefix><n><sfx>, provided <orig> does not occur inside <sfx>. *)
Theorem name_group_single_effect : forall prefix n fs h o idxs i sc sfx,
  NoDup idxs -> In i idxs -> nth_error fs i = Some sc ->
  o <> [] -> sc_name sc = o ++ sfx ->
  (forall j, (j < length sfx)%nat -> starts_with o (skipn j sfx) = false) ->
  nth_error (name_group prefix n fs [(h, [(o, idxs)])]) i
  = Some (with_name sc (prefix ++ str_of_Z n ++ sfx)).
Proof.
  intros prefix n fs h o idxs i sc sfx Hnd Hin Hn Ho Hname Hocc.
  rewrite name_group_one.
  rewrite (rename_fold_at _ idxs fs i sc Hnd Hin Hn). cbv beta.
  rewrite Hname, (replace_prefix_gen o _ sfx Ho Hocc), <- app_assoc. reflexivity.
Qed.

(* ============================================================ 7. examples *)
Definition ex_frag (name : str) (len : Z) : row := RF (mkFrag 0 name 1 len 1 []).
Definition ex_fused : list scaffold :=
  [ mkScaffold (s "Scaffold_1") [ex_frag (s "ctg1") 100] None None 1 (Some (s "Scaffold_1")) [s "Painted"];
    mkScaffold (s "Scaffold_2") [ex_frag (s "ctg2") 500] None None 1 (Some (s "Scaffold_2")) [s "Painted"];
    mkScaffold (s "Scaffold_2_unloc_1") [ex_frag (s "ctg3") 50] None None 1 (Some (s "Scaffold_2")) [s "Painted"; s "Unloc"] ].
Definition ex_items : list (str * nat) := [(s "None", 0%nat); (s "None", 1%nat); (s "None", 2%nat)].

(* Scaffold_2 with its unloc (500 + 50 bp) is bigger than Scaffold_1 (100 bp):
   it becomes SUPER_1 although it comes second *)
Example name_chromosomes_ex :
  match name_chromosomes (s "SUPER_") ex_fused ex_items with
  | Ok fs => map sc_name fs
  | Err _ => []
  end = [s "SUPER_2"; s "SUPER_1"; s "SUPER_1_unloc_1"].
Proof. vm_compute. reflexivity. Qed.

(* the hypotheses of name_chromosomes_single_total / single_hap_groups hold here *)
Example ex_items_ok :
  Forall (fun it => fst it = s "None") ex_items
  /\ Forall (fun it => exists sc o, nth_error ex_fused (snd it) = Some sc /\ sc_orig sc = Some o /\ o <> []) ex_items.
Proof.
  split; repeat constructor; cbn [snd ex_fused nth_error]; eexists; eexists;
    (split; [reflexivity | split; [reflexivity | discriminate]]).
Qed.

(* going back to an earlier original name opens a new group (no error, three groups) *)
Example back_to_earlier_name :
  let fused := [ mkScaffold (s "a") [ex_frag (s "c1") 10] None None 1 (Some (s "a")) [];
                 mkScaffold (s "b") [ex_frag (s "c2") 30] None None 1 (Some (s "b")) [];
                 mkScaffold (s "a") [ex_frag (s "c3") 20] None None 1 (Some (s "a")) [] ] in
  match name_chromosomes (s "S") fused [(s "h", 0%nat); (s "h", 1%nat); (s "h", 2%nat)] with
  | Ok fs => map sc_name fs
  | Err _ => []
  end = [s "S3"; s "S1"; s "S2"].
Proof. vm_compute. reflexivity. Qed.

(* rename_by_size: H_1, H_2, H_3 handed out again by non-increasing length, ties in input order *)
Example rename_by_size_ex :
  map (fun p => (fst (fst p), snd p))
      (rename_by_size [(1, (s "H_1", 10)); (2, (s "H_2", 30)); (3, (s "H_3", 30)); (4, (s "H_4", 5))]
                      (fun p => fst (snd p)) (fun p => snd (snd p)))
  = [(2, s "H_1"); (3, s "H_2"); (1, s "H_3"); (4, s "H_4")].
Proof. vm_compute. reflexivity. Qed.

Example label_scaffold_ex :
  let nm := mkNamer (s "SUPER_") (Some (s "Scaffold_7")) 1 None 4 [10; 11] None false 2 [20; 21] [] in
  (match label_scaffold nm 30 [s "Haplotig"] [s "Painted"] with Ok (nm', l) => (lb_name l, nm_hap_scaffolds nm') | Err _ => ([], []) end,
   match label_scaffold nm 31 [s "Unloc"] [s "Painted"] with Ok (nm', l) => (lb_name l, nm_unloc_scaffolds nm') | Err _ => ([], []) end)
  = ((s "H_5", [10; 11; 30]), (s "Scaffold_7_unloc_3", [20; 21; 31])).
Proof. vm_compute. reflexivity. Qed.

(* =========================================================== assumptions *)
Print Assumptions rename_by_size_spec.
Print Assumptions haplotig_names_sequential.
Print Assumptions unloc_names_sequential.
Print Assumptions other_labels_keep_counters.
Print Assumptions multi_chr_list_spec.
Print Assumptions single_hap_groups.
Print Assumptions name_chromosomes_single_total.
Print Assumptions groups_sorted_desc.
Print Assumptions groups_sorted_stable.
Print Assumptions name_chromosomes_numbering.
Print Assumptions replace_prefix.
Print Assumptions replace_prefix_gen.
Print Assumptions replace_prefix_unloc.
Print Assumptions name_group_single_effect.
Print Assumptions name_chromosomes_ex.
