(* C10 numbering, first half of the pipeline: two facts about the scaffolds
   that come out of the fusion which UniqueNames.v does not record.

   1. fused_rank1_untagged   a rank-1 scaffold carries no tag (so, without
                             haplotypes, ChrNamer sees ONE haplotype key);
   2. fused_order            when the Pretext scaffold names are pairwise
                             different, the fused scaffolds are in the order
                             of the Pretext scaffolds they were painted in
                             ([pos]: index of the original name in the map),
                             so the rank-1 scaffolds of one Pretext scaffold
                             are consecutive for ChrNamer. *)
From Tola Require Import Py.Base Py.Dec Py.Sort Model.Fragment Model.Scaffold Model.Lookup
  Model.OverlapResult Model.NaturalKey Model.Namer Model.Remap.
From Tola Require Import Proofs.BaseLemmas Proofs.Routing Proofs.Naming Proofs.UniqueNames.
From Tola Require Proofs.RemapTail Proofs.RemapHead.
From Coq Require Import Lia ZifyBool Permutation Sorted.

(* ============================================================ 0. sorted lists *)
Section SS.
  Context {A : Type} (R : A -> A -> Prop).

  Lemma SS_app_intro a b : StronglySorted R a -> StronglySorted R b ->
    (forall x y, In x a -> In y b -> R x y) -> StronglySorted R (a ++ b).
  Proof.
    induction a as [|z a IH]; intros Ha Hb H; cbn [app]; [exact Hb|].
    inversion Ha as [|? ? Ha1 Ha2]; subst. constructor.
    - apply IH; [exact Ha1 | exact Hb|]. intros x y Ix Iy. apply H; [right; exact Ix | exact Iy].
    - apply Forall_app. split; [exact Ha2|]. apply Forall_forall. intros y Iy.
      apply H; [left; reflexivity | exact Iy].
  Qed.

  Lemma SS_app_inv a b : StronglySorted R (a ++ b) ->
    StronglySorted R a /\ StronglySorted R b /\ (forall x y, In x a -> In y b -> R x y).
  Proof.
    induction a as [|z a IH]; cbn [app]; intro H.
    - split; [constructor|]. split; [exact H|]. intros x y [].
    - inversion H as [|? ? H1 H2]; subst. destruct (IH H1) as (Sa & Sb & C).
      apply Forall_app in H2 as [F1 F2]. split; [constructor; assumption|]. split; [exact Sb|].
      intros x y [<-|Ix] Iy; [|exact (C x y Ix Iy)]. rewrite Forall_forall in F2. exact (F2 y Iy).
  Qed.

  Lemma SS_remove_mid a x b : StronglySorted R (a ++ x :: b) -> StronglySorted R (a ++ b).
  Proof.
    intro H. apply SS_app_inv in H as (Sa & Sb & C). inversion Sb as [|? ? Sb1 _]; subst.
    apply SS_app_intro; [exact Sa | exact Sb1|]. intros u v Iu Iv. apply C; [exact Iu | right; exact Iv].
  Qed.
End SS.

(* ================================================= 1. position of a name *)
Fixpoint index_of (x : str) (l : list str) : nat :=
  match l with
  | [] => O
  | y :: t => if str_eqb x y then O else S (index_of x t)
  end.

Lemma index_of_le x : forall l, (index_of x l <= length l)%nat.
Proof.
  induction l as [|y l IH]; cbn [index_of length]; [lia|]. destruct (str_eqb x y); lia.
Qed.

Lemma index_of_inj : forall l x y, In x l -> In y l -> index_of x l = index_of y l -> x = y.
Proof.
  induction l as [|z l IH]; intros x y Ix Iy E; [destruct Ix|]. cbn [index_of] in E.
  destruct (str_eqb x z) eqn:Ex, (str_eqb y z) eqn:Ey; try discriminate.
  - apply str_eqb_eq in Ex, Ey. congruence.
  - injection E as E. apply str_eqb_neq in Ex, Ey. apply IH; [| |exact E].
    + destruct Ix as [Ix|Ix]; [congruence | exact Ix].
    + destruct Iy as [Iy|Iy]; [congruence | exact Iy].
Qed.

Lemma index_of_app_new : forall done x todo, ~ In x done -> index_of x (done ++ x :: todo) = length done.
Proof.
  induction done as [|y done IH]; intros x todo NI; cbn [app index_of length].
  - rewrite str_eqb_refl. reflexivity.
  - destruct (str_eqb x y) eqn:E.
    + apply str_eqb_eq in E. subst y. exfalso. apply NI. left. reflexivity.
    + f_equal. apply IH. intro I. apply NI. right. exact I.
Qed.

(* the position of an original name in the map; "no original name" comes last *)
Definition pos (names : list str) (o : option str) : nat :=
  match o with Some x => index_of x names | None => length names end.

Lemma pos_le names o : (pos names o <= length names)%nat.
Proof. destruct o as [x|]; cbn [pos]; [apply index_of_le | lia]. Qed.

(* ===================================================== 2. the invariant *)
(* rank 1 implies no tag *)
Definition tq (l : labs) : Prop := let '(_, tag, _, rank, _) := l in rank = 1 -> tag = None.

Definition okey (names : list str) (origs : list (option str)) (id : rid) : nat :=
  pos names (nth (Z.to_nat id) origs None).
Definition KL (names : list str) (st : list ovr) (added : list rid) : list nat :=
  map (okey names (map o_orig st)) added.

Definition HInv (names : list str) (j : nat) (st : list ovr) (added : list rid) : Prop :=
  Forall (fun id => 0 <= id < zlen st) added
  /\ StronglySorted le (KL names st added)
  /\ Forall (fun k => (k <= j)%nat) (KL names st added)
  /\ Forall (fun r => tq (o_labs r)) st.

Lemma zlen_snoc {A} (l : list A) x : zlen (l ++ [x]) = zlen l + 1.
Proof. unfold zlen. rewrite app_length. cbn [length]. lia. Qed.

Lemma KL_app_old names st r added :
  Forall (fun id => 0 <= id < zlen st) added -> KL names (st ++ [r]) added = KL names st added.
Proof.
  intro F. unfold KL. apply map_ext_in. intros id I. rewrite Forall_forall in F. specialize (F id I).
  unfold okey. rewrite map_app. rewrite app_nth1; [reflexivity|]. rewrite map_length. unfold zlen in F. lia.
Qed.

Lemma okey_new names st r : okey names (map o_orig (st ++ [r])) (zlen st) = pos names (o_orig r).
Proof.
  unfold okey, zlen. rewrite Nat2Z.id, map_app. rewrite app_nth2 by (rewrite map_length; lia).
  rewrite map_length, Nat.sub_diag. reflexivity.
Qed.

Lemma HInv_mono names j j' st added : (j <= j')%nat -> HInv names j st added -> HInv names j' st added.
Proof.
  intros L (R & S & B & T). split; [exact R|]. split; [exact S|]. split; [|exact T].
  eapply Forall_impl; [|exact B]. cbv beta. intros k Hk. lia.
Qed.

Definition tr (r : ovr) : option str * Z := (o_tag r, o_rank r).

Lemma HInv_store names j st st' added :
  map o_orig st' = map o_orig st -> map tr st' = map tr st ->
  HInv names j st added -> HInv names j st' added.
Proof.
  intros Mo Mt (R & S & B & T).
  assert (Len : zlen st' = zlen st).
  { unfold zlen. f_equal. rewrite <- (map_length o_orig st'), Mo, map_length. reflexivity. }
  unfold HInv, KL. rewrite Len, Mo. split; [exact R|]. split; [exact S|]. split; [exact B|].
  exact (Forall_map_eq tr (fun p : option str * Z => snd p = 1 -> fst p = None) st st' Mt T).
Qed.

Definition orig_of_labs (l : labs) : option str := let '(_, _, _, _, o) := l in o.
Definition tr_of_labs (l : labs) : option str * Z := let '(_, t, _, r, _) := l in (t, r).

Lemma HInv_labs names j st st' added :
  map o_labs st' = map o_labs st -> HInv names j st added -> HInv names j st' added.
Proof.
  intro M. apply HInv_store.
  - change o_orig with (fun r => orig_of_labs (o_labs r)).
    rewrite <- !(map_map o_labs orig_of_labs), M. reflexivity.
  - change tr with (fun r => tr_of_labs (o_labs r)).
    rewrite <- !(map_map o_labs tr_of_labs), M. reflexivity.
Qed.

(* ------------------------------------------------------- label_scaffold *)
Lemma label_tq nm id ft st nm' l : label_scaffold nm id ft st = Ok (nm', l) -> lb_rank l = 1 -> lb_tag l = None.
Proof.
  unfold label_scaffold. intro H.
  set (cont := mem_str (s "Contaminant") ft || nm_target nm && negb (mem_str (s "Target") st)) in H.
  destruct (mem_str (s "FalseDuplicate") ft).
  { injection H as _ <-. cbn [lb_rank lb_tag]. intro X. lia. }
  destruct (mem_str (s "Haplotig") ft).
  { injection H as _ <-. cbn [lb_rank lb_tag]. intro X. lia. }
  destruct (mem_str (s "Unloc") ft).
  { destruct (negb (mem_str (s "Painted") st)); [discriminate|].
    injection H as _ <-. cbn [lb_rank lb_tag]. destruct cont; [intro X; lia | reflexivity]. }
  injection H as _ <-. cbn [lb_rank lb_tag]. destruct cont; [intro X; lia | reflexivity].
Qed.

(* ------------------------------------------------------------- one_bait *)
Lemma one_bait_hinv names j input err sc_tags pname b bait b' :
  pos names (Some pname) = j ->
  HInv names j (b_store b) (b_added b) -> one_bait input err sc_tags pname b bait = Ok b' ->
  HInv names j (b_store b') (b_added b').
Proof.
  intros Hj HI H. unfold one_bait in H. unfold bind in H.
  destruct (input_rows input (f_name bait)) as [rows|]; [|discriminate].
  destruct (find_overlaps rows (f_start bait) (f_end bait)) as [[fo|]|]; [|injection H as <-; exact HI|discriminate].
  destruct (label_scaffold (b_namer b) (zlen (b_store b)) (f_tags bait) sc_tags) as [[nm lab]|] eqn:EL; [|discriminate].
  destruct (trim_large_overhangs (set_labels (ovr_of_found bait fo) lab pname sc_tags) err) as [r1|] eqn:ET; [|discriminate].
  pose proof (trim_large_labs _ _ _ ET) as L. unfold o_labs in L.
  cbn [set_labels o_name o_tag o_hap o_rank o_orig] in L. injection L as Ln Lt Lh Lr Lo.
  assert (EB : b_store b' = b_store b ++ [r1]
               /\ (b_added b' = b_added b \/ b_added b' = b_added b ++ [zlen (b_store b)])).
  { destruct (o_rows r1); injection H as <-; [split; [reflexivity | left; reflexivity]|].
    unfold store_fragments_found. cbn [b_store b_found b_multi b_added b_namer b_cuts].
    destruct (fold_left _ _ _). cbn [b_store b_added]. split; [reflexivity | right; reflexivity]. }
  destruct EB as [Es Ea]. destruct HI as (R & S & B & T). rewrite Es.
  assert (T' : Forall (fun r => tq (o_labs r)) (b_store b ++ [r1])).
  { apply Forall_app. split; [exact T|]. constructor; [|constructor].
    unfold tq, o_labs. rewrite Lt, Lr. exact (label_tq _ _ _ _ _ _ EL). }
  assert (R' : Forall (fun id => 0 <= id < zlen (b_store b ++ [r1])) (b_added b)).
  { eapply Forall_impl; [|exact R]. cbv beta. intros id Hid. rewrite zlen_snoc. lia. }
  pose proof (KL_app_old names (b_store b) r1 (b_added b) R) as K.
  destruct Ea as [Ea|Ea]; rewrite Ea.
  - unfold HInv. rewrite K. auto.
  - assert (K2 : KL names (b_store b ++ [r1]) (b_added b ++ [zlen (b_store b)])
                 = KL names (b_store b) (b_added b) ++ [j]).
    { unfold KL at 1. rewrite map_app. fold (KL names (b_store b ++ [r1]) (b_added b)). rewrite K.
      cbn [map]. rewrite okey_new, Lo, Hj. reflexivity. }
    unfold HInv. rewrite K2. split; [|split; [|split; [|exact T']]].
    + apply Forall_app. split; [exact R'|]. constructor; [|constructor]. rewrite zlen_snoc. unfold zlen. lia.
    + apply SS_app_intro; [exact S | constructor; [constructor | constructor]|].
      intros x y Ix [<-|[]]. rewrite Forall_forall in B. exact (B x Ix).
    + apply Forall_app. split; [exact B|]. constructor; [lia | constructor].
Qed.

(* ------------------------------------------------- one Pretext scaffold *)
Lemma one_pretext_scaffold_hinv names j input err b pname prows b' :
  pos names (Some pname) = j ->
  HInv names j (b_store b) (b_added b) -> one_pretext_scaffold input err b (pname, prows) = Ok b' ->
  HInv names j (b_store b') (b_added b').
Proof.
  intros Hj HI H. unfold one_pretext_scaffold, bind in H.
  destruct (make_scaffold_name (b_namer b) pname prows (fragment_tags prows)) as [nm|] eqn:EM; [|discriminate].
  destruct (foldM _ (frags_of prows) (with_namer b nm)) as [b1|] eqn:EF; [|discriminate].
  destruct (rename_results (b_store b1) (nm_unloc_scaffolds (b_namer b1))) as [st|] eqn:ER; [|discriminate].
  injection H as <-. cbn [with_store b_store b_added].
  assert (I1 : HInv names j (b_store b1) (b_added b1)).
  { apply (foldM_inv' (one_bait input err (fragment_tags prows) pname)
             (fun s => HInv names j (b_store s) (b_added s))) with (3 := EF).
    - intros s0 a s1 Hs E. eapply one_bait_hinv; eassumption.
    - exact HI. }
  destruct (rename_results_spec _ _ _ ER) as [R1 _].
  apply (HInv_store names j (b_store b1)); [apply R1; reflexivity | apply R1; reflexivity | exact I1].
Qed.

Lemma pretext_fold_hinv names input err : forall todo done b b',
  names = done ++ map fst todo -> NoDup names ->
  HInv names (length done) (b_store b) (b_added b) ->
  foldM (one_pretext_scaffold input err) todo b = Ok b' ->
  HInv names (length names) (b_store b') (b_added b').
Proof.
  induction todo as [|[pname prows] todo IH]; intros done b b' En N HI H; cbn [foldM] in H.
  - injection H as <-. cbn [map] in En. rewrite app_nil_r in En. subst done. exact HI.
  - unfold bind in H. destruct (one_pretext_scaffold input err b (pname, prows)) as [b1|] eqn:E; [|discriminate].
    cbn [map fst] in En.
    assert (Hj : pos names (Some pname) = length done).
    { cbn [pos]. rewrite En. apply index_of_app_new. rewrite En in N. apply NoDup_remove_2 in N.
      intro I. apply N. apply in_or_app. left. exact I. }
    pose proof (one_pretext_scaffold_hinv names (length done) input err b pname prows b1 Hj HI E) as I1.
    apply (IH (done ++ [pname]) b1 b'); [rewrite <- app_assoc; exact En | exact N | | exact H].
    rewrite app_length. cbn [length]. eapply HInv_mono; [|exact I1]. lia.
Qed.

(* ------------------------------------------------------------ left-overs *)
Definition left_lab (sc : scaffold) : Prop := sc_rank sc = 3 /\ sc_orig sc = None.

Lemma leftovers_left_lab c g found : forall inp nm left nm' left',
  Forall left_lab left ->
  foldM (add_missing_one c g found) inp (nm, left) = Ok (nm', left') ->
  Forall left_lab left'.
Proof.
  induction inp as [|[name rows] inp IH]; intros nm left nm' left' F H; cbn [foldM] in H.
  - injection H as _ <-. exact F.
  - unfold bind in H. destruct (add_missing_one c g found (nm, left) (name, rows)) as [[nm1 left1]|] eqn:E; [|discriminate].
    apply (IH nm1 left1 nm' left'); [|exact H].
    unfold add_missing_one in E.
    destruct (missing_rows c found g rows [] 0 None) as [|r0 new_rows]; [injection E as _ <-; exact F|].
    unfold bind in E. destruct (make_scaffold_name nm name (r0 :: new_rows) []) as [nm2|]; [|discriminate].
    injection E as _ <-. apply Forall_app. split; [exact F|]. constructor; [|constructor].
    split; reflexivity.
Qed.

(* ------------------------------------------------------- the whole head *)
Theorem head_order : forall c g prefix bpt input pretext rs,
  NoDup (map fst pretext) ->
  remap_to_input c g prefix bpt input pretext = Ok rs ->
  HInv (map fst pretext) (length (map fst pretext)) (b_store (rs_b rs)) (b_added (rs_b rs))
  /\ Forall left_lab (rs_left rs).
Proof.
  intros c g prefix bpt input pretext rs N H. unfold remap_to_input in H.
  destruct (has_dup_names (map fst input)); [discriminate|]. unfold bind in H.
  destruct (foldM _ pretext _) as [b1|] eqn:E1; [|discriminate].
  destruct (discard_loop _ _ b1) as [b2|] eqn:E2; [|discriminate].
  destruct (cut_remaining_overhangs c b2) as [b3|] eqn:E3; [|discriminate].
  destruct (rename_results (b_store b3) (nm_hap_scaffolds (b_namer b3))) as [st|] eqn:E4; [|discriminate].
  destruct (foldM _ (number_input input 0) _) as [[nm' left]|] eqn:E5; [|discriminate].
  injection H as <-. cbn [rs_b rs_left with_namer with_store b_store b_added fst snd].
  set (names := map fst pretext) in *.
  assert (I1 : HInv names (length names) (b_store b1) (b_added b1)).
  { apply (pretext_fold_hinv names _ _ pretext [] _ b1) with (4 := E1); [reflexivity | exact N|].
    cbn [b_store b_added length]. unfold HInv, KL. cbn [map].
    repeat split; constructor. }
  destruct (discard_loop_labs _ _ _ _ E2) as (L2 & A2 & _).
  destruct (cut_remaining_labs _ _ _ E3) as (L3 & A3 & _).
  assert (I3 : HInv names (length names) (b_store b3) (b_added b3)).
  { rewrite A3, A2. apply (HInv_labs names _ (b_store b1)); [congruence | exact I1]. }
  destruct (rename_results_spec _ _ _ E4) as [R1 _].
  split.
  - apply (HInv_store names _ (b_store b3)); [apply R1; reflexivity | apply R1; reflexivity | exact I3].
  - exact (leftovers_left_lab c g _ _ _ _ _ _ (Forall_nil _) E5).
Qed.

(* ======================================================= 3. the fusion *)
Lemma fuse_step_cases c g acc sc isr :
  fuse_step c g acc (sc, isr) = acc
  \/ (exists l1 k v0 v l2, acc = l1 ++ (k, v0) :: l2 /\ fuse_step c g acc (sc, isr) = l1 ++ (k, v) :: l2
                           /\ sc_labs v = sc_labs v0)
  \/ (exists k v, fuse_step c g acc (sc, isr) = acc ++ [(k, v)] /\ sc_labs v = sc_labs sc).
Proof.
  unfold fuse_step. destruct (sc_rows sc) as [|r0 rows0]; [left; reflexivity|]. right.
  cbv zeta.
  match goal with |- context [aset fuse_key_eqb acc ?k ?v] =>
    destruct (aset_cases fuse_key_eqb fuse_key_eqb_eq acc k v) as [(l1 & v0 & l2 & E1 & E2 & E3)|[E1 E2]];
    rewrite E2 end.
  - left. rewrite E3. exists l1. eexists. exists v0. eexists. exists l2.
    split; [exact E1|]. split; [reflexivity|]. reflexivity.
  - right. rewrite E1. eexists. eexists. split; [reflexivity|]. reflexivity.
Qed.

Section FuseOrder.
  Variable key : scaffold -> nat.
  Hypothesis Hkey : forall a b, sc_labs a = sc_labs b -> key a = key b.

  Lemma fuse_fold_sorted c g : forall pieces acc,
    StronglySorted le (map key (map snd acc) ++ map key (map fst pieces)) ->
    StronglySorted le (map key (map snd (fold_left (fuse_step c g) pieces acc))).
  Proof.
    induction pieces as [|[sc isr] pieces IH]; intros acc H; cbn [fold_left].
    - cbn [map] in H. rewrite app_nil_r in H. exact H.
    - apply IH. cbn [map fst] in H.
      destruct (fuse_step_cases c g acc sc isr)
        as [E|[(l1 & k & v0 & v & l2 & E1 & E2 & E3)|(k & v & E2 & E3)]]; rewrite E2 || rewrite E.
      + eapply SS_remove_mid. exact H.
      + rewrite E1 in H. rewrite !map_app in *. cbn [map snd] in *.
        rewrite (Hkey v v0 E3). eapply SS_remove_mid. exact H.
      + rewrite !map_app. cbn [map snd]. rewrite (Hkey v sc E3). rewrite <- app_assoc. exact H.
  Qed.
End FuseOrder.

Lemma results_keys names st : forall ids rs,
  mapM (get_ovr st) ids = Ok rs -> map (fun r => pos names (o_orig r)) rs = KL names st ids.
Proof.
  induction ids as [|id ids IH]; intros rs H; cbn [mapM] in H.
  - injection H as <-. reflexivity.
  - unfold bind in H. destruct (get_ovr st id) as [r|] eqn:G; [|discriminate].
    destruct (mapM (get_ovr st) ids) as [rs'|]; [|discriminate]. injection H as <-.
    unfold KL. cbn [map]. fold (KL names st ids). rewrite (IH rs' eq_refl). f_equal.
    unfold okey. apply get_ovr_nth in G.
    rewrite (nth_error_nth _ _ None (map_nth_error o_orig _ _ G)). reflexivity.
Qed.

Definition skey (names : list str) (sc : scaffold) : nat := pos names (sc_orig sc).

Lemma skey_labs names a b : sc_labs a = sc_labs b -> skey names a = skey names b.
Proof. unfold sc_labs, skey. intro E. injection E as _ _ _ _ E. rewrite E. reflexivity. Qed.

(* the fused scaffolds are in the order of the Pretext scaffolds; no rank-1 scaffold is tagged *)
Theorem fused_order : forall c g prefix bpt input pretext rs fused0,
  NoDup (map fst pretext) ->
  remap_to_input c g prefix bpt input pretext = Ok rs -> fuse_all c g rs = Ok fused0 ->
  StronglySorted le (map (skey (map fst pretext)) fused0)
  /\ Forall (fun sc => sc_rank sc = 1 -> sc_tag sc = None) fused0.
Proof.
  intros c g prefix bpt input pretext rs fused0 N H HF.
  destruct (head_order _ _ _ _ _ _ _ N H) as [(R & S & B & T) FL].
  set (names := map fst pretext) in *. split.
  - unfold fuse_all, bind in HF.
    destruct (mapM (get_ovr (b_store (rs_b rs))) (b_added (rs_b rs))) as [results|] eqn:M; [|discriminate].
    injection HF as <-. apply (fuse_fold_sorted (skey names) (skey_labs names)).
    cbn [map app]. rewrite !map_app, !map_map. cbn [fst piece_of_result].
    apply SS_app_intro.
    + change (fun x : ovr => skey names (mkScaffold (o_name x) (to_scaffold_rows x) (o_tag x) (o_hap x)
                                           (o_rank x) (o_orig x) (o_orig_tags x)))
        with (fun r : ovr => pos names (o_orig r)).
      rewrite (results_keys names _ _ _ M). exact S.
    + assert (EL : forall sc, In sc (rs_left rs) -> skey names sc = length names).
      { intros sc I. rewrite Forall_forall in FL. destruct (FL sc I) as [_ O]. unfold skey. rewrite O. reflexivity. }
      clear -EL. induction (rs_left rs) as [|sc l IH]; cbn [map]; constructor.
      * apply IH. intros x Ix. apply EL. right. exact Ix.
      * apply Forall_forall. intros y Iy. apply in_map_iff in Iy as (sc' & <- & I').
        rewrite (EL sc (or_introl eq_refl)), (EL sc' (or_intror I')). lia.
    + intros x y Ix Iy. apply in_map_iff in Iy as (sc & <- & Isc). rewrite Forall_forall in FL.
      destruct (FL sc Isc) as [_ O]. unfold skey at 1. rewrite O. cbn [pos].
      apply in_map_iff in Ix as (r & <- & _). unfold skey. apply pos_le.
  - assert (K : Forall (fun sc => tq (sc_labs sc)) fused0).
    { apply (fuse_all_labs tq c g rs fused0); [exact T | | exact HF].
      eapply Forall_impl; [|exact FL]. intros sc [R3 _]. unfold tq, sc_labs. intro X. lia. }
    eapply Forall_impl; [|exact K]. intros sc Hsc. exact Hsc.
Qed.

Print Assumptions fused_order.
