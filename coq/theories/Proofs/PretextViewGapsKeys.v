(* PretextViewGaps, part 3: which keys the found table holds.
   - after the lookups: the key of every contig that a bait's trimmed result
     keeps ([keeps]) is in the table, and every key in the table is the key of
     a row of some bait's looked-up result ([looked]);
   - the overhang resolver and the cuts neither add nor remove keys;
   - hence the table that add_missing_scaffolds_from_input consults has
     exactly the keys of the table after the lookups
     ([remap_to_input_found]). *)
From Tola Require Import Py.Base Py.Sort Model.Fragment Model.Scaffold Model.Lookup
  Model.OverlapResult Model.OvrSpec Model.NaturalKey Model.Namer Model.Remap Model.RemapSpec
  Proofs.BaseLemmas Proofs.Lookup Proofs.OverlapResult Proofs.RemapHead Proofs.PipelineInv
  Proofs.CoreKeptGood Proofs.CoreKeptResolver Proofs.CoreKeptLookup Proofs.CoreKept
  Proofs.NeighbourGaps.
From Coq Require Import Lia ZifyBool.

(* --------------------------------------------------------------- key sets *)
Lemma map_fst_aset {V} (d : list (fkey * V)) k v k' :
  In k' (map fst (aset key_eqb d k v)) <-> In k' (map fst d) \/ k' = k.
Proof.
  induction d as [|[k0 v0] d IH]; cbn [aset map fst In].
  - split; [intros [<- | []]; right; reflexivity | intros [[] | ->]; left; reflexivity].
  - destruct (key_eqb k k0) eqn:E; cbn [map fst In].
    + apply key_eqb_eq in E. subst k0.
      split; [intros H; left; exact H | intros [H | ->]; [exact H | left; reflexivity]].
    + rewrite IH. tauto.
Qed.

Lemma store_found_one_keys id found multi g found' multi' k :
  store_found_one id (found, multi) g = (found', multi') ->
  In k (map fst found') <-> In k (map fst found) \/ k = key_of g.
Proof.
  intros H. unfold store_found_one in H.
  destruct (aget key_eqb found (key_of g)) as [[f0 ids]|] eqn:E.
  - injection H as <- _. apply map_fst_aset.
  - injection H as <- _. rewrite map_app, in_app_iff. cbn [map fst In].
    split; [intros [H | [<- | []]]; [left; exact H | right; reflexivity]
           | intros [H | ->]; [left; exact H | right; left; reflexivity]].
Qed.

Lemma store_found_fold_keys id k : forall gs found multi found' multi',
  fold_left (store_found_one id) gs (found, multi) = (found', multi') ->
  In k (map fst found') <-> In k (map fst found) \/ In k (map key_of gs).
Proof.
  induction gs as [|g gs IH]; intros found multi found' multi' H; cbn [fold_left] in H.
  - injection H as <- _. cbn [map In]. tauto.
  - destruct (store_found_one id (found, multi) g) as [f1 m1] eqn:E1.
    rewrite (IH _ _ _ _ H), (store_found_one_keys _ _ _ _ _ _ k E1). cbn [map In].
    split; [intros [[X | X] | X]; auto | intros [X | [X | X]]; auto].
Qed.

(* ------------------------------------------------ resolver: keys unchanged *)
Lemma bookkeeping_keys : forall fixes found multi found' multi',
  foldM apply_fix_bookkeeping fixes (found, multi) = Ok (found', multi') ->
  forall k, In k (map fst found') <-> In k (map fst found).
Proof.
  induction fixes as [|p fixes IH]; intros found multi found' multi' H k; cbn [foldM] in H.
  - injection H as <- _. reflexivity.
  - bind_inv H acc Hacc. destruct acc as [found1 multi1].
    rewrite (IH _ _ _ _ H k). unfold apply_fix_bookkeeping in Hacc.
    destruct (existsb (key_eqb (key_of (pr_frag p))) multi); [|injection Hacc as <- _; reflexivity].
    destruct (aget key_eqb found (key_of (pr_frag p))) as [[f0 ids]|] eqn:Eg; [|discriminate].
    destruct (existsb (Z.eqb (pr_rid p)) ids); [|discriminate].
    injection Hacc as <- _. rewrite map_fst_aset.
    split; [intros [X | ->]; [exact X|] | intros X; left; exact X].
    apply (aget_In key_eqb key_eqb_eq) in Eg. apply (in_map fst) in Eg. exact Eg.
Qed.

Lemma discard_loop_keys err : forall fuel b b',
  discard_loop fuel err b = Ok b' ->
  forall k, In k (map fst (b_found b')) <-> In k (map fst (b_found b)).
Proof.
  induction fuel as [|fuel IH]; intros b b' H k; cbn [discard_loop] in H; [discriminate|].
  destruct (b_multi b) as [|k0 m0] eqn:Em; [injection H as <-; reflexivity|].
  bind_inv H pls Hpls. bind_inv H r Hr. destruct r as [st fixes].
  destruct fixes as [|p0 fx0] eqn:Efx.
  - injection H as <-. reflexivity.
  - rewrite <- Efx in H. bind_inv H fm Hfm. destruct fm as [found' multi'].
    rewrite (IH _ _ H k). cbn [b_found]. eapply bookkeeping_keys. exact Hfm.
Qed.

(* ---------------------------------------------------- cuts: table unchanged *)
Lemma cut_fragments_found c b k b' : cut_fragments c b k = Ok b' -> b_found b' = b_found b.
Proof.
  intros H. unfold cut_fragments in H.
  destruct (aget key_eqb (b_found b) k) as [[f ids]|]; [|discriminate].
  bind_inv H keyed Hkeyed. bind_inv H r Hr. destruct r as [st subs].
  bind_inv H u Hu. injection H as <-. reflexivity.
Qed.

Lemma cut_remaining_found c b b' : cut_remaining_overhangs c b = Ok b' -> b_found b' = b_found b.
Proof.
  intros H. unfold cut_remaining_overhangs in H. bind_inv H b1 Hb1. injection H as <-.
  cbn [b_found].
  apply (foldM_inv (cut_fragments c) (fun b0 => b_found b0 = b_found b))
    with (l := b_multi b) (s := b); [|reflexivity | exact Hb1].
  intros s0 a s1 Hs0 Hf. rewrite (cut_fragments_found _ _ _ _ Hf). exact Hs0.
Qed.

(* ------------------------------------------------------------ the lookups *)
Section Lookups.
  Variable inp : list (str * list row).
  Variable err : Z.
  Variable all : list frag.

  (* whatever the labels, the trimmed result of the bait's lookup holds f *)
  Definition keeps (bait f : frag) : Prop :=
    exists rows fo, input_rows inp (f_name bait) = Ok rows
      /\ find_overlaps rows (f_start bait) (f_end bait) = Ok (Some fo)
      /\ forall r0 r1, o_bait r0 = bait -> o_rows r0 = fo_rows fo ->
           o_start r0 = fo_start fo -> o_end r0 = fo_end fo ->
           trim_large_overhangs r0 err = Ok r1 -> In (RF f) (o_rows r1).

  (* f is a row of the bait's looked-up result *)
  Definition looked (bait f : frag) : Prop :=
    exists rows fo, input_rows inp (f_name bait) = Ok rows
      /\ find_overlaps rows (f_start bait) (f_end bait) = Ok (Some fo)
      /\ In (RF f) (fo_rows fo).

  Definition FK (b : bstate) (rem : list frag) : Prop :=
    incl rem all
    /\ (forall bait, In bait all ->
          In bait rem \/ forall f, keeps bait f -> In (key_of f) (map fst (b_found b)))
    /\ (forall k, In k (map fst (b_found b)) ->
          exists bait f, In bait all /\ k = key_of f /\ looked bait f).

  Lemma one_bait_FK tags orig b bait rest b' :
    FK b (bait :: rest) -> one_bait inp err tags orig b bait = Ok b' -> FK b' rest.
  Proof.
    intros (Hinc & H1 & H2) H.
    destruct (one_bait_cases _ _ _ _ _ _ _ H) as (rows & fo & Hrows & Hfo & Hm).
    assert (Hba : In bait all) by (apply Hinc; left; reflexivity).
    assert (Hinc' : incl rest all) by (intros x Hx; apply Hinc; right; exact Hx).
    destruct fo as [fo|].
    - destruct Hm as (lab & r1 & Htl & Hst & Hfm).
      assert (Hkeys : forall k, In k (map fst (b_found b'))
                                <-> In k (map fst (b_found b)) \/ In k (map key_of (frags_of (o_rows r1)))).
      { intros k. destruct (o_rows r1) as [|x0 t0] eqn:Er1.
        - injection Hfm as -> _. cbn [frags_of flat_map map In]. tauto.
        - rewrite <- Er1 in Hfm.
          destruct (fold_left (store_found_one (zlen (b_store b))) (frags_of (o_rows r1)) (b_found b, b_multi b))
            as [found' multi'] eqn:Ef.
          injection Hfm as -> _. rewrite <- Er1. eapply store_found_fold_keys. exact Ef. }
      split; [exact Hinc'|]. split.
      + intros bait0 Hb0. destruct (H1 bait0 Hb0) as [[<- | Hr] | Hk].
        * right. intros f (rows' & fo' & Hrows' & Hfo' & Hall).
          rewrite Hrows in Hrows'. injection Hrows' as <-.
          rewrite Hfo in Hfo'. injection Hfo' as <-.
          apply Hkeys. right. apply in_map. apply In_frags_of_iff.
          apply (Hall (set_labels (ovr_of_found bait fo) lab orig tags) r1); try reflexivity. exact Htl.
        * left. exact Hr.
        * right. intros f Hf. apply Hkeys. left. apply Hk. exact Hf.
      + intros k Hk. apply Hkeys in Hk. destruct Hk as [Hk | Hk]; [apply H2; exact Hk|].
        apply in_map_iff in Hk. destruct Hk as (g0 & <- & Hg).
        exists bait, g0. split; [exact Hba|]. split; [reflexivity|].
        exists rows, fo. split; [exact Hrows|]. split; [exact Hfo|].
        apply In_frags_of_iff in Hg. apply (trim_large_incl _ _ _ _ Htl) in Hg. exact Hg.
    - subst b'. split; [exact Hinc'|]. split; [|exact H2].
      intros bait0 Hb0. destruct (H1 bait0 Hb0) as [[<- | Hr] | Hk].
      + right. intros f (rows' & fo' & Hrows' & Hfo' & _).
        rewrite Hrows in Hrows'. injection Hrows' as <-.
        rewrite Hfo in Hfo'. discriminate Hfo'.
      + left. exact Hr.
      + right. exact Hk.
  Qed.

  Lemma one_pretext_FK b psc rest b' :
    FK b (frags_of (snd psc) ++ baits_of rest) ->
    one_pretext_scaffold inp err b psc = Ok b' -> FK b' (baits_of rest).
  Proof.
    intros HL H. unfold one_pretext_scaffold in H. destruct psc as [pname prows]. cbn [snd] in HL.
    bind_inv H nm Hnm. bind_inv H b1 Hb1. bind_inv H st Hst. injection H as <-.
    assert (HL0 : FK (with_namer b nm) (frags_of prows ++ baits_of rest)) by exact HL.
    exact (foldM_inv_rem _ FK (one_bait_FK (fragment_tags prows) pname) _ _ _ _ HL0 Hb1).
  Qed.

  Lemma pretext_FK pretext b0 b1 :
    FK b0 (baits_of pretext) -> foldM (one_pretext_scaffold inp err) pretext b0 = Ok b1 ->
    FK b1 [].
  Proof.
    intros HL H.
    apply (foldM_inv_rem (one_pretext_scaffold inp err) (fun b rem => FK b (baits_of rem))
             (fun s a rest s' => one_pretext_FK s a rest s') pretext [] b0 b1); [|exact H].
    rewrite app_nil_r. exact HL.
  Qed.

  Lemma FK_init nm : FK (mkB [] [] [] [] nm 0) all.
  Proof.
    split; [apply incl_refl|]. split; [intros bait Hb; left; exact Hb|].
    intros k [].
  Qed.
End Lookups.

(* --------------------------------------------------------- the whole head *)
Lemma remap_to_input_found g prefix bpt input pretext rs :
  remap_to_input repaired g prefix bpt input pretext = Ok rs ->
  has_dup_names (map fst input) = false
  /\ exists b1 found,
       foldM (one_pretext_scaffold (number_input input 0) (error_length bpt)) pretext
             (mkB [] [] [] [] (new_namer prefix) 0) = Ok b1
       /\ (forall k, In k (map fst found) <-> In k (map fst (b_found b1)))
       /\ LO (number_input input 0) found g (rs_left rs).
Proof.
  intros H. unfold remap_to_input in H.
  destruct (has_dup_names (map fst input)); [discriminate|]. split; [reflexivity|].
  cbv zeta in H. bind_inv H b1 Hb1. bind_inv H b2 Hb2. bind_inv H b3 Hb3. bind_inv H st Hst.
  bind_inv H nl Hnl. injection H as <-. cbn [rs_left].
  exists b1, (b_found (with_store b3 st)). split; [exact Hb1|]. split.
  - intros k. cbn [with_store b_found]. rewrite (cut_remaining_found _ _ _ Hb3).
    eapply discard_loop_keys. exact Hb2.
  - eapply (add_missing_LO _ _ _ _ (_, [])); [| |exact Hnl]; [intros isc Hi; exact Hi | intros sc []].
Qed.

Print Assumptions pretext_FK.
Print Assumptions remap_to_input_found.
