(* Composition: the streaming theorems of Proofs/Stream.v (stated under the
   chunk-iterator facts as premises) instantiated with the proofs of those
   facts from Proofs/Chunks.v. *)
From Tola Require Import Py.Base Model.Fragment Model.Scaffold Model.Fasta Model.Stream Model.FastaSpec.
From Tola Require Proofs.Chunks Proofs.Stream.

Lemma fwd_ok : Proofs.Stream.fwd_chunks_ok.
Proof. exact Proofs.Chunks.fwd_chunks_spec. Qed.
Lemma rev_ok : Proofs.Stream.rev_chunks_ok.
Proof. exact Proofs.Chunks.rev_chunks_spec. Qed.
Lemma gap_ok : Proofs.Stream.gap_chunks_ok.
Proof. exact Proofs.Chunks.gap_chunks_spec. Qed.

Definition gaps_nonneg (rows : list row) : Prop :=
  Forall (fun r => match r with RG g => 0 <= g_len g | RF _ => True end) rows.

Theorem write_scaffold_final : forall file idx seqs buf L gap_char name rows body,
  1 <= buf -> (1 <= L)%nat ->
  Proofs.Stream.seqs_accessible file idx seqs ->
  gaps_nonneg rows ->
  rows_bytes seqs gap_char rows = Some body ->
  write_scaffold file idx buf (Z.of_nat L) gap_char name rows
  = Ok (GT :: name ++ LF :: wrap_body L body).
Proof. exact (Proofs.Stream.write_scaffold_spec fwd_ok rev_ok gap_ok). Qed.

Theorem write_scaffold_buffer_independent_final :
  forall file idx seqs b1 b2 L gap_char name rows body,
  1 <= b1 -> 1 <= b2 -> (1 <= L)%nat ->
  Proofs.Stream.seqs_accessible file idx seqs ->
  gaps_nonneg rows ->
  rows_bytes seqs gap_char rows = Some body ->
  write_scaffold file idx b1 (Z.of_nat L) gap_char name rows
  = write_scaffold file idx b2 (Z.of_nat L) gap_char name rows.
Proof.
  intros. rewrite (write_scaffold_final file idx seqs b1 L gap_char name rows body) by assumption.
  rewrite (write_scaffold_final file idx seqs b2 L gap_char name rows body) by assumption.
  reflexivity.
Qed.

Theorem write_assembly_final : forall file idx seqs buf L gap_char scs out,
  1 <= buf -> (1 <= L)%nat ->
  Proofs.Stream.seqs_accessible file idx seqs ->
  Forall (fun sc => gaps_nonneg (snd sc)) scs ->
  Proofs.Stream.expected_assembly seqs gap_char L scs = Some out ->
  write_assembly file idx buf (Z.of_nat L) gap_char scs = Ok out.
Proof. exact (Proofs.Stream.write_assembly_spec fwd_ok rev_ok gap_ok). Qed.

(* streaming a reversed scaffold = header + wrap (reverse complement of the
   body of the original), for fragments of strand +1/-1 and a gap character
   that is its own complement *)
Lemma row_bytes_reverse seqs gap_char r b :
  complement gap_char = gap_char ->
  match r with RF f => f_strand f = 1 \/ f_strand f = -1 | RG _ => True end ->
  row_bytes seqs gap_char r = Some b ->
  row_bytes seqs gap_char (row_reverse r) = Some (reverse_complement b).
Proof.
  intros Hg Hs H. destruct r as [f|g]; cbn [row_reverse row_bytes] in *.
  - cbn [frag_reverse f_name f_start f_end f_strand].
    destruct (aget str_eqb seqs (f_name f)) as [x|]; [|discriminate].
    destruct ((1 <=? f_start f) && (f_start f <=? f_end f) && (f_end f <=? zlen x)); [|discriminate].
    injection H as <-. destruct Hs as [E|E]; rewrite E.
    + change (- (1) =? -1) with true. change (1 =? -1) with false. cbv iota. reflexivity.
    + change (- (-1) =? -1) with false. change (-1 =? -1) with true. cbv iota.
      rewrite Proofs.Chunks.reverse_complement_involutive. reflexivity.
  - injection H as <-. f_equal. unfold reverse_complement.
    generalize (Z.to_nat (g_len g)) as n. intro n.
    assert (R : rev (repeat gap_char n) = repeat gap_char n).
    { induction n as [|n IHn]; [reflexivity|]. cbn [repeat rev]. rewrite IHn.
      clear. induction n as [|n IHn]; [reflexivity|]. cbn [repeat app]. rewrite IHn. reflexivity. }
    rewrite R. clear R. induction n as [|n IHn]; [reflexivity|].
    cbn [repeat map]. rewrite Hg, <- IHn. reflexivity.
Qed.

Lemma rows_bytes_app seqs gap_char a b x y :
  rows_bytes seqs gap_char a = Some x -> rows_bytes seqs gap_char b = Some y ->
  rows_bytes seqs gap_char (a ++ b) = Some (x ++ y).
Proof.
  revert x. induction a as [|r a IH]; intros x Ha Hb; cbn [app rows_bytes] in *.
  - injection Ha as <-. exact Hb.
  - destruct (row_bytes seqs gap_char r) as [p|]; [|discriminate].
    destruct (rows_bytes seqs gap_char a) as [q|] eqn:Q; [|discriminate].
    injection Ha as <-. rewrite (IH q eq_refl Hb). rewrite app_assoc. reflexivity.
Qed.

Theorem rows_bytes_reverse : forall seqs gap_char rows body,
  complement gap_char = gap_char ->
  Forall (fun r => match r with RF f => f_strand f = 1 \/ f_strand f = -1 | RG _ => True end) rows ->
  rows_bytes seqs gap_char rows = Some body ->
  rows_bytes seqs gap_char (rows_reverse rows) = Some (reverse_complement body).
Proof.
  intros seqs gap_char rows body Hg. revert body.
  induction rows as [|r rows IH]; intros body F H; cbn [rows_bytes] in H.
  - injection H as <-. reflexivity.
  - inversion F as [|? ? Hr F']; subst.
    destruct (row_bytes seqs gap_char r) as [p|] eqn:P; [|discriminate].
    destruct (rows_bytes seqs gap_char rows) as [q|] eqn:Q; [|discriminate].
    injection H as <-.
    unfold rows_reverse. cbn [rev]. rewrite map_app. cbn [map].
    rewrite Proofs.Chunks.reverse_complement_app.
    apply rows_bytes_app.
    + apply (IH q F' eq_refl).
    + cbn [rows_bytes]. rewrite (row_bytes_reverse seqs gap_char r p Hg Hr P).
      rewrite app_nil_r. reflexivity.
Qed.

Lemma gaps_nonneg_reverse rows : gaps_nonneg rows -> gaps_nonneg (rows_reverse rows).
Proof.
  unfold gaps_nonneg, rows_reverse. intro F. apply Forall_forall. intros x Hx.
  apply in_map_iff in Hx as (y & <- & Hy). apply in_rev in Hy.
  rewrite Forall_forall in F. specialize (F y Hy). destruct y; cbn; [exact I | exact F].
Qed.

Theorem stream_reverse : forall file idx seqs buf L gap_char name rows body,
  1 <= buf -> (1 <= L)%nat ->
  Proofs.Stream.seqs_accessible file idx seqs ->
  gaps_nonneg rows ->
  complement gap_char = gap_char ->
  Forall (fun r => match r with RF f => f_strand f = 1 \/ f_strand f = -1 | RG _ => True end) rows ->
  rows_bytes seqs gap_char rows = Some body ->
  write_scaffold file idx buf (Z.of_nat L) gap_char name (rows_reverse rows)
  = Ok (GT :: name ++ LF :: wrap_body L (reverse_complement body)).
Proof.
  intros file idx seqs buf L gap_char name rows body Hb HL Hacc Hg Hc Hs H.
  apply (write_scaffold_final file idx seqs buf L gap_char name (rows_reverse rows)
           (reverse_complement body) Hb HL Hacc (gaps_nonneg_reverse rows Hg)).
  apply rows_bytes_reverse; assumption.
Qed.
