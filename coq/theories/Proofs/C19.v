(* C19: the interval predicates and the all-against-all scan. *)
From Tola Require Import Py.Base Model.Fragment Model.Scaffold Proofs.BaseLemmas.
From Coq Require Import Lia ZifyBool.

Definition same_name (a b : frag) : Prop := f_name a = f_name b.
Definition wf (f : frag) : Prop := f_start f <= f_end f.
Definition in_frag (x : Z) (f : frag) : Prop := f_start f <= x <= f_end f.

Ltac name_cases a b :=
  let E := fresh "E" in
  destruct (str_eqb (f_name a) (f_name b)) eqn:E;
  [apply str_eqb_eq in E | apply str_eqb_neq in E].

Lemma overlaps_sym a b : overlaps a b = overlaps b a.
Proof.
  unfold overlaps. rewrite (str_eqb_sym (f_name b)).
  destruct (str_eqb (f_name a) (f_name b)); cbn; lia.
Qed.

Lemma overlaps_iff_common_base a b :
  wf a -> wf b ->
  (overlaps a b = true <-> same_name a b /\ exists x, in_frag x a /\ in_frag x b).
Proof.
  unfold wf, same_name, in_frag, overlaps. intros Ha Hb.
  name_cases a b; cbn [negb]; split.
  - intro H. split; [assumption|]. exists (Z.max (f_start a) (f_start b)). lia.
  - intros [_ [x Hx]]. lia.
  - discriminate.
  - intros [H _]. contradiction.
Qed.

Lemma overlap_length_spec a b :
  wf a -> wf b ->
  match overlap_length a b with
  | Some n => overlaps a b = true /\ n >= 1 /\
              (* n is the number of integers lying in both intervals *)
              n = Z.min (f_end a) (f_end b) - Z.max (f_start a) (f_start b) + 1 /\
              (forall x, in_frag x a /\ in_frag x b <->
                         Z.max (f_start a) (f_start b) <= x < Z.max (f_start a) (f_start b) + n)
  | None => overlaps a b = false
  end.
Proof.
  unfold wf, in_frag, overlap_length, overlaps. intros Ha Hb.
  name_cases a b; cbn [negb]; [|reflexivity].
  destruct (Z.max (f_start a) (f_start b) >? Z.min (f_end a) (f_end b)) eqn:C.
  - lia.
  - repeat split; try lia.
Qed.

Lemma overlap_length_sym a b : overlap_length a b = overlap_length b a.
Proof.
  unfold overlap_length. rewrite (str_eqb_sym (f_name b)).
  destruct (str_eqb (f_name a) (f_name b)); cbn [negb]; [|reflexivity].
  rewrite (Z.max_comm (f_start b)), (Z.min_comm (f_end b)). reflexivity.
Qed.

Lemma abuts_sym a b : abuts a b = abuts b a.
Proof.
  unfold abuts. rewrite (str_eqb_sym (f_name b)).
  destruct (str_eqb (f_name a) (f_name b)); cbn; lia.
Qed.

Lemma abuts_iff_gap0 a b :
  wf a -> wf b -> (abuts a b = true <-> gap_between a b = Some 0).
Proof.
  unfold wf, abuts, gap_between. intros Ha Hb.
  name_cases a b; cbn [negb]; [|split; discriminate].
  destruct (Z.min (f_end a) (f_end b) <? Z.max (f_start a) (f_start b)) eqn:C; split; intro H.
  - f_equal. lia.
  - injection H as H. lia.
  - lia.
  - discriminate.
Qed.

(* the gap is the number of bases strictly between the two intervals *)
Lemma gap_between_spec a b :
  wf a -> wf b ->
  match gap_between a b with
  | Some g => same_name a b /\ overlaps a b = false /\ g >= 0 /\
              (g = f_start b - f_end a - 1 \/ g = f_start a - f_end b - 1)
  | None => ~ same_name a b \/ overlaps a b = true
  end.
Proof.
  unfold wf, same_name, gap_between, overlaps. intros Ha Hb.
  name_cases a b; cbn [negb]; [|left; assumption].
  destruct (Z.min (f_end a) (f_end b) <? Z.max (f_start a) (f_start b)) eqn:C.
  - repeat split; try assumption; lia.
  - right. lia.
Qed.

(* exactly one of: overlap, abut, positive gap *)
Lemma trichotomy a b :
  wf a -> wf b -> same_name a b ->
  (overlaps a b = true /\ abuts a b = false /\ gap_between a b = None)
  \/ (overlaps a b = false /\ abuts a b = true /\ gap_between a b = Some 0)
  \/ (overlaps a b = false /\ abuts a b = false /\ exists g, g > 0 /\ gap_between a b = Some g).
Proof.
  unfold wf, same_name, overlaps, abuts, gap_between. intros Ha Hb Hn.
  rewrite Hn, str_eqb_refl. cbn [negb].
  destruct (Z.min (f_end a) (f_end b) <? Z.max (f_start a) (f_start b)) eqn:C.
  - destruct (Z.eq_dec (Z.max (f_start a) (f_start b) - Z.min (f_end a) (f_end b) - 1) 0) as [Z0|Z0].
    + right; left. rewrite Z0. repeat split; lia.
    + right; right. repeat split; try lia.
      eexists; split; [|reflexivity]. lia.
  - left. repeat split; lia.
Qed.

Lemma different_names a b :
  ~ same_name a b ->
  overlaps a b = false /\ abuts a b = false /\ overlap_length a b = None /\ gap_between a b = None.
Proof.
  unfold same_name, overlaps, abuts, overlap_length, gap_between. intro H.
  apply str_eqb_neq in H. rewrite H. cbn. repeat split.
Qed.

(* ------------------------------------------------------------ the scan *)
Lemma in_pairs_from {A} (l : list A) x y :
  In (x, y) (pairs_from l) <->
  exists i j, (i < j)%nat /\ nth_error l i = Some x /\ nth_error l j = Some y.
Proof.
  revert x y. induction l as [|h t IH]; intros x y; cbn [pairs_from].
  - split; [intros []|]. intros (i & j & _ & H & _). destruct i; discriminate.
  - rewrite in_app_iff, in_map_iff. split.
    + intros [(z & E & Hz) | H].
      * injection E as <- <-. apply In_nth_error in Hz as [j Hj].
        exists 0%nat, (S j). repeat split; [lia | assumption].
      * apply IH in H as (i & j & Lt & Hi & Hj).
        exists (S i), (S j). repeat split; [lia | assumption | assumption].
    + intros (i & j & Lt & Hi & Hj).
      destruct i as [|i].
      * injection Hi as <-. destruct j as [|j]; [lia|]. cbn in Hj.
        left. exists y. split; [reflexivity|]. eapply nth_error_In; eassumption.
      * destruct j as [|j]; [lia|]. right. apply IH.
        exists i, j. repeat split; [lia | assumption | assumption].
Qed.

Lemma NoDup_app_intro {A} (a b : list A) :
  NoDup a -> NoDup b -> (forall x, In x a -> In x b -> False) -> NoDup (a ++ b).
Proof.
  induction a as [|x a IH]; intros Na Nb D; cbn [app]; [assumption|].
  inversion Na as [|? ? Hx Na']; subst. constructor.
  - rewrite in_app_iff. intros [H|H]; [contradiction|]. apply (D x); [left; reflexivity | assumption].
  - apply IH; [assumption | assumption |]. intros y Hy. apply D. right. assumption.
Qed.

Lemma NoDup_map_pair {A B} (h : A) (t : list B) : NoDup t -> NoDup (map (pair h) t).
Proof.
  induction 1 as [|x t Hx ND IH]; cbn; constructor; [|assumption].
  rewrite in_map_iff. intros (z & E & Hz). injection E as ->. contradiction.
Qed.

(* Every position pair appears at most once. *)
Lemma pairs_from_NoDup {A} (l : list A) : NoDup l -> NoDup (pairs_from l).
Proof.
  induction l as [|h t IH]; intro ND; cbn [pairs_from]; [constructor|].
  inversion ND as [|? ? Hnot ND']; subst.
  apply NoDup_app_intro; [apply NoDup_map_pair; assumption | apply IH; assumption |].
  intros [a b] H1 H2.
  apply in_map_iff in H1 as (z & E & _). injection E as <- <-.
  apply in_pairs_from in H2 as (i & j & _ & Hi & _).
  apply Hnot. eapply nth_error_In; eassumption.
Qed.

Lemma scan_pairs_spec {B} (l : list (frag * B)) x y :
  In (x, y) (scan_pairs l) <->
  (exists i j, (i < j)%nat /\ nth_error l i = Some x /\ nth_error l j = Some y)
  /\ overlaps (fst x) (fst y) = true.
Proof.
  unfold scan_pairs. rewrite filter_In, in_pairs_from. cbn [fst snd]. reflexivity.
Qed.

Lemma scan_pairs_NoDup {B} (l : list (frag * B)) : NoDup l -> NoDup (scan_pairs l).
Proof. intro H. apply NoDup_filter, pairs_from_NoDup, H. Qed.

Lemma find_overlapping_none scs :
  find_overlapping_fragments scs = None <-> scan_pairs (flat_frags scs) = [].
Proof.
  unfold find_overlapping_fragments. destruct (scan_pairs (flat_frags scs)); split; congruence.
Qed.
