(* Termination of the fuelled loops of the remapping pipeline: the model's
   [Err OutOfFuel] (a value the Python program cannot produce) is never
   returned by [remap_to_input] / [remap], for ANY input.

   The only loops with fuel reachable from [remap] are
     - bsearch / strip_left / strip_right   (find_overlaps),
     - split_fuel                           (natural_key, total),
     - discard_loop                         ("while multi:" of
                                             discard_overhanging_fragments).
   The measure for discard_loop is the number of rows held by all results:
   every fix applied is a discard_start / discard_end on a non-empty result,
   which removes at least one row and touches no other result; a round with an
   empty fix list leaves the loop.  No axioms. *)
From Tola Require Import Py.Base Py.Dec Py.Sort Model.Fragment Model.Scaffold Model.Lookup
  Model.OverlapResult Model.NaturalKey Model.Namer Model.Remap
  Proofs.BaseLemmas Proofs.Lookup Proofs.OverlapResult Proofs.NaturalKey Proofs.RemapHead.
From Coq Require Import Lia ZifyBool.

(* ================================================== 1. "never OutOfFuel" *)
Definition nof {A} (r : res A) : Prop := r <> Err OutOfFuel.

Lemma nof_ok {A} (a : A) : nof (Ok a).
Proof. discriminate. Qed.

Lemma nof_bind_eq {A B} (r : res A) (f : A -> res B) :
  nof r -> (forall a, r = Ok a -> nof (f a)) -> nof (bind r f).
Proof.
  destruct r as [a|e]; cbn [bind]; intros H1 H2; [apply H2; reflexivity|].
  intros E. apply H1. injection E as ->. reflexivity.
Qed.

Lemma nof_bind {A B} (r : res A) (f : A -> res B) :
  nof r -> (forall a, nof (f a)) -> nof (bind r f).
Proof. intros H1 H2. apply nof_bind_eq; [exact H1 | intros a _; apply H2]. Qed.

Lemma nof_mapM {A B} (f : A -> res B) l : (forall x, nof (f x)) -> nof (mapM f l).
Proof.
  intros H. induction l as [|x l IH]; cbn [mapM]; [apply nof_ok|].
  apply nof_bind; [apply H|]. intros y. apply nof_bind; [exact IH|]. intros ys. apply nof_ok.
Qed.

Lemma nof_foldM {A S} (f : S -> A -> res S) l : (forall s x, nof (f s x)) -> forall s, nof (foldM f l s).
Proof.
  intros H. induction l as [|x l IH]; intros s; cbn [foldM]; [apply nof_ok|].
  apply nof_bind; [apply H | exact IH].
Qed.

Create HintDb nof.

(* one syntactic step; leaves are closed by the lemmas registered in [nof] *)
Ltac nof_step :=
  match goal with
  | |- nof (Ok _) => apply nof_ok
  | |- nof (Err _) => unfold nof; discriminate
  | |- nof (bind _ _) => apply nof_bind; [|intro]
  | |- nof (mapM _ _) => apply nof_mapM; intro
  | |- nof (foldM _ _ _) => apply nof_foldM; intros ? ?
  | |- nof (match ?x with _ => _ end) => destruct x
  | |- nof _ => solve [auto with nof]
  | |- _ => progress cbv beta
  | |- _ => progress cbv zeta
  end.
Ltac nof_auto := repeat nof_step.

(* ====================================================== 2. find_overlaps *)
Lemma bsearch_nof idx bs be : forall fuel a z,
  (Z.to_nat (z - a) < fuel)%nat -> bsearch idx bs be fuel a z <> Err OutOfFuel.
Proof.
  induction fuel as [|fuel IH]; intros a z H; [lia|].
  cbn [bsearch]. destruct (a <? z) eqn:E; [|discriminate].
  set (m := a + (z - a) / 2).
  assert (Hm : a <= m < z) by (subst m; Z.div_mod_to_equations; lia).
  destruct (idx_at idx m <? bs); [apply IH; lia|].
  destruct (row_start idx m >? be); [apply IH; lia | discriminate].
Qed.

Lemma bsearch_range idx bs be : forall fuel a z m,
  bsearch idx bs be fuel a z = Ok (Some m) -> a <= m < z.
Proof.
  induction fuel as [|fuel IH]; intros a z m H; [discriminate|].
  cbn [bsearch] in H. destruct (a <? z) eqn:E; [|discriminate].
  set (m0 := a + (z - a) / 2) in H.
  assert (Hm : a <= m0 < z) by (subst m0; Z.div_mod_to_equations; lia).
  destruct (idx_at idx m0 <? bs); [apply IH in H; lia|].
  destruct (row_start idx m0 >? be); [apply IH in H; lia|].
  injection H as <-. exact Hm.
Qed.

Lemma extend_left_range idx bs : forall n cur, Z.of_nat n <= cur ->
  0 <= extend_left idx bs n cur <= cur.
Proof.
  induction n as [|n IH]; intros cur H; cbn [extend_left]; [lia|].
  destruct (idx_at idx (Z.of_nat n) <? bs); [lia|].
  specialize (IH (Z.of_nat n) ltac:(lia)). lia.
Qed.

Lemma extend_right_range idx be : forall n j cur, cur < j ->
  cur <= extend_right idx be n j cur < j + Z.of_nat n.
Proof.
  induction n as [|n IH]; intros j cur H; cbn [extend_right]; [lia|].
  destruct (row_start idx j >? be); [lia|].
  specialize (IH (j + 1) j ltac:(lia)). lia.
Qed.

Lemma strip_left_nof rows : forall fuel i j,
  (Z.to_nat (j - i + 1) < fuel)%nat -> strip_left true rows fuel i j <> Err OutOfFuel.
Proof.
  induction fuel as [|fuel IH]; intros i j H; [lia|].
  cbn [strip_left andb]. destruct (i <=? j) eqn:E; cbn [negb]; [|discriminate].
  destruct (py_nth rows i) as [r|e] eqn:Er; cbn [bind].
  - destruct (is_gap r); [apply IH; lia | discriminate].
  - unfold py_nth in Er. cbv zeta in Er.
    destruct ((_ <? 0) || (_ <=? _)); [congruence|].
    destruct (nth_error rows _); congruence.
Qed.

Lemma py_nth_nof {A} (l : list A) i : nof (py_nth l i).
Proof.
  unfold py_nth. cbv zeta. nof_auto.
Qed.
#[export] Hint Resolve py_nth_nof : nof.

Lemma strip_left_ge b rows : forall fuel i j i',
  strip_left b rows fuel i j = Ok i' -> i <= i'.
Proof.
  induction fuel as [|fuel IH]; intros i j i' H; [discriminate|].
  cbn [strip_left] in H. destruct (b && negb (i <=? j)); [injection H as <-; lia|].
  destruct (py_nth rows i) as [r|e]; cbn [bind] in H; [|discriminate].
  destruct (is_gap r); [apply IH in H; lia | injection H as <-; lia].
Qed.

Lemma strip_right_nof rows : forall fuel i j,
  (Z.to_nat (j - i + 1) < fuel)%nat -> strip_right true rows fuel i j <> Err OutOfFuel.
Proof.
  induction fuel as [|fuel IH]; intros i j H; [lia|].
  cbn [strip_right andb]. destruct (i <=? j) eqn:E; cbn [negb]; [|discriminate].
  change (nof (do r <- py_nth rows j; if is_gap r then strip_right true rows fuel i (j - 1) else Ok j)).
  apply nof_bind; [apply py_nth_nof|]. intros r.
  destruct (is_gap r); [apply IH; lia | apply nof_ok].
Qed.

(* for ALL rows (zero-length or negative-length rows included) and all baits *)
Theorem find_overlaps_never_out_of_fuel : forall rows a b,
  find_overlaps rows a b <> Err OutOfFuel.
Proof.
  intros rows bs be. unfold find_overlaps.
  destruct rows as [|r0 t] eqn:Erows; [discriminate|]. rewrite <- Erows.
  rewrite find_overlaps_unfold by (rewrite Erows; discriminate). cbv zeta.
  set (idx := make_index rows). set (n := length idx).
  apply nof_bind_eq; [apply bsearch_nof; lia|]. intros [m|] Hm; [|apply nof_ok].
  apply bsearch_range in Hm.
  set (i0 := extend_left idx bs (Z.to_nat m) m).
  set (j0 := extend_right idx be (n - S (Z.to_nat m)) (m + 1) m).
  assert (Hi0 : 0 <= i0 <= m) by (apply extend_left_range; lia).
  assert (Hj0 : m <= j0 < m + 1 + Z.of_nat (n - S (Z.to_nat m))) by (apply extend_right_range; lia).
  apply nof_bind_eq; [apply strip_left_nof; lia|]. intros i1 Hi1.
  apply strip_left_ge in Hi1.
  apply nof_bind; [apply strip_right_nof; lia|]. intros j1.
  destruct (negb (i1 <=? j1)); apply nof_ok.
Qed.

Lemma find_overlaps_nof rows a b : nof (find_overlaps rows a b).
Proof. apply find_overlaps_never_out_of_fuel. Qed.
#[export] Hint Resolve find_overlaps_nof : nof.

(* ======================================================== 3. natural_key *)
Lemma natural_key_nof x : nof (natural_key x).
Proof. destruct (natural_key_total x) as [k ->]. apply nof_ok. Qed.
#[export] Hint Resolve natural_key_nof : nof.

Lemma smart_sort_nof {A} (rank_of : A -> Z) (name_of : A -> str) l : nof (smart_sort rank_of name_of l).
Proof. unfold smart_sort, with_keys. nof_auto. Qed.
#[export] Hint Resolve smart_sort_nof : nof.

(* ============================================ 4. the measure of the loop *)
Definition total_result_rows (st : list ovr) : nat := length (concat (map o_rows st)).

Lemma total_cons r st :
  total_result_rows (r :: st) = (length (o_rows r) + total_result_rows st)%nat.
Proof. unfold total_result_rows. cbn [map concat]. rewrite app_length. reflexivity. Qed.

Lemma total_set_nth : forall st n r r', nth_error st n = Some r ->
  (total_result_rows (set_nth st n r') + length (o_rows r)
   = total_result_rows st + length (o_rows r'))%nat.
Proof.
  induction st as [|x st IH]; intros [|n] r r' H; cbn [nth_error] in H; try discriminate.
  - injection H as ->. cbn [set_nth]. rewrite !total_cons. lia.
  - cbn [set_nth]. rewrite !total_cons. specialize (IH _ _ r' H). lia.
Qed.

Lemma p_apply_length st p st' : p_apply st p = Ok st' -> length st' = length st.
Proof.
  intros H. unfold p_apply in H. bind_inv H r Hr. bind_inv H r' Hr'. injection H as <-.
  apply put_ovr_length.
Qed.

(* a productive round strictly decreases the number of rows held by the results *)
Theorem p_apply_decreases : forall st p st',
  p_apply st p = Ok st' -> (total_result_rows st' < total_result_rows st)%nat.
Proof.
  intros st p st' H. unfold p_apply in H. bind_inv H r Hr. bind_inv H r' Hr'. injection H as <-.
  assert (L : (length (o_rows r') < length (o_rows r))%nat).
  { destruct (pr_kind p).
    - destruct (discard_start_rows _ _ Hr') as (d & gaps & -> & _).
      cbn [length]. rewrite app_length. lia.
    - destruct (discard_end_rows _ _ Hr') as (d & gaps & -> & _).
      rewrite !app_length. cbn [length]. lia. }
  unfold get_ovr in Hr. destruct (nth_error st (Z.to_nat (pr_rid p))) as [r0|] eqn:E; [|discriminate].
  injection Hr as ->. unfold put_ovr. pose proof (total_set_nth _ _ _ r' E). lia.
Qed.

Theorem make_fixes_decreases : forall err st pls st' fixes,
  make_fixes err st pls = Ok (st', fixes) ->
  (total_result_rows st' + length fixes <= total_result_rows st)%nat.
Proof.
  intros err st pls; revert st.
  induction pls as [|pl t IH]; intros st st' fixes H; cbn [make_fixes] in H.
  - injection H as <- <-. cbn [length]. lia.
  - bind_inv H r Hr. destruct r as [st1 fx]. bind_inv H r2 Hr2. destruct r2 as [st2 fxs].
    injection H as <- <-. apply IH in Hr2. apply fix_one_cases in Hr.
    destruct Hr as [[-> ->] | (p & -> & _ & Hp)].
    + lia.
    + apply p_apply_decreases in Hp. cbn [length]. lia.
Qed.

(* ======================================= 5. the pieces of the loop body *)
Lemma get_ovr_nof st id : nof (get_ovr st id).
Proof. unfold get_ovr. nof_auto. Qed.
#[export] Hint Resolve get_ovr_nof : nof.

Lemma first_row_nof r : nof (first_row r).
Proof. unfold first_row. nof_auto. Qed.
Lemma last_row_nof r : nof (last_row r).
Proof. unfold last_row. nof_auto. Qed.
#[export] Hint Resolve first_row_nof last_row_nof : nof.

Lemma start_row_bait_overlap_nof r : nof (start_row_bait_overlap r).
Proof. unfold start_row_bait_overlap. nof_auto. Qed.
Lemma end_row_bait_overlap_nof r : nof (end_row_bait_overlap r).
Proof. unfold end_row_bait_overlap. nof_auto. Qed.
Lemma discard_start_nof r : nof (discard_start r).
Proof. unfold discard_start. nof_auto. Qed.
Lemma discard_end_nof r : nof (discard_end r).
Proof. unfold discard_end. nof_auto. Qed.
Lemma overhang_if_start_removed_nof r : nof (overhang_if_start_removed r).
Proof. unfold overhang_if_start_removed. nof_auto. Qed.
Lemma overhang_if_end_removed_nof r : nof (overhang_if_end_removed r).
Proof. unfold overhang_if_end_removed. nof_auto. Qed.
#[export] Hint Resolve start_row_bait_overlap_nof end_row_bait_overlap_nof discard_start_nof
  discard_end_nof overhang_if_start_removed_nof overhang_if_end_removed_nof : nof.

Lemma trim_large_overhangs_nof r e : nof (trim_large_overhangs r e).
Proof. unfold trim_large_overhangs. nof_auto. Qed.
#[export] Hint Resolve trim_large_overhangs_nof : nof.

Lemma premise_for_nof st f id : nof (premise_for st f id).
Proof. unfold premise_for. nof_auto. Qed.
#[export] Hint Resolve premise_for_nof : nof.

Lemma premises_of_nof st f ids : nof (premises_of st f ids).
Proof. induction ids as [|id t IH]; cbn [premises_of]; nof_auto. Qed.
#[export] Hint Resolve premises_of_nof : nof.

Lemma p_bait_overlap_nof st p : nof (p_bait_overlap st p).
Proof. unfold p_bait_overlap. nof_auto. Qed.
Lemma p_overhang_if_applied_nof st p : nof (p_overhang_if_applied st p).
Proof. unfold p_overhang_if_applied. nof_auto. Qed.
#[export] Hint Resolve p_bait_overlap_nof p_overhang_if_applied_nof : nof.
Lemma p_delta_nof st p : nof (p_delta st p).
Proof. unfold p_delta. nof_auto. Qed.
#[export] Hint Resolve p_delta_nof : nof.
Lemma p_improves_nof st e p : nof (p_improves st e p).
Proof. unfold p_improves. nof_auto. Qed.
Lemma p_apply_nof st p : nof (p_apply st p).
Proof. unfold p_apply. nof_auto. Qed.
#[export] Hint Resolve p_improves_nof p_apply_nof : nof.

Lemma fix_general_nof err st pl : nof (fix_general err st pl).
Proof. unfold fix_general. nof_auto. Qed.
#[export] Hint Resolve fix_general_nof : nof.

Lemma fix_one_nof err st pl : nof (fix_one err st pl).
Proof. rewrite fix_one_unfold. nof_auto. Qed.
#[export] Hint Resolve fix_one_nof : nof.

Lemma make_fixes_nof err : forall pls st, nof (make_fixes err st pls).
Proof. induction pls as [|pl t IH]; intros st; cbn [make_fixes]; nof_auto. Qed.
#[export] Hint Resolve make_fixes_nof : nof.

Lemma apply_fix_bookkeeping_nof acc p : nof (apply_fix_bookkeeping acc p).
Proof. unfold apply_fix_bookkeeping. nof_auto. Qed.
#[export] Hint Resolve apply_fix_bookkeeping_nof : nof.

(* ============================================= 6. the "while multi" loop *)
(* at most [total_result_rows] rounds with a non-empty fix list, plus one last
   round (no fix, or b_multi empty) *)
Theorem discard_loop_fuel_suffices : forall fuel err b,
  (total_result_rows (b_store b) < fuel)%nat -> discard_loop fuel err b <> Err OutOfFuel.
Proof.
  induction fuel as [|fuel IH]; intros err b H; [lia|].
  cbn [discard_loop]. destruct (b_multi b) as [|k0 multi]; [discriminate|].
  apply nof_bind; [nof_auto|]. intros pls. cbv zeta.
  apply nof_bind_eq; [apply make_fixes_nof|]. intros [st fixes] Hmf.
  apply make_fixes_decreases in Hmf.
  destruct fixes as [|p fixes]; [apply nof_ok|].
  apply nof_bind; [nof_auto|]. intros [found multi'].
  apply IH. cbn [b_store length] in *. lia.
Qed.

(* ===================================================== 7. remap_to_input *)
Lemma first_row_name_nof rows : nof (first_row_name rows).
Proof. unfold first_row_name. nof_auto. Qed.
#[export] Hint Resolve first_row_name_nof : nof.

Lemma scan_tag_nof st tag : nof (scan_tag st tag).
Proof. unfold scan_tag. nof_auto. Qed.
#[export] Hint Resolve scan_tag_nof : nof.

Lemma make_scaffold_name_nof nm n rows tags : nof (make_scaffold_name nm n rows tags).
Proof. unfold make_scaffold_name. nof_auto. Qed.
Lemma label_scaffold_nof nm id ft st : nof (label_scaffold nm id ft st).
Proof. unfold label_scaffold. nof_auto. Qed.
Lemma input_rows_nof input name : nof (input_rows input name).
Proof. unfold input_rows. nof_auto. Qed.
Lemma rename_results_nof st ids : nof (rename_results st ids).
Proof. unfold rename_results. nof_auto. Qed.
#[export] Hint Resolve make_scaffold_name_nof label_scaffold_nof input_rows_nof rename_results_nof : nof.

Lemma one_bait_nof input err tags orig b bait : nof (one_bait input err tags orig b bait).
Proof. unfold one_bait. nof_auto. Qed.
#[export] Hint Resolve one_bait_nof : nof.

Lemma one_pretext_scaffold_nof input err b psc : nof (one_pretext_scaffold input err b psc).
Proof. unfold one_pretext_scaffold. nof_auto. Qed.
#[export] Hint Resolve one_pretext_scaffold_nof : nof.

Lemma new_frag_nof id name st en strand tags : nof (new_frag id name st en strand tags).
Proof. unfold new_frag. nof_auto. Qed.
#[export] Hint Resolve new_frag_nof : nof.

Lemma trim_fragment_nof r f ks ke : nof (trim_fragment r f ks ke).
Proof. unfold trim_fragment. nof_auto. Qed.
Lemma fragment_start_if_trimmed_nof r f : nof (fragment_start_if_trimmed r f).
Proof. unfold fragment_start_if_trimmed. nof_auto. Qed.
Lemma qc_sub_fragments_nof f subs : nof (qc_sub_fragments f subs).
Proof. unfold qc_sub_fragments. nof_auto. Qed.
#[export] Hint Resolve trim_fragment_nof fragment_start_if_trimmed_nof qc_sub_fragments_nof : nof.

Lemma trim_all_nof c f : forall ids st i last_i, nof (trim_all c st f ids i last_i).
Proof. induction ids as [|id t IH]; intros st i last_i; cbn [trim_all]; nof_auto. Qed.
#[export] Hint Resolve trim_all_nof : nof.

Lemma cut_fragments_nof c b k : nof (cut_fragments c b k).
Proof. unfold cut_fragments. nof_auto. Qed.
#[export] Hint Resolve cut_fragments_nof : nof.

Lemma cut_remaining_overhangs_nof c b : nof (cut_remaining_overhangs c b).
Proof. unfold cut_remaining_overhangs. nof_auto. Qed.
Lemma add_missing_one_nof c dg found acc isc : nof (add_missing_one c dg found acc isc).
Proof. unfold add_missing_one. nof_auto. Qed.
#[export] Hint Resolve cut_remaining_overhangs_nof add_missing_one_nof : nof.

(* the fuel remap_to_input passes is big enough *)
Theorem remap_to_input_never_out_of_fuel : forall c g prefix bpt input pretext,
  remap_to_input c g prefix bpt input pretext <> Err OutOfFuel.
Proof.
  intros c g prefix bpt input pretext. unfold remap_to_input.
  destruct (has_dup_names (map fst input)); [discriminate|]. cbv zeta.
  apply nof_bind; [nof_auto|]. intros b1.
  apply nof_bind; [apply discard_loop_fuel_suffices; unfold total_result_rows; lia|]. intros b2.
  nof_auto.
Qed.

(* ============================================================== 8. remap *)
Lemma fuse_all_nof c g rs : nof (fuse_all c g rs).
Proof. unfold fuse_all. nof_auto. Qed.
Lemma build_groups_step_nof fused haps mh st item : nof (build_groups_step fused haps mh st item).
Proof. unfold build_groups_step. nof_auto. Qed.
#[export] Hint Resolve fuse_all_nof build_groups_step_nof : nof.

Lemma name_chromosomes_nof prefix fused items : nof (name_chromosomes prefix fused items).
Proof. unfold name_chromosomes. nof_auto. Qed.
#[export] Hint Resolve name_chromosomes_nof : nof.

Lemma junction_tuple_nof a b : nof (junction_tuple a b).
Proof. unfold junction_tuple. nof_auto. Qed.
#[export] Hint Resolve junction_tuple_nof : nof.

Lemma junctions_of_frags_nof : forall l prev, nof (junctions_of_frags prev l).
Proof. induction l as [|f t IH]; intros prev; cbn [junctions_of_frags]; nof_auto. Qed.
#[export] Hint Resolve junctions_of_frags_nof : nof.

Lemma scaffold_junctions_nof rows : nof (scaffold_junctions rows).
Proof. unfold scaffold_junctions. nof_auto. Qed.
#[export] Hint Resolve scaffold_junctions_nof : nof.

Lemma junction_set_nof c rows : nof (junction_set c rows).
Proof. unfold junction_set. nof_auto. Qed.
#[export] Hint Resolve junction_set_nof : nof.

Lemma input_junctions_by_prefix_nof c input : nof (input_junctions_by_prefix c input).
Proof. unfold input_junctions_by_prefix. nof_auto. Qed.
Lemma asm_junctions_nof c scs : nof (asm_junctions c scs).
Proof. unfold asm_junctions. nof_auto. Qed.
#[export] Hint Resolve input_junctions_by_prefix_nof asm_junctions_nof : nof.

Lemma make_stats_nof c input asms : nof (make_stats c input asms).
Proof. unfold make_stats. nof_auto. Qed.
#[export] Hint Resolve make_stats_nof : nof.

Lemma assemblies_with_scaffolds_fused_nof c g prefix input rs :
  nof (assemblies_with_scaffolds_fused c g prefix input rs).
Proof. unfold assemblies_with_scaffolds_fused. nof_auto. Qed.

Corollary remap_never_out_of_fuel : forall c g prefix bpt input pretext,
  remap c g prefix bpt input pretext <> Err OutOfFuel.
Proof.
  intros c g prefix bpt input pretext. unfold remap.
  apply nof_bind; [apply remap_to_input_never_out_of_fuel|]. intros rs.
  apply assemblies_with_scaffolds_fused_nof.
Qed.

Print Assumptions find_overlaps_never_out_of_fuel.
Print Assumptions p_apply_decreases.
Print Assumptions make_fixes_decreases.
Print Assumptions discard_loop_fuel_suffices.
Print Assumptions remap_to_input_never_out_of_fuel.
Print Assumptions remap_never_out_of_fuel.
