(* C12: find_overlaps (cumulative index + binary search + extension + gap
   stripping) meets the brute-force relational specification. *)
From Tola Require Import Py.Base Model.Fragment Model.Lookup Proofs.BaseLemmas.
From Coq Require Import Lia ZifyBool.


(* ------------------------------------------------------------ prefix sums *)
Definition pre (rows : list row) (k : nat) : Z := rows_len (firstn k rows).

Lemma span_start_pre rows k : span_start rows k = 1 + pre rows k.
Proof. reflexivity. Qed.
Lemma span_end_pre rows k : span_end rows k = pre rows (S k).
Proof. reflexivity. Qed.

Lemma rows_len_nil : rows_len [] = 0.
Proof. reflexivity. Qed.
Lemma rows_len_cons r t : rows_len (r :: t) = row_len r + rows_len t.
Proof. unfold rows_len. cbn [map]. apply sumZ_cons. Qed.

Lemma pre_0 rows : pre rows 0 = 0.
Proof. reflexivity. Qed.

Lemma pre_step rows : pos_rows rows ->
  forall k, (k < length rows)%nat -> pre rows k < pre rows (S k).
Proof.
  unfold pre. induction 1 as [|r t Hr Ht IH]; intros k Hk; cbn [length] in Hk; [lia|].
  destruct k as [|k].
  - cbn [firstn]. rewrite rows_len_cons, !rows_len_nil. lia.
  - cbn [firstn]. rewrite !rows_len_cons.
    assert (G := IH k ltac:(lia)). cbn [firstn] in G. lia.
Qed.

Lemma pre_mono rows : pos_rows rows ->
  forall a b, (a < b <= length rows)%nat -> pre rows a < pre rows b.
Proof.
  intros H a b. induction b as [|b IH]; intro L; [lia|].
  assert (G := pre_step rows H b ltac:(lia)).
  destruct (Nat.eq_dec a b) as [->|N]; [assumption|].
  assert (G2 := IH ltac:(lia)). lia.
Qed.

Lemma pre_mono_le rows : pos_rows rows ->
  forall a b, (a <= b <= length rows)%nat -> pre rows a <= pre rows b.
Proof.
  intros H a b L. destruct (Nat.eq_dec a b) as [->|N]; [lia|].
  assert (G := pre_mono rows H a b ltac:(lia)). lia.
Qed.

(* ------------------------------------------------------------ the index *)
Lemma cum_index_length rows : forall acc, length (cum_index rows acc) = length rows.
Proof. induction rows as [|r t IH]; intro acc; cbn [cum_index length]; [reflexivity|]. rewrite IH. reflexivity. Qed.

Lemma make_index_length rows : length (make_index rows) = length rows.
Proof. apply cum_index_length. Qed.

Lemma cum_index_nth rows : forall acc k, (k < length rows)%nat ->
  nth k (cum_index rows acc) 0 = acc + pre rows (S k).
Proof.
  unfold pre. induction rows as [|r t IH]; intros acc k Hk; cbn [length] in Hk; [lia|].
  cbn [cum_index]. destruct k as [|k].
  - cbn [nth firstn]. rewrite rows_len_cons, rows_len_nil. lia.
  - cbn [nth]. rewrite IH by lia.
    change (firstn (S (S k)) (r :: t)) with (r :: firstn (S k) t).
    rewrite rows_len_cons. lia.
Qed.

Lemma idx_at_pre rows m : 0 <= m < Z.of_nat (length rows) ->
  idx_at (make_index rows) m = pre rows (S (Z.to_nat m)).
Proof.
  intro H. unfold idx_at, make_index. rewrite cum_index_nth by lia. lia.
Qed.

Lemma row_start_pre rows m : 0 <= m <= Z.of_nat (length rows) ->
  row_start (make_index rows) m = 1 + pre rows (Z.to_nat m).
Proof.
  intro H. unfold row_start. destruct (m =? 0) eqn:E.
  - assert (m = 0) as -> by lia. reflexivity.
  - rewrite idx_at_pre by lia. replace (S (Z.to_nat (m - 1))) with (Z.to_nat m) by lia. reflexivity.
Qed.

(* the statements asked for, in span_* vocabulary *)
Lemma idx_at_span_end rows k : (k < length rows)%nat ->
  idx_at (make_index rows) (Z.of_nat k) = span_end rows k.
Proof. intro H. rewrite idx_at_pre by lia. rewrite Nat2Z.id. reflexivity. Qed.

Lemma row_start_span_start rows k : (k <= length rows)%nat ->
  row_start (make_index rows) (Z.of_nat k) = span_start rows k.
Proof. intro H. rewrite row_start_pre by lia. rewrite Nat2Z.id. reflexivity. Qed.

Lemma span_start_S rows k : span_start rows (S k) = span_end rows k + 1.
Proof. rewrite span_start_pre, span_end_pre. lia. Qed.

Lemma span_start_le_end rows k : pos_rows rows -> (k < length rows)%nat ->
  span_start rows k <= span_end rows k.
Proof. intros H L. rewrite span_start_pre, span_end_pre. assert (G := pre_step rows H k L). lia. Qed.

Lemma span_end_mono rows a b : pos_rows rows -> (a < b < length rows)%nat ->
  span_end rows a < span_end rows b.
Proof. intros H L. rewrite !span_end_pre. apply pre_mono; [assumption|lia]. Qed.

(* ------------------------------------------------------ rows: frag or gap *)
Definition gap_at (rows : list row) (k : nat) : Prop :=
  exists g, nth_error rows k = Some (RG g).

Lemma frag_or_gap rows k : (k < length rows)%nat -> frag_at rows k \/ gap_at rows k.
Proof.
  intro H. unfold frag_at, gap_at. destruct (nth_error rows k) as [[f|g]|] eqn:E.
  - left. exists f. reflexivity.
  - right. exists g. reflexivity.
  - apply nth_error_None in E. lia.
Qed.

Lemma frag_not_gap rows k : frag_at rows k -> gap_at rows k -> False.
Proof. intros [f Hf] [g Hg]. congruence. Qed.

Lemma frag_at_lt rows k : frag_at rows k -> (k < length rows)%nat.
Proof. intros [f Hf]. apply nth_error_Some. congruence. Qed.

Lemma py_nth_ok {A} (l : list A) i x : nth_error l i = Some x -> py_nth l (Z.of_nat i) = Ok x.
Proof.
  intro H. assert (L : (i < length l)%nat) by (apply nth_error_Some; congruence).
  unfold py_nth, zlen. cbv zeta.
  assert (E1 : (Z.of_nat i <? 0) = false) by lia.
  assert (E2 : (Z.of_nat (length l) <=? Z.of_nat i) = false) by lia.
  rewrite E1. cbv iota. rewrite E1, E2. cbn [orb].
  rewrite Nat2Z.id, H. reflexivity.
Qed.

(* --------------------------------------------------------- binary search *)
Lemma bsearch_spec rows bs be : pos_rows rows ->
  forall fuel a z, 0 <= a -> z <= Z.of_nat (length rows) ->
    Z.max 0 (z - a) < Z.of_nat fuel ->
    (forall k, (k < length rows)%nat -> meets rows bs be k -> a <= Z.of_nat k < z) ->
    exists r, bsearch (make_index rows) bs be fuel a z = Ok r /\
      match r with
      | Some m => exists k, m = Z.of_nat k /\ (k < length rows)%nat /\ meets rows bs be k
      | None => forall k, (k < length rows)%nat -> ~ meets rows bs be k
      end.
Proof.
  intros Hp. induction fuel as [|fuel IH]; intros a z Ha Hz Hf Inv; [lia|].
  cbn [bsearch]. destruct (a <? z) eqn:Eaz.
  - set (m := a + (z - a) / 2).
    assert (Hm : a <= m < z) by (subst m; Z.div_mod_to_equations; lia).
    rewrite idx_at_pre by lia. rewrite row_start_pre by lia.
    destruct (pre rows (S (Z.to_nat m)) <? bs) eqn:E1.
    + apply IH; try lia. intros k Hk Mk. specialize (Inv k Hk Mk).
      destruct Mk as [M1 M2]. rewrite span_end_pre in M2.
      destruct (Z_le_gt_dec (Z.of_nat k) m) as [Le|Gt]; [|lia].
      assert (G := pre_mono_le rows Hp (S k) (S (Z.to_nat m)) ltac:(lia)). lia.
    + destruct (1 + pre rows (Z.to_nat m) >? be) eqn:E2.
      * apply IH; try lia. intros k Hk Mk. specialize (Inv k Hk Mk).
        destruct Mk as [M1 M2]. rewrite span_start_pre in M1.
        destruct (Z_lt_ge_dec (Z.of_nat k) m) as [Lt|Ge]; [lia|].
        assert (G := pre_mono_le rows Hp (Z.to_nat m) k ltac:(lia)). lia.
      * exists (Some m). split; [reflexivity|]. exists (Z.to_nat m).
        unfold meets. rewrite span_start_pre, span_end_pre. lia.
  - exists None. split; [reflexivity|]. intros k Hk Mk. specialize (Inv k Hk Mk). lia.
Qed.

(* ------------------------------------------------------ linear extension *)
Lemma extend_left_spec rows bs : forall c, (c < length rows)%nat -> bs <= pre rows (S c) ->
  exists i, extend_left (make_index rows) bs c (Z.of_nat c) = Z.of_nat i /\ (i <= c)%nat
    /\ bs <= pre rows (S i) /\ (i = 0%nat \/ pre rows i < bs).
Proof.
  induction c as [|c IH]; intros Hc Hb.
  - exists 0%nat. cbn [extend_left]. split; [reflexivity|]. split; [lia|]. split; [assumption|]. left; reflexivity.
  - cbn [extend_left]. rewrite idx_at_pre by lia. rewrite Nat2Z.id.
    destruct (pre rows (S c) <? bs) eqn:E.
    + exists (S c). split; [reflexivity|]. split; [lia|]. split; [assumption|]. right; lia.
    + destruct (IH ltac:(lia) ltac:(lia)) as (i & E1 & E2 & E3 & E4).
      exists i. split; [assumption|]. split; [lia|]. split; assumption.
Qed.

Lemma extend_right_spec rows be : forall cnt c,
  (c + 1 + cnt = length rows)%nat -> 1 + pre rows c <= be ->
  exists j, extend_right (make_index rows) be cnt (Z.of_nat c + 1) (Z.of_nat c) = Z.of_nat j
    /\ (c <= j < length rows)%nat /\ 1 + pre rows j <= be
    /\ (S j = length rows \/ be < 1 + pre rows (S j)).
Proof.
  induction cnt as [|cnt IH]; intros c Hc Hb.
  - exists c. cbn [extend_right]. split; [reflexivity|]. split; [lia|]. split; [assumption|]. left; lia.
  - cbn [extend_right]. rewrite row_start_pre by lia.
    replace (Z.to_nat (Z.of_nat c + 1)) with (S c) by lia.
    destruct (1 + pre rows (S c) >? be) eqn:E.
    + exists c. split; [reflexivity|]. split; [lia|]. split; [assumption|]. right; lia.
    + replace (Z.of_nat c + 1) with (Z.of_nat (S c)) by lia.
      destruct (IH (S c) ltac:(lia) ltac:(lia)) as (j & E1 & E2 & E3 & E4).
      exists j. split; [assumption|]. split; [lia|]. split; assumption.
Qed.

(* the rows meeting the query are exactly an interval of indices *)
Lemma meets_interval rows bs be i0 j0 : pos_rows rows ->
  (i0 < length rows)%nat -> (j0 < length rows)%nat ->
  bs <= pre rows (S i0) -> (i0 = 0%nat \/ pre rows i0 < bs) ->
  1 + pre rows j0 <= be -> (S j0 = length rows \/ be < 1 + pre rows (S j0)) ->
  forall k, (k < length rows)%nat -> (meets rows bs be k <-> (i0 <= k <= j0)%nat).
Proof.
  intros Hp Li Lj I1 I2 J1 J2 k Hk. unfold meets. rewrite span_start_pre, span_end_pre. split.
  - intros [M1 M2]. split.
    + destruct (le_lt_dec i0 k) as [L|L]; [assumption|]. exfalso.
      destruct I2 as [->|I2]; [lia|].
      assert (G := pre_mono_le rows Hp (S k) i0 ltac:(lia)). lia.
    + destruct (le_lt_dec k j0) as [L|L]; [assumption|]. exfalso.
      destruct J2 as [J2|J2]; [lia|].
      assert (G := pre_mono_le rows Hp (S j0) k ltac:(lia)). lia.
  - intros [L1 L2].
    assert (G1 := pre_mono_le rows Hp (S i0) (S k) ltac:(lia)).
    assert (G2 := pre_mono_le rows Hp k j0 ltac:(lia)). lia.
Qed.

(* -------------------------------------------------------- gap stripping *)
Lemma strip_left_spec rows : forall fuel i j,
  (i <= S j)%nat -> (j < length rows)%nat -> (S j - i < fuel)%nat ->
  exists i', strip_left true rows fuel (Z.of_nat i) (Z.of_nat j) = Ok (Z.of_nat i')
    /\ (i <= i' <= S j)%nat
    /\ (forall k, (i <= k < i')%nat -> gap_at rows k)
    /\ ((i' <= j)%nat -> frag_at rows i').
Proof.
  induction fuel as [|fuel IH]; intros i j H1 H2 H3; [lia|].
  cbn [strip_left].
  destruct (Z.of_nat i <=? Z.of_nat j) eqn:E; cbn [andb negb].
  - destruct (frag_or_gap rows i ltac:(lia)) as [[f Hf]|[g Hg]].
    + rewrite (py_nth_ok _ _ _ Hf). cbn [bind is_gap]. exists i.
      split; [reflexivity|]. split; [lia|]. split; [intros k Hk; lia|].
      intros _. exists f. assumption.
    + rewrite (py_nth_ok _ _ _ Hg). cbn [bind is_gap].
      replace (Z.of_nat i + 1) with (Z.of_nat (S i)) by lia.
      destruct (IH (S i) j ltac:(lia) ltac:(lia) ltac:(lia)) as (i' & G1 & G2 & G3 & G4).
      exists i'. split; [assumption|]. split; [lia|]. split; [|assumption].
      intros k Hk. destruct (Nat.eq_dec k i) as [->|N]; [exists g; assumption|apply G3; lia].
  - exists i. split; [reflexivity|]. split; [lia|]. split; intros; lia.
Qed.

Lemma strip_right_spec rows i : frag_at rows i -> forall fuel j,
  (i <= j < length rows)%nat -> (j - i < fuel)%nat ->
  exists j', strip_right true rows fuel (Z.of_nat i) (Z.of_nat j) = Ok (Z.of_nat j')
    /\ (i <= j' <= j)%nat /\ frag_at rows j'
    /\ (forall k, (j' < k <= j)%nat -> gap_at rows k).
Proof.
  intros Fi. induction fuel as [|fuel IH]; intros j H1 H2; [lia|].
  cbn [strip_right].
  replace (Z.of_nat i <=? Z.of_nat j) with true by lia. cbn [andb negb].
  destruct (frag_or_gap rows j ltac:(lia)) as [[f Hf]|[g Hg]].
  - rewrite (py_nth_ok _ _ _ Hf). cbn [bind is_gap]. exists j.
    split; [reflexivity|]. split; [lia|]. split; [exists f; assumption|]. intros k Hk; lia.
  - rewrite (py_nth_ok _ _ _ Hg). cbn [bind is_gap].
    assert (N : i <> j). { intros ->. eapply frag_not_gap; [exact Fi|exists g; exact Hg]. }
    replace (Z.of_nat j - 1) with (Z.of_nat (j - 1)) by lia.
    destruct (IH (j - 1)%nat ltac:(lia) ltac:(lia)) as (j' & G1 & G2 & G3 & G4).
    exists j'. split; [assumption|]. split; [lia|]. split; [assumption|].
    intros k Hk. destruct (Nat.eq_dec k j) as [->|N']; [exists g; assumption|apply G4; lia].
Qed.

(* ------------------------------------------------------------- assembly *)
Lemma find_overlaps_unfold b rows bs be : rows <> [] ->
  find_overlaps_gen b rows bs be =
    let idx := make_index rows in
    let n := length idx in
    do ovr <- bsearch idx bs be (S n) 0 (Z.of_nat n);
    match ovr with
    | None => Ok None
    | Some m =>
        let i0 := extend_left idx bs (Z.to_nat m) m in
        let j0 := extend_right idx be (n - S (Z.to_nat m)) (m + 1) m in
        do i1 <- strip_left b rows (S (S n)) i0 j0;
        do j1 <- strip_right b rows (S (S (n + n))) i1 j0;
        if negb (i1 <=? j1) then Ok None
        else Ok (Some (mkFound (row_start idx i1) (idx_at idx j1)
                               (py_slice rows i1 (j1 + 1))))
    end.
Proof. intro H. destruct rows; [congruence|reflexivity]. Qed.

Theorem find_overlaps_spec : forall rows bs be,
  rows <> [] -> pos_rows rows -> 1 <= bs <= be ->
  exists r, find_overlaps rows bs be = Ok r /\ lookup_spec rows bs be r.
Proof.
  intros rows bs be Hne Hp Hb. unfold find_overlaps.
  rewrite find_overlaps_unfold by assumption. cbv zeta.
  rewrite make_index_length. set (n := length rows).
  destruct (bsearch_spec rows bs be Hp (S n) 0 (Z.of_nat n) ltac:(lia) ltac:(lia) ltac:(lia))
    as (r & Er & Hr).
  { intros k Hk _. lia. }
  rewrite Er. cbn [bind]. destruct r as [m|].
  2: { exists None. split; [reflexivity|]. cbn [lookup_spec]. intros k Fk Mk.
       apply (Hr k); [apply frag_at_lt; assumption|assumption]. }
  destruct Hr as (mm & -> & Hmm & [M1 M2]).
  rewrite span_start_pre in M1. rewrite span_end_pre in M2. rewrite Nat2Z.id.
  destruct (extend_left_spec rows bs mm Hmm M2) as (i0 & Ei & Li & I1 & I2). rewrite Ei.
  destruct (extend_right_spec rows be (n - S mm) mm ltac:(lia) M1) as (j0 & Ej & Lj & J1 & J2).
  rewrite Ej.
  assert (Int := meets_interval rows bs be i0 j0 Hp ltac:(lia) ltac:(lia) I1 I2 J1 J2).
  destruct (strip_left_spec rows (S (S n)) i0 j0 ltac:(lia) ltac:(lia) ltac:(lia))
    as (i1 & Ei1 & Li1 & G1 & F1).
  rewrite Ei1. cbn [bind].
  destruct (le_lt_dec i1 j0) as [Le|Gt].
  - destruct (strip_right_spec rows i1 (F1 Le) (S (S (n + n))) j0 ltac:(lia) ltac:(lia))
      as (j1 & Ej1 & Lj1 & F2 & G2).
    rewrite Ej1. cbn [bind].
    replace (Z.of_nat i1 <=? Z.of_nat j1) with true by lia. cbn [negb].
    eexists. split; [reflexivity|]. cbn [lookup_spec fo_rows fo_start fo_end].
    exists i1, j1. split; [lia|]. split.
    { unfold py_slice. rewrite Nat2Z.id. f_equal. lia. }
    split. { rewrite row_start_pre by lia. rewrite Nat2Z.id. reflexivity. }
    split. { rewrite idx_at_pre by lia. rewrite Nat2Z.id. reflexivity. }
    split; [apply F1; assumption|]. split; [assumption|].
    split; [apply Int; lia|]. split; [apply Int; lia|].
    intros k Fk Mk. assert (Lk := frag_at_lt rows k Fk).
    apply Int in Mk; [|assumption]. split.
    + destruct (le_lt_dec i1 k) as [L|L]; [assumption|]. exfalso.
      eapply frag_not_gap; [exact Fk|apply G1; lia].
    + destruct (le_lt_dec k j1) as [L|L]; [assumption|]. exfalso.
      eapply frag_not_gap; [exact Fk|apply G2; lia].
  - assert (i1 = S j0) by lia. subst i1.
    cbn [strip_right].
    replace (Z.of_nat (S j0) <=? Z.of_nat j0) with false by lia. cbn [andb negb bind].
    replace (Z.of_nat (S j0) <=? Z.of_nat j0) with false by lia. cbn [negb].
    exists None. split; [reflexivity|]. cbn [lookup_spec]. intros k Fk Mk.
    assert (Lk := frag_at_lt rows k Fk). apply Int in Mk; [|assumption].
    eapply frag_not_gap; [exact Fk|apply G1; lia].
Qed.

(* ----------------------------------------------- uniqueness and convexity *)
Theorem lookup_spec_unique : forall rows bs be r1 r2,
  pos_rows rows -> lookup_spec rows bs be r1 -> lookup_spec rows bs be r2 -> r1 = r2.
Proof.
  intros rows bs be [fo1|] [fo2|] _ H1 H2; cbn [lookup_spec] in H1, H2.
  - destruct H1 as (i1 & j1 & L1 & R1 & S1 & E1 & Fi1 & Fj1 & Mi1 & Mj1 & U1).
    destruct H2 as (i2 & j2 & L2 & R2 & S2 & E2 & Fi2 & Fj2 & Mi2 & Mj2 & U2).
    assert (A1 := U1 i2 Fi2 Mi2). assert (A2 := U2 i1 Fi1 Mi1).
    assert (A3 := U1 j2 Fj2 Mj2). assert (A4 := U2 j1 Fj1 Mj1).
    assert (i1 = i2) by lia. assert (j1 = j2) by lia. subst i2 j2.
    destruct fo1 as [s1 e1 r1], fo2 as [s2 e2 r2]. cbn [fo_start fo_end fo_rows] in *.
    congruence.
  - exfalso. destruct H1 as (i1 & j1 & L1 & R1 & S1 & E1 & Fi1 & Fj1 & Mi1 & Mj1 & U1).
    exact (H2 i1 Fi1 Mi1).
  - exfalso. destruct H2 as (i2 & j2 & L2 & R2 & S2 & E2 & Fi2 & Fj2 & Mi2 & Mj2 & U2).
    exact (H1 i2 Fi2 Mi2).
  - reflexivity.
Qed.

Theorem lookup_spec_convex : forall rows bs be fo,
  pos_rows rows -> lookup_spec rows bs be (Some fo) ->
  exists i j, (i <= j < length rows)%nat /\ fo_rows fo = firstn (S j - i) (skipn i rows)
    /\ forall k, (i <= k <= j)%nat -> meets rows bs be k.
Proof.
  intros rows bs be fo Hp H. cbn [lookup_spec] in H.
  destruct H as (i & j & L & R & S1 & E1 & Fi & Fj & [Mi1 Mi2] & [Mj1 Mj2] & U).
  exists i, j. split; [assumption|]. split; [assumption|].
  intros k Hk. unfold meets in *. rewrite span_start_pre, span_end_pre in *.
  assert (G1 := pre_mono_le rows Hp (S i) (S k) ltac:(lia)).
  assert (G2 := pre_mono_le rows Hp k j ltac:(lia)). lia.
Qed.

(* ------------------------------------------------------------ brute force *)
Definition dflt : row := RG (mkGap 0 []).
Definition tri (rows : list row) (k : nat) : Z * Z * row :=
  (span_start rows k, span_end rows k, nth k rows dflt).
Definition meetsb (rows : list row) (bs be : Z) (k : nat) : bool :=
  (span_start rows k <=? be) && (bs <=? span_end rows k).

Lemma meetsb_iff rows bs be k : meetsb rows bs be k = true <-> meets rows bs be k.
Proof. unfold meetsb, meets. lia. Qed.

Lemma rows_len_app a b : rows_len (a ++ b) = rows_len a + rows_len b.
Proof. unfold rows_len. rewrite map_app. apply sumZ_app. Qed.

Lemma pre_app_l l t k : (k <= length l)%nat -> pre (l ++ t) k = pre l k.
Proof.
  intro H. unfold pre. rewrite firstn_app.
  replace (k - length l)%nat with 0%nat by lia. cbn [firstn]. rewrite app_nil_r. reflexivity.
Qed.

Lemma pre_all l : pre l (length l) = rows_len l.
Proof. unfold pre. rewrite firstn_all. reflexivity. Qed.

Lemma scan_rows_app bs be : forall l1 l2 pos,
  scan_rows (l1 ++ l2) pos bs be = scan_rows l1 pos bs be ++ scan_rows l2 (pos + rows_len l1) bs be.
Proof.
  induction l1 as [|r t IH]; intros l2 pos.
  - cbn [app scan_rows]. rewrite rows_len_nil. f_equal. f_equal. lia.
  - cbn [app scan_rows]. rewrite IH, rows_len_cons, <- app_assoc.
    replace (pos + (row_len r + rows_len t)) with (pos + row_len r + rows_len t) by lia.
    reflexivity.
Qed.

Lemma scan_rows_seq bs be : forall rows,
  scan_rows rows 0 bs be =
  map (tri rows) (filter (meetsb rows bs be) (seq 0 (length rows))).
Proof.
  induction rows as [|r l IH] using rev_ind; [reflexivity|].
  rewrite scan_rows_app, app_length. cbn [length]. rewrite Nat.add_1_r, seq_S, filter_app, map_app.
  f_equal.
  - rewrite IH.
    rewrite (filter_ext_in (meetsb (l ++ [r]) bs be) (meetsb l bs be)).
    + apply map_ext_in. intros k Hk. apply filter_In in Hk as [Hk _]. apply in_seq in Hk.
      unfold tri. rewrite !span_start_pre, !span_end_pre.
      rewrite !pre_app_l by lia. rewrite app_nth1 by lia. reflexivity.
    + intros k Hk. apply in_seq in Hk. unfold meetsb.
      rewrite !span_start_pre, !span_end_pre. rewrite !pre_app_l by lia. reflexivity.
  - cbn [scan_rows filter Nat.add]. rewrite app_nil_r.
    assert (P1 : pre (l ++ [r]) (length l) = rows_len l).
    { rewrite pre_app_l by lia. apply pre_all. }
    assert (P2 : pre (l ++ [r]) (S (length l)) = rows_len l + row_len r).
    { replace (S (length l)) with (length (l ++ [r])) by (rewrite app_length; cbn [length]; lia).
      rewrite pre_all, rows_len_app, rows_len_cons, rows_len_nil. lia. }
    assert (T : tri (l ++ [r]) (length l) = (0 + rows_len l + 1, 0 + rows_len l + row_len r, r)).
    { unfold tri. rewrite span_start_pre, span_end_pre, P1, P2, nth_middle.
      f_equal. f_equal; lia. }
    assert (M : meetsb (l ++ [r]) bs be (length l) =
                (0 + rows_len l + 1 <=? be) && (bs <=? 0 + rows_len l + row_len r)).
    { unfold meetsb. rewrite span_start_pre, span_end_pre, P1, P2.
      f_equal; f_equal; lia. }
    rewrite M. destruct ((0 + rows_len l + 1 <=? be) && (bs <=? 0 + rows_len l + row_len r)).
    + cbn [map]. rewrite T. reflexivity.
    + reflexivity.
Qed.

Lemma downclosed_cut (Q : nat -> bool) : forall n,
  (forall k k', (k <= k' < n)%nat -> Q k' = true -> Q k = true) ->
  exists c, (c <= n)%nat /\ forall k, (k < n)%nat -> (Q k = true <-> (k < c)%nat).
Proof.
  induction n as [|n IH]; intro H.
  - exists 0%nat. split; [lia|]. intros k Hk. lia.
  - destruct IH as (c & Lc & Hc). { intros k k' L. apply H. lia. }
    destruct (Q n) eqn:E.
    + exists (S n). split; [lia|]. intros k Hk. split; [lia|]. intros _.
      apply (H k n); [lia|assumption].
    + exists c. split; [lia|]. intros k Hk.
      destruct (Nat.eq_dec k n) as [->|N].
      * rewrite E. split; [discriminate|lia].
      * apply Hc. lia.
Qed.

Lemma meets_cut rows bs be : pos_rows rows ->
  exists a b, (a <= length rows)%nat /\ (b <= length rows)%nat /\
    forall k, (k < length rows)%nat -> (meetsb rows bs be k = true <-> (a <= k < b)%nat).
Proof.
  intro Hp.
  destruct (downclosed_cut (fun k => pre rows (S k) <? bs) (length rows)) as (a & La & Ha).
  { intros k k' L H. assert (G := pre_mono_le rows Hp (S k) (S k') ltac:(lia)). lia. }
  destruct (downclosed_cut (fun k => 1 + pre rows k <=? be) (length rows)) as (b & Lb & Hb).
  { intros k k' L H. assert (G := pre_mono_le rows Hp k k' ltac:(lia)). lia. }
  exists a, b. split; [assumption|]. split; [assumption|]. intros k Hk.
  specialize (Ha k Hk). specialize (Hb k Hk). cbv beta in Ha, Hb.
  unfold meetsb. rewrite span_start_pre, span_end_pre. lia.
Qed.

Lemma filter_seq_interval (P : nat -> bool) a : forall n b, (b <= n)%nat ->
  (forall k, (k < n)%nat -> (P k = true <-> (a <= k < b)%nat)) ->
  filter P (seq 0 n) = seq a (b - a).
Proof.
  induction n as [|n IH]; intros b Lb H.
  - replace (b - a)%nat with 0%nat by lia. reflexivity.
  - rewrite seq_S, filter_app. cbn [filter Nat.add].
    assert (Hn := H n ltac:(lia)).
    destruct (P n) eqn:E.
    + assert (b = S n) by lia. subst b.
      rewrite (IH n) by (try lia; intros k Hk; specialize (H k ltac:(lia)); lia).
      replace (S n - a)%nat with (S (n - a)) by lia. rewrite seq_S.
      replace (a + (n - a))%nat with n by lia. reflexivity.
    + rewrite app_nil_r. destruct (le_lt_dec b n) as [L|L].
      * apply IH; [assumption|]. intros k Hk. apply H. lia.
      * rewrite (IH n) by (try lia; intros k Hk; specialize (H k ltac:(lia)); lia).
        replace (n - a)%nat with 0%nat by lia. replace (b - a)%nat with 0%nat by lia. reflexivity.
Qed.

Lemma nth_frag_or_gap rows k : (k < length rows)%nat ->
  (exists f, nth k rows dflt = RF f /\ frag_at rows k) \/
  (exists g, nth k rows dflt = RG g /\ gap_at rows k).
Proof.
  intro H. assert (E := nth_error_nth' rows dflt H).
  destruct (nth k rows dflt) as [f|g].
  - left. exists f. split; [reflexivity|]. exists f. assumption.
  - right. exists g. split; [reflexivity|]. exists g. assumption.
Qed.

Lemma drop_gaps_seq rows : forall len a, (a + len <= length rows)%nat ->
  exists g, (g <= len)%nat
    /\ drop_gaps (map (tri rows) (seq a len)) = map (tri rows) (seq (a + g) (len - g))
    /\ (forall k, (a <= k < a + g)%nat -> gap_at rows k)
    /\ ((g < len)%nat -> frag_at rows (a + g)).
Proof.
  induction len as [|len IH]; intros a L.
  - exists 0%nat. split; [lia|]. split; [reflexivity|]. split; intros; lia.
  - cbn [seq map]. unfold tri at 1.
    destruct (nth_frag_or_gap rows a ltac:(lia)) as [(f & E & F)|(g0 & E & G)]; rewrite E.
    + exists 0%nat. split; [lia|]. split.
      { cbn [drop_gaps]. rewrite Nat.add_0_r, Nat.sub_0_r. cbn [seq map]. unfold tri at 2.
        rewrite E. reflexivity. }
      split; [intros; lia|]. intros _. rewrite Nat.add_0_r. assumption.
    + cbn [drop_gaps]. destruct (IH (S a) ltac:(lia)) as (g & Lg & Eg & Gg & Fg).
      exists (S g). split; [lia|]. split.
      { rewrite Eg. replace (a + S g)%nat with (S a + g)%nat by lia.
        replace (S len - S g)%nat with (len - g)%nat by lia. reflexivity. }
      split.
      * intros k Hk. destruct (Nat.eq_dec k a) as [->|N]; [assumption|apply Gg; lia].
      * intros Hl. replace (a + S g)%nat with (S a + g)%nat by lia. apply Fg. lia.
Qed.

Lemma drop_gaps_rev_seq rows a : forall len, (a + len <= length rows)%nat ->
  exists g, (g <= len)%nat
    /\ rev (drop_gaps (rev (map (tri rows) (seq a len)))) = map (tri rows) (seq a (len - g))
    /\ (forall k, (a + len - g <= k < a + len)%nat -> gap_at rows k)
    /\ ((g < len)%nat -> frag_at rows (a + len - g - 1)).
Proof.
  induction len as [|len IH]; intros L.
  - exists 0%nat. split; [lia|]. split; [reflexivity|]. split; intros; lia.
  - rewrite seq_S, map_app, rev_app_distr. cbn [map rev app]. unfold tri at 1.
    destruct (nth_frag_or_gap rows (a + len) ltac:(lia)) as [(f & E & F)|(g0 & E & G)]; rewrite E.
    + exists 0%nat. split; [lia|]. split.
      { cbn [drop_gaps rev]. rewrite rev_involutive, Nat.sub_0_r, seq_S, map_app.
        cbn [map]. unfold tri at 3. rewrite E. reflexivity. }
      split; [intros; lia|]. intros _.
      replace (a + S len - 0 - 1)%nat with (a + len)%nat by lia. assumption.
    + cbn [drop_gaps]. destruct (IH ltac:(lia)) as (g & Lg & Eg & Gg & Fg).
      exists (S g). split; [lia|]. split.
      { rewrite Eg. replace (S len - S g)%nat with (len - g)%nat by lia. reflexivity. }
      split.
      * intros k Hk. destruct (Nat.eq_dec k (a + len)) as [->|N]; [assumption|apply Gg; lia].
      * intros Hl. replace (a + S len - S g - 1)%nat with (a + len - g - 1)%nat by lia.
        apply Fg. lia.
Qed.

Lemma skipn_nth_cons {A} (d : A) : forall l i, (i < length l)%nat ->
  skipn i l = nth i l d :: skipn (S i) l.
Proof.
  induction l as [|x l IH]; intros i H; cbn [length] in H; [lia|].
  destruct i as [|i]; [reflexivity|].
  cbn [skipn nth]. rewrite (IH i) by lia. reflexivity.
Qed.

Lemma map_nth_seq {A} (d : A) l : forall len i, (i + len <= length l)%nat ->
  map (fun k => nth k l d) (seq i len) = firstn len (skipn i l).
Proof.
  induction len as [|len IH]; intros i H; [reflexivity|].
  cbn [seq map]. rewrite IH by lia. rewrite (skipn_nth_cons d l i) by lia. reflexivity.
Qed.

Lemma last_opt_app {A} (l : list A) x : last_opt (l ++ [x]) = Some x.
Proof. unfold last_opt. rewrite rev_app_distr. reflexivity. Qed.

Lemma core_match (core : list (Z * Z * row)) st e1 r1 t s2 en r2 :
  core = (st, e1, r1) :: t -> last_opt core = Some (s2, en, r2) ->
  match core, last_opt core with
  | (st, _, _) :: _, Some (_, en, _) => Some (mkFound st en (map snd core))
  | _, _ => None
  end = Some (mkFound st en (map snd core)).
Proof. intros H1 H2. subst core. cbv iota beta. rewrite H2. reflexivity. Qed.

Theorem brute_force_spec : forall rows bs be,
  pos_rows rows -> lookup_spec rows bs be (brute_force rows bs be).
Proof.
  intros rows bs be Hp. unfold brute_force. cbv zeta.
  destruct (meets_cut rows bs be Hp) as (a & b & La & Lb & Hab).
  rewrite scan_rows_seq, (filter_seq_interval _ a (length rows) b Lb Hab).
  destruct (drop_gaps_seq rows (b - a) a ltac:(lia)) as (g1 & Lg1 & E1 & G1 & F1).
  rewrite E1.
  destruct (drop_gaps_rev_seq rows (a + g1) (b - a - g1) ltac:(lia)) as (g2 & Lg2 & E2 & G2 & F2).
  rewrite E2.
  set (i1 := (a + g1)%nat) in *.
  destruct (b - a - g1 - g2)%nat as [|c] eqn:Ec.
  - cbn [seq map lookup_spec]. intros k Fk Mk.
    assert (Lk := frag_at_lt rows k Fk).
    apply meetsb_iff in Mk. apply Hab in Mk; [|assumption].
    destruct (le_lt_dec i1 k) as [L|L].
    + eapply frag_not_gap; [exact Fk|apply G2; lia].
    + eapply frag_not_gap; [exact Fk|apply G1; lia].
  - rewrite (core_match _ (span_start rows i1) (span_end rows i1) (nth i1 rows dflt)
               (map (tri rows) (seq (S i1) c))
               (span_start rows (i1 + c)) (span_end rows (i1 + c)) (nth (i1 + c) rows dflt)).
    2: reflexivity.
    2: { rewrite seq_S, map_app. apply last_opt_app. }
    cbn [lookup_spec fo_rows fo_start fo_end].
    exists i1, (i1 + c)%nat. split; [lia|]. split.
    { rewrite map_map. unfold tri. cbn [snd]. rewrite (map_nth_seq dflt rows) by lia.
      f_equal. lia. }
    split; [reflexivity|]. split; [reflexivity|].
    split; [apply F1; lia|].
    split. { replace (i1 + c)%nat with (i1 + (b - a - g1) - g2 - 1)%nat by lia. apply F2. lia. }
    split; [apply meetsb_iff, Hab; lia|]. split; [apply meetsb_iff, Hab; lia|].
    intros k Fk Mk. assert (Lk := frag_at_lt rows k Fk).
    apply meetsb_iff in Mk. apply Hab in Mk; [|assumption]. split.
    + destruct (le_lt_dec i1 k) as [L|L]; [assumption|]. exfalso.
      eapply frag_not_gap; [exact Fk|apply G1; lia].
    + destruct (le_lt_dec k (i1 + c)) as [L|L]; [assumption|]. exfalso.
      eapply frag_not_gap; [exact Fk|apply G2; lia].
Qed.

Corollary find_overlaps_eq_brute_force : forall rows bs be,
  rows <> [] -> pos_rows rows -> 1 <= bs <= be ->
  find_overlaps rows bs be = Ok (brute_force rows bs be).
Proof.
  intros rows bs be Hne Hp Hb.
  destruct (find_overlaps_spec rows bs be Hne Hp Hb) as (r & Er & Hr).
  rewrite Er. f_equal.
  exact (lookup_spec_unique rows bs be _ _ Hp Hr (brute_force_spec rows bs be Hp)).
Qed.

(* ------------------------------------ the code as found: trailing gap bug *)
Lemma find_overlaps_legacy_refuted :
  exists rows bs be, rows <> [] /\ pos_rows rows /\ 1 <= bs <= be /\
    find_overlaps_legacy rows bs be = Err IndexError.
Proof.
  exists [RF (mkFrag 0 (s "c") 1 10 1 []); RG (mkGap 10 (s "scaffold"))], 11, 20.
  split; [discriminate|]. split.
  { repeat constructor; cbn; lia. }
  split; [lia|]. vm_compute. reflexivity.
Qed.

Print Assumptions find_overlaps_spec.
Print Assumptions lookup_spec_unique.
Print Assumptions lookup_spec_convex.
Print Assumptions brute_force_spec.
Print Assumptions find_overlaps_eq_brute_force.
Print Assumptions find_overlaps_legacy_refuted.
