(* FastaStream (Model/Stream.v): the line-wrapping state machine is independent
   of how the residues are cut into chunks and rows, wraps exactly as
   FastaSpec.wrap_body, and write_scaffold / write_assembly produce the expected
   bytes for every buffer size.  The facts about the chunk iterators
   (fwd_chunks, rev_chunks, gap_chunks) are premises of the theorems that need
   them; nothing is assumed globally. *)
From Tola Require Import Py.Base Model.Fragment Model.Fasta Model.Stream Model.FastaSpec
  Proofs.BaseLemmas.
From Coq Require Import Lia ZifyBool.

(* ------------------------------------------------------------------------ *)
(* Specification of one logical line state.  [want] residues are still
   missing on the current output line: take min(want,|x|) residues; if that
   completes the line emit LF and go on with a fresh line of [L]. *)
Fixpoint wrap_from (fuel : nat) (L : nat) (want : nat) (x : str) : str * nat :=
  match fuel with
  | O => ([], want)
  | S f =>
      match x with
      | [] => ([], want)
      | _ :: _ =>
          let seq := firstn want x in
          if Nat.eqb (length seq) want then
            let r := wrap_from f L L (skipn want x) in (seq ++ LF :: fst r, snd r)
          else (seq, (want - length seq)%nat)
      end
  end.
(* enough fuel for any body *)
Definition wrap_st (L want : nat) (x : str) : str * nat := wrap_from (S (length x)) L want x.

(* the same machine one residue at a time (proof device: structural, so
   composition over [++] is a plain induction) *)
Fixpoint wrap_c (L want : nat) (x : str) : str * nat :=
  match x with
  | [] => ([], want)
  | c :: t =>
      if Nat.eqb want 1 then let r := wrap_c L L t in (c :: LF :: fst r, snd r)
      else let r := wrap_c L (want - 1) t in (c :: fst r, snd r)
  end.

Section WrapNat.
Local Open Scope nat_scope.
Variable L : nat.
Hypothesis HL : 1 <= L.

Lemma wrap_c_short : forall x w, length x < w -> wrap_c L w x = (x, w - length x).
Proof.
  induction x as [|c t IH]; intros w H; cbn [wrap_c length] in *.
  - now rewrite Nat.sub_0_r.
  - destruct (Nat.eqb_spec w 1); [lia|].
    rewrite IH by lia. cbn [fst snd]. f_equal. lia.
Qed.

Lemma wrap_c_long : forall x w, 1 <= w <= length x ->
  wrap_c L w x = (firstn w x ++ LF :: fst (wrap_c L L (skipn w x)), snd (wrap_c L L (skipn w x))).
Proof.
  induction x as [|c t IH]; intros w H; cbn [length] in H; [lia|].
  destruct w as [|[|w]]; [lia| |].
  - reflexivity.
  - cbn [wrap_c]. change (S (S w) =? 1) with false. cbv iota.
    replace (S (S w) - 1) with (S w) by lia.
    rewrite IH by lia. reflexivity.
Qed.

Lemma wrap_c_app : forall a b w,
  wrap_c L w (a ++ b) =
  (fst (wrap_c L w a) ++ fst (wrap_c L (snd (wrap_c L w a)) b),
   snd (wrap_c L (snd (wrap_c L w a)) b)).
Proof.
  induction a as [|c a IH]; intros b w; cbn [app wrap_c fst snd].
  - now destruct (wrap_c L w b).
  - destruct (w =? 1); rewrite IH; reflexivity.
Qed.

Lemma wrap_c_want : forall x w, 1 <= w <= L -> 1 <= snd (wrap_c L w x) <= L.
Proof.
  induction x as [|c t IH]; intros w H; cbn [wrap_c].
  - exact H.
  - destruct (Nat.eqb_spec w 1); cbn [snd]; apply IH; lia.
Qed.

(* residues are written in order, nothing but LF is inserted *)
Lemma wrap_from_c : forall fuel x w, 1 <= w -> length x < fuel ->
  wrap_from fuel L w x = wrap_c L w x.
Proof.
  induction fuel as [|f IH]; intros x w Hw Hf; [lia|].
  destruct x as [|a x]; [reflexivity|].
  cbn [wrap_from]. cbv zeta. rewrite firstn_length.
  destruct (Nat.eqb_spec (Nat.min w (length (a :: x))) w) as [E|E].
  - rewrite wrap_c_long by lia. rewrite IH; [reflexivity|lia|].
    rewrite skipn_length. cbn [length] in *. lia.
  - rewrite wrap_c_short by lia. rewrite firstn_all2 by lia. f_equal. lia.
Qed.

Lemma wrap_st_c : forall x w, 1 <= w -> wrap_st L w x = wrap_c L w x.
Proof. intros. apply wrap_from_c; [assumption|lia]. Qed.

(* ---- the model's loop over one chunk *)
Lemma emit_chunk_c : forall fuel c w, 1 <= w -> length c < fuel ->
  emit_chunk fuel (Z.of_nat L) (Z.of_nat w) c
  = Ok (fst (wrap_c L w c), Z.of_nat (snd (wrap_c L w c))).
Proof.
  induction fuel as [|f IH]; intros c w Hw Hf; [lia|].
  cbn [emit_chunk]. unfold cread.
  destruct (Z.ltb_spec (Z.of_nat w) 0) as [?|_]; [lia|].
  rewrite Nat2Z.id.
  destruct c as [|a c].
  - rewrite firstn_nil. reflexivity.
  - remember (firstn w (a :: c)) as sq eqn:Esq.
    destruct sq as [|b sq].
    { destruct w; [lia|discriminate]. }
    rewrite Esq. clear b sq Esq.
    unfold zlen at 1 2. rewrite firstn_length.
    destruct (Nat.le_gt_cases w (length (a :: c))) as [Hle|Hgt].
    + replace (Z.of_nat w - Z.of_nat (Nat.min w (length (a :: c))))%Z with 0%Z by lia.
      change (0 =? 0)%Z with true. cbv iota.
      rewrite (IH (skipn w (a :: c)) L HL).
      2:{ rewrite skipn_length. cbn [length] in *. lia. }
      cbn [bind fst snd]. rewrite (wrap_c_long (a :: c) w) by lia. reflexivity.
    + replace (Z.of_nat w - Z.of_nat (Nat.min w (length (a :: c))))%Z
        with (Z.of_nat (w - length (a :: c))) by lia.
      destruct (Z.eqb_spec (Z.of_nat (w - length (a :: c))) 0) as [?|_]; [lia|].
      rewrite IH.
      2:{ lia. }
      2:{ rewrite skipn_length. cbn [length] in *. lia. }
      rewrite skipn_all2 by lia. rewrite firstn_all2 by lia.
      rewrite (wrap_c_short (a :: c) w) by lia.
      cbn [wrap_c bind fst snd]. rewrite app_nil_r. reflexivity.
Qed.

Lemma emit_chunks_c : forall chunks w, 1 <= w <= L ->
  emit_chunks (Z.of_nat L) (Z.of_nat w) chunks
  = Ok (fst (wrap_c L w (concat chunks)), Z.of_nat (snd (wrap_c L w (concat chunks)))).
Proof.
  induction chunks as [|c t IH]; intros w Hw; cbn [emit_chunks concat].
  - reflexivity.
  - rewrite emit_chunk_c by lia. cbn [bind fst snd].
    rewrite IH by (apply wrap_c_want; exact Hw).
    cbn [bind fst snd]. rewrite wrap_c_app. reflexivity.
Qed.

(* ---- wrap *)
Lemma wrap_fuel : forall f1 f2 x, length x < f1 -> length x < f2 -> wrap f1 L x = wrap f2 L x.
Proof.
  induction f1 as [|f1 IH]; intros f2 x H1 H2; [lia|].
  destruct f2 as [|f2]; [lia|].
  destruct x as [|a x]; [reflexivity|].
  cbn [wrap]. do 2 f_equal.
  assert (length (skipn L (a :: x)) < length (a :: x)).
  { rewrite skipn_length. cbn [length]. lia. }
  apply IH; lia.
Qed.

Lemma wrap_body_nil : wrap_body L [] = [].
Proof. reflexivity. Qed.

Lemma wrap_body_step : forall x, x <> [] ->
  wrap_body L x = firstn L x ++ LF :: wrap_body L (skipn L x).
Proof.
  intros x Hx. unfold wrap_body. destruct x as [|a x]; [congruence|].
  assert (length (skipn L (a :: x)) < length (a :: x)).
  { rewrite skipn_length. cbn [length]. lia. }
  rewrite (wrap_fuel (S (length (skipn L (a :: x)))) (length (a :: x))) by lia.
  reflexivity.
Qed.

Lemma wrap_body_c_aux : forall n x, length x <= n ->
  fst (wrap_c L L x) ++ (if snd (wrap_c L L x) =? L then [] else [LF]) = wrap_body L x.
Proof.
  induction n as [|n IH]; intros x Hn.
  - destruct x; [|cbn [length] in Hn; lia]. cbn [wrap_c fst snd].
    rewrite Nat.eqb_refl. reflexivity.
  - destruct x as [|a x].
    { cbn [wrap_c fst snd]. rewrite Nat.eqb_refl. reflexivity. }
    rewrite wrap_body_step by discriminate.
    destruct (Nat.le_gt_cases L (length (a :: x))) as [Hle|Hgt].
    + rewrite wrap_c_long by lia. cbn [fst snd].
      rewrite <- app_assoc. cbn [app]. do 2 f_equal.
      apply IH. rewrite skipn_length. cbn [length] in *. lia.
    + rewrite wrap_c_short by lia. cbn [fst snd].
      destruct (Nat.eqb_spec (L - length (a :: x)) L) as [E|_].
      { cbn [length] in *. lia. }
      rewrite firstn_all2 by lia. rewrite skipn_all2 by lia.
      rewrite wrap_body_nil. reflexivity.
Qed.

Lemma wrap_body_c : forall x,
  fst (wrap_c L L x) ++ (if snd (wrap_c L L x) =? L then [] else [LF]) = wrap_body L x.
Proof. intro x. apply (wrap_body_c_aux (length x)). lia. Qed.

Lemma wrap_body_lines_aux : forall n x, length x <= n ->
  exists lines, wrap_body L x = concat (map (fun l => l ++ [LF]) lines) /\ concat lines = x
    /\ Forall (fun l => 1 <= length l <= L) lines
    /\ (forall k l, nth_error lines k = Some l -> S k < length lines -> length l = L).
Proof.
  induction n as [|n IH]; intros x Hn.
  - destruct x; [|cbn [length] in Hn; lia].
    exists []. repeat split; [constructor|]. intros [|k] l H; discriminate.
  - destruct x as [|a x].
    { exists []. repeat split; [constructor|]. intros [|k] l H; discriminate. }
    destruct (IH (skipn L (a :: x))) as (lines & E1 & E2 & F & A).
    { rewrite skipn_length. cbn [length] in *. lia. }
    exists (firstn L (a :: x) :: lines).
    split; [|split; [|split]].
    + rewrite wrap_body_step by discriminate. cbn [map concat].
      rewrite <- app_assoc. cbn [app]. now rewrite E1.
    + cbn [concat]. rewrite E2. apply firstn_skipn.
    + constructor; [|exact F]. rewrite firstn_length. cbn [length]. lia.
    + intros [|k] l Hk Hlen; cbn [nth_error length] in *.
      * injection Hk as <-. rewrite firstn_length.
        destruct lines as [|l0 lines]; [cbn [length] in Hlen; lia|].
        assert (1 <= length (skipn L (a :: x))).
        { rewrite <- E2. cbn [concat]. rewrite app_length.
          apply Forall_inv in F. lia. }
        rewrite skipn_length in H. lia.
      * apply (A k l Hk). lia.
Qed.

End WrapNat.

(* ======================================================================== *)
(* 1 -- the wrapping state machine                                           *)
Theorem emit_chunks_spec : forall L want chunks, 1 <= L -> 1 <= want <= L ->
  exists out want', emit_chunks L want chunks = Ok (out, want') /\ 1 <= want' <= L
    /\ (out, want') =
       (fst (wrap_st (Z.to_nat L) (Z.to_nat want) (concat chunks)),
        Z.of_nat (snd (wrap_st (Z.to_nat L) (Z.to_nat want) (concat chunks)))).
Proof.
  intros L want chunks HL Hw.
  assert (EL : L = Z.of_nat (Z.to_nat L)) by lia.
  assert (Ew : want = Z.of_nat (Z.to_nat want)) by lia.
  assert (HL' : (1 <= Z.to_nat L)%nat) by lia.
  rewrite wrap_st_c by lia.
  pose proof (wrap_c_want _ HL' (concat chunks) (Z.to_nat want) ltac:(lia)) as W.
  do 2 eexists. split; [|split; [|reflexivity]].
  - rewrite EL at 1. rewrite Ew at 1. apply emit_chunks_c; lia.
  - lia.
Qed.

Corollary emit_chunks_concat : forall L want c1 c2, 1 <= L -> 1 <= want <= L ->
  concat c1 = concat c2 -> emit_chunks L want c1 = emit_chunks L want c2.
Proof.
  intros L want c1 c2 HL Hw E.
  destruct (emit_chunks_spec L want c1 HL Hw) as (o1 & w1 & E1 & _ & S1).
  destruct (emit_chunks_spec L want c2 HL Hw) as (o2 & w2 & E2 & _ & S2).
  rewrite E1, E2, S1, S2, E. reflexivity.
Qed.

(* feeding any chunk list = feeding its concatenation as one chunk *)
Corollary emit_chunks_one : forall L want chunks, 1 <= L -> 1 <= want <= L ->
  emit_chunks L want chunks = emit_chunks L want [concat chunks].
Proof.
  intros. apply emit_chunks_concat; try assumption.
  cbn [concat]. now rewrite app_nil_r.
Qed.

(* the state machine composes over [++] *)
Theorem wrap_st_app : forall L want a b, (1 <= L)%nat -> (1 <= want <= L)%nat ->
  wrap_st L want (a ++ b) =
  (fst (wrap_st L want a) ++ fst (wrap_st L (snd (wrap_st L want a)) b),
   snd (wrap_st L (snd (wrap_st L want a)) b)).
Proof.
  intros L want a b HL Hw.
  pose proof (wrap_c_want L HL a want Hw) as W.
  rewrite (wrap_st_c L HL a want) in * by lia.
  rewrite (wrap_st_c L HL (a ++ b) want) by lia.
  rewrite (wrap_st_c L HL b) by lia.
  apply wrap_c_app.
Qed.

(* ======================================================================== *)
(* 2 -- from a fresh line the body is wrapped exactly as FastaSpec.wrap_body *)
Theorem wrap_body_spec : forall L x, (1 <= L)%nat ->
  let '(out, want') := wrap_st L L x in
  out ++ (if (want' =? L)%nat then [] else [LF]) = wrap_body L x.
Proof.
  intros L x HL. rewrite wrap_st_c by lia.
  pose proof (wrap_body_c L HL x) as H.
  destruct (wrap_c L L x) as [out w]. exact H.
Qed.

Theorem wrap_body_lines : forall L x, (1 <= L)%nat ->
  exists lines, wrap_body L x = concat (map (fun l => l ++ [LF]) lines) /\ concat lines = x
    /\ Forall (fun l => (1 <= length l <= L)%nat) lines
    /\ (forall k l, nth_error lines k = Some l -> (S k < length lines)%nat -> length l = L).
Proof. intros L x HL. apply (wrap_body_lines_aux L HL (length x)). lia. Qed.

(* ======================================================================== *)
(* 4 -- record length                                                        *)
Local Notation gaps_nonneg :=
  (Forall (fun r => match r with RG g => 0 <= g_len g | RF _ => True end)).

Lemma zlen_app {A} (a b : list A) : zlen (a ++ b) = zlen a + zlen b.
Proof. unfold zlen. rewrite app_length. lia. Qed.

Lemma zlen_slice1 : forall x s e, 1 <= s -> s <= e -> e <= zlen x ->
  zlen (slice1 x s e) = e - s + 1.
Proof.
  intros x s0 e H1 H2 H3. unfold slice1, py_slice, zlen in *.
  rewrite firstn_length, skipn_length. lia.
Qed.

Lemma zlen_reverse_complement x : zlen (reverse_complement x) = zlen x.
Proof. unfold zlen, reverse_complement. now rewrite map_length, rev_length. Qed.

Lemma row_bytes_length : forall seqs gap_char r b,
  match r with RG g => 0 <= g_len g | RF _ => True end ->
  row_bytes seqs gap_char r = Some b -> zlen b = row_len r.
Proof.
  intros seqs gap_char [f|g] b Hg H; cbn [row_bytes row_len] in *.
  - destruct (aget str_eqb seqs (f_name f)) as [x|]; [|discriminate].
    destruct ((1 <=? f_start f) && (f_start f <=? f_end f) && (f_end f <=? zlen x)) eqn:C;
      [|discriminate].
    injection H as <-. unfold f_len.
    destruct (f_strand f =? -1); rewrite ?zlen_reverse_complement, zlen_slice1; lia.
  - injection H as <-. unfold zlen. rewrite repeat_length. lia.
Qed.

Theorem rows_bytes_length : forall seqs gap_char rows body,
  Forall (fun r => match r with RG g => 0 <= g_len g | RF _ => True end) rows ->
  rows_bytes seqs gap_char rows = Some body -> zlen body = rows_len rows.
Proof.
  intros seqs gap_char rows. unfold rows_len.
  induction rows as [|r t IH]; intros body F H; cbn [rows_bytes map] in *.
  - injection H as <-. reflexivity.
  - destruct (row_bytes seqs gap_char r) as [a|] eqn:Ea; [|discriminate].
    destruct (rows_bytes seqs gap_char t) as [b|] eqn:Eb; [|discriminate].
    injection H as <-. inversion F as [|? ? Fr Ft]; subst.
    rewrite zlen_app, sumZ_cons, (IH b Ft eq_refl).
    now rewrite (row_bytes_length _ _ _ _ Fr Ea).
Qed.

(* ======================================================================== *)
(* 3 -- write_scaffold / write_assembly, given the chunk iterator facts      *)
Definition fwd_chunks_ok : Prop :=
  forall file buf i residues s e, good_access file i residues -> 1 <= buf -> 1 <= s -> s <= e ->
    e <= zlen residues ->
    exists cs, fwd_chunks file buf i s e = Ok cs /\ concat cs = slice1 residues s e
      /\ Forall (fun c => 1 <= zlen c <= buf) cs /\ zlen cs = (e - s) / buf + 1.
Definition rev_chunks_ok : Prop :=
  forall file buf i residues s e, good_access file i residues -> 1 <= buf -> 1 <= s -> s <= e ->
    e <= zlen residues ->
    exists cs, rev_chunks file buf i s e = Ok cs
      /\ concat cs = reverse_complement (slice1 residues s e)
      /\ Forall (fun c => 1 <= zlen c <= buf) cs /\ zlen cs = (e - s) / buf + 1.
Definition gap_chunks_ok : Prop :=
  forall buf c len, 1 <= buf -> 0 <= len ->
    exists cs, gap_chunks buf c len = Ok cs /\ concat cs = repeat c (Z.to_nat len)
      /\ Forall (fun x => zlen x <= buf) cs /\ zlen cs = len / buf + 1.

(* every record the rows mention is accessible *)
Definition seqs_accessible (file : str) (idx : list (str * finfo)) (seqs : list (str * str)) : Prop :=
  forall n x, aget str_eqb seqs n = Some x ->
    exists i, aget str_eqb idx n = Some i /\ good_access file i x.

(* what write_assembly must produce *)
Fixpoint expected_assembly (seqs : list (str * str)) (gap_char : ascii) (L : nat)
         (scs : list (str * list row)) : option str :=
  match scs with
  | [] => Some []
  | (name, rows) :: t =>
      do' a <- expected_scaffold seqs gap_char L name rows;
      do' b <- expected_assembly seqs gap_char L t;
      Some (a ++ b)
  end.

Section Scaffold.
Hypothesis H_fwd : fwd_chunks_ok.
Hypothesis H_rev : rev_chunks_ok.
Hypothesis H_gap : gap_chunks_ok.

Lemma row_chunks_spec : forall file idx seqs buf gap_char r b,
  1 <= buf -> seqs_accessible file idx seqs ->
  match r with RG g => 0 <= g_len g | RF _ => True end ->
  row_bytes seqs gap_char r = Some b ->
  exists cs, row_chunks file idx buf gap_char r = Ok cs /\ concat cs = b.
Proof.
  intros file idx seqs buf gap_char [f|g] b Hbuf Hacc Hg H; cbn [row_bytes row_chunks] in *.
  - destruct (aget str_eqb seqs (f_name f)) as [x|] eqn:Ex; [|discriminate].
    destruct ((1 <=? f_start f) && (f_start f <=? f_end f) && (f_end f <=? zlen x)) eqn:C;
      [|discriminate].
    injection H as <-.
    destruct (Hacc _ _ Ex) as (i & Ei & Gi).
    unfold sequence_chunks, get_info. rewrite Ei. cbn [bind].
    destruct (f_strand f =? -1).
    + destruct (H_rev file buf i x (f_start f) (f_end f) Gi Hbuf) as (cs & E1 & E2 & _);
        try lia. eauto.
    + destruct (H_fwd file buf i x (f_start f) (f_end f) Gi Hbuf) as (cs & E1 & E2 & _);
        try lia. eauto.
  - injection H as <-.
    destruct (H_gap buf gap_char (g_len g) Hbuf Hg) as (cs & E1 & E2 & _). eauto.
Qed.

Lemma emit_rows_c : forall file idx seqs buf L gap_char rows w body,
  1 <= buf -> (1 <= L)%nat -> (1 <= w <= L)%nat -> seqs_accessible file idx seqs ->
  gaps_nonneg rows -> rows_bytes seqs gap_char rows = Some body ->
  emit_rows file idx buf (Z.of_nat L) gap_char rows (Z.of_nat w)
  = Ok (fst (wrap_c L w body), Z.of_nat (snd (wrap_c L w body))).
Proof.
  intros file idx seqs buf L gap_char rows.
  induction rows as [|r t IH]; intros w body Hbuf HL Hw Hacc F H; cbn [rows_bytes emit_rows] in *.
  - injection H as <-. reflexivity.
  - destruct (row_bytes seqs gap_char r) as [a|] eqn:Ea; [|discriminate].
    destruct (rows_bytes seqs gap_char t) as [b|] eqn:Eb; [|discriminate].
    injection H as <-. inversion F as [|? ? Fr Ft]; subst.
    destruct (row_chunks_spec file idx seqs buf gap_char r a Hbuf Hacc Fr Ea) as (cs & E1 & E2).
    rewrite E1. cbn [bind]. rewrite emit_chunks_c by assumption. cbn [bind fst snd].
    rewrite (IH _ b Hbuf HL) by (try apply wrap_c_want; auto).
    cbn [bind fst snd]. rewrite E2, wrap_c_app. reflexivity.
Qed.

(* the rows of a scaffold, fed through the state machine from any line state *)
Theorem emit_rows_spec : forall file idx seqs buf L gap_char rows want body,
  1 <= buf -> (1 <= L)%nat -> (1 <= want <= L)%nat -> seqs_accessible file idx seqs ->
  gaps_nonneg rows -> rows_bytes seqs gap_char rows = Some body ->
  emit_rows file idx buf (Z.of_nat L) gap_char rows (Z.of_nat want)
  = Ok (fst (wrap_st L want body), Z.of_nat (snd (wrap_st L want body))).
Proof. intros. rewrite wrap_st_c by lia. eapply emit_rows_c; eauto. Qed.

Theorem write_scaffold_spec : forall file idx seqs buf L gap_char name rows body,
  1 <= buf -> (1 <= L)%nat ->
  (forall n x, aget str_eqb seqs n = Some x ->
     exists i, aget str_eqb idx n = Some i /\ good_access file i x) ->
  Forall (fun r => match r with RG g => 0 <= g_len g | RF _ => True end) rows ->
  rows_bytes seqs gap_char rows = Some body ->
  write_scaffold file idx buf (Z.of_nat L) gap_char name rows
  = Ok (GT :: name ++ LF :: wrap_body L body).
Proof.
  intros file idx seqs buf L gap_char name rows body Hbuf HL Hacc F H.
  unfold write_scaffold.
  rewrite (emit_rows_c file idx seqs buf L gap_char rows L body) by (auto; lia).
  cbn [bind fst snd]. do 4 f_equal.
  rewrite <- (wrap_body_c L HL body). f_equal.
  destruct (Z.eqb_spec (Z.of_nat (snd (wrap_c L L body))) (Z.of_nat L)),
           (Nat.eqb_spec (snd (wrap_c L L body)) L); try reflexivity; lia.
Qed.

Corollary write_scaffold_expected : forall file idx seqs buf L gap_char name rows out,
  1 <= buf -> (1 <= L)%nat -> seqs_accessible file idx seqs -> gaps_nonneg rows ->
  expected_scaffold seqs gap_char L name rows = Some out ->
  write_scaffold file idx buf (Z.of_nat L) gap_char name rows = Ok out.
Proof.
  intros file idx seqs buf L gap_char name rows out Hbuf HL Hacc F H.
  unfold expected_scaffold in H.
  destruct (rows_bytes seqs gap_char rows) as [body|] eqn:Eb; [|discriminate].
  injection H as <-. eapply write_scaffold_spec; eauto.
Qed.

Corollary write_scaffold_buffer_independent :
  forall file idx seqs b1 b2 L gap_char name rows body,
  1 <= b1 -> 1 <= b2 -> (1 <= L)%nat ->
  (forall n x, aget str_eqb seqs n = Some x ->
     exists i, aget str_eqb idx n = Some i /\ good_access file i x) ->
  Forall (fun r => match r with RG g => 0 <= g_len g | RF _ => True end) rows ->
  rows_bytes seqs gap_char rows = Some body ->
  write_scaffold file idx b1 (Z.of_nat L) gap_char name rows
  = write_scaffold file idx b2 (Z.of_nat L) gap_char name rows.
Proof.
  intros file idx seqs b1 b2 L gap_char name rows body H1 H2 HL Hacc F H.
  rewrite (write_scaffold_spec file idx seqs b1 L gap_char name rows body) by assumption.
  rewrite (write_scaffold_spec file idx seqs b2 L gap_char name rows body) by assumption.
  reflexivity.
Qed.

Theorem write_assembly_spec : forall file idx seqs buf L gap_char scs out,
  1 <= buf -> (1 <= L)%nat ->
  (forall n x, aget str_eqb seqs n = Some x ->
     exists i, aget str_eqb idx n = Some i /\ good_access file i x) ->
  Forall (fun sc => Forall (fun r => match r with RG g => 0 <= g_len g | RF _ => True end)
                           (snd sc)) scs ->
  expected_assembly seqs gap_char L scs = Some out ->
  write_assembly file idx buf (Z.of_nat L) gap_char scs = Ok out.
Proof.
  intros file idx seqs buf L gap_char scs out Hbuf HL Hacc.
  revert out. induction scs as [|[name rows] t IH]; intros out F H;
    cbn [expected_assembly write_assembly] in *.
  - injection H as <-. reflexivity.
  - destruct (expected_scaffold seqs gap_char L name rows) as [a|] eqn:Ea; [|discriminate].
    destruct (expected_assembly seqs gap_char L t) as [b|] eqn:Eb; [|discriminate].
    injection H as <-. inversion F as [|? ? Fr Ft]; subst. cbn [snd] in Fr.
    rewrite (write_scaffold_expected file idx seqs buf L gap_char name rows a) by assumption.
    cbn [bind]. rewrite (IH b Ft eq_refl). reflexivity.
Qed.

Corollary write_assembly_buffer_independent : forall file idx seqs b1 b2 L gap_char scs out,
  1 <= b1 -> 1 <= b2 -> (1 <= L)%nat -> seqs_accessible file idx seqs ->
  Forall (fun sc => gaps_nonneg (snd sc)) scs ->
  expected_assembly seqs gap_char L scs = Some out ->
  write_assembly file idx b1 (Z.of_nat L) gap_char scs
  = write_assembly file idx b2 (Z.of_nat L) gap_char scs.
Proof.
  intros file idx seqs b1 b2 L gap_char scs out H1 H2 HL Hacc F H.
  rewrite (write_assembly_spec file idx seqs b1 L gap_char scs out) by assumption.
  rewrite (write_assembly_spec file idx seqs b2 L gap_char scs out) by assumption.
  reflexivity.
Qed.

End Scaffold.

(* ======================================================================== *)
(* non-vacuity: a concrete file, a forward fragment, a gap and a reverse
   fragment; L = 4, buf = 3 *)
Definition ex_file : str := s ">a
ACGTAC
GT
".
Definition ex_idx : list (str * finfo) := [(s "a", mkInfo 8 3 6 7)].
Definition ex_seqs : list (str * str) := [(s "a", s "ACGTACGT")].
Definition ex_rows : list row :=
  [RF (mkFrag 0 (s "a") 2 8 1 []); RG (mkGap 5 (s "scaffold")); RF (mkFrag 1 (s "a") 1 6 (-1) [])].

Example ex_write_scaffold :
  write_scaffold ex_file ex_idx 3 4 "N"%char (s "sc1") ex_rows
  = Ok (s ">sc1
CGTA
CGTN
NNNN
GTAC
GT
").
Proof. vm_compute. reflexivity. Qed.

Example ex_expected_scaffold :
  expected_scaffold ex_seqs "N"%char 4 (s "sc1") ex_rows
  = Some (s ">sc1
CGTA
CGTN
NNNN
GTAC
GT
").
Proof. vm_compute. reflexivity. Qed.

(* the same bytes for every buffer size 1..12 *)
Example ex_buffers :
  forallb (fun buf => match write_scaffold ex_file ex_idx buf 4 "N"%char (s "sc1") ex_rows,
                            expected_scaffold ex_seqs "N"%char 4 (s "sc1") ex_rows with
                      | Ok a, Some b => str_eqb a b
                      | _, _ => false
                      end) [1; 2; 3; 4; 5; 6; 7; 8; 9; 10; 11; 12] = true.
Proof. vm_compute. reflexivity. Qed.

(* the access premise of write_scaffold_spec holds for the example *)
Example ex_good_access : seqs_accessible ex_file ex_idx ex_seqs.
Proof.
  intros n x H. cbn [ex_seqs aget] in H.
  destruct (str_eqb n (s "a")) eqn:E; [|discriminate].
  injection H as <-. apply str_eqb_eq in E. subst n.
  exists (mkInfo 8 3 6 7). split; [reflexivity|].
  split; [reflexivity|].
  intros s0 e H1 H2 H3. unfold zlen in H3. cbn [length] in H3.
  assert (Hs : s0 = 1 \/ s0 = 2 \/ s0 = 3 \/ s0 = 4 \/ s0 = 5 \/ s0 = 6 \/ s0 = 7 \/ s0 = 8) by lia.
  assert (He : e = 1 \/ e = 2 \/ e = 3 \/ e = 4 \/ e = 5 \/ e = 6 \/ e = 7 \/ e = 8) by lia.
  repeat (destruct Hs as [->|Hs]); try subst s0;
    repeat (destruct He as [->|He]); try subst e; try lia; vm_compute; reflexivity.
Qed.

(* the state machine on a small input, cut in two different ways *)
Example ex_emit_chunks :
  emit_chunks 4 3 [s "AC"; []; s "GTACG"; s "T"] = Ok (s "ACG
TACG
T", 3)
  /\ emit_chunks 4 3 [s "ACGTACGT"] = Ok (s "ACG
TACG
T", 3)
  /\ wrap_st 4 3 (s "ACGTACGT") = (s "ACG
TACG
T", 3%nat).
Proof. vm_compute. repeat split. Qed.

Print Assumptions emit_chunks_spec.
Print Assumptions emit_chunks_concat.
Print Assumptions emit_chunks_one.
Print Assumptions wrap_st_app.
Print Assumptions wrap_body_spec.
Print Assumptions wrap_body_lines.
Print Assumptions rows_bytes_length.
Print Assumptions emit_rows_spec.
Print Assumptions write_scaffold_spec.
Print Assumptions write_scaffold_expected.
Print Assumptions write_scaffold_buffer_independent.
Print Assumptions write_assembly_spec.
Print Assumptions write_assembly_buffer_independent.
Print Assumptions ex_write_scaffold.
Print Assumptions ex_expected_scaffold.
Print Assumptions ex_buffers.
Print Assumptions ex_good_access.
Print Assumptions ex_emit_chunks.
