(* C02 capstone for PAINTED maps, ingredients about the first half of [remap]:

   head_added              (no hypothesis on the tags at all) every id in
                           b_added is a valid index of the store, and a stored
                           result that still has rows is in b_added at its own
                           index -- the rank-free part of
                           Proofs.EndToEndC02Total.head_untagged;
   same_scaffold_same_key_painted
                           two stored results whose baits are rows of the SAME
                           Pretext scaffold carry the same fusion key, for baits
                           that are untagged or tagged ["Painted"]: such a bait
                           does not touch the namer, so all the results of one
                           Pretext scaffold are labelled from one namer state;
                           the unloc / haplotig renamings run on empty lists. *)
From Tola Require Import Py.Base Py.Sort Model.Fragment Model.Scaffold Model.Lookup
  Model.OverlapResult Model.OvrSpec Model.NaturalKey Model.Namer Model.Remap Model.RemapSpec
  Proofs.BaseLemmas Proofs.RemapHead Proofs.EndToEndC02Total Proofs.EndToEndC02Order.
From Tola Require Proofs.UniqueNames Proofs.NullMap Proofs.PretextOrder Proofs.CoreKept
  Proofs.CompletionLookup.
From Coq Require Import Lia ZifyBool Permutation.

Notation tags_ok := Proofs.CompletionLookup.tags_ok.

(* ===================================================================== 1 ==
   result number n is in [added] if it has rows *)
Definition QA (added : list rid) (n : nat) (r : ovr) : Prop :=
  o_rows r <> [] -> In (Z.of_nat n) added.

Lemma QA_ext added n r r' : keeps r r' -> QA added n r -> QA added n r'.
Proof. intros [_ K2] H X. apply H, K2, X. Qed.

Lemma KSA_mono added added' st : incl added added' -> KS (QA added) st -> KS (QA added') st.
Proof. intros I H n r Hn X. apply I. exact (H n r Hn X). Qed.

Lemma one_bait_A inp err tags orig b bait b' :
  KS (QA (b_added b)) (b_store b) -> one_bait inp err tags orig b bait = Ok b' ->
  KS (QA (b_added b')) (b_store b').
Proof.
  intros Hs H. unfold one_bait in H.
  bind_inv H rows Hrows. bind_inv H fo Hfo. destruct fo as [fo|]; [|injection H as <-; auto].
  bind_inv H nl Hnl. destruct nl as [nm lab]. bind_inv H r1 Hr1.
  destruct (o_rows r1) as [|x0 t0] eqn:Er.
  - injection H as <-. cbn [b_store b_added].
    apply KS_snoc; [exact Hs|]. intros X. exfalso. apply X. exact Er.
  - injection H as <-. unfold store_fragments_found.
    cbn [b_store b_added b_found b_multi b_namer b_cuts].
    destruct (fold_left _ _ _) as [found' multi']. cbn [b_store b_added].
    apply KS_snoc.
    + eapply KSA_mono; [|exact Hs]. intros z Hz. apply in_or_app. left. exact Hz.
    + intros _. apply in_or_app. right. left. reflexivity.
Qed.

Lemma baits_fold_A inp err tags orig : forall l b b',
  KS (QA (b_added b)) (b_store b) -> foldM (one_bait inp err tags orig) l b = Ok b' ->
  KS (QA (b_added b')) (b_store b').
Proof.
  induction l as [|bait l IH]; intros b b' Hs H; cbn [foldM] in H.
  - injection H as <-. exact Hs.
  - bind_inv H b1 Hb1. exact (IH _ _ (one_bait_A _ _ _ _ _ _ _ Hs Hb1) H).
Qed.

Lemma one_pretext_A inp err b p b' :
  KS (QA (b_added b)) (b_store b) -> one_pretext_scaffold inp err b p = Ok b' ->
  KS (QA (b_added b')) (b_store b').
Proof.
  destruct p as [pname prows]. intros Hs H. unfold one_pretext_scaffold in H.
  bind_inv H nm Hnm. bind_inv H b1 Hb1. bind_inv H st Hst. injection H as <-.
  cbn [with_store b_store b_added].
  pose proof (baits_fold_A _ _ _ _ _ (with_namer b nm) b1 Hs Hb1) as Hs1.
  eapply (KS_rename _ (QA_ext (b_added b1))); eassumption.
Qed.

Lemma pretext_fold_A inp err : forall pretext b b',
  KS (QA (b_added b)) (b_store b) -> foldM (one_pretext_scaffold inp err) pretext b = Ok b' ->
  KS (QA (b_added b')) (b_store b').
Proof.
  induction pretext as [|p pretext IH]; intros b b' Hs H; cbn [foldM] in H.
  - injection H as <-. exact Hs.
  - bind_inv H b1 Hb1. eapply IH; [|exact H]. eapply one_pretext_A; eassumption.
Qed.

Theorem head_added : forall c g prefix bpt input pretext rs,
  remap_to_input c g prefix bpt input pretext = Ok rs ->
  Forall (fun id => 0 <= id < zlen (b_store (rs_b rs))) (b_added (rs_b rs))
  /\ (forall n r, nth_error (b_store (rs_b rs)) n = Some r -> o_rows r <> [] ->
        In (Z.of_nat n) (b_added (rs_b rs))).
Proof.
  intros c g prefix bpt input pretext rs H0.
  destruct (Proofs.PretextOrder.remap_order _ _ _ _ _ _ _ H0) as [_ HA].
  unfold Proofs.PretextOrder.OKA in HA.
  pose proof H0 as H.
  unfold remap_to_input in H. destruct (has_dup_names (map fst input)); [discriminate|].
  cbv zeta in H.
  bind_inv H b1 Hb1. bind_inv H b2 Hb2. bind_inv H b3 Hb3. bind_inv H st Hst.
  bind_inv H nl Hnl. injection H as <-. cbn [rs_b rs_left with_namer with_store b_store b_added] in *.
  assert (K1 : KS (QA (b_added b1)) (b_store b1)).
  { eapply pretext_fold_A; [|exact Hb1]. cbn [b_store b_added]. apply KS_nil. }
  destruct (Proofs.UniqueNames.discard_loop_labs _ _ _ _ Hb2) as (_ & A2 & _).
  destruct (Proofs.UniqueNames.cut_remaining_labs _ _ _ Hb3) as (_ & A3 & _).
  assert (K2 : KS (QA (b_added b1)) (b_store b2))
    by (eapply (discard_loop_KS _ (QA_ext (b_added b1))); eassumption).
  assert (K3 : KS (QA (b_added b1)) (b_store b3))
    by (eapply (cut_remaining_KS _ (QA_ext (b_added b1))); eassumption).
  assert (K4 : KS (QA (b_added b1)) st)
    by (eapply (KS_rename _ (QA_ext (b_added b1))); eassumption).
  assert (EA : b_added b3 = b_added b1) by congruence.
  rewrite EA in *.
  split.
  - eapply asc_range; [exact HA | lia].
  - intros n r Hn Hne. exact (K4 n r Hn Hne).
Qed.

(* ===================================================================== 2 ==
   the label of a bait that is untagged or tagged ["Painted"] *)
Lemma one_bait_tags_ok inp err tags orig b bait b' :
  tags_ok (f_tags bait) -> one_bait inp err tags orig b bait = Ok b' ->
  b_namer b' = b_namer b
  /\ (b_store b' = b_store b
      \/ exists r, b_store b' = b_store b ++ [r] /\ o_bait r = bait
                   /\ result_key r = lkey (b_namer b) tags).
Proof.
  intros Hu H. unfold one_bait in H.
  bind_inv H rows Hrows. bind_inv H fo Hfo. destruct fo as [fo|]; [|injection H as <-; auto].
  assert (EL : label_scaffold (b_namer b) (zlen (b_store b)) (f_tags bait) tags
               = Ok (b_namer b,
                     mkLabel (match nm_cur_name (b_namer b) with Some n => n | None => [] end)
                             (if nm_target (b_namer b) && negb (mem_str (s "Target") tags)
                              then Some (s "Contaminant") else None)
                             (nm_cur_hap (b_namer b))
                             (if nm_target (b_namer b) && negb (mem_str (s "Target") tags)
                              then 3 else nm_cur_rank (b_namer b)))).
  { destruct Hu as [-> | ->]; [reflexivity|]. unfold label_scaffold.
    change (mem_str (s "Contaminant") [s "Painted"]) with false.
    change (mem_str (s "FalseDuplicate") [s "Painted"]) with false.
    change (mem_str (s "Haplotig") [s "Painted"]) with false.
    change (mem_str (s "Unloc") [s "Painted"]) with false.
    reflexivity. }
  rewrite EL in H. cbn [bind] in H. bind_inv H r1 Hr1.
  pose proof (Proofs.UniqueNames.trim_large_labs _ _ _ Hr1) as L.
  pose proof (Proofs.PretextOrder.trim_large_bait _ _ _ Hr1) as B.
  unfold Proofs.UniqueNames.o_labs in L.
  cbn [set_labels ovr_of_found o_name o_tag o_hap o_rank o_orig o_bait lb_name lb_tag lb_hap lb_rank] in L, B.
  injection L as Ln Lt Lh _ _.
  assert (K : result_key r1 = lkey (b_namer b) tags).
  { rewrite Proofs.PretextOrder.result_key_eq. unfold lkey. rewrite Ln, Lt, Lh. reflexivity. }
  destruct (o_rows r1) as [|x0 t0].
  - injection H as <-. cbn [b_store b_namer]. split; [reflexivity|]. right. exists r1. auto.
  - injection H as <-. unfold store_fragments_found.
    cbn [b_store b_added b_found b_multi b_namer b_cuts].
    destruct (fold_left _ _ _) as [found' multi']. cbn [b_store b_namer].
    split; [reflexivity|]. right. exists r1. auto.
Qed.

Lemma baits_fold_tags_ok inp err tags orig : forall l b b',
  Forall (fun f => tags_ok (f_tags f)) l -> foldM (one_bait inp err tags orig) l b = Ok b' ->
  b_namer b' = b_namer b
  /\ exists new, b_store b' = b_store b ++ new
       /\ Forall (fun r => In (o_bait r) l /\ result_key r = lkey (b_namer b) tags) new.
Proof.
  induction l as [|bait l IH]; intros b b' Hu H; cbn [foldM] in H.
  - injection H as <-. split; [reflexivity|]. exists []. rewrite app_nil_r. split; [reflexivity | constructor].
  - bind_inv H b1 Hb1. inversion Hu as [|? ? Hu1 Hu2]; subst.
    destruct (one_bait_tags_ok _ _ _ _ _ _ _ Hu1 Hb1) as [N1 S1].
    destruct (IH _ _ Hu2 H) as (N2 & new & S2 & F2).
    split; [congruence|]. rewrite N1 in F2.
    assert (F2' : Forall (fun r => In (o_bait r) (bait :: l) /\ result_key r = lkey (b_namer b) tags) new).
    { eapply Forall_impl; [|exact F2]. intros r [X Y]. split; [right; exact X | exact Y]. }
    destruct S1 as [S1 | (r & S1 & Br & Kr)].
    + exists new. rewrite S2, S1. split; [reflexivity | exact F2'].
    + exists (r :: new). rewrite S2, S1, <- app_assoc. split; [reflexivity|].
      constructor; [|exact F2']. split; [left; symmetry; exact Br | exact Kr].
Qed.

(* make_scaffold_name always starts a scaffold with an empty unloc list and
   never touches the haplotig list *)
Lemma msn_lists nm pname rows tags nm' :
  make_scaffold_name nm pname rows tags = Ok nm' ->
  nm_unloc_scaffolds nm' = [] /\ nm_hap_scaffolds nm' = nm_hap_scaffolds nm.
Proof.
  intros H. unfold make_scaffold_name in H.
  bind_inv H sc Hsc. bind_inv H hap_lc Hhl. destruct hap_lc as [hap lc1].
  bind_inv H prim_lc Hpl. destruct prim_lc as [prim lc2].
  bind_inv H nr Hnr. destruct nr as [name rank]. injection H as <-. split; reflexivity.
Qed.

Lemma one_pretext_tags_ok inp err b pname prows b' :
  Forall (fun f => tags_ok (f_tags f)) (frags_of prows) ->
  nm_hap_scaffolds (b_namer b) = [] ->
  one_pretext_scaffold inp err b (pname, prows) = Ok b' ->
  nm_hap_scaffolds (b_namer b') = []
  /\ exists new K, b_store b' = b_store b ++ new
       /\ Forall (fun r => In (o_bait r) (frags_of prows) /\ result_key r = K) new.
Proof.
  intros Hu Hh H. unfold one_pretext_scaffold in H.
  bind_inv H nm Hnm. bind_inv H b1 Hb1. bind_inv H st Hst. injection H as <-.
  cbn [with_store b_store b_namer].
  destruct (msn_lists _ _ _ _ _ Hnm) as [U1 U2].
  destruct (baits_fold_tags_ok _ _ _ _ _ _ _ Hu Hb1) as (N1 & new & S1 & F1).
  cbn [with_namer b_namer b_store] in N1, S1, F1.
  rewrite N1, U1, Proofs.NullMap.rename_results_nil in Hst. injection Hst as <-.
  split; [rewrite N1; congruence|]. exists new, (lkey nm (fragment_tags prows)). split; assumption.
Qed.

Lemma pretext_fold_SK_tags_ok inp err : forall todo done b b',
  NoDup (baits_of (done ++ todo)) ->
  Forall (fun f => tags_ok (f_tags f)) (baits_of todo) ->
  nm_hap_scaffolds (b_namer b) = [] ->
  SK done (b_store b) ->
  foldM (one_pretext_scaffold inp err) todo b = Ok b' ->
  SK (done ++ todo) (b_store b') /\ nm_hap_scaffolds (b_namer b') = [].
Proof.
  induction todo as [|[pname prows] todo IH]; intros done b b' ND Hu Hh HS H; cbn [foldM] in H.
  - injection H as <-. rewrite app_nil_r. auto.
  - bind_inv H b1 Hb1.
    change ((pname, prows) :: todo) with ([(pname, prows)] ++ todo) in Hu, ND |- *.
    rewrite baits_of_app in Hu. apply Forall_app in Hu. destruct Hu as [Hu1 Hu2].
    unfold Proofs.CoreKept.baits_of in Hu1. cbn [flat_map snd] in Hu1. rewrite app_nil_r in Hu1.
    destruct (one_pretext_tags_ok _ _ _ _ _ _ Hu1 Hh Hb1) as (Hh1 & new & K & S1 & F1).
    rewrite app_assoc in ND |- *.
    apply (IH (done ++ [(pname, prows)]) b1 b' ND Hu2 Hh1); [|exact H].
    assert (Fresh : forall f, In f (frags_of prows) -> ~ In f (baits_of done)).
    { rewrite !baits_of_app in ND. apply Proofs.NullMap.NoDup_app_inv in ND. destruct ND as (ND1 & _ & _).
      apply Proofs.NullMap.NoDup_app_inv in ND1. destruct ND1 as (_ & _ & D).
      intros f Hf Hd. apply (D f Hd). unfold Proofs.CoreKept.baits_of. cbn [flat_map snd].
      rewrite app_nil_r. exact Hf. }
    destruct HS as [HS1 HS2]. rewrite S1. rewrite Forall_forall in F1. split.
    + intros r Hr. rewrite baits_of_app. apply in_or_app. apply in_app_or in Hr. destruct Hr as [Hr | Hr].
      * left. apply HS1. exact Hr.
      * right. unfold Proofs.CoreKept.baits_of. cbn [flat_map snd]. rewrite app_nil_r.
        exact (proj1 (F1 r Hr)).
    + intros r r' e Hr Hr' He B B'.
      apply in_app_or in Hr. apply in_app_or in Hr'. apply in_app_or in He.
      destruct He as [He | [<- | []]].
      * destruct Hr as [Hr | Hr].
        2:{ exfalso. apply (Fresh _ (proj1 (F1 r Hr))). eapply in_baits_of; eassumption. }
        destruct Hr' as [Hr' | Hr'].
        2:{ exfalso. apply (Fresh _ (proj1 (F1 r' Hr'))). eapply in_baits_of; eassumption. }
        exact (HS2 r r' e Hr Hr' He B B').
      * cbn [snd] in B, B'.
        destruct Hr as [Hr | Hr]; [exfalso; exact (Fresh _ B (HS1 r Hr))|].
        destruct Hr' as [Hr' | Hr']; [exfalso; exact (Fresh _ B' (HS1 r' Hr'))|].
        rewrite (proj2 (F1 r Hr)), (proj2 (F1 r' Hr')). reflexivity.
Qed.

Theorem same_scaffold_same_key_painted : forall c g prefix bpt input pretext rs,
  Forall (fun f => tags_ok (f_tags f)) (baits_of pretext) ->
  NoDup (baits_of pretext) ->
  remap_to_input c g prefix bpt input pretext = Ok rs ->
  forall r r' pname prows,
    In r (b_store (rs_b rs)) -> In r' (b_store (rs_b rs)) ->
    In (pname, prows) pretext ->
    In (o_bait r) (frags_of prows) -> In (o_bait r') (frags_of prows) ->
    result_key r = result_key r'.
Proof.
  intros c g prefix bpt input pretext rs Hu ND H.
  unfold remap_to_input in H. destruct (has_dup_names (map fst input)); [discriminate|].
  cbv zeta in H.
  bind_inv H b1 Hb1. bind_inv H b2 Hb2. bind_inv H b3 Hb3. bind_inv H st Hst.
  bind_inv H nl Hnl. injection H as <-. cbn [rs_b with_namer with_store b_store].
  destruct (pretext_fold_SK_tags_ok (number_input input 0) (error_length bpt) pretext []
              (mkB [] [] [] [] (new_namer prefix) 0) b1 ND Hu eq_refl)
    as [S1 Hh1]; [|exact Hb1|].
  { split; [intros r []|intros r r' e []]. }
  cbn [app] in S1.
  destruct (Proofs.UniqueNames.discard_loop_labs _ _ _ _ Hb2) as (L2 & _ & N2).
  destruct (Proofs.UniqueNames.cut_remaining_labs _ _ _ Hb3) as (L3 & _ & N3).
  destruct (Proofs.PretextOrder.discard_loop_order _ _ _ _ Hb2) as [B2 _].
  destruct (Proofs.PretextOrder.cut_remaining_order _ _ _ Hb3) as [B3 _].
  unfold Proofs.PretextOrder.SBo in B2, B3.
  assert (Eh : nm_hap_scaffolds (b_namer b3) = []) by (rewrite N3, N2; exact Hh1).
  rewrite Eh, Proofs.NullMap.rename_results_nil in Hst. injection Hst as <-.
  assert (S3 : SK pretext (b_store b3)).
  { apply (SK_ext pretext (b_store b1)); [congruence | congruence | exact S1]. }
  intros r r' pname prows Hr Hr' He B B'.
  exact (proj2 S3 r r' (pname, prows) Hr Hr' He B B').
Qed.

Print Assumptions head_added.
Print Assumptions same_scaffold_same_key_painted.
