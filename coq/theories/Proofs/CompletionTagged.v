(* C02, first clause, for TAGGED maps: the first half of the pipeline
   ([remap_to_input]: lookups, overhang resolution, cuts, haplotig renaming,
   left-over scaffolds) completes on every tiling Pretext map whose scaffolds
   are CONSISTENTLY tagged.

   The geometric part never looks at tags ([Completion.completion_core_gen]);
   tags matter where the namer is called in the lookup fold:
     make_scaffold_name   once per Pretext scaffold, on the set of its tags
     label_scaffold       once per found result, on the bait's own tags
   and both can raise.  Reading Model/Namer.v, the failure conditions are

     (N) two DIFFERENT chromosome-name tags in one scaffold      TaggingError
     (H) two DIFFERENT haplotype tags in one scaffold            TaggingError
     (P) "Primary" with no haplotype (no haplotype tag, no haplotype prefix in
         the first bait's name) while no Primary was seen before TaggingError
     (U) "Unloc" on a piece (not also FalseDuplicate / Haplotig, which are
         looked at first) of a scaffold with no "Painted" bait   ValueError

   [scaffold_tags_consistent] excludes exactly these, as a decidable condition
   on the tag lists alone.  (P) is admitted in the form "Primary needs a
   haplotype TAG in the same scaffold": the two other ways out -- a haplotype
   prefix in the first bait's name, a Primary already seen -- depend on names /
   on the namer state, not on the tags.  With a haplotype tag present, Primary
   succeeds in every namer state whose haplotype dictionary has no empty
   spelling ([lc_ok]; true of the initial state and preserved by every namer
   call), which is the only place where a state invariant is needed: for
   Primary-free scaffolds the guarantee holds whatever the state is.

   Each clause is shown necessary by a computed run
   ([completion_tagged_needs_...]).  No axioms. *)
From Tola Require Import Py.Base Py.Dec Py.Sort Model.Fragment Model.Scaffold Model.Lookup
  Model.OverlapResult Model.NaturalKey Model.Namer Model.Remap Model.RemapSpec
  Proofs.BaseLemmas Proofs.Lookup Proofs.OverlapResult Proofs.RemapHead Proofs.CoreKept
  Proofs.Junctions Proofs.CompletionLookup Proofs.Completion.
From Coq Require Import Lia ZifyBool Permutation Bool.

(* ===================================================== 1. the tag classes *)
(* the classification of scan_tag, as state-independent predicates *)
Definition reserved_tag (t : str) : bool :=
  str_eqb t (s "Painted") || str_eqb t (s "Target") || str_eqb t (s "Primary").

(* a chromosome name: "X", "W", "12", "2A", "IV", ... *)
Definition is_name_tag (t : str) : bool :=
  match t with
  | [] => false
  | _ :: _ => negb (reserved_tag t) && looks_like_chr_name t
  end.

(* a haplotype: any other tag that is not one of the known piece tags *)
Definition is_hap_tag (t : str) : bool :=
  match t with
  | [] => false
  | _ :: _ => negb (reserved_tag t) && negb (looks_like_chr_name t)
              && negb (mem_str t other_known_tags)
  end.

(* a piece that label_scaffold treats as unlocalised *)
Definition unloc_piece (l : list str) : bool :=
  mem_str (s "Unloc") l && negb (mem_str (s "FalseDuplicate") l) && negb (mem_str (s "Haplotig") l).

(* ---------------------------------------------------------- the condition *)
Definition one_name_tag (L : list str) : Prop :=
  forall t1 t2, In t1 L -> In t2 L -> is_name_tag t1 = true -> is_name_tag t2 = true -> t1 = t2.
Definition one_hap_tag (L : list str) : Prop :=
  forall t1 t2, In t1 L -> In t2 L -> is_hap_tag t1 = true -> is_hap_tag t2 = true -> t1 = t2.
Definition primary_has_hap (L : list str) : Prop :=
  In (s "Primary") L -> exists t, In t L /\ is_hap_tag t = true.
Definition unloc_is_painted (ls : list (list str)) : Prop :=
  forall l, In l ls -> unloc_piece l = true -> In (s "Painted") (concat ls).

(* [ls]: the tag lists of the baits of one Pretext scaffold, in row order *)
Definition scaffold_tags_consistent (ls : list (list str)) : Prop :=
  one_name_tag (concat ls) /\ one_hap_tag (concat ls) /\ primary_has_hap (concat ls)
  /\ unloc_is_painted ls.

(* ------------------------------------------------------ the boolean version *)
Definition all_same (l : list str) : bool :=
  match l with [] => true | x :: r => forallb (str_eqb x) r end.

Definition one_name_tagb (L : list str) : bool := all_same (filter is_name_tag L).
Definition one_hap_tagb (L : list str) : bool := all_same (filter is_hap_tag L).
Definition primary_has_hapb (L : list str) : bool :=
  negb (mem_str (s "Primary") L) || existsb is_hap_tag L.
Definition unloc_is_paintedb (ls : list (list str)) : bool :=
  negb (existsb unloc_piece ls) || mem_str (s "Painted") (concat ls).

Definition scaffold_tags_consistentb (ls : list (list str)) : bool :=
  one_name_tagb (concat ls) && one_hap_tagb (concat ls) && primary_has_hapb (concat ls)
  && unloc_is_paintedb ls.

Lemma mem_str_in x l : mem_str x l = true <-> In x l.
Proof. apply (existsb_eqb_in str_eqb str_eqb_eq). Qed.

Lemma all_same_iff l : all_same l = true <-> (forall x y, In x l -> In y l -> x = y).
Proof.
  destruct l as [|a r]; cbn [all_same].
  - split; [intros _ x y []|reflexivity].
  - rewrite forallb_forall. split.
    + intros H x y Hx Hy.
      assert (G : forall z, In z (a :: r) -> a = z).
      { intros z [<-|Hz]; [reflexivity | apply str_eqb_eq, H, Hz]. }
      rewrite <- (G x Hx), <- (G y Hy). reflexivity.
    + intros H x Hx. apply str_eqb_eq. apply H; [left; reflexivity | right; exact Hx].
Qed.

Lemma all_same_filter (p : str -> bool) L :
  all_same (filter p L) = true
  <-> (forall t1 t2, In t1 L -> In t2 L -> p t1 = true -> p t2 = true -> t1 = t2).
Proof.
  rewrite all_same_iff. split.
  - intros H t1 t2 H1 H2 P1 P2. apply H; apply filter_In; split; assumption.
  - intros H x y Hx Hy. apply filter_In in Hx, Hy. destruct Hx, Hy. apply H; assumption.
Qed.

Lemma one_name_tagb_iff L : one_name_tagb L = true <-> one_name_tag L.
Proof. apply all_same_filter. Qed.

Lemma one_hap_tagb_iff L : one_hap_tagb L = true <-> one_hap_tag L.
Proof. apply all_same_filter. Qed.

Lemma primary_has_hapb_iff L : primary_has_hapb L = true <-> primary_has_hap L.
Proof.
  unfold primary_has_hapb, primary_has_hap. rewrite orb_true_iff, negb_true_iff, existsb_exists.
  split.
  - intros [H|H] Hin; [|exact H]. apply mem_str_in in Hin. congruence.
  - intro H. destruct (mem_str (s "Primary") L) eqn:E; [right|left; reflexivity].
    apply H, mem_str_in, E.
Qed.

Lemma unloc_is_paintedb_iff ls : unloc_is_paintedb ls = true <-> unloc_is_painted ls.
Proof.
  unfold unloc_is_paintedb, unloc_is_painted. rewrite orb_true_iff, negb_true_iff, mem_str_in.
  split.
  - intros [H|H] l Hl Hu; [|exact H].
    assert (X : existsb unloc_piece ls = true) by (apply existsb_exists; exists l; split; assumption).
    congruence.
  - intro H. destruct (existsb unloc_piece ls) eqn:E; [right|left; reflexivity].
    apply existsb_exists in E. destruct E as (l & Hl & Hu). exact (H l Hl Hu).
Qed.

Lemma scaffold_tags_consistentb_iff ls :
  scaffold_tags_consistentb ls = true <-> scaffold_tags_consistent ls.
Proof.
  unfold scaffold_tags_consistentb, scaffold_tags_consistent.
  rewrite !andb_true_iff, one_name_tagb_iff, one_hap_tagb_iff, primary_has_hapb_iff,
    unloc_is_paintedb_iff. tauto.
Qed.

Lemma scaffold_tags_consistentb_sound ls :
  scaffold_tags_consistentb ls = true -> scaffold_tags_consistent ls.
Proof. apply scaffold_tags_consistentb_iff. Qed.

Lemma scaffold_tags_consistent_dec ls :
  {scaffold_tags_consistent ls} + {~ scaffold_tags_consistent ls}.
Proof.
  destruct (scaffold_tags_consistentb ls) eqn:E.
  - left. apply scaffold_tags_consistentb_iff, E.
  - right. intro H. apply scaffold_tags_consistentb_iff in H. congruence.
Qed.

(* ---------------------------------------------------- what it admits *)
Example consistent_untagged : scaffold_tags_consistent [[]; []].
Proof. apply scaffold_tags_consistentb_sound. vm_compute. reflexivity. Qed.
Example consistent_painted : scaffold_tags_consistent [[s "Painted"]; []; [s "Painted"]].
Proof. apply scaffold_tags_consistentb_sound. vm_compute. reflexivity. Qed.
Example consistent_painted_hap :
  scaffold_tags_consistent [[s "Painted"; s "HAP1"]; [s "Painted"; s "HAP1"]]
  /\ scaffold_tags_consistent [[s "Painted"; s "Hap2"]; []].
Proof. split; apply scaffold_tags_consistentb_sound; vm_compute; reflexivity. Qed.
Example consistent_painted_name :
  scaffold_tags_consistent [[s "Painted"; s "X"]; [s "Painted"]; [s "X"]].
Proof. apply scaffold_tags_consistentb_sound. vm_compute. reflexivity. Qed.
Example consistent_piece_tags :
  scaffold_tags_consistent
    [[s "Haplotig"]; [s "Contaminant"]; [s "FalseDuplicate"]; [s "Target"]; [s "Singleton"]; [s "Cut"]].
Proof. apply scaffold_tags_consistentb_sound. vm_compute. reflexivity. Qed.
Example consistent_unloc_painted :
  scaffold_tags_consistent [[s "Painted"; s "HAP1"; s "X"]; [s "Unloc"]; [s "Unloc"; s "Contaminant"]].
Proof. apply scaffold_tags_consistentb_sound. vm_compute. reflexivity. Qed.
Example consistent_primary_with_hap :
  scaffold_tags_consistent [[s "Painted"; s "HAP1"; s "Primary"]; [s "Painted"]].
Proof. apply scaffold_tags_consistentb_sound. vm_compute. reflexivity. Qed.
(* ... and what it refuses *)
Example inconsistent_examples :
  ~ scaffold_tags_consistent [[s "X"]; [s "Y"]]
  /\ ~ scaffold_tags_consistent [[s "HAP1"]; [s "HAP2"]]
  /\ ~ scaffold_tags_consistent [[s "Painted"; s "Primary"]]
  /\ ~ scaffold_tags_consistent [[s "Unloc"]; []].
Proof.
  repeat split; intro H; apply scaffold_tags_consistentb_iff in H; vm_compute in H; discriminate.
Qed.

(* untagged / Painted-only baits ([CompletionLookup.tags_ok]) are consistent *)
Lemma tags_ok_consistent ls : Forall tags_ok ls -> scaffold_tags_consistent ls.
Proof.
  intro H.
  assert (HL : forall t, In t (concat ls) -> t = s "Painted").
  { induction H as [|l ls Hl _ IH]; cbn [concat]; [intros t []|].
    intros t Ht. apply in_app_or in Ht. destruct Ht as [Ht|Ht]; [|exact (IH t Ht)].
    destruct Hl as [-> | ->]; [destruct Ht | destruct Ht as [<-|[]]; reflexivity]. }
  split; [|split; [|split]].
  - intros t1 t2 H1 _ N1 _. rewrite (HL t1 H1) in N1. vm_compute in N1. discriminate.
  - intros t1 t2 H1 _ N1 _. rewrite (HL t1 H1) in N1. vm_compute in N1. discriminate.
  - intro Hp. apply HL in Hp. vm_compute in Hp. discriminate.
  - intros l Hl Hu. rewrite Forall_forall in H. destruct (H l Hl) as [-> | ->]; vm_compute in Hu; discriminate.
Qed.

(* ============================================== 2. the namer on such tags *)
Lemma name_not_hap t : is_name_tag t = true -> is_hap_tag t = false.
Proof.
  destruct t as [|c t]; [discriminate|]. unfold is_name_tag, is_hap_tag.
  destruct (reserved_tag (c :: t)); [discriminate|].
  destruct (looks_like_chr_name (c :: t)); [reflexivity|discriminate].
Qed.

Lemma hap_tag_nonempty t : is_hap_tag t = true -> t <> [].
Proof. destruct t; [discriminate|discriminate]. Qed.

(* the three ways of scan_tag *)
Lemma scan_tag_cases st t :
  (is_name_tag t = true
   /\ scan_tag st t
      = match ts_name st with
        | Some n => if negb (str_eqb t n) then Err TaggingError
                    else Ok (mkScan (Some t) (ts_hap st) (ts_painted st) (Some 2) (ts_primary st) (ts_target st) (ts_lc st))
        | None => Ok (mkScan (Some t) (ts_hap st) (ts_painted st) (Some 2) (ts_primary st) (ts_target st) (ts_lc st))
        end)
  \/ (is_hap_tag t = true
      /\ scan_tag st t
         = if truthy (ts_hap st) then Err TaggingError
           else let '(h, lc) := get_set_haplotype (ts_lc st) t in
                Ok (mkScan (ts_name st) (Some h) (ts_painted st) (ts_rank st) (ts_primary st) (ts_target st) lc))
  \/ (is_name_tag t = false /\ is_hap_tag t = false
      /\ exists st', scan_tag st t = Ok st'
           /\ ts_name st' = ts_name st /\ ts_hap st' = ts_hap st /\ ts_lc st' = ts_lc st
           /\ (ts_primary st' = true -> ts_primary st = true \/ t = s "Primary")).
Proof.
  destruct t as [|c t'].
  - right; right. split; [reflexivity|]. split; [reflexivity|]. exists st.
    split; [reflexivity|]. auto.
  - unfold scan_tag, is_name_tag, is_hap_tag, reserved_tag.
    remember (c :: t') as t eqn:Et.
    destruct (str_eqb t (s "Painted")) eqn:EP.
    { right; right. cbn [orb negb andb]. split; [reflexivity|]. split; [reflexivity|].
      eexists. split; [reflexivity|]. cbn [ts_name ts_hap ts_lc ts_primary]. auto. }
    destruct (str_eqb t (s "Target")) eqn:ET.
    { right; right. cbn [orb negb andb]. split; [reflexivity|]. split; [reflexivity|].
      eexists. split; [reflexivity|]. cbn [ts_name ts_hap ts_lc ts_primary]. auto. }
    destruct (str_eqb t (s "Primary")) eqn:EPr.
    { right; right. cbn [orb negb andb]. split; [reflexivity|]. split; [reflexivity|].
      eexists. split; [reflexivity|]. cbn [ts_name ts_hap ts_lc ts_primary].
      apply str_eqb_eq in EPr. auto. }
    cbn [orb negb andb].
    destruct (looks_like_chr_name t) eqn:EN.
    { left. split; reflexivity. }
    cbn [negb andb].
    destruct (mem_str t other_known_tags) eqn:EK; cbn [negb].
    { right; right. split; [reflexivity|]. split; [reflexivity|]. exists st.
      split; [reflexivity|]. auto. }
    right; left. split; reflexivity.
Qed.

(* no empty spelling in the haplotype dictionary *)
Definition lc_ok (lc : list (str * str)) : Prop := Forall (fun kv => snd kv <> []) lc.

Lemma aget_val_in {V} : forall (d : list (str * V)) k v,
  aget str_eqb d k = Some v -> exists k', In (k', v) d.
Proof.
  induction d as [|[k0 v0] d IH]; intros k v H; cbn [aget] in H; [discriminate|].
  destruct (str_eqb k k0).
  - injection H as <-. exists k0. left. reflexivity.
  - destruct (IH k v H) as (k' & Hk). exists k'. right. exact Hk.
Qed.

Lemma get_set_haplotype_ok lc h v lc' :
  get_set_haplotype lc h = (v, lc') -> lc_ok lc -> h <> [] -> v <> [] /\ lc_ok lc'.
Proof.
  unfold get_set_haplotype. intros H Hlc Hh.
  destruct (aget str_eqb lc (lower h)) as [v0|] eqn:E; injection H as <- <-.
  - split; [|exact Hlc]. destruct (aget_val_in _ _ _ E) as (k' & Hk).
    unfold lc_ok in Hlc. rewrite Forall_forall in Hlc. exact (Hlc _ Hk).
  - split; [exact Hh|]. apply Forall_app. split; [exact Hlc|]. constructor; [exact Hh|constructor].
Qed.

Lemma truthy_nonempty v : v <> [] -> truthy (Some v) = true.
Proof. destruct v; [congruence|reflexivity]. Qed.

Lemma haplotype_prefix_nonempty name p : haplotype_prefix_of_name name = Some p -> p <> [].
Proof.
  unfold haplotype_prefix_of_name.
  destruct (span' _ name) as [p0 rest]. destruct p0 as [|c p0]; [discriminate|].
  destruct rest as [|u after]; [discriminate|].
  destruct (span' is_digit (rev after)) as [dr r1]. destruct dr as [|d0 dr]; [discriminate|].
  destruct r1 as [|u' mid]; [discriminate|].
  destruct (Ascii.eqb u' "_"); [|discriminate].
  destruct mid as [|m0 mid]; [discriminate|].
  destruct (forallb _ after); [|discriminate].
  intro H. injection H as <-. discriminate.
Qed.

(* what the scan of the remaining tags [T] needs of the scan state *)
Definition scan_pre (T : list str) (st : tagscan) : Prop :=
  NoDup T /\ one_name_tag T /\ one_hap_tag T
  /\ (forall n t, ts_name st = Some n -> In t T -> is_name_tag t = true -> t = n)
  /\ (ts_hap st = None
      \/ (truthy (ts_hap st) = true /\ forall t, In t T -> is_hap_tag t = false))
  /\ lc_ok (ts_lc st).

Lemma scan_step t T st : scan_pre (t :: T) st ->
  exists st1, scan_tag st t = Ok st1 /\ scan_pre T st1
    /\ (ts_primary st1 = true -> ts_primary st = true \/ t = s "Primary")
    /\ (truthy (ts_hap st) = true \/ is_hap_tag t = true -> truthy (ts_hap st1) = true).
Proof.
  intros (Hnd & Hpn & Hph & Hcn & Hch & Hlc).
  inversion Hnd as [|x l Hnin Hnd']; subst.
  assert (Hpn' : one_name_tag T) by (intros t1 t2 H1 H2; apply Hpn; right; assumption).
  assert (Hph' : one_hap_tag T) by (intros t1 t2 H1 H2; apply Hph; right; assumption).
  destruct (scan_tag_cases st t) as [(Hn & E) | [(Hh & E) | (Hn & Hh & st' & E & E1 & E2 & E3 & E4)]].
  - (* a chromosome name *)
    assert (E' : scan_tag st t = Ok (mkScan (Some t) (ts_hap st) (ts_painted st) (Some 2)
                                           (ts_primary st) (ts_target st) (ts_lc st))).
    { rewrite E. destruct (ts_name st) as [n|] eqn:En; [|reflexivity].
      assert (X : t = n) by exact (Hcn n t eq_refl (or_introl eq_refl) Hn).
      subst n. rewrite str_eqb_refl. reflexivity. }
    eexists. split; [exact E'|]. split; [|split].
    + unfold scan_pre. cbn [ts_name ts_hap ts_lc].
      split; [exact Hnd'|]. split; [exact Hpn'|]. split; [exact Hph'|]. split; [|split; [|exact Hlc]].
      * intros n t0 En Hin Hn0. injection En as <-.
        apply Hpn; [right; exact Hin | left; reflexivity | exact Hn0 | exact Hn].
      * destruct Hch as [Hc | (Hc1 & Hc2)]; [left; exact Hc|].
        right. split; [exact Hc1|]. intros t0 Hin. apply Hc2. right. exact Hin.
    + cbn [ts_primary]. intro X. left. exact X.
    + cbn [ts_hap]. intros [X | X]; [exact X|]. rewrite (name_not_hap t Hn) in X. discriminate.
  - (* a haplotype *)
    assert (Hnone : ts_hap st = None).
    { destruct Hch as [Hc | (_ & Hc2)]; [exact Hc|].
      rewrite (Hc2 t (or_introl eq_refl)) in Hh. discriminate. }
    rewrite Hnone in E. cbn [truthy] in E.
    revert E. destruct (get_set_haplotype (ts_lc st) t) as [h lc] eqn:Eg. intro E.
    destruct (get_set_haplotype_ok _ _ _ _ Eg Hlc (hap_tag_nonempty t Hh)) as (Hh1 & Hlc1).
    eexists. split; [exact E|]. split; [|split].
    + unfold scan_pre. cbn [ts_name ts_hap ts_lc].
      split; [exact Hnd'|]. split; [exact Hpn'|]. split; [exact Hph'|]. split; [|split; [|exact Hlc1]].
      * intros n t0 En Hin Hn0. exact (Hcn n t0 En (or_intror Hin) Hn0).
      * right. split; [apply truthy_nonempty; exact Hh1|].
        intros t0 Hin. destruct (is_hap_tag t0) eqn:E0; [|reflexivity]. exfalso. apply Hnin.
        assert (X : t0 = t) by (apply Hph; [right; exact Hin | left; reflexivity | exact E0 | exact Hh]).
        subst t0. exact Hin.
    + cbn [ts_primary]. intro X. left. exact X.
    + cbn [ts_hap]. intros _. apply truthy_nonempty. exact Hh1.
  - (* anything else *)
    exists st'. split; [exact E|]. split; [|split].
    + unfold scan_pre. rewrite E1, E2, E3.
      split; [exact Hnd'|]. split; [exact Hpn'|]. split; [exact Hph'|]. split; [|split; [|exact Hlc]].
      * intros n t0 En Hin Hn0. exact (Hcn n t0 En (or_intror Hin) Hn0).
      * destruct Hch as [Hc | (Hc1 & Hc2)]; [left; exact Hc|].
        right. split; [exact Hc1|]. intros t0 Hin. apply Hc2. right. exact Hin.
    + exact E4.
    + rewrite E2. intros [X | X]; [exact X|]. rewrite Hh in X. discriminate.
Qed.

Lemma scan_fold_ok : forall T st, scan_pre T st ->
  exists sc, foldM scan_tag T st = Ok sc /\ lc_ok (ts_lc sc)
    /\ (ts_primary sc = true -> ts_primary st = true \/ In (s "Primary") T)
    /\ (truthy (ts_hap st) = true \/ (exists t, In t T /\ is_hap_tag t = true)
        -> truthy (ts_hap sc) = true).
Proof.
  induction T as [|t T IH]; intros st Hpre; cbn [foldM].
  - exists st. split; [reflexivity|]. destruct Hpre as (_ & _ & _ & _ & _ & Hlc).
    split; [exact Hlc|]. split; [auto|]. intros [X | (t & [] & _)]. exact X.
  - destruct (scan_step t T st Hpre) as (st1 & E & Hpre1 & Hp & Hh). rewrite E. cbn [bind].
    destruct (IH st1 Hpre1) as (sc & Ef & Hlc & Hp2 & Hh2). exists sc.
    split; [exact Ef|]. split; [exact Hlc|]. split.
    + intro X. destruct (Hp2 X) as [Y|Y].
      * destruct (Hp Y) as [Z|Z]; [left; exact Z | right; left; exact Z].
      * right; right; exact Y.
    + intros [X | (t0 & [<-|Hin] & Ht0)]; apply Hh2.
      * left. apply Hh. left. exact X.
      * left. apply Hh. right. exact Ht0.
      * right. exists t0. split; assumption.
Qed.

(* make_scaffold_name after the scan and the haplotype *)
Definition msn_tail (nm : namer) (sc_name0 : str) (rows : list row) (sc : tagscan)
           (hap : option str) (lc1 : list (str * str)) : res namer :=
  do prim_lc <-
    (if ts_primary sc && negb (truthy (nm_primary nm)) then
       match hap with
       | Some (c :: h') =>
           let '(p, lc2) := get_set_haplotype lc1 (c :: h') in Ok (Some p, lc2)
       | _ => Err TaggingError
       end
     else Ok (nm_primary nm, lc1));
  let '(prim, lc2) := prim_lc in
  do nr <-
    (match ts_name sc with
     | Some n => Ok (n, match ts_rank sc with Some r => r | None => 2 end)
     | None =>
         if ts_painted sc then Ok (sc_name0, match ts_rank sc with Some r => r | None => 1 end)
         else do fn <- first_row_name rows; Ok (fn, 3)
     end);
  let '(name, rank) := nr in
  let cur_hap :=
    if truthy prim then
      (if opt_eqb str_eqb hap prim then Some (s "Primary") else hap)
    else hap in
  Ok (mkNamer (nm_prefix nm) (Some name) rank cur_hap (nm_hap_n nm) (nm_hap_scaffolds nm)
              prim (ts_target sc) 0 [] lc2).

Lemma msn_unfold nm name rows tags :
  make_scaffold_name nm name rows tags
  = do sc <- foldM scan_tag (match tags with [] => fragment_tags rows | _ :: _ => tags end)
                   (mkScan None None false None false (nm_target nm) (nm_hap_lc nm));
    do hap_lc <-
      (if truthy (ts_hap sc) then Ok (ts_hap sc, ts_lc sc)
       else
         do fn <- first_row_name rows;
         match haplotype_prefix_of_name fn with
         | Some p => let '(h, lc) := get_set_haplotype (ts_lc sc) p in Ok (Some h, lc)
         | None => Ok (None, ts_lc sc)
         end);
    let '(hap, lc1) := hap_lc in msn_tail nm name rows sc hap lc1.
Proof. reflexivity. Qed.

Definition msn_post (nm nm' : namer) : Prop :=
  nm_unloc_scaffolds nm' = [] /\ nm_hap_scaffolds nm' = nm_hap_scaffolds nm
  /\ lc_ok (nm_hap_lc nm').

Lemma msn_tail_ok nm name rows f t sc hap lc1 :
  rows = RF f :: t -> lc_ok lc1 ->
  (ts_primary sc = true -> exists c h', hap = Some (c :: h')) ->
  exists nm', msn_tail nm name rows sc hap lc1 = Ok nm' /\ msn_post nm nm'.
Proof.
  intros Hrows Hlc1 Hprim. unfold msn_tail, msn_post.
  destruct (ts_primary sc && negb (truthy (nm_primary nm))) eqn:Ep.
  - apply andb_true_iff in Ep. destruct Ep as [Ep _].
    destruct (Hprim Ep) as (c & h' & ->).
    destruct (get_set_haplotype lc1 (c :: h')) as [p lc2] eqn:Eg. cbn [bind].
    assert (Hlc2 : lc_ok lc2).
    { apply (get_set_haplotype_ok _ _ _ _ Eg Hlc1). discriminate. }
    destruct (ts_name sc) as [n|]; [|destruct (ts_painted sc); [|subst rows; cbn [first_row_name bind]]];
      cbn [bind]; (eexists; split; [reflexivity|]);
      cbn [nm_unloc_scaffolds nm_hap_scaffolds nm_hap_lc]; (split; [reflexivity|split; [reflexivity|exact Hlc2]]).
  - cbn [bind].
    destruct (ts_name sc) as [n|]; [|destruct (ts_painted sc); [|subst rows; cbn [first_row_name bind]]];
      cbn [bind]; (eexists; split; [reflexivity|]);
      cbn [nm_unloc_scaffolds nm_hap_scaffolds nm_hap_lc]; (split; [reflexivity|split; [reflexivity|exact Hlc1]]).
Qed.

(* make_scaffold_name succeeds on a consistently tagged scaffold *)
Lemma make_scaffold_name_tagged nm name rows f t :
  rows = RF f :: t -> lc_ok (nm_hap_lc nm) ->
  one_name_tag (flat_map f_tags (frags_of rows)) ->
  one_hap_tag (flat_map f_tags (frags_of rows)) ->
  primary_has_hap (flat_map f_tags (frags_of rows)) ->
  exists nm', make_scaffold_name nm name rows (fragment_tags rows) = Ok nm' /\ msn_post nm nm'.
Proof.
  intros Hrows Hlc Hpn Hph Hprim. rewrite msn_unfold.
  assert (ET : forall T : list str, match T with [] => T | _ :: _ => T end = T)
    by (intros []; reflexivity).
  rewrite ET. clear ET.
  assert (Hin : forall x, In x (fragment_tags rows) <-> In x (flat_map f_tags (frags_of rows))).
  { intro x. unfold fragment_tags. apply (dedup_in str_eqb str_eqb_eq). }
  assert (Hpre : scan_pre (fragment_tags rows)
                          (mkScan None None false None false (nm_target nm) (nm_hap_lc nm))).
  { unfold scan_pre. cbn [ts_name ts_hap ts_lc].
    split; [apply (dedup_nodup str_eqb str_eqb_eq)|].
    split; [intros t1 t2 H1 H2; apply Hpn; apply Hin; assumption|].
    split; [intros t1 t2 H1 H2; apply Hph; apply Hin; assumption|].
    split; [intros n t0 En; discriminate|]. split; [left; reflexivity | exact Hlc]. }
  destruct (scan_fold_ok _ _ Hpre) as (sc & Ef & Hlc1 & Hp & Hh). rewrite Ef. cbn [bind].
  cbn [ts_primary ts_hap truthy] in Hp, Hh.
  destruct (truthy (ts_hap sc)) eqn:Et.
  - cbn [bind]. apply (msn_tail_ok nm name rows f t); [exact Hrows | exact Hlc1 |].
    intros _. destruct (ts_hap sc) as [[|c h']|]; try discriminate Et. eexists _, _. reflexivity.
  - subst rows. cbn [first_row_name bind].
    destruct (haplotype_prefix_of_name (f_name f)) as [p|] eqn:Ehp.
    + destruct (get_set_haplotype (ts_lc sc) p) as [h lc] eqn:Eg. cbn [bind].
      destruct (get_set_haplotype_ok _ _ _ _ Eg Hlc1 (haplotype_prefix_nonempty _ _ Ehp)) as (Hh1 & Hlc2).
      apply (msn_tail_ok nm name (RF f :: t) f t); [reflexivity | exact Hlc2 |].
      intros _. destruct h as [|c h']; [congruence|]. eexists _, _. reflexivity.
    + cbn [bind]. apply (msn_tail_ok nm name (RF f :: t) f t); [reflexivity | exact Hlc1 |].
      intros Hpr. exfalso. destruct (Hp Hpr) as [X|X]; [discriminate X|].
      apply Hin in X. destruct (Hprim X) as (t0 & Ht0 & Hhap).
      assert (Y : true = true -> false = true).
      { intros _. apply Hh. right. exists t0. split; [apply Hin; exact Ht0 | exact Hhap]. }
      specialize (Y eq_refl). discriminate.
Qed.

(* label_scaffold succeeds unless an unlocalised piece sits in an unpainted scaffold *)
Lemma label_tagged nm id ft stags :
  (unloc_piece ft = true -> mem_str (s "Painted") stags = true) ->
  exists nm' lab, label_scaffold nm id ft stags = Ok (nm', lab)
    /\ nm_hap_lc nm' = nm_hap_lc nm
    /\ (forall x, In x (nm_unloc_scaffolds nm') -> In x (nm_unloc_scaffolds nm) \/ x = id)
    /\ (forall x, In x (nm_hap_scaffolds nm') -> In x (nm_hap_scaffolds nm) \/ x = id).
Proof.
  intro H. unfold label_scaffold.
  destruct (mem_str (s "FalseDuplicate") ft) eqn:E1.
  { eexists _, _. split; [reflexivity|]. auto. }
  destruct (mem_str (s "Haplotig") ft) eqn:E2.
  { eexists _, _. split; [reflexivity|].
    cbn [nm_hap_lc nm_unloc_scaffolds nm_hap_scaffolds]. split; [reflexivity|]. split; [auto|].
    intros x Hx. apply in_app_or in Hx. destruct Hx as [Hx|[<-|[]]]; auto. }
  destruct (mem_str (s "Unloc") ft) eqn:E3.
  - assert (HP : mem_str (s "Painted") stags = true).
    { apply H. unfold unloc_piece. rewrite E1, E2, E3. reflexivity. }
    rewrite HP. cbn [negb]. eexists _, _. split; [reflexivity|].
    cbn [nm_hap_lc nm_unloc_scaffolds nm_hap_scaffolds]. split; [reflexivity|]. split; [|auto].
    intros x Hx. apply in_app_or in Hx. destruct Hx as [Hx|[<-|[]]]; auto.
  - eexists _, _. split; [reflexivity|]. auto.
Qed.

(* =============================================== 3. the lookup fold *)
Definition ids_lt (N : Z) (l : list rid) : Prop := Forall (fun id => 0 <= id < N) l.

(* inside one Pretext scaffold *)
Definition J (b : bstate) : Prop :=
  lc_ok (nm_hap_lc (b_namer b))
  /\ ids_lt (zlen (b_store b)) (nm_unloc_scaffolds (b_namer b))
  /\ ids_lt (zlen (b_store b)) (nm_hap_scaffolds (b_namer b)).

(* between Pretext scaffolds *)
Definition J' (b : bstate) : Prop :=
  lc_ok (nm_hap_lc (b_namer b)) /\ ids_lt (zlen (b_store b)) (nm_hap_scaffolds (b_namer b)).

Definition bait_geo (inp : list (str * list row)) (b : frag) : Prop :=
  1 <= f_start b <= f_end b /\ In (f_name b) (map fst inp).

Lemma zlen_snoc {A} (l : list A) x : zlen (l ++ [x]) = zlen l + 1.
Proof. unfold zlen. rewrite app_length. cbn [length]. lia. Qed.

Lemma zlen_ge0 {A} (l : list A) : 0 <= zlen l.
Proof. unfold zlen. lia. Qed.

Lemma store_fragments_found_store b id rows :
  b_store (store_fragments_found b id rows) = b_store b.
Proof.
  unfold store_fragments_found.
  destruct (fold_left (store_found_one id) (frags_of rows) (b_found b, b_multi b)) as [found multi].
  reflexivity.
Qed.

Lemma one_bait_tagged inp err tags orig b bait :
  inp_ok inp -> bait_geo inp bait ->
  (unloc_piece (f_tags bait) = true -> mem_str (s "Painted") tags = true) ->
  J b -> exists b', one_bait inp err tags orig b bait = Ok b' /\ J b'.
Proof.
  intros Hinp (Hpos & Hname) Hun HJ. unfold one_bait, input_rows.
  destruct (aget_str_In inp (f_name bait) Hname) as (rows & Ea & Hr). rewrite Ea. cbn [bind].
  destruct (Hinp _ _ Hr) as [Hne Hp].
  destruct (find_overlaps_spec rows (f_start bait) (f_end bait) Hne Hp Hpos) as (fo & Efo & Hspec).
  rewrite Efo. cbn [bind]. destruct fo as [fo'|]; [|exists b; split; [reflexivity|exact HJ]].
  cbv zeta.
  destruct (label_tagged (b_namer b) (zlen (b_store b)) (f_tags bait) tags Hun)
    as (nm' & lab & El & Elc & Hu & Hh).
  rewrite El. cbn [bind].
  destruct (trim_large_overhangs_ok (set_labels (ovr_of_found bait fo') lab orig tags) err)
    as (r1 & E1).
  { cbn [set_labels o_rows ovr_of_found]. exact (found_rows_nonempty _ _ _ _ Hspec). }
  rewrite E1. cbn [bind].
  assert (G : forall b', b_store b' = b_store b ++ [r1] -> b_namer b' = nm' -> J b').
  { intros b' Es En. destruct HJ as (J1 & J2 & J3). unfold J, ids_lt in *. rewrite Es, En, Elc, zlen_snoc.
    pose proof (zlen_ge0 (b_store b)) as Z0.
    rewrite Forall_forall in J2, J3.
    split; [exact J1|]. split; apply Forall_forall; intros x Hx.
    - destruct (Hu x Hx) as [Hx'| ->]; [specialize (J2 x Hx')|]; lia.
    - destruct (Hh x Hx) as [Hx'| ->]; [specialize (J3 x Hx')|]; lia. }
  destruct (o_rows r1) as [|x t] eqn:Erows.
  - eexists. split; [reflexivity|]. apply G; reflexivity.
  - eexists. split; [reflexivity|].
    apply G; [rewrite store_fragments_found_store | rewrite store_fragments_found_namer]; reflexivity.
Qed.

Lemma one_bait_fold_tagged inp err tags orig : inp_ok inp ->
  forall baits b, Forall (bait_geo inp) baits ->
  Forall (fun bt => unloc_piece (f_tags bt) = true -> mem_str (s "Painted") tags = true) baits ->
  J b -> exists b', foldM (one_bait inp err tags orig) baits b = Ok b' /\ J b'.
Proof.
  intro Hinp. induction baits as [|bait baits IH]; intros b Hb Hu HJ; cbn [foldM].
  - exists b. split; [reflexivity|exact HJ].
  - inversion Hb as [|x l Hx Hl]; subst. inversion Hu as [|x l Hux Hul]; subst.
    destruct (one_bait_tagged inp err tags orig b bait Hinp Hx Hux HJ) as (b1 & E1 & HJ1).
    rewrite E1. cbn [bind]. exact (IH b1 Hl Hul HJ1).
Qed.

Lemma one_pretext_tagged inp err b p :
  inp_ok inp ->
  (exists b0 t, snd p = RF b0 :: t) ->
  Forall (bait_geo inp) (frags_of (snd p)) ->
  scaffold_tags_consistent (map f_tags (frags_of (snd p))) ->
  J' b -> exists b1, one_pretext_scaffold inp err b p = Ok b1 /\ J' b1.
Proof.
  destruct p as [pname prows]. cbn [snd]. intros Hinp (f & t & Hrows) Hb (C1 & C2 & C3 & C4) (J1 & J2).
  rewrite <- flat_map_concat_map in C1, C2, C3.
  unfold one_pretext_scaffold. cbv zeta.
  destruct (make_scaffold_name_tagged (b_namer b) pname prows f t Hrows J1 C1 C2 C3)
    as (nm' & Em & Hu & Hh & Hlc).
  rewrite Em. cbn [bind].
  destruct (one_bait_fold_tagged inp err (fragment_tags prows) pname Hinp (frags_of prows)
              (with_namer b nm') Hb) as (b1 & E1 & K1 & K2 & K3).
  { apply Forall_forall. intros bt Hbt Hun. apply mem_str_in. unfold fragment_tags.
    apply (dedup_in str_eqb str_eqb_eq). rewrite flat_map_concat_map.
    apply (C4 (f_tags bt)); [apply in_map; exact Hbt | exact Hun]. }
  { unfold J. cbn [with_namer b_namer b_store]. rewrite Hu, Hh.
    split; [exact Hlc|]. split; [constructor | exact J2]. }
  rewrite E1. cbn [bind].
  destruct (rename_results_ok _ _ K2) as (st & Est & Elen). rewrite Est. cbn [bind].
  eexists. split; [reflexivity|]. unfold J'. cbn [with_store b_namer b_store]. rewrite Elen.
  split; [exact K1 | exact K3].
Qed.

Lemma pretext_progress_tagged inp err pretext : inp_ok inp -> forall b0,
  Forall (fun p => exists b t, snd p = RF b :: t) pretext ->
  Forall (bait_geo inp) (baits_of pretext) ->
  Forall (fun p => scaffold_tags_consistent (map f_tags (frags_of (snd p)))) pretext ->
  J' b0 -> exists b1, foldM (one_pretext_scaffold inp err) pretext b0 = Ok b1 /\ J' b1.
Proof.
  intro Hinp. induction pretext as [|p pretext IH]; intros b0 Hshape Hb Hc HJ; cbn [foldM].
  - exists b0. split; [reflexivity|exact HJ].
  - inversion Hshape as [|x l Hp Hrest]; subst. inversion Hc as [|x l Hcp Hcrest]; subst.
    unfold baits_of in Hb. cbn [flat_map] in Hb. apply Forall_app in Hb. destruct Hb as [Hb1 Hb2].
    destruct (one_pretext_tagged inp err b0 p Hinp Hp Hb1 Hcp HJ) as (b1 & E1 & HJ1).
    rewrite E1. cbn [bind]. exact (IH b1 Hrest Hb2 Hcrest HJ1).
Qed.

(* =========================================================== 4. the theorem *)
Theorem completion_of_tagged_tiling_maps : forall g prefix n d input pretext,
  0 < d -> d <= n ->
  Forall input_ok input -> NoDup (map fst input) ->
  NoDup (map key_of (in_frags input)) ->
  Forall (fun f => f_tags f = []) (in_frags input) ->
  Forall (fun p => exists b t, snd p = RF b :: t) pretext ->
  Forall (fun b => (f_strand b = 1 \/ f_strand b = -1) /\ In (f_name b) (map fst input)) (baits_of pretext) ->
  Forall (fun p => scaffold_tags_consistent (map f_tags (frags_of (snd p)))) pretext ->
  Forall (scaffold_tiled n d (baits_of pretext)) input ->
  exists rs, remap_to_input repaired g prefix (n, d) input pretext = Ok rs.
Proof.
  intros g prefix n d input pretext Hd Hdn Hin Hnm Hkeys Hunt Hpre Hb Hc Htile.
  apply completion_core_gen; try assumption.
  - eapply Forall_impl; [|exact Hb]. intros b (_ & H). exact H.
  - intros Hne Hvalid.
    destruct (pretext_progress_tagged (number_input input 0) (error_length (n, d)) pretext Hne
                (mkB [] [] [] [] (new_namer prefix) 0) Hpre) as (b1 & Hs1 & _ & Hids).
    + rewrite Forall_forall in *. intros b Hbin. split; [exact (Hvalid b Hbin)|].
      rewrite number_input_fst. exact (proj2 (Hb b Hbin)).
    + exact Hc.
    + split; constructor.
    + exists b1. split; [exact Hs1 | exact Hids].
Qed.

(* the Painted theorem is the special case *)
Lemma baits_tags_ok_scaffolds pretext :
  Forall (fun b => tags_ok (f_tags b)) (baits_of pretext) ->
  Forall (fun p : str * list row => scaffold_tags_consistent (map f_tags (frags_of (snd p)))) pretext.
Proof.
  induction pretext as [|p pretext IH]; intro H; [constructor|].
  unfold baits_of in H. cbn [flat_map] in H. apply Forall_app in H. destruct H as [H1 H2].
  constructor; [|exact (IH H2)].
  apply tags_ok_consistent. apply Forall_forall. intros l Hl. apply in_map_iff in Hl.
  destruct Hl as (b & <- & Hb). rewrite Forall_forall in H1. exact (H1 b Hb).
Qed.

Corollary completion_of_painted_tiling_maps_again : forall g prefix n d input pretext,
  0 < d -> d <= n ->
  Forall input_ok input -> NoDup (map fst input) ->
  NoDup (map key_of (in_frags input)) ->
  Forall (fun f => f_tags f = []) (in_frags input) ->
  Forall (fun p => exists b t, snd p = RF b :: t) pretext ->
  Forall (fun b => (f_tags b = [] \/ f_tags b = [s "Painted"]) /\ (f_strand b = 1 \/ f_strand b = -1)
                   /\ In (f_name b) (map fst input)) (baits_of pretext) ->
  Forall (scaffold_tiled n d (baits_of pretext)) input ->
  exists rs, remap_to_input repaired g prefix (n, d) input pretext = Ok rs.
Proof.
  intros g prefix n d input pretext Hd Hdn Hin Hnm Hkeys Hunt Hpre Hb Htile.
  apply completion_of_tagged_tiling_maps; try assumption.
  - eapply Forall_impl; [|exact Hb]. intros b (_ & H). exact H.
  - apply baits_tags_ok_scaffolds. eapply Forall_impl; [|exact Hb]. intros b (H & _). exact H.
Qed.

(* ================================ 5. a realistic two-haplotype tagged map *)
(* Four input scaffolds; texel 3.5 bp.  The curator painted three chromosomes,
   two of haplotype HAP1 (one of them named X) and one of HAP2, cut scaffold 1
   in three and scaffold 2 in two, marked one piece Unloc, one Haplotig (shown
   reversed) and one Contaminant, and left scaffold 4 alone. *)
Module TwoHaps.
  Definition g10 := mkGap 10 (s "scaffold").
  Definition cA := mkFrag 0 (s "cA") 1 600 1 [].
  Definition cA2 := mkFrag 0 (s "cA2") 1 390 (-1) [].
  Definition cB := mkFrag 0 (s "cB") 1 1000 1 [].
  Definition cC := mkFrag 0 (s "cC") 1 500 (-1) [].
  Definition cD := mkFrag 0 (s "cD") 1 300 1 [].
  Definition input :=
    [(s "scaf1", [RF cA; RG g10; RF cA2]); (s "scaf2", [RF cB]);
     (s "scaf3", [RF cC]); (s "scaf4", [RF cD])].
  Definition a1 := mkFrag 0 (s "scaf1") 1 600 1 [s "Painted"; s "HAP1"; s "X"].
  Definition a2 := mkFrag 0 (s "scaf1") 601 800 1 [s "Unloc"].
  Definition a3 := mkFrag 0 (s "scaf1") 801 1000 (-1) [s "Haplotig"].
  Definition b1 := mkFrag 0 (s "scaf2") 1 700 1 [s "Painted"; s "HAP2"].
  Definition b2 := mkFrag 0 (s "scaf2") 701 1000 1 [s "Contaminant"].
  Definition c1 := mkFrag 0 (s "scaf3") 1 500 (-1) [s "Painted"; s "HAP1"].
  Definition d1 := mkFrag 0 (s "scaf4") 1 300 1 [].
  Definition pretext :=
    [(s "Scaffold_1", [RF a1; RF a2; RF a3]); (s "Scaffold_2", [RF b1; RF b2]);
     (s "Scaffold_3", [RF c1]); (s "Scaffold_4", [RF d1])].
End TwoHaps.

Example two_haplotype_map_completes :
  exists rs, remap_to_input repaired TwoHaps.g10 (s "SUPER_") (7, 2)
                            TwoHaps.input TwoHaps.pretext = Ok rs.
Proof.
  apply completion_of_tagged_tiling_maps.
  - lia.
  - lia.
  - unfold TwoHaps.input.
    repeat (apply Forall_cons; [unfold input_ok; cbn [snd];
      split; [discriminate|]; split; [repeat constructor; cbn; lia|];
      split; [eexists _, _; reflexivity|]; split; [|repeat (apply Forall_cons; [split; cbn; lia|]); apply Forall_nil]|]).
    + exists TwoHaps.cA2, [RF TwoHaps.cA; RG TwoHaps.g10]. reflexivity.
    + exists TwoHaps.cB, []. reflexivity.
    + exists TwoHaps.cC, []. reflexivity.
    + exists TwoHaps.cD, []. reflexivity.
    + apply Forall_nil.
  - cbn. repeat constructor; cbn; intuition discriminate.
  - cbn. repeat constructor; cbn; intuition discriminate.
  - repeat constructor.
  - repeat constructor; eexists _, _; reflexivity.
  - cbn. repeat (apply Forall_cons; [split; [cbn; lia | cbn; auto 6]|]). apply Forall_nil.
  - repeat (apply Forall_cons; [apply scaffold_tags_consistentb_sound; vm_compute; reflexivity|]).
    apply Forall_nil.
  - unfold TwoHaps.input. repeat apply Forall_cons; [| | | |apply Forall_nil]; right.
    + exists [TwoHaps.a1; TwoHaps.a2; TwoHaps.a3], 1000.
      split; [apply Permutation_refl|]. split; [cbn; lia|]. split; [vm_compute; reflexivity|].
      right. repeat constructor; cbn; lia.
    + exists [TwoHaps.b1; TwoHaps.b2], 1000.
      split; [apply Permutation_refl|]. split; [cbn; lia|]. split; [vm_compute; reflexivity|].
      right. repeat constructor; cbn; lia.
    + exists [TwoHaps.c1], 500.
      split; [apply Permutation_refl|]. split; [cbn; lia|]. split; [vm_compute; reflexivity|].
      left. reflexivity.
    + exists [TwoHaps.d1], 300.
      split; [apply Permutation_refl|]. split; [cbn; lia|]. split; [vm_compute; reflexivity|].
      left. reflexivity.
Qed.

(* the same run, by computation *)
Definition two_hap_labels (rs : run_state) :=
  map (fun r => (o_name r, o_tag r, o_hap r, o_rank r)) (b_store (rs_b rs)).

(* two cuts (cA2 at 800, cB at 700), nothing left over; the X chromosome, its
   unlocalised piece, the haplotig, ... *)
Example two_haplotype_map_by_computation :
  exists rs, remap_to_input repaired TwoHaps.g10 (s "SUPER_") (7, 2)
                            TwoHaps.input TwoHaps.pretext = Ok rs
             /\ b_cuts (rs_b rs) = 2 /\ rs_left rs = []
             /\ two_hap_labels rs
                = [(s "X", None, Some (s "HAP1"), 2);
                   (s "X_unloc_1", None, Some (s "HAP1"), 2);
                   (s "H_1", Some (s "Haplotig"), Some (s "HAP1"), 3);
                   (s "Scaffold_2", None, Some (s "HAP2"), 1);
                   (s "Scaffold_2", Some (s "Contaminant"), Some (s "HAP2"), 3);
                   (s "Scaffold_3", None, Some (s "HAP1"), 1);
                   (s "scaf4", None, None, 3)].
Proof. eexists. split; [vm_compute; reflexivity|]. repeat split; vm_compute; reflexivity. Qed.

(* ==================================== 6. every clause of the condition is needed *)
(* the theorem, with the condition on the tags of a Pretext scaffold as a parameter *)
Definition tagged_statement (C : list (list str) -> Prop) : Prop :=
  forall g prefix n d input pretext,
  0 < d -> d <= n ->
  Forall input_ok input -> NoDup (map fst input) ->
  NoDup (map key_of (in_frags input)) ->
  Forall (fun f => f_tags f = []) (in_frags input) ->
  Forall (fun p => exists b t, snd p = RF b :: t) pretext ->
  Forall (fun b => (f_strand b = 1 \/ f_strand b = -1) /\ In (f_name b) (map fst input)) (baits_of pretext) ->
  Forall (fun p => C (map f_tags (frags_of (snd p)))) pretext ->
  Forall (scaffold_tiled n d (baits_of pretext)) input ->
  exists rs, remap_to_input repaired g prefix (n, d) input pretext = Ok rs.

Lemma tagged_statement_holds : tagged_statement scaffold_tags_consistent.
Proof. exact completion_of_tagged_tiling_maps. Qed.

(* one 100 bp contig, one bait that shows all of it, carrying [tags] *)
Module Needs.
  Definition g10 := mkGap 10 (s "scaffold").
  Definition A := mkFrag 0 (s "cA") 1 100 1 [].
  Definition input := [(s "scaf1", [RF A])].
  Definition bt (tags : list str) := mkFrag 0 (s "scaf1") 1 100 1 tags.
  Definition pretext (tags : list str) := [(s "P1", [RF (bt tags)])].

  Lemma run_of (C : list (list str) -> Prop) tags : C [tags] -> tagged_statement C ->
    exists rs, remap_to_input repaired g10 (s "SUPER_") (2, 1) input (pretext tags) = Ok rs.
  Proof.
    intros HC H. apply H.
    - lia.
    - lia.
    - constructor; [|constructor]. unfold input_ok. cbn [snd input].
      split; [discriminate|]. split; [repeat constructor; cbn; lia|].
      split; [eexists _, _; reflexivity|]. split; [exists A, []; reflexivity|].
      repeat (apply Forall_cons; [split; cbn; lia|]). apply Forall_nil.
    - cbn. repeat constructor; cbn; intuition discriminate.
    - cbn. repeat constructor; cbn; intuition discriminate.
    - repeat constructor.
    - repeat constructor. eexists _, _. reflexivity.
    - repeat constructor; cbn; auto.
    - constructor; [exact HC|constructor].
    - constructor; [|constructor]. right. exists [bt tags], 100.
      split; [apply Permutation_refl|]. split; [cbn; lia|]. split; [vm_compute; reflexivity|].
      left. reflexivity.
  Qed.

  Lemma run_two_names :
    remap_to_input repaired g10 (s "SUPER_") (2, 1) input (pretext [s "Painted"; s "X"; s "Y"])
    = Err TaggingError.
  Proof. vm_compute. reflexivity. Qed.
  Lemma run_two_haps :
    remap_to_input repaired g10 (s "SUPER_") (2, 1) input (pretext [s "Painted"; s "HAP1"; s "HAP2"])
    = Err TaggingError.
  Proof. vm_compute. reflexivity. Qed.
  Lemma run_primary :
    remap_to_input repaired g10 (s "SUPER_") (2, 1) input (pretext [s "Painted"; s "Primary"])
    = Err TaggingError.
  Proof. vm_compute. reflexivity. Qed.
  Lemma run_unloc :
    remap_to_input repaired g10 (s "SUPER_") (2, 1) input (pretext [s "Unloc"])
    = Err ValueError.
  Proof. vm_compute. reflexivity. Qed.
End Needs.

(* without [one_name_tag]: two chromosome names in one scaffold *)
Theorem completion_tagged_needs_one_name_tag :
  ~ tagged_statement (fun ls => one_hap_tag (concat ls) /\ primary_has_hap (concat ls)
                                /\ unloc_is_painted ls).
Proof.
  intro H. pose proof (fun HC => Needs.run_of _ [s "Painted"; s "X"; s "Y"] HC H) as R. cbv beta in R.
  destruct R as (rs & Hrs).
  - split; [apply one_hap_tagb_iff|split; [apply primary_has_hapb_iff|apply unloc_is_paintedb_iff]];
      vm_compute; reflexivity.
  - rewrite Needs.run_two_names in Hrs. discriminate.
Qed.

(* without [one_hap_tag]: two haplotypes in one scaffold *)
Theorem completion_tagged_needs_one_hap_tag :
  ~ tagged_statement (fun ls => one_name_tag (concat ls) /\ primary_has_hap (concat ls)
                                /\ unloc_is_painted ls).
Proof.
  intro H. pose proof (fun HC => Needs.run_of _ [s "Painted"; s "HAP1"; s "HAP2"] HC H) as R. cbv beta in R.
  destruct R as (rs & Hrs).
  - split; [apply one_name_tagb_iff|split; [apply primary_has_hapb_iff|apply unloc_is_paintedb_iff]];
      vm_compute; reflexivity.
  - rewrite Needs.run_two_haps in Hrs. discriminate.
Qed.

(* without [primary_has_hap]: Primary on a scaffold with no haplotype *)
Theorem completion_tagged_needs_primary_has_hap :
  ~ tagged_statement (fun ls => one_name_tag (concat ls) /\ one_hap_tag (concat ls)
                                /\ unloc_is_painted ls).
Proof.
  intro H. pose proof (fun HC => Needs.run_of _ [s "Painted"; s "Primary"] HC H) as R. cbv beta in R.
  destruct R as (rs & Hrs).
  - split; [apply one_name_tagb_iff|split; [apply one_hap_tagb_iff|apply unloc_is_paintedb_iff]];
      vm_compute; reflexivity.
  - rewrite Needs.run_primary in Hrs. discriminate.
Qed.

(* without [unloc_is_painted]: Unloc in an unpainted scaffold *)
Theorem completion_tagged_needs_unloc_is_painted :
  ~ tagged_statement (fun ls => one_name_tag (concat ls) /\ one_hap_tag (concat ls)
                                /\ primary_has_hap (concat ls)).
Proof.
  intro H. pose proof (fun HC => Needs.run_of _ [s "Unloc"] HC H) as R. cbv beta in R.
  destruct R as (rs & Hrs).
  - split; [apply one_name_tagb_iff|split; [apply one_hap_tagb_iff|apply primary_has_hapb_iff]];
      vm_compute; reflexivity.
  - rewrite Needs.run_unloc in Hrs. discriminate.
Qed.

Print Assumptions scaffold_tags_consistentb_iff.
Print Assumptions make_scaffold_name_tagged.
Print Assumptions label_tagged.
Print Assumptions completion_of_tagged_tiling_maps.
Print Assumptions completion_of_painted_tiling_maps_again.
Print Assumptions two_haplotype_map_completes.
Print Assumptions two_haplotype_map_by_computation.
Print Assumptions completion_tagged_needs_one_name_tag.
Print Assumptions completion_tagged_needs_one_hap_tag.
Print Assumptions completion_tagged_needs_primary_has_hap.
Print Assumptions completion_tagged_needs_unloc_is_painted.
