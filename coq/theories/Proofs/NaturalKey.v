(* Proofs about the natural sort key model (Model/NaturalKey.v). *)
From Tola Require Import Py.Base Py.Dec Py.Sort Model.NaturalKey.
From Tola Require Import Proofs.BaseLemmas Proofs.Dec.
From Coq Require Import Lia Permutation Sorted.

(* ===================================================== fuel independence *)
Definition consumes (m : str -> option (str * str)) : Prop :=
  forall x tok rest, m x = Some (tok, rest) -> (length rest < length x)%nat.

Lemma split_fuel_enough m : consumes m ->
  forall f1 f2 x acc, (length x < f1)%nat -> (length x < f2)%nat ->
  split_fuel m f1 x acc = split_fuel m f2 x acc.
Proof.
  intro Hm. induction f1 as [|f1 IH]; intros f2 x acc H1 H2; [lia|].
  destruct f2 as [|f2]; [lia|]. cbn [split_fuel].
  destruct x as [|c t]; [reflexivity|].
  destruct (m (c :: t)) as [[tok rest]|] eqn:E.
  - apply Hm in E. destruct (tok_value tok); cbn [bind]; [|reflexivity].
    rewrite (IH f2 rest []) by lia. reflexivity.
  - apply IH; cbn [length] in *; lia.
Qed.

(* the tokenizer with exactly enough fuel *)
Definition split (m : str -> option (str * str)) (x acc : str) : res (list kelt) :=
  split_fuel m (S (length x)) x acc.

Lemma natural_key_split x : natural_key x = split match_tok x [].
Proof. reflexivity. Qed.
Lemma natural_key_legacy_split x : natural_key_legacy x = split match_tok_legacy x [].
Proof. reflexivity. Qed.

Lemma split_nil m acc : split m [] acc = Ok [KS (rev acc)].
Proof. reflexivity. Qed.

Lemma split_cons m : consumes m -> forall c t acc,
  split m (c :: t) acc =
  match m (c :: t) with
  | Some (tok, rest) =>
      do v <- tok_value tok; do k <- split m rest []; Ok (KS (rev acc) :: KI v :: k)
  | None => split m t (c :: acc)
  end.
Proof.
  intros Hm c t acc. unfold split at 1.
  change (split_fuel m (S (length (c :: t))) (c :: t) acc) with
    (match m (c :: t) with
     | Some (tok, rest) =>
         do v <- tok_value tok;
         do k <- split_fuel m (length (c :: t)) rest [];
         Ok (KS (rev acc) :: KI v :: k)
     | None => split_fuel m (S (length t)) t (c :: acc)
     end).
  destruct (m (c :: t)) as [[tok rest]|] eqn:E; [|reflexivity].
  apply Hm in E. destruct (tok_value tok); cbn [bind]; [|reflexivity].
  unfold split.
  rewrite (split_fuel_enough m Hm (length (c :: t)) (S (length rest)) rest []) by lia.
  reflexivity.
Qed.

(* ============================================================ take_while *)
Lemma take_while_spec p x : forall a b, take_while p x = (a, b) ->
  x = a ++ b /\ forallb p a = true /\ (length b <= length x)%nat.
Proof.
  induction x as [|c x IH]; cbn [take_while]; intros a b H.
  - injection H as <- <-. repeat split; reflexivity.
  - destruct (p c) eqn:Hc.
    + destruct (take_while p x) as [a' b']. injection H as <- <-.
      destruct (IH _ _ eq_refl) as (-> & Ha & Hl). cbn [forallb app length].
      rewrite Hc, Ha. repeat split; lia.
    + injection H as <- <-. repeat split; reflexivity.
Qed.

Definition stops (p : ascii -> bool) (x : str) : Prop :=
  match x with [] => True | c :: _ => p c = false end.

Lemma take_while_app p a b :
  forallb p a = true -> stops p b -> take_while p (a ++ b) = (a, b).
Proof.
  induction a as [|c a IH]; cbn [forallb app take_while]; intros Ha Hb.
  - destruct b as [|d b]; [reflexivity|]. cbn in *. rewrite Hb. reflexivity.
  - apply andb_true_iff in Ha as [Hc Ha]. rewrite Hc, (IH Ha Hb). reflexivity.
Qed.

(* ============================================================ the tokens *)
Definition numeral (t : str) : Prop :=
  t = s "I" \/ t = s "II" \/ t = s "III" \/ t = s "IV".

Lemma is_I_eq c : is_I c = true -> c = "I"%char.
Proof. apply Ascii.eqb_eq. Qed.
Lemma is_V_eq c : is_V c = true -> c = "V"%char.
Proof. apply Ascii.eqb_eq. Qed.

Lemma match_tok_spec x tok rest : match_tok x = Some (tok, rest) ->
  x = tok ++ rest /\ (numeral tok \/ (tok <> [] /\ forallb is_digit tok = true)).
Proof.
  unfold match_tok, numeral. destruct x as [|c1 t1]; [discriminate|].
  destruct (is_I c1) eqn:E1.
  - apply is_I_eq in E1; subst c1.
    destruct t1 as [|c2 t2]; [intro H; injection H as <- <-; cbn; tauto|].
    destruct (is_V c2) eqn:E2.
    { apply is_V_eq in E2; subst c2. intro H; injection H as <- <-; cbn; tauto. }
    destruct (is_I c2) eqn:E3; [|intro H; injection H as <- <-; cbn; tauto].
    apply is_I_eq in E3; subst c2.
    destruct t2 as [|c3 t3]; [intro H; injection H as <- <-; cbn; tauto|].
    destruct (is_I c3) eqn:E4; [apply is_I_eq in E4; subst c3|];
      intro H; injection H as <- <-; cbn; tauto.
  - destruct (is_digit c1) eqn:E2; [|discriminate].
    intro H.
    assert (H' : take_while is_digit (c1 :: t1) = (tok, rest)) by (injection H as H; exact H).
    clear H. pose proof (take_while_spec _ _ _ _ H') as (H1 & H2 & _).
    split; [exact H1|]. right. split; [|exact H2].
    intro; subst tok.
    (* then take_while returned ([], _) although c1 is a digit *)
    cbn [take_while] in H'. rewrite E2 in H'. destruct (take_while is_digit t1). discriminate.
Qed.

Lemma match_tok_consumes : consumes match_tok.
Proof.
  intros x tok rest H. apply match_tok_spec in H as (-> & [H | [H _]]).
  - unfold numeral in H. rewrite app_length.
    destruct H as [-> | [-> | [-> | ->]]]; cbn; lia.
  - rewrite app_length. destruct tok; [congruence | cbn; lia].
Qed.

Lemma tok_value_numeral t : numeral t -> exists z, tok_value t = Ok z.
Proof. intros [-> | [-> | [-> | ->]]]; vm_compute; eauto. Qed.

Lemma tok_value_digits d :
  d <> [] -> forallb is_digit d = true -> tok_value d = int_of_str d.
Proof.
  destruct d as [|c t]; [congruence|]. intros _ H.
  cbn [forallb] in H. apply andb_true_iff in H as [Hc _].
  destruct (is_digit_facts c Hc) as (_ & _ & _ & _ & HI).
  unfold tok_value, str_eqb, s. cbn [list_ascii_of_string list_eqb]. rewrite HI. reflexivity.
Qed.

Lemma tok_value_match_tok x tok rest :
  match_tok x = Some (tok, rest) -> exists z, tok_value tok = Ok z.
Proof.
  intro H. apply match_tok_spec in H as (_ & [H | [H1 H2]]).
  - apply tok_value_numeral, H.
  - rewrite tok_value_digits by assumption. apply int_of_str_digits_ok; assumption.
Qed.

(* ======================================================== 1. totality *)
Lemma split_total : forall n x acc, (length x <= n)%nat ->
  exists k, split match_tok x acc = Ok k.
Proof.
  induction n as [|n IH]; intros x acc Hl.
  - destruct x; [|cbn in Hl; lia]. rewrite split_nil. eauto.
  - destruct x as [|c t]; [rewrite split_nil; eauto|].
    rewrite (split_cons _ match_tok_consumes).
    destruct (match_tok (c :: t)) as [[tok rest]|] eqn:E.
    + destruct (tok_value_match_tok _ _ _ E) as [z ->].
      apply match_tok_consumes in E.
      destruct (IH rest []) as [k ->]; [cbn [length] in *; lia|].
      cbn [bind]. eauto.
    + apply IH. cbn [length] in Hl. lia.
Qed.

Theorem natural_key_total : forall x, exists k, natural_key x = Ok k.
Proof. intro x. rewrite natural_key_split. apply (split_total (length x)). lia. Qed.

(* =========================================================== 2. shape *)
(* text, int, text, ..., text: KS at even positions, KI at odd positions,
   non-empty, the last element is a KS *)
Fixpoint alternating (expect_text : bool) (k : list kelt) : Prop :=
  match k with
  | [] => False
  | KS _ :: t => expect_text = true /\ (t = [] \/ alternating false t)
  | KI _ :: t => expect_text = false /\ alternating true t
  end.

Lemma split_shape (m : str -> option (str * str)) : consumes m ->
  forall n x acc k, (length x <= n)%nat -> split m x acc = Ok k -> alternating true k.
Proof.
  intro Hm. induction n as [|n IH]; intros x acc k Hl.
  - destruct x; [|cbn in Hl; lia]. rewrite split_nil. intro H; injection H as <-. cbn. auto.
  - destruct x as [|c t]; [rewrite split_nil; intro H; injection H as <-; cbn; auto|].
    rewrite (split_cons _ Hm).
    destruct (m (c :: t)) as [[tok rest]|] eqn:E.
    + apply Hm in E. destruct (tok_value tok) as [v|]; cbn [bind]; [|discriminate].
      destruct (split m rest []) as [k'|] eqn:Ek; cbn [bind]; [|discriminate].
      intro H; injection H as <-.
      apply IH in Ek; [|cbn [length] in *; lia].
      cbn [alternating]. split; [reflexivity|]. right. split; [reflexivity | exact Ek].
    + apply IH. cbn [length] in Hl. lia.
Qed.

Theorem natural_key_shape : forall x k, natural_key x = Ok k -> alternating true k.
Proof.
  intros x k. rewrite natural_key_split.
  apply (split_shape _ match_tok_consumes (length x)). lia.
Qed.

Lemma alternating_no_mixed_gen : forall a b e, alternating e a -> alternating e b ->
  forall i x y, nth_error a i = Some x -> nth_error b i = Some y ->
  (exists u v, x = KS u /\ y = KS v) \/ (exists n m, x = KI n /\ y = KI m).
Proof.
  induction a as [|xa a IH]; intros b e Ha Hb i x y Hx Hy; [destruct i; discriminate|].
  destruct b as [|xb b]; [destruct i; discriminate|].
  destruct i as [|i]; cbn [nth_error] in Hx, Hy.
  - injection Hx as <-. injection Hy as <-.
    destruct xa, xb; cbn [alternating] in Ha, Hb; destruct Ha as [Ea _], Hb as [Eb _].
    + left; eauto.
    + congruence.
    + congruence.
    + right; eauto.
  - destruct xa, xb; cbn [alternating] in Ha, Hb; destruct Ha as [Ea Ha], Hb as [Eb Hb];
      try congruence.
    + destruct Ha as [-> | Ha]; [destruct i; discriminate|].
      destruct Hb as [-> | Hb]; [destruct i; discriminate|].
      exact (IH b false Ha Hb i x y Hx Hy).
    + exact (IH b true Ha Hb i x y Hx Hy).
Qed.

(* hence comparing two keys never compares a text with an int *)
Theorem alternating_no_mixed : forall a b, alternating true a -> alternating true b ->
  forall i x y, nth_error a i = Some x -> nth_error b i = Some y ->
  (exists u v, x = KS u /\ y = KS v) \/ (exists n m, x = KI n /\ y = KI m).
Proof. intros a b. apply alternating_no_mixed_gen. Qed.

(* ====================================================== 3. the key order *)
Section Lex.
  Context {A : Type} (cmp : A -> A -> comparison).

  Fixpoint lex (a b : list A) : comparison :=
    match a, b with
    | [], [] => Eq
    | [], _ :: _ => Lt
    | _ :: _, [] => Gt
    | x :: a', y :: b' => match cmp x y with Eq => lex a' b' | c => c end
    end.

  Hypothesis cmp_eq : forall x y, cmp x y = Eq <-> x = y.
  Hypothesis cmp_sym : forall x y, cmp y x = CompOpp (cmp x y).
  Hypothesis cmp_trans : forall x y z, cmp x y = Lt -> cmp y z = Lt -> cmp x z = Lt.

  Lemma lex_eq : forall a b, lex a b = Eq <-> a = b.
  Proof.
    induction a as [|x a IH]; intros [|y b]; cbn [lex]; split; intro H;
      try reflexivity; try discriminate.
    - destruct (cmp x y) eqn:E; try discriminate.
      apply cmp_eq in E. apply IH in H. congruence.
    - injection H as -> ->. rewrite (proj2 (cmp_eq y y) eq_refl). apply IH. reflexivity.
  Qed.

  Lemma lex_sym : forall a b, lex b a = CompOpp (lex a b).
  Proof.
    induction a as [|x a IH]; intros [|y b]; cbn [lex]; try reflexivity.
    rewrite (cmp_sym x y). destruct (cmp x y); cbn [CompOpp]; auto.
  Qed.

  Lemma lex_trans : forall a b c, lex a b = Lt -> lex b c = Lt -> lex a c = Lt.
  Proof.
    induction a as [|x a IH]; intros [|y b] [|z c]; cbn [lex]; intros H1 H2;
      try reflexivity; try discriminate.
    destruct (cmp x y) eqn:E1; try discriminate;
      destruct (cmp y z) eqn:E2; try discriminate.
    - apply cmp_eq in E1, E2. subst. rewrite (proj2 (cmp_eq z z) eq_refl). eauto.
    - apply cmp_eq in E1. subst. rewrite E2. reflexivity.
    - apply cmp_eq in E2. subst. rewrite E1. reflexivity.
    - rewrite (cmp_trans _ _ _ E1 E2). reflexivity.
  Qed.
End Lex.

Definition code_cmp (x y : ascii) : comparison := N.compare (code x) (code y).

Lemma code_inj x y : code x = code y -> x = y.
Proof.
  unfold code. intro H. rewrite <- (ascii_N_embedding x), <- (ascii_N_embedding y), H.
  reflexivity.
Qed.

Lemma code_cmp_eq x y : code_cmp x y = Eq <-> x = y.
Proof.
  unfold code_cmp. rewrite N.compare_eq_iff. split; [apply code_inj | congruence].
Qed.
Lemma code_cmp_sym x y : code_cmp y x = CompOpp (code_cmp x y).
Proof. unfold code_cmp. apply N.compare_antisym. Qed.
Lemma code_cmp_trans x y z : code_cmp x y = Lt -> code_cmp y z = Lt -> code_cmp x z = Lt.
Proof. unfold code_cmp. rewrite !N.compare_lt_iff. apply N.lt_trans. Qed.

Lemma str_cmp_lex a : forall b, str_cmp a b = lex code_cmp a b.
Proof.
  (* the two fixpoints are convertible *)
  intros b. reflexivity.
Qed.

Lemma str_cmp_eq a b : str_cmp a b = Eq <-> a = b.
Proof. rewrite str_cmp_lex. apply lex_eq, code_cmp_eq. Qed.
Lemma str_cmp_refl a : str_cmp a a = Eq.
Proof. apply str_cmp_eq. reflexivity. Qed.
Lemma str_cmp_sym a b : str_cmp b a = CompOpp (str_cmp a b).
Proof. rewrite !str_cmp_lex. apply lex_sym, code_cmp_sym. Qed.
Lemma str_cmp_trans a b c : str_cmp a b = Lt -> str_cmp b c = Lt -> str_cmp a c = Lt.
Proof.
  rewrite !str_cmp_lex. apply lex_trans; [apply code_cmp_eq | apply code_cmp_trans].
Qed.

Lemma kelt_cmp_eq x y : kelt_cmp x y = Eq <-> x = y.
Proof.
  destruct x as [x|n], y as [y|m]; cbn [kelt_cmp]; split; intro H; try discriminate.
  - apply str_cmp_eq in H. congruence.
  - injection H as ->. apply str_cmp_refl.
  - apply Z.compare_eq_iff in H. congruence.
  - injection H as ->. apply Z.compare_refl.
Qed.
Lemma kelt_cmp_sym x y : kelt_cmp y x = CompOpp (kelt_cmp x y).
Proof.
  destruct x as [x|n], y as [y|m]; cbn [kelt_cmp CompOpp]; try reflexivity.
  - apply str_cmp_sym.
  - apply Z.compare_antisym.
Qed.
Lemma kelt_cmp_trans x y z : kelt_cmp x y = Lt -> kelt_cmp y z = Lt -> kelt_cmp x z = Lt.
Proof.
  destruct x as [x|n], y as [y|m], z as [z|k]; cbn [kelt_cmp]; intros H1 H2;
    try reflexivity; try discriminate.
  - eapply str_cmp_trans; eassumption.
  - rewrite Z.compare_lt_iff in *. lia.
Qed.

Lemma key_cmp_lex a : forall b, key_cmp a b = lex kelt_cmp a b.
Proof.
  intros b. reflexivity.
Qed.

Theorem key_cmp_eq : forall a b, key_cmp a b = Eq <-> a = b.
Proof. intros a b. rewrite key_cmp_lex. apply lex_eq, kelt_cmp_eq. Qed.
Lemma key_cmp_sym a b : key_cmp b a = CompOpp (key_cmp a b).
Proof. rewrite !key_cmp_lex. apply lex_sym, kelt_cmp_sym. Qed.
Lemma key_cmp_trans a b c : key_cmp a b = Lt -> key_cmp b c = Lt -> key_cmp a c = Lt.
Proof.
  rewrite !key_cmp_lex. apply lex_trans; [apply kelt_cmp_eq | apply kelt_cmp_trans].
Qed.

Theorem key_le_refl : forall a, key_le a a = true.
Proof. intro a. unfold key_le. rewrite (proj2 (key_cmp_eq a a) eq_refl). reflexivity. Qed.

Theorem key_le_trans : forall a b c,
  key_le a b = true -> key_le b c = true -> key_le a c = true.
Proof.
  intros a b c. unfold key_le.
  destruct (key_cmp a b) eqn:E1; try discriminate;
    destruct (key_cmp b c) eqn:E2; try discriminate; intros _ _.
  - apply key_cmp_eq in E1, E2. subst. rewrite (proj2 (key_cmp_eq c c) eq_refl). reflexivity.
  - apply key_cmp_eq in E1. subst. rewrite E2. reflexivity.
  - apply key_cmp_eq in E2. subst. rewrite E1. reflexivity.
  - rewrite (key_cmp_trans _ _ _ E1 E2). reflexivity.
Qed.

Theorem key_le_total : forall a b, key_le a b = true \/ key_le b a = true.
Proof.
  intros a b. unfold key_le. rewrite (key_cmp_sym a b).
  destruct (key_cmp a b); cbn; auto.
Qed.

Theorem key_le_antisym : forall a b, key_le a b = true -> key_le b a = true -> a = b.
Proof.
  intros a b. unfold key_le. rewrite (key_cmp_sym a b).
  destruct (key_cmp a b) eqn:E; cbn; try discriminate.
  intros _ _. apply key_cmp_eq, E.
Qed.

(* the (rank, key) order of smart_sort *)
Lemma rank_key_le_refl a : rank_key_le a a = true.
Proof. unfold rank_key_le. rewrite Z.compare_refl. apply key_le_refl. Qed.

Lemma rank_key_le_trans a b c :
  rank_key_le a b = true -> rank_key_le b c = true -> rank_key_le a c = true.
Proof.
  unfold rank_key_le.
  destruct (Z.compare_spec (fst a) (fst b)), (Z.compare_spec (fst b) (fst c)),
    (Z.compare_spec (fst a) (fst c)); try discriminate; try lia; try reflexivity.
  apply key_le_trans.
Qed.

Lemma rank_key_le_total a b : rank_key_le a b = true \/ rank_key_le b a = true.
Proof.
  unfold rank_key_le.
  destruct (Z.compare_spec (fst a) (fst b)), (Z.compare_spec (fst b) (fst a));
    try lia; auto. apply key_le_total.
Qed.

Lemma rank_key_le_antisym a b :
  rank_key_le a b = true -> rank_key_le b a = true -> a = b.
Proof.
  unfold rank_key_le. destruct a as [ra ka], b as [rb kb]. cbn [fst snd].
  destruct (Z.compare_spec ra rb), (Z.compare_spec rb ra);
    try discriminate; try lia. subst.
  intros H1 H2. f_equal. apply key_le_antisym; assumption.
Qed.

(* ============================================================ 4. sorting *)
Section SortFacts.
  Context {A K : Type} (key : A -> K) (leK : K -> K -> bool).
  Local Notation le := (fun a b : A => leK (key a) (key b)).
  Local Notation R := (fun a b : A => leK (key a) (key b) = true).

  Lemma insert_front_perm x l : Permutation (insert_front le x l) (x :: l).
  Proof.
    induction l as [|y l IH]; cbn [insert_front]; [apply Permutation_refl|].
    destruct (leK (key x) (key y)); [apply Permutation_refl|].
    eapply perm_trans; [apply perm_skip, IH | apply perm_swap].
  Qed.

  Theorem stable_sort_perm l : Permutation (stable_sort le l) l.
  Proof.
    induction l as [|x l IH]; cbn [stable_sort]; [apply perm_nil|].
    eapply perm_trans; [apply insert_front_perm | apply perm_skip, IH].
  Qed.

  (* stability: elements selected by a predicate under which all selected
     elements are mutually [le] (e.g. "key = k") keep their input order *)
  Lemma insert_front_filter (p : A -> bool) :
    (forall x y, p x = true -> p y = true -> leK (key x) (key y) = true) ->
    forall x l, filter p (insert_front le x l) = filter p (x :: l).
  Proof.
    intros Hp x l. induction l as [|y l IH]; cbn [insert_front]; [reflexivity|].
    destruct (leK (key x) (key y)) eqn:E; [reflexivity|].
    cbn [filter] in *. rewrite IH.
    destruct (p x) eqn:Px, (p y) eqn:Py; try reflexivity.
    rewrite (Hp x y Px Py) in E. discriminate.
  Qed.

  Theorem stable_sort_filter (p : A -> bool) :
    (forall x y, p x = true -> p y = true -> leK (key x) (key y) = true) ->
    forall l, filter p (stable_sort le l) = filter p l.
  Proof.
    intros Hp l. induction l as [|x l IH]; [reflexivity|].
    cbn [stable_sort]. rewrite (insert_front_filter p Hp). cbn [filter]. rewrite IH. reflexivity.
  Qed.

  Lemma insert_front_map x l :
    map key (insert_front le x l) = insert_front leK (key x) (map key l).
  Proof.
    induction l as [|y l IH]; cbn [insert_front map]; [reflexivity|].
    destruct (leK (key x) (key y)); cbn [map]; [reflexivity|]. rewrite IH. reflexivity.
  Qed.

  Lemma stable_sort_map l : map key (stable_sort le l) = stable_sort leK (map key l).
  Proof.
    induction l as [|x l IH]; cbn [stable_sort map]; [reflexivity|].
    rewrite insert_front_map, IH. reflexivity.
  Qed.

  Hypothesis leK_trans : forall a b c, leK a b = true -> leK b c = true -> leK a c = true.
  Hypothesis leK_total : forall a b, leK a b = true \/ leK b a = true.

  Lemma insert_front_sorted x l :
    StronglySorted R l -> StronglySorted R (insert_front le x l).
  Proof.
    induction 1 as [|y l Hs IH Hy]; cbn [insert_front].
    - constructor; constructor.
    - destruct (leK (key x) (key y)) eqn:E.
      + constructor; [constructor; assumption|].
        constructor; [exact E|].
        eapply Forall_impl; [|exact Hy]. cbv beta. intros z Hz. eapply leK_trans; eassumption.
      + constructor; [exact IH|].
        eapply Permutation_Forall; [apply Permutation_sym, insert_front_perm|].
        constructor; [|exact Hy].
        destruct (leK_total (key x) (key y)) as [H|H]; [congruence | exact H].
  Qed.

  Theorem stable_sort_sorted l : StronglySorted R (stable_sort le l).
  Proof.
    induction l as [|x l IH]; cbn [stable_sort]; [constructor|].
    apply insert_front_sorted, IH.
  Qed.
End SortFacts.

Section SortedUnique.
  Context {K : Type} (leK : K -> K -> bool).
  Hypothesis leK_antisym : forall a b, leK a b = true -> leK b a = true -> a = b.
  Local Notation R := (fun a b : K => leK a b = true).

  Lemma sorted_perm_eq : forall l l',
    StronglySorted R l -> StronglySorted R l' -> Permutation l l' -> l = l'.
  Proof.
    induction l as [|a t IH]; intros l' S S' P.
    - apply Permutation_nil in P. congruence.
    - destruct l' as [|b t']; [apply Permutation_sym, Permutation_nil in P; discriminate|].
      inversion S as [|? ? St Ha]; subst. inversion S' as [|? ? St' Hb]; subst.
      assert (E : a = b).
      { assert (Ib : In b (a :: t)) by (eapply Permutation_in; [apply Permutation_sym, P | left; reflexivity]).
        assert (Ia : In a (b :: t')) by (eapply Permutation_in; [apply P | left; reflexivity]).
        destruct Ib as [Ib|Ib]; [exact Ib|]. destruct Ia as [Ia|Ia]; [congruence|].
        rewrite Forall_forall in Ha, Hb. apply leK_antisym; [apply Ha, Ib | apply Hb, Ia]. }
      subst b. f_equal. apply IH; try assumption. eapply Permutation_cons_inv, P.
  Qed.
End SortedUnique.

Section SortConsistent.
  Context {A K : Type} (key : A -> K) (leK : K -> K -> bool).
  Hypothesis leK_trans : forall a b c, leK a b = true -> leK b c = true -> leK a c = true.
  Hypothesis leK_total : forall a b, leK a b = true \/ leK b a = true.
  Hypothesis leK_antisym : forall a b, leK a b = true -> leK b a = true -> a = b.

  (* the sequence of keys after sorting does not depend on the input order *)
  Theorem stable_sort_consistent (l l' : list A) : Permutation l l' ->
    map key (stable_sort (fun a b => leK (key a) (key b)) l)
    = map key (stable_sort (fun a b => leK (key a) (key b)) l').
  Proof.
    intro P. rewrite !stable_sort_map.
    apply (sorted_perm_eq leK leK_antisym).
    - apply (stable_sort_sorted (fun k : K => k) leK leK_trans leK_total).
    - apply (stable_sort_sorted (fun k : K => k) leK leK_trans leK_total).
    - eapply perm_trans; [apply (stable_sort_perm (fun k : K => k) leK)|].
      eapply perm_trans; [apply Permutation_map, P|].
      apply Permutation_sym, (stable_sort_perm (fun k : K => k) leK).
  Qed.
End SortConsistent.

(* --- instances: sorted(key=name_natural_key) *)
Theorem sort_consistent : forall (A : Type) (l l' : list (list kelt * A)),
  Permutation l l' ->
  map fst (stable_sort (fun a b => key_le (fst a) (fst b)) l)
  = map fst (stable_sort (fun a b => key_le (fst a) (fst b)) l').
Proof.
  intros A l l'.
  apply (stable_sort_consistent fst key_le key_le_trans key_le_total key_le_antisym).
Qed.

Theorem sort_perm : forall (A : Type) (l : list (list kelt * A)),
  Permutation (stable_sort (fun a b => key_le (fst a) (fst b)) l) l.
Proof. intros A l. apply (stable_sort_perm fst key_le). Qed.

Theorem sort_sorted : forall (A : Type) (l : list (list kelt * A)),
  StronglySorted (fun a b => key_le (fst a) (fst b) = true)
    (stable_sort (fun a b => key_le (fst a) (fst b)) l).
Proof. intros A l. apply (stable_sort_sorted fst key_le key_le_trans key_le_total). Qed.

Definition key_is (k a : list kelt) : bool :=
  match key_cmp a k with Eq => true | _ => false end.

Lemma key_is_eq k a : key_is k a = true <-> a = k.
Proof.
  unfold key_is. rewrite <- key_cmp_eq. destruct (key_cmp a k); split; congruence.
Qed.

(* stability: the elements with key k appear in their input order *)
Theorem sort_stable : forall (A : Type) (k : list kelt) (l : list (list kelt * A)),
  filter (fun a => key_is k (fst a)) (stable_sort (fun a b => key_le (fst a) (fst b)) l)
  = filter (fun a => key_is k (fst a)) l.
Proof.
  intros A k l. apply (stable_sort_filter fst key_le).
  intros x y Hx Hy. apply key_is_eq in Hx, Hy. rewrite Hx, Hy. apply key_le_refl.
Qed.

(* --- instances: smart_sort, key = (rank, natural key) *)
Section SmartSort.
  Context {A : Type} (rank_of : A -> Z).
  Definition rk (a : list kelt * A) : Z * list kelt := (rank_of (snd a), fst a).
  Local Notation le := (fun a b => rank_key_le (rank_of (snd a), fst a) (rank_of (snd b), fst b)).

  Theorem smart_sort_consistent (l l' : list (list kelt * A)) : Permutation l l' ->
    map rk (stable_sort le l) = map rk (stable_sort le l').
  Proof.
    apply (stable_sort_consistent rk rank_key_le
             rank_key_le_trans rank_key_le_total rank_key_le_antisym).
  Qed.

  Theorem smart_sort_perm (l : list (list kelt * A)) : Permutation (stable_sort le l) l.
  Proof. apply (stable_sort_perm rk rank_key_le). Qed.

  Theorem smart_sort_sorted (l : list (list kelt * A)) :
    StronglySorted (fun a b => rank_key_le (rk a) (rk b) = true) (stable_sort le l).
  Proof. apply (stable_sort_sorted rk rank_key_le rank_key_le_trans rank_key_le_total). Qed.

  Theorem smart_sort_stable (r : Z) (k : list kelt) (l : list (list kelt * A)) :
    filter (fun a => Z.eqb (rank_of (snd a)) r && key_is k (fst a)) (stable_sort le l)
    = filter (fun a => Z.eqb (rank_of (snd a)) r && key_is k (fst a)) l.
  Proof.
    apply (stable_sort_filter rk rank_key_le).
    intros x y Hx Hy. apply andb_true_iff in Hx as [Rx Kx], Hy as [Ry Ky].
    apply Z.eqb_eq in Rx, Ry. apply key_is_eq in Kx, Ky.
    unfold rk. rewrite Rx, Ry, Kx, Ky. apply rank_key_le_refl.
  Qed.
End SmartSort.

(* ======================================================== 5. order facts *)
Definition clean (p : str) : Prop :=
  forallb (fun c => negb (is_I c) && negb (is_digit c)) p = true.

Lemma clean_cons c p : clean (c :: p) <-> (is_I c = false /\ is_digit c = false) /\ clean p.
Proof.
  unfold clean. cbn [forallb]. rewrite !andb_true_iff, !negb_true_iff. tauto.
Qed.

Lemma clean_app a b : clean a -> clean b -> clean (a ++ b).
Proof. unfold clean. intros Ha Hb. rewrite forallb_app, Ha, Hb. reflexivity. Qed.

Lemma clean_unloc : clean (s "_unloc_").
Proof. reflexivity. Qed.

Lemma match_tok_clean_head c t :
  is_I c = false -> is_digit c = false -> match_tok (c :: t) = None.
Proof. intros HI Hd. unfold match_tok. rewrite HI, Hd. reflexivity. Qed.

Lemma split_clean p : forall x acc, clean p ->
  split match_tok (p ++ x) acc = split match_tok x (rev p ++ acc).
Proof.
  induction p as [|c p IH]; intros x acc Hp; [reflexivity|].
  apply clean_cons in Hp as [[HI Hd] Hp].
  cbn [app rev]. rewrite (split_cons _ match_tok_consumes), (match_tok_clean_head _ _ HI Hd).
  rewrite (IH x (c :: acc) Hp), <- app_assoc. reflexivity.
Qed.

Lemma split_clean_end p acc : clean p -> split match_tok p acc = Ok [KS (rev acc ++ p)].
Proof.
  intro Hp. rewrite <- (app_nil_r p) at 1. rewrite (split_clean p [] acc Hp), split_nil.
  rewrite rev_app_distr, rev_involutive. reflexivity.
Qed.

Lemma stops_clean_app a b : clean a -> stops is_digit b -> stops is_digit (a ++ b).
Proof.
  destruct a as [|c a]; [intros _ H; exact H|].
  intros Ha _. apply clean_cons in Ha as [[_ Hd] _]. exact Hd.
Qed.

Lemma stops_unloc sfx y : clean sfx -> stops is_digit ((sfx ++ s "_unloc_") ++ y).
Proof.
  destruct sfx as [|c a]; [intros _; reflexivity|].
  intros Ha. apply clean_cons in Ha as [[_ Hd] _]. exact Hd.
Qed.

Lemma stops_clean a : clean a -> stops is_digit a.
Proof. intro H. rewrite <- (app_nil_r a). apply stops_clean_app; [exact H | exact I]. Qed.

Lemma tok_value_str_of_Z n : 0 <= n -> tok_value (str_of_Z n) = Ok n.
Proof.
  intro H. destruct (str_of_Z_digits n H) as [Hne Hd].
  rewrite tok_value_digits by assumption. apply int_of_str_of_Z.
Qed.

Lemma split_number n rest acc : 0 <= n -> stops is_digit rest ->
  split match_tok (str_of_Z n ++ rest) acc =
  do k <- split match_tok rest []; Ok (KS (rev acc) :: KI n :: k).
Proof.
  intros Hn Hr. pose proof (tok_value_str_of_Z n Hn) as Hv.
  destruct (str_of_Z_digits n Hn) as [Hne Hd].
  destruct (str_of_Z n) as [|c t] eqn:E; [congruence|].
  pose proof Hd as Hd'. cbn [forallb] in Hd'. apply andb_true_iff in Hd' as [Hc _].
  destruct (is_digit_facts c Hc) as (_ & _ & _ & _ & HI).
  change ((c :: t) ++ rest) with (c :: (t ++ rest)).
  rewrite (split_cons _ match_tok_consumes).
  assert (M : match_tok (c :: t ++ rest) = Some (c :: t, rest)).
  { change (is_I c = false) in HI. unfold match_tok. rewrite HI, Hc.
    change (c :: t ++ rest) with ((c :: t) ++ rest).
    rewrite (take_while_app is_digit (c :: t) rest Hd Hr). reflexivity. }
  rewrite M, Hv. reflexivity.
Qed.

Theorem key_prefix_number : forall p n sfx, clean p -> clean sfx -> 0 <= n ->
  natural_key (p ++ str_of_Z n ++ sfx) = Ok [KS p; KI n; KS sfx].
Proof.
  intros p n sfx Hp Hs Hn. rewrite natural_key_split.
  rewrite (split_clean p _ [] Hp), (split_number n sfx _ Hn (stops_clean sfx Hs)).
  rewrite (split_clean_end sfx [] Hs). cbn [bind rev app].
  rewrite app_nil_r, rev_involutive. reflexivity.
Qed.

Lemma key_number : forall p n, clean p -> 0 <= n ->
  natural_key (p ++ str_of_Z n) = Ok [KS p; KI n; KS []].
Proof.
  intros p n Hp Hn. rewrite <- (app_nil_r (str_of_Z n)).
  apply key_prefix_number; [exact Hp | reflexivity | exact Hn].
Qed.

Theorem numeric_order : forall p n m, clean p -> 0 <= n < m ->
  exists kn km, natural_key (p ++ str_of_Z n) = Ok kn
    /\ natural_key (p ++ str_of_Z m) = Ok km /\ key_cmp kn km = Lt.
Proof.
  intros p n m Hp H. eexists; eexists.
  split; [apply key_number; [exact Hp | lia]|].
  split; [apply key_number; [exact Hp | lia]|].
  cbn [key_cmp kelt_cmp]. rewrite str_cmp_refl.
  rewrite (proj2 (Z.compare_lt_iff n m)) by lia. reflexivity.
Qed.

Theorem key_unloc : forall p n sfx m, clean p -> clean sfx -> 0 <= n -> 0 <= m ->
  natural_key (p ++ str_of_Z n ++ sfx ++ s "_unloc_" ++ str_of_Z m)
  = Ok [KS p; KI n; KS (sfx ++ s "_unloc_"); KI m; KS []].
Proof.
  intros p n sfx m Hp Hs Hn Hm. rewrite natural_key_split.
  assert (Hsu : clean (sfx ++ s "_unloc_")) by (apply clean_app; [exact Hs | exact clean_unloc]).
  rewrite (split_clean p _ [] Hp).
  replace (sfx ++ s "_unloc_" ++ str_of_Z m)
    with ((sfx ++ s "_unloc_") ++ str_of_Z m ++ []) by (rewrite app_nil_r, app_assoc; reflexivity).
  rewrite (split_number n _ _ Hn) by (apply stops_unloc, Hs).
  rewrite (split_clean _ _ [] Hsu), (split_number m [] _ Hm I), split_nil.
  cbn [bind rev app]. rewrite !app_nil_r, !rev_involutive. reflexivity.
Qed.

Lemma str_cmp_prefix a b : b <> [] -> str_cmp a (a ++ b) = Lt.
Proof.
  intro Hb. induction a as [|c a IH]; cbn [app str_cmp].
  - destruct b; [congruence | reflexivity].
  - rewrite N.compare_refl. exact IH.
Qed.

(* an unloc sorts directly after its own chromosome and before the next
   chromosome number *)
Theorem unloc_between : forall p n n' sfx m,
  clean p -> clean sfx -> 0 <= n < n' -> 0 <= m ->
  exists kc ku kn,
    natural_key (p ++ str_of_Z n ++ sfx) = Ok kc
    /\ natural_key (p ++ str_of_Z n ++ sfx ++ s "_unloc_" ++ str_of_Z m) = Ok ku
    /\ natural_key (p ++ str_of_Z n') = Ok kn
    /\ key_cmp kc ku = Lt /\ key_cmp ku kn = Lt.
Proof.
  intros p n n' sfx m Hp Hs Hn Hm. eexists; eexists; eexists.
  split; [apply key_prefix_number; [exact Hp | exact Hs | lia]|].
  split; [apply key_unloc; [exact Hp | exact Hs | lia | exact Hm]|].
  split; [apply key_number; [exact Hp | lia]|].
  split; cbn [key_cmp kelt_cmp]; rewrite str_cmp_refl.
  - rewrite Z.compare_refl, str_cmp_prefix by discriminate. reflexivity.
  - rewrite (proj2 (Z.compare_lt_iff n n')) by lia. reflexivity.
Qed.

(* ... and before the same chromosome number with a later suffix letter *)
Theorem unloc_before_later_suffix : forall p n a b m,
  clean p -> clean [a] -> clean [b] -> (code a < code b)%N -> 0 <= n -> 0 <= m ->
  exists ku kb,
    natural_key (p ++ str_of_Z n ++ [a] ++ s "_unloc_" ++ str_of_Z m) = Ok ku
    /\ natural_key (p ++ str_of_Z n ++ [b]) = Ok kb
    /\ key_cmp ku kb = Lt.
Proof.
  intros p n a b m Hp Ha Hb Hab Hn Hm. eexists; eexists.
  split; [apply key_unloc; assumption|].
  split; [apply key_prefix_number; assumption|].
  cbn [key_cmp kelt_cmp app str_cmp]. rewrite str_cmp_refl, Z.compare_refl.
  rewrite (proj2 (N.compare_lt_iff _ _) Hab). reflexivity.
Qed.

Theorem roman_order :
  natural_key (s "I") = Ok [KS []; KI 1; KS []] /\
  natural_key (s "II") = Ok [KS []; KI 2; KS []] /\
  natural_key (s "III") = Ok [KS []; KI 3; KS []] /\
  natural_key (s "IV") = Ok [KS []; KI 4; KS []] /\
  key_cmp [KS []; KI 1; KS []] [KS []; KI 2; KS []] = Lt /\
  key_cmp [KS []; KI 2; KS []] [KS []; KI 3; KS []] = Lt /\
  key_cmp [KS []; KI 3; KS []] [KS []; KI 4; KS []] = Lt.
Proof. vm_compute. repeat split. Qed.

(* ============================================ 7. the old regex fails *)
Lemma natural_key_legacy_refuted : natural_key_legacy (s "IIII") = Err ValueError.
Proof. vm_compute. reflexivity. Qed.

Lemma natural_key_repaired_IIII :
  natural_key (s "IIII") = Ok [KS []; KI 3; KS []; KI 1; KS []].
Proof. vm_compute. reflexivity. Qed.

(* ===================== 6. the repair changes no key the old regex computed *)
Lemma take_while_stops p x : forall a b, take_while p x = (a, b) -> stops p b.
Proof.
  induction x as [|c x IH]; cbn [take_while]; intros a b H.
  - injection H as <- <-. exact I.
  - destruct (p c) eqn:Hc.
    + destruct (take_while p x) as [a' b']. injection H as <- <-. apply (IH _ _ eq_refl).
    + injection H as <- <-. exact Hc.
Qed.

(* the old regex at an I: the whole run of I's, plus a V if one follows *)
Lemma legacy_I_run is r : is <> [] -> forallb is_I is = true -> stops is_I r ->
  match_tok_legacy (is ++ r) =
  match r with
  | c :: r' => if is_V c then Some (is ++ [c], r') else Some (is, r)
  | [] => Some (is, [])
  end.
Proof.
  intros Hne Hall Hr. destruct is as [|c1 a]; [congruence|].
  pose proof Hall as H1. cbn [forallb] in H1. apply andb_true_iff in H1 as [H1 _].
  unfold match_tok_legacy. cbn [app]. rewrite H1.
  change (c1 :: a ++ r) with ((c1 :: a) ++ r).
  rewrite (take_while_app is_I (c1 :: a) r Hall Hr). reflexivity.
Qed.

Lemma match_tok_legacy_spec x tok rest : match_tok_legacy x = Some (tok, rest) ->
  x = tok ++ rest /\ tok <> [].
Proof.
  destruct x as [|c1 t1]; [discriminate|].
  destruct (is_I c1) eqn:E1.
  - destruct (take_while is_I (c1 :: t1)) as [is r] eqn:T.
    pose proof (take_while_stops _ _ _ _ T) as Hr.
    destruct (take_while_spec _ _ _ _ T) as (Hx & Hall & _).
    assert (Hne : is <> []).
    { intro; subst is. cbn [take_while] in T. rewrite E1 in T.
      destruct (take_while is_I t1). discriminate. }
    rewrite Hx, (legacy_I_run is r Hne Hall Hr).
    destruct r as [|c r'].
    + intro H; injection H as <- <-. split; [reflexivity | exact Hne].
    + destruct (is_V c); intro H; injection H as <- <-.
      * split; [rewrite <- app_assoc; reflexivity | destruct is; discriminate].
      * split; [reflexivity | exact Hne].
  - unfold match_tok_legacy. rewrite E1.
    destruct (is_digit c1) eqn:E2; [|discriminate].
    intro H.
    assert (H' : take_while is_digit (c1 :: t1) = (tok, rest)) by (injection H as H; exact H).
    clear H. destruct (take_while_spec _ _ _ _ H') as (H1 & _ & _).
    split; [exact H1|]. intro; subst tok.
    cbn [take_while] in H'. rewrite E2 in H'. destruct (take_while is_digit t1). discriminate.
Qed.

Lemma match_tok_legacy_consumes : consumes match_tok_legacy.
Proof.
  intros x tok rest H. apply match_tok_legacy_spec in H as (-> & H).
  rewrite app_length. destruct tok; [congruence | cbn; lia].
Qed.

Lemma int_of_str_I y :
  is_space (last ("I"%char :: y) "I"%char) = false ->
  int_of_str ("I"%char :: y) = Err ValueError.
Proof.
  intro H. unfold int_of_str.
  rewrite (strip_space_id "I"%char y "I"%char eq_refl H). reflexivity.
Qed.

Lemma tok_value_IIII y :
  tok_value ("I"%char :: "I"%char :: "I"%char :: "I"%char :: y)
  = int_of_str ("I"%char :: "I"%char :: "I"%char :: "I"%char :: y).
Proof. reflexivity. Qed.

Lemma last_all_I l : forallb is_I l = true -> last l "I"%char = "I"%char.
Proof.
  induction l as [|c l IH]; [reflexivity|]. cbn [forallb]. intro H.
  apply andb_true_iff in H as [Hc Hl]. destruct l as [|d l]; [apply is_I_eq, Hc|].
  change (last (d :: l) "I"%char = "I"%char). apply IH, Hl.
Qed.

Lemma tok_value_long_run a :
  forallb is_I a = true ->
  tok_value ("I"%char :: "I"%char :: "I"%char :: "I"%char :: a) = Err ValueError /\
  forall c, is_V c = true ->
  tok_value (("I"%char :: "I"%char :: "I"%char :: "I"%char :: a) ++ [c]) = Err ValueError.
Proof.
  intro Ha. split.
  - rewrite tok_value_IIII. apply int_of_str_I.
    rewrite (last_all_I ("I"%char :: "I"%char :: "I"%char :: "I"%char :: a)); [reflexivity|].
    cbn [forallb]. rewrite Ha. reflexivity.
  - intros c Hc. apply is_V_eq in Hc; subst c. cbn [app].
    rewrite tok_value_IIII. apply int_of_str_I.
    change ("I"%char :: "I"%char :: "I"%char :: "I"%char :: a ++ ["V"%char])
      with (("I"%char :: "I"%char :: "I"%char :: "I"%char :: a) ++ ["V"%char]).
    rewrite last_last. reflexivity.
Qed.

Lemma is_V_not_I c : is_V c = true -> is_I c = false.
Proof. intro H. apply is_V_eq in H. subst. reflexivity. Qed.

(* at an I, either the old token is rejected by int(), or both regexes
   produce the same token *)
Lemma legacy_I_case t :
  (exists tok rest, match_tok_legacy ("I"%char :: t) = Some (tok, rest)
                    /\ tok_value tok = Err ValueError)
  \/ match_tok_legacy ("I"%char :: t) = match_tok ("I"%char :: t).
Proof.
  destruct t as [|c2 t2].
  { right. reflexivity. }
  destruct (is_I c2) eqn:I2.
  2:{ right.
      assert (L := legacy_I_run ["I"%char] (c2 :: t2)). cbn [app] in L.
      rewrite L by (try discriminate; try reflexivity; exact I2). clear L.
      unfold match_tok. change (is_I "I"%char) with true. cbv iota. rewrite I2.
      destruct (is_V c2); reflexivity. }
  apply is_I_eq in I2; subst c2.
  destruct t2 as [|c3 t3].
  { right. reflexivity. }
  destruct (is_I c3) eqn:I3.
  2:{ assert (L := legacy_I_run ["I"%char; "I"%char] (c3 :: t3)). cbn [app] in L.
      rewrite L by (try discriminate; try reflexivity; exact I3). clear L.
      destruct (is_V c3) eqn:V3.
      - left. apply is_V_eq in V3; subst c3. eexists; eexists. split; reflexivity.
      - right. unfold match_tok. change (is_I "I"%char) with true.
        change (is_V "I"%char) with false. cbv iota. rewrite I3. reflexivity. }
  apply is_I_eq in I3; subst c3.
  destruct t3 as [|c4 t4].
  { right. reflexivity. }
  destruct (is_I c4) eqn:I4.
  2:{ assert (L := legacy_I_run ["I"%char; "I"%char; "I"%char] (c4 :: t4)). cbn [app] in L.
      rewrite L by (try discriminate; try reflexivity; exact I4). clear L.
      destruct (is_V c4) eqn:V4.
      - left. apply is_V_eq in V4; subst c4. eexists; eexists. split; reflexivity.
      - right. reflexivity. }
  apply is_I_eq in I4; subst c4. left.
  destruct (take_while is_I t4) as [a r] eqn:T.
  pose proof (take_while_stops _ _ _ _ T) as Hr.
  destruct (take_while_spec _ _ _ _ T) as (-> & Ha & _).
  destruct (tok_value_long_run a Ha) as [E1 E2].
  change ("I"%char :: "I"%char :: "I"%char :: "I"%char :: a ++ r)
    with (("I"%char :: "I"%char :: "I"%char :: "I"%char :: a) ++ r).
  rewrite legacy_I_run; [|discriminate|cbn [forallb]; rewrite Ha; reflexivity|exact Hr].
  destruct r as [|c r'].
  - eexists; eexists. split; [reflexivity | exact E1].
  - destruct (is_V c) eqn:Vc; eexists; eexists; (split; [reflexivity|]); auto.
Qed.

Lemma legacy_nonI c t : is_I c = false -> match_tok_legacy (c :: t) = match_tok (c :: t).
Proof. intro H. unfold match_tok_legacy, match_tok. rewrite H. reflexivity. Qed.

Lemma split_new_extends_old : forall n x acc k, (length x <= n)%nat ->
  split match_tok_legacy x acc = Ok k -> split match_tok x acc = Ok k.
Proof.
  induction n as [|n IH]; intros x acc k Hl.
  - destruct x; [|cbn in Hl; lia]. rewrite !split_nil. auto.
  - destruct x as [|c t]; [rewrite !split_nil; auto|].
    rewrite (split_cons _ match_tok_legacy_consumes), (split_cons _ match_tok_consumes).
    assert (Same : match_tok_legacy (c :: t) = match_tok (c :: t) ->
      match match_tok_legacy (c :: t) with
      | Some (tok, rest) =>
          do v <- tok_value tok; do k0 <- split match_tok_legacy rest [];
          Ok (KS (rev acc) :: KI v :: k0)
      | None => split match_tok_legacy t (c :: acc)
      end = Ok k ->
      match match_tok (c :: t) with
      | Some (tok, rest) =>
          do v <- tok_value tok; do k0 <- split match_tok rest [];
          Ok (KS (rev acc) :: KI v :: k0)
      | None => split match_tok t (c :: acc)
      end = Ok k).
    { intros ->. destruct (match_tok (c :: t)) as [[tok rest]|] eqn:E.
      - apply match_tok_consumes in E.
        destruct (tok_value tok) as [v|]; cbn [bind]; [|discriminate].
        destruct (split match_tok_legacy rest []) as [k'|] eqn:EL; cbn [bind]; [|discriminate].
        rewrite (IH rest [] k'); [auto | cbn [length] in *; lia | exact EL].
      - apply IH. cbn [length] in Hl. lia. }
    destruct (is_I c) eqn:Ic.
    + apply is_I_eq in Ic; subst c.
      destruct (legacy_I_case t) as [(tok & rest & E & Ev) | E]; [|exact (Same E)].
      rewrite E, Ev. cbn [bind]. discriminate.
    + exact (Same (legacy_nonI c t Ic)).
Qed.

Theorem new_key_extends_old : forall x k,
  natural_key_legacy x = Ok k -> natural_key x = Ok k.
Proof.
  intros x k. rewrite natural_key_legacy_split, natural_key_split.
  apply (split_new_extends_old (length x)). lia.
Qed.

(* ============ corollaries for sorted_by_name / smart_sort themselves *)
Lemma with_keys_total {A} (name_of : A -> str) (l : list A) :
  exists kl, with_keys name_of l = Ok kl /\ map snd kl = l.
Proof.
  unfold with_keys. induction l as [|x l (kl & E & M)]; [exists []; split; reflexivity|].
  destruct (natural_key_total (name_of x)) as [k Hk].
  exists ((k, x) :: kl). cbn [mapM]. rewrite Hk. cbn [bind]. rewrite E. cbn [bind map snd].
  rewrite M. split; reflexivity.
Qed.

Theorem sorted_by_name_total {A} (name_of : A -> str) (l : list A) :
  exists r, sorted_by_name name_of l = Ok r /\ Permutation r l.
Proof.
  destruct (with_keys_total name_of l) as (kl & E & M).
  unfold sorted_by_name. rewrite E. cbn [bind]. eexists. split; [reflexivity|].
  rewrite <- M. apply Permutation_map, sort_perm.
Qed.

Theorem smart_sort_total {A} (rank_of : A -> Z) (name_of : A -> str) (l : list A) :
  exists r, smart_sort rank_of name_of l = Ok r /\ Permutation r l.
Proof.
  destruct (with_keys_total name_of l) as (kl & E & M).
  unfold smart_sort. rewrite E. cbn [bind]. eexists. split; [reflexivity|].
  rewrite <- M. apply Permutation_map, smart_sort_perm.
Qed.

Print Assumptions natural_key_total.
Print Assumptions natural_key_shape.
Print Assumptions alternating_no_mixed.
Print Assumptions key_cmp_eq.
Print Assumptions key_le_refl.
Print Assumptions key_le_trans.
Print Assumptions key_le_total.
Print Assumptions key_le_antisym.
Print Assumptions sort_consistent.
Print Assumptions sort_perm.
Print Assumptions sort_sorted.
Print Assumptions sort_stable.
Print Assumptions smart_sort_consistent.
Print Assumptions smart_sort_perm.
Print Assumptions smart_sort_sorted.
Print Assumptions smart_sort_stable.
Print Assumptions key_prefix_number.
Print Assumptions numeric_order.
Print Assumptions key_unloc.
Print Assumptions unloc_between.
Print Assumptions unloc_before_later_suffix.
Print Assumptions roman_order.
Print Assumptions new_key_extends_old.
Print Assumptions natural_key_legacy_refuted.
Print Assumptions sorted_by_name_total.
Print Assumptions smart_sort_total.
