(* Baits that tile the scaffolds they show: pure list / interval combinatorics
   about [tiling] and [scaffold_tiled] (definitions copied verbatim from
   Proofs/Completion.v).  A tiled bait list is valid, pairwise disjoint per
   name, gap free (every non-last piece has a successor, every non-first piece
   a predecessor) and every piece that does not start its scaffold is at least
   one error length long. *)
From Tola Require Import Py.Base Model.Fragment Model.Remap Proofs.BaseLemmas.
From Coq Require Import Lia ZifyBool Permutation.

Fixpoint tiling (bs : list frag) (from E : Z) : Prop :=
  match bs with
  | [] => False
  | [b] => f_start b = from /\ f_end b = E /\ from <= E
  | b :: t => f_start b = from /\ from <= f_end b /\ tiling t (f_end b + 1) E
  end.

Definition scaffold_tiled (n d : Z) (baits : list frag) (isc : str * list row) : Prop :=
  let mine := filter (fun b => str_eqb (f_name b) (fst isc)) baits in
  mine = []
  \/ exists sorted E, Permutation mine sorted /\ tiling sorted 1 E
       /\ d * Z.abs (E - rows_len (snd isc)) < n
       /\ (length sorted = 1%nat \/ Forall (fun b => 2 * n <= d * f_len b) sorted).

(* ------------------------------------------------------------ [tiling] facts *)

Lemma tiling_cons2 x y t from E :
  tiling (x :: y :: t) from E
  <-> f_start x = from /\ from <= f_end x /\ tiling (y :: t) (f_end x + 1) E.
Proof. reflexivity. Qed.

Lemma tiling_one x from E :
  tiling [x] from E <-> f_start x = from /\ f_end x = E /\ from <= E.
Proof. reflexivity. Qed.

Lemma tiling_head x t from E : tiling (x :: t) from E -> f_start x = from.
Proof.
  destruct t as [|y t]; intro H.
  - apply (proj1 (tiling_one _ _ _)) in H. tauto.
  - apply (proj1 (tiling_cons2 _ _ _ _ _)) in H. tauto.
Qed.

Lemma tiling_bounds l : forall from E, tiling l from E ->
  Forall (fun x => from <= f_start x /\ f_start x <= f_end x /\ f_end x <= E) l.
Proof.
  induction l as [|x l IH]; intros from E H.
  - contradiction.
  - destruct l as [|y t].
    + apply (proj1 (tiling_one _ _ _)) in H. constructor; [lia | constructor].
    + apply (proj1 (tiling_cons2 _ _ _ _ _)) in H. destruct H as (H1 & H2 & H3).
      apply IH in H3. constructor.
      * pose proof (Forall_inv H3) as Hy. cbn beta in Hy. lia.
      * eapply Forall_impl; [| exact H3]. cbn beta. intros a Ha. lia.
Qed.

Lemma tiling_sorted l : forall from E, tiling l from E ->
  ForallOrdPairs (fun a b => f_end a < f_start b) l.
Proof.
  induction l as [|x l IH]; intros from E H.
  - constructor.
  - destruct l as [|y t].
    + constructor; constructor.
    + apply (proj1 (tiling_cons2 _ _ _ _ _)) in H. destruct H as (H1 & H2 & H3).
      constructor.
      * apply tiling_bounds in H3.
        eapply Forall_impl; [| exact H3]. cbn beta. intros a Ha. lia.
      * eapply IH. exact H3.
Qed.

Lemma tiling_next l : forall from E x, tiling l from E -> In x l -> f_end x < E ->
  exists t, In t l /\ f_start t = f_end x + 1.
Proof.
  induction l as [|x l IH]; intros from E z H Hin Hlt.
  - contradiction.
  - destruct l as [|y t].
    + apply (proj1 (tiling_one _ _ _)) in H. destruct Hin as [Hz | []]. subst z. lia.
    + apply (proj1 (tiling_cons2 _ _ _ _ _)) in H. destruct H as (H1 & H2 & H3).
      destruct Hin as [Hz | Hin].
      * subst z. exists y. split; [right; left; reflexivity |].
        apply tiling_head in H3. exact H3.
      * destruct (IH _ _ _ H3 Hin Hlt) as (u & Hu & Hs).
        exists u. split; [right; exact Hu | exact Hs].
Qed.

Lemma tiling_prev l : forall from E x, tiling l from E -> In x l -> from < f_start x ->
  exists t, In t l /\ f_end t + 1 = f_start x.
Proof.
  induction l as [|x l IH]; intros from E z H Hin Hlt.
  - contradiction.
  - destruct l as [|y t].
    + apply (proj1 (tiling_one _ _ _)) in H. destruct Hin as [Hz | []]. subst z. lia.
    + apply (proj1 (tiling_cons2 _ _ _ _ _)) in H. destruct H as (H1 & H2 & H3).
      destruct Hin as [Hz | Hin].
      * subst z. lia.
      * destruct (Z.eq_dec (f_start z) (f_end x + 1)) as [He | Hne].
        -- exists x. split; [left; reflexivity | lia].
        -- pose proof (tiling_bounds _ _ _ H3) as Hb.
           rewrite Forall_forall in Hb. specialize (Hb z Hin). cbn beta in Hb.
           assert (Hlt' : f_end x + 1 < f_start z) by lia.
           destruct (IH _ _ _ H3 Hin Hlt') as (u & Hu & Hs).
           exists u. split; [right; exact Hu | exact Hs].
Qed.

(* ------------------------------------------------- [ForallOrdPairs] helpers *)

Lemma FOP_impl {A} (R R' : A -> A -> Prop) l :
  (forall a b, R a b -> R' a b) -> ForallOrdPairs R l -> ForallOrdPairs R' l.
Proof.
  intros Himp H. induction H as [|x l Hx Hl IH].
  - constructor.
  - constructor; [| exact IH].
    eapply Forall_impl; [| exact Hx]. intros a Ha. apply Himp. exact Ha.
Qed.

Lemma FOP_perm {A} (R : A -> A -> Prop) :
  (forall a b, R a b -> R b a) ->
  forall l l', Permutation l l' -> ForallOrdPairs R l -> ForallOrdPairs R l'.
Proof.
  intros Hsym l l' HP. induction HP as [| x l l' HP IH | x y l | l l' l'' HP1 IH1 HP2 IH2]; intro H.
  - exact H.
  - inversion H as [| a m Hx Hl]; subst. constructor.
    + rewrite Forall_forall in *. intros z Hz. apply Hx.
      eapply Permutation_in; [apply Permutation_sym; exact HP | exact Hz].
    + apply IH. exact Hl.
  - inversion H as [| a m Hy Hl]; subst.
    inversion Hl as [| a' m' Hx Hl']; subst.
    pose proof (Forall_inv Hy) as Hyx. pose proof (Forall_inv_tail Hy) as Hyl.
    constructor.
    + constructor; [apply Hsym; exact Hyx | exact Hx].
    + constructor; [exact Hyl | exact Hl'].
  - apply IH2. apply IH1. exact H.
Qed.

Lemma FOP_tail {A} (R : A -> A -> Prop) x l :
  ForallOrdPairs R (x :: l) -> ForallOrdPairs R l.
Proof. intro H. inversion H; subst. assumption. Qed.

Lemma FOP_by_name (R : frag -> frag -> Prop) l :
  (forall x, In x l ->
     ForallOrdPairs R (filter (fun b => str_eqb (f_name b) (f_name x)) l)) ->
  ForallOrdPairs (fun a b => f_name a = f_name b -> R a b) l.
Proof.
  induction l as [|x l IH]; intro H.
  - constructor.
  - constructor.
    + rewrite Forall_forall. intros y Hy Hname.
      pose proof (H x (or_introl eq_refl)) as Hx.
      cbn [filter] in Hx. rewrite str_eqb_refl in Hx.
      inversion Hx as [| a m Hxa Hxl]; subst.
      rewrite Forall_forall in Hxa. apply Hxa.
      apply filter_In. split; [exact Hy |].
      apply str_eqb_eq. symmetry. exact Hname.
    + apply IH. intros z Hz.
      pose proof (H z (or_intror Hz)) as Hz'.
      cbn [filter] in Hz'.
      destruct (str_eqb (f_name x) (f_name z)).
      * eapply FOP_tail. exact Hz'.
      * exact Hz'.
Qed.

(* ------------------------------------------------------------------ section *)

Section Tiling.
  Variables (n d : Z) (input : list (str * list row)) (all : list frag).
  Hypothesis Hd : 0 < d.
  Hypothesis Hdn : d <= n.
  Hypothesis Hnamed : Forall (fun b => In (f_name b) (map fst input)) all.
  Hypothesis Htiled : Forall (scaffold_tiled n d all) input.

  (* the sorted tiling of the scaffold a bait names *)
  Lemma tiled_get : forall b, In b all ->
    exists sorted E,
      Permutation (filter (fun c => str_eqb (f_name c) (f_name b)) all) sorted
      /\ tiling sorted 1 E
      /\ (length sorted = 1%nat \/ Forall (fun c => 2 * n <= d * f_len c) sorted).
  Proof.
    intros b Hb.
    rewrite Forall_forall in Hnamed. pose proof (Hnamed b Hb) as Hin.
    apply in_map_iff in Hin. destruct Hin as (isc & Hfst & Hisc).
    rewrite Forall_forall in Htiled. pose proof (Htiled isc Hisc) as Ht.
    unfold scaffold_tiled in Ht. cbv zeta in Ht. rewrite Hfst in Ht.
    destruct Ht as [Hnil | (sorted & E & HP & HT & _ & Hbig)].
    - exfalso.
      assert (Hm : In b (filter (fun c => str_eqb (f_name c) (f_name b)) all)).
      { apply filter_In. split; [exact Hb | apply str_eqb_refl]. }
      rewrite Hnil in Hm. contradiction.
    - exists sorted, E. split; [exact HP | split; [exact HT | exact Hbig]].
  Qed.

  Lemma tiled_mem : forall b b' sorted, In b' all -> f_name b = f_name b' ->
    Permutation (filter (fun c => str_eqb (f_name c) (f_name b)) all) sorted ->
    In b' sorted.
  Proof.
    intros b b' sorted Hb' Hname HP.
    eapply Permutation_in; [exact HP |].
    apply filter_In. split; [exact Hb' |].
    apply str_eqb_eq. symmetry. exact Hname.
  Qed.

  Theorem tiled_valid : Forall (fun b => 1 <= f_start b <= f_end b) all.
  Proof.
    rewrite Forall_forall. intros b Hb.
    destruct (tiled_get b Hb) as (sorted & E & HP & HT & _).
    pose proof (tiled_mem b b sorted Hb eq_refl HP) as Hin.
    pose proof (tiling_bounds _ _ _ HT) as Hbd.
    rewrite Forall_forall in Hbd. specialize (Hbd b Hin). cbn beta in Hbd. lia.
  Qed.

  Theorem tiled_disjoint :
    ForallOrdPairs (fun a b => f_name a = f_name b -> f_end a < f_start b \/ f_end b < f_start a) all.
  Proof.
    apply (FOP_by_name (fun a b => f_end a < f_start b \/ f_end b < f_start a)).
    intros x Hx.
    destruct (tiled_get x Hx) as (sorted & E & HP & HT & _).
    eapply FOP_perm; [| apply Permutation_sym; exact HP |].
    - intros a b [H | H]; [right | left]; exact H.
    - eapply FOP_impl; [| eapply tiling_sorted; exact HT].
      intros a b H. left. exact H.
  Qed.

  Theorem tiled_next : forall b b', In b all -> In b' all -> f_name b = f_name b' ->
    f_end b < f_start b' -> exists t, In t all /\ f_name t = f_name b /\ f_start t = f_end b + 1.
  Proof.
    intros b b' Hb Hb' Hname Hlt.
    destruct (tiled_get b Hb) as (sorted & E & HP & HT & _).
    pose proof (tiled_mem b b sorted Hb eq_refl HP) as Hin.
    pose proof (tiled_mem b b' sorted Hb' Hname HP) as Hin'.
    pose proof (tiling_bounds _ _ _ HT) as Hbd.
    rewrite Forall_forall in Hbd. pose proof (Hbd b' Hin') as Hbd'. cbn beta in Hbd'.
    assert (HltE : f_end b < E) by lia.
    destruct (tiling_next _ _ _ _ HT Hin HltE) as (t & Ht & Hs).
    exists t.
    apply (Permutation_in t (Permutation_sym HP)) in Ht.
    apply filter_In in Ht. destruct Ht as (Ht & Hn). apply str_eqb_eq in Hn.
    split; [exact Ht | split; [exact Hn | exact Hs]].
  Qed.

  Theorem tiled_prev : forall b b', In b all -> In b' all -> f_name b = f_name b' ->
    f_end b' < f_start b -> exists t, In t all /\ f_name t = f_name b /\ f_end t + 1 = f_start b.
  Proof.
    intros b b' Hb Hb' Hname Hlt.
    destruct (tiled_get b Hb) as (sorted & E & HP & HT & _).
    pose proof (tiled_mem b b sorted Hb eq_refl HP) as Hin.
    pose proof (tiled_mem b b' sorted Hb' Hname HP) as Hin'.
    pose proof (tiling_bounds _ _ _ HT) as Hbd.
    rewrite Forall_forall in Hbd. pose proof (Hbd b' Hin') as Hbd'. cbn beta in Hbd'.
    assert (Hlt1 : 1 < f_start b) by lia.
    destruct (tiling_prev _ _ _ _ HT Hin Hlt1) as (t & Ht & Hs).
    exists t.
    apply (Permutation_in t (Permutation_sym HP)) in Ht.
    apply filter_In in Ht. destruct Ht as (Ht & Hn). apply str_eqb_eq in Hn.
    split; [exact Ht | split; [exact Hn | exact Hs]].
  Qed.

  (* a piece that does not start its scaffold is one of several, hence at least 2 texels >= 1 error length *)
  Theorem tiled_big : forall b, In b all -> 1 < f_start b -> error_length (n, d) <= f_len b.
  Proof.
    intros b Hb Hlt.
    destruct (tiled_get b Hb) as (sorted & E & HP & HT & Hbig).
    pose proof (tiled_mem b b sorted Hb eq_refl HP) as Hin.
    destruct Hbig as [Hone | Hbig].
    - exfalso. destruct sorted as [|x [|y t]]; try discriminate Hone.
      destruct Hin as [Hx | []]. subst x.
      apply (proj1 (tiling_one _ _ _)) in HT. lia.
    - rewrite Forall_forall in Hbig. specialize (Hbig b Hin). cbn beta in Hbig.
      unfold error_length. cbn [fst snd].
      apply (Z.mul_le_mono_pos_l _ _ d Hd).
      rewrite Z.mul_add_distr_l.
      pose proof (Z.mul_div_le n d Hd) as Hdiv. lia.
  Qed.
End Tiling.

Print Assumptions tiled_valid.
Print Assumptions tiled_disjoint.
Print Assumptions tiled_next.
Print Assumptions tiled_prev.
Print Assumptions tiled_big.
